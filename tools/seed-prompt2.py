import sys, json, glob, os
pid=sys.argv[1]
base=open('/verif/tools/seed-prompt.py').read()
prev=[]
for d in sorted(glob.glob('/verif/seeded/%s-*'%pid)):
    m=json.load(open(os.path.join(d,'meta.json'))); prev.append("- "+(m.get('summary') or '').strip())
import subprocess
txt=subprocess.run([sys.executable,'/verif/tools/seed-prompt.py',pid],capture_output=True,text=True).stdout
txt=txt.replace("/tmp/seed-%s"%pid, "/tmp/seedR-%s"%pid)
extra="\n\nADDITIONAL RULES FOR THIS ROUND:\n* Other engineers already delivered the following changes for this property; yours must be DIFFERENT in mechanism and code site (do not repeat or trivially vary them):\n"+"\n".join(prev)+"\n* Prefer changes that are harder to notice: ones that only matter for a rare configuration, a boundary value, a specific ordering of two operations, an error path, or the interaction of two features (for example a non-default option, a second digest algorithm, an uncommon store type, a particular worker count).\n* Put a file out/go.mod containing `module out` into your out/ directory so `go test ./...` does not compile your demo files as a package. NEVER use `git stash` (it is shared between worktrees): keep your change as a patch file and use `git apply` / `git apply -R`.\n"
print(txt+extra)
