import sys
pid=sys.argv[1]
import json
for l in open('/verif/properties.jsonl'):
    j=json.loads(l)
    if j['id']==pid: break
prop="ID: %s\nTitle: %s\nStatement: %s\nQuantified over: %s\nCode anchors (files): %s\n" % (j['id'], j['title'], j['statement'], j['quantifier']['text'], ", ".join(j['anchors']['files']))
print(f"""You are a software engineer doing a robustness exercise on the Go project folbricht/desync (a Go reimplementation of casync: content-defined chunking, chunk stores, index files, catar archives, seeds, FUSE mounts).

You have your OWN scratch git worktree of the repository at /tmp/seed-{pid} (work ONLY there; never touch /repo, never look at or touch /verif; do not read any directory other than /tmp/seed-{pid}, the Go module cache and the Go standard library). There is no network. Use `export GOFLAGS= GOPROXY=off GOSUMDB=off GOTOOLCHAIN=local` and run go commands inside /tmp/seed-{pid}. The existing test suite is `go test -vet=off -count=1 ./...` (one test, TestMountIndex, always fails in this sandbox because FUSE cannot be mounted — ignore that one; everything else passes).

Here is a semantic property users of this code rely on:

{prop}
YOUR TASK: produce TWO independent, realistic source changes to the library/CLI code (not to tests), each of which BREAKS this property while the code still compiles and the ENTIRE existing test suite still passes (apart from TestMountIndex). Think of the kind of change a well-meaning developer could make during a refactoring, an optimisation or a "fix" — an off-by-one, a dropped check, a reordered pair of statements, a wrong comparison, a missed error path, a lock released too early, a boundary case handled wrongly. IMPORTANT: each change must need something SPECIFIC to manifest — a particular interleaving, a crash or fault at a particular point, a multi-step sequence of operations, an unusual input (a specific size/alignment/count), or two cooperating sites that each look fine alone — NOT something that ordinary use or the existing tests would expose at once. The two changes must be different in nature (different mechanism / different code site). Keep each change small (a few lines).

For EACH change deliver, in /tmp/seed-{pid}/out/1/ and /tmp/seed-{pid}/out/2/:
  - patch.diff : `git diff` of the change against the worktree's HEAD (only the source change, not the demo),
  - a demonstration: either demo_test.go (a Go test file to be dropped into the repository root package `desync` or into cmd/desync — say which in meta.json) or a small main program/script, which FAILS with the change applied and PASSES without it, deterministically or at least with high probability within a few seconds (if it needs repetition to hit an interleaving, loop inside the demo),
  - meta.json : {{"property": "{pid}", "summary": "<one sentence: what the change does>", "needs": "<what specific condition is needed for the violation to manifest>", "demo": "<exact command(s) to run the demonstration from /tmp/seed-{pid}>", "demo_location": "<where demo_test.go must be placed>", "suite_passes": true}}.
Verify all of it yourself: (a) with the change applied, `go build ./...` works and `go test -vet=off -count=1 ./...` passes except TestMountIndex; (b) the demo fails with the change and passes on the clean worktree. Leave the worktree CLEAN at the end (git checkout -- . ; remove any demo files you dropped into the tree; the out/ directory may stay, it is untracked).

Report back briefly: for each change the summary, the needs, and confirmation of (a) and (b).""")
