// C13 — archives written by desync are well-formed casync catar.
//
// Three sources feed desync.Tar: (a) a synthetic FilesystemReader (no disk), (b) a generated
// tree on disk through desync.NewLocalFS, (c) a tar stream through desync.NewTarReader. The
// oracle is the independent validator/decoder of internal/catar (own SipHash-2-4, own
// complete-BST layout), a node-by-node comparison of the decoded tree with the source listing,
// and a byte comparison with the independent encoder's output for that listing.
package c13

import (
	"bytes"
	"context"
	"fmt"
	"os"
	"path/filepath"
	"runtime/debug"
	"sync"
	"testing"
	"time"

	"github.com/folbricht/desync"
	"pgregory.net/rapid"

	"verifharness/internal/catar"
	"verifharness/internal/gen"
	"verifharness/internal/hx"
)

type Case struct {
	Src       string `json:"src"`                 // synth | disk | tar
	Order     string `json:"order,omitempty"`     // synth, tar: sorted | given (disk is always sorted by the walk)
	RootPath  string `json:"root_path,omitempty"` // synth: File.Path of the root
	TarFormat string `json:"tar_format,omitempty"`
	AddRoot   bool   `json:"add_root,omitempty"`   // tar: stream without root entry + TarReaderOptions.AddRoot
	DotPrefix bool   `json:"dot_prefix,omitempty"` // tar: member names start with "./"
	Root      Spec   `json:"root"`
	Conc      int    `json:"conc,omitempty"`      // synth: additionally pack the tree this many times concurrently
	Spelling  string `json:"spelling,omitempty"`  // disk: how the root path is spelled (see spellings)
	CLI       bool   `json:"cli,omitempty"`       // disk: also run `desync tar` and `desync tar -i` (needs $VERIF_DESYNC_BIN)
	Prior     string `json:"prior,omitempty"`     // CLI: state of the catar output path before the command (see priors)
	PriorIdx  string `json:"prior_idx,omitempty"` // CLI: state of the caidx output path before the command
	CLIOut    string `json:"cli_out,omitempty"`   // CLI: file (output paths with a history) | stdout (output "-", stdout captured apart from stderr)
	Fault     *Fault `json:"fault,omitempty"`     // additionally pack the tree into a destination that fails (fault_test.go)
	Unpriv    string `json:"unpriv,omitempty"`    // disk: pack in a child running as uid/gid 65534; what it cannot read (see unprivModes)
	VictimPos int    `json:"victim_pos,omitempty"`
	NoTime    bool   `json:"no_time,omitempty"` // disk: LocalFSOptions.NoTime / `desync tar --no-time`: every mtime in the archive is 0
	OneFS     bool   `json:"one_fs,omitempty"`  // disk: LocalFSOptions.OneFileSystem / `desync tar -x` (the tree is on one filesystem: no effect)
}

// xattr names from every namespace, many of them made of the characters of "SCHILY.xattr."
// (the PAX record prefix the tar source has to cut off)
var xattrNames = []string{"trusted.x", "trusted.overlay.opaque", "trusted.LYC", "trusted.tar", "trusted.a", "system.tar", "user.xattr.x", "a", "r.a.t",
	"security.x", "security.y.z", "xattr.x", "SCHILY.xattr.user.a", "user.SCHILY", "t", "...", "user..", "trusted..x"}

func (c Case) localOpts() desync.LocalFSOptions {
	return desync.LocalFSOptions{NoTime: c.NoTime, OneFileSystem: c.OneFS}
}

func zeroTimes(n *catar.Node) {
	n.MTimeNs = 0
	for _, k := range n.Children {
		zeroTimes(k)
	}
}

// spellings of the root path handed to NewLocalFS / the CLI. The tree lives at <scratch>/p/root,
// <scratch>/p/x is an empty directory. Every spelling names the same directory, so every
// spelling must produce the same archive.
var spellings = []string{"canonical", "slash", "slashdot", "dotslash", "relative", "dslash", "dotmid", "updown", "slashes"}

// spell returns the argument and, for relative spellings, the working directory to use.
func spell(spelling, parent string, isDir bool) (arg, cwd, used string) {
	if !isDir { // "file/" is ENOTDIR
		switch spelling {
		case "slash", "slashdot", "slashes":
			spelling = "dotmid"
		}
	}
	switch spelling {
	case "slash":
		return parent + "/root/", "", spelling
	case "slashdot":
		return parent + "/root/.", "", spelling
	case "slashes":
		return parent + "/root//", "", spelling
	case "dotslash":
		return "./root", parent, spelling
	case "relative":
		return "root", parent, spelling
	case "dslash":
		return parent + "//root", "", spelling
	case "dotmid":
		return parent + "/./root", "", spelling
	case "updown":
		return parent + "/x/../root", "", spelling
	}
	return parent + "/root", "", "canonical"
}

// ------------------------------------------------------------------ generator

var bulkMagic = []int{0, 1, 2, 3, 4, 5, 6, 7, 8, 9, 15, 16, 17, 31, 32, 33, 63, 64, 65, 127, 128, 129, 255, 256, 257, 511, 512, 513, 1023, 1024, 1025}

var oddNames = []string{".x", "..x", "...", " ", "-", "-rf", "\n", "a b", "\\", "*", "\xff", "\x01", ".hidden", "é", "a\tb", "~", "#", "%00", "..."}

const asciiAlpha = "abcdefghijklmnopqrstuvwxyzABCDEFGHIJKLMNOPQRSTUVWXYZ0123456789._- "

func genName(t *rapid.T) []byte {
	switch rapid.IntRange(0, 9).Draw(t, "nameclass") {
	case 0:
		return []byte(rapid.SampledFrom(oddNames).Draw(t, "odd"))
	case 1, 2:
		r := rng(rapid.Uint64().Draw(t, "nameseed"))
		return nameBytes(rapid.SampledFrom([]int{255, 255, 254}).Draw(t, "longlen"), &r)
	case 3, 4, 5, 6:
		n := rapid.IntRange(1, 12).Draw(t, "alen")
		r := rng(rapid.Uint64().Draw(t, "nameseed"))
		b := make([]byte, n)
		for i := range b {
			b[i] = asciiAlpha[r.next()%uint64(len(asciiAlpha))]
		}
		return b
	default:
		n := rapid.SampledFrom([]int{1, 2, 3, 5, 8, 16, 40, 100, 200, 255}).Draw(t, "blen")
		r := rng(rapid.Uint64().Draw(t, "nameseed"))
		return nameBytes(n, &r)
	}
}

type budget struct{ nodes, bulks int }

func genAttrs(t *rapid.T, s *Spec, src string) {
	if rapid.Bool().Draw(t, "permcommon") {
		s.Perm = rapid.SampledFrom([]uint32{0o644, 0o755, 0o600, 0, 0o7777, 0o4755, 0o2755, 0o1777, 0o777}).Draw(t, "perm")
	} else {
		s.Perm = uint32(rapid.IntRange(0, 0o7777).Draw(t, "perm"))
	}
	id := func(label string) uint32 {
		if rapid.Bool().Draw(t, label+"common") {
			return rapid.SampledFrom([]uint32{0, 0, 1, 1000, 65534, 65535, 65536, 1 << 31, 1<<32 - 2}).Draw(t, label)
		}
		return uint32(rapid.Uint32Range(0, 1<<32-2).Draw(t, label))
	}
	s.UID, s.GID = id("uid"), id("gid")
	if rapid.Bool().Draw(t, "mtcommon") {
		s.MTime = rapid.SampledFrom([]int64{0, 1, 999_999_999, 1_000_000_000, 1_500_000_000_123_456_789, 1 << 31 * 1_000_000_000, 4_000_000_000_000_000_001}).Draw(t, "mtime")
	} else {
		s.MTime = rapid.Int64Range(0, 1<<62).Draw(t, "mtime")
	}
	if rapid.IntRange(0, 3).Draw(t, "hasx") == 0 {
		ns := "user."
		if s.Kind != "reg" && s.Kind != "dir" && src == "disk" {
			ns = "trusted." // the kernel refuses user.* on symlinks and special files
		}
		nx := rapid.IntRange(1, 3).Draw(t, "nx")
		for i := 0; i < nx; i++ {
			k := ns + rapid.SampledFrom([]string{"a", "b", "k1", "mime_type", "z.z", "A"}).Draw(t, "xk")
			if rapid.IntRange(0, 2).Draw(t, "xanyns") == 0 { // on disk the kernel may refuse some: those are skipped
				k = rapid.SampledFrom(xattrNames).Draw(t, "xname")
			}
			l := rapid.SampledFrom([]int{0, 1, 1, 7, 40, 300}).Draw(t, "xl")
			v := gen.RandBytes(l, rapid.Uint64().Draw(t, "xseed"))
			if rapid.Bool().Draw(t, "xtext") {
				for j := range v {
					v[j] = 'a' + v[j]%26
				}
			}
			s.Xattrs = append(s.Xattrs, XA{K: k, V: v})
		}
	}
}

func genNode(t *rapid.T, src string, depth int, kind string, b *budget, chain int) Spec {
	b.nodes--
	s := Spec{Kind: kind}
	if depth > 0 {
		s.Name = genName(t)
	}
	genAttrs(t, &s, src)
	switch kind {
	case "reg":
		s.Size = rapid.SampledFrom([]int{0, 0, 1, 15, 16, 17, 100, 4096, 70000}).Draw(t, "size")
		s.Seed = rapid.Uint64().Draw(t, "seed")
	case "lnk":
		if rapid.Bool().Draw(t, "tcommon") {
			s.Target = []byte(rapid.SampledFrom([]string{"a", "../x", "/etc/passwd", ".", "..", "a/b/c", "/"}).Draw(t, "target"))
		} else {
			r := rng(rapid.Uint64().Draw(t, "tseed"))
			s.Target = nameBytes(rapid.IntRange(1, 300).Draw(t, "tlen"), &r)
		}
	case "chr", "blk":
		s.Major = uint32(rapid.SampledFrom([]int{0, 1, 8, 255, 256, 4095}).Draw(t, "major"))
		s.Minor = uint32(rapid.SampledFrom([]int{0, 1, 255, 256, 65535, 1<<20 - 1}).Draw(t, "minor"))
	case "dir":
		if depth >= 5 {
			break
		}
		nk := rapid.IntRange(0, 4).Draw(t, "nkids")
		for i := 0; i < nk && b.nodes > 0; i++ {
			k := rapid.SampledFrom([]string{"dir", "dir", "dir", "reg", "reg", "reg", "reg", "reg", "lnk", "lnk", "chr", "blk", "special"}).Draw(t, "kind")
			if k == "special" {
				k = "reg"
				if rapid.IntRange(0, 31).Draw(t, "special?") == 0 {
					k = rapid.SampledFrom([]string{"fifo", "sock"}).Draw(t, "specialkind")
				}
			}
			s.Kids = append(s.Kids, genNode(t, src, depth+1, k, b, 0))
		}
		if chain > 0 && b.nodes > 0 {
			s.Kids = append(s.Kids, genNode(t, src, depth+1, "dir", b, chain-1))
		}
		if b.bulks > 0 && rapid.IntRange(0, 2).Draw(t, "bulk?") > 0 {
			b.bulks--
			maxN := map[string]int{"synth": hx.Pick(1100, 5000), "disk": hx.Pick(33, 300), "tar": hx.Pick(600, 2500)}[src]
			var n int
			if rapid.IntRange(0, 3).Draw(t, "bulkmagic") > 0 {
				n = rapid.SampledFrom(bulkMagic).Draw(t, "bulkn")
			} else {
				n = rapid.IntRange(0, maxN).Draw(t, "bulkn")
			}
			for n > maxN { // keep the magic values, shrink towards the source's budget
				n = n/8 + n%8
			}
			bk := &Bulk{N: n, Seed: rapid.Uint64().Draw(t, "bulkseed"),
				Scheme: rapid.SampledFrom([]string{"mix", "mix", "seq", "long"}).Draw(t, "scheme")}
			if bk.Scheme == "mix" && rapid.Bool().Draw(t, "fixlen") {
				bk.Len = rapid.SampledFrom([]int{3, 4, 8, 100, 255}).Draw(t, "bulklen")
			}
			s.Bulk = bk
		}
	}
	return s
}

func genCase(t *rapid.T) Case {
	var c Case
	c.Src = rapid.SampledFrom([]string{"synth", "synth", "synth", "synth", "disk", "disk", "tar", "tar"}).Draw(t, "src")
	if c.Src == "synth" && rapid.IntRange(0, 3).Draw(t, "conc?") == 0 {
		c.Conc = rapid.IntRange(2, 8).Draw(t, "conc")
	}
	c.Order = rapid.SampledFrom([]string{"sorted", "given"}).Draw(t, "order")
	switch c.Src {
	case "synth":
		c.RootPath = rapid.SampledFrom([]string{".", "/", "r", "/a/b", "a/b", "/tmp/x y"}).Draw(t, "rootpath")
	case "disk":
		c.Spelling = rapid.SampledFrom(append([]string{"canonical", "canonical", "slash"}, spellings...)).Draw(t, "spelling")
		c.NoTime = rapid.IntRange(0, 3).Draw(t, "notime") == 0
		c.OneFS = rapid.IntRange(0, 3).Draw(t, "onefs") == 0
		if rapid.IntRange(0, hx.Pick(15, 5)).Draw(t, "unpriv?") == 0 {
			c.Unpriv = rapid.SampledFrom(append([]string{"file000-nonempty", "file000-nonempty"}, unprivModes...)).Draw(t, "unpriv")
			c.VictimPos = rapid.IntRange(0, 2).Draw(t, "victimpos")
		}
		if cliBin() != "" && rapid.IntRange(0, hx.Pick(23, 5)).Draw(t, "cli?") == 0 {
			c.CLI = true
			c.Prior = rapid.SampledFrom(append([]string{"longer", "bigger"}, priors...)).Draw(t, "prior")
			c.PriorIdx = rapid.SampledFrom(append([]string{"longer"}, priors...)).Draw(t, "prioridx")
			c.CLIOut = rapid.SampledFrom([]string{"file", "file", "file", "stdout", "stdout"}).Draw(t, "cliout")
		}
	case "tar":
		c.TarFormat = rapid.SampledFrom([]string{"pax", "gnu"}).Draw(t, "tarformat")
		c.AddRoot = rapid.Bool().Draw(t, "addroot")
		c.DotPrefix = rapid.Bool().Draw(t, "dotprefix")
	}
	chain := 0
	if rapid.IntRange(0, 2).Draw(t, "chain?") == 0 {
		chain = rapid.IntRange(3, 5).Draw(t, "chain")
	}
	b := &budget{nodes: 40, bulks: 2}
	rootKind := "dir"
	if c.Src != "tar" && c.Unpriv == "" && rapid.IntRange(0, 49).Draw(t, "rootkind?") == 0 { // archive of a single non-directory
		rootKind = rapid.SampledFrom([]string{"reg", "reg", "lnk", "chr", "blk"}).Draw(t, "rootkind")
	}
	c.Root = genNode(t, c.Src, 0, rootKind, b, chain)
	if c.CLI && rootKind == "dir" && rapid.IntRange(0, 2).Draw(t, "clispecial?") > 0 {
		// a node type desync skips with a warning: the warning must not end up in the output
		k := rapid.SampledFrom([]string{"fifo", "sock"}).Draw(t, "clispecial")
		c.Root.Kids = append(c.Root.Kids, Spec{Name: []byte("a " + k + " to skip"), Kind: k, Perm: 0o644, MTime: 1})
	}
	if rapid.IntRange(0, 7).Draw(t, "fault?") == 0 {
		c.Fault = genFault(t)
	}
	return c
}

// ------------------------------------------------------------------ one case

func hasSpecial(n *tnode) bool {
	if n.kind == "fifo" || n.kind == "sock" {
		return true
	}
	for _, k := range n.kids {
		if hasSpecial(k) {
			return true
		}
	}
	return false
}

func sockToFifo(n *tnode) {
	if n.kind == "sock" {
		n.kind = "fifo"
	}
	for _, k := range n.kids {
		sockToFifo(k)
	}
}

// dropSkipped removes from the source listing the fifos and sockets that the archive does
// not contain at all: desync documents that it skips (and warns about) node types it cannot
// encode. A fifo or socket that is present must be a proper ENTRY-only node.
func dropSkipped(want, got *catar.Node) *catar.Node {
	if want == nil || got == nil || !want.IsDir() {
		return want
	}
	names := map[string]*catar.Node{}
	for _, g := range got.Children {
		names[g.Name] = g
	}
	cp := *want
	cp.Children = nil
	for _, w := range want.Children {
		k := w.Kind()
		if (k == catar.S_IFIFO || k == catar.S_IFSOCK) && names[w.Name] == nil {
			continue
		}
		cp.Children = append(cp.Children, dropSkipped(w, names[w.Name]))
	}
	return &cp
}

func silenceStderr() func() {
	null, err := os.OpenFile(os.DevNull, os.O_WRONLY, 0)
	if err != nil {
		return func() {}
	}
	old := os.Stderr
	os.Stderr = null
	return func() { os.Stderr = old; null.Close() }
}

func run(c Case) (o hx.Outcome) {
	src := c.Src
	if src != "disk" && src != "tar" {
		src = "synth"
	}
	tree := expand(c.Root, true, 0)
	if src == "tar" {
		sockToFifo(tree)
		if tree.kind != "dir" { // a tar stream describes the members of a directory
			tree = expand(Spec{Kind: "dir", Perm: 0o755, Kids: []Spec{c.Root}}, true, 0)
			sockToFifo(tree)
		}
	}
	if c.Order != "given" || src == "disk" {
		sortTree(tree)
	}
	if hasSpecial(tree) {
		defer silenceStderr()()
	}

	var (
		out   bytes.Buffer
		want  *catar.Node
		err   error
		notes diskNotes
		mk    func() desync.FilesystemReader // a fresh reader over the same source

		unprivSkip bool // unprivileged child: no archive to judge
	)
	switch src {
	case "synth":
		rp := c.RootPath
		if rp == "" {
			rp = "."
		}
		want = tree.listing()
		mk = func() desync.FilesystemReader { return newSynthFS(tree, rp) }
		err = desync.Tar(context.Background(), &out, newSynthFS(tree, rp))
		if err == nil && c.Conc > 1 {
			// several Tar calls at once in one process (library / server use): each must produce
			// the same, valid archive as the call that ran alone
			type res struct {
				b   []byte
				err error
			}
			results := make([]res, c.Conc)
			var wg sync.WaitGroup
			for g := 0; g < c.Conc && g < 16; g++ {
				wg.Add(1)
				go func(g int) {
					defer wg.Done()
					defer func() {
						if r := recover(); r != nil {
							results[g].err = fmt.Errorf("panic: %v", r)
						}
					}()
					var b bytes.Buffer
					results[g].err = desync.Tar(context.Background(), &b, newSynthFS(tree, rp))
					results[g].b = b.Bytes()
				}(g)
			}
			wg.Wait()
			o.Class("concurrent-tar")
			for g, r := range results[:min(c.Conc, 16)] {
				if r.err != nil {
					o.Fail("C13:concurrent:tar-failed", "Tar call %d of %d concurrent ones failed: %v", g, c.Conc, r.err)
				} else if !bytes.Equal(r.b, out.Bytes()) {
					o.Fail("C13:concurrent:archive-differs", "Tar call %d of %d concurrent ones wrote an archive (%d bytes) that differs from the one written by the call that ran alone (%d bytes)", g, c.Conc, len(r.b), out.Len())
					break
				}
			}
		}
	case "disk":
		dir := hx.Scratch("c13")
		defer os.RemoveAll(dir)
		parent := filepath.Join(dir, "p")
		if merr := os.MkdirAll(filepath.Join(parent, "x"), 0o755); merr != nil {
			panic(fmt.Sprintf("harness: %v", merr))
		}
		root := filepath.Join(parent, "root")
		unpriv := c.Unpriv != "" && tree.kind == "dir"
		if unpriv && unprivClass(c.Unpriv) == "all-readable" {
			c.Unpriv = "readable"
		}
		if unpriv {
			prepareUnpriv(tree, c.Unpriv, c.VictimPos)
		}
		if merr := materialise(root, tree, &notes); merr != nil {
			panic(fmt.Sprintf("harness: cannot build the tree on disk: %v", merr))
		}
		if want, err = snapshot(root, ""); err != nil {
			panic(fmt.Sprintf("harness: cannot list the tree on disk: %v", err))
		}
		if unpriv {
			os.Chmod(parent, 0o755)
			archive, tarErr, infra := tarUnprivileged(parent)
			if infra != nil {
				o.Class("unprivileged:child-failed")
				fmt.Fprintf(os.Stderr, "C13: unprivileged child could not run: %v\n", infra)
				err = nil
				unprivSkip = true
				break
			}
			o.Class("unprivileged", "unprivileged:"+unprivClass(c.Unpriv))
			if tarErr != "" {
				o.Class("unprivileged:tar-error")
				if c.Unpriv == "readable" {
					err = fmt.Errorf("as uid %d: %s", unprivID, tarErr)
				} else {
					unprivSkip = true // refusing a tree that cannot be read completely is correct
				}
				break
			}
			o.Class("unprivileged:tar-ok")
			out.Write(archive)
			if c.Unpriv != "readable" && c.Unpriv != "file000-empty" {
				o.Fail("C13:unprivileged:success-with-unreadable-content", "Tar, run as uid %d, returned nil for a tree with %s: the archive (%d bytes) cannot describe what the reader was not allowed to read", unprivID, c.Unpriv, len(archive))
			}
			break
		}
		if c.NoTime {
			o.Class("option:no-time")
			zeroTimes(want) // "set file timestamps to zero in the archive"; everything else as without the option
		}
		if c.OneFS {
			o.Class("option:one-file-system")
		}
		if !c.NoTime && !c.OneFS {
			o.Class("option:none")
		}
		arg, cwd, used := spell(c.Spelling, parent, tree.kind == "dir")
		o.Class("root-spelling:" + used)
		if cwd != "" {
			old, werr := os.Getwd()
			if werr != nil || os.Chdir(cwd) != nil {
				panic("harness: cannot change the working directory")
			}
			defer os.Chdir(old)
		}
		mk = func() desync.FilesystemReader { return desync.NewLocalFS(arg, c.localOpts()) }
		err = desync.Tar(context.Background(), &out, desync.NewLocalFS(arg, c.localOpts()))
		if used != "canonical" {
			// every spelling names the same directory: the archive must not depend on it
			o.Class("root-spelling:non-canonical")
			var canon bytes.Buffer
			if cerr := desync.Tar(context.Background(), &canon, desync.NewLocalFS(root, c.localOpts())); cerr == nil && err == nil && !bytes.Equal(canon.Bytes(), out.Bytes()) {
				o.Fail("C13:root-spelling:archive-differs", "the same tree packed through NewLocalFS(%q) gives %d bytes, through the canonical spelling %q %d bytes", arg, out.Len(), root, canon.Len())
			}
		}
		if c.CLI && cliBin() != "" && err == nil {
			flags := uint64(0)
			if g, _ := catar.ValidateAll(out.Bytes(), catar.ValidateOptions{}); g != nil {
				flags = g.Flags
			}
			cliTar(&o, c, dir, cwd, arg, out.Bytes(), want, flags, hasSpecial(tree))
		}
	case "tar":
		format := c.TarFormat
		if format != "gnu" {
			format = "pax"
		}
		var stream []byte
		var terr error
		stream, want, terr = buildTar(tree, format, c.AddRoot, c.DotPrefix)
		if terr != nil {
			panic(fmt.Sprintf("harness: archive/tar refused the generated tree: %v", terr))
		}
		mk = func() desync.FilesystemReader {
			return desync.NewTarReader(bytes.NewReader(stream), desync.TarReaderOptions{AddRoot: c.AddRoot})
		}
		err = desync.Tar(context.Background(), &out, desync.NewTarReader(bytes.NewReader(stream), desync.TarReaderOptions{AddRoot: c.AddRoot}))
	}

	// evidence
	sh := shapeOf(want)
	o.Desc = map[string]any{"src": src, "order": c.Order, "nodes": sh.nodes, "dirs": sh.dirs, "max_fanout": sh.maxFan, "depth": sh.depth,
		"max_name": sh.maxName, "kinds": sh.kinds, "xattrs": sh.xattrs, "archive_bytes": out.Len(), "fanouts": clip(sh.fanKey(), 120)}
	o.Key = src + "|" + sh.fanKey()
	o.Nontrivial = sh.maxFan >= 3
	o.Class("src:" + src)
	seen := map[string]bool{}
	for f := range sh.fans {
		for _, cl := range fanClasses(f) {
			if !seen[cl] {
				seen[cl] = true
				o.Class(cl)
			}
		}
	}
	if sh.depth >= 3 {
		o.Class("depth>=3")
	}
	if sh.maxName == 255 {
		o.Class("namelen:255")
	}
	if sh.xattrs > 0 {
		o.Class("xattrs")
	}
	if sh.xTrusted {
		o.Class("xattr:trusted-namespace")
		if src == "tar" {
			o.Class("xattr:trusted-namespace:tar-source")
		}
	}
	if sh.xCharset {
		o.Class("xattr:name-from-prefix-charset")
		if src == "tar" {
			o.Class("xattr:name-from-prefix-charset:tar-source")
		}
	}
	if sh.xOtherNS {
		o.Class("xattr:other-namespace")
	}
	for _, k := range []string{"lnk", "chr", "blk", "special"} {
		if sh.kinds[k] > 0 {
			o.Class("kind:" + k)
		}
	}
	if src != "disk" && c.Order == "given" {
		o.Class("order:unsorted")
	}
	if !want.IsDir() {
		o.Class("root:not-a-directory")
	}
	if src == "tar" {
		o.Class("tar:" + map[bool]string{true: "addroot", false: "rootentry"}[c.AddRoot])
	}
	if notes.mknodRefused > 0 {
		o.Class("disk:mknod-refused")
	}
	if notes.xattrRefused > 0 {
		o.Class("disk:xattr-refused")
	}

	// verdict
	if unprivSkip {
		return o
	}
	if err != nil {
		o.Fail("C13:tar-error", "desync.Tar failed on a valid %s tree (%d nodes): %v", src, sh.nodes, err)
		return o
	}
	got, errs := catar.ValidateAll(out.Bytes(), catar.ValidateOptions{RequireSorted: src == "disk"})
	fatal := false
	codes := map[string]bool{}
	for _, e := range errs {
		fatal = fatal || e.Fatal
		if codes[e.Code] {
			continue
		}
		codes[e.Code] = true
		o.Fail("C13:invalid:"+e.Code, "archive from %s source (%d bytes, %d nodes, max fan-out %d) is not a well-formed catar: %v", src, out.Len(), sh.nodes, sh.maxFan, e)
	}
	if fatal || got == nil {
		return o
	}
	if c.Fault != nil && mk != nil {
		rootGoodbye := out.Len()
		if got.IsDir() {
			rootGoodbye -= 16 + 24*(len(got.Children)+1)
		}
		faultRun(&o, *c.Fault, mk, out.Bytes(), rootGoodbye)
	}
	if src == "tar" && c.AddRoot { // the root is made up by desync, there is nothing to compare it with
		want.Mode, want.UID, want.GID, want.MTimeNs, want.Xattrs = catar.S_IFDIR|0o755, 0, 0, got.MTimeNs, nil
	}
	want = dropSkipped(want, got)
	fields := map[string]bool{}
	diffs := catar.Diff(want, got)
	for _, d := range diffs {
		if fields[d.Field] {
			continue
		}
		fields[d.Field] = true
		o.Fail("C13:tree:"+d.Field, "tree decoded from the archive differs from the %s source listing at %v", src, d)
	}
	if len(errs) == 0 && len(diffs) == 0 {
		// a well-formed catar of a given tree with given feature flags is unique
		ref := catar.Encode(want, catar.EncodeOptions{DefaultFlags: got.Flags})
		if !bytes.Equal(ref, out.Bytes()) {
			i := 0
			for i < len(ref) && i < out.Len() && ref[i] == out.Bytes()[i] {
				i++
			}
			o.Fail("C13:reference-encoding-differs", "archive passes validation and lists the source tree, but differs from the independent encoder's output at byte %d (lengths %d vs %d)", i, out.Len(), len(ref))
		}
	}
	return o
}

func unprivClass(mode string) string {
	switch mode {
	case "file000-nonempty":
		return "unreadable-file:nonempty"
	case "file000-empty":
		return "unreadable-file:empty"
	case "dir000":
		return "unreadable-dir"
	case "dir-nox":
		return "dir-without-x"
	case "foreign-file-0600":
		return "foreign-file-0600"
	}
	return "all-readable"
}

func clip(s string, n int) string {
	if len(s) > n {
		return s[:n] + "…"
	}
	return s
}

var spec = &hx.Spec[Case]{
	ID:    "C13",
	Level: "exploration",
	Rule: "cases = (source: synthetic FilesystemReader | tree on disk via LocalFS | tar stream via TarReader; tree of depth <= 5 with dirs, files, symlinks, devices, " +
		"fifos/sockets, xattrs, names of 1..255 arbitrary bytes, directory fan-outs from {0..9, 2^k-1, 2^k, 2^k+1} and uniform; sibling order sorted or arbitrary; " +
		"any source: optionally a second Tar into a destination failing after k bytes / /dev/full; disk: root path in 9 spellings; CLI (if built): desync tar / tar -i over an output path that is absent, holds a shorter file, a longer file or the previous output of a bigger tree); " +
		"TestEnum additionally enumerates every root fan-out 0..1100 (quick) / 0..5000 (thorough); " +
		"non-trivial = some directory has >= 3 children; distinct by (source, multiset of directory fan-outs)",
	Assumptions: []string{
		"oracle: independent catar validator/decoder + encoder (internal/catar: own SipHash-2-4 checked against the paper's 64 vectors, own in-order heap fill), self-tested on every run against the four casync-made fixtures (accepted, listed, re-encoded byte-identically)",
		"XATTR layout as in DESIGN.md A.3 and in desync's reader/writer: key NUL value NUL; no casync-made fixture contains an XATTR element, so the byte after the value could not be checked against casync itself",
		"sorted-order rule applied to the disk source only (the statement claims it for packing from disk)",
		"fifos and sockets may be absent from the archive (desync documents skipping them); if present they must be ENTRY-only nodes",
		"tar source: the stream is in tar(1) order (parents first, depth first); with AddRoot the made-up root entry is not compared",
		"mtime >= 0; uid/gid <= 2^32-2; device major < 2^12, minor < 2^20; unique names per directory",
		"disk source: the root path is handed over in nine spellings of the same directory (canonical, trailing slash(es), /., ./x, relative, //, /./, /x/../); the archive must be the same for all",
		"failing destination: a writer that accepts the first k bytes of the archive (k over the whole length, favouring the tail; short or refused failing write) or /dev/full; Tar == nil must imply that every archive byte was accepted, a failed Write must make Tar fail",
		"xattr names from the user, trusted, security and system namespaces and without namespace (synthetic and tar source: all; disk: those the kernel accepts), many made of the characters of 'SCHILY.xattr.'",
		"disk source options: NoTime (every mtime in the archive must be exactly 0, the rest unchanged) and OneFileSystem (tree on one filesystem: archive unchanged), in the library and, if built, the CLI (--no-time, -x)",
		"unprivileged reader: the tree is packed by a re-exec'ed child of the test binary running as uid/gid 65534 (library Tar through LocalFS only, not the CLI); Tar may refuse a tree it cannot read completely, but success must come with a valid archive that describes exactly the tree as root lists it",
		"CLI level (desync tar, desync tar -i over output paths with a history, and with output '-' captured from stdout apart from stderr) only when the driver provides the freshly built CLI in $VERIF_DESYNC_BIN; a CLI run that exceeds 120 s is not judged",
	},
	Required: []string{"concurrent-tar", "src:synth", "src:disk", "src:tar", "fanout:0", "fanout:1", "fanout:2", "fanout:3", "fanout:2^k-1", "fanout:2^k", "fanout:2^k+1",
		"depth>=3", "namelen:255", "xattrs", "kind:lnk", "kind:chr", "kind:blk", "order:unsorted",
		"root-spelling:non-canonical", "root-spelling:canonical", "root-spelling:slash", "root-spelling:slashdot", "root-spelling:dotslash", "root-spelling:relative",
		"root-spelling:dslash", "root-spelling:dotmid", "root-spelling:updown", "root-spelling:slashes",
		"tar:writer-fails", "tar:writer-fails:in-last-64KiB", "tar:writer-fails:before-last-64KiB", "tar:writer-fails:delivered", "tar:writer-fails:k=0",
		"tar:writer-fails:in-last-100-bytes", "tar:writer-fails:in-root-goodbye", "tar:writer-fails:devfull",
		"option:no-time", "option:one-file-system", "option:none", "xattr:trusted-namespace", "xattr:trusted-namespace:tar-source",
		"xattr:name-from-prefix-charset", "xattr:name-from-prefix-charset:tar-source", "xattr:other-namespace",
		"unprivileged", "unprivileged:all-readable", "unprivileged:unreadable-file:nonempty", "unprivileged:unreadable-file:empty", "unprivileged:unreadable-dir",
		"unprivileged:dir-without-x", "unprivileged:foreign-file-0600", "unprivileged:tar-error", "unprivileged:tar-ok"},
	Gen: genCase,
	Run: run,
	// a case that never returns is a verdict (confirmed by a replay in a fresh process), not a timeout of the run
	Watchdog: hx.Pick(120*time.Second, 300*time.Second),
}

func TestMain(m *testing.M) {
	if os.Getenv(childEnv) != "" {
		os.Exit(childMain())
	}
	debug.SetGCPercent(400) // many short-lived trees: spend the time on cases, not on the collector
	if cliBin() != "" {
		spec.Required = append(spec.Required, cliRequired...)
	}
	hx.Main(m)
}

func TestRegress(t *testing.T) { hx.Regress(t, spec) }
func TestKnown(t *testing.T)   { hx.Known(t, spec) }
func TestReplay(t *testing.T)  { hx.Replay(t, spec) }

// TestSelf: the oracle must be right about archives whose correctness does not depend on desync.
func TestSelf(t *testing.T) {
	fail := func(format string, a ...any) {
		fmt.Printf("SELFTEST-FAILURE: "+format+"\n", a...)
		t.Fatalf(format, a...)
	}
	if err := catar.SelfTestSipHash(); err != nil {
		fail("%v", err)
	}
	if err := catar.SelfTestFixtures(filepath.Join(hx.Repo(), "testdata")); err != nil {
		fail("%v", err)
	}
	// the independent encoder's archive of a generated listing is accepted and lists that tree;
	// single-field corruptions of its goodbye tables are rejected
	tree := expand(Spec{Kind: "dir", Kids: []Spec{{Name: []byte("d"), Kind: "dir", Bulk: &Bulk{N: 70, Scheme: "mix", Seed: 5}}}, Bulk: &Bulk{N: 33, Scheme: "long", Seed: 9}}, true, 0)
	sortTree(tree)
	want := tree.listing()
	b := catar.Encode(want, catar.EncodeOptions{})
	got, errs := catar.ValidateAll(b, catar.ValidateOptions{RequireSorted: true})
	if len(errs) > 0 {
		fail("validator rejects the reference encoding: %v", errs[0])
	}
	if d := catar.Diff(want, got); len(d) > 0 {
		fail("validator lists the reference encoding wrongly: %v", d[0])
	}
	end := len(b) - 24*35 // first item of the root goodbye table
	for off, code := range map[int]string{0: "goodbye-item-offset", 8: "goodbye-item-size", 16: "goodbye-item-hash"} {
		c := append([]byte(nil), b...)
		c[end+off] ^= 1
		_, errs := catar.ValidateAll(c, catar.ValidateOptions{})
		found := false
		for _, e := range errs {
			found = found || e.Code == code
		}
		if !found {
			fail("validator misses a corrupted goodbye item (%s): %v", code, errs)
		}
	}
	sw := append([]byte(nil), b...)
	copy(sw[end:end+24], b[end+24:end+48])
	copy(sw[end+24:end+48], b[end:end+24])
	_, errs = catar.ValidateAll(sw, catar.ValidateOptions{})
	if len(errs) == 0 || errs[0].Code != "goodbye-bst" {
		fail("validator misses two swapped goodbye items: %v", errs)
	}
}

// TestEnum: every root fan-out 0..1100 (quick) / 0..5000 (thorough) through the synthetic
// reader, one name scheme (3..40 arbitrary bytes, arbitrary sibling order), mixed child kinds
// and sizes. The range is split over the shards.
func TestEnum(t *testing.T) {
	maxN := hx.Pick(1100, 5000)
	count := 0
	for n := hx.Shard(); n <= maxN; n += hx.Shards() {
		c := Case{Src: "synth", Order: "given", RootPath: ".",
			Root: Spec{Kind: "dir", Perm: 0o755, MTime: 1, Bulk: &Bulk{N: n, Scheme: "mix", Seed: uint64(n)*7919 + 1}}}
		if !hx.Case(t, spec, c) {
			return
		}
		count++
	}
	// every fault position k of a destination that fails after k bytes, for a few small archives
	// (under 64 KiB), and the tail region plus the 64 KiB boundary of a larger one
	file := func(name string, size int) Spec {
		return Spec{Name: []byte(name), Kind: "reg", Perm: 0o644, MTime: 1, Size: size, Seed: uint64(size) + 1}
	}
	dir := func(name string, kids ...Spec) Spec {
		return Spec{Name: []byte(name), Kind: "dir", Perm: 0o755, MTime: 1, Kids: kids}
	}
	smalls := []Spec{
		dir(""),
		dir("", file("a", 5)),
		dir("", file("a", 0), Spec{Name: []byte("l"), Kind: "lnk", Perm: 0o777, Target: []byte("a")}, dir("d", file("x", 33), dir("e")), Spec{Name: []byte("c"), Kind: "chr", Major: 1, Minor: 3}),
	}
	faults := 0
	for _, root := range smalls {
		L := len(catar.Encode(expand(root, true, 0).listing(), catar.EncodeOptions{}))
		for k := hx.Shard(); k < L; k += hx.Shards() {
			if !hx.Case(t, spec, Case{Src: "synth", Order: "given", RootPath: ".", Root: root, Fault: &Fault{Sel: "abs", Val: k, Short: k%2 == 0}}) {
				return
			}
			faults++
		}
	}
	big := dir("", file("big", 70000), file("b", 10), dir("d", file("x", 1)))
	L := len(catar.Encode(expand(big, true, 0).listing(), catar.EncodeOptions{}))
	ks := []int{0, 1, 64, 4096, L / 2, L - 65537, L - 65536, L - 65535}
	for k := L - 300; k < L; k++ {
		ks = append(ks, k)
	}
	for i, k := range ks {
		if i%hx.Shards() != hx.Shard() {
			continue
		}
		if !hx.Case(t, spec, Case{Src: "synth", Order: "given", RootPath: ".", Root: big, Fault: &Fault{Sel: "abs", Val: k, Short: i%2 == 0}}) {
			return
		}
		faults++
	}
	hx.AddNote("enumerated_fault_positions", faults)
	hx.Exhaustive("Tar into a destination failing after k bytes: every k of three small archives (synthetic reader), split over the shards")
	hx.AddNote("enumerated_fanouts", count)
	hx.Exhaustive(fmt.Sprintf("every root directory fan-out 0..%d (synthetic reader, one name scheme), split over the shards", maxN))
}

func TestProp(t *testing.T) { hx.Prop(t, spec) }
