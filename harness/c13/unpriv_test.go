package c13

// Unprivileged dimension of C13: the harness runs as root, for whom every file is readable.
// Here the tree is packed by a re-exec'ed child of the test binary that changes into the
// tree's parent directory and then drops to uid/gid 65534 for good (all threads), so that
// LocalFS meets files and directories it can lstat but not open.

import (
	"bytes"
	"context"
	"fmt"
	"os"
	"os/exec"
	"strings"
	"syscall"
	"time"

	"github.com/folbricht/desync"
)

const (
	unprivID       = 65534
	childEnv       = "C13_CHILD"
	childDirEnv    = "C13_CHILD_DIR"
	childExitError = 7 // desync.Tar returned an error
)

// unprivModes: what the unprivileged reader cannot read in the tree.
var unprivModes = []string{"readable", "file000-nonempty", "file000-empty", "dir000", "dir-nox", "foreign-file-0600"}

// victim names: sorted first, in the middle, last among the root's children
var victimNames = []string{"\x01 victim", "m victim", "\xff\xff victim"}

// prepareUnpriv makes the whole tree the property of (and readable for) the unprivileged user
// and then plants the one thing it cannot read.
func prepareUnpriv(root *tnode, mode string, pos int) {
	var walk func(n *tnode)
	walk = func(n *tnode) {
		n.uid, n.gid = unprivID, unprivID
		switch n.kind {
		case "dir":
			n.perm |= 0o755
		case "reg":
			n.perm |= 0o644
		}
		keep := n.xattrs[:0:0] // trusted.* is invisible without CAP_SYS_ADMIN: user.* on files and directories only
		for _, x := range n.xattrs {
			if strings.HasPrefix(x.Key, "user.") && (n.kind == "reg" || n.kind == "dir") {
				keep = append(keep, x)
			}
		}
		n.xattrs = keep
		for _, k := range n.kids {
			walk(k)
		}
	}
	walk(root)
	name := victimNames[((pos%3)+3)%3]
	v := &tnode{name: name, uid: unprivID, gid: unprivID, mtime: 1}
	inner := &tnode{name: "inside", kind: "reg", perm: 0o644, uid: unprivID, gid: unprivID, mtime: 1, data: []byte("content")}
	switch mode {
	case "file000-nonempty":
		v.kind, v.perm, v.data = "reg", 0, []byte("ten bytes!")
	case "file000-empty":
		v.kind, v.perm, v.data = "reg", 0, []byte{}
	case "dir000":
		v.kind, v.perm, v.kids = "dir", 0, []*tnode{inner}
	case "dir-nox":
		v.kind, v.perm, v.kids = "dir", 0o644, []*tnode{inner}
	case "foreign-file-0600":
		v.kind, v.perm, v.uid, v.gid, v.data = "reg", 0o600, 0, 0, []byte("root's own")
	default:
		return
	}
	kids := root.kids[:0:0]
	for _, k := range root.kids {
		if k.name != name {
			kids = append(kids, k)
		}
	}
	root.kids = append(kids, v)
	sortTree(root)
}

// childMain is the body of the re-exec'ed child: stdout = the archive, exit status 0 = Tar
// returned nil, childExitError = Tar returned an error (text on stderr).
func childMain() int {
	if err := os.Chdir(os.Getenv(childDirEnv)); err != nil {
		fmt.Fprintln(os.Stderr, "child: chdir:", err)
		return 2
	}
	if err := syscall.Setgroups([]int{}); err != nil {
		fmt.Fprintln(os.Stderr, "child: setgroups:", err)
		return 2
	}
	if err := syscall.Setgid(unprivID); err != nil {
		fmt.Fprintln(os.Stderr, "child: setgid:", err)
		return 2
	}
	if err := syscall.Setuid(unprivID); err != nil {
		fmt.Fprintln(os.Stderr, "child: setuid:", err)
		return 2
	}
	if syscall.Geteuid() != unprivID || syscall.Getuid() != unprivID {
		fmt.Fprintln(os.Stderr, "child: still privileged")
		return 2
	}
	var buf bytes.Buffer
	if err := desync.Tar(context.Background(), &buf, desync.NewLocalFS("root", desync.LocalFSOptions{})); err != nil {
		fmt.Fprintln(os.Stderr, err)
		return childExitError
	}
	if _, err := os.Stdout.Write(buf.Bytes()); err != nil {
		return 2
	}
	return 0
}

// tarUnprivileged packs <parent>/root in the unprivileged child.
// tarErr != "" : Tar returned an error; infra != nil: the child could not do its job.
func tarUnprivileged(parent string) (archive []byte, tarErr string, infra error) {
	ctx, cancel := context.WithTimeout(context.Background(), 100*time.Second)
	defer cancel()
	cmd := exec.CommandContext(ctx, os.Args[0], "-test.run=^$")
	cmd.Env = append(os.Environ(), childEnv+"=tar-unprivileged", childDirEnv+"="+parent)
	var so, se bytes.Buffer
	cmd.Stdout, cmd.Stderr = &so, &se
	err := cmd.Run()
	msg := se.String()
	if len(msg) > 400 {
		msg = msg[len(msg)-400:]
	}
	if err == nil {
		return so.Bytes(), "", nil
	}
	if ee, ok := err.(*exec.ExitError); ok && ee.ExitCode() == childExitError {
		if msg == "" {
			msg = "error"
		}
		return nil, msg, nil
	}
	return nil, "", fmt.Errorf("%v: %s", err, msg)
}
