package c13

import (
	"archive/tar"
	"bytes"
	"fmt"
	"io"
	"os"
	"path"
	"path/filepath"
	"sort"
	"time"

	"github.com/folbricht/desync"
	"golang.org/x/sys/unix"

	"verifharness/internal/catar"
)

// ------------------------------------------------------------------ (a) synthetic reader

// synthFS feeds desync.Tar from memory: depth-first, parents before children, the way
// LocalFS and TarReader deliver entries.
type synthFS struct {
	queue []*desync.File
	pos   int
}

var _ desync.FilesystemReader = (*synthFS)(nil)

func fileMode(n *tnode) os.FileMode {
	m := os.FileMode(n.perm & 0o777)
	if n.perm&0o4000 != 0 {
		m |= os.ModeSetuid
	}
	if n.perm&0o2000 != 0 {
		m |= os.ModeSetgid
	}
	if n.perm&0o1000 != 0 {
		m |= os.ModeSticky
	}
	switch n.kind {
	case "dir":
		m |= os.ModeDir
	case "lnk":
		m |= os.ModeSymlink
	case "chr":
		m |= os.ModeDevice | os.ModeCharDevice
	case "blk":
		m |= os.ModeDevice
	case "fifo":
		m |= os.ModeNamedPipe
	case "sock":
		m |= os.ModeSocket
	}
	return m
}

func newSynthFS(root *tnode, rootPath string) *synthFS {
	fs := &synthFS{}
	var walk func(n *tnode, p string)
	walk = func(n *tnode, p string) {
		f := &desync.File{
			Name:       path.Base(p),
			Path:       p,
			Mode:       fileMode(n),
			ModTime:    time.Unix(0, n.mtime),
			Uid:        int(n.uid),
			Gid:        int(n.gid),
			LinkTarget: n.target,
			DevMajor:   uint64(n.major),
			DevMinor:   uint64(n.minor),
		}
		if n != root {
			f.Name = n.name
		}
		if len(n.xattrs) > 0 {
			f.Xattrs = map[string]string{}
			for _, x := range n.xattrs {
				f.Xattrs[x.Key] = string(x.Val)
			}
		}
		if n.kind == "reg" {
			f.Size = uint64(len(n.data))
			f.Data = io.NopCloser(bytes.NewReader(n.data))
		}
		fs.queue = append(fs.queue, f)
		for _, k := range n.kids {
			walk(k, path.Clean(p+"/"+k.name))
		}
	}
	walk(root, path.Clean(rootPath))
	return fs
}

func (fs *synthFS) Next() (*desync.File, error) {
	if fs.pos >= len(fs.queue) {
		return nil, io.EOF
	}
	f := fs.queue[fs.pos]
	fs.queue[fs.pos] = nil
	fs.pos++
	return f, nil
}

// ------------------------------------------------------------------ (b) disk

type diskNotes struct {
	mknodRefused, xattrRefused int
}

// materialise creates n at path p (children first, directory times last).
func materialise(p string, n *tnode, notes *diskNotes) error {
	switch n.kind {
	case "dir":
		if err := os.Mkdir(p, 0o700); err != nil {
			return err
		}
		for _, k := range n.kids {
			if err := materialise(filepath.Join(p, k.name), k, notes); err != nil {
				return err
			}
		}
	case "reg":
		if err := os.WriteFile(p, n.data, 0o600); err != nil {
			return err
		}
	case "lnk":
		if err := os.Symlink(n.target, p); err != nil {
			return err
		}
	default:
		if err := unix.Mknod(p, kindBits(n.kind)|0o600, int(unix.Mkdev(n.major, n.minor))); err != nil {
			notes.mknodRefused++
			n.kind, n.data = "reg", nil
			if err := os.WriteFile(p, nil, 0o600); err != nil {
				return err
			}
		}
	}
	for _, x := range n.xattrs {
		if err := unix.Lsetxattr(p, x.Key, x.Val, 0); err != nil {
			notes.xattrRefused++
		}
	}
	if err := unix.Lchown(p, int(n.uid), int(n.gid)); err != nil {
		return fmt.Errorf("lchown %q: %w", p, err)
	}
	if n.kind != "lnk" {
		if err := unix.Chmod(p, n.perm); err != nil {
			return fmt.Errorf("chmod %q: %w", p, err)
		}
	}
	ts := unix.NsecToTimespec(n.mtime)
	if err := unix.UtimesNanoAt(unix.AT_FDCWD, p, []unix.Timespec{ts, ts}, unix.AT_SYMLINK_NOFOLLOW); err != nil {
		return fmt.Errorf("utimes %q: %w", p, err)
	}
	return nil
}

// snapshot lists what is really on disk at p with plain syscalls (names sorted bytewise):
// the source listing the archive is compared with.
func snapshot(p, name string) (*catar.Node, error) {
	var st unix.Stat_t
	if err := unix.Lstat(p, &st); err != nil {
		return nil, err
	}
	n := &catar.Node{Name: name, Mode: st.Mode, UID: uint64(st.Uid), GID: uint64(st.Gid),
		MTimeNs: uint64(st.Mtim.Sec)*1e9 + uint64(st.Mtim.Nsec)}
	// xattrs
	sz, err := unix.Llistxattr(p, nil)
	if err == nil && sz > 0 {
		buf := make([]byte, sz)
		sz, err = unix.Llistxattr(p, buf)
		if err != nil {
			return nil, err
		}
		var keys []string
		for _, k := range bytes.Split(buf[:sz], []byte{0}) {
			if len(k) > 0 {
				keys = append(keys, string(k))
			}
		}
		sort.Strings(keys)
		for _, k := range keys {
			vsz, err := unix.Lgetxattr(p, k, nil)
			if err != nil {
				return nil, err
			}
			val := make([]byte, vsz)
			if vsz > 0 {
				if vsz, err = unix.Lgetxattr(p, k, val); err != nil {
					return nil, err
				}
			}
			n.Xattrs = append(n.Xattrs, catar.Xattr{Key: k, Val: val[:vsz]})
		}
	}
	switch st.Mode & unix.S_IFMT {
	case unix.S_IFREG:
		if n.Data, err = os.ReadFile(p); err != nil {
			return nil, err
		}
	case unix.S_IFLNK:
		if n.Target, err = os.Readlink(p); err != nil {
			return nil, err
		}
	case unix.S_IFCHR, unix.S_IFBLK:
		n.Major, n.Minor = uint64(unix.Major(uint64(st.Rdev))), uint64(unix.Minor(uint64(st.Rdev)))
	case unix.S_IFDIR:
		d, err := os.Open(p)
		if err != nil {
			return nil, err
		}
		names, err := d.Readdirnames(-1)
		d.Close()
		if err != nil {
			return nil, err
		}
		sort.Strings(names)
		for _, c := range names {
			k, err := snapshot(filepath.Join(p, c), c)
			if err != nil {
				return nil, err
			}
			n.Children = append(n.Children, k)
		}
	}
	return n, nil
}

// ------------------------------------------------------------------ (c) GNU tar stream

// buildTar serialises the tree with archive/tar in the order tar(1) uses (parents first,
// depth first). Returns the stream and the listing the stream describes.
func buildTar(root *tnode, format string, addRoot, dotPrefix bool) ([]byte, *catar.Node, error) {
	var buf bytes.Buffer
	tw := tar.NewWriter(&buf)
	f := tar.FormatPAX
	if format == "gnu" {
		f = tar.FormatGNU
	}
	var walk func(n *tnode, p string) (*catar.Node, error)
	walk = func(n *tnode, p string) (*catar.Node, error) {
		mt := n.mtime
		if format == "gnu" {
			mt -= mt % 1e9 // the GNU header has whole seconds only
		}
		want := &catar.Node{Name: n.name, Mode: kindBits(n.kind) | n.perm, UID: uint64(n.uid), GID: uint64(n.gid), MTimeNs: uint64(mt),
			Target: n.target, Major: uint64(n.major), Minor: uint64(n.minor)}
		name := p
		if dotPrefix {
			name = "./" + p
		}
		h := &tar.Header{Name: name, Mode: int64(n.perm), Uid: int(n.uid), Gid: int(n.gid), ModTime: time.Unix(0, mt), Format: f}
		switch n.kind {
		case "dir":
			h.Typeflag = tar.TypeDir
			h.Name += "/"
			if n == root {
				h.Name = "./"
			}
		case "reg":
			h.Typeflag = tar.TypeReg
			h.Size = int64(len(n.data))
			want.Data = n.data
		case "lnk":
			h.Typeflag = tar.TypeSymlink
			h.Linkname = n.target
		case "chr":
			h.Typeflag = tar.TypeChar
			h.Devmajor, h.Devminor = int64(n.major), int64(n.minor)
		case "blk":
			h.Typeflag = tar.TypeBlock
			h.Devmajor, h.Devminor = int64(n.major), int64(n.minor)
		case "fifo":
			h.Typeflag = tar.TypeFifo
		default:
			return nil, fmt.Errorf("kind %s cannot be stored in a tar stream", n.kind)
		}
		if format != "gnu" {
			for _, x := range n.xattrs {
				if len(x.Val) == 0 { // an empty PAX value means "delete the record"
					continue
				}
				if h.PAXRecords == nil {
					h.PAXRecords = map[string]string{}
				}
				h.PAXRecords["SCHILY.xattr."+x.Key] = string(x.Val)
				want.Xattrs = append(want.Xattrs, x)
			}
		}
		if !(n == root && addRoot) {
			if err := tw.WriteHeader(h); err != nil {
				return nil, err
			}
			if n.kind == "reg" {
				if _, err := tw.Write(n.data); err != nil {
					return nil, err
				}
			}
		}
		for _, k := range n.kids {
			kp := k.name
			if n != root {
				kp = p + "/" + k.name
			}
			kw, err := walk(k, kp)
			if err != nil {
				return nil, err
			}
			want.Children = append(want.Children, kw)
		}
		return want, nil
	}
	want, err := walk(root, "")
	if err != nil {
		return nil, nil, err
	}
	if err := tw.Close(); err != nil {
		return nil, nil, err
	}
	return buf.Bytes(), want, nil
}
