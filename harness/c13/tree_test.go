package c13

import (
	"bytes"
	"fmt"
	"sort"
	"strings"

	"verifharness/internal/catar"
	"verifharness/internal/gen"
)

// XA is one extended attribute of a generated node.
type XA struct {
	K string `json:"k"`
	V []byte `json:"v"`
}

// Spec describes one generated filesystem object (names and targets as bytes: JSON would
// mangle strings that are not UTF-8).
type Spec struct {
	Name   []byte `json:"name,omitempty"`
	Kind   string `json:"kind"` // dir reg lnk chr blk fifo sock
	Perm   uint32 `json:"perm"` // 0..07777
	UID    uint32 `json:"uid"`
	GID    uint32 `json:"gid"`
	MTime  int64  `json:"mtime"` // ns since the epoch, >= 0
	Xattrs []XA   `json:"xattrs,omitempty"`
	Size   int    `json:"size,omitempty"` // reg: content length
	Seed   uint64 `json:"seed,omitempty"` // reg: content seed
	Target []byte `json:"target,omitempty"`
	Major  uint32 `json:"major,omitempty"`
	Minor  uint32 `json:"minor,omitempty"`
	Kids   []Spec `json:"kids,omitempty"`
	Bulk   *Bulk  `json:"bulk,omitempty"` // dir: N more children generated from a seed
}

// Bulk stands for N generated children of a directory (so that a fan-out of 5000 stays a
// one-line case description).
type Bulk struct {
	N      int    `json:"n"`
	Scheme string `json:"scheme"` // seq | mix | long
	Seed   uint64 `json:"seed"`
	Len    int    `json:"len,omitempty"` // mix: fixed name length (>=3), 0 = 3..40
}

// tnode is the expanded form of a Spec.
type tnode struct {
	name         string
	kind         string
	perm         uint32
	uid, gid     uint32
	mtime        int64
	xattrs       []catar.Xattr // sorted by key, unique keys
	data         []byte
	target       string
	major, minor uint32
	kids         []*tnode
}

type rng uint64

func (s *rng) next() uint64 {
	*s += 0x9e3779b97f4a7c15
	z := uint64(*s)
	z = (z ^ (z >> 30)) * 0xbf58476d1ce4e5b9
	z = (z ^ (z >> 27)) * 0x94d049bb133111eb
	return z ^ (z >> 31)
}

// nameBytes makes n arbitrary bytes other than NUL and '/'.
func nameBytes(n int, r *rng) []byte {
	b := make([]byte, n)
	for i := range b {
		c := byte(r.next()>>11)%254 + 1 // 1..254
		if c >= '/' {
			c++ // skip '/': 1..46, 48..255
		}
		b[i] = c
	}
	return b
}

func bulkKids(b Bulk) []Spec {
	out := make([]Spec, 0, b.N)
	for i := 0; i < b.N; i++ {
		r := rng(b.Seed ^ uint64(i+1)*0xd6e8feb86659fd93)
		v := r.next()
		var name []byte
		switch b.Scheme {
		case "seq":
			name = []byte(fmt.Sprintf("%07d", i))
		case "long":
			name = nameBytes(255, &r)
		default: // mix
			l := b.Len
			if l < 3 {
				l = 3 + int(v>>40)%38
			}
			name = nameBytes(l, &r)
		}
		if b.Scheme != "seq" { // make the name unique: index in the last three bytes
			l := len(name)
			name[l-3] = 0x80 | byte(i>>14)&0x7f
			name[l-2] = 0x80 | byte(i>>7)&0x7f
			name[l-1] = 0x80 | byte(i)&0x7f
		}
		s := Spec{Name: name, Perm: uint32(v>>8) & 0o7777, UID: uint32(r.next()), GID: uint32(r.next()), MTime: int64(r.next() >> 2)}
		if s.UID == 1<<32-1 {
			s.UID = 0
		}
		if s.GID == 1<<32-1 {
			s.GID = 0
		}
		switch k := v % 20; {
		case k < 12:
			s.Kind = "reg"
			if v>>20&3 != 0 {
				s.Size = int(v>>24) % 64
			}
			s.Seed = v
		case k < 15:
			s.Kind = "lnk"
			s.Target = nameBytes(1+int(v>>24)%30, &r)
		case k < 18:
			s.Kind = "dir"
		case k == 18:
			s.Kind = "chr"
			s.Major, s.Minor = uint32(v>>24)&0xfff, uint32(v>>36)&0xfffff
		default:
			s.Kind = "blk"
			s.Major, s.Minor = uint32(v>>24)&0xfff, uint32(v>>36)&0xfffff
		}
		out = append(out, s)
	}
	return out
}

func cleanName(b []byte) string {
	if len(b) > 255 {
		b = b[:255]
	}
	c := append([]byte(nil), b...)
	for i := range c {
		if c[i] == 0 || c[i] == '/' {
			c[i] = '_'
		}
	}
	s := string(c)
	switch s {
	case "", ".", "..":
		s += "_"
	}
	return s
}

func validKind(k string) bool {
	switch k {
	case "dir", "reg", "lnk", "chr", "blk", "fifo", "sock":
		return true
	}
	return false
}

// expand turns a Spec into a consistent tree whatever a shrunk or hand-written case contains:
// names are made legal and unique per directory, ranges are clipped.
func expand(s Spec, isRoot bool, depth int) *tnode {
	n := &tnode{kind: s.Kind, perm: s.Perm & 0o7777, uid: s.UID, gid: s.GID, mtime: s.MTime}
	if !validKind(n.kind) || (isRoot && (n.kind == "fifo" || n.kind == "sock")) {
		n.kind = "dir"
		if !isRoot {
			n.kind = "reg"
		}
	}
	if !isRoot {
		n.name = cleanName(s.Name)
	}
	if n.mtime < 0 {
		n.mtime = -(n.mtime + 1)
	}
	if n.uid == 1<<32-1 {
		n.uid--
	}
	if n.gid == 1<<32-1 {
		n.gid--
	}
	seen := map[string]bool{}
	for _, x := range s.Xattrs {
		k := string(bytes.ReplaceAll([]byte(x.K), []byte{0}, []byte{'_'}))
		if k == "" || seen[k] {
			continue
		}
		seen[k] = true
		n.xattrs = append(n.xattrs, catar.Xattr{Key: k, Val: append([]byte{}, x.V...)})
	}
	sort.Slice(n.xattrs, func(i, j int) bool { return n.xattrs[i].Key < n.xattrs[j].Key })
	switch n.kind {
	case "reg":
		sz := s.Size
		if sz < 0 {
			sz = 0
		}
		if sz > 1<<20 {
			sz = 1 << 20
		}
		n.data = gen.RandBytes(sz, s.Seed)
	case "lnk":
		t := bytes.ReplaceAll(s.Target, []byte{0}, []byte{'_'})
		if len(t) == 0 {
			t = []byte("t")
		}
		if len(t) > 1000 {
			t = t[:1000]
		}
		n.target = string(t)
	case "chr", "blk":
		n.major, n.minor = s.Major&0xfff, s.Minor&0xfffff
	case "dir":
		names := map[string]bool{}
		add := func(k Spec) {
			if depth >= 8 && k.Kind == "dir" {
				k.Kids, k.Bulk = nil, nil
			}
			c := expand(k, false, depth+1)
			if names[c.name] {
				return
			}
			names[c.name] = true
			n.kids = append(n.kids, c)
		}
		for _, k := range s.Kids {
			add(k)
		}
		if s.Bulk != nil && s.Bulk.N > 0 {
			b := *s.Bulk
			if b.N > 20000 {
				b.N = 20000
			}
			for _, k := range bulkKids(b) {
				add(k)
			}
		}
	}
	return n
}

func sortTree(n *tnode) {
	sort.Slice(n.kids, func(i, j int) bool { return n.kids[i].name < n.kids[j].name })
	for _, k := range n.kids {
		sortTree(k)
	}
}

func kindBits(kind string) uint32 {
	switch kind {
	case "dir":
		return catar.S_IFDIR
	case "lnk":
		return catar.S_IFLNK
	case "chr":
		return catar.S_IFCHR
	case "blk":
		return catar.S_IFBLK
	case "fifo":
		return catar.S_IFIFO
	case "sock":
		return catar.S_IFSOCK
	}
	return catar.S_IFREG
}

// listing is the "source listing" of a generated tree in the tree model of the validator.
func (n *tnode) listing() *catar.Node {
	out := &catar.Node{Name: n.name, Mode: kindBits(n.kind) | n.perm, UID: uint64(n.uid), GID: uint64(n.gid), MTimeNs: uint64(n.mtime),
		Xattrs: n.xattrs, Target: n.target, Major: uint64(n.major), Minor: uint64(n.minor)}
	if n.kind == "reg" {
		out.Data = n.data
	}
	for _, k := range n.kids {
		out.Children = append(out.Children, k.listing())
	}
	return out
}

// shape summarises a tree for evidence.
type shape struct {
	nodes, dirs, maxFan, depth, maxName int
	fans                                map[int]int
	kinds                               map[string]int
	xattrs                              int
	xTrusted, xCharset, xOtherNS        bool
}

func (sh *shape) walk(n *catar.Node, depth int) {
	sh.nodes++
	if depth > sh.depth {
		sh.depth = depth
	}
	if len(n.Name) > sh.maxName {
		sh.maxName = len(n.Name)
	}
	sh.xattrs += len(n.Xattrs)
	for _, x := range n.Xattrs {
		switch {
		case strings.HasPrefix(x.Key, "trusted."):
			sh.xTrusted = true
		case !strings.HasPrefix(x.Key, "user."):
			sh.xOtherNS = true
		}
		if x.Key != "" && strings.IndexByte("SCHILY.xattr.", x.Key[0]) >= 0 {
			sh.xCharset = true
		}
	}
	switch n.Kind() {
	case catar.S_IFDIR:
		sh.kinds["dir"]++
		sh.dirs++
		f := len(n.Children)
		sh.fans[f]++
		if f > sh.maxFan {
			sh.maxFan = f
		}
	case catar.S_IFREG:
		sh.kinds["reg"]++
	case catar.S_IFLNK:
		sh.kinds["lnk"]++
	case catar.S_IFCHR:
		sh.kinds["chr"]++
	case catar.S_IFBLK:
		sh.kinds["blk"]++
	default:
		sh.kinds["special"]++
	}
	for _, c := range n.Children {
		sh.walk(c, depth+1)
	}
}

func shapeOf(n *catar.Node) *shape {
	sh := &shape{fans: map[int]int{}, kinds: map[string]int{}}
	sh.walk(n, 0)
	return sh
}

// fanKey is the canonical multiset of fan-outs, e.g. "0x12,3x1,64x2".
func (sh *shape) fanKey() string {
	var fs []int
	for f := range sh.fans {
		fs = append(fs, f)
	}
	sort.Ints(fs)
	var b bytes.Buffer
	for i, f := range fs {
		if i > 0 {
			b.WriteByte(',')
		}
		fmt.Fprintf(&b, "%dx%d", f, sh.fans[f])
	}
	return b.String()
}

// fanClasses maps a fan-out to the class labels of DESIGN.md §4 C13.
func fanClasses(f int) []string {
	var out []string
	if f <= 3 {
		out = append(out, fmt.Sprintf("fanout:%d", f))
	}
	for k := 2; k <= 20; k++ {
		p := 1 << k
		switch f {
		case p - 1:
			out = append(out, "fanout:2^k-1")
		case p:
			out = append(out, "fanout:2^k")
		case p + 1:
			out = append(out, "fanout:2^k+1")
		}
	}
	if f >= 1024 {
		out = append(out, "fanout>=1024")
	}
	return out
}
