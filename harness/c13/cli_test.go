package c13

// CLI tier of C13 (only when the driver provides the freshly built command in
// $VERIF_DESYNC_BIN): `desync tar <catar> <dir>` and `desync tar -i -s <store> <caidx> <dir>`
// write their output to a path with a history (absent / holds a shorter file / holds a longer
// file / holds the previous output for a bigger tree). Afterwards the file must be exactly the
// archive (index) of the tree as it is now: nothing behind the root goodbye (table tail).

import (
	"bytes"
	"context"
	"crypto/sha512"
	"fmt"
	"os"
	"os/exec"
	"path/filepath"
	"time"

	"verifharness/internal/catar"
	"verifharness/internal/gen"
	"verifharness/internal/hx"
	"verifharness/internal/ref"
)

func cliBin() string { return os.Getenv("VERIF_DESYNC_BIN") }

// classes the CLI tier must populate when the command is available
var cliRequired = []string{"cli:tar:no-time", "cli:tar:one-file-system", "cli:tar:stdout", "cli:tar:stdout:skipped-node-in-tree", "cli:tar-i:stdout", "cli:tar-i:stdout:skipped-node-in-tree", "cli:tar:file:skipped-node-in-tree", "cli:tar", "cli:tar:output-absent", "cli:tar:output-preexisting-shorter", "cli:tar:output-preexisting-longer",
	"cli:tar:output-previous-bigger-archive", "cli:tar-i", "cli:tar-i:output-preexisting-longer", "cli:tar:root-spelling:non-canonical"}

var priors = []string{"absent", "shorter", "longer", "bigger"}

// tarArgs builds the command line of `desync tar` with the case's packing options.
func tarArgs(c Case, rest ...string) []string {
	a := []string{"tar"}
	if c.NoTime {
		a = append(a, "--no-time")
	}
	if c.OneFS {
		a = append(a, "-x")
	}
	return append(a, rest...)
}

func priorClass(p string) string {
	switch p {
	case "shorter":
		return "output-preexisting-shorter"
	case "longer":
		return "output-preexisting-longer"
	case "bigger":
		return "output-previous-bigger-archive"
	}
	return "output-absent"
}

func runCLI(dir, cwd string, args ...string) (string, error, bool) {
	ctx, cancel := context.WithTimeout(context.Background(), 120*time.Second)
	defer cancel()
	cmd := exec.CommandContext(ctx, cliBin(), args...)
	cmd.Dir = cwd
	cmd.Env = []string{"HOME=" + dir, "TMPDIR=" + dir, "PATH=/usr/bin:/bin"}
	out, err := cmd.CombinedOutput()
	msg := string(out)
	if len(msg) > 300 {
		msg = msg[len(msg)-300:]
	}
	return msg, err, ctx.Err() != nil
}

// biggerArchive is a well-formed archive of a tree that has everything `want` has and more
// (the archive that was at the output path before files were removed from the tree).
func biggerArchive(want *catar.Node, flags uint64, atLeast int) []byte {
	big := &catar.Node{Mode: catar.S_IFDIR | 0o755, MTimeNs: 1}
	if want.IsDir() {
		cp := *want
		big = &cp
		big.Children = append([]*catar.Node(nil), want.Children...)
	}
	for i := 0; ; i++ {
		big.Children = append(big.Children, &catar.Node{Name: fmt.Sprintf("\xff\xff removed later %d", i), Mode: catar.S_IFREG | 0o644, MTimeNs: 1,
			Data: gen.RandBytes(100+atLeast/4, uint64(i))})
		if b := catar.Encode(big, catar.EncodeOptions{DefaultFlags: flags}); len(b) > atLeast {
			return b
		}
	}
}

func writePrior(path, prior string, now []byte, bigger func() []byte) {
	var b []byte
	switch prior {
	case "shorter":
		b = gen.RandBytes(len(now)/2, uint64(len(now)))
	case "longer":
		b = gen.RandBytes(len(now)+1+len(now)%977, uint64(len(now)))
	case "bigger":
		b = bigger()
	default:
		os.Remove(path)
		return
	}
	if err := os.WriteFile(path, b, 0o644); err != nil {
		panic(fmt.Sprintf("harness: cannot prepare the output path: %v", err))
	}
}

// cliTar runs the two CLI forms on the tree at arg (spelled as the case says, relative to cwd)
// whose in-process archive is lib.
func cliTar(o *hx.Outcome, c Case, dir, cwd, arg string, lib []byte, want *catar.Node, flags uint64, special bool) {
	if cwd == "" {
		cwd = dir
	}
	if c.CLIOut == "stdout" {
		cliTarStdout(o, c, dir, cwd, arg, lib, special)
		return
	}
	if special {
		o.Class("cli:tar:file:skipped-node-in-tree")
	}
	prior, priorIdx := c.Prior, c.PriorIdx
	if priorClass(prior) == "output-absent" {
		prior = "absent"
	}
	if priorClass(priorIdx) == "output-absent" {
		priorIdx = "absent"
	}

	// ---- desync tar <catar> <dir>
	outPath := filepath.Join(dir, "out.catar")
	writePrior(outPath, prior, lib, func() []byte { return biggerArchive(want, flags, len(lib)) })
	msg, err, timedOut := runCLI(dir, cwd, tarArgs(c, outPath, arg)...)
	if timedOut {
		return // machine too busy: says nothing about the property
	}
	o.Class("cli:tar", "cli:tar:"+priorClass(prior))
	if c.NoTime {
		o.Class("cli:tar:no-time")
	}
	if c.OneFS {
		o.Class("cli:tar:one-file-system")
	}
	if c.Spelling != "" && c.Spelling != "canonical" {
		o.Class("cli:tar:root-spelling:non-canonical")
	}
	if err != nil {
		o.Fail("C13:cli:tar:failed", "desync tar %q %q (output %s) failed: %v: %s", outPath, arg, prior, err, msg)
	} else {
		file, rerr := os.ReadFile(outPath)
		if rerr != nil {
			o.Fail("C13:cli:tar:failed", "desync tar exited 0 but the output cannot be read: %v", rerr)
		} else if !bytes.Equal(file, lib) {
			_, errs := catar.ValidateAll(file, catar.ValidateOptions{RequireSorted: true})
			codes := map[string]bool{}
			for _, e := range errs {
				if !codes[e.Code] {
					codes[e.Code] = true
					o.Fail("C13:cli:tar:invalid:"+e.Code, "file written by desync tar over an output path in state %q (%d bytes now) is not a well-formed catar: %v", prior, len(file), e)
				}
			}
			o.Fail("C13:cli:tar:differs-from-library", "file written by desync tar (output path state %q, root spelled %q) has %d bytes and differs from the archive desync.Tar makes of the same tree (%d bytes)",
				prior, c.Spelling, len(file), len(lib))
		}
	}

	// ---- desync tar -i -s <store> <caidx> <dir>
	store := filepath.Join(dir, "store")
	os.Mkdir(store, 0o755)
	idxPath := filepath.Join(dir, "out.caidx")
	writePrior(idxPath, priorIdx, make([]byte, ref.IndexLen(1)), func() []byte {
		items := make([]ref.IndexItem, 40)
		for i := range items {
			items[i].End = uint64(i+1) * 1000
		}
		return ref.EncodeIndex(ref.IndexFile{Flags: ref.FlagSHA512256, Min: 16384, Avg: 65536, Max: 262144, Items: items})
	})
	msg, err, timedOut = runCLI(dir, cwd, tarArgs(c, "-i", "-s", store, idxPath, arg)...)
	if timedOut {
		return
	}
	o.Class("cli:tar-i", "cli:tar-i:"+priorClass(priorIdx))
	if err != nil {
		o.Fail("C13:cli:tar-i:failed", "desync tar -i -s %q %q %q (output %s) failed: %v: %s", store, idxPath, arg, priorIdx, err, msg)
		return
	}
	file, rerr := os.ReadFile(idxPath)
	if rerr != nil {
		o.Fail("C13:cli:tar-i:failed", "desync tar -i exited 0 but the index cannot be read: %v", rerr)
		return
	}
	idx, perr := ref.ParseIndex(file)
	if perr != nil {
		o.Fail("C13:cli:tar-i:index-malformed", "index written by desync tar -i over an output path in state %q (%d bytes now) is not a well-formed caidx: %v", priorIdx, len(file), perr)
		return
	}
	var pos uint64
	for i, it := range idx.Items {
		if it.End > uint64(len(lib)) {
			break
		}
		if sha512.Sum512_256(lib[pos:it.End]) != it.ID {
			o.Fail("C13:cli:tar-i:index-differs", "chunk %d of the index written by desync tar -i does not hash the bytes %d..%d of the archive desync.Tar makes of the same tree", i, pos, it.End)
			return
		}
		pos = it.End
	}
	if pos != uint64(len(lib)) {
		o.Fail("C13:cli:tar-i:index-differs", "index written by desync tar -i covers %d chunks ending at %d, the archive of the tree has %d bytes", len(idx.Items), pos, len(lib))
	}
}

// runCLISplit runs the command with stdout and stderr captured separately.
func runCLISplit(dir, cwd string, args ...string) (stdout []byte, stderr string, err error, timedOut bool) {
	ctx, cancel := context.WithTimeout(context.Background(), 120*time.Second)
	defer cancel()
	cmd := exec.CommandContext(ctx, cliBin(), args...)
	cmd.Dir = cwd
	cmd.Env = []string{"HOME=" + dir, "TMPDIR=" + dir, "PATH=/usr/bin:/bin"}
	var so, se bytes.Buffer
	cmd.Stdout, cmd.Stderr = &so, &se
	err = cmd.Run()
	msg := se.String()
	if len(msg) > 300 {
		msg = msg[len(msg)-300:]
	}
	return so.Bytes(), msg, err, ctx.Err() != nil
}

// checkIndexAgainst verifies that b is a well-formed caidx whose chunks tile and hash lib.
func checkIndexAgainst(o *hx.Outcome, sigPrefix, what string, b, lib []byte) {
	idx, perr := ref.ParseIndex(b)
	if perr != nil {
		o.Fail(sigPrefix+":index-malformed", "%s (%d bytes) is not a well-formed caidx: %v", what, len(b), perr)
		return
	}
	var pos uint64
	for i, it := range idx.Items {
		if it.End > uint64(len(lib)) {
			break
		}
		if sha512.Sum512_256(lib[pos:it.End]) != it.ID {
			o.Fail(sigPrefix+":index-differs", "%s: chunk %d does not hash the bytes %d..%d of the archive desync.Tar makes of the same tree", what, i, pos, it.End)
			return
		}
		pos = it.End
	}
	if pos != uint64(len(lib)) {
		o.Fail(sigPrefix+":index-differs", "%s covers %d chunks ending at %d, the archive of the tree has %d bytes", what, len(idx.Items), pos, len(lib))
	}
}

// cliTarStdout: `desync tar - <dir>` and `desync tar -i -s <store> - <dir>`. What arrives on
// stdout must be exactly the archive (index); warnings about skipped nodes belong on stderr.
func cliTarStdout(o *hx.Outcome, c Case, dir, cwd, arg string, lib []byte, special bool) {
	stdout, msg, err, timedOut := runCLISplit(dir, cwd, tarArgs(c, "-", arg)...)
	if timedOut {
		return
	}
	o.Class("cli:tar:stdout")
	if c.NoTime {
		o.Class("cli:tar:no-time")
	}
	if c.OneFS {
		o.Class("cli:tar:one-file-system")
	}
	if special {
		o.Class("cli:tar:stdout:skipped-node-in-tree")
	}
	if c.Spelling != "" && c.Spelling != "canonical" {
		o.Class("cli:tar:root-spelling:non-canonical")
	}
	if err != nil {
		o.Fail("C13:cli:tar:stdout:failed", "desync tar - %q failed: %v: %s", arg, err, msg)
	} else if !bytes.Equal(stdout, lib) {
		_, errs := catar.ValidateAll(stdout, catar.ValidateOptions{RequireSorted: true})
		codes := map[string]bool{}
		for _, e := range errs {
			if !codes[e.Code] {
				codes[e.Code] = true
				o.Fail("C13:cli:tar:stdout:invalid:"+e.Code, "stdout of desync tar - %q (%d bytes, skipped node types in the tree: %v) is not a well-formed catar: %v", arg, len(stdout), special, e)
			}
		}
		o.Fail("C13:cli:tar:stdout:differs-from-library", "stdout of desync tar - %q has %d bytes and differs from the archive desync.Tar makes of the same tree (%d bytes; skipped node types in the tree: %v)",
			arg, len(stdout), len(lib), special)
	}

	store := filepath.Join(dir, "store")
	os.Mkdir(store, 0o755)
	stdout, msg, err, timedOut = runCLISplit(dir, cwd, tarArgs(c, "-i", "-s", store, "-", arg)...)
	if timedOut {
		return
	}
	o.Class("cli:tar-i:stdout")
	if special {
		o.Class("cli:tar-i:stdout:skipped-node-in-tree")
	}
	if err != nil {
		o.Fail("C13:cli:tar-i:stdout:failed", "desync tar -i -s %q - %q failed: %v: %s", store, arg, err, msg)
		return
	}
	checkIndexAgainst(o, "C13:cli:tar-i:stdout", fmt.Sprintf("stdout of desync tar -i -s <store> - %q (skipped node types in the tree: %v)", arg, special), stdout, lib)
}
