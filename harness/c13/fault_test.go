package c13

// Failing-destination dimension of C13: desync.Tar(ctx, w, fs) with a writer that stops
// accepting bytes. "Every archive desync writes is well-formed" includes that Tar does not
// report success for an archive whose tail never reached the destination.

import (
	"bytes"
	"context"
	"errors"
	"fmt"
	"os"

	"github.com/folbricht/desync"
	"pgregory.net/rapid"

	"verifharness/internal/hx"
)

// Fault selects where the destination fails. The position is relative to the fault-free
// archive of the same tree (length L, known only when the case runs).
type Fault struct {
	Sel   string `json:"sel"`             // zero | abs | tail | goodbye | permille | devfull
	Val   int    `json:"val,omitempty"`   // abs: k; tail: k = L-Val; goodbye: k = start of the root goodbye + Val; permille: k = L*Val/1000
	Short bool   `json:"short,omitempty"` // the failing Write accepts the bytes up to k (short write) instead of none of its bytes
}

func genFault(t *rapid.T) *Fault {
	f := &Fault{Short: rapid.Bool().Draw(t, "faultshort")}
	f.Sel = rapid.SampledFrom([]string{"zero", "abs", "tail", "tail", "tail", "goodbye", "goodbye", "permille", "permille", "devfull"}).Draw(t, "faultsel")
	switch f.Sel {
	case "abs":
		f.Val = rapid.SampledFrom([]int{1, 15, 16, 63, 64, 65, 4095, 4096, 65535, 65536, 65537}).Draw(t, "faultk")
	case "tail":
		if rapid.Bool().Draw(t, "tailmagic") {
			f.Val = rapid.SampledFrom([]int{1, 2, 8, 23, 24, 25, 39, 40, 41, 64, 100, 4096, 65535, 65536, 65537}).Draw(t, "faulttail")
		} else {
			f.Val = rapid.IntRange(1, 70000).Draw(t, "faulttail")
		}
	case "goodbye":
		f.Val = rapid.SampledFrom([]int{0, 0, 1, 8, 15, 16, 17, 24, 39, 40}).Draw(t, "faultgb")
	case "permille":
		f.Val = rapid.IntRange(0, 999).Draw(t, "faultpm")
	}
	return f
}

var errFault = errors.New("injected destination fault")

// faultWriter accepts the first k bytes it is given and fails every Write that would go
// beyond (accepting the part up to k when short is set).
type faultWriter struct {
	k         int
	short     bool
	accepted  []byte
	delivered int // number of Write calls that returned an error
}

func (w *faultWriter) Write(p []byte) (int, error) {
	room := w.k - len(w.accepted)
	if len(p) <= room {
		w.accepted = append(w.accepted, p...)
		return len(p), nil
	}
	w.delivered++
	n := 0
	if w.short && room > 0 {
		n = room
		w.accepted = append(w.accepted, p[:n]...)
	}
	return n, errFault
}

// countingFile forwards to an *os.File and counts the failed writes.
type countingFile struct {
	f         *os.File
	delivered int
	accepted  int
}

func (w *countingFile) Write(p []byte) (int, error) {
	n, err := w.f.Write(p)
	w.accepted += n
	if err != nil {
		w.delivered++
	}
	return n, err
}

// drain empties a reader that Tar abandoned after an error (LocalFS walks in a goroutine that
// would otherwise stay blocked, with a file open).
func drain(fs desync.FilesystemReader) {
	for i := 0; i < 1<<20; i++ {
		f, err := fs.Next()
		if err != nil {
			return
		}
		if f != nil {
			f.Close()
		}
	}
}

// faultRun packs the tree again into a failing destination. full is the fault-free archive,
// rootGoodbye the offset of the root's GOODBYE element in it.
func faultRun(o *hx.Outcome, f Fault, mk func() desync.FilesystemReader, full []byte, rootGoodbye int) {
	L := len(full)
	if L == 0 {
		return
	}
	o.Class("tar:writer-fails")
	if f.Sel == "devfull" {
		dev, err := os.OpenFile("/dev/full", os.O_WRONLY, 0)
		if err != nil {
			o.Class("tar:writer-fails:devfull-unavailable")
			return
		}
		defer dev.Close()
		w := &countingFile{f: dev}
		fs := mk()
		terr := desync.Tar(context.Background(), w, fs)
		drain(fs)
		o.Class("tar:writer-fails:devfull", "tar:writer-fails:k=0")
		if L <= 65536 {
			o.Class("tar:writer-fails:in-last-64KiB")
		}
		if w.delivered > 0 {
			o.Class("tar:writer-fails:delivered")
		}
		if terr == nil {
			o.Fail("C13:writer-fault:nil-with-incomplete-archive", "Tar into /dev/full returned nil: %d of the %d archive bytes were accepted, %d writes failed with ENOSPC", w.accepted, L, w.delivered)
		}
		return
	}
	k := 0
	switch f.Sel {
	case "abs":
		k = f.Val
	case "tail":
		k = L - f.Val
	case "goodbye":
		k = rootGoodbye + f.Val
		o.Class("tar:writer-fails:in-root-goodbye")
	case "permille":
		k = int(int64(L) * int64(f.Val) / 1000)
	}
	if k < 0 {
		k = 0
	}
	if k > L-1 {
		k = L - 1
	}
	w := &faultWriter{k: k, short: f.Short}
	fs := mk()
	terr := desync.Tar(context.Background(), w, fs)
	drain(fs)
	if L-k <= 65536 {
		o.Class("tar:writer-fails:in-last-64KiB")
	} else {
		o.Class("tar:writer-fails:before-last-64KiB")
	}
	if k == 0 {
		o.Class("tar:writer-fails:k=0")
	}
	if L-k <= 100 {
		o.Class("tar:writer-fails:in-last-100-bytes")
	}
	if w.delivered > 0 {
		o.Class("tar:writer-fails:delivered")
	}
	if !bytes.HasPrefix(full, w.accepted) {
		o.Fail("C13:writer-fault:accepted-not-a-prefix", "the %d bytes the failing destination accepted are not a prefix of the fault-free archive (%d bytes)", len(w.accepted), L)
	}
	if terr == nil {
		if w.delivered > 0 {
			o.Fail("C13:writer-fault:error-dropped", "the destination failed %d Write call(s) at byte %d of %d, Tar returned nil", w.delivered, k, L)
		}
		if !bytes.Equal(w.accepted, full) {
			o.Fail("C13:writer-fault:nil-with-incomplete-archive", "Tar returned nil but the destination (failing from byte %d on) accepted only %d of the %d archive bytes (%d failed writes seen)", k, len(w.accepted), L, w.delivered)
		}
	}
}

func faultDesc(f *Fault) string {
	if f == nil {
		return ""
	}
	return fmt.Sprintf("%s:%d", f.Sel, f.Val)
}
