package c04

// Large indexes: a fixed ladder of index sizes (1..20 MB in both tiers, ~70 MB = 1.75 M
// chunks in the thorough tier) stored through the store kind and read back. Any size cap
// in a write or read path (buffers, limit readers, content-length handling) shows as a
// refused, cut or different index. Only StoreIndex/GetIndex and the raw object are used;
// the malformed-input part of run() is skipped for these cases.

import (
	"fmt"
	"net/url"
	"os"
	"time"

	"github.com/folbricht/desync"

	"verifharness/internal/hx"
	"verifharness/internal/ref"
)

const maxBigChunks = 2_000_000

func sizeClasses(bytes int) []string {
	var out []string
	for _, mb := range []int{1, 4, 16, 64} {
		if bytes > mb<<20 {
			out = append(out, fmt.Sprintf("index-size>%dMiB", mb))
		}
	}
	return out
}

func runBig(c Case, o *hx.Outcome, f *failer) {
	kind := c.Store
	if kind != "http" && kind != "local" {
		kind = "local"
	}
	n := c.Big
	if n > maxBigChunks {
		n = maxBigChunks
	}
	if c.SHA256 {
		desync.Digest = desync.SHA256{}
	} else {
		desync.Digest = desync.SHA512256{}
	}
	if c.Max == 0 {
		c.Max = 256 << 10
	}
	want := concTable(c, n, c.SizeSeed, c.IDSeed)
	size := ref.IndexLen(n)
	o.Desc = map[string]any{"store": kind, "digest": digestName(c.SHA256), "chunks": n, "index_bytes": size, "big": true}
	o.Key = fmt.Sprintf("big/%s/%v/%d/%x/%x", kind, c.SHA256, n, c.SizeSeed, c.IDSeed)
	o.Class("store:"+kind, "digest:"+digestName(c.SHA256), "chunks:65+")
	o.Class(sizeClasses(size)...)
	o.Nontrivial = true

	dir := hx.Scratch("c04big")
	defer os.RemoveAll(dir)
	env, err := storeKinds[kind](func() string { return dir })
	if err != nil {
		f.fail("C04:store:"+kind+":open", "cannot set up the %s index store: %v", kind, err)
		return
	}
	defer env.close()
	store, get := env.hist.store, env.hist.get
	if env.http != nil { // own client: the default 1 minute request timeout is not part of the property
		u, _ := url.Parse(env.http.url + "/")
		st, err := desync.NewRemoteHTTPIndexStore(u, desync.StoreOptions{Timeout: 20 * time.Minute})
		if err != nil {
			f.fail("C04:store:http:open", "cannot open RemoteHTTPIndex: %v", err)
			return
		}
		defer st.Close()
		store, get = st.StoreIndex, st.GetIndex
	}
	const name = "big.caibx"
	what := fmt.Sprintf("%s: index of %d chunks (%d bytes)", kind, n, size)
	if err := store(name, toIndex(want)); err != nil {
		f.fail("C04:big-index:write-error", "%s: StoreIndex failed: %v", what, err)
		return
	}
	imgs, err := env.hist.raw(name)
	if err != nil {
		f.fail("C04:big-index:object", "%s: the stored object cannot be fetched raw: %v", what, err)
	}
	for _, img := range imgs {
		dec, err := ref.ParseIndex(img.b)
		switch {
		case err != nil:
			f.fail("C04:big-index:object", "%s: %s (%d bytes) is refused by the independent parser: %v", what, img.where, len(img.b), err)
		case !sameTable(dec, want):
			f.fail("C04:big-index:object", "%s: %s decodes to a different table (%d chunks)", what, img.where, len(dec.Items))
		}
	}
	imgs = nil
	got, err := get(name)
	if err != nil {
		f.fail("C04:big-index:read-error", "%s: GetIndex failed although StoreIndex reported success and the stored object is %d bytes: %v", what, size, err)
		return
	}
	judgeIndexSig(f, "C04:big-index:read-back", what, name, got, want)
}
