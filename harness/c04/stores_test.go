package c04

// Index store kinds of the C04 check. A kind is a constructor of a storeEnv; to add one
// (S3, SFTP, ...) write an open function — objectEnv() does almost all of it for any
// desync.IndexWriteStore whose objects can be planted and read raw — and call register()
// from an init function.

import (
	"bytes"
	"fmt"
	"io"
	"net/http"
	"net/http/httptest"
	"net/url"
	"os"
	"path"
	"path/filepath"
	"strings"
	"sync"
	"testing/iotest"

	"github.com/folbricht/desync"
)

// image is one observable byte image of a written index.
type image struct {
	where string
	b     []byte
}

// feed is a reading path that can be handed arbitrary bytes; read returns the error the
// path reported (nil = the bytes were accepted as an index).
type feed struct {
	name string
	read func(b []byte) error
	slow bool // skipped for large tables and enumerations
}

type storeEnv struct {
	put   func(name string, idx desync.Index) ([]image, error) // write path + all images of what was written
	get   func(name string) (desync.Index, error)              // read path for what put stored
	feeds []feed
	hist  *histAccess // nil: the kind keeps no named objects (history_test.go)
	http  *httpAccess // HTTP kind only (concurrent_test.go)
	close func()
}

type openFunc func(scratch func() string) (*storeEnv, error)

var (
	storeKinds  = map[string]openFunc{}
	storeOrder  []string           // registration order (deterministic)
	storeWeight = map[string]int{} // relative frequency in generated cases
)

func register(kind string, weight int, open openFunc) {
	storeKinds[kind] = open
	storeOrder = append(storeOrder, kind)
	storeWeight[kind] = weight
}

func init() {
	register("mem", 60, openMem)
	register("local", 6, openLocal)
	register("console", 4, openConsole)
	register("http", 4, openHTTP)
	registerRemote()
}

// storeDraw is the weighted list the generator samples the store kind from. rapid favours
// both ends of a sampled list, so the cheap first kind (mem) occupies both ends.
func storeDraw() []string {
	var out []string
	first := storeOrder[0]
	for i := 0; i < storeWeight[first]/2; i++ {
		out = append(out, first)
	}
	for _, k := range storeOrder[1:] {
		for i := 0; i < storeWeight[k]; i++ {
			out = append(out, k)
		}
	}
	for i := storeWeight[first] / 2; i < storeWeight[first]; i++ {
		out = append(out, first)
	}
	return out
}

// junk is planted under the target name before a write: a store must replace, not overlay.
func junk(n int) []byte { return bytes.Repeat([]byte{0xA5}, n) }

// ---------------------------------------------------------------- mem

func openMem(func() string) (*storeEnv, error) {
	m := map[string][]byte{}
	return &storeEnv{
		put: func(name string, idx desync.Index) ([]image, error) {
			var buf bytes.Buffer
			_, err := idx.WriteTo(&buf)
			m[name] = buf.Bytes()
			return []image{{"bytes written by Index.WriteTo", buf.Bytes()}}, err
		},
		get: func(name string) (desync.Index, error) { return desync.IndexFromReader(bytes.NewReader(m[name])) },
		feeds: []feed{
			{name: "IndexFromReader", read: func(b []byte) error {
				_, err := desync.IndexFromReader(bytes.NewReader(b))
				return err
			}},
			{name: "IndexFromReader(reader delivering one byte per call)", slow: true, read: func(b []byte) error {
				_, err := desync.IndexFromReader(iotest.OneByteReader(bytes.NewReader(b)))
				return err
			}},
		},
		close: func() {},
	}, nil
}

// ---------------------------------------------------------------- any object-like store

// objectEnv adapts a desync.IndexWriteStore whose stored objects can be planted and read
// back raw (file, fake bucket, ...).
func objectEnv(label string, s desync.IndexWriteStore, raw func(name string) ([]byte, error), plant func(name string, b []byte) error, closef func()) *storeEnv {
	return &storeEnv{
		put: func(name string, idx desync.Index) ([]image, error) {
			if err := plant(name, junk(48+16+40*len(idx.Chunks)+40+57)); err != nil {
				return nil, fmt.Errorf("harness: planting: %w", err)
			}
			if err := s.StoreIndex(name, idx); err != nil {
				return nil, err
			}
			b, err := raw(name)
			if err != nil {
				return nil, fmt.Errorf("stored object cannot be read raw: %w", err)
			}
			return []image{{"object written by " + label + ".StoreIndex", b}}, nil
		},
		get: func(name string) (desync.Index, error) { return s.GetIndex(name) },
		hist: &histAccess{
			store: s.StoreIndex,
			get:   s.GetIndex,
			raw: func(name string) ([]image, error) {
				b, err := raw(name)
				return []image{{"the object kept by " + label, b}}, err
			},
			plant: plant,
		},
		feeds: []feed{{name: label + ".GetIndex", read: func(b []byte) error {
			if err := plant("m.caibx", b); err != nil {
				panic("harness: planting: " + err.Error())
			}
			_, err := s.GetIndex("m.caibx")
			return err
		}}},
		close: func() {
			s.Close()
			if closef != nil {
				closef()
			}
		},
	}
}

func openLocal(scratch func() string) (*storeEnv, error) {
	dir := scratch()
	s, err := desync.NewLocalIndexStore(dir)
	if err != nil {
		return nil, err
	}
	return objectEnv("LocalIndexStore", s,
		func(name string) ([]byte, error) { return os.ReadFile(filepath.Join(dir, name)) },
		func(name string, b []byte) error { return os.WriteFile(filepath.Join(dir, name), b, 0o644) },
		nil), nil
}

// ---------------------------------------------------------------- console (stdin/stdout)

// withStdin runs fn with os.Stdin replaced by the read end of a pipe that delivers b and
// then end-of-file.
func withStdin(b []byte, fn func()) {
	r, w, err := os.Pipe()
	if err != nil {
		panic(err)
	}
	saved := os.Stdin
	os.Stdin = r
	done := make(chan struct{})
	go func() {
		defer close(done)
		w.Write(b) // fails with EPIPE once the read end is closed: fine
		w.Close()
	}()
	defer func() {
		os.Stdin = saved
		r.Close() // releases the writer if the reader stopped early
		<-done
	}()
	fn()
}

// captureStdout runs fn with os.Stdout replaced by a pipe and returns what was written.
func captureStdout(fn func()) []byte {
	r, w, err := os.Pipe()
	if err != nil {
		panic(err)
	}
	saved := os.Stdout
	os.Stdout = w
	var buf []byte
	done := make(chan struct{})
	go func() {
		defer close(done)
		buf, _ = io.ReadAll(r)
	}()
	func() {
		defer func() {
			os.Stdout = saved
			w.Close()
			<-done
			r.Close()
		}()
		fn()
	}()
	return buf
}

func openConsole(func() string) (*storeEnv, error) {
	s, err := desync.NewConsoleIndexStore()
	if err != nil {
		return nil, err
	}
	m := map[string][]byte{}
	read := func(b []byte) (idx desync.Index, err error) {
		withStdin(b, func() { idx, err = s.GetIndex("-") })
		return idx, err
	}
	return &storeEnv{
		put: func(name string, idx desync.Index) ([]image, error) {
			var err error
			out := captureStdout(func() { err = s.StoreIndex(name, idx) })
			m[name] = out
			return []image{{"bytes written to os.Stdout by ConsoleIndexStore.StoreIndex", out}}, err
		},
		get: func(name string) (desync.Index, error) { return read(m[name]) },
		feeds: []feed{{name: "ConsoleIndexStore.GetIndex(os.Stdin)", read: func(b []byte) error {
			_, err := read(b)
			return err
		}}},
		close: func() { s.Close() },
	}, nil
}

// ---------------------------------------------------------------- HTTP

// openHTTP: RemoteHTTPIndex <-> NewHTTPIndexHandler(LocalIndexStore) over httptest, plus a
// plain static route (/static/) as served by an ordinary web server.
func openHTTP(scratch func() string) (*storeEnv, error) {
	dir := scratch()
	backend, err := desync.NewLocalIndexStore(dir)
	if err != nil {
		return nil, err
	}
	handler := desync.NewHTTPIndexHandler(backend, true, "")
	var (
		mu      sync.Mutex
		lastPut []byte
		static  = map[string][]byte{}
	)
	srv := httptest.NewServer(http.HandlerFunc(func(w http.ResponseWriter, r *http.Request) {
		if strings.HasPrefix(r.URL.Path, "/static/") {
			mu.Lock()
			b, ok := static[path.Base(r.URL.Path)]
			mu.Unlock()
			if !ok {
				http.NotFound(w, r)
				return
			}
			w.Write(b)
			return
		}
		if r.Method == "PUT" {
			body, _ := io.ReadAll(r.Body)
			mu.Lock()
			lastPut = body
			mu.Unlock()
			r.Body = io.NopCloser(bytes.NewReader(body))
		}
		handler.ServeHTTP(w, r)
	}))
	mk := func(prefix string) (*desync.RemoteHTTPIndex, error) {
		u, err := url.Parse(srv.URL + prefix)
		if err != nil {
			return nil, err
		}
		return desync.NewRemoteHTTPIndexStore(u, desync.StoreOptions{})
	}
	st, err := mk("/")
	if err != nil {
		srv.Close()
		return nil, err
	}
	sst, err := mk("/static/")
	if err != nil {
		srv.Close()
		return nil, err
	}
	client := srv.Client()
	rawGet := func(name string) ([]byte, error) {
		resp, err := client.Get(srv.URL + "/" + name)
		if err != nil {
			return nil, err
		}
		defer resp.Body.Close()
		b, err := io.ReadAll(resp.Body)
		if err == nil && resp.StatusCode != 200 {
			err = fmt.Errorf("status %d: %s", resp.StatusCode, strings.TrimSpace(string(b)))
		}
		return b, err
	}
	return &storeEnv{
		put: func(name string, idx desync.Index) ([]image, error) {
			if err := os.WriteFile(filepath.Join(dir, name), junk(48+16+40*len(idx.Chunks)+40+57), 0o644); err != nil {
				return nil, err
			}
			mu.Lock()
			lastPut = nil
			mu.Unlock()
			if err := st.StoreIndex(name, idx); err != nil {
				return nil, err
			}
			mu.Lock()
			body := lastPut
			mu.Unlock()
			imgs := []image{{"PUT request body sent by RemoteHTTPIndex.StoreIndex", body}}
			file, err := os.ReadFile(filepath.Join(dir, name))
			if err != nil {
				return imgs, fmt.Errorf("index server did not store the index: %w", err)
			}
			imgs = append(imgs, image{"file written by HTTPIndexHandler (PUT)", file})
			got, err := rawGet(name)
			if err != nil {
				return imgs, fmt.Errorf("GET of the index just stored: %w", err)
			}
			return append(imgs, image{"GET response body of HTTPIndexHandler", got}), nil
		},
		get: func(name string) (desync.Index, error) { return st.GetIndex(name) },
		hist: &histAccess{
			store: st.StoreIndex,
			get:   st.GetIndex,
			raw: func(name string) ([]image, error) {
				file, err := os.ReadFile(filepath.Join(dir, name))
				if err != nil {
					return nil, err
				}
				imgs := []image{{"the file kept by the index server's upstream LocalIndexStore", file}}
				body, err := rawGet(name)
				if err != nil {
					return imgs, err
				}
				return append(imgs, image{"the GET response body of HTTPIndexHandler", body}), nil
			},
			plant: func(name string, b []byte) error { return os.WriteFile(filepath.Join(dir, name), b, 0o644) },
		},
		http: &httpAccess{handler: handler, url: srv.URL},
		feeds: []feed{
			{name: "RemoteHTTPIndex.GetIndex <- HTTPIndexHandler <- file", read: func(b []byte) error {
				if err := os.WriteFile(filepath.Join(dir, "m.caibx"), b, 0o644); err != nil {
					panic(err)
				}
				_, err := st.GetIndex("m.caibx")
				return err
			}},
			{name: "RemoteHTTPIndex.GetIndex <- static web server", read: func(b []byte) error {
				mu.Lock()
				static["m.caibx"] = b
				mu.Unlock()
				_, err := sst.GetIndex("m.caibx")
				return err
			}},
			{name: "HTTPIndexHandler PUT (request body)", read: func(b []byte) error {
				req, err := http.NewRequest("PUT", srv.URL+"/p.caibx", bytes.NewReader(b))
				if err != nil {
					panic(err)
				}
				resp, err := client.Do(req)
				if err != nil {
					return err
				}
				defer resp.Body.Close()
				msg, _ := io.ReadAll(resp.Body)
				if resp.StatusCode/100 == 2 {
					return nil
				}
				return fmt.Errorf("status %d: %s", resp.StatusCode, strings.TrimSpace(string(msg)))
			}},
		},
		close: func() {
			st.Close()
			sst.Close()
			client.CloseIdleConnections()
			srv.Close()
		},
	}, nil
}
