package c04

// Overwrite histories on the index stores that keep named objects (local, HTTP through
// desync's own handler over a local store, S3, SFTP): a sequence of StoreIndex calls on a
// few names, each new value derived from what the name holds (same shape but other IDs,
// same IDs but other sizes, shorter, longer, identical, empty, other parameters). After
// every acknowledged write the name must read back as the value just written and the
// backing object must decode to it with the independent parser; at the end every name is
// checked again (writes to one name must not disturb another).

import (
	"encoding/binary"
	"fmt"

	"github.com/folbricht/desync"
	"pgregory.net/rapid"

	"verifharness/internal/hx"
	"verifharness/internal/ref"
)

// HistStep is one StoreIndex call of a history. Name 0 is the index the case has already
// written ("x.caibx"); the others start absent. Rel says how the new value is derived from
// the current value of the name (from the case's table when the name is absent).
type HistStep struct {
	Name int    `json:"name"`
	Rel  string `json:"rel"`
	Seed uint64 `json:"seed,omitempty"`
}

var histRels = []string{"same-shape-different-ids", "same-ids-different-sizes", "shorter", "longer", "identical", "empty", "different-params"}

var histNames = []string{"x.caibx", "y.caibx", "z.caibx"}

// histMax: longest generated history per store kind (0 = the kind keeps no named objects
// or is not driven with histories). An S3 StoreIndex costs 0.1..0.3 s (minio allocates a
// 640 MiB part buffer for an upload of unknown size), hence a single overwrite there (the enumerated scenario has three).
var histMax = map[string]int{"local": 8, "http": 8, "s3": 1, "sftp": 6}

// histAccess is what a store kind offers to the history check.
type histAccess struct {
	store func(name string, idx desync.Index) error
	get   func(name string) (desync.Index, error)
	raw   func(name string) ([]image, error) // every raw copy of the object that can be observed
	plant func(name string, b []byte) error  // put raw bytes under name behind the store's back
}

func drawHistory(t *rapid.T, kind string) []HistStep {
	max := histMax[kind]
	if max == 0 || rapid.IntRange(0, 3).Draw(t, "hist?") == 0 {
		return nil
	}
	if kind == "s3" && rapid.Bool().Draw(t, "hist-s3?") {
		return nil
	}
	l := rapid.IntRange(1, max).Draw(t, "histlen")
	names := rapid.IntRange(1, len(histNames)).Draw(t, "histnames")
	steps := make([]HistStep, l)
	for i := range steps {
		steps[i] = HistStep{
			Name: rapid.IntRange(0, names-1).Draw(t, "hname"),
			Rel:  rapid.SampledFrom(histRels).Draw(t, "hrel"),
			Seed: rapid.Uint64().Draw(t, "hseed"),
		}
	}
	return steps
}

func cloneTable(a ref.IndexFile) ref.IndexFile {
	b := a
	b.Items = append([]ref.IndexItem(nil), a.Items...)
	return b
}

func tableSizes(a ref.IndexFile) []uint64 {
	out := make([]uint64, len(a.Items))
	var last uint64
	for i, it := range a.Items {
		out[i] = it.End - last
		last = it.End
	}
	return out
}

func setSizes(a *ref.IndexFile, sizes []uint64) {
	var pos uint64
	for i := range a.Items {
		pos += sizes[i]
		a.Items[i].End = pos
	}
}

// derive makes the next value of a name from its current value a, staying inside the
// domain of the property (sizes 1..min(max,2^40), at most 2000 chunks, digest bit kept).
func derive(a ref.IndexFile, rel string, seed uint64) ref.IndexFile {
	b := cloneTable(a)
	r := rng(seed)
	n := len(b.Items)
	cp := capOf(a.Max)
	switch rel {
	case "empty":
		b.Items = nil
	case "same-shape-different-ids": // the blob was modified in place
		if n == 0 {
			break
		}
		switch r.below(3) {
		case 0: // one chunk
			i := r.below(uint64(n))
			b.Items[i].ID[r.below(32)] ^= byte(1 + r.below(255))
		case 1: // every chunk
			for i := range b.Items {
				for j := 0; j < 4; j++ {
					binary.LittleEndian.PutUint64(b.Items[i].ID[8*j:], r.next())
				}
			}
		default: // first or last chunk
			i := 0
			if r.below(2) == 0 {
				i = n - 1
			}
			b.Items[i].ID[31] ^= 0x80
		}
	case "same-ids-different-sizes":
		if n == 0 {
			break
		}
		sizes := tableSizes(b)
		switch r.below(3) {
		case 0: // boundaries move, total length stays: one byte goes from chunk i to chunk j
			for try := 0; try < 8; try++ {
				i, j := r.below(uint64(n)), r.below(uint64(n))
				if i != j && sizes[i] > 1 && sizes[j] < cp {
					sizes[i]--
					sizes[j]++
					break
				}
			}
		case 1: // two neighbours trade sizes (total stays)
			if n >= 2 {
				i := r.below(uint64(n - 1))
				sizes[i], sizes[i+1] = sizes[i+1], sizes[i]
			}
		default: // one chunk gets another size (total changes)
			i := r.below(uint64(n))
			if v := 1 + r.below(cp); v != sizes[i] {
				sizes[i] = v
			} else if sizes[i] < cp {
				sizes[i]++
			} else if sizes[i] > 1 {
				sizes[i]--
			}
		}
		setSizes(&b, sizes)
	case "shorter":
		if n == 0 {
			break
		}
		keep := []int{n - 1, n / 2, int(r.below(uint64(n)))}[r.below(3)]
		b.Items = b.Items[:keep]
	case "longer":
		if cp == 0 {
			break
		}
		add := 1 + int(r.below(3))
		var pos uint64
		if n > 0 {
			pos = b.Items[n-1].End
		}
		for k := 0; k < add && len(b.Items) < maxChunks; k++ {
			small := cp
			if small > 4096 {
				small = 4096
			}
			pos += 1 + r.below(small)
			var id [32]byte
			for j := 0; j < 4; j++ {
				binary.LittleEndian.PutUint64(id[8*j:], r.next())
			}
			b.Items = append(b.Items, ref.IndexItem{End: pos, ID: id})
		}
	case "different-params": // same table, other min/avg or another non-digest flag
		switch r.below(3) {
		case 0:
			b.Min ^= 1 << r.below(20)
		case 1:
			b.Avg ^= 1 << r.below(20)
		default:
			b.Flags ^= 1 << r.below(32)
		}
	}
	return b
}

func toIndex(a ref.IndexFile) desync.Index {
	x := desync.Index{Index: desync.FormatIndex{FeatureFlags: a.Flags, ChunkSizeMin: a.Min, ChunkSizeAvg: a.Avg, ChunkSizeMax: a.Max}}
	var pos uint64
	for _, it := range a.Items {
		x.Chunks = append(x.Chunks, desync.IndexChunk{ID: desync.ChunkID(it.ID), Start: pos, Size: it.End - pos})
		pos = it.End
	}
	return x
}

// relation names what the step really did (a requested change can be impossible, e.g.
// "shorter" on an empty table).
func relation(a, b ref.IndexFile, requested string) string {
	switch {
	case sameTable(a, b):
		return "identical"
	case len(b.Items) == 0 && len(a.Items) > 0:
		return "empty"
	}
	return requested
}

func describeDiff(got, want, prev ref.IndexFile, hadPrev bool) string {
	s := fmt.Sprintf("holds %d chunks / %d bytes, written %d chunks / %d bytes", len(got.Items), tableLen(got), len(want.Items), tableLen(want))
	if hadPrev && sameTable(got, prev) {
		s += " — it is still the PREVIOUS version of this name"
	}
	return s
}

func tableLen(a ref.IndexFile) uint64 {
	if len(a.Items) == 0 {
		return 0
	}
	return a.Items[len(a.Items)-1].End
}

// runHistory executes the history of the case. base is the table the case has written
// under histNames[0] (baseStored tells whether that write succeeded).
func runHistory(c Case, kind string, h *histAccess, base ref.IndexFile, baseStored bool, o *hx.Outcome, f *failer) (done []string) {
	steps := c.History
	if len(steps) > 16 {
		steps = steps[:16]
	}
	model := map[string]ref.IndexFile{}
	if baseStored {
		model[histNames[0]] = base
	}
	check := func(name, when string, prev ref.IndexFile, hadPrev bool) {
		want := model[name]
		got, err := h.get(name)
		if err != nil {
			f.fail("C04:store-history:read-error", "%s: %s: GetIndex(%s) failed although StoreIndex reported success: %v", kind, when, name, err)
		} else {
			compareIndex(f, "C04:store-history:read-back:", fmt.Sprintf("%s: %s: GetIndex(%s)", kind, when, name), got, want)
		}
		imgs, err := h.raw(name)
		if err != nil {
			f.fail("C04:store-history:object", "%s: %s: the stored object %s cannot be fetched raw: %v", kind, when, name, err)
		}
		for _, img := range imgs {
			dec, err := ref.ParseIndex(img.b)
			switch {
			case err != nil:
				f.fail("C04:store-history:object", "%s: %s: %s of %s (%d bytes) is refused by the independent parser: %v", kind, when, img.where, name, len(img.b), err)
			case !sameTable(dec, want):
				f.fail("C04:store-history:object", "%s: %s: %s of %s %s", kind, when, img.where, name, describeDiff(dec, want, prev, hadPrev))
			}
		}
	}
	usedNames := map[string]bool{}
	for si, st := range steps {
		if st.Name < 0 || st.Name >= len(histNames) {
			st.Name = 0
		}
		name := histNames[st.Name]
		prev, hadPrev := model[name]
		from := prev
		if !hadPrev {
			from = base
		}
		next := derive(from, st.Rel, st.Seed)
		label := "create"
		if hadPrev {
			label = "overwrite:" + relation(prev, next, st.Rel)
		}
		when := fmt.Sprintf("step %d (%s, %d -> %d chunks)", si+1, label, len(prev.Items), len(next.Items))
		if err := h.store(name, toIndex(next)); err != nil {
			f.fail("C04:store-history:write-error", "%s: %s: StoreIndex(%s) of a valid index failed: %v", kind, when, name, err)
			continue // the name keeps its model value: a refused write must not change it
		}
		model[name] = next
		usedNames[name] = true
		done = append(done, label)
		o.Class("store-history:" + label)
		check(name, when, prev, hadPrev)
	}
	if len(done) > 0 {
		o.Class("store-history:" + kind)
		if len(usedNames) >= 2 {
			o.Class("store-history:interleaved-names")
		}
		for _, name := range histNames { // fixed order
			if _, ok := model[name]; ok {
				check(name, "end of history", ref.IndexFile{}, false)
			}
		}
	}
	return done
}
