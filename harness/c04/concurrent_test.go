package c04

// Concurrent reads of several names from one index store (HTTP through desync's own
// handler; local and S3 for symmetry): k names hold different indexes of the same shape
// and/or of different shapes; g goroutines fetch them repeatedly (own RemoteHTTPIndex per
// goroutine or one shared client), slow raw readers take their body in small pieces, a
// writer stores other names meanwhile. Every response must decode to exactly the index
// stored under the requested name.
//
// Deterministic variant (HTTP): a reader with a tiny receive buffer fetches the headers and
// the first KB of a large index, so that the server is still writing that response; then
// complete GETs of other names are served by the same handler; then the slow reader takes
// the rest. Its body must still be its own index. No verdict depends on timing: the
// pauses only widen windows, the deadlines are hang guards.

import (
	"bufio"
	"encoding/binary"
	"errors"
	"fmt"
	"io"
	"net"
	"net/http"
	"net/http/httptest"
	"net/url"
	"strings"
	"sync"
	"syscall"
	"time"

	"github.com/folbricht/desync"
	"pgregory.net/rapid"

	"verifharness/internal/hx"
	"verifharness/internal/ref"
)

// Conc describes the concurrent part of a case.
type Conc struct {
	Names   int    `json:"names"`             // 2..4 names read concurrently
	Shape   string `json:"shape"`             // same | different | mixed
	Chunks  int    `json:"chunks"`            // chunk count of the largest index
	G       int    `json:"g"`                 // reader goroutines (2..8)
	Rounds  int    `json:"rounds"`            // GetIndex calls per goroutine
	Shared  bool   `json:"shared,omitempty"`  // HTTP: all goroutines use one RemoteHTTPIndex (else one each)
	Slow    int    `json:"slow,omitempty"`    // HTTP: raw readers taking the body in small pieces with pauses
	Writers int    `json:"writers,omitempty"` // goroutines storing other names meanwhile (not on S3: cost)
	Det     bool   `json:"det,omitempty"`     // HTTP: the deterministic slow-reader scenario instead of goroutines
	Seed    uint64 `json:"seed,omitempty"`
}

// concKinds: store kinds driven with concurrent reads.
var concKinds = map[string]bool{"http": true, "local": true, "s3": true}

// httpAccess is what the HTTP kind offers beyond histAccess.
type httpAccess struct {
	handler http.Handler // desync's HTTPIndexHandler over the upstream local store
	url     string       // base URL of the case's server
}

func concMaxChunks() int { return hx.Pick(20000, 60000) }

func drawConc(t *rapid.T, kind string) *Conc {
	odds := 3 // one case in four
	if kind == "local" {
		odds = 7 // local cases are four times as frequent and the least interesting here
	}
	if !concKinds[kind] || rapid.IntRange(0, odds).Draw(t, "conc?") != 0 {
		return nil
	}
	c := &Conc{
		Names:  rapid.IntRange(2, 4).Draw(t, "cnames"),
		Shape:  rapid.SampledFrom([]string{"same", "same", "different", "mixed"}).Draw(t, "cshape"),
		G:      rapid.IntRange(2, 8).Draw(t, "cg"),
		Rounds: rapid.IntRange(1, 3).Draw(t, "crounds"),
		Seed:   rapid.Uint64().Draw(t, "cseed"),
	}
	limit := rapid.SampledFrom([]int{8, 200, 200, 200, 3000, 3000, 3000, concMaxChunks()}).Draw(t, "cchunklimit")
	c.Chunks = rapid.IntRange(1, limit).Draw(t, "cchunks")
	if kind == "http" {
		c.Shared = rapid.Bool().Draw(t, "cshared")
		c.Slow = rapid.IntRange(0, 2).Draw(t, "cslow")
		c.Det = rapid.IntRange(0, 3).Draw(t, "cdet") == 0
	}
	if kind != "s3" {
		c.Writers = rapid.IntRange(0, 1).Draw(t, "cwriters")
	}
	return c
}

// concTable makes index number i of the concurrent part: sizes depend on shapeSeed only
// (equal shapeSeed and count = same shape), IDs on idSeed.
func concTable(c Case, count int, shapeSeed, idSeed uint64) ref.IndexFile {
	t := ref.IndexFile{Flags: caseFlags(c), Min: c.Min, Avg: c.Avg, Max: c.Max}
	cp := capOf(c.Max)
	if cp == 0 {
		return t
	}
	if cp > 4096 {
		cp = 4096
	}
	rs, ri := rng(shapeSeed), rng(idSeed)
	var pos uint64
	t.Items = make([]ref.IndexItem, count)
	for i := range t.Items {
		pos += 1 + rs.below(cp)
		t.Items[i].End = pos
		for j := 0; j < 4; j++ {
			binary.LittleEndian.PutUint64(t.Items[i].ID[8*j:], ri.next())
		}
	}
	return t
}

func concTables(c Case, cc Conc) (names []string, tables []ref.IndexFile, sameShape, diffShape bool) {
	k := cc.Names
	if k < 2 {
		k = 2
	}
	if k > 4 {
		k = 4
	}
	n := cc.Chunks
	if n < 1 {
		n = 1
	}
	if n > 60000 {
		n = 60000
	}
	if cc.Det && n < 6000 {
		n = 6000 // the response must exceed what the shrunk socket buffers can hold (see runDetSlowReader)
	}
	for i := 0; i < k; i++ {
		count, shapeSeed := n, cc.Seed
		different := cc.Shape == "different" && i > 0 || cc.Shape == "mixed" && i >= 2
		if different {
			// shorter ones: a shorter encoding re-uses a server-side buffer, a longer one would replace it
			count = n - 1 - int(uint64(i)*cc.Seed%uint64(n/2+1))
			if count < 0 {
				count = 0
			}
			shapeSeed = cc.Seed + uint64(i)
			diffShape = true
		} else if i > 0 {
			sameShape = true
		}
		names = append(names, fmt.Sprintf("c%d.caibx", i))
		tables = append(tables, concTable(c, count, shapeSeed, cc.Seed*31+uint64(i)+1))
	}
	return names, tables, sameShape, diffShape
}

// judge compares one fetched result with the table stored under the requested name.
func judgeBytes(f *failer, who, name string, b []byte, err error, want ref.IndexFile, tables []ref.IndexFile, names []string) {
	if err != nil {
		f.fail("C04:concurrent-get:error", "%s: GET %s failed: %v", who, name, err)
		return
	}
	got, perr := ref.ParseIndex(b)
	if perr != nil {
		f.fail("C04:concurrent-get:malformed", "%s: the %d bytes received for %s (stored: %d chunks, %d bytes) are refused by the independent parser: %v",
			who, len(b), name, len(want.Items), ref.IndexLen(len(want.Items)), perr)
		return
	}
	if !sameTable(got, want) {
		f.fail("C04:concurrent-get:wrong-index", "%s: the body received for %s is a well-formed index but not the one stored under that name%s", who, name, whose(got, want, tables, names))
	}
}

func whose(got, want ref.IndexFile, tables []ref.IndexFile, names []string) string {
	for i, t := range tables {
		if sameTable(got, t) {
			return " (it is the index stored under " + names[i] + ")"
		}
	}
	if len(got.Items) == len(want.Items) {
		foreign := 0
		for i := range got.Items {
			if got.Items[i] != want.Items[i] {
				foreign++
			}
		}
		return fmt.Sprintf(" (%d of %d table items differ)", foreign, len(want.Items))
	}
	return fmt.Sprintf(" (%d chunks instead of %d)", len(got.Items), len(want.Items))
}

func judgeIndex(f *failer, who, name string, got desync.Index, err error, want ref.IndexFile) {
	if err != nil {
		f.fail("C04:concurrent-get:error", "%s: GetIndex(%s) failed: %v", who, name, err)
		return
	}
	judgeIndexSig(f, "C04:concurrent-get:wrong-index", who, name, got, want)
}

// judgeIndexSig reports one violation sig when got is not the table want.
func judgeIndexSig(f *failer, sig, who, name string, got desync.Index, want ref.IndexFile) {
	// compare through the failer-free path first so that one wrong response is one report
	bad := got.Index.FeatureFlags != want.Flags || got.Index.ChunkSizeMin != want.Min || got.Index.ChunkSizeAvg != want.Avg ||
		got.Index.ChunkSizeMax != want.Max || len(got.Chunks) != len(want.Items)
	diff := 0
	if !bad {
		var start uint64
		for i, it := range want.Items {
			g := got.Chunks[i]
			if [32]byte(g.ID) != it.ID || g.Start != start || g.Size != it.End-start {
				diff++
			}
			start = it.End
		}
	}
	if bad || diff > 0 {
		f.fail(sig, "%s: GetIndex(%s) returned an index other than the one stored under that name (%d chunks, stored %d; %d table items differ)",
			who, name, len(got.Chunks), len(want.Items), diff)
	}
}

// ---------------------------------------------------------------- raw slow reader

func smallRcvBuf(network, address string, rc syscall.RawConn) error {
	return rc.Control(func(fd uintptr) {
		syscall.SetsockoptInt(int(fd), syscall.SOL_SOCKET, syscall.SO_RCVBUF, 4096)
	})
}

// slowGet fetches /name over its own connection with a small receive buffer: headers and
// the first `first` bytes of the body, then between() (may be nil), then the rest in pieces
// with pause() after each of the first 32 pieces.
func slowGet(base, name string, first int, between func(), piece int, pause func()) ([]byte, error) {
	u, err := url.Parse(base)
	if err != nil {
		return nil, err
	}
	d := net.Dialer{Timeout: 30 * time.Second, Control: smallRcvBuf}
	conn, err := d.Dial("tcp", u.Host)
	if err != nil {
		return nil, err
	}
	defer conn.Close()
	conn.SetDeadline(time.Now().Add(100 * time.Second)) // hang guard only
	if _, err := fmt.Fprintf(conn, "GET /%s HTTP/1.1\r\nHost: %s\r\nConnection: close\r\n\r\n", name, u.Host); err != nil {
		return nil, err
	}
	resp, err := http.ReadResponse(bufio.NewReaderSize(conn, 256), nil)
	if err != nil {
		return nil, err
	}
	defer resp.Body.Close()
	if resp.StatusCode != 200 {
		msg, _ := io.ReadAll(io.LimitReader(resp.Body, 300))
		return nil, fmt.Errorf("status %d: %s", resp.StatusCode, strings.TrimSpace(string(msg)))
	}
	var body []byte
	buf := make([]byte, first)
	n, err := io.ReadFull(resp.Body, buf)
	body = append(body, buf[:n]...)
	if err == io.EOF || errors.Is(err, io.ErrUnexpectedEOF) {
		if between != nil {
			between()
		}
		return body, nil
	}
	if err != nil {
		return body, err
	}
	if between != nil {
		between()
	}
	buf = make([]byte, piece)
	for k := 0; ; k++ {
		n, err := resp.Body.Read(buf)
		body = append(body, buf[:n]...)
		if err == io.EOF {
			return body, nil
		}
		if err != nil {
			return body, err
		}
		if pause != nil && k < 32 {
			pause()
		}
	}
}

// smallSndBufListener shrinks the send buffer of accepted connections (a slow network).
type smallSndBufListener struct{ net.Listener }

func (l smallSndBufListener) Accept() (net.Conn, error) {
	c, err := l.Listener.Accept()
	if tc, ok := c.(*net.TCPConn); ok {
		tc.SetWriteBuffer(8 << 10)
	}
	return c, err
}

// runDetSlowReader: the deterministic scenario. The server (same handler instance as the
// case's server, its own listener with 8 KiB send buffers) answers a GET of names[0] to a
// client with a 4 KiB receive buffer that stops after the first KB: at most a few tens of
// KB of the >= 240 KB response have left the handler, which is therefore still inside its
// Write. Then every other name is fetched completely (twice), then the reader resumes.
func runDetSlowReader(kind string, ha *httpAccess, names []string, tables []ref.IndexFile, f *failer) {
	srv := httptest.NewUnstartedServer(ha.handler)
	srv.Listener = smallSndBufListener{srv.Listener}
	srv.Start()
	defer srv.Close()
	u, _ := url.Parse(srv.URL + "/")
	st, err := desync.NewRemoteHTTPIndexStore(u, desync.StoreOptions{})
	if err != nil {
		f.fail("C04:store:http:open", "cannot open a RemoteHTTPIndex on the second listener: %v", err)
		return
	}
	defer st.Close()
	between := func() {
		for round := 0; round < 2; round++ {
			for i := len(names) - 1; i >= 1; i-- {
				got, err := st.GetIndex(names[i])
				judgeIndex(f, "http: complete GET while another response is half sent", names[i], got, err, tables[i])
			}
		}
	}
	body, err := slowGet(srv.URL, names[0], 1024, between, 16<<10, nil)
	judgeBytes(f, "http: reader that paused after the first KB while other names were fetched", names[0], body, err, tables[0], tables, names)
	// and once more without any overlap: the stored objects are still intact
	for i, name := range names {
		got, err := st.GetIndex(name)
		judgeIndex(f, "http: sequential GET after the overlap", name, got, err, tables[i])
	}
}

// ---------------------------------------------------------------- run

func runConcurrent(c Case, kind string, env *storeEnv, o *hx.Outcome, f *failer) map[string]any {
	cc := *c.Conc
	h := env.hist
	if h == nil || h.plant == nil || capOf(c.Max) == 0 {
		return nil
	}
	if kind != "http" {
		cc.Shared, cc.Slow, cc.Det = false, 0, false
	}
	if kind == "s3" {
		cc.Writers = 0
	}
	names, tables, sameShape, diffShape := concTables(c, cc)
	for i, name := range names {
		if err := h.plant(name, ref.EncodeIndex(tables[i])); err != nil {
			panic("harness: planting " + name + ": " + err.Error())
		}
	}
	pfx := kind + ":concurrent-get:"
	if sameShape {
		o.Class(pfx + "same-shape")
	}
	if diffShape {
		o.Class(pfx + "different-shape")
	}
	if len(tables[0].Items) >= 5000 {
		o.Class(pfx + "large")
	}
	info := map[string]any{"names": len(names), "shape": cc.Shape, "chunks": len(tables[0].Items)}
	if cc.Det && env.http != nil {
		o.Class(pfx + "deterministic-slow-reader")
		info["det"] = true
		runDetSlowReader(kind, env.http, names, tables, f)
		return info
	}
	g := cc.G
	if g < 2 {
		g = 2
	}
	if g > 8 {
		g = 8
	}
	rounds := cc.Rounds
	if rounds < 1 {
		rounds = 1
	}
	if rounds > 4 {
		rounds = 4
	}
	if !hx.Thorough() && len(tables[0].Items) > 5000 { // quick tier: bound the work of the large cases
		rounds = 1
		if g > 4 {
			g = 4
		}
	}
	info["g"], info["rounds"], info["slow"], info["writers"], info["shared"] = g, rounds, cc.Slow, cc.Writers, cc.Shared

	type result struct {
		name string
		want int
		idx  desync.Index
		body []byte
		raw  bool
		err  error
	}
	results := make([][]result, g+cc.Slow)
	var closers []func()
	getters := make([]func(string) (desync.Index, error), g)
	for j := range getters {
		getters[j] = h.get
		if env.http != nil && !cc.Shared {
			u, _ := url.Parse(env.http.url + "/")
			st, err := desync.NewRemoteHTTPIndexStore(u, desync.StoreOptions{})
			if err != nil {
				f.fail("C04:store:http:open", "cannot open RemoteHTTPIndex number %d: %v", j, err)
				continue
			}
			getters[j] = st.GetIndex
			closers = append(closers, func() { st.Close() })
		}
	}
	if env.http != nil {
		if cc.Shared {
			o.Class(pfx + "shared-client")
		} else {
			o.Class(pfx + "own-client")
		}
	}
	var wg sync.WaitGroup
	start := make(chan struct{})
	for j := 0; j < g; j++ {
		wg.Add(1)
		go func(j int) {
			defer wg.Done()
			<-start
			for r := 0; r < rounds; r++ {
				w := (j + r) % len(names)
				idx, err := getters[j](names[w])
				results[j] = append(results[j], result{name: names[w], want: w, idx: idx, err: err})
			}
		}(j)
	}
	if env.http != nil && cc.Slow > 0 {
		o.Class(pfx + "slow-reader")
		for s := 0; s < cc.Slow && s < 2; s++ {
			wg.Add(1)
			go func(s int) {
				defer wg.Done()
				<-start
				w := s % len(names)
				body, err := slowGet(env.http.url, names[w], 512, nil, 2048, func() { time.Sleep(200 * time.Microsecond) })
				results[g+s] = append(results[g+s], result{name: names[w], want: w, body: body, raw: true, err: err})
			}(s)
		}
	}
	// a writer on other names meanwhile
	wnames := []string{"w0.caibx", "w1.caibx"}
	wtables := []ref.IndexFile{concTable(c, len(tables[0].Items)/2+1, cc.Seed+100, cc.Seed+101), concTable(c, 3, cc.Seed+102, cc.Seed+103)}
	werrs := make([]error, len(wnames))
	if cc.Writers > 0 {
		o.Class(pfx + "with-writer")
		wg.Add(1)
		go func() {
			defer wg.Done()
			<-start
			for i, name := range wnames {
				werrs[i] = h.store(name, toIndex(wtables[i]))
			}
		}()
	}
	close(start)
	wg.Wait()
	for _, cl := range closers {
		cl()
	}
	// verdicts in a fixed order
	for j, rs := range results {
		for r, res := range rs {
			if res.raw {
				judgeBytes(f, fmt.Sprintf("%s: slow raw reader %d (concurrent with %d GetIndex goroutines)", kind, j-g, g), res.name, res.body, res.err, tables[res.want], tables, names)
			} else {
				judgeIndex(f, fmt.Sprintf("%s: goroutine %d of %d, round %d", kind, j, g, r), res.name, res.idx, res.err, tables[res.want])
			}
		}
	}
	if cc.Writers > 0 {
		for i, name := range wnames {
			if werrs[i] != nil {
				f.fail("C04:concurrent-put:write-error", "%s: StoreIndex(%s) concurrent with reads of other names failed: %v", kind, name, werrs[i])
				continue
			}
			got, err := h.get(name)
			if err != nil {
				f.fail("C04:concurrent-put:read-error", "%s: GetIndex(%s) after a StoreIndex concurrent with reads of other names failed: %v", kind, name, err)
				continue
			}
			compareIndex(f, "C04:concurrent-put:read-back:", kind+": "+name+" stored concurrently with reads of other names", got, wtables[i])
		}
	}
	return info
}
