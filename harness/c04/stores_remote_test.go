package c04

// S3IndexStore through the in-process fake S3 (internal/fakes3) and, in the thorough tier,
// SFTPIndexStore through the fake ssh (internal/fakessh: the sftp server is a re-execution
// of this test binary, started by desync itself via $CASYNC_SSH_PATH).

import (
	"fmt"
	"os"
	"path/filepath"
	"sync"

	"github.com/folbricht/desync"

	"verifharness/internal/fakes3"
	"verifharness/internal/fakessh"
	"verifharness/internal/hx"
)

// registerRemote is called from the init function in stores_test.go (after the local kinds).
func registerRemote() {
	register("s3", 1, openS3)
	if hx.Thorough() || os.Getenv("VERIF_C04_SFTP") == "1" {
		register("sftp", 1, openSFTP)
	}
}

func openS3(func() string) (*storeEnv, error) {
	srv := fakes3.New()
	const bucket = "indexes"
	s, err := fakes3.IndexStore(srv, bucket, "", desync.StoreOptions{})
	if err != nil {
		srv.Close()
		return nil, err
	}
	return objectEnv("S3IndexStore", s,
		func(name string) ([]byte, error) {
			b, ok := srv.Get(bucket, name)
			if !ok {
				return nil, fmt.Errorf("no object %s/%s in the fake bucket", bucket, name)
			}
			return b, nil
		},
		func(name string, b []byte) error { srv.Put(bucket, name, b); return nil },
		srv.Close), nil
}

// One sftp session (child process) per test process: desync never reaps its ssh children,
// so a session per case would pile up zombies. The store is passive between cases.
var sftpShared struct {
	once sync.Once
	dir  string
	s    *desync.SFTPIndexStore
	err  error
}

func openSFTP(func() string) (*storeEnv, error) {
	sh := &sftpShared
	sh.once.Do(func() {
		sh.dir = hx.Scratch("c04sftp")
		var cleanup func()
		if cleanup, sh.err = fakessh.Setup(sh.dir); sh.err != nil {
			return
		}
		sh.s, sh.err = fakessh.SFTPIndexStore(sh.dir, desync.StoreOptions{})
		cleanup() // the session is running: restore $CASYNC_SSH_PATH, drop the wrapper script
	})
	if sh.err != nil {
		return nil, sh.err
	}
	env := objectEnv("SFTPIndexStore", sh.s,
		func(name string) ([]byte, error) { return os.ReadFile(filepath.Join(sh.dir, name)) },
		func(name string, b []byte) error { return os.WriteFile(filepath.Join(sh.dir, name), b, 0o644) },
		nil)
	env.close = func() {} // shared session: not closed per case
	return env, nil
}
