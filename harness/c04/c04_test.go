// C04 — Index files round-trip exactly and malformed ones are rejected.
//
// One case = one generated index (parameters, chunk table) x digest x index store kind.
// run() writes it through the store, checks every observable byte image against the
// independent caibx codec (internal/ref), reads it back and compares field by field, and
// then feeds malformed variants of the file (truncated, one offset decreased, one chunk
// enlarged beyond the declared maximum, digest flag flipped) to every reading path of the
// store: each must be refused. Store kinds live in stores_test.go.
package c04

import (
	"bytes"
	"encoding/binary"
	"fmt"
	"os"
	"path/filepath"
	"sort"
	"strings"
	"testing"
	"time"

	"github.com/folbricht/desync"
	"pgregory.net/rapid"

	"verifharness/internal/hx"
	"verifharness/internal/ref"
)

const (
	digestBit = uint64(0x2000000000000000) // CA_FORMAT_SHA512_256, bit 61 of the feature flags
	sizeCap   = uint64(1) << 40            // generated chunk sizes stay <= min(max, 2^40)
	maxU64    = ^uint64(0)
	maxChunks = 2000
)

type Case struct {
	SHA256   bool       `json:"sha256"`              // configured digest (desync.Digest) and digest bit of the flags
	Store    string     `json:"store"`               // mem | local | console | http | (s3 | sftp)
	Flags    uint64     `json:"flags"`               // feature flags; bit 61 is overridden consistently with SHA256
	Min      uint64     `json:"min"`                 // ChunkSizeMin
	Avg      uint64     `json:"avg"`                 // ChunkSizeAvg
	Max      uint64     `json:"max"`                 // ChunkSizeMax
	N        int        `json:"n"`                   // number of chunks (0 when Max == 0)
	SizeMode string     `json:"size_mode,omitempty"` // one | cap | cap-1 | small | wide | mixed
	SizeSeed uint64     `json:"size_seed,omitempty"` // sizes are expanded from this seed
	Sizes    []uint64   `json:"sizes,omitempty"`     // explicit sizes (enumerations); overrides N/SizeMode/SizeSeed
	IDMode   string     `json:"id_mode,omitempty"`   // rand | zero | mixed
	IDSeed   uint64     `json:"id_seed,omitempty"`   // chunk IDs are expanded from this seed
	Pick     uint64     `json:"pick,omitempty"`      // seed that selects the sampled malformed variants
	Full     bool       `json:"full,omitempty"`      // enumerate malformed variants completely instead of sampling
	Fixture  string     `json:"fixture,omitempty"`   // repo-relative path of a fixture index: re-encode case
	History  []HistStep `json:"history,omitempty"`   // further StoreIndex calls on a few names (history_test.go)
	Conc     *Conc      `json:"conc,omitempty"`      // concurrent reads of several names (concurrent_test.go)
	Big      int        `json:"big,omitempty"`       // > 0: large-index case with this many chunks (big_test.go)
}

// ---------------------------------------------------------------- deterministic expansion

type rng uint64

func (r *rng) next() uint64 {
	*r += 0x9e3779b97f4a7c15
	z := uint64(*r)
	z = (z ^ (z >> 30)) * 0xbf58476d1ce4e5b9
	z = (z ^ (z >> 27)) * 0x94d049bb133111eb
	return z ^ (z >> 31)
}

func (r *rng) below(n uint64) uint64 {
	if n == 0 {
		return 0
	}
	return r.next() % n
}

func capOf(max uint64) uint64 {
	if max > sizeCap {
		return sizeCap
	}
	return max
}

// caseSizes returns the chunk sizes of the case, forced into the domain of the property:
// 1 <= size <= min(Max, 2^40), at most 2000 chunks, none when Max == 0.
func caseSizes(c Case) []uint64 {
	cp := capOf(c.Max)
	if cp == 0 {
		return nil
	}
	if c.Sizes != nil {
		out := make([]uint64, 0, len(c.Sizes))
		for _, s := range c.Sizes {
			if s < 1 {
				s = 1
			}
			if s > cp {
				s = cp
			}
			out = append(out, s)
		}
		if len(out) > maxChunks {
			out = out[:maxChunks]
		}
		return out
	}
	n := c.N
	if n < 0 {
		n = 0
	}
	if n > maxChunks {
		n = maxChunks
	}
	r := rng(c.SizeSeed)
	out := make([]uint64, n)
	small := cp
	if small > 16 {
		small = 16
	}
	for i := range out {
		mode := c.SizeMode
		if mode == "mixed" {
			mode = []string{"one", "cap", "cap-1", "small", "wide"}[r.below(5)]
		}
		switch mode {
		case "one":
			out[i] = 1
		case "cap":
			out[i] = cp
		case "cap-1":
			out[i] = cp - 1
			if out[i] == 0 {
				out[i] = 1
			}
		case "small":
			out[i] = 1 + r.below(small)
		default: // wide: magnitudes spread over 1 .. 2^40
			bits := r.below(41)
			out[i] = 1 + (r.next()&(uint64(1)<<bits-1))%cp
		}
	}
	return out
}

func caseIDs(c Case, n int) [][32]byte {
	r := rng(c.IDSeed)
	ids := make([][32]byte, n)
	for i := range ids {
		mode := c.IDMode
		if mode == "mixed" {
			mode = []string{"rand", "rand", "zero", "ff", "zero-head", "zero-tail", "dup"}[r.below(7)]
		}
		var id [32]byte
		for j := 0; j < 4; j++ {
			binary.LittleEndian.PutUint64(id[8*j:], r.next())
		}
		switch mode {
		case "zero":
			id = [32]byte{}
		case "ff":
			for j := range id {
				id[j] = 0xff
			}
		case "zero-head":
			copy(id[:8], make([]byte, 8))
		case "zero-tail":
			copy(id[24:], make([]byte, 8))
		case "dup":
			if i > 0 {
				id = ids[i-1]
			}
		}
		ids[i] = id
	}
	return ids
}

func caseFlags(c Case) uint64 {
	f := c.Flags &^ digestBit
	if !c.SHA256 {
		f |= digestBit
	}
	return f
}

// build makes the desync.Index under test and, independently of it, the table the file
// must contain.
func build(c Case) (x desync.Index, want ref.IndexFile, sizes []uint64) {
	sizes = caseSizes(c)
	ids := caseIDs(c, len(sizes))
	flags := caseFlags(c)
	x.Index = desync.FormatIndex{FeatureFlags: flags, ChunkSizeMin: c.Min, ChunkSizeAvg: c.Avg, ChunkSizeMax: c.Max}
	want = ref.IndexFile{Flags: flags, Min: c.Min, Avg: c.Avg, Max: c.Max}
	var pos uint64
	for i, s := range sizes {
		x.Chunks = append(x.Chunks, desync.IndexChunk{ID: desync.ChunkID(ids[i]), Start: pos, Size: s})
		pos += s
		want.Items = append(want.Items, ref.IndexItem{End: pos, ID: ids[i]})
	}
	return x, want, sizes
}

// ---------------------------------------------------------------- malformed inputs

type malformed struct {
	class string // truncated | decreasing-offset | oversize-chunk | wrong-digest
	desc  string
	b     []byte
}

func putU64(b []byte, off int, v uint64) []byte {
	out := append([]byte(nil), b...)
	binary.LittleEndian.PutUint64(out[off:], v)
	return out
}

// truncationLengths lists the prefix lengths to try. breadth: "full" (enumeration: all
// lengths up to 100 chunks, all element boundaries +-1 beyond), "wide" (all lengths up to 6
// chunks, else the structural boundaries +-1 and sampled item boundaries), "narrow" (three).
func truncationLengths(n int, breadth string, r *rng) []int {
	total := ref.IndexLen(n)
	set := map[int]bool{}
	add := func(l int) {
		if l >= 0 && l < total {
			set[l] = true
		}
	}
	around := func(l int) { add(l - 1); add(l); add(l + 1) }
	tail := 64 + 40*n
	all := func() {
		for l := 0; l < total; l++ {
			add(l)
		}
	}
	boundaries := func(items []int) {
		for _, l := range []int{0, 8, 16, 24, 32, 40, 48, 56, 64} {
			around(l)
		}
		for _, k := range items {
			around(64 + 40*k)
			around(64 + 40*k + 8)
		}
		for j := 0; j <= 5; j++ {
			around(tail + 8*j)
		}
	}
	switch {
	case breadth == "full" && n <= 100, breadth == "wide" && n <= 6:
		all()
	case breadth == "full":
		items := make([]int, n)
		for k := range items {
			items[k] = k
		}
		boundaries(items)
	case breadth == "wide":
		items := []int{0, 1, n - 1}
		for j := 0; j < 6; j++ {
			items = append(items, int(r.below(uint64(n))))
		}
		boundaries(items)
		for j := 0; j < 4; j++ {
			add(int(r.below(uint64(total))))
		}
	default: // narrow
		add(tail + 8*int(r.below(5)) + int(r.below(3)) - 1)
		add(64 + 40*int(r.below(uint64(n+1))) + []int{-1, 0, 1, 8, 9}[r.below(5)])
		add(int(r.below(uint64(total))))
		if len(set) == 0 {
			add(total - 1)
		}
	}
	out := make([]int, 0, len(set))
	for l := range set {
		out = append(out, l)
	}
	sort.Ints(out)
	return out
}

// malformedInputs derives the malformed files of the four classes of the statement from
// the reference encoding of the case's table.
func malformedInputs(c Case, valid []byte, want ref.IndexFile, sizes []uint64, breadth string) (out []malformed) {
	n := len(sizes)
	r := rng(c.Pick)
	// (1) truncated: strict prefixes
	for _, l := range truncationLengths(n, breadth, &r) {
		out = append(out, malformed{"truncated", fmt.Sprintf("prefix of %d of %d bytes", l, len(valid)), valid[:l]})
	}
	// (2) one offset decreased below its predecessor (kept >= 1: a zero offset is the table terminator)
	if n >= 2 {
		var at []int
		switch breadth {
		case "full":
			for i := 1; i < n; i++ {
				at = append(at, i)
			}
			if n > 100 {
				at = []int{1, 2, n / 2, n - 2, n - 1}
			}
		case "wide":
			at = []int{1, n - 1, 1 + int(r.below(uint64(n-1)))}
		default:
			at = []int{1 + int(r.below(uint64(n-1)))}
		}
		done := map[[2]uint64]bool{}
		for _, i := range at {
			prev := want.Items[i-1].End
			if prev < 2 {
				continue // no value in 1..prev-1
			}
			var targets []uint64
			switch {
			case breadth == "full" && prev <= 32:
				for v := uint64(1); v < prev; v++ {
					targets = append(targets, v)
				}
			case breadth == "narrow":
				targets = []uint64{[]uint64{prev - 1, 1, 1 + r.below(prev-1)}[r.below(3)]}
			default:
				targets = []uint64{prev - 1, 1, 1 + r.below(prev-1), prev / 2}
			}
			for _, v := range targets {
				if done[[2]uint64{uint64(i), v}] {
					continue
				}
				done[[2]uint64{uint64(i), v}] = true
				out = append(out, malformed{"decreasing-offset",
					fmt.Sprintf("offset of item %d set to %d (predecessor %d, was %d), max=%d", i, v, prev, want.Items[i].End, c.Max),
					putU64(valid, 64+40*i, v)})
			}
		}
	}
	// (3) one chunk enlarged beyond the declared maximum (impossible when max = MaxUint64)
	if n >= 1 && c.Max < maxU64 {
		var at []int
		switch breadth {
		case "full":
			for i := 0; i < n; i++ {
				at = append(at, i)
			}
			if n > 100 {
				at = []int{0, 1, n / 2, n - 1}
			}
		case "wide":
			at = []int{0, n - 1, int(r.below(uint64(n)))}
		default:
			at = []int{int(r.below(uint64(n)))}
		}
		done := map[[3]uint64]bool{}
		last := want.Items[n-1].End
		for _, i := range at {
			need := c.Max - sizes[i] + 1 // smallest growth that exceeds max; sizes[i] <= max
			extras := []uint64{0, 1, 1 + r.below(1000)}
			if breadth == "narrow" {
				extras = extras[r.below(3):][:1]
			}
			for _, extra := range extras {
				delta := need + extra
				if delta < need {
					continue
				}
				only := r.below(2) == 0 || i == n-1 // narrow: one of the two variants
				for _, shift := range []bool{true, false} {
					key := [3]uint64{uint64(i), delta, 0}
					if shift {
						key[2] = 1
					}
					if done[key] || (breadth == "narrow" && shift != only) {
						continue
					}
					done[key] = true
					b := append([]byte(nil), valid...)
					if shift { // all following offsets move along: exactly one chunk is too large
						if last > maxU64-delta {
							continue
						}
						for j := i; j < n; j++ {
							binary.LittleEndian.PutUint64(b[64+40*j:], want.Items[j].End+delta)
						}
					} else { // only this offset moves (the following chunk shrinks or goes backwards)
						if i == n-1 || want.Items[i].End > maxU64-delta {
							continue
						}
						binary.LittleEndian.PutUint64(b[64+40*i:], want.Items[i].End+delta)
					}
					out = append(out, malformed{"oversize-chunk",
						fmt.Sprintf("chunk %d enlarged from %d to %d bytes (max %d), following offsets shifted=%v", i, sizes[i], sizes[i]+delta, c.Max, shift), b})
				}
			}
		}
	}
	// (4) digest flag flipped relative to the configured digest
	out = append(out, malformed{"wrong-digest",
		fmt.Sprintf("feature flags %#x -> %#x with digest sha256=%v configured", want.Flags, want.Flags^digestBit, c.SHA256),
		putU64(valid, 16, want.Flags^digestBit)})
	return out
}

// ---------------------------------------------------------------- run

func digestName(sha256 bool) string {
	if sha256 {
		return "sha256"
	}
	return "sha512-256"
}

func chunkClass(n int) string {
	switch {
	case n == 0:
		return "chunks:0"
	case n == 1:
		return "chunks:1"
	case n <= 6:
		return "chunks:2-6"
	case n <= 64:
		return "chunks:7-64"
	default:
		return "chunks:65+"
	}
}

// failer keeps the first two reports per signature and counts the rest.
type failer struct {
	o    *hx.Outcome
	seen map[string]int
}

func (f *failer) fail(sig, format string, a ...any) {
	f.seen[sig]++
	if f.seen[sig] <= 2 {
		f.o.Fail(sig, format, a...)
	}
}

func compareIndex(f *failer, prefix, where string, got desync.Index, want ref.IndexFile) {
	chk := func(name string, g, w uint64) {
		if g != w {
			f.fail(prefix+name, "%s: %s read back as %#x, written %#x", where, name, g, w)
		}
	}
	chk("flags", got.Index.FeatureFlags, want.Flags)
	chk("min", got.Index.ChunkSizeMin, want.Min)
	chk("avg", got.Index.ChunkSizeAvg, want.Avg)
	chk("max", got.Index.ChunkSizeMax, want.Max)
	if len(got.Chunks) != len(want.Items) {
		f.fail(prefix+"count", "%s: %d chunks read back, %d written", where, len(got.Chunks), len(want.Items))
	}
	var start uint64
	for i, it := range want.Items {
		if i >= len(got.Chunks) {
			break
		}
		g := got.Chunks[i]
		if [32]byte(g.ID) != it.ID {
			f.fail(prefix+"id", "%s: chunk %d id %x, written %x", where, i, g.ID[:], it.ID[:])
		}
		if g.Start != start {
			f.fail(prefix+"start", "%s: chunk %d start %d, written %d", where, i, g.Start, start)
		}
		if g.Size != it.End-start {
			f.fail(prefix+"size", "%s: chunk %d size %d, written %d", where, i, g.Size, it.End-start)
		}
		start = it.End
	}
}

func checkImage(f *failer, img image, want ref.IndexFile) {
	devs := ref.CheckIndexLayout(img.b, want)
	for _, d := range devs {
		f.fail("C04:layout:"+d.Clause, "%s: %s", img.where, d.Msg)
	}
	if len(devs) > 0 {
		return
	}
	// redundant by construction, kept as a cross-check of the two reference routines
	got, err := ref.ParseIndex(img.b)
	if err != nil {
		f.fail("C04:layout:independent-parse", "%s: the independent parser refuses the %d bytes: %v", img.where, len(img.b), err)
	} else if !sameTable(got, want) {
		f.fail("C04:layout:independent-parse", "%s: the independent parser recovers a different table", img.where)
	}
	if !bytes.Equal(img.b, ref.EncodeIndex(want)) {
		f.fail("C04:layout:bytes-differ", "%s: bytes differ from the reference encoding", img.where)
	}
}

func sameTable(a, b ref.IndexFile) bool {
	if a.Flags != b.Flags || a.Min != b.Min || a.Avg != b.Avg || a.Max != b.Max || len(a.Items) != len(b.Items) {
		return false
	}
	for i := range a.Items {
		if a.Items[i] != b.Items[i] {
			return false
		}
	}
	return true
}

func run(c Case) (o hx.Outcome) {
	savedDigest, savedIn, savedOut := desync.Digest, os.Stdin, os.Stdout
	defer func() { desync.Digest, os.Stdin, os.Stdout = savedDigest, savedIn, savedOut }()
	f := &failer{o: &o, seen: map[string]int{}}
	if c.Fixture != "" {
		runFixture(c, &o, f)
		return o
	}
	if c.Big > 0 {
		runBig(c, &o, f)
		return o
	}
	if c.SHA256 {
		desync.Digest = desync.SHA256{}
	} else {
		desync.Digest = desync.SHA512256{}
	}
	x, want, sizes := build(c)
	n := len(sizes)
	kind := c.Store
	if _, ok := storeKinds[kind]; !ok {
		kind = "mem"
	}
	var total uint64
	if n > 0 {
		total = want.Items[n-1].End
	}
	desc := map[string]any{"store": kind, "digest": digestName(c.SHA256), "chunks": n, "flags": fmt.Sprintf("%#x", want.Flags),
		"min": c.Min, "avg": c.Avg, "max": c.Max, "blob": total, "size_mode": c.SizeMode, "id_mode": c.IDMode, "full": c.Full}
	o.Desc = desc
	o.Key = fmt.Sprintf("%s/%v/%x/%d/%d/%d/%d/%s/%x/%v/%s/%x/%v/%v", kind, c.SHA256, want.Flags, c.Min, c.Avg, c.Max, n, c.SizeMode, c.SizeSeed, c.Sizes, c.IDMode, c.IDSeed, c.Full, c.History) + concKey(c.Conc)
	o.Class(chunkClass(n), "digest:"+digestName(c.SHA256), "store:"+kind)
	switch {
	case c.Max == maxU64:
		o.Class("max:maxuint64")
	case c.Max >= maxU64-(1<<20):
		o.Class("max:near-maxuint64")
	case c.Max == 0:
		o.Class("max:0")
	}
	for _, s := range sizes {
		if s == c.Max {
			o.Class("chunk-size==max")
			break
		}
	}

	dir := ""
	scratch := func() string {
		if dir == "" {
			dir = hx.Scratch("c04")
		}
		return dir
	}
	defer func() {
		if dir != "" {
			os.RemoveAll(dir)
		}
	}()
	env, err := storeKinds[kind](scratch)
	if err != nil {
		f.fail("C04:store:"+kind+":open", "cannot set up the %s index store: %v", kind, err)
		return o
	}
	defer env.close()

	// (a) + (b): write, inspect every observable byte image, read back
	images, err := env.put("x.caibx", x)
	if err != nil {
		f.fail("C04:roundtrip:write-error", "%s: writing a valid index of %d chunks failed: %v", kind, n, err)
	}
	for _, img := range images {
		checkImage(f, img, want)
	}
	if err == nil {
		got, err := env.get("x.caibx")
		if err != nil {
			f.fail("C04:roundtrip:read-error", "%s: reading back the index just written (%d chunks) failed: %v", kind, n, err)
		} else {
			compareIndex(f, "C04:roundtrip:field:", kind, got, want)
		}
	}

	// overwrite histories on the stores that keep named objects
	if len(c.History) > 0 && env.hist != nil {
		hdone := runHistory(c, kind, env.hist, want, err == nil, &o, f)
		desc["history"] = hdone
	}

	// concurrent reads of several names
	if c.Conc != nil && concKinds[kind] {
		if info := runConcurrent(c, kind, env, &o, f); info != nil {
			desc["concurrent"] = info
		}
	}

	// (d): malformed inputs through every reading path of the store
	valid := ref.EncodeIndex(want)
	breadth := "narrow"
	if kind == "mem" {
		breadth = "wide"
	}
	if c.Full {
		breadth = "full"
	}
	inputs := malformedInputs(c, valid, want, sizes, breadth)
	tried := map[string]int{}
	rejected := 0
	for fi, fd := range env.feeds {
		if fd.slow && (c.Full || n > 16) {
			continue
		}
		if c.Full && fi > 0 {
			break
		}
		// the reading path must work at all: it accepts the reference encoding of the table
		if err := fd.read(valid); err != nil {
			f.fail("C04:roundtrip:read-error", "%s: the reference encoding of the table (%d chunks, max %d) is refused: %v", fd.name, n, c.Max, err)
			continue
		}
		for mi, m := range inputs {
			if fd.slow && m.class == "truncated" && mi%4 != int(c.Pick%4) {
				continue // the slow path takes a quarter of the prefixes
			}
			tried[m.class]++
			if err := fd.read(m.b); err == nil {
				f.fail("C04:accepts:"+m.class, "%s accepted a malformed index (%d chunks, digest %s): %s", fd.name, n, digestName(c.SHA256), m.desc)
			} else {
				rejected++
			}
		}
	}
	for class, k := range tried {
		if k > 0 {
			o.Class("mal:" + class)
		}
	}
	desc["malformed_tried"] = tried
	desc["malformed_rejected"] = rejected
	if extra := f.suppressed(); len(extra) > 0 {
		o.Observed = map[string]any{"further_reports_per_signature": extra}
	}
	o.Nontrivial = n >= 2 || n == 0 || rejected > 0
	return o
}

func (f *failer) suppressed() map[string]int {
	out := map[string]int{}
	for sig, k := range f.seen {
		if k > 2 {
			out[sig] = k - 2
		}
	}
	return out
}

// runFixture: a fixture index of the repository must be readable under the digest its flag
// names and re-encode byte-identically through every image the store kind produces.
func runFixture(c Case, o *hx.Outcome, f *failer) {
	kind := c.Store
	if _, ok := storeKinds[kind]; !ok {
		kind = "mem"
	}
	desc := map[string]any{"fixture": c.Fixture, "store": kind}
	o.Desc = desc
	o.Key = "fixture/" + c.Fixture + "/" + kind
	b, err := os.ReadFile(filepath.Join(hx.Repo(), c.Fixture))
	if err != nil {
		f.fail("C04:fixture-missing", "cannot read fixture %s: %v", c.Fixture, err)
		return
	}
	desc["bytes"] = len(b)
	want, perr := ref.ParseIndex(b)
	if perr != nil {
		// deliberately damaged fixture: outside the statement, only exercised
		o.Class("fixture:not-an-index")
		desc["independent_parse"] = perr.Error()
		return
	}
	sha256 := want.Flags&digestBit == 0
	if sha256 {
		desync.Digest = desync.SHA256{}
	} else {
		desync.Digest = desync.SHA512256{}
	}
	desc["chunks"], desc["digest"] = len(want.Items), digestName(sha256)
	o.Class("fixture", "store:"+kind, "digest:"+digestName(sha256))
	o.Nontrivial = true
	idx, err := desync.IndexFromReader(bytes.NewReader(b))
	if err != nil {
		f.fail("C04:fixture-read", "fixture %s (%d chunks, well-formed for the independent parser) is refused: %v", c.Fixture, len(want.Items), err)
		return
	}
	compareIndex(f, "C04:roundtrip:field:", "fixture "+c.Fixture, idx, want)
	dir := ""
	scratch := func() string {
		if dir == "" {
			dir = hx.Scratch("c04")
		}
		return dir
	}
	defer func() {
		if dir != "" {
			os.RemoveAll(dir)
		}
	}()
	env, err := storeKinds[kind](scratch)
	if err != nil {
		f.fail("C04:store:"+kind+":open", "cannot set up the %s index store: %v", kind, err)
		return
	}
	defer env.close()
	images, err := env.put("fixture.caibx", idx)
	if err != nil {
		f.fail("C04:fixture-reencode", "fixture %s: writing through %s failed: %v", c.Fixture, kind, err)
	}
	for _, img := range images {
		if !bytes.Equal(img.b, b) {
			d := 0
			for d < len(b) && d < len(img.b) && b[d] == img.b[d] {
				d++
			}
			f.fail("C04:fixture-reencode", "fixture %s: %s has %d bytes, fixture %d; first difference at byte %d", c.Fixture, img.where, len(img.b), len(b), d)
		}
	}
}

// ---------------------------------------------------------------- generator

var interesting = []uint64{0, 1, 2, 47, 48, 49, 1000, 16 << 10, 64 << 10, 256 << 10, 1<<32 - 1, 1 << 32, 1<<32 + 1,
	1<<40 - 1, 1 << 40, 1<<40 + 1, 1<<62 - 1, 1 << 62, 1<<63 - 1, 1 << 63, 1<<63 + 1, maxU64 - 1, maxU64}

func drawParam(t *rapid.T, label string) uint64 {
	switch rapid.IntRange(0, 9).Draw(t, label+"shape") {
	case 0:
		return rapid.Uint64().Draw(t, label)
	case 1:
		return maxU64 - rapid.Uint64Range(0, 4096).Draw(t, label+"near")
	case 2:
		return rapid.Uint64Range(1, 64).Draw(t, label+"small")
	default:
		return rapid.SampledFrom(interesting).Draw(t, label+"magic")
	}
}

func drawMax(t *rapid.T) uint64 {
	switch rapid.IntRange(0, 11).Draw(t, "maxshape") {
	case 0, 1:
		return maxU64
	case 2:
		return maxU64 - rapid.Uint64Range(1, 4096).Draw(t, "maxnear")
	case 3:
		return maxU64 - rapid.Uint64Range(1, 1<<42).Draw(t, "maxnear2")
	case 4, 5:
		return rapid.Uint64Range(1, 64).Draw(t, "maxsmall")
	case 6:
		return rapid.Uint64().Draw(t, "maxany")
	default:
		return rapid.SampledFrom(interesting).Draw(t, "maxmagic")
	}
}

func drawFlags(t *rapid.T) uint64 {
	switch rapid.IntRange(0, 6).Draw(t, "flagshape") {
	case 0:
		return 0
	case 1:
		return desync.CaFormatExcludeNoDump
	case 2:
		return desync.TarFeatureFlags
	case 3:
		return maxU64
	case 4:
		return uint64(1) << uint(rapid.IntRange(0, 63).Draw(t, "flagbit"))
	default:
		return rapid.Uint64().Draw(t, "flags")
	}
}

// drawN: the upper limit picks the magnitude, the count itself shrinks towards 0.
func drawN(t *rapid.T) int {
	limit := rapid.SampledFrom([]int{0, 1, 1, 6, 6, 6, 64, 64, 64, 400, 400, maxChunks}).Draw(t, "nlimit")
	if limit <= 1 {
		return limit
	}
	return rapid.IntRange(0, limit).Draw(t, "n")
}

func genCase(t *rapid.T) Case {
	var c Case
	c.SHA256 = rapid.Bool().Draw(t, "sha256")
	c.Store = rapid.SampledFrom(storeDraw()).Draw(t, "store")
	c.Flags = drawFlags(t)
	c.Min = drawParam(t, "min")
	c.Avg = drawParam(t, "avg")
	c.Max = drawMax(t)
	c.N = drawN(t)
	if c.Max == 0 {
		c.N = 0
	}
	c.SizeMode = rapid.SampledFrom([]string{"one", "cap", "small", "small", "wide", "wide", "mixed", "mixed"}).Draw(t, "sizemode")
	c.SizeSeed = rapid.Uint64().Draw(t, "sizeseed")
	c.IDMode = rapid.SampledFrom([]string{"rand", "rand", "rand", "mixed", "mixed", "zero"}).Draw(t, "idmode")
	c.IDSeed = rapid.Uint64().Draw(t, "idseed")
	c.Pick = rapid.Uint64().Draw(t, "pick")
	c.History = drawHistory(t, c.Store)
	c.Conc = drawConc(t, c.Store)
	return c
}

var spec = &hx.Spec[Case]{
	ID:    "C04",
	Level: "exploration",
	Rule: "cases = (index: any feature flags with the digest bit consistent, min/avg/max from interesting 64-bit values, 0..2000 chunks of 1..min(max,2^40) bytes, seeded IDs incl. all-zero ones) x digest {sha512-256, sha256} x index store kind; " +
		"each case is written, every byte image checked against the independent codec, read back, followed on local/http/s3/sftp by an overwrite history (1..8 further StoreIndex calls on up to 3 names; new value = same shape other IDs / same IDs other sizes / shorter / longer / identical / empty / other parameters; read back and raw object checked after every write and at the end), on http/local/s3 optionally by concurrent reads (2..4 names of equal and/or different shape with up to 20000 chunks (thorough 60000), 2..8 goroutines x 1..3 GetIndex calls with own or shared client, slow raw readers, a concurrent writer on other names; or the deterministic slow-reader overlap on the HTTP server), and malformed variants (strict prefixes, one offset decreased, one chunk enlarged beyond max, digest bit flipped) are fed to every reading path; " +
		"non-trivial = table with >= 2 chunks, or a zero-chunk table, or at least one malformed file rejected; distinct by (store, digest, flags, min, avg, max, chunk count, size/ID seeds)",
	Assumptions: []string{
		"oracle layout/codec: internal/ref (plain encoding/binary after casync's caformat.h), shares no code with desync",
		"zero-size chunks (equal consecutive offsets) and zero offsets are outside the domain: a zero offset is the table terminator",
		"FormatIndex.FormatHeader of the value handed to WriteTo is not part of 'the same parameters'",
		"ConsoleIndexStore is driven through os.Stdin/os.Stdout redirected to pipes; HTTP through net/http/httptest on loopback; S3 through the in-process fake (internal/fakes3) when registered",
		"malformed inputs are derived from the reference encoding, not from desync's own output",
	},
	Required: []string{"chunks:0", "chunks:1", "chunks:2-6", "chunks:7-64", "chunks:65+", "digest:sha512-256", "digest:sha256",
		"store:mem", "store:local", "store:console", "store:http",
		"mal:truncated", "mal:decreasing-offset", "mal:oversize-chunk", "mal:wrong-digest",
		"max:maxuint64", "max:near-maxuint64", "chunk-size==max", "fixture",
		"store-history:create", "store-history:overwrite:same-shape-different-ids", "store-history:overwrite:same-ids-different-sizes",
		"store-history:overwrite:shorter", "store-history:overwrite:longer", "store-history:overwrite:identical",
		"store-history:overwrite:empty", "store-history:overwrite:different-params", "store-history:interleaved-names",
		"http:concurrent-get:same-shape", "http:concurrent-get:different-shape", "http:concurrent-get:large", "http:concurrent-get:slow-reader",
		"http:concurrent-get:shared-client", "http:concurrent-get:own-client", "http:concurrent-get:with-writer", "http:concurrent-get:deterministic-slow-reader",
		"local:concurrent-get:same-shape", "s3:concurrent-get:same-shape"},
	Gen: genCase,
	Run: run,
	// a case that never returns is a verdict (confirmed by a replay in a fresh process), not a timeout of the run
	Watchdog: hx.Pick(120*time.Second, 300*time.Second),
}

func TestMain(m *testing.M) {
	for _, kind := range storeOrder { // every registered store kind must be populated
		if req := "store:" + kind; !strings.Contains(strings.Join(spec.Required, " ")+" ", req+" ") {
			spec.Required = append(spec.Required, req)
		}
		if kind == storeOrder[0] {
			spec.Required = append(spec.Required, "index-size>1MiB", "index-size>16MiB")
			if hx.Thorough() {
				spec.Required = append(spec.Required, "index-size>64MiB")
			}
		}
		if histMax[kind] > 0 { // ... and, where it keeps named objects, driven with overwrite histories
			spec.Required = append(spec.Required, "store-history:"+kind)
		}
	}
	hx.Main(m)
}

func TestRegress(t *testing.T) { hx.Regress(t, spec) }
func TestKnown(t *testing.T)   { hx.Known(t, spec) }
func TestReplay(t *testing.T)  { hx.Replay(t, spec) }

// TestEnum: (1) every table with <= 6 chunks over a small size alphabet x both digests x
// several ChunkSizeMax (incl. MaxUint64): every strict prefix, every decreased offset with
// every target value, every chunk enlarged, digest flip; (2) large tables: all lengths
// (100 chunks) / all element boundaries +-1 (2000 chunks); (3) every store kind x both
// digests x 0..3 chunks.
func TestEnum(t *testing.T) {
	t.Run("small-tables", enumSmallTables)
	t.Run("large-tables", enumLargeTables)
	t.Run("store-kinds", enumStoreKinds)
	t.Run("overwrite-scenarios", enumOverwriteScenarios)
	t.Run("concurrent-scenarios", enumConcurrentScenarios)
	t.Run("large-indexes", enumLargeIndexes)
}

// enumLargeIndexes: a ladder of index sizes through the HTTP index server and the local
// store (1, 2, 5, 10, 20 MB); in the thorough tier also 1.75 M chunks (~70 MB, beyond 64 MiB).
func enumLargeIndexes(t *testing.T) {
	for _, mb := range []int{1, 2, 5, 10, 20} {
		for _, kind := range []string{"http", "local"} {
			if kind == "local" && mb < 20 {
				continue
			}
			part := 3 // 1..10 MB through HTTP on one shard, the two 20 MB cases on two others (~1.5 s each)
			if mb == 20 {
				part = map[string]int{"http": 0, "local": 2}[kind]
			}
			if !mine(part) {
				continue
			}
			{
				c := Case{SHA256: mb%2 == 0, Store: kind, Flags: desync.CaFormatExcludeNoDump, Min: 16 << 10, Avg: 64 << 10, Max: 256 << 10,
					Big: mb * 25000, SizeSeed: uint64(mb), IDSeed: uint64(mb) + 100}
				if !hx.Case(t, spec, c) {
					return
				}
			}
		}
	}
	if hx.Thorough() {
		for i, kind := range []string{"http", "local"} {
			if !mine(8 + i) {
				continue
			}
			c := Case{Store: kind, Flags: desync.CaFormatExcludeNoDump, Min: 16 << 10, Avg: 64 << 10, Max: 256 << 10,
				Big: 1_750_000, SizeSeed: 70, IDSeed: 71}
			if !hx.Case(t, spec, c) {
				return
			}
		}
	}
}

// mine spreads the deterministic parts over the shards of a run (all on shard 0 when there is one).
func mine(part int) bool { return hx.Shard() == part%hx.Shards() }

func enumSmallTables(t *testing.T) {
	if !mine(0) {
		t.Skip()
	}
	alphabet := hx.Pick([]uint64{1, 3}, []uint64{1, 2, 3})
	maxes := hx.Pick([]uint64{3, maxU64}, []uint64{3, 4, 1 << 63, maxU64 - 1, maxU64})
	tables := 0
	ok := true
	var rec func(prefix []uint64, left int)
	rec = func(prefix []uint64, left int) {
		if !ok {
			return
		}
		if left == 0 {
			tables++
			for _, sha := range []bool{false, true} {
				for _, mx := range maxes {
					c := Case{SHA256: sha, Store: "mem", Flags: desync.CaFormatExcludeNoDump, Min: 1, Avg: 2, Max: mx,
						Sizes: append([]uint64{}, prefix...), IDMode: "mixed", IDSeed: uint64(tables), Full: true}
					if !hx.Case(t, spec, c) {
						ok = false
						return
					}
				}
			}
			return
		}
		for _, s := range alphabet {
			rec(append(prefix, s), left-1)
		}
	}
	for n := 0; n <= 6 && ok; n++ {
		rec(nil, n)
	}
	if !ok {
		return
	}
	hx.Note("enumerated_small_tables", tables)
	hx.Exhaustive(fmt.Sprintf("all tables with <= 6 chunks of sizes %v x both digests x max in %v: every strict prefix, every single offset decreased to every value 1..predecessor-1, every single chunk enlarged to max+1/max+2, digest bit flipped", alphabet, maxes))
}

func enumLargeTables(t *testing.T) {
	for _, sha := range []bool{false, true} {
		if part := map[bool]int{false: 1, true: 6}[sha]; !mine(part) {
			continue
		}
		for _, n := range []int{100, maxChunks} {
			for _, mx := range []uint64{64 << 10, maxU64} {
				if n > 100 && mx == maxU64 {
					continue // the maximum only matters for the offset classes, covered by the 100-chunk table
				}
				c := Case{SHA256: sha, Store: "mem", Flags: desync.CaFormatExcludeNoDump, Min: 16 << 10, Avg: 64 << 10, Max: mx,
					N: n, SizeMode: "wide", SizeSeed: uint64(n), IDMode: "rand", IDSeed: 7, Full: true}
				if !hx.Case(t, spec, c) {
					return
				}
			}
		}
		hx.Exhaustive("truncation of a 100-chunk table at every length and of a 2000-chunk table at every element boundary +-1, digest " + digestName(sha))
	}
}

func enumStoreKinds(t *testing.T) {
	if !mine(2) {
		t.Skip()
	}
	for _, kind := range storeOrder {
		for _, sha := range []bool{false, true} {
			for n := 0; n <= 3; n++ {
				c := Case{SHA256: sha, Store: kind, Flags: desync.CaFormatExcludeNoDump, Min: 16 << 10, Avg: 64 << 10, Max: 256 << 10,
					N: n, SizeMode: "wide", SizeSeed: 3, IDMode: "rand", IDSeed: 5, Pick: uint64(n)}
				if !hx.Case(t, spec, c) {
					return
				}
			}
		}
	}
}

// enumOverwriteScenarios: the fixed overwrite scenarios on every store kind that keeps named objects.
func enumOverwriteScenarios(t *testing.T) {
	if !mine(5) {
		t.Skip()
	}
	for _, kind := range storeOrder {
		if histMax[kind] == 0 {
			continue
		}
		scenarios := [][]HistStep{
			// an index is updated in place (same chunk boundaries, other IDs), written again unchanged, then shortened
			{{0, "same-shape-different-ids", 0}, {0, "identical", 0}, {0, "shorter", 0}},
		}
		if kind != "s3" { // an S3 StoreIndex costs 0.1..0.3 s: the long scenarios run on the other kinds
			for seed := uint64(0); seed < 3; seed++ { // seed picks the variant (one chunk / all chunks / edge chunk; moved boundary / swapped / resized)
				scenarios = append(scenarios,
					[]HistStep{{0, "same-shape-different-ids", seed}, {1, "identical", 0}, {1, "same-shape-different-ids", seed + 3}, {0, "same-ids-different-sizes", seed},
						{2, "shorter", seed}, {0, "longer", seed}, {1, "same-ids-different-sizes", seed + 3}, {2, "same-shape-different-ids", seed}, {0, "different-params", seed},
						{1, "empty", 0}, {1, "longer", seed}, {0, "shorter", seed}, {2, "identical", 0}, {0, "empty", 0}, {0, "longer", seed}})
			}
		}
		for _, sha := range []bool{false, true} {
			for si, h := range scenarios {
				c := Case{SHA256: sha, Store: kind, Flags: desync.CaFormatExcludeNoDump, Min: 16 << 10, Avg: 64 << 10, Max: 256 << 10,
					N: 4, SizeMode: "wide", SizeSeed: 11, IDMode: "rand", IDSeed: uint64(13 + si), Pick: 1, History: h}
				if !hx.Case(t, spec, c) {
					return
				}
			}
		}
	}
	hx.Note("enumerated_overwrite_scenarios", 1)
}

// enumConcurrentScenarios: the deterministic slow-reader scenario on the HTTP index server
// (same shape, shorter shapes, mixed) and two goroutine scenarios per kind.
func enumConcurrentScenarios(t *testing.T) {
	for _, sha := range []bool{false, true} {
		for _, cc := range []Conc{
			{Names: 2, Shape: "same", Chunks: 6000, Det: true, Seed: 1},
			{Names: 3, Shape: "different", Chunks: 8000, Det: true, Seed: 2},
			{Names: 4, Shape: "mixed", Chunks: hx.Pick(20000, 60000), Det: true, Seed: 3},
			{Names: 3, Shape: "mixed", Chunks: hx.Pick(20000, 60000), G: 8, Rounds: 2, Slow: 2, Writers: 1, Seed: 4},
			{Names: 2, Shape: "same", Chunks: 3000, G: 4, Rounds: 3, Shared: true, Slow: 1, Seed: 5},
		} {
			if part := map[bool]int{true: 4, false: 7}[cc.Det]; !mine(part) {
				continue
			}
			for _, kind := range []string{"http", "local", "s3"} {
				if kind != "http" && cc.Det {
					continue
				}
				cc := cc
				if kind != "http" && cc.Chunks > 3000 {
					cc.Chunks = 3000 // the large responses matter for the HTTP server only
				}
				c := Case{SHA256: sha, Store: kind, Flags: desync.CaFormatExcludeNoDump, Min: 16, Avg: 64, Max: 256,
					N: 2, SizeMode: "small", SizeSeed: 1, IDMode: "rand", IDSeed: 2, Pick: 1, Conc: &cc}
				if !hx.Case(t, spec, c) {
					return
				}
			}
		}
	}
}

func concKey(c *Conc) string {
	if c == nil {
		return ""
	}
	return fmt.Sprintf("/%+v", *c)
}

// fixtureFiles lists the index fixtures of the repository (repo-relative).
func fixtureFiles() []string {
	var out []string
	for _, dir := range []string{"testdata", "cmd/desync/testdata"} {
		for _, pat := range []string{"*.caibx", "*.caidx"} {
			m, _ := filepath.Glob(filepath.Join(hx.Repo(), dir, pat))
			for _, p := range m {
				rel, _ := filepath.Rel(hx.Repo(), p)
				out = append(out, rel)
			}
		}
	}
	sort.Strings(out)
	return out
}

// TestFixtures: every fixture index re-encodes byte-identically through every store kind.
func TestFixtures(t *testing.T) {
	if !mine(3) {
		t.Skip()
	}
	files := fixtureFiles()
	if len(files) == 0 {
		fmt.Println("SELFTEST-FAILURE: no fixture index found under", hx.Repo())
		t.Fatal("no fixtures")
	}
	for _, f := range files {
		for _, kind := range storeOrder {
			hx.Case(t, spec, Case{Fixture: f, Store: kind})
		}
	}
	hx.Note("fixture_files", len(files))
}

// TestSelf: the oracle's own parts behave as the checks assume.
func TestSelf(t *testing.T) {
	bad := func(format string, a ...any) {
		fmt.Println("SELFTEST-FAILURE: " + fmt.Sprintf(format, a...))
		t.Fatalf(format, a...)
	}
	savedDigest, savedIn, savedOut := desync.Digest, os.Stdin, os.Stdout
	for _, c := range []Case{
		{Store: "mem", Max: 100, N: 5, SizeMode: "small", IDMode: "mixed", SizeSeed: 1, IDSeed: 2, Pick: 3},
		{Store: "mem", Max: maxU64, N: 40, SizeMode: "wide", IDMode: "rand", SizeSeed: 4, IDSeed: 5, Pick: 6, SHA256: true},
		{Store: "mem", Max: maxU64 - 7, N: 9, SizeMode: "mixed", IDMode: "rand", SizeSeed: 7, IDSeed: 8, Pick: 9, Full: true},
		{Store: "mem", Max: 3, Sizes: []uint64{3, 1, 3}, IDMode: "zero", Full: true},
	} {
		_, want, sizes := build(c)
		valid := ref.EncodeIndex(want)
		if got, err := ref.ParseIndex(valid); err != nil || !sameTable(got, want) {
			bad("reference codec does not round-trip its own encoding: %v", err)
		}
		var sum uint64
		for i, s := range sizes {
			if s < 1 || s > c.Max || s > sizeCap {
				bad("generated size %d outside 1..min(max,2^40)", s)
			}
			sum += s
			if want.Items[i].End != sum {
				bad("reference table offsets are not cumulative")
			}
		}
		for _, breadth := range []string{"narrow", "wide", "full"} {
			classes := map[string]int{}
			for _, m := range malformedInputs(c, valid, want, sizes, breadth) {
				classes[m.class]++
				// every malformed input really is of its class, judged without desync
				switch m.class {
				case "truncated":
					if len(m.b) >= len(valid) || !bytes.Equal(m.b, valid[:len(m.b)]) {
						bad("truncated input is not a strict prefix")
					}
					if _, err := ref.ParseIndex(m.b); err == nil {
						bad("independent parser accepts a strict prefix of %d bytes", len(m.b))
					}
				case "decreasing-offset", "oversize-chunk":
					if len(m.b) != len(valid) || !bytes.Equal(m.b[:64], valid[:64]) || !bytes.Equal(m.b[len(valid)-40:], valid[len(valid)-40:]) {
						bad("%s input changes more than table offsets", m.class)
					}
					dec, over, zero := 0, 0, 0
					var last uint64
					for i := range sizes {
						off := binary.LittleEndian.Uint64(m.b[64+40*i:])
						if !bytes.Equal(m.b[64+40*i+8:64+40*i+40], valid[64+40*i+8:64+40*i+40]) {
							bad("%s input changes an id", m.class)
						}
						if off == 0 {
							zero++
						}
						if off < last {
							dec++
						} else if off-last > c.Max {
							over++
						}
						last = off
					}
					if zero > 0 {
						bad("%s input contains a zero offset (table terminator)", m.class)
					}
					if m.class == "decreasing-offset" && dec == 0 {
						bad("decreasing-offset input has no decreasing offset: %s", m.desc)
					}
					if m.class == "oversize-chunk" && over == 0 {
						bad("oversize-chunk input has no chunk above max: %s", m.desc)
					}
				case "wrong-digest":
					fl := binary.LittleEndian.Uint64(m.b[16:])
					if (fl&digestBit != 0) == !c.SHA256 || fl&^digestBit != want.Flags&^digestBit {
						bad("wrong-digest input does not flip exactly the digest bit")
					}
				}
			}
			if classes["truncated"] == 0 || classes["wrong-digest"] == 0 || (breadth != "narrow" && classes["decreasing-offset"] == 0) {
				bad("breadth %s: malformed classes not all produced: %v", breadth, classes)
			}
			if c.Max <= 1<<63 && classes["oversize-chunk"] == 0 {
				bad("breadth %s: no oversize-chunk input for max=%d", breadth, c.Max)
			}
		}
	}
	// history derivations do what their names say and stay inside the domain
	for _, hc := range []Case{
		{Max: 100, N: 5, SizeMode: "small", IDMode: "rand", SizeSeed: 1, IDSeed: 2},
		{Max: maxU64, N: 40, SizeMode: "wide", IDMode: "mixed", SizeSeed: 4, IDSeed: 5, SHA256: true},
		{Max: 1, N: 3, SizeMode: "one", IDMode: "zero"},
		{Max: 7, N: 0},
	} {
		_, a, _ := build(hc)
		for _, rel := range histRels {
			for seed := uint64(0); seed < 12; seed++ {
				b := derive(a, rel, seed)
				if len(b.Items) > maxChunks || b.Max != a.Max || b.Flags&digestBit != a.Flags&digestBit {
					bad("derive(%s) leaves the domain (count, max or digest bit)", rel)
				}
				var last uint64
				for _, it := range b.Items {
					if it.End <= last || it.End-last > capOf(a.Max) {
						bad("derive(%s) produces a chunk size outside 1..min(max,2^40)", rel)
					}
					last = it.End
				}
				if got, err := ref.ParseIndex(ref.EncodeIndex(b)); err != nil || !sameTable(got, b) {
					bad("derive(%s): reference codec does not round-trip the derived table: %v", rel, err)
				}
				same := sameTable(a, b)
				sameIDs, sameSizes := len(a.Items) == len(b.Items), len(a.Items) == len(b.Items)
				if sameIDs {
					as, bs := tableSizes(a), tableSizes(b)
					for i := range a.Items {
						sameIDs = sameIDs && a.Items[i].ID == b.Items[i].ID
						sameSizes = sameSizes && as[i] == bs[i]
					}
				}
				switch relation(a, b, rel) {
				case "identical":
					if !same {
						bad("relation says identical for different tables")
					}
				case "empty":
					if len(b.Items) != 0 || len(a.Items) == 0 {
						bad("relation 'empty' wrong")
					}
				case "same-shape-different-ids":
					if !sameSizes || sameIDs {
						bad("derive(same-shape-different-ids) changed sizes or kept all IDs")
					}
				case "same-ids-different-sizes":
					if !sameIDs || sameSizes {
						bad("derive(same-ids-different-sizes) changed IDs or kept all sizes")
					}
				case "shorter":
					if len(b.Items) >= len(a.Items) || !sameTable(ref.IndexFile{Flags: a.Flags, Min: a.Min, Avg: a.Avg, Max: a.Max, Items: a.Items[:len(b.Items)]}, b) {
						bad("derive(shorter) is not a proper prefix of the table")
					}
				case "longer":
					if len(b.Items) <= len(a.Items) {
						bad("derive(longer) did not add chunks")
					}
				case "different-params":
					if !sameIDs || !sameSizes || same {
						bad("derive(different-params) changed the table or nothing")
					}
				}
			}
		}
	}
	// all lengths are really enumerated for small tables and in full mode
	r := rng(1)
	if got := len(truncationLengths(6, "wide", &r)); got != ref.IndexLen(6) {
		bad("wide truncation of a 6-chunk table tries %d of %d lengths", got, ref.IndexLen(6))
	}
	if got := len(truncationLengths(100, "full", &r)); got != ref.IndexLen(100) {
		bad("full truncation of a 100-chunk table tries %d of %d lengths", got, ref.IndexLen(100))
	}
	// the layout walk names a planted deviation of each kind used in signatures
	_, want, _ := build(Case{Max: 10, N: 3, SizeMode: "small"})
	good := ref.EncodeIndex(want)
	for clause, b := range map[string][]byte{
		"tail-size":      putU64(good, len(good)-16, uint64(len(good)-48+8)),
		"tail-marker":    putU64(good, len(good)-8, 1),
		"item-offset":    putU64(good, 64+40, 1),
		"header-flags":   putU64(good, 16, want.Flags^1),
		"trailing-bytes": append(append([]byte(nil), good...), 0),
		"length":         good[:len(good)-3],
	} {
		found := false
		for _, d := range ref.CheckIndexLayout(b, want) {
			found = found || d.Clause == clause
		}
		if !found {
			bad("layout walk misses a planted %s deviation", clause)
		}
	}
	// every registered store kind is wired: a clean case passes and restores the process globals
	for _, kind := range storeOrder {
		o := run(Case{Store: kind, Max: 100, N: 3, SizeMode: "small", IDMode: "rand", Pick: 1, SHA256: true})
		for _, v := range o.Violations {
			if !strings.HasPrefix(v.Sig, "C04:accepts:") && !strings.HasPrefix(v.Sig, "C04:roundtrip:") && !strings.HasPrefix(v.Sig, "C04:layout:") {
				bad("store kind %s: %s: %s", kind, v.Sig, v.Msg)
			}
		}
		if desync.Digest != savedDigest || os.Stdin != savedIn || os.Stdout != savedOut {
			bad("store kind %s: run() does not restore desync.Digest / os.Stdin / os.Stdout", kind)
		}
	}
}

func TestProp(t *testing.T) { hx.Prop(t, spec) }
