package c12

// Crowd mode: many requests for DISTINCT chunk IDs are held in flight inside the upstream store
// before duplicates for one more ID arrive. The statement's "at most one upstream request per chunk
// ID and kind is in flight at a time" and "reads that overlap a de-duplicated write of the same
// chunk see that chunk" do not depend on how busy the queue is, so the number of requests in
// flight is a dimension of its own (powers of two and their neighbours up to 1024).
//
// The order of events is owned by the harness, without timing: the upstream store holds every call
// at a gate; phase 1 ends when all N crowd calls have ARRIVED there; the first caller for the extra
// ID is started next and phase 2 waits for its arrival upstream (it is the owner of the request);
// the duplicates are started after that and have all passed the queue's "loaded" hook site (the
// point where a caller has decided between joining and going upstream) before the verdict is
// taken. Only the last step - a would-be second owner reaching the gate after its decision - is a
// bounded wait, and it only affects sensitivity: on code that keeps the statement no second call
// can ever arrive.

import (
	"encoding/binary"
	"fmt"
	"runtime"
	"sync"
	"sync/atomic"
	"time"

	"github.com/folbricht/desync"
	"pgregory.net/rapid"

	"verifharness/internal/hx"
)

type Crowd struct {
	Queue  string `json:"queue"`  // dedup | wdedup
	Kind   string `json:"kind"`   // get | has | store (store: wdedup only)
	N      int    `json:"n"`      // requests for distinct IDs held in flight first
	Dups   int    `json:"dups"`   // callers for the one extra ID, same kind (>= 2)
	Reader bool   `json:"reader"` // wdedup + store: a GetChunk for the extra ID while its StoreChunk is in flight
}

var crowdSizes = []int{0, 1, 2, 3, 7, 8, 9, 15, 16, 17, 31, 32, 33, 63, 64, 65, 100, 127, 128, 129, 200, 255, 256, 257, 500, 511, 512, 513, 1000, 1024, 1025}

func genCrowd(t *rapid.T) *Crowd {
	c := &Crowd{Queue: rapid.SampledFrom([]string{"dedup", "wdedup", "wdedup"}).Draw(t, "cqueue")}
	kinds := []string{"get", "get", "has"}
	if c.Queue == "wdedup" {
		kinds = []string{"get", "has", "store", "store"}
	}
	c.Kind = rapid.SampledFrom(kinds).Draw(t, "ckind")
	c.N = rapid.SampledFrom(crowdSizes).Draw(t, "cn")
	c.Dups = rapid.IntRange(2, 5).Draw(t, "cdups")
	c.Reader = c.Kind == "store" && rapid.Bool().Draw(t, "creader")
	return c
}

func crowdData(i int) []byte {
	b := make([]byte, 24)
	binary.LittleEndian.PutUint64(b, uint64(i)+1)
	copy(b[8:], "c12-crowd-member")
	return b
}

type gateStore struct {
	mu       sync.Mutex
	cond     *sync.Cond
	total    int
	arrivals map[string]int
	inflight map[string]int
	maxIn    map[string]int
	release  chan struct{}
	data     map[desync.ChunkID][]byte
	stored   map[desync.ChunkID]bool // IDs whose StoreChunk has completed upstream
}

func (g *gateStore) enter(kind string, id desync.ChunkID) {
	key := kind + "/" + id.String()
	g.mu.Lock()
	g.total++
	g.arrivals[key]++
	g.inflight[key]++
	if g.inflight[key] > g.maxIn[key] {
		g.maxIn[key] = g.inflight[key]
	}
	g.cond.Broadcast()
	g.mu.Unlock()
	<-g.release
	g.mu.Lock()
	g.inflight[key]--
	g.mu.Unlock()
}

func (g *gateStore) GetChunk(id desync.ChunkID) (*desync.Chunk, error) {
	g.enter("get", id)
	g.mu.Lock()
	d, ok := g.data[id]
	g.mu.Unlock()
	if !ok {
		return nil, desync.ChunkMissing{ID: id}
	}
	return desync.NewChunkWithID(id, append([]byte(nil), d...), false)
}
func (g *gateStore) HasChunk(id desync.ChunkID) (bool, error) {
	g.enter("has", id)
	g.mu.Lock()
	_, ok := g.data[id]
	g.mu.Unlock()
	return ok, nil
}
func (g *gateStore) StoreChunk(ch *desync.Chunk) error {
	g.enter("store", ch.ID())
	return nil
}
func (g *gateStore) Close() error   { return nil }
func (g *gateStore) String() string { return "gate" }

// waitFor blocks until cond() holds (evaluated under g.mu) or patience runs out.
func (g *gateStore) waitFor(patience time.Duration, cond func() bool) bool {
	deadline := time.Now().Add(patience)
	stop := make(chan struct{})
	defer close(stop)
	go func() { // wake the waiter up periodically so that the deadline is looked at
		tk := time.NewTicker(20 * time.Millisecond)
		defer tk.Stop()
		for {
			select {
			case <-stop:
				return
			case <-tk.C:
				g.cond.Broadcast()
			}
		}
	}()
	g.mu.Lock()
	defer g.mu.Unlock()
	for !cond() {
		if time.Now().After(deadline) {
			return false
		}
		g.cond.Wait()
	}
	return true
}

func runCrowd(c *Crowd) (o hx.Outcome) {
	if c.Queue != "wdedup" {
		c.Queue = "dedup"
		if c.Kind == "store" {
			c.Kind = "get"
		}
	}
	if c.Kind != "has" && c.Kind != "store" {
		c.Kind = "get"
	}
	if c.N < 0 {
		c.N = 0
	}
	if c.N > 2000 {
		c.N = 2000
	}
	if c.Dups < 2 {
		c.Dups = 2
	}
	if c.Dups > 8 {
		c.Dups = 8
	}
	c.Reader = c.Reader && c.Kind == "store"
	o.Desc = map[string]any{"mode": "crowd", "queue": c.Queue, "kind": c.Kind, "in_flight_first": c.N, "duplicates": c.Dups, "reader": c.Reader}
	o.Key = fmt.Sprintf("crowd/%s/%s/%d/%d/%v", c.Queue, c.Kind, c.N, c.Dups, c.Reader)
	o.Class("mode:crowd", "queue:"+c.Queue)

	g := &gateStore{arrivals: map[string]int{}, inflight: map[string]int{}, maxIn: map[string]int{}, release: make(chan struct{}),
		data: map[desync.ChunkID][]byte{}, stored: map[desync.ChunkID]bool{}}
	g.cond = sync.NewCond(&g.mu)
	ids := make([]desync.ChunkID, c.N+1)
	for i := range ids {
		d := crowdData(i)
		ids[i] = desync.Digest.Sum(d)
		if c.Kind != "store" {
			g.data[ids[i]] = d // a store crowd writes chunks the upstream does not have yet
		}
	}
	target := ids[c.N]

	var store desync.WriteStore
	var rstore desync.Store
	if c.Queue == "wdedup" {
		w := desync.NewWriteDedupQueue(g)
		store, rstore = w, w
	} else {
		rstore = desync.NewDedupQueue(g)
	}
	decision := map[string]string{"get": "dedup.get.loaded", "has": "dedup.has.loaded", "store": "wdedup.store.loaded"}[c.Kind]
	var decided, looked atomic.Int64
	desync.VerifHook = func(site string) {
		switch site {
		case decision:
			decided.Add(1)
			g.cond.Broadcast()
		case "wdedup.get.looked":
			looked.Add(1)
			g.cond.Broadcast()
		}
	}
	defer func() { desync.VerifHook = nil }()

	type res struct {
		chunk *desync.Chunk
		has   bool
		err   error
	}
	call := func(kind string, i int) (r res) {
		switch kind {
		case "get":
			r.chunk, r.err = rstore.GetChunk(ids[i])
		case "has":
			r.has, r.err = rstore.HasChunk(ids[i])
		case "store":
			ch, err := desync.NewChunkWithID(ids[i], crowdData(i), false)
			if err != nil {
				panic(err)
			}
			r.chunk = ch
			r.err = store.StoreChunk(ch)
		}
		return r
	}
	total := c.N + c.Dups
	if c.Reader {
		total++
	}
	results := make([]res, total)
	var wg sync.WaitGroup
	start := func(slot int, kind string, i int) {
		wg.Add(1)
		go func() {
			defer wg.Done()
			results[slot] = call(kind, i)
		}()
	}
	inconclusive := func(what string) hx.Outcome {
		o.Class("crowd:inconclusive")
		o.Desc.(map[string]any)["inconclusive"] = what
		close(g.release)
		wg.Wait()
		return o
	}
	const patience = 30 * time.Second

	// phase 1: the crowd, every member the owner of its own request
	for i := 0; i < c.N; i++ {
		start(i, c.Kind, i)
	}
	if !g.waitFor(patience, func() bool { return g.total >= c.N }) {
		return inconclusive("crowd did not arrive upstream")
	}
	// phase 2: the owner of the extra ID ...
	tkey := c.Kind + "/" + target.String()
	start(c.N, c.Kind, c.N)
	if !g.waitFor(patience, func() bool { return g.arrivals[tkey] >= 1 }) {
		return inconclusive("first request for the extra ID did not arrive upstream")
	}
	// ... then its duplicates, and the overlapping reader
	for d := 1; d < c.Dups; d++ {
		start(c.N+d, c.Kind, c.N)
	}
	if c.Reader {
		start(c.N+c.Dups, "get", c.N)
	}
	if !g.waitFor(patience, func() bool {
		return int(decided.Load()) >= c.N+c.Dups && (!c.Reader || looked.Load() >= 1)
	}) {
		return inconclusive("duplicates did not reach the decision site")
	}
	// a duplicate that (wrongly) decided to go upstream is now between the hook and the gate
	rkey := "get/" + target.String()
	for i := 0; i < 60; i++ {
		g.mu.Lock()
		second := g.arrivals[tkey] > 1 || (c.Reader && g.arrivals[rkey] > 0)
		g.mu.Unlock()
		if second {
			break
		}
		runtime.Gosched()
		time.Sleep(50 * time.Microsecond)
	}
	close(g.release)
	wg.Wait()

	o.Nontrivial = true
	o.Class("crowd")
	if c.N >= 128 {
		o.Class("crowd:n>=128")
	}
	if c.Reader {
		o.Class("crowd:reader")
	}
	for key, m := range g.maxIn {
		if m > 1 {
			what := "a crowd member"
			if key == tkey {
				what = "the extra ID"
			}
			o.Fail("C12:concurrent-upstream-requests:crowd", "%d upstream %s requests for %s in flight at once (%d other requests of that kind in flight, %d callers for the extra ID)", m, c.Kind, what, c.N, c.Dups)
			break
		}
	}
	if n := g.arrivals[tkey]; n > 1 && g.maxIn[tkey] <= 1 {
		// every upstream call is held until the release: more than one arrival is more than one in flight
		o.Fail("C12:concurrent-upstream-requests:crowd", "%d upstream %s requests for the extra ID although all were held at the gate", n, c.Kind)
	}
	for slot := 0; slot < c.N+c.Dups; slot++ {
		i := slot
		if i > c.N {
			i = c.N
		}
		r := results[slot]
		ok := r.err == nil
		switch c.Kind {
		case "get":
			ok = ok && r.chunk != nil && r.chunk.ID() == ids[i]
		case "has":
			ok = ok && r.has
		}
		if !ok {
			o.Fail("C12:result-from-nowhere:crowd", "%s for ID #%d (of %d in flight) returned (%v, %v, %v): not the result of the upstream request for that ID, which succeeded", c.Kind, i, c.N+1, r.chunk != nil, r.has, r.err)
			break
		}
	}
	if c.Reader {
		r := results[c.N+c.Dups]
		if r.err != nil || r.chunk == nil || r.chunk.ID() != target {
			o.Fail("C12:read-misses-overlapping-write:crowd", "GetChunk started while the StoreChunk of the same ID was in flight (its upstream call held at the gate, %d other stores in flight) returned (%v, %v) instead of that chunk; upstream get requests for it: %d",
				c.N, r.chunk != nil, r.err, g.arrivals[rkey])
		}
	}
	return o
}
