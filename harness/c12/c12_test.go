// C12 — request de-duplication is safe under every interleaving.
package c12

import (
	"fmt"
	"strings"
	"sync"
	"testing"
	"time"

	"github.com/folbricht/desync"
	"pgregory.net/rapid"

	"verifharness/internal/gen"
	"verifharness/internal/hx"
	"verifharness/internal/sched"
)

type Op struct {
	Kind string `json:"kind"` // get | has | store
	ID   int    `json:"id"`   // 0 | 1 real digests; 2 = ID 0's first 8 bytes + other tail; 3 = other head + ID 1's last 24 bytes
}

type Case struct {
	Queue    string `json:"queue"`           // dedup | wdedup
	Ops      []Op   `json:"ops"`             // one per caller
	Outcomes []int  `json:"outcomes"`        // per upstream call number: 0 ok/data/true, 1 missing/false, 2 error
	Choices  []int  `json:"choices"`         // the schedule (controlled mode)
	Free     bool   `json:"free"`            // free-running mode: no controller, upstream sleeps Delays
	Delays   []int  `json:"delays"`          // microsecond delays per upstream call (free mode)
	Crowd    *Crowd `json:"crowd,omitempty"` // crowd mode (crowd_test.go): many distinct IDs in flight, then duplicates for one more
}

const nIDs = 4

var chunkData = [nIDs][]byte{gen.RandBytes(100, 1), gen.RandBytes(120, 2), gen.RandBytes(90, 3), gen.RandBytes(110, 4)}
var chunkIDs = func() (ids [nIDs]desync.ChunkID) {
	ids[0], ids[1] = desync.Digest.Sum(chunkData[0]), desync.Digest.Sum(chunkData[1])
	// look-alike IDs (not digests of their data: their chunks are made without verification)
	ids[2] = desync.Digest.Sum(chunkData[2])
	copy(ids[2][:8], ids[0][:8])
	ids[3] = desync.Digest.Sum(chunkData[3])
	copy(ids[3][8:], ids[1][8:])
	return
}()

// newChunk makes the chunk object for ID number idn.
func newChunk(idn int) *desync.Chunk {
	c, err := desync.NewChunkWithID(chunkIDs[idn], append([]byte(nil), chunkData[idn]...), idn >= 2)
	if err != nil {
		panic(err)
	}
	return c
}

type upCall struct {
	kind   string
	id     int
	caller int // caller index performing it
	begin  int // logical time of arrival at the gate
	end    int // logical time of release from the gate (0 = never released)
	chunk  *desync.Chunk
	has    bool
	err    error
}

type result struct {
	chunk *desync.Chunk
	has   bool
	err   error
}

// upstream is the scripted store behind the queue.
type upstream struct {
	c        *Case
	st       *sched.Stepper
	mu       sync.Mutex
	calls    []*upCall
	inflight map[string]int
	overlap  []string
	callerOf func() int
}

func (u *upstream) enter(kind string, id desync.ChunkID) *upCall {
	idn := -1
	for i := range chunkIDs {
		if id == chunkIDs[i] {
			idn = i
		}
	}
	if idn < 0 {
		panic("upstream asked for an ID nobody requested: " + id.String())
	}
	u.mu.Lock()
	call := &upCall{kind: kind, id: idn, caller: u.callerOf()}
	n := len(u.calls)
	u.calls = append(u.calls, call)
	key := fmt.Sprintf("%s/%d", kind, idn)
	u.inflight[key]++
	if u.inflight[key] > 1 {
		u.overlap = append(u.overlap, key)
	}
	if u.st != nil {
		call.begin = u.st.Clock
	}
	u.mu.Unlock()
	if u.st != nil {
		u.st.Park("up." + kind)
	} else if len(u.c.Delays) > 0 {
		d := u.c.Delays[n%len(u.c.Delays)]
		if d > 0 {
			time.Sleep(time.Duration(d) * time.Microsecond)
		}
	}
	outcome := 0
	if len(u.c.Outcomes) > 0 {
		outcome = u.c.Outcomes[n%len(u.c.Outcomes)] % 3
	}
	switch kind {
	case "get":
		switch outcome {
		case 0:
			call.chunk = newChunk(idn)
		case 1:
			call.err = desync.ChunkMissing{ID: id}
		default:
			call.err = fmt.Errorf("upstream get error #%d", n)
		}
	case "has":
		switch outcome {
		case 0:
			call.has = true
		case 1:
			call.has = false
		default:
			call.err = fmt.Errorf("upstream has error #%d", n)
		}
	case "store":
		if outcome == 2 {
			call.err = fmt.Errorf("upstream store error #%d", n)
		}
	}
	u.mu.Lock()
	u.inflight[key]--
	if u.st != nil {
		call.end = u.st.Clock
	}
	u.mu.Unlock()
	return call
}

func (u *upstream) GetChunk(id desync.ChunkID) (*desync.Chunk, error) {
	c := u.enter("get", id)
	return c.chunk, c.err
}
func (u *upstream) HasChunk(id desync.ChunkID) (bool, error) {
	c := u.enter("has", id)
	return c.has, c.err
}
func (u *upstream) StoreChunk(ch *desync.Chunk) error { return u.enter("store", ch.ID()).err }
func (u *upstream) Close() error                      { return nil }
func (u *upstream) String() string                    { return "scripted" }

func genCase(t *rapid.T) Case {
	var c Case
	if rapid.IntRange(0, 15).Draw(t, "crowd") == 0 {
		return Case{Crowd: genCrowd(t)}
	}
	c.Queue = rapid.SampledFrom([]string{"dedup", "wdedup", "wdedup"}).Draw(t, "queue")
	k := rapid.IntRange(2, 5).Draw(t, "k")
	oneID := rapid.Bool().Draw(t, "oneid")
	lookAlike := rapid.IntRange(0, 3).Draw(t, "lookalike") == 0
	for i := 0; i < k; i++ {
		kinds := []string{"get", "get", "has"}
		if c.Queue == "wdedup" {
			kinds = []string{"get", "get", "has", "store", "store"}
		}
		op := Op{Kind: rapid.SampledFrom(kinds).Draw(t, "kind")}
		if !oneID && rapid.Bool().Draw(t, "id") {
			op.ID = 1
		}
		if lookAlike && rapid.Bool().Draw(t, "alike") {
			op.ID += 2 // 0 -> 2 (same first 8 bytes), 1 -> 3 (same last 24 bytes)
		}
		c.Ops = append(c.Ops, op)
	}
	no := rapid.IntRange(1, 6).Draw(t, "nout")
	for i := 0; i < no; i++ {
		v := 0
		if rapid.Bool().Draw(t, "bad") {
			v = 1
			if rapid.Bool().Draw(t, "err") {
				v = 2
			}
		}
		c.Outcomes = append(c.Outcomes, v)
	}
	c.Free = rapid.IntRange(0, 9).Draw(t, "free") == 0
	if c.Free {
		for i, n := 0, rapid.IntRange(1, 5).Draw(t, "nd"); i < n; i++ {
			c.Delays = append(c.Delays, rapid.SampledFrom([]int{0, 1, 5, 20, 100, 400}).Draw(t, "delay"))
		}
	} else {
		for i, n := 0, rapid.IntRange(0, 30).Draw(t, "nch"); i < n; i++ {
			v := 0
			if rapid.Bool().Draw(t, "c1") {
				v = 1
				if rapid.Bool().Draw(t, "c2") {
					v = 2 + rapid.IntRange(0, 2).Draw(t, "c3")
				}
			}
			c.Choices = append(c.Choices, v)
		}
	}
	return c
}

func sameResult(kind string, r result, u *upCall, storeChunk *desync.Chunk) bool {
	switch kind {
	case "get":
		return r.chunk == u.chunk && r.err == u.err
	case "has":
		return r.has == u.has && r.err == u.err
	default:
		return r.err == u.err
	}
}

func run(c Case) (o hx.Outcome) {
	if c.Crowd != nil {
		cc := *c.Crowd
		return runCrowd(&cc)
	}
	k := len(c.Ops)
	if k == 0 {
		return o
	}
	var st *sched.Stepper
	if !c.Free {
		st = sched.NewStepper(k)
	}
	up := &upstream{c: &c, st: st, inflight: map[string]int{}}
	// caller identity for upstream calls
	var gmu sync.Mutex
	callerByG := map[int]int{}
	up.callerOf = func() int {
		gmu.Lock()
		defer gmu.Unlock()
		if i, ok := callerByG[sched.GoID()]; ok {
			return i
		}
		return -1
	}
	var store desync.WriteStore
	var rstore desync.Store
	if c.Queue == "wdedup" {
		w := desync.NewWriteDedupQueue(up)
		store, rstore = w, w
	} else {
		rstore = desync.NewDedupQueue(up)
	}
	storeChunks := make([]*desync.Chunk, k)
	for i, op := range c.Ops {
		if op.Kind == "store" {
			storeChunks[i] = newChunk(op.ID % nIDs) // ID fixed here, outside the schedule
		}
	}
	if st != nil {
		desync.VerifHook = func(site string) {
			if strings.HasPrefix(site, "dedup.") || strings.HasPrefix(site, "wdedup.") {
				st.Park(site)
			}
		}
		defer func() { desync.VerifHook = nil }()
	}
	results := make([]result, k)
	returned := make([]bool, k)
	var wg sync.WaitGroup
	for i := range c.Ops {
		wg.Add(1)
		go func(i int) {
			defer wg.Done()
			gmu.Lock()
			callerByG[sched.GoID()] = i
			gmu.Unlock()
			if st != nil {
				st.Register(i)
				st.Park("start")
			}
			op := c.Ops[i]
			id := chunkIDs[op.ID%nIDs]
			var r result
			switch op.Kind {
			case "get":
				r.chunk, r.err = rstore.GetChunk(id)
			case "has":
				r.has, r.err = rstore.HasChunk(id)
			case "store":
				if store != nil {
					r.err = store.StoreChunk(storeChunks[i])
				}
			}
			results[i] = r
			returned[i] = true
			if st != nil {
				st.Returned(i)
			}
		}(i)
	}

	if st == nil {
		// free-running mode
		done := make(chan struct{})
		go func() { wg.Wait(); close(done) }()
		select {
		case <-done:
		case <-time.After(30 * time.Second):
			o.Fail("C12:caller-blocked-forever:free", "not every caller returned in free-running mode (ops %v)", c.Ops)
			o.Desc = map[string]any{"free": true, "ops": c.Ops}
			return o
		}
		if len(up.overlap) > 0 {
			o.Fail("C12:concurrent-upstream-requests:free", "more than one upstream request in flight for %v", up.overlap)
		}
		for i, op := range c.Ops {
			ok := false
			for _, u := range up.calls {
				if u.kind == op.Kind && u.id == op.ID%nIDs && sameResult(op.Kind, results[i], u, nil) {
					ok = true
				}
			}
			if !ok && op.Kind == "get" && c.Queue == "wdedup" {
				for j, sop := range c.Ops {
					if sop.Kind == "store" && sop.ID%nIDs == op.ID%nIDs && results[i].chunk == storeChunks[j] {
						ok = true
					}
				}
			}
			if !ok {
				o.Fail("C12:result-from-nowhere:free", "caller %d (%v) returned a result no upstream request of that chunk and kind produced", i, op)
			}
		}
		o.Class("mode:free")
		o.Desc = map[string]any{"free": true, "queue": c.Queue, "ops": c.Ops, "upstream_calls": len(up.calls)}
		o.Nontrivial = len(up.calls) < k
		o.Key = fmt.Sprintf("free/%s/%v/%v/%v", c.Queue, c.Ops, c.Outcomes, c.Delays)
		return o
	}

	// controlled mode
	st.Run(c.Choices)
	if st.Timeout {
		// harness could not stabilise the callers: no verdict (release everybody and leave)
		o.Class("stepper-timeout")
		releaseAll(st)
		wg.Wait()
		return o
	}
	blocked := st.Blocked()
	if len(blocked) > 0 {
		// a lost wake-up is permanent: look again after a grace period before believing it
		time.Sleep(200 * time.Millisecond)
		st.Run(nil)
		blocked = st.Blocked()
	}
	if len(blocked) > 0 {
		var who []string
		for _, i := range blocked {
			who = append(who, fmt.Sprintf("caller %d %v", i, c.Ops[i]))
		}
		o.Fail("C12:caller-blocked-forever", "all sites released and all upstream calls answered, but %s never returned (lost wake-up / deadlock). trace: %s", strings.Join(who, ", "), fmtTrace(st.Trace))
		o.Desc = map[string]any{"queue": c.Queue, "ops": c.Ops, "blocked": blocked}
		o.Observed = st.Trace
		// the stuck goroutines are leaked on purpose: they cannot be woken
		return o
	}
	wg.Wait()

	// per-caller logical times from the trace
	invoke := make([]int, k)
	ret := make([]int, k)
	arrive := make([]map[string]int, k)
	for i := range arrive {
		arrive[i] = map[string]int{}
	}
	for _, r := range st.Trace {
		switch {
		case r.What == "release:start":
			invoke[r.Caller] = r.T
		case r.What == "return":
			ret[r.Caller] = r.T
		case strings.HasPrefix(r.What, "arrive:"):
			if _, seen := arrive[r.Caller][r.What[7:]]; !seen {
				arrive[r.Caller][r.What[7:]] = r.T
			}
		}
	}
	// (2) upstream intervals per (kind, id) never overlap
	for a := 0; a < len(up.calls); a++ {
		for b := a + 1; b < len(up.calls); b++ {
			x, y := up.calls[a], up.calls[b]
			if x.kind == y.kind && x.id == y.id && y.begin < x.end {
				o.Fail("C12:concurrent-upstream-requests", "two upstream %s requests for chunk %d in flight at once: call %d [%d,%d) by caller %d and call %d [%d,%d) by caller %d. trace: %s",
					x.kind, x.id, a, x.begin, x.end, x.caller, b, y.begin, y.end, y.caller, fmtTrace(st.Trace))
			}
		}
	}
	// (5)/(3) results
	waiters := 0
	lateJoin := false
	badWithWaiter := false
	for i, op := range c.Ops {
		r := results[i]
		idn := op.ID % nIDs
		// reads that overlap a de-duplicated write
		if op.Kind == "get" && c.Queue == "wdedup" {
			if t, ok := arrive[i]["wdedup.get.looked"]; ok {
				var S = -1
				for j, sop := range c.Ops {
					if sop.Kind != "store" || sop.ID%nIDs != idn {
						continue
					}
					a, okA := arrive[j]["wdedup.store.loaded"]
					if okA && a < t && t < ret[j] && ownsStore(c, up, j) {
						S = j
					}
				}
				if S >= 0 {
					var su *upCall
					for _, u := range up.calls {
						if u.kind == "store" && u.caller == S {
							su = u
						}
					}
					madeUpstreamGet := false
					for _, u := range up.calls {
						if u.kind == "get" && u.caller == i {
							madeUpstreamGet = true
						}
					}
					if su != nil && (r.chunk != storeChunks[S] || r.err != su.err || madeUpstreamGet) {
						o.Fail("C12:read-overlapping-write-misses-chunk", "caller %d GetChunk(%d) looked up the write queue at t=%d while caller %d's StoreChunk of that chunk was in flight (t=%d..%d) but did not return that chunk/its error (upstream read=%v). trace: %s",
							i, idn, t, S, arrive[S]["wdedup.store.loaded"], ret[S], madeUpstreamGet, fmtTrace(st.Trace))
					}
					o.Class("read-overlaps-write")
					continue
				}
			}
		}
		ok := false
		var owner = -1
		for _, u := range up.calls {
			if u.kind != op.Kind || u.id != idn || !sameResult(op.Kind, r, u, nil) {
				continue
			}
			// u was called before this caller returned, and u's owner had not returned when this caller was invoked
			if u.begin <= ret[i] && (u.caller == i || invoke[i] < ret[u.caller]) {
				ok = true
				owner = u.caller
				break
			}
		}
		if !ok {
			o.Fail("C12:result-not-from-concurrent-request", "caller %d (%v, invoked t=%d, returned t=%d) got a result that no upstream %s request in flight during its call produced (upstream calls: %s). trace: %s",
				i, op, invoke[i], ret[i], op.Kind, fmtCalls(up.calls, ret), fmtTrace(st.Trace))
			continue
		}
		if owner != i {
			waiters++
			// did this waiter arrive between the owner's markDone and delete?
			site := map[string]string{"get": "dedup.get", "has": "dedup.has", "store": "wdedup.store"}[op.Kind]
			if m, okM := arrive[owner][site+".marked"]; okM {
				if l, okL := arrive[i][site+".loaded"]; okL && l > m {
					lateJoin = true
				}
			}
			if r.err != nil {
				badWithWaiter = true
			}
		}
	}
	o.Class("mode:controlled", "queue:"+c.Queue)
	for i, a := range c.Ops {
		for _, b := range c.Ops[i+1:] {
			if x, y := a.ID%nIDs, b.ID%nIDs; x != y && x%2 == y%2 && a.Kind == b.Kind {
				o.Class("look-alike-ids:same-kind")
			}
		}
	}
	if waiters > 0 {
		o.Class("had-waiter")
	}
	if lateJoin {
		o.Class("joined-between-markdone-and-delete")
	}
	if badWithWaiter {
		o.Class("error-or-missing-with-waiter")
	}
	o.Nontrivial = waiters > 0 && (lateJoin || badWithWaiter)
	o.Desc = map[string]any{"queue": c.Queue, "ops": c.Ops, "outcomes": c.Outcomes, "steps": st.Clock, "upstream_calls": len(up.calls), "waiters": waiters, "late_join": lateJoin, "release_order": traceKey(st.Trace)}
	o.Key = fmt.Sprintf("%s/%v/%v/%v", c.Queue, c.Ops, c.Outcomes, traceKey(st.Trace))
	o.Observed = map[string]any{"branch": st.Branch}
	lastBranch = st.Branch
	return o
}

// lastBranch carries the branching factors of the most recent controlled run to the enumerator.
var lastBranch []int

// ownsStore: caller j performed the upstream store itself.
func ownsStore(c Case, up *upstream, j int) bool {
	for _, u := range up.calls {
		if u.kind == "store" && u.caller == j {
			return true
		}
	}
	return false
}

func releaseAll(st *sched.Stepper) {
	for i := 0; i < 1000; i++ {
		p := st.Parked()
		if len(p) == 0 {
			return
		}
		st.Release(p[0])
		st.Stabilise()
	}
}

func fmtTrace(tr []sched.TraceRec) string {
	var sb strings.Builder
	for _, r := range tr {
		fmt.Fprintf(&sb, "%d:c%d:%s ", r.T, r.Caller, r.What)
	}
	return sb.String()
}

func traceKey(tr []sched.TraceRec) string {
	var sb strings.Builder
	for _, r := range tr {
		if strings.HasPrefix(r.What, "release:") {
			fmt.Fprintf(&sb, "%d", r.Caller)
		}
	}
	return sb.String()
}

func fmtCalls(calls []*upCall, ret []int) string {
	var sb strings.Builder
	for i, u := range calls {
		fmt.Fprintf(&sb, "#%d %s/%d by c%d [%d,%d) owner-returned@%d; ", i, u.kind, u.id, u.caller, u.begin, u.end, ret[u.caller])
	}
	return sb.String()
}

var spec = &hx.Spec[Case]{
	ID:    "C12",
	Level: "exploration",
	Rule: "cases = (DedupQueue or WriteDedupQueue; 2..5 callers each GetChunk/HasChunk/StoreChunk on one of 4 IDs (two digests, one ID sharing the first 8 bytes of the first, one sharing the last 24 bytes of the second); upstream outcome per call: data/missing/error; a schedule = which parked caller advances at each step, the harness owning every hook site and every upstream call) plus a free-running mode; plus a crowd mode (1 case in 16): N in {0..1025: powers of two and neighbours} requests of one kind for distinct IDs held in flight at the upstream gate, then 2..5 callers (and, for stores, an overlapping reader) for one more ID, order of arrival owned by the harness; " +
		"small configurations (2 and 3 callers on one ID) have all schedules enumerated; non-trivial = a caller was served by another caller's upstream request and either joined between markDone and delete or received an error/missing result; distinct by (queue, ops, outcomes, release order)",
	Assumptions: []string{"schedules are exhaustive only at hook-site granularity (races inside loadOrStore are covered by the free-running mode only)", "a de-duplicated request's lifetime ends when its owner returns"},
	Required:    []string{"mode:controlled", "mode:free", "had-waiter", "joined-between-markdone-and-delete", "error-or-missing-with-waiter", "read-overlaps-write", "queue:dedup", "queue:wdedup", "look-alike-ids:same-kind", "mode:crowd", "crowd", "crowd:n>=128", "crowd:reader"},
	Gen:         genCase,
	Run:         run,
	Watchdog:    60 * time.Second,
}

func TestMain(m *testing.M)    { hx.Main(m) }
func TestRegress(t *testing.T) { hx.Regress(t, spec) }
func TestKnown(t *testing.T)   { hx.Known(t, spec) }
func TestReplay(t *testing.T)  { hx.Replay(t, spec) }

// TestEnum enumerates every schedule of small configurations.
func TestEnum(t *testing.T) {
	type cfg struct {
		queue string
		ops   []Op
	}
	g, h, s := Op{Kind: "get"}, Op{Kind: "has"}, Op{Kind: "store"}
	cfgs := []cfg{
		{"dedup", []Op{g, g}}, {"dedup", []Op{h, h}}, {"dedup", []Op{g, h}},
		{"wdedup", []Op{s, s}}, {"wdedup", []Op{s, g}}, {"wdedup", []Op{g, g}},
		{"dedup", []Op{g, g, g}}, {"wdedup", []Op{s, s, s}},
		// requests for IDs that differ only in their tail / only in their head must stay independent
		{"dedup", []Op{g, {Kind: "get", ID: 2}}}, {"dedup", []Op{h, {Kind: "has", ID: 2}}}, {"wdedup", []Op{s, {Kind: "store", ID: 2}}},
		{"dedup", []Op{{Kind: "get", ID: 1}, {Kind: "get", ID: 3}}}, {"wdedup", []Op{{Kind: "store", ID: 1}, {Kind: "get", ID: 3}}},
	}
	if hx.Thorough() {
		// (mixed get/has configurations use two independent queues and have > 200 000 schedules: sampled only)
		cfgs = append(cfgs, cfg{"dedup", []Op{h, h, h}}, cfg{"wdedup", []Op{s, s, g}}, cfg{"wdedup", []Op{s, g, g}})
	}
	total := 0
	job := -1
	for _, cf := range cfgs {
		for _, outs := range hx.Pick([][]int{{0}, {2}}, [][]int{{0}, {2}, {1, 0}}) {
			job++
			if job%hx.Shards() != hx.Shard() {
				continue
			}
			choices := []int{}
			n := 0
			for choices != nil {
				c := Case{Queue: cf.queue, Ops: cf.ops, Outcomes: outs, Choices: choices}
				lastBranch = nil
				if !hx.Case(t, spec, c) {
					return
				}
				n++
				if n > 200000 {
					t.Fatalf("schedule space of %v unexpectedly large", cf)
				}
				choices = sched.NextSchedule(choices, lastBranch)
			}
			total += n
			t.Logf("%s %v outcomes %v: %d schedules", cf.queue, cf.ops, outs, n)
		}
	}
	hx.AddNote("enumerated_schedules", total)
	hx.Exhaustive("all hook-site schedules of the listed 2- and 3-caller configurations on one chunk ID and on two look-alike IDs")
}

func TestProp(t *testing.T) { hx.Prop(t, spec) }
