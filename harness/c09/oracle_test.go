package c09

import (
	"bytes"
	"context"
	"encoding/json"
	"errors"
	"fmt"
	pkgerrors "github.com/pkg/errors"
	"io"
	"os"
	"os/exec"
	"path/filepath"
	"runtime"
	"sort"
	"strconv"
	"strings"
	"sync"
	"syscall"
	"time"

	"github.com/folbricht/desync"
	"github.com/hanwen/go-fuse/v2/fs"
	"github.com/hanwen/go-fuse/v2/fuse"

	"verifharness/internal/dx"
	"verifharness/internal/hx"
)

// failer collects violations, one per signature and case (a wrong cursor produces the same
// complaint on every later step).
type failer struct {
	o    *hx.Outcome
	seen map[string]bool
	cls  map[string]bool
	// a Read that reaches an unreadable (mis-sized) index entry is in progress: a panic belongs to it
	inBadRead bool
}

func newFailer(o *hx.Outcome) *failer {
	return &failer{o: o, seen: map[string]bool{}, cls: map[string]bool{}}
}

func (f *failer) fail(sig, format string, a ...any) {
	if f.seen[sig] {
		return
	}
	f.seen[sig] = true
	f.o.Fail(sig, format, a...)
}

func (f *failer) class(c string) {
	if !f.cls[c] {
		f.cls[c] = true
		f.o.Class(c)
	}
}

func panicSig(part string, l *layout) string {
	if len(l.spans) == 0 {
		return "C09:" + part + ":empty-index-panic"
	}
	return "C09:" + part + ":panic"
}

// guard runs f and turns a panic into a violation; it reports whether f panicked.
func guard(fl *failer, sig string, what string, f func()) (panicked bool) {
	defer func() {
		if r := recover(); r != nil {
			panicked = true
			fl.fail(sig, "%s panicked: %v", what, r)
		}
	}()
	f()
	return false
}

func addOvf(a, b int64) (int64, bool) {
	s := a + b
	if (b > 0 && s < a) || (b < 0 && s > a) {
		return 0, true
	}
	return s, false
}

// ---------------------------------------------------------------- read-seeker history

type faultSource interface {
	delivered() int // injected failures plus damaged chunks handed out so far
	failNext(k int)
	damage(id [32]byte, data []byte)
	heal(id [32]byte, data []byte)
	refused() [][32]byte // IDs of the damaged chunks handed out since the previous call
}

type memFaults struct {
	s    *dx.MemStore
	dmg  map[desync.ChunkID]bool
	n    int
	last [][32]byte
}

func newMemFaults(s *dx.MemStore) *memFaults {
	m := &memFaults{s: s, dmg: map[desync.ChunkID]bool{}}
	s.OnCall = func(kind string, n int, id desync.ChunkID) { // the reader history is sequential
		if kind == "get" && m.dmg[id] {
			m.n++
			m.last = append(m.last, id)
		}
	}
	return m
}

func (m *memFaults) delivered() int { return m.s.Delivered() + m.n }
func (m *memFaults) failNext(k int) { m.s.FailAt("get", m.s.Count("get")+k) }
func (m *memFaults) damage(id [32]byte, data []byte) {
	m.dmg[id] = true
	m.s.Put(id, data)
}
func (m *memFaults) heal(id [32]byte, data []byte) {
	delete(m.dmg, id)
	m.s.Put(id, data)
}
func (m *memFaults) refused() [][32]byte {
	r := m.last
	m.last = nil
	return r
}

// sinkWriter is a plain io.Writer (no ReadFrom: the copy has to pull from the reader itself).
type sinkWriter struct{ b []byte }

func (w *sinkWriter) Write(p []byte) (int, error) {
	w.b = append(w.b, p...)
	return len(p), nil
}

type rsStats struct {
	nontrivial bool
	trace      []string
}

// checkReadSeeker replays ops on rs against the model (blob, pos).
func checkReadSeeker(fl *failer, rs io.ReadSeeker, l *layout, ops []Op, fs faultSource) (st rsStats) {
	L := l.length
	var pos int64
	backseek := false   // a successful seek moved the cursor backwards earlier in the history
	afterFault := false // a fault was delivered earlier in the history
	var rbuf []byte
	dmg := map[[32]byte]bool{}     // IDs whose chunk is damaged in the store right now
	refused := map[[32]byte]bool{} // IDs this reader was handed a damaged chunk for and has not read correctly since
	note := func(format string, a ...any) {
		if len(st.trace) < 200 {
			st.trace = append(st.trace, fmt.Sprintf(format, a...))
		}
	}
	for i, op := range ops {
		switch op.Op {
		case "fail":
			k := op.K
			if k < 1 {
				k = 1
			}
			fs.failNext(k)
			note("%d fail next %d", i, k)
		case "damage", "heal":
			if op.V < 0 || op.V >= len(l.spans) || l.badID(l.ids[op.V]) {
				continue // (a damaged chunk could by chance fit the size of a mis-sized entry with the same ID)
			}
			sp := l.spans[op.V]
			real := l.blob[sp.Start : sp.Start+sp.Len]
			if op.Op == "heal" {
				fs.heal(l.ids[op.V], real)
				delete(dmg, l.ids[op.V])
			} else {
				fs.damage(l.ids[op.V], damagedData(real, op.Kind))
				dmg[l.ids[op.V]] = true
				fl.class("damage:wrong-length")
			}
			note("%d %s entry %d %s", i, op.Op, op.V, op.Kind)
		case "seek":
			var base int64
			validWhence := true
			switch op.Whence {
			case io.SeekStart:
			case io.SeekCurrent:
				base = pos
			case io.SeekEnd:
				base = L
			default:
				validWhence = false
			}
			off, target, ovf := op.Off, op.Off, false
			if op.Abs {
				if off, ovf = addOvf(target, -base); ovf { // not expressible relative to base: use SeekStart
					off, base, ovf = target, 0, false
					op.Whence = io.SeekStart
				}
			} else {
				target, ovf = addOvf(base, off)
			}
			before := fs.delivered()
			ret, err := rs.Seek(off, op.Whence)
			faulted := fs.delivered() > before
			if faulted {
				afterFault = true
			}
			note("%d seek(%d,%d) target %d from %d -> %d,%v", i, off, op.Whence, target, pos, ret, err)
			switch {
			case !validWhence:
				fl.class("seek:invalid-whence")
				if err == nil && ret >= 0 { // nothing is promised; follow the implementation
					pos = ret
				}
			case ovf:
				fl.class("seek:overflow")
				if err == nil {
					fl.fail("C09:readseeker:seek-wrong-offset", "op %d: Seek(%d, %d) at position %d overflows int64 but returned %d, nil", i, off, op.Whence, pos, ret)
				}
			case target < 0:
				fl.class("seek:negative")
				if err == nil {
					fl.fail("C09:readseeker:seek-negative-accepted", "op %d: Seek(%d, %d) at position %d (target %d, before the start) returned %d, nil", i, off, op.Whence, pos, target, ret)
				} else {
					fl.class("seek:refused")
				}
			case err != nil:
				fl.class("seek:refused")
				if target <= L && !faulted {
					fl.fail("C09:readseeker:seek-refused", "op %d: Seek(%d, %d) at position %d (target %d, length %d) failed: %v", i, off, op.Whence, pos, target, L, err)
				}
				if target > L {
					fl.class("seek:beyond-refused")
				}
				// position must be unchanged: checked by the following reads
			default:
				if ret != target {
					fl.fail("C09:readseeker:seek-wrong-offset", "op %d: Seek(%d, %d) at position %d returned offset %d, want %d", i, off, op.Whence, pos, ret, target)
				}
				if target < pos {
					backseek = true
					fl.class("seek:backward")
				}
				if target == L {
					fl.class("seek:to-end")
				}
				if target > L {
					fl.class("seek:beyond-accepted")
				}
				pos = target
			}
		case "copy":
			// drain the reader from the current position the way `cat` does: io.Copy (which hands over to
			// WriteTo when the reader has one), the same through plain Read calls, io.CopyBuffer with a
			// small buffer, io.CopyN, or WriteTo called directly
			avail := max(L-pos, 0)
			wantLen := avail
			if op.Via == "copyn" {
				wantLen = min(avail, int64(max(op.Len, 0)))
			}
			limit := l.readable(pos, wantLen)
			reachesBad := limit < wantLen
			touchRefused := false
			l.entries(pos, wantLen, func(c int) {
				if refused[l.ids[c]] {
					touchRefused = true
				}
			})
			_, hasWT := rs.(io.WriterTo)
			var sink sinkWriter
			var n int64
			var err error
			before := fs.delivered()
			fl.inBadRead = reachesBad
			switch op.Via {
			case "read": // io.Copy that cannot see WriteTo
				n, err = io.Copy(&sink, struct{ io.Reader }{rs})
			case "buffer":
				// (at most a few thousand Read calls: the buffer grows with what is left)
				n, err = io.CopyBuffer(&sink, struct{ io.Reader }{rs}, make([]byte, min(max(op.Len, 1, int(wantLen/2048)), 1<<16)))
			case "copyn":
				n, err = io.CopyN(&sink, rs, int64(max(op.Len, 0)))
			case "writerto":
				if wt, ok := rs.(io.WriterTo); ok {
					n, err = wt.WriteTo(&sink)
				} else {
					n, err = io.Copy(&sink, rs)
				}
			default:
				n, err = io.Copy(&sink, rs)
			}
			fl.inBadRead = false
			faulted := fs.delivered() > before
			handedDamaged := fs.refused()
			for _, id := range handedDamaged {
				refused[id] = true
			}
			got := int64(len(sink.b))
			note("%d copy(%s,%d) at %d -> %d,%v (%d bytes written)", i, op.Via, op.Len, pos, n, err, got)
			fl.class("op:copy")
			if hasWT && (op.Via == "" || op.Via == "copy" || op.Via == "writerto") {
				fl.class("op:copy:via-writerto")
			}
			served := func(plain string) string {
				switch {
				case len(handedDamaged) > 0:
					return "C09:readseeker:damaged-chunk-served"
				case touchRefused:
					return "C09:readseeker:refused-chunk-served"
				}
				return plain
			}
			if n != got {
				fl.fail("C09:readseeker:copy-count", "op %d: copy(%s) at %d returned n=%d but wrote %d bytes", i, op.Via, pos, n, got)
			}
			dataOK := true
			eofShort := op.Via == "copyn" && err == io.EOF && int64(op.Len) > avail // CopyN asked for more than there is
			if reachesBad && (got > limit || err == nil || eofShort) {
				dataOK = false
				fl.fail("C09:readseeker:mis-sized-entry-accepted", "op %d: copy(%s) at %d reaches index entry %d whose size differs from the chunk stored under its ID after %d bytes, but delivered %d bytes, %v",
					i, op.Via, pos, l.chunkAt(pos+limit), limit, got, err)
			} else if got > wantLen {
				dataOK = false
				fl.fail(served("C09:readseeker:read-past-end"), "op %d: copy(%s,%d) at %d delivered %d bytes, want %d (length %d)", i, op.Via, op.Len, pos, got, wantLen, L)
			}
			if cmp := min(got, limit, wantLen); cmp > 0 && !bytes.Equal(sink.b[:cmp], l.blob[pos:pos+cmp]) {
				dataOK = false
				d := int64(0)
				for d < cmp && sink.b[d] == l.blob[pos+d] {
					d++
				}
				fl.fail(served("C09:readseeker:wrong-bytes"), "op %d: copy(%s) at %d delivered %d bytes that differ from the blob at offset %d (chunk %d): got %#x want %#x",
					i, op.Via, pos, got, pos+d, l.chunkAt(pos+d), sink.b[d], l.blob[pos+d])
			}
			if reachesBad && !dataOK {
				return st
			}
			switch {
			case err == nil || eofShort:
				if got < wantLen { // the copy claims to be complete
					if faulted {
						fl.fail("C09:readseeker:copy-store-error-swallowed", "op %d: copy(%s,%d) at %d (length %d): the store failed during the call but it ended with %d of %d bytes and error %v",
							i, op.Via, op.Len, pos, L, got, wantLen, err)
					} else {
						fl.fail("C09:readseeker:copy-short", "op %d: copy(%s,%d) at %d (length %d) ended with %d of %d bytes and error %v", i, op.Via, op.Len, pos, L, got, wantLen, err)
					}
				}
				if err == nil && op.Via == "copyn" && int64(op.Len) > avail {
					fl.fail("C09:readseeker:copy-short", "op %d: CopyN(%d) at %d with only %d bytes left returned nil", i, op.Len, pos, avail)
				}
			default:
				if !faulted && !reachesBad {
					fl.fail("C09:readseeker:spurious-error", "op %d: copy(%s,%d) at %d (length %d) failed without a store fault after %d bytes: %v", i, op.Via, op.Len, pos, L, got, err)
				}
			}
			if faulted {
				fl.class("fault:delivered")
				fl.class("op:copy:fault-delivered")
				if got > 0 {
					fl.class("op:copy:fault-after-prefix")
				}
				afterFault = true
			} else if err == nil && dataOK && got == wantLen {
				fl.class("op:copy:complete")
				if got > 0 && l.chunkAt(pos+got-1) > l.chunkAt(pos) {
					fl.class("op:copy:spans-chunks")
				}
			}
			if len(handedDamaged) > 0 {
				fl.class("damage:delivered")
			}
			pos += got
			// the cursor must be where the delivered bytes end (the following reads check the data there)
			if ret, serr := rs.Seek(0, io.SeekCurrent); serr != nil || ret != pos {
				fl.fail("C09:readseeker:copy-position", "op %d: after copy(%s) that delivered %d bytes Seek(0, io.SeekCurrent) returned %d, %v; want %d", i, op.Via, got, ret, serr, pos)
			}
		case "read":
			n := op.Len
			if n < 0 {
				n = 0
			}
			if rbuf == nil {
				rbuf = getBuf()
				defer putBuf(rbuf)
			}
			if cap(rbuf) < n {
				rbuf = make([]byte, n)
			}
			p := rbuf[:n]
			avail := L - pos
			if avail < 0 {
				avail = 0
			}
			wantLen := min(int64(len(p)), avail)
			limit := l.readable(pos, wantLen) // bytes before the first unreadable entry
			reachesBad := limit < wantLen
			touchRefused, touchRefusedHealed := false, false
			l.entries(pos, wantLen, func(c int) {
				if refused[l.ids[c]] {
					touchRefused = true
					if !dmg[l.ids[c]] {
						touchRefusedHealed = true
					}
				}
			})
			before := fs.delivered()
			fl.inBadRead = reachesBad
			got, err := rs.Read(p)
			fl.inBadRead = false
			faulted := fs.delivered() > before
			handedDamaged := fs.refused()
			for _, id := range handedDamaged {
				refused[id] = true
			}
			note("%d read(%d) at %d -> %d,%v", i, n, pos, got, err)
			if got < 0 || got > len(p) {
				fl.fail("C09:readseeker:read-count", "op %d: Read(len %d) at %d returned n=%d", i, n, pos, got)
				if got < 0 {
					got = 0
				} else {
					got = len(p)
				}
			}
			// the signature names what kind of bytes were served instead of the blob's
			served := func(plain string) string {
				switch {
				case len(handedDamaged) > 0:
					return "C09:readseeker:damaged-chunk-served"
				case touchRefused:
					return "C09:readseeker:refused-chunk-served"
				}
				return plain
			}
			dataOK := true
			cmp := min(int64(got), limit, avail)
			if reachesBad {
				fl.class("read:mis-sized-entry")
			}
			if reachesBad && (int64(got) > limit || (err == nil && got == 0 && len(p) > 0) || err == io.EOF) {
				dataOK = false
				fl.fail("C09:readseeker:mis-sized-entry-accepted", "op %d: Read(len %d) at %d reaches index entry %d whose size differs from the chunk stored under its ID after %d bytes, but returned %d, %v",
					i, n, pos, l.chunkAt(pos+limit), limit, got, err)
			} else if int64(got) > avail {
				dataOK = false
				fl.fail(served("C09:readseeker:read-past-end"), "op %d: Read(len %d) at %d returned %d bytes, only %d before the end (length %d)", i, n, pos, got, avail, L)
			}
			if cmp > 0 && !bytes.Equal(p[:cmp], l.blob[pos:pos+cmp]) {
				dataOK = false
				d := 0
				for d < int(cmp) && p[d] == l.blob[pos+int64(d)] {
					d++
				}
				fl.fail(served("C09:readseeker:wrong-bytes"), "op %d: Read(len %d) at %d returned %d bytes that differ from the blob at offset %d (chunk %d): got %#x want %#x",
					i, n, pos, got, pos+int64(d), l.chunkAt(pos+int64(d)), p[d], l.blob[pos+int64(d)])
			}
			if reachesBad && !dataOK {
				return st // the reader has consumed bytes that do not exist: its position is meaningless now
			}
			full := int64(got) == wantLen
			switch {
			case err == nil:
				if got == 0 && len(p) > 0 {
					fl.fail("C09:readseeker:zero-read", "op %d: Read(len %d) at %d (length %d) returned 0, nil", i, n, pos, L)
				}
				if faulted && !full {
					fl.fail("C09:readseeker:store-error-swallowed", "op %d: Read(len %d) at %d: the store failed during the call but it returned %d, nil", i, n, pos, got)
				}
			case err == io.EOF:
				if int64(got) != avail {
					fl.fail("C09:readseeker:early-eof", "op %d: Read(len %d) at %d returned %d, io.EOF but %d bytes remain (length %d)", i, n, pos, got, avail-int64(got), L)
				}
				if faulted && !full {
					fl.fail("C09:readseeker:store-error-swallowed", "op %d: Read(len %d) at %d: the store failed during the call but it returned %d, io.EOF", i, n, pos, got)
				}
			default:
				if !faulted && !reachesBad {
					fl.fail("C09:readseeker:spurious-error", "op %d: Read(len %d) at %d (length %d) failed without a store fault: %d, %v", i, n, pos, L, got, err)
				}
			}
			if len(handedDamaged) > 0 {
				fl.class("damage:delivered")
			}
			if touchRefused && !touchRefusedHealed {
				fl.class("reread-after-refusal")
				st.nontrivial = true
			}
			if touchRefusedHealed && err == nil && dataOK && full && len(handedDamaged) == 0 {
				fl.class("reread-after-heal")
				st.nontrivial = true
				l.entries(pos, int64(got), func(c int) {
					if !dmg[l.ids[c]] {
						delete(refused, l.ids[c])
					}
				})
			}
			if faulted {
				fl.class("fault:delivered")
				if got > 0 {
					fl.class("fault:prefix-returned")
				}
			}
			// classes and non-triviality
			if avail == 0 && len(p) > 0 {
				fl.class("read:at-eof")
			}
			if got > 0 && int64(got) == avail {
				fl.class("read:to-eof")
			}
			if len(p) == 0 {
				fl.class("read:zero-length")
			}
			if got > 0 && !full && err == nil {
				fl.class("read:short")
			}
			if got > 0 && dataOK && int64(got) <= avail {
				first, last := l.chunkAt(pos), l.chunkAt(pos+int64(got)-1)
				if last > first {
					fl.class("read:spans-chunks")
					if backseek {
						fl.class("read:spans-chunks-after-backseek")
						st.nontrivial = true
					}
					for c := first; c <= last; c++ {
						if l.null[c] {
							fl.class("read:crosses-null")
							st.nontrivial = true
							break
						}
					}
				}
				if afterFault && !faulted && err == nil {
					fl.class("read:after-fault")
					st.nontrivial = true
				}
			}
			if faulted {
				afterFault = true
			}
			pos += int64(got)
		}
	}
	return st
}

// ---------------------------------------------------------------- FUSE section

func goid() uint64 {
	var b [64]byte
	n := runtime.Stack(b[:], false)
	s := strings.TrimPrefix(string(b[:n]), "goroutine ")
	if i := strings.IndexByte(s, ' '); i > 0 {
		s = s[:i]
	}
	id, _ := strconv.ParseUint(s, 10, 64)
	return id
}

// judgeFuse is the verdict on one FUSE read. fault: a store fault was delivered during the
// call; loose: faults were delivered that could not be attributed to a reader.
func judgeFuse(l *layout, off int64, size int, errno syscall.Errno, data []byte, fault, loose bool) (sig, msg string) {
	L := l.length
	if off > L { // outside the domain: the kernel does not send it
		if errno == 0 && len(data) > 0 {
			return "C09:fuse:data-beyond-eof", fmt.Sprintf("read(off %d, size %d) beyond the end (length %d) returned %d bytes", off, size, L, len(data))
		}
		return "", ""
	}
	want := l.blob[off:min(off+int64(size), L)]
	if errno != 0 {
		if !fault && !loose {
			return "C09:fuse:spurious-error", fmt.Sprintf("read(off %d, size %d) (length %d) failed with errno %d without a store fault", off, size, L, int(errno))
		}
		return "", ""
	}
	switch {
	case len(data) < len(want):
		if fault {
			return "C09:fuse:store-error-as-short-read", fmt.Sprintf("read(off %d, size %d): store failed during the call but status OK with %d of %d bytes", off, size, len(data), len(want))
		}
		return "C09:fuse:short-read", fmt.Sprintf("read(off %d, size %d) (length %d) returned %d bytes, want %d (the kernel zero-fills the rest)", off, size, L, len(data), len(want))
	case len(data) > len(want):
		return "C09:fuse:long-read", fmt.Sprintf("read(off %d, size %d) (length %d) returned %d bytes, want %d", off, size, L, len(data), len(want))
	case !bytes.Equal(data, want):
		d := 0
		for data[d] == want[d] {
			d++
		}
		return "C09:fuse:wrong-bytes", fmt.Sprintf("read(off %d, size %d) differs from the blob at offset %d (chunk %d): got %#x want %#x", off, size, off+int64(d), l.chunkAt(off+int64(d)), data[d], want[d])
	}
	// complete and correct data although the store failed: nothing was lost
	return "", ""
}

var devNull *os.File

// scratch buffers are recycled between cases (clearing fresh 128 KiB buffers dominated the cost)
const bufSize = 256 << 10

var bufPool = sync.Pool{New: func() any { return make([]byte, bufSize) }}

func getBuf() []byte { return bufPool.Get().([]byte) }
func putBuf(b []byte) {
	if cap(b) == bufSize {
		bufPool.Put(b[:bufSize]) //nolint
	}
}

type fuseVerdict struct {
	idx      int
	sig, msg string
}

func runFuse(fl *failer, c Case, l *layout, idx desync.Index) (nontrivial bool) {
	store := dx.NewMemStore("c09fuse")
	store.FaultErr = faultErrOf(c.FaultErr)
	store.SkipVerify = !c.Verify
	fillStore(store, l)

	// indexFileHandle.read reports every failed request on os.Stderr
	if devNull == nil {
		devNull, _ = os.OpenFile(os.DevNull, os.O_WRONLY, 0)
	}
	if devNull != nil {
		old := os.Stderr
		os.Stderr = devNull
		defer func() { os.Stderr = old }()
	}

	const name = "blob"
	psig := panicSig("fuse", l)
	root := desync.NewIndexMountFS(idx, name, store)
	var raw fuse.RawFileSystem // go-fuse's bridge between the kernel protocol and the node tree, without a kernel
	if guard(fl, psig, "attaching NewIndexMountFS with fs.NewNodeFS", func() { raw = fs.NewNodeFS(root, &fs.Options{}) }) {
		return
	}
	ch := root.GetChild(name)
	if ch == nil {
		fl.fail("C09:fuse:no-file", "the mount root has no child %q", name)
		return
	}
	ops := ch.Operations()
	opener, ok1 := ops.(fs.NodeOpener)
	reader, ok2 := ops.(fs.NodeReader)
	getattr, ok3 := ops.(fs.NodeGetattrer)
	if !ok1 || !ok2 || !ok3 {
		fl.fail("C09:fuse:node-api", "file node lacks Open/Read/Getattr (%v %v %v)", ok1, ok2, ok3)
		return
	}
	ctx := context.Background()
	guard(fl, psig, "Getattr", func() {
		var out fuse.AttrOut
		if errno := getattr.Getattr(ctx, nil, &out); errno != 0 {
			fl.fail("C09:fuse:getattr", "Getattr failed: errno %d", int(errno))
		} else if out.Size != uint64(l.length) {
			fl.fail("C09:fuse:size", "Getattr size %d, blob length %d", out.Size, l.length)
		}
	})

	nh := max(1, min(c.Handles, 8))
	ng := max(1, min(c.Goroutines, 16))
	// even handles: Open/Read on the node's operations; odd handles: LOOKUP/OPEN/READ through the bridge
	type handle struct {
		fh    fs.FileHandle
		viaFh uint64
		via   bool
	}
	var nodeID uint64
	if nh > 1 {
		var eo fuse.EntryOut
		if st := raw.Lookup(nil, &fuse.InHeader{NodeId: 1}, name, &eo); st != fuse.OK {
			fl.fail("C09:fuse:lookup", "bridge LOOKUP %q: status %d", name, int(st))
			return
		}
		nodeID = eo.NodeId
		if eo.Attr.Size != uint64(l.length) {
			fl.fail("C09:fuse:size", "LOOKUP reports size %d, blob length %d", eo.Attr.Size, l.length)
		}
	}
	handles := make([]*handle, nh)
	for i := range handles {
		if guard(fl, psig, "Open", func() {
			if i%2 == 1 {
				var oo fuse.OpenOut
				if st := raw.Open(nil, &fuse.OpenIn{InHeader: fuse.InHeader{NodeId: nodeID}, Flags: uint32(os.O_RDONLY)}, &oo); st != fuse.OK {
					fl.fail("C09:fuse:open", "bridge OPEN failed: status %d", int(st))
					return
				}
				handles[i] = &handle{via: true, viaFh: oo.Fh}
				return
			}
			fh, _, errno := opener.Open(ctx, uint32(os.O_RDONLY))
			if errno != 0 {
				fl.fail("C09:fuse:open", "Open failed: errno %d", int(errno))
				return
			}
			handles[i] = &handle{fh: fh}
		}) || handles[i] == nil {
			return
		}
	}
	defer func() {
		for _, h := range handles {
			if h != nil && h.via {
				raw.Release(nil, &fuse.ReleaseIn{InHeader: fuse.InHeader{NodeId: nodeID}, Fh: h.viaFh})
			}
		}
	}()
	doRead := func(h *handle, dest []byte, off int64) (fuse.ReadResult, syscall.Errno) {
		if h.via {
			rr, st := raw.Read(nil, &fuse.ReadIn{InHeader: fuse.InHeader{NodeId: nodeID}, Fh: h.viaFh, Offset: uint64(off), Size: uint32(len(dest))}, dest)
			return rr, syscall.Errno(st)
		}
		return reader.Read(ctx, h.fh, dest, off)
	}
	if nh > 1 {
		fl.class("fuse:via-bridge")
	}

	// fault schedule of this section, attributed to the goroutine that calls GetChunk
	failNums := map[int]bool{}
	base := store.Count("get")
	for _, k := range c.FuseFail {
		if k >= 1 {
			failNums[base+k] = true
			store.FailAt("get", base+k)
		}
	}
	var mu sync.Mutex
	faultBy := map[uint64]int{}                // goroutine -> failures (injected or damaged chunk) it was handed
	dmgBy := map[uint64]int{}                  // goroutine -> damaged chunks it was handed
	curHandle := map[uint64]int{}              // goroutine -> handle of its request in progress
	damagedNow := map[desync.ChunkID]bool{}    // changed only between request groups
	refusedOn := make([]map[[32]byte]bool, nh) // handle -> IDs it was handed a damaged chunk for
	for i := range refusedOn {
		refusedOn[i] = map[[32]byte]bool{}
	}
	store.OnCall = func(kind string, n int, id desync.ChunkID) {
		if kind != "get" {
			return
		}
		d := damagedNow[id]
		if failNums[n] || d {
			g := goid()
			mu.Lock()
			faultBy[g]++
			if d {
				dmgBy[g]++
				if h, ok := curHandle[g]; ok {
					refusedOn[h][id] = true
				}
			}
			mu.Unlock()
		}
	}
	defer func() { store.OnCall = nil }()

	type result struct {
		errno       syscall.Errno
		data        []byte
		fault       bool // a failure was handed to this request
		dmg         bool // ... a damaged chunk
		reread      bool // touches an entry this handle was refused before, still damaged
		rereadHeal  bool // ... healed meanwhile
		gid         uint64
		group       int
		concurrent  bool
		done        bool
		panicky     any
		badInFlight bool
	}
	results := make([]result, len(c.Fuse))
	hOf := func(r FuseRead) int { return ((r.H % nh) + nh) % nh }

	// runGroup issues the requests listed in idxs: one goroutine per G, released together, joined before it returns
	group := 0
	runGroup := func(idxs []int) {
		group++
		perG := make([][]int, ng)
		usedBy := map[int]map[int]bool{}
		for _, i := range idxs {
			r := c.Fuse[i]
			g := ((r.G % ng) + ng) % ng
			perG[g] = append(perG[g], i)
			h := hOf(r)
			if usedBy[h] == nil {
				usedBy[h] = map[int]bool{}
			}
			usedBy[h][g] = true
		}
		active := 0
		for _, q := range perG {
			if len(q) > 0 {
				active++
			}
		}
		if active >= 2 {
			fl.class("fuse:concurrent")
			for _, gs := range usedBy {
				if len(gs) >= 2 {
					fl.class("fuse:shared-handle")
				}
			}
		}
		var wg sync.WaitGroup
		start := make(chan struct{}) // all readers are released together
		for g := range perG {
			if len(perG[g]) == 0 {
				continue
			}
			wg.Add(1)
			go func(queue []int) {
				defer wg.Done()
				me := goid()
				dbuf, bbuf := getBuf(), getBuf()
				defer putBuf(dbuf)
				defer putBuf(bbuf)
				<-start
				for _, i := range queue {
					r := c.Fuse[i]
					h := hOf(r)
					size := max(0, r.Size)
					off := max(0, r.Off)
					res := &results[i]
					res.gid, res.group, res.concurrent = me, group, active >= 2
					wantLen := min(int64(size), max(l.length-off, 0))
					mu.Lock()
					curHandle[me] = h
					before, dbefore := faultBy[me], dmgBy[me]
					l.entries(off, wantLen, func(c int) {
						if refusedOn[h][l.ids[c]] {
							if damagedNow[l.ids[c]] {
								res.reread = true
							} else {
								res.rereadHeal = true
							}
						}
					})
					mu.Unlock()
					func() {
						defer func() {
							if p := recover(); p != nil {
								res.panicky = p
							}
						}()
						if cap(dbuf) < size {
							dbuf, bbuf = make([]byte, size), make([]byte, size)
						}
						dest := dbuf[:size]
						for j := range dest {
							dest[j] = 0xA5
						}
						rr, errno := doRead(handles[h], dest, off)
						res.errno = errno
						if errno == 0 && rr != nil {
							b, st := rr.Bytes(bbuf[:size])
							if st != fuse.OK {
								res.errno = syscall.Errno(st)
							}
							res.data = append([]byte(nil), b...)
							rr.Done()
						}
					}()
					mu.Lock()
					res.fault = faultBy[me] > before
					res.dmg = dmgBy[me] > dbefore
					delete(curHandle, me)
					if res.errno == 0 && res.panicky == nil && !res.dmg && res.rereadHeal {
						l.entries(off, wantLen, func(c int) { // read again after the heal: the refusal is history
							if !damagedNow[l.ids[c]] {
								delete(refusedOn[h], l.ids[c])
							}
						})
					}
					res.done = true
					mu.Unlock()
				}
			}(perG[g])
		}
		close(start)
		wg.Wait()
	}

	var pending []int
	for i, r := range c.Fuse {
		switch r.Op {
		case "damage", "heal":
			if len(pending) > 0 {
				runGroup(pending)
				pending = nil
			}
			if r.V < 0 || r.V >= len(l.spans) || l.badID(l.ids[r.V]) {
				continue
			}
			sp := l.spans[r.V]
			real := l.blob[sp.Start : sp.Start+sp.Len]
			if r.Op == "heal" {
				delete(damagedNow, l.ids[r.V])
				store.Put(l.ids[r.V], real)
			} else {
				damagedNow[l.ids[r.V]] = true
				store.Put(l.ids[r.V], damagedData(real, r.Kind))
				fl.class("damage:wrong-length")
			}
		default:
			pending = append(pending, i)
		}
	}
	if len(pending) > 0 {
		runGroup(pending)
	}

	// failures handed to goroutines that are not readers cannot be attributed
	readers := map[uint64]bool{}
	for _, r := range results {
		readers[r.gid] = true
	}
	loose := false
	delivered, dmgDelivered := 0, 0
	for g, n := range faultBy {
		delivered += n
		if !readers[g] {
			loose = true
		}
	}
	for _, n := range dmgBy {
		dmgDelivered += n
	}
	if delivered > dmgDelivered {
		fl.class("fuse:fault-delivered")
	}
	if dmgDelivered > 0 {
		fl.class("fuse:damage-delivered")
	}

	var vs []fuseVerdict
	faultSeen := false
	lost := map[int]int{} // handle -> first request group in which it accepted an unreadable entry (its cursor is meaningless from then on)
	for pass := 0; pass < 2; pass++ {
		for i, r := range c.Fuse {
			res := results[i]
			if !res.done && res.panicky == nil {
				continue // a barrier
			}
			h := hOf(r)
			size := max(0, r.Size)
			off := max(0, r.Off)
			wantLen := min(int64(size), max(l.length-off, 0))
			reachesBad := off <= l.length && l.readable(off, wantLen) < wantLen
			if pass == 0 { // find the handles that went astray on an unreadable entry
				if reachesBad && (res.panicky != nil || res.errno == 0) {
					if g, ok := lost[h]; !ok || res.group < g {
						lost[h] = res.group
					}
				}
				continue
			}
			if reachesBad {
				fl.class("read:mis-sized-entry")
				switch {
				case res.panicky != nil:
					vs = append(vs, fuseVerdict{i, "C09:fuse:mis-sized-entry-panic", fmt.Sprintf("fuse read %d (off %d, size %d, handle %d) reaches an index entry whose size differs from its chunk and panicked: %v", i, off, size, r.H, res.panicky)})
				case res.errno == 0:
					vs = append(vs, fuseVerdict{i, "C09:fuse:mis-sized-entry-accepted", fmt.Sprintf("fuse read %d (off %d, size %d, handle %d) reaches index entry %d whose size differs from the chunk stored under its ID, but status OK with %d bytes",
						i, off, size, r.H, l.chunkAt(off+l.readable(off, wantLen)), len(res.data))})
				}
				continue
			}
			if g, ok := lost[h]; ok && res.group >= g {
				continue
			}
			if res.panicky != nil {
				vs = append(vs, fuseVerdict{i, psig, fmt.Sprintf("fuse read %d (off %d, size %d, handle %d, goroutine %d) panicked: %v", i, off, size, r.H, r.G, res.panicky)})
				continue
			}
			if res.fault && res.errno == 0 && off <= l.length {
				// the design asks for an error status; complete and correct data is tolerated by judgeFuse
				fl.class("fuse:fault-but-ok")
			}
			if sig, msg := judgeFuse(l, off, size, res.errno, res.data, res.fault, loose); sig != "" {
				switch sig {
				case "C09:fuse:wrong-bytes", "C09:fuse:short-read", "C09:fuse:long-read", "C09:fuse:store-error-as-short-read":
					if res.dmg {
						sig = "C09:fuse:damaged-chunk-served"
					} else if res.reread || res.rereadHeal {
						sig = "C09:fuse:refused-chunk-served"
					}
				}
				vs = append(vs, fuseVerdict{i, sig, fmt.Sprintf("fuse read %d (handle %d, goroutine %d): %s", i, r.H, r.G, msg)})
			}
			if res.fault && res.errno != 0 {
				fl.class("fuse:fault-surfaced")
			}
			if res.reread {
				fl.class("fuse:reread-after-refusal")
				nontrivial = true
			}
			if res.rereadHeal && res.errno == 0 && !res.dmg {
				fl.class("fuse:reread-after-heal")
				nontrivial = true
			}
			if off > l.length {
				fl.class("fuse:off-beyond")
				continue
			}
			if off == l.length && size > 0 {
				fl.class("fuse:at-eof")
			}
			if off < l.length && off+int64(size) > l.length {
				fl.class("fuse:straddles-eof")
			}
			if res.errno == 0 && len(res.data) > 0 && int64(len(res.data)) <= wantLen {
				first, last := l.chunkAt(off), l.chunkAt(off+int64(len(res.data))-1)
				if last > first {
					fl.class("fuse:spans-chunks")
					for k := first; k <= last; k++ {
						if l.null[k] {
							fl.class("fuse:crosses-null")
							nontrivial = true
							break
						}
					}
				}
				if faultSeen && !res.concurrent {
					fl.class("fuse:read-after-fault")
					nontrivial = true
				}
			}
			if res.fault {
				faultSeen = true
			}
		}
	}
	sort.Slice(vs, func(a, b int) bool { return vs[a].idx < vs[b].idx })
	for _, v := range vs {
		fl.fail(v.sig, "%s", v.msg)
	}
	return nontrivial
}

// ---------------------------------------------------------------- CLI section (thorough)

func chunkPath(storeDir string, id desync.ChunkID) string {
	s := id.String()
	return filepath.Join(storeDir, s[:4], s+".cacnk")
}

func runCat(fl *failer, c Case, l *layout, idx desync.Index, bin string) {
	dir := hx.Scratch("c09")
	defer os.RemoveAll(dir)
	storeDir := filepath.Join(dir, "store")
	if err := os.MkdirAll(storeDir, 0o755); err != nil {
		panic(err)
	}
	ls, err := desync.NewLocalStore(storeDir, desync.StoreOptions{})
	if err != nil {
		panic(err)
	}
	for i, s := range l.spans {
		if l.bad[i] {
			continue
		}
		if err := ls.StoreChunk(desync.NewChunk(append([]byte(nil), l.blob[s.Start:s.Start+s.Len]...))); err != nil {
			panic(fmt.Sprintf("harness: StoreChunk: %v", err))
		}
	}
	idxPath := filepath.Join(dir, "index.caibx")
	f, err := os.Create(idxPath)
	if err != nil {
		panic(err)
	}
	_, err = idx.WriteTo(f)
	f.Close()
	if err != nil {
		panic(fmt.Sprintf("harness: Index.WriteTo: %v", err))
	}
	for i, op := range c.Cat {
		args := []string{"cat", "-s", storeDir}
		if op.Off != 0 {
			args = append(args, "-o", strconv.Itoa(op.Off))
		}
		if op.Len > 0 {
			args = append(args, "-l", strconv.Itoa(op.Len))
		}
		args = append(args, idxPath)
		dropped := ""
		if op.Drop >= 0 && op.Drop < len(l.spans) {
			p := chunkPath(storeDir, l.ids[op.Drop])
			if err := os.Rename(p, p+".gone"); err != nil {
				panic(fmt.Sprintf("harness: chunk file %s: %v", p, err))
			}
			dropped = p
		}
		// a range that reaches a mis-sized entry can only be refused; the unrepaired reader spins on some of
		// them (Read returns 0, nil for ever), so these get a short leash
		limit := 50 * time.Second
		reachesBad := false
		if o := int64(op.Off); o <= l.length {
			n := l.length - o
			if op.Len > 0 {
				n = min(n, int64(op.Len))
			}
			if reachesBad = l.readable(o, n) < n; reachesBad {
				limit = 5 * time.Second
			}
		}
		ctx, cancel := context.WithTimeout(context.Background(), limit)
		cmd := exec.CommandContext(ctx, bin, args...)
		cmd.Env = append(os.Environ(), "HOME="+dir)
		var stdout, stderr bytes.Buffer
		cmd.Stdout, cmd.Stderr = &stdout, &stderr
		runErr := cmd.Run()
		timedOut := ctx.Err() != nil
		cancel()
		if dropped != "" {
			os.Rename(dropped+".gone", dropped)
		}
		fl.class("cat:run")
		desc := fmt.Sprintf("cat op %d `desync %s` (length %d)", i, strings.Join(args[:len(args)-1], " "), l.length)
		tail := stderr.String()
		if len(tail) > 600 {
			tail = tail[:600]
		}
		if timedOut {
			if reachesBad {
				fl.class("cat:mis-sized-entry")
				fl.fail("C09:cat:mis-sized-entry-hang", "%s reaches an index entry whose size differs from the chunk stored under its ID and did not finish within %s (stdout %d bytes)", desc, limit, stdout.Len())
			} else {
				fl.fail("hang", "%s did not finish within %s", desc, limit)
			}
			continue
		}
		exit := 0
		if runErr != nil {
			var ee *exec.ExitError
			if !errors.As(runErr, &ee) {
				panic(fmt.Sprintf("harness: cannot run %s: %v", bin, runErr))
			}
			exit = ee.ExitCode()
		}
		if strings.Contains(stderr.String(), "panic:") || strings.Contains(stderr.String(), "fatal error:") {
			sig := panicSig("cat", l)
			if reachesBad {
				sig = "C09:cat:mis-sized-entry-panic"
			}
			fl.fail(sig, "%s crashed (exit %d): %s", desc, exit, tail)
			continue
		}
		off := int64(op.Off)
		var want []byte
		reason := "" // why a non-zero exit is acceptable
		switch {
		case off > l.length:
			reason = "offset beyond the end"
		case op.Len > 0 && off+int64(op.Len) > l.length:
			want = l.blob[off:]
			reason = "length reaches beyond the end"
			fl.class("cat:length-beyond")
		case op.Len > 0:
			want = l.blob[off : off+int64(op.Len)]
		default:
			want = l.blob[off:]
		}
		mode := "whole"
		switch {
		case op.Off != 0 && op.Len > 0:
			mode = "offset+length"
		case op.Off != 0:
			mode = "offset-only"
		case op.Len > 0:
			mode = "length-only"
		}
		fl.class("cat:" + mode)
		needDropped := false
		if dropped != "" && len(want) > 0 {
			first, last := l.chunkAt(off), l.chunkAt(off+int64(len(want))-1)
			for k := first; k <= last; k++ {
				if l.ids[k] == l.ids[op.Drop] && !l.null[k] { // (the null chunk is never fetched)
					if !needDropped { // where the first request for the missing chunk falls in the stream
						switch {
						case k == first:
							fl.class("cat:" + mode + ":fault-first")
						case k == last:
							fl.class("cat:" + mode + ":fault-last")
						default:
							fl.class("cat:" + mode + ":fault-midway")
						}
					}
					needDropped = true
				}
			}
			if needDropped {
				fl.class("cat:needed-chunk-missing")
			}
		}
		if dropped != "" {
			reason = "a chunk file is missing from the store"
		}
		got := stdout.Bytes()
		if lim := l.readable(off, int64(len(want))); off <= l.length && lim < int64(len(want)) {
			// the range reaches an index entry whose size differs from its chunk: cat must fail after the bytes before it
			fl.class("cat:mis-sized-entry")
			want = want[:lim]
			if exit == 0 || len(got) > len(want) {
				fl.fail("C09:cat:mis-sized-entry-accepted", "%s reaches index entry %d whose size differs from the chunk stored under its ID after %d bytes: exit %d, stdout %d bytes", desc, l.chunkAt(off+lim), lim, exit, len(got))
			} else if !bytes.Equal(got, want[:len(got)]) {
				fl.fail("C09:cat:wrong-bytes", "%s exit %d, stdout (%d bytes) is not a prefix of the expected bytes; stderr: %s", desc, exit, len(got), tail)
			}
			continue
		}
		if exit == 0 {
			if !bytes.Equal(got, want) {
				sig := "C09:cat:wrong-bytes"
				if len(got) < len(want) && bytes.Equal(got, want[:len(got)]) {
					sig = "C09:cat:short-output"
					if needDropped {
						sig = "C09:cat:store-error-as-short-output"
					}
				}
				fl.fail(sig, "%s exit 0, stdout %d bytes, want %d bytes (equal: %v)", desc, len(got), len(want), bytes.Equal(got, want))
			}
			fl.class("cat:ok")
		} else {
			fl.class("cat:failed")
			if len(got) > len(want) || !bytes.Equal(got, want[:len(got)]) {
				fl.fail("C09:cat:wrong-bytes", "%s exit %d, stdout (%d bytes) is not a prefix of the expected %d bytes; stderr: %s", desc, exit, len(got), len(want), tail)
			}
			if reason == "" {
				fl.fail("C09:cat:spurious-error", "%s exit %d without a store failure; stderr: %s", desc, exit, tail)
			}
		}
	}
}

// ---------------------------------------------------------------- run

func run(c Case) (o hx.Outcome) {
	l := build(c)
	idx := dx.BuildIndex(l.blob, l.spans, l.sizes, false)
	for i := range idx.Chunks {
		idx.Chunks[i].ID = l.ids[i] // differs from the digest of the range for a Twin entry only
	}
	fl := newFailer(&o)

	nulls, nullRun, oneByte, repeated := 0, false, false, false
	seen := map[[32]byte]bool{}
	for i, s := range l.spans {
		if l.null[i] {
			nulls++
			if i > 0 && l.null[i-1] {
				nullRun = true
			}
		}
		if s.Len == 1 {
			oneByte = true
		}
		if seen[l.ids[i]] {
			repeated = true
		}
		seen[l.ids[i]] = true
	}
	switch {
	case len(l.spans) == 0:
		fl.class("blob:empty")
	case len(l.spans) == 1:
		fl.class("blob:single-chunk")
	}
	if c.Tiling != nil {
		fl.class("blob:tiled")
	} else {
		fl.class("blob:content-defined")
	}
	if nulls > 0 {
		fl.class("blob:null-chunk")
	}
	if nullRun {
		fl.class("blob:null-run")
	}
	if oneByte {
		fl.class("blob:one-byte-chunk")
	}
	if repeated {
		fl.class("blob:repeated-id")
	}

	// --- read-seeker history
	store := dx.NewMemStore("c09")
	store.FaultErr = faultErrOf(c.FaultErr)
	fl.class(fmt.Sprintf("fault-error-kind:%d", c.FaultErr%6))
	store.SkipVerify = !c.Verify
	fillStore(store, &l)
	if c.Verify {
		fl.class("store:verifying")
	}
	if c.Twin != nil && len(l.bad) > 0 {
		for i, b := range l.bad {
			if b {
				fl.class("index:same-id-other-size")
				if (i > 0 && l.ids[i-1] == l.ids[i]) || (i+1 < len(l.ids) && l.ids[i+1] == l.ids[i]) {
					fl.class("index:same-id-other-size:adjacent")
				}
			}
		}
	}
	var rs *desync.IndexPos
	psig := panicSig("readseeker", &l)
	guard(fl, psig, "NewIndexReadSeeker", func() { rs = desync.NewIndexReadSeeker(idx, store) })
	var st rsStats
	if rs != nil {
		func() {
			defer func() {
				if r := recover(); r != nil {
					sig := psig
					if fl.inBadRead {
						sig = "C09:readseeker:mis-sized-entry-panic"
					}
					fl.fail(sig, "Seek/Read history panicked: %v", r)
				}
			}()
			st = checkReadSeeker(fl, rs, &l, c.Ops, newMemFaults(store))
		}()
		store.OnCall = nil
	}

	// --- FUSE section
	fuseNontrivial := runFuse(fl, c, &l, idx)

	// --- CLI
	if bin := os.Getenv("VERIF_DESYNC_BIN"); bin != "" && len(c.Cat) > 0 { // generated in the thorough tier only; the directed set of TestEnum runs in both
		runCat(fl, c, &l, idx, bin)
	}

	o.Nontrivial = st.nontrivial || fuseNontrivial
	o.Desc = map[string]any{"blob": len(l.blob), "chunks": len(l.spans), "max": l.sizes.Max, "nulls": nulls, "tiled": c.Tiling != nil,
		"ops": len(c.Ops), "fuse_reads": len(c.Fuse), "handles": c.Handles, "goroutines": c.Goroutines, "fuse_faults": len(c.FuseFail), "cat": len(c.Cat), "twin": c.Twin != nil, "verify": c.Verify}
	if b, err := json.Marshal(c); err == nil {
		o.Key = hx.Hash8(b) + fmt.Sprint(len(b))
	}
	if len(o.Violations) > 0 {
		o.Observed = st.trace
	}
	return o
}

// fillStore puts the chunk of every readable index entry into s.
func fillStore(s *dx.MemStore, l *layout) {
	for i, sp := range l.spans {
		if !l.bad[i] {
			s.Put(l.ids[i], l.blob[sp.Start:sp.Start+sp.Len])
		}
	}
}

// faultErrOf maps Case.FaultErr to the error an injected store failure returns.
func faultErrOf(k int) func(kind string, n int) error {
	switch k % 6 {
	case 1:
		return func(kind string, n int) error { return fmt.Errorf("Get \"http://store/chunk\": %w", io.EOF) }
	case 2:
		return func(kind string, n int) error { return pkgerrors.Wrap(io.EOF, "store") }
	case 3:
		return func(kind string, n int) error { return io.ErrUnexpectedEOF }
	case 4:
		return func(kind string, n int) error { return desync.ChunkMissing{} }
	case 5:
		return func(kind string, n int) error { return desync.ChunkInvalid{} }
	}
	return nil
}
