package c09

import (
	"bytes"
	"context"
	"encoding/json"
	"errors"
	"fmt"
	pkgerrors "github.com/pkg/errors"
	"io"
	"os"
	"os/exec"
	"path/filepath"
	"runtime"
	"sort"
	"strconv"
	"strings"
	"sync"
	"syscall"
	"time"

	"github.com/folbricht/desync"
	"github.com/hanwen/go-fuse/v2/fs"
	"github.com/hanwen/go-fuse/v2/fuse"

	"verifharness/internal/dx"
	"verifharness/internal/hx"
)

// failer collects violations, one per signature and case (a wrong cursor produces the same
// complaint on every later step).
type failer struct {
	o    *hx.Outcome
	seen map[string]bool
	cls  map[string]bool
}

func newFailer(o *hx.Outcome) *failer {
	return &failer{o: o, seen: map[string]bool{}, cls: map[string]bool{}}
}

func (f *failer) fail(sig, format string, a ...any) {
	if f.seen[sig] {
		return
	}
	f.seen[sig] = true
	f.o.Fail(sig, format, a...)
}

func (f *failer) class(c string) {
	if !f.cls[c] {
		f.cls[c] = true
		f.o.Class(c)
	}
}

func panicSig(part string, l *layout) string {
	if len(l.spans) == 0 {
		return "C09:" + part + ":empty-index-panic"
	}
	return "C09:" + part + ":panic"
}

// guard runs f and turns a panic into a violation; it reports whether f panicked.
func guard(fl *failer, sig string, what string, f func()) (panicked bool) {
	defer func() {
		if r := recover(); r != nil {
			panicked = true
			fl.fail(sig, "%s panicked: %v", what, r)
		}
	}()
	f()
	return false
}

func addOvf(a, b int64) (int64, bool) {
	s := a + b
	if (b > 0 && s < a) || (b < 0 && s > a) {
		return 0, true
	}
	return s, false
}

// ---------------------------------------------------------------- read-seeker history

type faultSource interface {
	delivered() int
	failNext(k int)
}

type memFaults struct{ s *dx.MemStore }

func (m memFaults) delivered() int { return m.s.Delivered() }
func (m memFaults) failNext(k int) { m.s.FailAt("get", m.s.Count("get")+k) }

type rsStats struct {
	nontrivial bool
	trace      []string
}

// checkReadSeeker replays ops on rs against the model (blob, pos).
func checkReadSeeker(fl *failer, rs io.ReadSeeker, l *layout, ops []Op, fs faultSource) (st rsStats) {
	L := l.length
	var pos int64
	backseek := false   // a successful seek moved the cursor backwards earlier in the history
	afterFault := false // a fault was delivered earlier in the history
	var rbuf []byte
	note := func(format string, a ...any) {
		if len(st.trace) < 200 {
			st.trace = append(st.trace, fmt.Sprintf(format, a...))
		}
	}
	for i, op := range ops {
		switch op.Op {
		case "fail":
			k := op.K
			if k < 1 {
				k = 1
			}
			fs.failNext(k)
			note("%d fail next %d", i, k)
		case "seek":
			var base int64
			validWhence := true
			switch op.Whence {
			case io.SeekStart:
			case io.SeekCurrent:
				base = pos
			case io.SeekEnd:
				base = L
			default:
				validWhence = false
			}
			off, target, ovf := op.Off, op.Off, false
			if op.Abs {
				if off, ovf = addOvf(target, -base); ovf { // not expressible relative to base: use SeekStart
					off, base, ovf = target, 0, false
					op.Whence = io.SeekStart
				}
			} else {
				target, ovf = addOvf(base, off)
			}
			before := fs.delivered()
			ret, err := rs.Seek(off, op.Whence)
			faulted := fs.delivered() > before
			if faulted {
				afterFault = true
			}
			note("%d seek(%d,%d) target %d from %d -> %d,%v", i, off, op.Whence, target, pos, ret, err)
			switch {
			case !validWhence:
				fl.class("seek:invalid-whence")
				if err == nil && ret >= 0 { // nothing is promised; follow the implementation
					pos = ret
				}
			case ovf:
				fl.class("seek:overflow")
				if err == nil {
					fl.fail("C09:readseeker:seek-wrong-offset", "op %d: Seek(%d, %d) at position %d overflows int64 but returned %d, nil", i, off, op.Whence, pos, ret)
				}
			case target < 0:
				fl.class("seek:negative")
				if err == nil {
					fl.fail("C09:readseeker:seek-negative-accepted", "op %d: Seek(%d, %d) at position %d (target %d, before the start) returned %d, nil", i, off, op.Whence, pos, target, ret)
				} else {
					fl.class("seek:refused")
				}
			case err != nil:
				fl.class("seek:refused")
				if target <= L && !faulted {
					fl.fail("C09:readseeker:seek-refused", "op %d: Seek(%d, %d) at position %d (target %d, length %d) failed: %v", i, off, op.Whence, pos, target, L, err)
				}
				if target > L {
					fl.class("seek:beyond-refused")
				}
				// position must be unchanged: checked by the following reads
			default:
				if ret != target {
					fl.fail("C09:readseeker:seek-wrong-offset", "op %d: Seek(%d, %d) at position %d returned offset %d, want %d", i, off, op.Whence, pos, ret, target)
				}
				if target < pos {
					backseek = true
					fl.class("seek:backward")
				}
				if target == L {
					fl.class("seek:to-end")
				}
				if target > L {
					fl.class("seek:beyond-accepted")
				}
				pos = target
			}
		case "read":
			n := op.Len
			if n < 0 {
				n = 0
			}
			if rbuf == nil {
				rbuf = getBuf()
				defer putBuf(rbuf)
			}
			if cap(rbuf) < n {
				rbuf = make([]byte, n)
			}
			p := rbuf[:n]
			avail := L - pos
			if avail < 0 {
				avail = 0
			}
			before := fs.delivered()
			got, err := rs.Read(p)
			faulted := fs.delivered() > before
			note("%d read(%d) at %d -> %d,%v", i, n, pos, got, err)
			if got < 0 || got > len(p) {
				fl.fail("C09:readseeker:read-count", "op %d: Read(len %d) at %d returned n=%d", i, n, pos, got)
				if got < 0 {
					got = 0
				} else {
					got = len(p)
				}
			}
			dataOK := true
			if int64(got) > avail {
				dataOK = false
				fl.fail("C09:readseeker:read-past-end", "op %d: Read(len %d) at %d returned %d bytes, only %d before the end (length %d)", i, n, pos, got, avail, L)
			} else if got > 0 && !bytes.Equal(p[:got], l.blob[pos:pos+int64(got)]) {
				dataOK = false
				d := 0
				for d < got && p[d] == l.blob[pos+int64(d)] {
					d++
				}
				fl.fail("C09:readseeker:wrong-bytes", "op %d: Read(len %d) at %d returned %d bytes that differ from the blob at offset %d (chunk %d): got %#x want %#x",
					i, n, pos, got, pos+int64(d), l.chunkAt(pos+int64(d)), p[d], l.blob[pos+int64(d)])
			}
			full := int64(got) == min(int64(len(p)), avail)
			switch {
			case err == nil:
				if got == 0 && len(p) > 0 {
					fl.fail("C09:readseeker:zero-read", "op %d: Read(len %d) at %d (length %d) returned 0, nil", i, n, pos, L)
				}
				if faulted && !full {
					fl.fail("C09:readseeker:store-error-swallowed", "op %d: Read(len %d) at %d: the store failed during the call but it returned %d, nil", i, n, pos, got)
				}
			case err == io.EOF:
				if int64(got) != avail {
					fl.fail("C09:readseeker:early-eof", "op %d: Read(len %d) at %d returned %d, io.EOF but %d bytes remain (length %d)", i, n, pos, got, avail-int64(got), L)
				}
				if faulted && !full {
					fl.fail("C09:readseeker:store-error-swallowed", "op %d: Read(len %d) at %d: the store failed during the call but it returned %d, io.EOF", i, n, pos, got)
				}
			default:
				if !faulted {
					fl.fail("C09:readseeker:spurious-error", "op %d: Read(len %d) at %d (length %d) failed without a store fault: %d, %v", i, n, pos, L, got, err)
				}
			}
			if faulted {
				fl.class("fault:delivered")
				if got > 0 {
					fl.class("fault:prefix-returned")
				}
			}
			// classes and non-triviality
			if avail == 0 && len(p) > 0 {
				fl.class("read:at-eof")
			}
			if got > 0 && int64(got) == avail {
				fl.class("read:to-eof")
			}
			if len(p) == 0 {
				fl.class("read:zero-length")
			}
			if got > 0 && !full && err == nil {
				fl.class("read:short")
			}
			if got > 0 && dataOK && int64(got) <= avail {
				first, last := l.chunkAt(pos), l.chunkAt(pos+int64(got)-1)
				if last > first {
					fl.class("read:spans-chunks")
					if backseek {
						fl.class("read:spans-chunks-after-backseek")
						st.nontrivial = true
					}
					for c := first; c <= last; c++ {
						if l.null[c] {
							fl.class("read:crosses-null")
							st.nontrivial = true
							break
						}
					}
				}
				if afterFault && !faulted && err == nil {
					fl.class("read:after-fault")
					st.nontrivial = true
				}
			}
			if faulted {
				afterFault = true
			}
			pos += int64(got)
		}
	}
	return st
}

// ---------------------------------------------------------------- FUSE section

func goid() uint64 {
	var b [64]byte
	n := runtime.Stack(b[:], false)
	s := strings.TrimPrefix(string(b[:n]), "goroutine ")
	if i := strings.IndexByte(s, ' '); i > 0 {
		s = s[:i]
	}
	id, _ := strconv.ParseUint(s, 10, 64)
	return id
}

// judgeFuse is the verdict on one FUSE read. fault: a store fault was delivered during the
// call; loose: faults were delivered that could not be attributed to a reader.
func judgeFuse(l *layout, off int64, size int, errno syscall.Errno, data []byte, fault, loose bool) (sig, msg string) {
	L := l.length
	if off > L { // outside the domain: the kernel does not send it
		if errno == 0 && len(data) > 0 {
			return "C09:fuse:data-beyond-eof", fmt.Sprintf("read(off %d, size %d) beyond the end (length %d) returned %d bytes", off, size, L, len(data))
		}
		return "", ""
	}
	want := l.blob[off:min(off+int64(size), L)]
	if errno != 0 {
		if !fault && !loose {
			return "C09:fuse:spurious-error", fmt.Sprintf("read(off %d, size %d) (length %d) failed with errno %d without a store fault", off, size, L, int(errno))
		}
		return "", ""
	}
	switch {
	case len(data) < len(want):
		if fault {
			return "C09:fuse:store-error-as-short-read", fmt.Sprintf("read(off %d, size %d): store failed during the call but status OK with %d of %d bytes", off, size, len(data), len(want))
		}
		return "C09:fuse:short-read", fmt.Sprintf("read(off %d, size %d) (length %d) returned %d bytes, want %d (the kernel zero-fills the rest)", off, size, L, len(data), len(want))
	case len(data) > len(want):
		return "C09:fuse:long-read", fmt.Sprintf("read(off %d, size %d) (length %d) returned %d bytes, want %d", off, size, L, len(data), len(want))
	case !bytes.Equal(data, want):
		d := 0
		for data[d] == want[d] {
			d++
		}
		return "C09:fuse:wrong-bytes", fmt.Sprintf("read(off %d, size %d) differs from the blob at offset %d (chunk %d): got %#x want %#x", off, size, off+int64(d), l.chunkAt(off+int64(d)), data[d], want[d])
	}
	// complete and correct data although the store failed: nothing was lost
	return "", ""
}

var devNull *os.File

// scratch buffers are recycled between cases (clearing fresh 128 KiB buffers dominated the cost)
const bufSize = 256 << 10

var bufPool = sync.Pool{New: func() any { return make([]byte, bufSize) }}

func getBuf() []byte { return bufPool.Get().([]byte) }
func putBuf(b []byte) {
	if cap(b) == bufSize {
		bufPool.Put(b[:bufSize]) //nolint
	}
}

type fuseVerdict struct {
	idx      int
	sig, msg string
}

func runFuse(fl *failer, c Case, l *layout, idx desync.Index) (nontrivial bool) {
	store := dx.NewMemStore("c09fuse")
	store.FaultErr = faultErrOf(c.FaultErr)
	dx.FillStore(store, l.blob, idx)

	// indexFileHandle.read reports every failed request on os.Stderr
	if devNull == nil {
		devNull, _ = os.OpenFile(os.DevNull, os.O_WRONLY, 0)
	}
	if devNull != nil {
		old := os.Stderr
		os.Stderr = devNull
		defer func() { os.Stderr = old }()
	}

	const name = "blob"
	psig := panicSig("fuse", l)
	root := desync.NewIndexMountFS(idx, name, store)
	var raw fuse.RawFileSystem // go-fuse's bridge between the kernel protocol and the node tree, without a kernel
	if guard(fl, psig, "attaching NewIndexMountFS with fs.NewNodeFS", func() { raw = fs.NewNodeFS(root, &fs.Options{}) }) {
		return
	}
	ch := root.GetChild(name)
	if ch == nil {
		fl.fail("C09:fuse:no-file", "the mount root has no child %q", name)
		return
	}
	ops := ch.Operations()
	opener, ok1 := ops.(fs.NodeOpener)
	reader, ok2 := ops.(fs.NodeReader)
	getattr, ok3 := ops.(fs.NodeGetattrer)
	if !ok1 || !ok2 || !ok3 {
		fl.fail("C09:fuse:node-api", "file node lacks Open/Read/Getattr (%v %v %v)", ok1, ok2, ok3)
		return
	}
	ctx := context.Background()
	guard(fl, psig, "Getattr", func() {
		var out fuse.AttrOut
		if errno := getattr.Getattr(ctx, nil, &out); errno != 0 {
			fl.fail("C09:fuse:getattr", "Getattr failed: errno %d", int(errno))
		} else if out.Size != uint64(l.length) {
			fl.fail("C09:fuse:size", "Getattr size %d, blob length %d", out.Size, l.length)
		}
	})

	nh := max(1, min(c.Handles, 8))
	ng := max(1, min(c.Goroutines, 16))
	// even handles: Open/Read on the node's operations; odd handles: LOOKUP/OPEN/READ through the bridge
	type handle struct {
		fh    fs.FileHandle
		viaFh uint64
		via   bool
	}
	var nodeID uint64
	if nh > 1 {
		var eo fuse.EntryOut
		if st := raw.Lookup(nil, &fuse.InHeader{NodeId: 1}, name, &eo); st != fuse.OK {
			fl.fail("C09:fuse:lookup", "bridge LOOKUP %q: status %d", name, int(st))
			return
		}
		nodeID = eo.NodeId
		if eo.Attr.Size != uint64(l.length) {
			fl.fail("C09:fuse:size", "LOOKUP reports size %d, blob length %d", eo.Attr.Size, l.length)
		}
	}
	handles := make([]*handle, nh)
	for i := range handles {
		if guard(fl, psig, "Open", func() {
			if i%2 == 1 {
				var oo fuse.OpenOut
				if st := raw.Open(nil, &fuse.OpenIn{InHeader: fuse.InHeader{NodeId: nodeID}, Flags: uint32(os.O_RDONLY)}, &oo); st != fuse.OK {
					fl.fail("C09:fuse:open", "bridge OPEN failed: status %d", int(st))
					return
				}
				handles[i] = &handle{via: true, viaFh: oo.Fh}
				return
			}
			fh, _, errno := opener.Open(ctx, uint32(os.O_RDONLY))
			if errno != 0 {
				fl.fail("C09:fuse:open", "Open failed: errno %d", int(errno))
				return
			}
			handles[i] = &handle{fh: fh}
		}) || handles[i] == nil {
			return
		}
	}
	defer func() {
		for _, h := range handles {
			if h != nil && h.via {
				raw.Release(nil, &fuse.ReleaseIn{InHeader: fuse.InHeader{NodeId: nodeID}, Fh: h.viaFh})
			}
		}
	}()
	doRead := func(h *handle, dest []byte, off int64) (fuse.ReadResult, syscall.Errno) {
		if h.via {
			rr, st := raw.Read(nil, &fuse.ReadIn{InHeader: fuse.InHeader{NodeId: nodeID}, Fh: h.viaFh, Offset: uint64(off), Size: uint32(len(dest))}, dest)
			return rr, syscall.Errno(st)
		}
		return reader.Read(ctx, h.fh, dest, off)
	}
	if nh > 1 {
		fl.class("fuse:via-bridge")
	}

	// fault schedule of this section, attributed to the goroutine that calls GetChunk
	failNums := map[int]bool{}
	base := store.Count("get")
	for _, k := range c.FuseFail {
		if k >= 1 {
			failNums[base+k] = true
			store.FailAt("get", base+k)
		}
	}
	var mu sync.Mutex
	faultBy := map[uint64]int{}
	store.OnCall = func(kind string, n int, id desync.ChunkID) {
		if kind == "get" && failNums[n] {
			g := goid()
			mu.Lock()
			faultBy[g]++
			mu.Unlock()
		}
	}

	perG := make([][]int, ng)
	usedBy := map[int]map[int]bool{}
	for i, r := range c.Fuse {
		g := ((r.G % ng) + ng) % ng
		perG[g] = append(perG[g], i)
		h := ((r.H % nh) + nh) % nh
		if usedBy[h] == nil {
			usedBy[h] = map[int]bool{}
		}
		usedBy[h][g] = true
	}
	active := 0
	for _, q := range perG {
		if len(q) > 0 {
			active++
		}
	}
	if active >= 2 {
		fl.class("fuse:concurrent")
		for _, gs := range usedBy {
			if len(gs) >= 2 {
				fl.class("fuse:shared-handle")
			}
		}
	}

	type result struct {
		errno   syscall.Errno
		data    []byte
		fault   bool
		gid     uint64
		panicky any
	}
	results := make([]result, len(c.Fuse))
	var wg sync.WaitGroup
	start := make(chan struct{}) // all readers are released together
	for g := range perG {
		if len(perG[g]) == 0 {
			continue
		}
		wg.Add(1)
		go func(queue []int) {
			defer wg.Done()
			me := goid()
			dbuf, bbuf := getBuf(), getBuf()
			defer putBuf(dbuf)
			defer putBuf(bbuf)
			<-start
			for _, i := range queue {
				r := c.Fuse[i]
				h := ((r.H % nh) + nh) % nh
				size := max(0, r.Size)
				off := max(0, r.Off)
				res := &results[i]
				res.gid = me
				mu.Lock()
				before := faultBy[me]
				mu.Unlock()
				func() {
					defer func() {
						if p := recover(); p != nil {
							res.panicky = p
						}
					}()
					if cap(dbuf) < size {
						dbuf, bbuf = make([]byte, size), make([]byte, size)
					}
					dest := dbuf[:size]
					for j := range dest {
						dest[j] = 0xA5
					}
					rr, errno := doRead(handles[h], dest, off)
					res.errno = errno
					if errno == 0 && rr != nil {
						b, st := rr.Bytes(bbuf[:size])
						if st != fuse.OK {
							res.errno = syscall.Errno(st)
						}
						res.data = append([]byte(nil), b...)
						rr.Done()
					}
				}()
				mu.Lock()
				res.fault = faultBy[me] > before
				mu.Unlock()
			}
		}(perG[g])
	}
	close(start)
	wg.Wait()
	store.OnCall = nil

	// faults delivered on goroutines that are not readers cannot be attributed
	readers := map[uint64]bool{}
	for _, r := range results {
		readers[r.gid] = true
	}
	loose := false
	delivered := 0
	for g, n := range faultBy {
		delivered += n
		if !readers[g] {
			loose = true
		}
	}
	if delivered > 0 {
		fl.class("fuse:fault-delivered")
	}

	var vs []fuseVerdict
	faultSeen := false
	for i, r := range c.Fuse {
		res := results[i]
		size := max(0, r.Size)
		off := max(0, r.Off)
		if res.panicky != nil {
			vs = append(vs, fuseVerdict{i, psig, fmt.Sprintf("fuse read %d (off %d, size %d, handle %d, goroutine %d) panicked: %v", i, off, size, r.H, r.G, res.panicky)})
			continue
		}
		if res.fault && res.errno == 0 && off <= l.length {
			// the design asks for an error status; complete and correct data is tolerated by judgeFuse
			fl.class("fuse:fault-but-ok")
		}
		if sig, msg := judgeFuse(l, off, size, res.errno, res.data, res.fault, loose); sig != "" {
			vs = append(vs, fuseVerdict{i, sig, fmt.Sprintf("fuse read %d (handle %d, goroutine %d): %s", i, r.H, r.G, msg)})
		}
		if res.fault && res.errno != 0 {
			fl.class("fuse:fault-surfaced")
		}
		if off > l.length {
			fl.class("fuse:off-beyond")
			continue
		}
		if off == l.length && size > 0 {
			fl.class("fuse:at-eof")
		}
		if off < l.length && off+int64(size) > l.length {
			fl.class("fuse:straddles-eof")
		}
		if res.errno == 0 && len(res.data) > 0 {
			first, last := l.chunkAt(off), l.chunkAt(off+int64(len(res.data))-1)
			if last > first {
				fl.class("fuse:spans-chunks")
				for k := first; k <= last; k++ {
					if l.null[k] {
						fl.class("fuse:crosses-null")
						nontrivial = true
						break
					}
				}
			}
			if faultSeen && active == 1 {
				fl.class("fuse:read-after-fault")
				nontrivial = true
			}
		}
		if res.fault {
			faultSeen = true
		}
	}
	sort.Slice(vs, func(a, b int) bool { return vs[a].idx < vs[b].idx })
	for _, v := range vs {
		fl.fail(v.sig, "%s", v.msg)
	}
	return nontrivial
}

// ---------------------------------------------------------------- CLI section (thorough)

func chunkPath(storeDir string, id desync.ChunkID) string {
	s := id.String()
	return filepath.Join(storeDir, s[:4], s+".cacnk")
}

func runCat(fl *failer, c Case, l *layout, idx desync.Index, bin string) {
	dir := hx.Scratch("c09")
	defer os.RemoveAll(dir)
	storeDir := filepath.Join(dir, "store")
	if err := os.MkdirAll(storeDir, 0o755); err != nil {
		panic(err)
	}
	ls, err := desync.NewLocalStore(storeDir, desync.StoreOptions{})
	if err != nil {
		panic(err)
	}
	for _, s := range l.spans {
		if err := ls.StoreChunk(desync.NewChunk(append([]byte(nil), l.blob[s.Start:s.Start+s.Len]...))); err != nil {
			panic(fmt.Sprintf("harness: StoreChunk: %v", err))
		}
	}
	idxPath := filepath.Join(dir, "index.caibx")
	f, err := os.Create(idxPath)
	if err != nil {
		panic(err)
	}
	_, err = idx.WriteTo(f)
	f.Close()
	if err != nil {
		panic(fmt.Sprintf("harness: Index.WriteTo: %v", err))
	}
	for i, op := range c.Cat {
		args := []string{"cat", "-s", storeDir}
		if op.Off != 0 {
			args = append(args, "-o", strconv.Itoa(op.Off))
		}
		if op.Len > 0 {
			args = append(args, "-l", strconv.Itoa(op.Len))
		}
		args = append(args, idxPath)
		dropped := ""
		if op.Drop >= 0 && op.Drop < len(l.spans) {
			p := chunkPath(storeDir, l.ids[op.Drop])
			if err := os.Rename(p, p+".gone"); err != nil {
				panic(fmt.Sprintf("harness: chunk file %s: %v", p, err))
			}
			dropped = p
		}
		ctx, cancel := context.WithTimeout(context.Background(), 50*time.Second)
		cmd := exec.CommandContext(ctx, bin, args...)
		cmd.Env = append(os.Environ(), "HOME="+dir)
		var stdout, stderr bytes.Buffer
		cmd.Stdout, cmd.Stderr = &stdout, &stderr
		runErr := cmd.Run()
		timedOut := ctx.Err() != nil
		cancel()
		if dropped != "" {
			os.Rename(dropped+".gone", dropped)
		}
		fl.class("cat:run")
		desc := fmt.Sprintf("cat op %d `desync %s` (length %d)", i, strings.Join(args[:len(args)-1], " "), l.length)
		tail := stderr.String()
		if len(tail) > 600 {
			tail = tail[:600]
		}
		if timedOut {
			fl.fail("hang", "%s did not finish within 50s", desc)
			continue
		}
		exit := 0
		if runErr != nil {
			var ee *exec.ExitError
			if !errors.As(runErr, &ee) {
				panic(fmt.Sprintf("harness: cannot run %s: %v", bin, runErr))
			}
			exit = ee.ExitCode()
		}
		if strings.Contains(stderr.String(), "panic:") || strings.Contains(stderr.String(), "fatal error:") {
			fl.fail(panicSig("cat", l), "%s crashed (exit %d): %s", desc, exit, tail)
			continue
		}
		off := int64(op.Off)
		var want []byte
		reason := "" // why a non-zero exit is acceptable
		switch {
		case off > l.length:
			reason = "offset beyond the end"
		case op.Len > 0 && off+int64(op.Len) > l.length:
			want = l.blob[off:]
			reason = "length reaches beyond the end"
			fl.class("cat:length-beyond")
		case op.Len > 0:
			want = l.blob[off : off+int64(op.Len)]
		default:
			want = l.blob[off:]
		}
		needDropped := false
		if dropped != "" && len(want) > 0 {
			first, last := l.chunkAt(off), l.chunkAt(off+int64(len(want))-1)
			for k := first; k <= last; k++ {
				if l.ids[k] == l.ids[op.Drop] {
					needDropped = true
				}
			}
			if needDropped {
				fl.class("cat:needed-chunk-missing")
			}
		}
		if dropped != "" {
			reason = "a chunk file is missing from the store"
		}
		got := stdout.Bytes()
		if exit == 0 {
			if !bytes.Equal(got, want) {
				sig := "C09:cat:wrong-bytes"
				if len(got) < len(want) && bytes.Equal(got, want[:len(got)]) {
					sig = "C09:cat:short-output"
					if needDropped {
						sig = "C09:cat:store-error-as-short-output"
					}
				}
				fl.fail(sig, "%s exit 0, stdout %d bytes, want %d bytes (equal: %v)", desc, len(got), len(want), bytes.Equal(got, want))
			}
			fl.class("cat:ok")
		} else {
			fl.class("cat:failed")
			if len(got) > len(want) || !bytes.Equal(got, want[:len(got)]) {
				fl.fail("C09:cat:wrong-bytes", "%s exit %d, stdout (%d bytes) is not a prefix of the expected %d bytes; stderr: %s", desc, exit, len(got), len(want), tail)
			}
			if reason == "" {
				fl.fail("C09:cat:spurious-error", "%s exit %d without a store failure; stderr: %s", desc, exit, tail)
			}
		}
	}
}

// ---------------------------------------------------------------- run

func run(c Case) (o hx.Outcome) {
	l := build(c)
	idx := dx.BuildIndex(l.blob, l.spans, l.sizes, false)
	fl := newFailer(&o)

	nulls, nullRun, oneByte, repeated := 0, false, false, false
	seen := map[[32]byte]bool{}
	for i, s := range l.spans {
		if l.null[i] {
			nulls++
			if i > 0 && l.null[i-1] {
				nullRun = true
			}
		}
		if s.Len == 1 {
			oneByte = true
		}
		if seen[l.ids[i]] {
			repeated = true
		}
		seen[l.ids[i]] = true
	}
	switch {
	case len(l.spans) == 0:
		fl.class("blob:empty")
	case len(l.spans) == 1:
		fl.class("blob:single-chunk")
	}
	if c.Tiling != nil {
		fl.class("blob:tiled")
	} else {
		fl.class("blob:content-defined")
	}
	if nulls > 0 {
		fl.class("blob:null-chunk")
	}
	if nullRun {
		fl.class("blob:null-run")
	}
	if oneByte {
		fl.class("blob:one-byte-chunk")
	}
	if repeated {
		fl.class("blob:repeated-id")
	}

	// --- read-seeker history
	store := dx.NewMemStore("c09")
	store.FaultErr = faultErrOf(c.FaultErr)
	fl.class(fmt.Sprintf("fault-error-kind:%d", c.FaultErr%6))
	dx.FillStore(store, l.blob, idx)
	var rs *desync.IndexPos
	psig := panicSig("readseeker", &l)
	guard(fl, psig, "NewIndexReadSeeker", func() { rs = desync.NewIndexReadSeeker(idx, store) })
	var st rsStats
	if rs != nil {
		guard(fl, psig, "Seek/Read history", func() { st = checkReadSeeker(fl, rs, &l, c.Ops, memFaults{store}) })
	}

	// --- FUSE section
	fuseNontrivial := runFuse(fl, c, &l, idx)

	// --- CLI
	if bin := os.Getenv("VERIF_DESYNC_BIN"); bin != "" && hx.Thorough() && len(c.Cat) > 0 {
		runCat(fl, c, &l, idx, bin)
	}

	o.Nontrivial = st.nontrivial || fuseNontrivial
	o.Desc = map[string]any{"blob": len(l.blob), "chunks": len(l.spans), "max": l.sizes.Max, "nulls": nulls, "tiled": c.Tiling != nil,
		"ops": len(c.Ops), "fuse_reads": len(c.Fuse), "handles": c.Handles, "goroutines": c.Goroutines, "fuse_faults": len(c.FuseFail), "cat": len(c.Cat)}
	if b, err := json.Marshal(c); err == nil {
		o.Key = hx.Hash8(b) + fmt.Sprint(len(b))
	}
	if len(o.Violations) > 0 {
		o.Observed = st.trace
	}
	return o
}

// faultErrOf maps Case.FaultErr to the error an injected store failure returns.
func faultErrOf(k int) func(kind string, n int) error {
	switch k % 6 {
	case 1:
		return func(kind string, n int) error { return fmt.Errorf("Get \"http://store/chunk\": %w", io.EOF) }
	case 2:
		return func(kind string, n int) error { return pkgerrors.Wrap(io.EOF, "store") }
	case 3:
		return func(kind string, n int) error { return io.ErrUnexpectedEOF }
	case 4:
		return func(kind string, n int) error { return desync.ChunkMissing{} }
	case 5:
		return func(kind string, n int) error { return desync.ChunkInvalid{} }
	}
	return nil
}
