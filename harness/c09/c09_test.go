// C09 — Random-access reads through an index return exactly the blob's bytes.
//
// One case = a blob description + chunking, an explicit history of Seek/Read/FailNext
// operations for desync.NewIndexReadSeeker, a FUSE section (desync.NewIndexMountFS attached
// in-process with fs.NewNodeFS, no kernel mount: handles opened on the file node and read from
// several goroutines) and, in the thorough tier with $VERIF_DESYNC_BIN, `desync cat -o -l`
// invocations. The oracle is the blob itself plus a cursor (see oracle_test.go).
package c09

import (
	"fmt"
	"math"
	"testing"
	"time"

	"pgregory.net/rapid"

	"verifharness/internal/dx"
	"verifharness/internal/gen"
	"verifharness/internal/hx"
	"verifharness/internal/ref"
)

// Op is one step of the read-seeker history.
type Op struct {
	Op     string `json:"op"`            // seek | read | fail
	Off    int64  `json:"off,omitempty"` // seek: offset as passed; with Abs: the absolute target (offset = target - base(whence))
	Whence int    `json:"wh,omitempty"`  // seek: io.SeekStart/Current/End (other values: invalid whence)
	Abs    bool   `json:"abs,omitempty"` // seek: Off is the absolute target position
	Len    int    `json:"len,omitempty"` // read: len(p)
	K      int    `json:"k,omitempty"`   // fail: the K-th next GetChunk of the store fails
}

// FuseRead is one read request on the FUSE file node.
type FuseRead struct {
	G    int   `json:"g"` // goroutine that issues it (requests of one goroutine are issued in list order)
	H    int   `json:"h"` // handle
	Size int   `json:"size"`
	Off  int64 `json:"off"`
}

// CatOp is one `desync cat` invocation (thorough tier only).
type CatOp struct {
	Off  int `json:"off"`  // -o (omitted when 0 and NoO)
	Len  int `json:"len"`  // -l (0 = flag omitted: to the end)
	Drop int `json:"drop"` // index of a chunk whose file is removed from the store for this call; -1 = none
}

type Case struct {
	Pieces []gen.Piece `json:"pieces"`
	Sizes  gen.Sizes   `json:"sizes"`
	Tiling []int       `json:"tiling,omitempty"` // arbitrary tiling; nil = content-defined (reference chunker)
	Ops    []Op        `json:"ops"`

	Handles    int        `json:"handles"`
	Goroutines int        `json:"goroutines"`
	FuseFail   []int      `json:"fuse_fail,omitempty"` // GetChunk call numbers (1-based, counted from the start of the FUSE section) that fail
	Fuse       []FuseRead `json:"fuse,omitempty"`

	Cat []CatOp `json:"cat,omitempty"`

	// FaultErr selects what an injected store failure looks like: 0 plain error, 1 an error that
	// wraps io.EOF with %w (what net/http returns for a connection closed without an answer),
	// 2 a github.com/pkg/errors wrap of io.EOF (what StoreRouter/S3/SFTP stores produce),
	// 3 io.ErrUnexpectedEOF, 4 desync.ChunkMissing, 5 desync.ChunkInvalid
	FaultErr int `json:"fault_err,omitempty"`
}

// ---------------------------------------------------------------- blob construction

type layout struct {
	blob   []byte
	spans  []ref.Span
	sizes  gen.Sizes
	null   []bool // chunk i is the null chunk (all zero, exactly sizes.Max bytes)
	ids    [][32]byte
	length int64
}

// build materialises the blob and its chunking; inconsistent (shrunk / hand-edited) cases are
// made consistent the same way at generation and at run time.
func build(c Case) layout {
	var l layout
	l.blob = gen.Expand(c.Pieces)
	l.sizes = c.Sizes
	if l.sizes.Max == 0 {
		l.sizes = gen.Sizes{Min: 1, Avg: 4, Max: 8}
	}
	if c.Tiling != nil {
		var tiles []int
		total := 0
		for _, t := range c.Tiling {
			if t <= 0 {
				continue
			}
			tiles = append(tiles, t)
			total += t
			if uint64(t) > l.sizes.Max {
				l.sizes.Max = uint64(t)
			}
		}
		if total < len(l.blob) {
			l.blob = l.blob[:total]
		} else if total > len(l.blob) {
			l.blob = append(l.blob, make([]byte, total-len(l.blob))...)
		}
		l.spans = dx.SpansFromTiling(tiles)
	} else {
		if l.sizes.Min < ref.Window {
			l.sizes.Min = ref.Window
		}
		if l.sizes.Avg < l.sizes.Min {
			l.sizes.Avg = l.sizes.Min
		}
		if l.sizes.Max <= l.sizes.Avg {
			l.sizes.Max = l.sizes.Avg + 1
		}
		l.spans = ref.Chunk(l.blob, l.sizes.Min, l.sizes.Avg, l.sizes.Max, false)
	}
	l.length = int64(len(l.blob))
	l.null = make([]bool, len(l.spans))
	l.ids = make([][32]byte, len(l.spans))
	for i, s := range l.spans {
		b := l.blob[s.Start : s.Start+s.Len]
		l.ids[i] = ref.ID(b, false)
		if s.Len == l.sizes.Max {
			z := true
			for _, x := range b {
				if x != 0 {
					z = false
					break
				}
			}
			l.null[i] = z
		}
	}
	return l
}

// chunkAt returns the index of the chunk holding byte position p (0 <= p < length).
func (l *layout) chunkAt(p int64) int {
	lo, hi := 0, len(l.spans)-1
	for lo < hi {
		m := (lo + hi) / 2
		if uint64(p) < l.spans[m].Start+l.spans[m].Len {
			hi = m
		} else {
			lo = m + 1
		}
	}
	return lo
}

// ---------------------------------------------------------------- generator

// genChunkList draws a tiled blob chunk by chunk: one piece per chunk, with runs of null
// chunks, all-zero chunks shorter than max, 1-byte chunks and repeated chunks (same ID).
func genChunkList(t *rapid.T, max int, nmax int) ([]gen.Piece, []int) {
	var ps []gen.Piece
	var tiles []int
	n := rapid.IntRange(1, nmax).Draw(t, "nchunks")
	for len(tiles) < n {
		switch rapid.SampledFrom([]string{"rand", "rand", "full", "null", "null", "zero", "dup", "dupadj", "one"}).Draw(t, "ck") {
		case "null":
			run := rapid.IntRange(1, 4).Draw(t, "nullrun")
			for i := 0; i < run; i++ {
				ps = append(ps, gen.Piece{Kind: "zero", Len: max})
				tiles = append(tiles, max)
			}
		case "zero":
			l := rapid.IntRange(1, max).Draw(t, "zlen")
			ps = append(ps, gen.Piece{Kind: "zero", Len: l})
			tiles = append(tiles, l)
		case "full": // non-zero chunk of exactly max bytes
			ps = append(ps, gen.Piece{Kind: "rand", Len: max, Seed: rapid.Uint64().Draw(t, "seed")})
			tiles = append(tiles, max)
		case "one":
			ps = append(ps, gen.Piece{Kind: "rand", Len: 1, Seed: rapid.Uint64().Draw(t, "seed")})
			tiles = append(tiles, 1)
		case "dup", "dupadj":
			if len(ps) == 0 {
				continue
			}
			j := len(ps) - 1
			if rapid.Bool().Draw(t, "far") {
				j = rapid.IntRange(0, len(ps)-1).Draw(t, "dupof")
			}
			ps = append(ps, ps[j])
			tiles = append(tiles, tiles[j])
		default:
			l := rapid.IntRange(1, max).Draw(t, "clen")
			ps = append(ps, gen.Piece{Kind: "rand", Len: l, Seed: rapid.Uint64().Draw(t, "seed")})
			tiles = append(tiles, l)
		}
	}
	return ps, tiles
}

func genTarget(t *rapid.T, l *layout, label string) int64 {
	L := l.length
	switch rapid.IntRange(0, 10).Draw(t, label+"cat") {
	case 0, 1, 2, 3: // chunk boundary ±1
		if len(l.spans) == 0 {
			return int64(rapid.IntRange(-1, 1).Draw(t, label+"d"))
		}
		s := l.spans[rapid.IntRange(0, len(l.spans)-1).Draw(t, label+"chunk")]
		b := int64(s.Start)
		if rapid.Bool().Draw(t, label+"end") {
			b += int64(s.Len)
		}
		return b + int64(rapid.IntRange(-1, 1).Draw(t, label+"d"))
	case 4:
		return int64(rapid.IntRange(-1, 1).Draw(t, label+"d"))
	case 5, 6:
		return L + int64(rapid.IntRange(-1, 1).Draw(t, label+"d"))
	case 7:
		return -rapid.SampledFrom([]int64{2, L, L + 1, 1 << 40, math.MaxInt64}).Draw(t, label+"neg")
	case 8:
		return rapid.SampledFrom([]int64{L + 2, 2*L + 1, L + 1<<40, math.MaxInt64}).Draw(t, label+"far")
	default:
		return rapid.Int64Range(0, L).Draw(t, label+"u")
	}
}

func genReadLen(t *rapid.T, l *layout, label string) int {
	max := int(l.sizes.Max)
	lim := 3 * max
	var n int
	switch rapid.IntRange(0, 7).Draw(t, label+"cat") {
	case 0:
		n = rapid.IntRange(0, 2).Draw(t, label+"tiny")
	case 1:
		n = max + rapid.IntRange(-1, 1).Draw(t, label+"d")
	case 2:
		n = lim
	case 3:
		if len(l.spans) > 0 {
			s := l.spans[rapid.IntRange(0, len(l.spans)-1).Draw(t, label+"chunk")]
			n = int(s.Len) + rapid.IntRange(-1, 1).Draw(t, label+"d")
		}
	case 4:
		n = int(l.length) + rapid.IntRange(-1, 1).Draw(t, label+"d")
	default:
		n = rapid.IntRange(0, lim).Draw(t, label+"u")
	}
	if n < 0 {
		n = 0
	}
	if n > lim {
		n = lim
	}
	return n
}

func genOp(t *rapid.T, l *layout) Op {
	max := int64(l.sizes.Max)
	switch rapid.SampledFrom([]string{"seek", "seek", "seek", "read", "read", "read", "read", "fail"}).Draw(t, "op") {
	case "seek":
		if rapid.IntRange(0, 3).Draw(t, "raw") == 0 {
			wh := rapid.SampledFrom([]int{1, 1, 1, 2, 2, 0, 3, -1}).Draw(t, "whence")
			off := rapid.SampledFrom([]int64{-1, 0, 1, 1, -2, -max, max, -3 * max, -l.length, l.length, math.MaxInt64, math.MinInt64}).Draw(t, "off")
			return Op{Op: "seek", Off: off, Whence: wh}
		}
		return Op{Op: "seek", Off: genTarget(t, l, "t"), Whence: rapid.IntRange(0, 2).Draw(t, "whence"), Abs: true}
	case "fail":
		return Op{Op: "fail", K: rapid.IntRange(1, 3).Draw(t, "k")}
	default:
		return Op{Op: "read", Len: genReadLen(t, l, "rl")}
	}
}

func genCase(t *rapid.T) Case {
	var c Case
	// (rapid favours the ends of a range: the empty blob, a suspected defect, sits in the middle)
	shape := (rapid.IntRange(0, 19).Draw(t, "shape") + 10) % 20
	switch {
	case shape == 0: // empty blob, zero chunks
		if rapid.Bool().Draw(t, "tiledsizes") {
			c.Sizes = gen.Sizes{Min: 1, Avg: 4, Max: 8}
			c.Tiling = []int{}
		} else {
			c.Sizes = gen.ChunkSizes(t, false)
		}
	case shape == 1: // single chunk
		max := rapid.SampledFrom([]int{1, 2, 8, 64, 300}).Draw(t, "max")
		n := rapid.IntRange(1, max).Draw(t, "len")
		kind := rapid.SampledFrom([]string{"rand", "rand", "zero"}).Draw(t, "kind")
		if kind == "zero" && rapid.Bool().Draw(t, "null") {
			n = max
		}
		c.Sizes = gen.Sizes{Min: 1, Avg: uint64((max + 1) / 2), Max: uint64(max)}
		c.Pieces = []gen.Piece{{Kind: kind, Len: n, Seed: rapid.Uint64().Draw(t, "seed")}}
		c.Tiling = []int{n}
	case shape <= 9: // chunk list with tiny chunks
		max := rapid.SampledFrom([]int{1, 2, 3, 5, 8, 8, 16, 64}).Draw(t, "max")
		c.Sizes = gen.Sizes{Min: 1, Avg: uint64((max + 1) / 2), Max: uint64(max)}
		c.Pieces, c.Tiling = genChunkList(t, max, hx.Pick(40, 120))
	case shape <= 12: // arbitrary tiling of a piece blob
		max := rapid.SampledFrom([]int{1, 2, 4, 8, 8, 16}).Draw(t, "max")
		c.Sizes = gen.Sizes{Min: 1, Avg: uint64((max + 1) / 2), Max: uint64(max)}
		c.Pieces = gen.Pieces(t, max*hx.Pick(40, 150), 1, max)
		total := len(gen.Expand(c.Pieces))
		c.Tiling = gen.Tiling(t, total, max)
		if c.Tiling == nil {
			c.Tiling = []int{}
		}
	default: // content-defined chunking
		c.Sizes = gen.ChunkSizes(t, false)
		max := int(c.Sizes.Max)
		maxLen := max * rapid.IntRange(1, hx.Pick(12, 40)).Draw(t, "mult")
		if lim := hx.Pick(200_000, 1_500_000); maxLen > lim {
			maxLen = lim
		}
		if rapid.Bool().Draw(t, "sandwich") { // random data around runs of zeros long enough for null chunks
			left := maxLen
			for i := 0; i < 3 && left > 0; i++ {
				a := gen.Around(t, "rlen", min(left, 2*max), int(c.Sizes.Min), max)
				c.Pieces = append(c.Pieces, gen.Piece{Kind: "rand", Len: a, Seed: rapid.Uint64().Draw(t, "seed")})
				left -= a
				z := max*rapid.IntRange(1, 5).Draw(t, "zk") + rapid.IntRange(-2, 2).Draw(t, "zd")
				if z > left {
					z = left
				}
				if z > 0 {
					c.Pieces = append(c.Pieces, gen.Piece{Kind: "zero", Len: z})
					left -= z
				}
			}
		} else {
			c.Pieces = gen.Pieces(t, maxLen, int(c.Sizes.Min), max)
		}
	}
	l := build(c)

	// rapid's slice lengths lean towards the minimum: draw the minimum so that long histories are common
	minOps := rapid.SampledFrom([]int{1, 4, 10, 20, 30}).Draw(t, "minops")
	c.Ops = rapid.SliceOfN(rapid.Custom(func(t *rapid.T) Op { return genOp(t, &l) }), minOps, hx.Pick(40, 80)).Draw(t, "ops")

	c.FaultErr = rapid.SampledFrom([]int{0, 0, 1, 2, 3, 4, 5}).Draw(t, "faulterr")
	c.Handles = rapid.IntRange(1, 3).Draw(t, "handles")
	c.Goroutines = rapid.IntRange(1, 4).Draw(t, "goroutines")
	c.Fuse = rapid.SliceOfN(rapid.Custom(func(t *rapid.T) FuseRead {
		off := genTarget(t, &l, "fo")
		if off < 0 {
			off = 0
		}
		size := genReadLen(t, &l, "fs")
		if rapid.IntRange(0, 7).Draw(t, "page") == 0 {
			size = rapid.SampledFrom([]int{4096, 131072}).Draw(t, "pagesize")
		}
		return FuseRead{G: rapid.IntRange(0, c.Goroutines-1).Draw(t, "g"), H: rapid.IntRange(0, c.Handles-1).Draw(t, "h"), Size: size, Off: off}
	}), rapid.SampledFrom([]int{0, 2, 8, 16}).Draw(t, "minfuse"), hx.Pick(24, 60)).Draw(t, "fuse")
	if rapid.IntRange(0, 2).Draw(t, "fusefaults") == 0 {
		c.FuseFail = rapid.SliceOfNDistinct(rapid.IntRange(1, 10), 1, 3, rapid.ID[int]).Draw(t, "fusefail")
	}

	if hx.Thorough() && rapid.Bool().Draw(t, "withcat") { // process spawns dominate the cost: half of the cases
		c.Cat = rapid.SliceOfN(rapid.Custom(func(t *rapid.T) CatOp {
			off := genTarget(t, &l, "co")
			if off < 0 {
				off = 0
			}
			if off > l.length+2 {
				off = l.length + 2
			}
			ln := 0
			switch rapid.IntRange(0, 3).Draw(t, "cl") {
			case 0:
			case 1:
				if rest := l.length - off; rest > 0 {
					ln = int(rest) + rapid.IntRange(-1, 1).Draw(t, "cld")
				}
			default:
				ln = genReadLen(t, &l, "cln")
			}
			if ln < 0 {
				ln = 0
			}
			drop := -1
			if len(l.spans) > 0 && rapid.IntRange(0, 3).Draw(t, "dropq") == 0 {
				drop = rapid.IntRange(0, len(l.spans)-1).Draw(t, "drop")
			}
			return CatOp{Off: int(off), Len: ln, Drop: drop}
		}), 0, 3).Draw(t, "cat")
	}
	return c
}

// ---------------------------------------------------------------- spec and tests

var spec = &hx.Spec[Case]{
	ID:    "C09",
	Level: "exploration",
	Rule: "cases = (blob: empty / single chunk / chunk lists with null-chunk runs, short zero chunks, 1-byte chunks and repeated IDs / arbitrary 1..max tilings / content-defined chunking of pieces with zero runs; " +
		"history of Seek(any whence, targets 0, ±1, chunk boundaries ±1, Length, Length±1, negative, far beyond), Read(0..3·max), FailNext(k) on desync.NewIndexReadSeeker over a fault-injecting store; " +
		"FUSE section: NewIndexMountFS attached in-process (fs.NewNodeFS, no kernel mount), h handles, reads (off,size) issued from g goroutines, GetChunk faults at generated call numbers; " +
		"thorough: `desync cat -o -l` with an optionally removed chunk file); " +
		"non-trivial = the history has a correct read spanning >= 2 chunks after a backwards seek, or a read crossing a null-chunk boundary, or a successful read after a delivered store fault; distinct by case content hash",
	Assumptions: []string{
		"oracle: the blob bytes and a cursor; chunk IDs computed with crypto/sha512 directly; content-defined cuts by the reference chunker",
		"the FUSE file is driven in-process: even handles through the node API (Open/Read/Getattr of the inode's operations), odd handles through go-fuse's rawBridge (LOOKUP/OPEN/READ/RELEASE) returned by fs.NewNodeFS; the kernel FUSE path is not exercised",
		"a FUSE read at an offset beyond the file size is outside the domain (the kernel never sends it): OK-with-no-data or an error are both accepted",
		"a Seek beyond the end may either be refused (position unchanged) or accepted (later reads give 0 bytes and io.EOF)",
		"store faults are attributed to FUSE reads by the goroutine that called GetChunk (the node is called synchronously)",
		"cat with -l reaching beyond the end: stdout must be the exact remaining bytes, either exit status accepted",
	},
	Required: []string{
		"blob:empty", "blob:single-chunk", "blob:null-run", "blob:repeated-id", "blob:one-byte-chunk", "blob:tiled", "blob:content-defined",
		"seek:refused", "seek:backward", "seek:to-end", "read:spans-chunks-after-backseek", "read:crosses-null", "read:at-eof", "read:to-eof",
		"fault:delivered", "read:after-fault",
		"fuse:concurrent", "fuse:shared-handle", "fuse:via-bridge", "fuse:fault-delivered", "fuse:straddles-eof", "fuse:at-eof",
	},
	Gen:      genCase,
	Run:      run,
	Journal:  true,
	Watchdog: 60 * time.Second,
}

func TestMain(m *testing.M) { hx.Main(m) }

func TestRegress(t *testing.T) { hx.Regress(t, spec) }
func TestKnown(t *testing.T)   { hx.Known(t, spec) }
func TestReplay(t *testing.T)  { hx.Replay(t, spec) }

// enumBlobs are the small layouts of the exhaustive part (tile lengths; 0-seed = zero piece).
func enumBlobs() []Case {
	mk := func(max int, desc ...[2]int) Case { // desc: {len, seed}; seed 0 = zeros
		c := Case{Sizes: gen.Sizes{Min: 1, Avg: uint64((max + 1) / 2), Max: uint64(max)}, Tiling: []int{}, Handles: 1, Goroutines: 1}
		for _, d := range desc {
			p := gen.Piece{Kind: "rand", Len: d[0], Seed: uint64(d[1])}
			if d[1] == 0 {
				p = gen.Piece{Kind: "zero", Len: d[0]}
			}
			c.Pieces = append(c.Pieces, p)
			c.Tiling = append(c.Tiling, d[0])
		}
		return c
	}
	all := []Case{
		mk(2, [2]int{1, 7}, [2]int{2, 0}, [2]int{2, 0}, [2]int{2, 9}, [2]int{1, 7}, [2]int{1, 0}), // null run, repeated 1-byte chunk, short zero chunk
		mk(3, [2]int{3, 5}),                                           // single chunk
		mk(3, [2]int{3, 0}, [2]int{3, 0}),                             // only null chunks
		mk(1, [2]int{1, 3}, [2]int{1, 0}, [2]int{1, 3}, [2]int{1, 4}), // all 1-byte chunks, null chunk of one byte
		mk(4, [2]int{2, 11}, [2]int{4, 12}, [2]int{4, 12}, [2]int{1, 13}),
		mk(2), // empty
	}
	return hx.Pick(append(all[:4:4], all[5]), all) // the empty layout last: it is a suspected defect
}

// TestEnum: for the small layouts, every (start position, seek target incl. -1 and Length+1,
// whence, read length) combination, and every FUSE (offset, size) request.
func TestEnum(t *testing.T) {
	if hx.Shard() != 0 {
		t.Skip()
	}
	n := 0
	for _, base := range enumBlobs() {
		L := int64(len(gen.Expand(base.Pieces)))
		for p0 := int64(0); p0 <= L; p0++ {
			for p1 := int64(-1); p1 <= L+1; p1++ {
				c := base
				c.Ops = nil
				for rl := 0; rl <= int(L)+1; rl++ {
					// from p0 (after touching the chunk there) go to p1 and read rl bytes; then come back
					c.Ops = append(c.Ops,
						Op{Op: "seek", Off: p0, Whence: 0, Abs: true}, Op{Op: "read", Len: 1},
						Op{Op: "seek", Off: p1, Whence: rl % 3, Abs: true}, Op{Op: "read", Len: rl})
				}
				c.Fuse = nil
				for sz := 0; sz <= int(L)+1; sz++ {
					if p1 >= 0 {
						c.Fuse = append(c.Fuse, FuseRead{Off: p0, Size: 1}, FuseRead{Off: p1, Size: sz})
					}
				}
				n++
				if !hx.Case(t, spec, c) {
					return
				}
			}
		}
	}
	hx.Note("enum_cases", n)
	hx.Exhaustive(fmt.Sprintf("%d small layouts: every (position, seek target in -1..Length+1, whence, read length 0..Length+1) and every FUSE (offset, size)", len(enumBlobs())))
}

func TestProp(t *testing.T) { hx.Prop(t, spec) }
