// C09 — Random-access reads through an index return exactly the blob's bytes.
//
// One case = a blob description + chunking, an explicit history of Seek/Read/FailNext
// operations for desync.NewIndexReadSeeker, a FUSE section (desync.NewIndexMountFS attached
// in-process with fs.NewNodeFS, no kernel mount: handles opened on the file node and read from
// several goroutines) and, in the thorough tier with $VERIF_DESYNC_BIN, `desync cat -o -l`
// invocations. The oracle is the blob itself plus a cursor (see oracle_test.go).
package c09

import (
	"fmt"
	"math"
	"os"
	"testing"
	"time"

	"pgregory.net/rapid"

	"verifharness/internal/dx"
	"verifharness/internal/gen"
	"verifharness/internal/hx"
	"verifharness/internal/ref"
)

// Op is one step of the read-seeker history.
type Op struct {
	Op     string `json:"op"`             // seek | read | fail | damage | heal | copy
	Off    int64  `json:"off,omitempty"`  // seek: offset as passed; with Abs: the absolute target (offset = target - base(whence))
	Whence int    `json:"wh,omitempty"`   // seek: io.SeekStart/Current/End (other values: invalid whence)
	Abs    bool   `json:"abs,omitempty"`  // seek: Off is the absolute target position
	Len    int    `json:"len,omitempty"`  // read: len(p); copy: n of io.CopyN / buffer size of io.CopyBuffer
	Via    string `json:"via,omitempty"`  // copy: copy (io.Copy) | read (io.Copy that cannot see WriteTo) | buffer (io.CopyBuffer) | copyn (io.CopyN) | writerto
	K      int    `json:"k,omitempty"`    // fail: the K-th next GetChunk of the store fails
	V      int    `json:"v,omitempty"`    // damage/heal: index entry whose ID is damaged / restored in the store
	Kind   string `json:"kind,omitempty"` // damage: short | long | one | empty (always a different LENGTH than the index entry)
}

// FuseRead is one read request on the FUSE file node, or (Op damage/heal) a change of the store
// that acts as a barrier: all requests listed before it have returned, none listed after it has started.
type FuseRead struct {
	G    int    `json:"g"` // goroutine that issues it (requests of one goroutine are issued in list order)
	H    int    `json:"h"` // handle
	Size int    `json:"size"`
	Off  int64  `json:"off"`
	Op   string `json:"op,omitempty"`   // "" = read | damage | heal
	V    int    `json:"v,omitempty"`    // damage/heal: index entry
	Kind string `json:"kind,omitempty"` // damage: short | long | one | empty
}

// Twin puts a second entry with the ID of entry Of, but a different size, into the index at
// position At: an index no blob can satisfy. Every read of that entry's range has to fail.
type Twin struct {
	At   int `json:"at"`
	Of   int `json:"of"`
	Size int `json:"size"`
}

// CatOp is one `desync cat` invocation (thorough tier only).
type CatOp struct {
	Off  int `json:"off"`  // -o (omitted when 0 and NoO)
	Len  int `json:"len"`  // -l (0 = flag omitted: to the end)
	Drop int `json:"drop"` // index of a chunk whose file is removed from the store for this call; -1 = none
}

type Case struct {
	Pieces []gen.Piece `json:"pieces"`
	Sizes  gen.Sizes   `json:"sizes"`
	Tiling []int       `json:"tiling,omitempty"` // arbitrary tiling; nil = content-defined (reference chunker)
	Ops    []Op        `json:"ops"`

	Handles    int        `json:"handles"`
	Goroutines int        `json:"goroutines"`
	FuseFail   []int      `json:"fuse_fail,omitempty"` // GetChunk call numbers (1-based, counted from the start of the FUSE section) that fail
	Fuse       []FuseRead `json:"fuse,omitempty"`

	Cat []CatOp `json:"cat,omitempty"`

	// FaultErr selects what an injected store failure looks like: 0 plain error, 1 an error that
	// wraps io.EOF with %w (what net/http returns for a connection closed without an answer),
	// 2 a github.com/pkg/errors wrap of io.EOF (what StoreRouter/S3/SFTP stores produce),
	// 3 io.ErrUnexpectedEOF, 4 desync.ChunkMissing, 5 desync.ChunkInvalid
	FaultErr int `json:"fault_err,omitempty"`

	Verify bool  `json:"verify,omitempty"` // the store verifies chunks (damaged chunk = ChunkInvalid); default: unverified, damaged data is handed out
	Twin   *Twin `json:"twin,omitempty"`
}

// ---------------------------------------------------------------- blob construction

type layout struct {
	blob   []byte
	spans  []ref.Span
	sizes  gen.Sizes
	null   []bool // chunk i is the null chunk (all zero, exactly sizes.Max bytes)
	bad    []bool // entry i claims a size that differs from the chunk stored under its ID (Twin): unreadable
	ids    [][32]byte
	length int64
}

// build materialises the blob and its chunking; inconsistent (shrunk / hand-edited) cases are
// made consistent the same way at generation and at run time.
func build(c Case) layout {
	var l layout
	l.blob = gen.Expand(c.Pieces)
	l.sizes = c.Sizes
	if l.sizes.Max == 0 {
		l.sizes = gen.Sizes{Min: 1, Avg: 4, Max: 8}
	}
	if c.Tiling != nil {
		var tiles []int
		total := 0
		for _, t := range c.Tiling {
			if t <= 0 {
				continue
			}
			tiles = append(tiles, t)
			total += t
			if uint64(t) > l.sizes.Max {
				l.sizes.Max = uint64(t)
			}
		}
		if total < len(l.blob) {
			l.blob = l.blob[:total]
		} else if total > len(l.blob) {
			l.blob = append(l.blob, make([]byte, total-len(l.blob))...)
		}
		l.spans = dx.SpansFromTiling(tiles)
	} else {
		if l.sizes.Min < ref.Window {
			l.sizes.Min = ref.Window
		}
		if l.sizes.Avg < l.sizes.Min {
			l.sizes.Avg = l.sizes.Min
		}
		if l.sizes.Max <= l.sizes.Avg {
			l.sizes.Max = l.sizes.Avg + 1
		}
		l.spans = ref.Chunk(l.blob, l.sizes.Min, l.sizes.Avg, l.sizes.Max, false)
	}
	l.length = int64(len(l.blob))
	l.null = make([]bool, len(l.spans))
	l.ids = make([][32]byte, len(l.spans))
	for i, s := range l.spans {
		b := l.blob[s.Start : s.Start+s.Len]
		l.ids[i] = ref.ID(b, false)
		if s.Len == l.sizes.Max {
			z := true
			for _, x := range b {
				if x != 0 {
					z = false
					break
				}
			}
			l.null[i] = z
		}
	}
	l.bad = make([]bool, len(l.spans))
	if c.Twin != nil && len(l.spans) > 0 {
		n := len(l.spans)
		of, at, size := min(max(c.Twin.Of, 0), n-1), min(max(c.Twin.At, 0), n), uint64(max(c.Twin.Size, 1))
		size = min(size, l.sizes.Max)
		if size == l.spans[of].Len {
			if size > 1 {
				size--
			} else if size < l.sizes.Max {
				size++
			} else {
				size = 0
			}
		}
		if size > 0 {
			pos := uint64(l.length)
			if at < n {
				pos = l.spans[at].Start
			}
			filler := make([]byte, size) // no content is right for this range
			for i := range filler {
				filler[i] = 0x5A
			}
			l.blob = append(l.blob[:pos:pos], append(filler, l.blob[pos:]...)...)
			l.spans = append(l.spans[:at:at], append([]ref.Span{{Start: pos, Len: size}}, l.spans[at:]...)...)
			for i := at + 1; i < len(l.spans); i++ {
				l.spans[i].Start += size
			}
			id := l.ids[of]
			l.ids = append(l.ids[:at:at], append([][32]byte{id}, l.ids[at:]...)...)
			l.null = append(l.null[:at:at], append([]bool{false}, l.null[at:]...)...)
			l.bad = append(l.bad[:at:at], append([]bool{true}, l.bad[at:]...)...)
			l.length = int64(len(l.blob))
		}
	}
	return l
}

// readable returns how many of the n bytes from position p lie before the first unreadable
// (Twin) entry.
func (l *layout) readable(p, n int64) int64 {
	if n <= 0 || p >= l.length {
		return max(n, 0)
	}
	for c := l.chunkAt(p); c < len(l.spans) && int64(l.spans[c].Start) < p+n; c++ {
		if l.bad[c] {
			return max(int64(l.spans[c].Start)-p, 0)
		}
	}
	return n
}

// badID reports whether a mis-sized (Twin) entry carries this ID.
func (l *layout) badID(id [32]byte) bool {
	for i, b := range l.bad {
		if b && l.ids[i] == id {
			return true
		}
	}
	return false
}

// entries calls f for every index entry that overlaps [p, p+n).
func (l *layout) entries(p, n int64, f func(i int)) {
	if n <= 0 || p >= l.length || p < 0 {
		return
	}
	for c := l.chunkAt(p); c < len(l.spans) && int64(l.spans[c].Start) < p+n; c++ {
		f(c)
	}
}

// damagedData is what Damage puts into the store under the chunk's ID: another length, and no
// byte equal to the one the blob has at the same chunk offset.
func damagedData(real []byte, kind string) []byte {
	var n int
	switch kind {
	case "long":
		n = len(real) + 1 + len(real)/3
	case "one":
		n = 1
	case "empty":
		n = 0
	default: // short
		n = len(real) * 7 / 10
	}
	if n == len(real) {
		n = len(real) + 1
	}
	out := make([]byte, n)
	for i := range out {
		out[i] = ^real[i%len(real)]
	}
	return out
}

// chunkAt returns the index of the chunk holding byte position p (0 <= p < length).
func (l *layout) chunkAt(p int64) int {
	lo, hi := 0, len(l.spans)-1
	for lo < hi {
		m := (lo + hi) / 2
		if uint64(p) < l.spans[m].Start+l.spans[m].Len {
			hi = m
		} else {
			lo = m + 1
		}
	}
	return lo
}

// ---------------------------------------------------------------- generator

// genChunkList draws a tiled blob chunk by chunk: one piece per chunk, with runs of null
// chunks, all-zero chunks shorter than max, 1-byte chunks and repeated chunks (same ID).
func genChunkList(t *rapid.T, max int, nmax int) ([]gen.Piece, []int) {
	var ps []gen.Piece
	var tiles []int
	n := rapid.IntRange(1, nmax).Draw(t, "nchunks")
	for len(tiles) < n {
		switch rapid.SampledFrom([]string{"rand", "rand", "full", "null", "null", "zero", "dup", "dupadj", "one"}).Draw(t, "ck") {
		case "null":
			run := rapid.IntRange(1, 4).Draw(t, "nullrun")
			for i := 0; i < run; i++ {
				ps = append(ps, gen.Piece{Kind: "zero", Len: max})
				tiles = append(tiles, max)
			}
		case "zero":
			l := rapid.IntRange(1, max).Draw(t, "zlen")
			ps = append(ps, gen.Piece{Kind: "zero", Len: l})
			tiles = append(tiles, l)
		case "full": // non-zero chunk of exactly max bytes
			ps = append(ps, gen.Piece{Kind: "rand", Len: max, Seed: rapid.Uint64().Draw(t, "seed")})
			tiles = append(tiles, max)
		case "one":
			ps = append(ps, gen.Piece{Kind: "rand", Len: 1, Seed: rapid.Uint64().Draw(t, "seed")})
			tiles = append(tiles, 1)
		case "dup", "dupadj":
			if len(ps) == 0 {
				continue
			}
			j := len(ps) - 1
			if rapid.Bool().Draw(t, "far") {
				j = rapid.IntRange(0, len(ps)-1).Draw(t, "dupof")
			}
			ps = append(ps, ps[j])
			tiles = append(tiles, tiles[j])
		default:
			l := rapid.IntRange(1, max).Draw(t, "clen")
			ps = append(ps, gen.Piece{Kind: "rand", Len: l, Seed: rapid.Uint64().Draw(t, "seed")})
			tiles = append(tiles, l)
		}
	}
	return ps, tiles
}

func genTarget(t *rapid.T, l *layout, label string) int64 {
	L := l.length
	switch rapid.IntRange(0, 10).Draw(t, label+"cat") {
	case 0, 1, 2, 3: // chunk boundary ±1
		if len(l.spans) == 0 {
			return int64(rapid.IntRange(-1, 1).Draw(t, label+"d"))
		}
		s := l.spans[rapid.IntRange(0, len(l.spans)-1).Draw(t, label+"chunk")]
		b := int64(s.Start)
		if rapid.Bool().Draw(t, label+"end") {
			b += int64(s.Len)
		}
		return b + int64(rapid.IntRange(-1, 1).Draw(t, label+"d"))
	case 4:
		return int64(rapid.IntRange(-1, 1).Draw(t, label+"d"))
	case 5, 6:
		return L + int64(rapid.IntRange(-1, 1).Draw(t, label+"d"))
	case 7:
		return -rapid.SampledFrom([]int64{2, L, L + 1, 1 << 40, math.MaxInt64}).Draw(t, label+"neg")
	case 8:
		return rapid.SampledFrom([]int64{L + 2, 2*L + 1, L + 1<<40, math.MaxInt64}).Draw(t, label+"far")
	default:
		return rapid.Int64Range(0, L).Draw(t, label+"u")
	}
}

func genReadLen(t *rapid.T, l *layout, label string) int {
	max := int(l.sizes.Max)
	lim := 3 * max
	var n int
	switch rapid.IntRange(0, 7).Draw(t, label+"cat") {
	case 0:
		n = rapid.IntRange(0, 2).Draw(t, label+"tiny")
	case 1:
		n = max + rapid.IntRange(-1, 1).Draw(t, label+"d")
	case 2:
		n = lim
	case 3:
		if len(l.spans) > 0 {
			s := l.spans[rapid.IntRange(0, len(l.spans)-1).Draw(t, label+"chunk")]
			n = int(s.Len) + rapid.IntRange(-1, 1).Draw(t, label+"d")
		}
	case 4:
		n = int(l.length) + rapid.IntRange(-1, 1).Draw(t, label+"d")
	default:
		n = rapid.IntRange(0, lim).Draw(t, label+"u")
	}
	if n < 0 {
		n = 0
	}
	if n > lim {
		n = lim
	}
	return n
}

func genOp(t *rapid.T, l *layout) Op {
	max := int64(l.sizes.Max)
	switch rapid.SampledFrom([]string{"seek", "seek", "seek", "seek", "read", "read", "read", "read", "read", "fail", "copy"}).Draw(t, "op") {
	case "copy":
		return genCopy(t, l)
	case "seek":
		if rapid.IntRange(0, 3).Draw(t, "raw") == 0 {
			wh := rapid.SampledFrom([]int{1, 1, 1, 2, 2, 0, 3, -1}).Draw(t, "whence")
			off := rapid.SampledFrom([]int64{-1, 0, 1, 1, -2, -max, max, -3 * max, -l.length, l.length, math.MaxInt64, math.MinInt64}).Draw(t, "off")
			return Op{Op: "seek", Off: off, Whence: wh}
		}
		return Op{Op: "seek", Off: genTarget(t, l, "t"), Whence: rapid.IntRange(0, 2).Draw(t, "whence"), Abs: true}
	case "fail":
		return Op{Op: "fail", K: rapid.IntRange(1, 3).Draw(t, "k")}
	default:
		return Op{Op: "read", Len: genReadLen(t, l, "rl")}
	}
}

var copyVias = []string{"copy", "copy", "writerto", "read", "buffer", "copyn"}

// genCopy draws a drain of the rest of the blob (or of Len bytes with io.CopyN).
func genCopy(t *rapid.T, l *layout) Op {
	op := Op{Op: "copy", Via: rapid.SampledFrom(copyVias).Draw(t, "via")}
	switch op.Via {
	case "buffer":
		op.Len = rapid.SampledFrom([]int{1, 2, 3, 7, int(l.sizes.Max), 4096}).Draw(t, "cbuf")
	case "copyn":
		op.Len = genReadLen(t, l, "cn")
		if rapid.IntRange(0, 3).Draw(t, "cnall") == 0 {
			op.Len = int(l.length) + rapid.IntRange(-1, 1).Draw(t, "cnd")
		}
		op.Len = max(op.Len, 0)
	}
	return op
}

var damageKinds = []string{"short", "short", "long", "one", "empty"}

// pickVictim draws an index entry to damage, preferring one that is really fetched from the
// store (the null chunk never is).
func pickVictim(t *rapid.T, l *layout, label string) int {
	v := 0
	for try := 0; try < 3; try++ {
		v = rapid.IntRange(0, len(l.spans)-1).Draw(t, label)
		if !l.null[v] && !l.bad[v] {
			break
		}
	}
	return v
}

// genOpBlock draws one step of a history, or a whole scenario: damage entry v (wrong length in an
// unverified store), read inside v (refused), read again inside v at the same / the following /
// another offset, heal, read again.
func genOpBlock(t *rapid.T, l *layout) []Op {
	if len(l.spans) == 0 {
		return []Op{genOp(t, l)}
	}
	switch rapid.IntRange(0, 23).Draw(t, "blk") {
	case 0:
		return []Op{{Op: "damage", V: pickVictim(t, l, "v"), Kind: rapid.SampledFrom(damageKinds).Draw(t, "dk")}}
	case 1:
		return []Op{{Op: "heal", V: rapid.IntRange(0, len(l.spans)-1).Draw(t, "v")}}
	case 4: // a store failure (or a damaged chunk) somewhere in a copy of the rest, then carry on where it stopped
		start := genTarget(t, l, "cs")
		if start < 0 || start > l.length || rapid.Bool().Draw(t, "fromstart") {
			start = 0
		}
		ops := []Op{{Op: "seek", Off: start, Abs: true}}
		if rapid.IntRange(0, 3).Draw(t, "cdmg") == 0 {
			v := pickVictim(t, l, "v")
			ops = append(ops, Op{Op: "damage", V: v, Kind: rapid.SampledFrom(damageKinds).Draw(t, "dk")}, genCopy(t, l), Op{Op: "heal", V: v})
		} else {
			ops = append(ops, Op{Op: "fail", K: rapid.IntRange(1, max(1, min(len(l.spans), 6))).Draw(t, "k")}, genCopy(t, l))
		}
		return append(ops, Op{Op: "read", Len: rapid.SampledFrom([]int{1, 2, int(l.sizes.Max)}).Draw(t, "after")}, genCopy(t, l))
	case 2, 3:
		v := pickVictim(t, l, "v")
		s := l.spans[v]
		in := func(label string) int64 {
			return int64(s.Start) + int64(rapid.IntRange(0, int(s.Len)-1).Draw(t, label))
		}
		small := func(label string) int { return rapid.SampledFrom([]int{1, 1, 2, 3}).Draw(t, label) }
		p := in("p")
		n1 := rapid.SampledFrom([]int{1, 2, int(s.Len), int(l.sizes.Max), 3 * int(l.sizes.Max)}).Draw(t, "n1")
		ops := []Op{{Op: "damage", V: v, Kind: rapid.SampledFrom(damageKinds).Draw(t, "dk")}}
		if rapid.IntRange(0, 3).Draw(t, "frombefore") == 0 && s.Start > 0 { // run into v from the entry before it
			ops = append(ops, Op{Op: "seek", Off: int64(s.Start) - 1, Abs: true}, Op{Op: "read", Len: 1 + small("nb")})
		} else {
			ops = append(ops, Op{Op: "seek", Off: p, Whence: rapid.IntRange(0, 2).Draw(t, "whence"), Abs: true}, Op{Op: "read", Len: n1})
		}
		ops = append(ops, Op{Op: "read", Len: small("n2")}) // same position: the refused read consumed nothing of v
		if rapid.Bool().Draw(t, "again") {
			ops = append(ops, Op{Op: "seek", Off: in("p2"), Whence: rapid.IntRange(0, 2).Draw(t, "whence2"), Abs: true}, Op{Op: "read", Len: small("n3")})
		}
		ops = append(ops, Op{Op: "heal", V: v}, Op{Op: "seek", Off: p, Abs: true}, Op{Op: "read", Len: n1})
		return ops
	}
	return []Op{genOp(t, l)}
}

func genFuseRead(t *rapid.T, c *Case, l *layout) FuseRead {
	off := genTarget(t, l, "fo")
	if off < 0 {
		off = 0
	}
	size := genReadLen(t, l, "fs")
	if rapid.IntRange(0, 7).Draw(t, "page") == 0 {
		size = rapid.SampledFrom([]int{4096, 131072}).Draw(t, "pagesize")
	}
	return FuseRead{G: rapid.IntRange(0, c.Goroutines-1).Draw(t, "g"), H: rapid.IntRange(0, c.Handles-1).Draw(t, "h"), Size: size, Off: off}
}

// genFuseBlock: one request, a damage / heal barrier, or the re-read scenario on one handle.
func genFuseBlock(t *rapid.T, c *Case, l *layout) []FuseRead {
	if len(l.spans) == 0 {
		return []FuseRead{genFuseRead(t, c, l)}
	}
	switch rapid.IntRange(0, 23).Draw(t, "fblk") {
	case 0:
		return []FuseRead{{Op: "damage", V: pickVictim(t, l, "v"), Kind: rapid.SampledFrom(damageKinds).Draw(t, "dk")}}
	case 1:
		return []FuseRead{{Op: "heal", V: rapid.IntRange(0, len(l.spans)-1).Draw(t, "v")}}
	case 2, 3:
		v := pickVictim(t, l, "v")
		s := l.spans[v]
		in := func(label string) int64 {
			return int64(s.Start) + int64(rapid.IntRange(0, int(s.Len)-1).Draw(t, label))
		}
		g, h := rapid.IntRange(0, c.Goroutines-1).Draw(t, "g"), rapid.IntRange(0, c.Handles-1).Draw(t, "h")
		p := in("p")
		n1 := rapid.SampledFrom([]int{1, 2, int(s.Len), int(l.sizes.Max), 4096}).Draw(t, "n1")
		rd := func(off int64, size int) FuseRead { return FuseRead{G: g, H: h, Off: off, Size: size} }
		out := []FuseRead{{Op: "damage", V: v, Kind: rapid.SampledFrom(damageKinds).Draw(t, "dk")}, rd(p, n1)}
		if rapid.Bool().Draw(t, "same") {
			out = append(out, rd(p, n1)) // the request repeated as it was
		}
		out = append(out, rd(p, rapid.SampledFrom([]int{1, 1, 2}).Draw(t, "n2")), rd(in("p2"), rapid.SampledFrom([]int{1, 2, 3}).Draw(t, "n3")))
		if rapid.Bool().Draw(t, "others") { // somebody else on the same handle meanwhile
			out = append(out, genFuseRead(t, c, l))
		}
		out = append(out, FuseRead{Op: "heal", V: v}, rd(p, n1))
		return out
	}
	return []FuseRead{genFuseRead(t, c, l)}
}

func genCase(t *rapid.T) Case {
	var c Case
	// (rapid favours the ends of a range: the empty blob, a suspected defect, sits in the middle)
	shape := (rapid.IntRange(0, 19).Draw(t, "shape") + 10) % 20
	switch {
	case shape == 0: // empty blob, zero chunks
		if rapid.Bool().Draw(t, "tiledsizes") {
			c.Sizes = gen.Sizes{Min: 1, Avg: 4, Max: 8}
			c.Tiling = []int{}
		} else {
			c.Sizes = gen.ChunkSizes(t, false)
		}
	case shape == 1: // single chunk
		max := rapid.SampledFrom([]int{1, 2, 8, 64, 300}).Draw(t, "max")
		n := rapid.IntRange(1, max).Draw(t, "len")
		kind := rapid.SampledFrom([]string{"rand", "rand", "zero"}).Draw(t, "kind")
		if kind == "zero" && rapid.Bool().Draw(t, "null") {
			n = max
		}
		c.Sizes = gen.Sizes{Min: 1, Avg: uint64((max + 1) / 2), Max: uint64(max)}
		c.Pieces = []gen.Piece{{Kind: kind, Len: n, Seed: rapid.Uint64().Draw(t, "seed")}}
		c.Tiling = []int{n}
	case shape <= 9: // chunk list with tiny chunks
		max := rapid.SampledFrom([]int{1, 2, 3, 5, 8, 8, 16, 64}).Draw(t, "max")
		c.Sizes = gen.Sizes{Min: 1, Avg: uint64((max + 1) / 2), Max: uint64(max)}
		c.Pieces, c.Tiling = genChunkList(t, max, hx.Pick(40, 120))
	case shape <= 12: // arbitrary tiling of a piece blob
		max := rapid.SampledFrom([]int{1, 2, 4, 8, 8, 16}).Draw(t, "max")
		c.Sizes = gen.Sizes{Min: 1, Avg: uint64((max + 1) / 2), Max: uint64(max)}
		c.Pieces = gen.Pieces(t, max*hx.Pick(40, 150), 1, max)
		total := len(gen.Expand(c.Pieces))
		c.Tiling = gen.Tiling(t, total, max)
		if c.Tiling == nil {
			c.Tiling = []int{}
		}
	default: // content-defined chunking
		c.Sizes = gen.ChunkSizes(t, false)
		max := int(c.Sizes.Max)
		maxLen := max * rapid.IntRange(1, hx.Pick(12, 40)).Draw(t, "mult")
		if lim := hx.Pick(200_000, 1_500_000); maxLen > lim {
			maxLen = lim
		}
		if rapid.Bool().Draw(t, "sandwich") { // random data around runs of zeros long enough for null chunks
			left := maxLen
			for i := 0; i < 3 && left > 0; i++ {
				a := gen.Around(t, "rlen", min(left, 2*max), int(c.Sizes.Min), max)
				c.Pieces = append(c.Pieces, gen.Piece{Kind: "rand", Len: a, Seed: rapid.Uint64().Draw(t, "seed")})
				left -= a
				z := max*rapid.IntRange(1, 5).Draw(t, "zk") + rapid.IntRange(-2, 2).Draw(t, "zd")
				if z > left {
					z = left
				}
				if z > 0 {
					c.Pieces = append(c.Pieces, gen.Piece{Kind: "zero", Len: z})
					left -= z
				}
			}
		} else {
			c.Pieces = gen.Pieces(t, maxLen, int(c.Sizes.Min), max)
		}
	}
	if n := len(build(c).spans); n > 0 && rapid.IntRange(0, 9).Draw(t, "twin?") == 0 {
		// an entry that repeats another entry's ID with another size, smaller or larger, anywhere
		l0 := build(c)
		of := rapid.IntRange(0, n-1).Draw(t, "twinof")
		at := of + 1
		switch rapid.IntRange(0, 3).Draw(t, "twinat") {
		case 0:
			at = of
		case 1:
			at = rapid.IntRange(0, n).Draw(t, "twinpos")
		}
		real, mx := int(l0.spans[of].Len), int(l0.sizes.Max)
		size := 0
		if real < mx && (real == 1 || rapid.Bool().Draw(t, "twinbig")) {
			size = rapid.IntRange(real+1, mx).Draw(t, "twinsize")
		} else if real > 1 {
			size = rapid.IntRange(1, real-1).Draw(t, "twinsize")
		}
		if size > 0 {
			c.Twin = &Twin{At: at, Of: of, Size: size}
		}
	}
	c.Verify = rapid.IntRange(0, 4).Draw(t, "verify") == 0
	l := build(c)

	// rapid's slice lengths lean towards the minimum: draw the minimum so that long histories are common
	minOps := rapid.SampledFrom([]int{1, 4, 10, 20, 30}).Draw(t, "minops")
	for _, b := range rapid.SliceOfN(rapid.Custom(func(t *rapid.T) []Op { return genOpBlock(t, &l) }), minOps, hx.Pick(40, 80)).Draw(t, "ops") {
		c.Ops = append(c.Ops, b...)
	}

	c.FaultErr = rapid.SampledFrom([]int{0, 0, 1, 2, 3, 4, 5}).Draw(t, "faulterr")
	c.Handles = rapid.IntRange(1, 3).Draw(t, "handles")
	c.Goroutines = rapid.IntRange(1, 4).Draw(t, "goroutines")
	for _, b := range rapid.SliceOfN(rapid.Custom(func(t *rapid.T) []FuseRead { return genFuseBlock(t, &c, &l) }),
		rapid.SampledFrom([]int{0, 2, 8, 16}).Draw(t, "minfuse"), hx.Pick(24, 60)).Draw(t, "fuse") {
		c.Fuse = append(c.Fuse, b...)
	}
	if rapid.IntRange(0, 2).Draw(t, "fusefaults") == 0 {
		c.FuseFail = rapid.SliceOfNDistinct(rapid.IntRange(1, 10), 1, 3, rapid.ID[int]).Draw(t, "fusefail")
	}

	if hx.Thorough() && rapid.Bool().Draw(t, "withcat") { // process spawns dominate the cost: half of the cases
		c.Cat = rapid.SliceOfN(rapid.Custom(func(t *rapid.T) CatOp {
			// whole blob / --offset only / --length only / both
			mode := rapid.IntRange(0, 3).Draw(t, "catmode")
			var off int64
			ln := 0
			if mode == 1 || mode == 3 {
				off = genTarget(t, &l, "co")
				if off < 0 {
					off = 1
				}
				if off > l.length+2 {
					off = l.length + 2
				}
			}
			if mode >= 2 {
				switch rapid.IntRange(0, 2).Draw(t, "cl") {
				case 0:
					ln = int(l.length-off) + rapid.IntRange(-1, 1).Draw(t, "cld")
				default:
					ln = genReadLen(t, &l, "cln")
				}
				ln = max(ln, 1)
			}
			drop := -1
			if n := len(l.spans); n > 0 && rapid.Bool().Draw(t, "dropq") { // a chunk file removed: first / last / in the middle
				drop = rapid.SampledFrom([]int{0, n - 1, n / 2, rapid.IntRange(0, n-1).Draw(t, "drop")}).Draw(t, "dropwhere")
			}
			return CatOp{Off: int(off), Len: ln, Drop: drop}
		}), 0, 3).Draw(t, "cat")
	}
	return c
}

// ---------------------------------------------------------------- spec and tests

var spec = &hx.Spec[Case]{
	ID:    "C09",
	Level: "exploration",
	Rule: "cases = (blob: empty / single chunk / chunk lists with null-chunk runs, short zero chunks, 1-byte chunks and repeated IDs / arbitrary 1..max tilings / content-defined chunking of pieces with zero runs; " +
		"history of Seek(any whence, targets 0, ±1, chunk boundaries ±1, Length, Length±1, negative, far beyond), Read(0..3·max), FailNext(k) on desync.NewIndexReadSeeker over a fault-injecting store; " +
		"FUSE section: NewIndexMountFS attached in-process (fs.NewNodeFS, no kernel mount), h handles, reads (off,size) issued from g goroutines, GetChunk faults at generated call numbers; " +
		"store damage: Damage(entry v, kind) puts data of another LENGTH under v's ID into the (by default unverified) store, Heal(v) restores it, in the reader history and as barriers between FUSE request groups, with scenarios read-in-v refused -> read again in v -> heal -> read; " +
		"one case in ten has an index entry that repeats another entry's ID with a different size (unreadable range); " +
		"copy ops drain the rest of the blob from the current position through io.Copy (WriteTo when the reader has one), io.Copy over plain Read, io.CopyBuffer, io.CopyN or WriteTo directly, with store failures / damaged chunks during the copy; " +
		"`desync cat` (needs $VERIF_DESYNC_BIN): a directed set in both tiers - whole blob, --offset only, --length only, both x chunk file removed at the first / a middle / the last chunk or not at all - and generated invocations in the thorough tier); " +
		"non-trivial = the history has a correct read spanning >= 2 chunks after a backwards seek, or a read crossing a null-chunk boundary, or a successful read after a delivered store fault, or a read of an entry the reader/handle refused before (still damaged or healed); distinct by case content hash",
	Assumptions: []string{
		"oracle: the blob bytes and a cursor; chunk IDs computed with crypto/sha512 directly; content-defined cuts by the reference chunker",
		"the FUSE file is driven in-process: even handles through the node API (Open/Read/Getattr of the inode's operations), odd handles through go-fuse's rawBridge (LOOKUP/OPEN/READ/RELEASE) returned by fs.NewNodeFS; the kernel FUSE path is not exercised",
		"a FUSE read at an offset beyond the file size is outside the domain (the kernel never sends it): OK-with-no-data or an error are both accepted",
		"a Seek beyond the end may either be refused (position unchanged) or accepted (later reads give 0 bytes and io.EOF)",
		"store faults are attributed to FUSE reads by the goroutine that called GetChunk (the node is called synchronously)",
		"cat with -l reaching beyond the end: stdout must be the exact remaining bytes, either exit status accepted",
		"a copy that ends with a nil error (io.EOF for io.CopyN beyond the end) must have delivered every byte up to the end; with a store failure during the call an error is required unless the copy is complete; the cursor must be at the end of what was delivered",
		"damage always changes the chunk's length (same-length damage in an unverified store is undetectable); a damaged chunk that the reader still has cached from before may be served; what counts is whether the store handed out damaged data during the call",
		"an index entry whose size differs from the chunk stored under its ID has no right content: every read of its range must fail (after a correct prefix); a larger-than-real such entry is generated only as the last entry",
	},
	Required: []string{
		"blob:empty", "blob:single-chunk", "blob:null-run", "blob:repeated-id", "blob:one-byte-chunk", "blob:tiled", "blob:content-defined",
		"seek:refused", "seek:backward", "seek:to-end", "read:spans-chunks-after-backseek", "read:crosses-null", "read:at-eof", "read:to-eof",
		"fault:delivered", "read:after-fault",
		"op:copy", "op:copy:complete", "op:copy:fault-delivered", "op:copy:fault-after-prefix",
		"cat:whole", "cat:offset-only", "cat:length-only", "cat:offset+length", "cat:whole:fault-first", "cat:whole:fault-midway", "cat:whole:fault-last", "cat:offset-only:fault-midway",
		"damage:wrong-length", "damage:delivered", "reread-after-refusal", "reread-after-heal", "fuse:damage-delivered", "fuse:reread-after-refusal", "fuse:reread-after-heal",
		"index:same-id-other-size", "read:mis-sized-entry",
		"fuse:concurrent", "fuse:shared-handle", "fuse:via-bridge", "fuse:fault-delivered", "fuse:straddles-eof", "fuse:at-eof",
	},
	Gen:      genCase,
	Run:      run,
	Journal:  true,
	Watchdog: 60 * time.Second,
}

func TestMain(m *testing.M) { hx.Main(m) }

func TestRegress(t *testing.T) { hx.Regress(t, spec) }
func TestKnown(t *testing.T)   { hx.Known(t, spec) }
func TestReplay(t *testing.T)  { hx.Replay(t, spec) }

// enumBlobs are the small layouts of the exhaustive part (tile lengths; 0-seed = zero piece).
func enumBlobs() []Case {
	mk := func(max int, desc ...[2]int) Case { // desc: {len, seed}; seed 0 = zeros
		c := Case{Sizes: gen.Sizes{Min: 1, Avg: uint64((max + 1) / 2), Max: uint64(max)}, Tiling: []int{}, Handles: 1, Goroutines: 1}
		for _, d := range desc {
			p := gen.Piece{Kind: "rand", Len: d[0], Seed: uint64(d[1])}
			if d[1] == 0 {
				p = gen.Piece{Kind: "zero", Len: d[0]}
			}
			c.Pieces = append(c.Pieces, p)
			c.Tiling = append(c.Tiling, d[0])
		}
		return c
	}
	all := []Case{
		mk(2, [2]int{1, 7}, [2]int{2, 0}, [2]int{2, 0}, [2]int{2, 9}, [2]int{1, 7}, [2]int{1, 0}), // null run, repeated 1-byte chunk, short zero chunk
		mk(3, [2]int{3, 5}),                                           // single chunk
		mk(3, [2]int{3, 0}, [2]int{3, 0}),                             // only null chunks
		mk(1, [2]int{1, 3}, [2]int{1, 0}, [2]int{1, 3}, [2]int{1, 4}), // all 1-byte chunks, null chunk of one byte
		mk(4, [2]int{2, 11}, [2]int{4, 12}, [2]int{4, 12}, [2]int{1, 13}),
		mk(2), // empty
	}
	return hx.Pick(append(all[:4:4], all[5]), all) // the empty layout last: it is a suspected defect
}

// catBlobs are the layouts of the directed `desync cat` set: tiny chunks, and content-defined chunks
// large enough that a copy needs several buffers.
func catBlobs() []Case {
	small := Case{Sizes: gen.Sizes{Min: 1, Avg: 4, Max: 8}, Handles: 1, Goroutines: 1}
	for i := 0; i < 7; i++ {
		n := 3 + i%4
		small.Pieces = append(small.Pieces, gen.Piece{Kind: "rand", Len: n, Seed: uint64(40 + i)})
		small.Tiling = append(small.Tiling, n)
	}
	big := Case{Sizes: gen.Sizes{Min: 2048, Avg: 4096, Max: 8192}, Handles: 1, Goroutines: 1,
		Pieces: []gen.Piece{{Kind: "rand", Len: 90_000, Seed: 77}, {Kind: "zero", Len: 20_000}, {Kind: "rand", Len: 30_000, Seed: 78}}}
	return []Case{small, big}
}

// enumHistories: every (start position, seek target incl. -1 and Length+1, whence, read length)
// combination and every FUSE (offset, size) request on one layout.
func enumHistories(t *testing.T, base Case) (n int, ok bool) {
	L := build(base).length
	for p0 := int64(0); p0 <= L; p0++ {
		for p1 := int64(-1); p1 <= L+1; p1++ {
			c := base
			c.Ops = nil
			for rl := 0; rl <= int(L)+1; rl++ {
				// from p0 (after touching the chunk there) go to p1 and read rl bytes; then come back
				c.Ops = append(c.Ops,
					Op{Op: "seek", Off: p0, Whence: 0, Abs: true}, Op{Op: "read", Len: 1},
					Op{Op: "seek", Off: p1, Whence: rl % 3, Abs: true}, Op{Op: "read", Len: rl})
			}
			c.Fuse = nil
			for sz := 0; sz <= int(L)+1; sz++ {
				if p1 >= 0 {
					c.Fuse = append(c.Fuse, FuseRead{Off: p0, Size: 1}, FuseRead{Off: p1, Size: sz})
				}
			}
			n++
			if !hx.Case(t, spec, c) {
				return n, false
			}
		}
	}
	return n, true
}

// enumDamage: for every fetched entry v, damage kind and pair of positions (p, p2) inside v:
// damage, read at p (refused), read again, read at p2, run into v from the byte before it, heal,
// read at p - for the reader and for one FUSE handle; once more with a verifying store.
func enumDamage(t *testing.T, base Case) (n int, ok bool) {
	l := build(base)
	for v, s := range l.spans {
		if l.null[v] || l.bad[v] {
			continue
		}
		for ki, kind := range []string{"short", "long", "one", "empty"} {
			for p := int64(s.Start); p < int64(s.Start+s.Len); p++ {
				for p2 := int64(s.Start); p2 < int64(s.Start+s.Len); p2++ {
					c := base
					c.Verify = ki == 0 && p2 == p
					big := int(l.length) + 1
					c.Ops = []Op{{Op: "damage", V: v, Kind: kind},
						{Op: "seek", Off: p, Abs: true}, {Op: "read", Len: 1 + int(p2-int64(s.Start))}, {Op: "read", Len: 1}, {Op: "read", Len: big},
						{Op: "seek", Off: p2, Abs: true, Whence: 1}, {Op: "read", Len: 1}, {Op: "read", Len: 2},
						{Op: "seek", Off: max(int64(s.Start)-1, 0), Abs: true, Whence: 2}, {Op: "read", Len: 3}, {Op: "read", Len: 1},
						{Op: "heal", V: v}, {Op: "read", Len: 1}, {Op: "seek", Off: p, Abs: true}, {Op: "read", Len: big}}
					c.Fuse = []FuseRead{{Op: "damage", V: v, Kind: kind},
						{Off: p, Size: 1 + int(p2-int64(s.Start))}, {Off: p, Size: 1 + int(p2-int64(s.Start))}, {Off: p2, Size: 1}, {Off: p2 + 1, Size: 1},
						{Off: max(int64(s.Start)-1, 0), Size: big}, {Off: p2, Size: 2},
						{Op: "heal", V: v}, {Off: p2, Size: 1}, {Off: p, Size: big}}
					n++
					if !hx.Case(t, spec, c) {
						return n, false
					}
				}
			}
		}
	}
	return n, true
}

// TestEnum: the exhaustive parts (shard 0).
func TestEnum(t *testing.T) {
	if hx.Shard() != 0 {
		t.Skip()
	}
	n := 0
	for _, base := range enumBlobs() {
		k, ok := enumHistories(t, base)
		n += k
		if !ok {
			return
		}
	}
	hx.Note("enum_cases", n)
	hx.Exhaustive(fmt.Sprintf("%d small layouts: every (position, seek target in -1..Length+1, whence, read length 0..Length+1) and every FUSE (offset, size)", len(enumBlobs())))

	n = 0
	for _, base := range enumBlobs() {
		k, ok := enumDamage(t, base)
		n += k
		if !ok {
			return
		}
	}
	hx.Note("enum_damage_cases", n)
	hx.Exhaustive("small layouts: every (fetched entry, wrong-length kind, refused position, re-read position) with heal, reader and FUSE handle")

	// an entry that repeats an ID with another size, next to its original or anywhere (thorough)
	n = 0
	for _, base := range enumBlobs()[:1] {
		l := build(base)
		for of := range l.spans {
			for at := 0; at <= len(l.spans); at++ {
				if !hx.Thorough() && at != of && at != of+1 {
					continue
				}
				for size := 1; size <= int(l.sizes.Max); size++ {
					if size == int(l.spans[of].Len) {
						continue
					}
					c := base
					c.Twin = &Twin{At: at, Of: of, Size: size}
					k, ok := enumHistories(t, c)
					n += k
					if !ok {
						return
					}
				}
			}
		}
	}
	hx.Note("enum_twin_cases", n)

	// copies: every start position x way of copying x position of a store failure among the chunk requests
	n = 0
	for _, base := range enumBlobs() {
		l := build(base)
		for p0 := int64(0); p0 <= l.length; p0++ {
			for _, via := range []string{"copy", "writerto", "read", "buffer", "copyn"} {
				for k := 0; k <= len(l.spans); k++ {
					c := base
					c.FaultErr = k % 6
					c.Ops = []Op{{Op: "seek", Off: p0, Abs: true}}
					if k > 0 {
						c.Ops = append(c.Ops, Op{Op: "fail", K: k})
					}
					cp := Op{Op: "copy", Via: via, Len: 1 + k%3}
					if via == "copyn" {
						cp.Len = int(l.length-p0) + 1 - k%3
					}
					c.Ops = append(c.Ops, cp, Op{Op: "read", Len: 2}, Op{Op: "copy", Via: via, Len: int(l.length) + 1}, Op{Op: "read", Len: 1},
						Op{Op: "seek", Off: p0, Abs: true}, Op{Op: "copy", Via: via, Len: int(l.length) + 1})
					n++
					if !hx.Case(t, spec, c) {
						return
					}
				}
			}
		}
	}
	hx.Note("enum_copy_cases", n)
	hx.Exhaustive("small layouts: every (start position, io.Copy / WriteTo / Read-only copy / CopyBuffer / CopyN, store failure at the k-th chunk request or none), then continue and copy again")

	// `desync cat`: whole blob, --offset only, --length only, both x no fault / chunk file removed at the
	// first, a middle, the last chunk of the blob
	if os.Getenv("VERIF_DESYNC_BIN") == "" {
		hx.Note("cat_directed", "skipped: no VERIF_DESYNC_BIN")
		return
	}
	n = 0
	for bi, base := range catBlobs() {
		l := build(base)
		nch := len(l.spans)
		mid := int64(l.spans[nch/2].Start)
		for _, drop := range []int{-1, 0, nch / 2, nch - 1} {
			c := base
			c.Cat = []CatOp{
				{Drop: drop},                                                                                // whole
				{Off: 1, Drop: drop}, {Off: int(mid) + 1, Drop: drop}, {Off: int(l.length) - 1, Drop: drop}, // --offset only
				{Len: int(l.length), Drop: drop}, {Len: int(mid) + 2, Drop: drop}, {Len: 1, Drop: drop}, // --length only
				{Off: 1, Len: int(l.length) - 2, Drop: drop}, {Off: int(mid) - 1, Len: 3, Drop: drop}, // both
			}
			if bi > 0 { // the larger layout: the whole blob and one of each only
				c.Cat = []CatOp{c.Cat[0], c.Cat[2], c.Cat[5], c.Cat[7]}
			}
			n += len(c.Cat)
			if !hx.Case(t, spec, c) {
				return
			}
		}
	}
	hx.Note("cat_directed", n)
	hx.Exhaustive("one small layout: every same-ID entry with another size (adjacent to its original; larger only at the end) x every history of the first enumeration")
}

func TestProp(t *testing.T) { hx.Prop(t, spec) }
