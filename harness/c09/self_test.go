package c09

import (
	"bytes"
	"errors"
	"fmt"
	"io"
	"syscall"
	"testing"

	"verifharness/internal/dx"
	"verifharness/internal/gen"
	"verifharness/internal/hx"
)

// Oracle self-tests: the history checker must be silent on a known-good io.ReadSeeker
// (bytes.Reader, optionally made to read short) and must name the right clause for readers
// with a seeded fault; the same for the FUSE verdict function.

type noFaults struct{ n, pending int }

func (f *noFaults) delivered() int               { return f.n }
func (f *noFaults) failNext(k int)               { f.pending = k }
func (f *noFaults) damage(id [32]byte, b []byte) {}
func (f *noFaults) heal(id [32]byte, b []byte)   {}
func (f *noFaults) refused() [][32]byte          { return nil }

// goodReader: bytes.Reader with short reads and injected failures (error, position kept).
type goodReader struct {
	r     *bytes.Reader
	f     *noFaults
	short bool
}

func (g *goodReader) Seek(off int64, wh int) (int64, error) { return g.r.Seek(off, wh) }
func (g *goodReader) Read(p []byte) (int, error) {
	if g.f.pending > 0 && len(p) > 0 && g.r.Len() > 0 {
		g.f.pending--
		if g.f.pending == 0 {
			g.f.n++
			n, _ := g.r.Read(p[:len(p)/2])
			return n, errors.New("store failed")
		}
	}
	if g.short && len(p) > 1 {
		p = p[:len(p)/2+1]
	}
	return g.r.Read(p)
}

type badReader struct {
	goodReader
	mode string
	pos  int64
}

func (b *badReader) Seek(off int64, wh int) (int64, error) {
	n, err := b.r.Seek(off, wh)
	switch b.mode {
	case "seek-offset":
		if err == nil && n > 0 {
			return n - 1, nil
		}
	case "seek-moves-on-error":
		if err != nil {
			b.r.Seek(0, io.SeekStart)
		}
	case "seek-negative":
		if err != nil {
			return 0, nil
		}
	}
	return n, err
}

func (b *badReader) Read(p []byte) (int, error) {
	switch b.mode {
	case "flip":
		n, err := b.r.Read(p)
		if n > 2 {
			p[n-1] ^= 0x40
		}
		return n, err
	case "zero-read":
		if len(p) > 3 {
			return 0, nil
		}
	case "early-eof":
		if len(p) > 3 && b.r.Len() > len(p) {
			n, _ := b.r.Read(p[:2])
			return n, io.EOF
		}
	case "spurious":
		if len(p) > 3 {
			return 0, errors.New("no reason")
		}
	case "swallow":
		if b.f.pending > 0 && len(p) > 1 && b.r.Len() > 1 {
			b.f.pending = 0
			b.f.n++
			return b.r.Read(p[:1])
		}
	case "past-end":
		n, err := b.r.Read(p)
		if err == io.EOF && len(p) > 0 {
			return 1, nil
		}
		return n, err
	}
	return b.r.Read(p)
}

// refReader is a small correct chunk-wise reader over a store (one cached chunk, size check
// against the index); with keepRefused it keeps a chunk it has just refused as its current
// chunk - the defect the damage histories are there to find.
type refReader struct {
	l           *layout
	s           *dx.MemStore
	pos         int64
	cur         int
	data        []byte
	keepRefused bool
}

func (r *refReader) Seek(off int64, wh int) (int64, error) {
	switch wh {
	case io.SeekCurrent:
		off += r.pos
	case io.SeekEnd:
		off += r.l.length
	}
	if off < 0 || off > r.l.length {
		return r.pos, errors.New("out of range")
	}
	r.pos = off
	return off, nil
}

func (r *refReader) Read(p []byte) (n int, err error) {
	if r.pos >= r.l.length {
		return 0, io.EOF
	}
	for n < len(p) && r.pos < r.l.length {
		c := r.l.chunkAt(r.pos)
		if r.data == nil || r.cur != c {
			r.data = nil
			ch, err := r.s.GetChunk(r.l.ids[c])
			if err != nil {
				return n, err
			}
			b, err := ch.Data()
			if err != nil {
				return n, err
			}
			if uint64(len(b)) != r.l.spans[c].Len {
				if r.keepRefused && len(b) > 0 {
					r.cur, r.data = c, b
				}
				return n, errors.New("unexpected chunk size")
			}
			r.cur, r.data = c, b
		}
		o := int(r.pos - int64(r.l.spans[c].Start))
		if o >= len(r.data) {
			return n, errors.New("short chunk")
		}
		k := copy(p[n:], r.data[o:])
		n += k
		r.pos += int64(k)
	}
	return n, nil
}

// wtReader adds an io.WriterTo to refReader; with swallow it ends the copy with a nil error
// when the store fails (the defect the copy ops are there to find).
type wtReader struct {
	*refReader
	swallow bool
}

func (r *wtReader) WriteTo(w io.Writer) (n int64, err error) {
	buf := make([]byte, 5)
	for {
		k, rerr := r.Read(buf)
		m, _ := w.Write(buf[:k])
		n += int64(m)
		if rerr == io.EOF {
			return n, nil
		}
		if rerr != nil {
			if r.swallow {
				return n, nil
			}
			return n, rerr
		}
	}
}

func selfFail(t *testing.T, format string, a ...any) {
	fmt.Println("SELFTEST-FAILURE: " + fmt.Sprintf(format, a...))
	t.Fatalf(format, a...)
}

func selfHistory(l *layout) []Op {
	L := l.length
	ops := []Op{{Op: "read", Len: 5}, {Op: "seek", Off: -3, Abs: true, Whence: 2}, {Op: "read", Len: 2},
		{Op: "seek", Off: L + 3, Whence: 0, Abs: true}, {Op: "read", Len: 4},
		{Op: "seek", Off: -1, Whence: 1}, {Op: "seek", Off: -3, Abs: true, Whence: 2}, {Op: "read", Len: 2},
		{Op: "seek", Off: 2, Abs: true, Whence: 1}, {Op: "fail", K: 1}, {Op: "read", Len: 9}, {Op: "read", Len: 9},
		{Op: "seek", Off: 0, Whence: 2}, {Op: "read", Len: 4}, {Op: "read", Len: 0},
		{Op: "seek", Off: -2, Whence: 2}, {Op: "read", Len: 7}, {Op: "seek", Off: 1, Abs: true, Whence: 0}, {Op: "read", Len: int(L) + 2}, {Op: "read", Len: 1}}
	return ops
}

func TestSelf(t *testing.T) {
	base := enumBlobs()[0]
	base.Pieces = append(base.Pieces, gen.Piece{Kind: "rand", Len: 30, Seed: 99})
	base.Tiling = append(base.Tiling, 2, 2, 2, 2, 2, 2, 2, 2, 2, 2, 2, 2, 2, 2, 2)
	l := build(base)
	ops := selfHistory(&l)

	for _, short := range []bool{false, true} {
		var o hx.Outcome
		f := &noFaults{}
		checkReadSeeker(newFailer(&o), &goodReader{r: bytes.NewReader(l.blob), f: f, short: short}, &l, ops, f)
		if len(o.Violations) > 0 {
			selfFail(t, "history checker flags a correct reader (short=%v): %+v", short, o.Violations)
		}
		if f.n != 1 {
			selfFail(t, "self-test history did not deliver its fault")
		}
	}
	for mode, want := range map[string]string{
		"flip": "C09:readseeker:wrong-bytes", "zero-read": "C09:readseeker:zero-read", "early-eof": "C09:readseeker:early-eof",
		"spurious": "C09:readseeker:spurious-error", "swallow": "C09:readseeker:store-error-swallowed", "past-end": "C09:readseeker:read-past-end",
		"seek-offset": "C09:readseeker:seek-wrong-offset", "seek-moves-on-error": "C09:readseeker:wrong-bytes", "seek-negative": "C09:readseeker:seek-negative-accepted",
	} {
		var o hx.Outcome
		f := &noFaults{}
		checkReadSeeker(newFailer(&o), &badReader{goodReader: goodReader{r: bytes.NewReader(l.blob), f: f}, mode: mode}, &l, ops, f)
		hit := false
		for _, v := range o.Violations {
			if v.Sig == want {
				hit = true
			}
		}
		if !hit {
			selfFail(t, "history checker misses seeded fault %q (want %s): %+v", mode, want, o.Violations)
		}
	}

	// store damage of the wrong-length kind: silent on a reader that refuses every time, the clause
	// named on one that keeps the refused chunk; an index entry with another size than its chunk
	dmgOps := func(v int, kind string) []Op {
		sp := l.spans[v]
		return []Op{{Op: "seek", Off: int64(sp.Start), Abs: true}, {Op: "read", Len: 1}, {Op: "seek", Off: 0, Abs: true}, {Op: "read", Len: 1},
			{Op: "damage", V: v, Kind: kind}, {Op: "seek", Off: int64(sp.Start), Abs: true}, {Op: "read", Len: 1}, {Op: "read", Len: 1},
			{Op: "seek", Off: int64(sp.Start+sp.Len) - 1, Abs: true}, {Op: "read", Len: 4},
			{Op: "heal", V: v}, {Op: "seek", Off: int64(sp.Start), Abs: true}, {Op: "read", Len: 5}}
	}
	for _, keep := range []bool{false, true} {
		hits := 0
		for _, kind := range []string{"short", "long", "one", "empty"} {
			for _, v := range []int{3, 7, 9} {
				var o hx.Outcome
				store := dx.NewMemStore("self")
				store.SkipVerify = true
				fillStore(store, &l)
				fl := newFailer(&o)
				checkReadSeeker(fl, &refReader{l: &l, s: store, keepRefused: keep}, &l, dmgOps(v, kind), newMemFaults(store))
				if !keep && (len(o.Violations) > 0 || !fl.cls["reread-after-refusal"] || !fl.cls["reread-after-heal"]) {
					selfFail(t, "damage history (entry %d, %s) on a correct reader: violations %+v classes %v", v, kind, o.Violations, fl.cls)
				}
				for _, x := range o.Violations {
					if x.Sig == "C09:readseeker:refused-chunk-served" {
						hits++
					}
				}
			}
		}
		if keep && hits < 6 {
			selfFail(t, "a reader that keeps the refused chunk is named only %d times of 12", hits)
		}
	}
	{
		tc := base
		tc.Twin = &Twin{At: 4, Of: 3, Size: 1}
		tl := build(tc)
		if !tl.bad[4] || tl.ids[4] != tl.ids[3] || tl.length != l.length+1 || tl.readable(0, tl.length) != int64(tl.spans[4].Start) {
			selfFail(t, "twin layout wrong: %+v", tl.spans)
		}
		store := dx.NewMemStore("self")
		store.SkipVerify = true
		fillStore(store, &tl)
		var o hx.Outcome
		ops := []Op{{Op: "read", Len: int(tl.length)}, {Op: "read", Len: 1}, {Op: "seek", Off: int64(tl.spans[5].Start), Abs: true}, {Op: "read", Len: 3}}
		checkReadSeeker(newFailer(&o), &refReader{l: &tl, s: store}, &tl, ops, newMemFaults(store))
		if len(o.Violations) > 0 {
			selfFail(t, "twin history on a refusing reader: %+v", o.Violations)
		}
		o = hx.Outcome{}
		checkReadSeeker(newFailer(&o), bytes.NewReader(tl.blob), &tl, ops, &noFaults{})
		if len(o.Violations) != 1 || o.Violations[0].Sig != "C09:readseeker:mis-sized-entry-accepted" {
			selfFail(t, "twin history on a reader that serves the range: %+v", o.Violations)
		}
	}

	// copies: silent on a correct reader with and without WriteTo for every way of copying and every
	// position of a store failure; a WriteTo that swallows the failure is named
	for _, via := range []string{"copy", "writerto", "read", "buffer", "copyn"} {
		for k := 0; k <= 6; k++ {
			for _, mode := range []string{"plain", "writerto", "swallow"} {
				ops := []Op{{Op: "seek", Off: 3, Abs: true}}
				if k > 0 {
					ops = append(ops, Op{Op: "fail", K: k})
				}
				ops = append(ops, Op{Op: "copy", Via: via, Len: int(l.length)}, Op{Op: "read", Len: 2}, Op{Op: "copy", Via: via, Len: 4}, Op{Op: "read", Len: 1})
				var o hx.Outcome
				store := dx.NewMemStore("self")
				fillStore(store, &l)
				fl := newFailer(&o)
				var rs io.ReadSeeker = &refReader{l: &l, s: store}
				if mode != "plain" {
					rs = &wtReader{refReader: &refReader{l: &l, s: store}, swallow: mode == "swallow"}
				}
				checkReadSeeker(fl, rs, &l, ops, newMemFaults(store))
				hit := false
				for _, x := range o.Violations {
					if x.Sig == "C09:readseeker:copy-store-error-swallowed" {
						hit = true
					}
				}
				wantHit := mode == "swallow" && k > 0 && (via == "copy" || via == "writerto")
				if hit != wantHit || (!wantHit && len(o.Violations) > 0) || !fl.cls["op:copy"] || (k > 0 && !fl.cls["op:copy:fault-delivered"]) {
					selfFail(t, "copy via %s, failure at request %d, reader %s: violations %+v classes %v", via, k, mode, o.Violations, fl.cls)
				}
			}
		}
	}

	// FUSE verdicts
	L := l.length
	type fc struct {
		off         int64
		size        int
		errno       syscall.Errno
		data        []byte
		fault, loos bool
		want        string
	}
	flipped := append([]byte(nil), l.blob[3:9]...)
	flipped[4] ^= 1
	for i, c := range []fc{
		{3, 6, 0, l.blob[3:9], false, false, ""},
		{3, 6, 0, l.blob[3:8], false, false, "C09:fuse:short-read"},
		{3, 6, 0, l.blob[3:10], false, false, "C09:fuse:long-read"},
		{3, 6, 0, flipped, false, false, "C09:fuse:wrong-bytes"},
		{3, 6, syscall.EIO, nil, false, false, "C09:fuse:spurious-error"},
		{3, 6, syscall.EIO, nil, true, false, ""},
		{3, 6, syscall.EIO, nil, false, true, ""},
		{3, 6, 0, l.blob[3:5], true, false, "C09:fuse:store-error-as-short-read"},
		{L - 2, 6, 0, l.blob[L-2:], false, false, ""},
		{L - 2, 6, 0, l.blob[L-2 : L-1], false, false, "C09:fuse:short-read"},
		{L, 6, 0, nil, false, false, ""},
		{L, 6, syscall.EIO, nil, false, false, "C09:fuse:spurious-error"},
		{L + 1, 6, syscall.EIO, nil, false, false, ""},
		{L + 1, 6, 0, nil, false, false, ""},
		{L + 1, 6, 0, []byte{0}, false, false, "C09:fuse:data-beyond-eof"},
		{0, 0, 0, nil, false, false, ""},
	} {
		if sig, _ := judgeFuse(&l, c.off, c.size, c.errno, c.data, c.fault, c.loos); sig != c.want {
			selfFail(t, "judgeFuse case %d: got %q want %q", i, sig, c.want)
		}
	}

	// goroutine ids are distinct and stable
	a := goid()
	ch := make(chan uint64)
	go func() { ch <- goid() }()
	if b := <-ch; a == 0 || b == 0 || a == b || a != goid() {
		selfFail(t, "goid: %d %d", a, b)
	}
}
