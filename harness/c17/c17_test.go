// C17 — verify-index accepts a file if and only if it matches the index.
package c17

import (
	"bytes"
	"context"
	"errors"
	"fmt"
	"os"
	"os/exec"
	"path/filepath"
	"strings"
	"sync/atomic"
	"testing"
	"time"

	"github.com/folbricht/desync"
	"pgregory.net/rapid"

	"verifharness/internal/dx"
	"verifharness/internal/gen"
	"verifharness/internal/hx"
	"verifharness/internal/ref"
)

// (a layout with chunks around and above 256 KiB and 1 MiB is drawn in 1 case of 40: indexes made with non-default chunk sizes)
type Case struct {
	Pieces   []gen.Piece `json:"pieces"`
	Sizes    gen.Sizes   `json:"sizes"`
	Tiling   []int       `json:"tiling,omitempty"` // arbitrary tiling; nil = content-defined (reference chunker)
	N        int         `json:"n"`
	Mod      string      `json:"mod"` // none flip trunc extend swap overwrite
	A        int         `json:"a"`
	B        int         `json:"b"`
	Bit      int         `json:"bit"`
	CLI      bool        `json:"cli,omitempty"`       // also run `desync verify-index -n N` (needs $VERIF_DESYNC_BIN)
	SHA256   bool        `json:"sha256,omitempty"`    // index made with, and verification configured for, the SHA256 digest
	FileKind string      `json:"file_kind,omitempty"` // "" plain | sparse (zero blocks left as holes) | symlink (the path given is a link to the file) | sparse+symlink
	// Empty: zero-size entries inserted into the index table behind the chunk numbers given (modulo; never in front of the
	// first chunk, whose offset 0 would be the table's tail marker). Their ID is the digest of the empty string, which is
	// what their (empty) range hashes to - unless EmptyWrong, which makes the first of them carry another ID: the file
	// then does NOT match the index although every byte of it is right
	Empty      []int `json:"empty,omitempty"`
	EmptyWrong bool  `json:"empty_wrong,omitempty"`
	Cancel     int   `json:"cancel,omitempty"` // 0: never; -1: context cancelled before the call; k>0: cancelled at the k-th hook hit (feed/batch sites)
}

func batchOf(chunks, n int) int { return chunks / (n * 10) }

func genCase(t *rapid.T) Case {
	var c Case
	c.N = rapid.SampledFrom([]int{1, 1, 2, 3, 4, 5, 7, 8, 16, 33, 64}).Draw(t, "n")
	if rapid.IntRange(0, 3).Draw(t, "tiled") > 0 {
		// arbitrary tiling with tiny chunks: chunk count around multiples of 10n
		k := rapid.IntRange(0, 4).Draw(t, "k")
		nch := k*10*c.N + rapid.IntRange(-2, 12).Draw(t, "dn")
		if rapid.IntRange(0, 5).Draw(t, "anycount") == 0 {
			nch = rapid.IntRange(1, 400).Draw(t, "nch")
		}
		if nch < 1 {
			nch = 1
		}
		if nch > 3000 {
			nch = 3000
		}
		same := rapid.IntRange(0, 3).Draw(t, "samesize") == 0
		sz := rapid.IntRange(1, 8).Draw(t, "csize")
		total := 0
		for i := 0; i < nch; i++ {
			l := sz
			if !same {
				l = rapid.IntRange(1, 8).Draw(t, "cl")
			}
			c.Tiling = append(c.Tiling, l)
			total += l
		}
		kind := rapid.SampledFrom([]string{"rand", "rand", "text", "zero", "period"}).Draw(t, "kind")
		c.Pieces = []gen.Piece{{Kind: kind, Len: total, Seed: rapid.Uint64().Draw(t, "seed"), Period: rapid.IntRange(1, 9).Draw(t, "per")}}
		c.Sizes = gen.Sizes{Min: 1, Avg: 4, Max: 8}
	} else {
		c.Sizes = gen.ChunkSizes(t, false)
		maxLen := int(c.Sizes.Max) * rapid.IntRange(1, 40).Draw(t, "mult")
		if maxLen > 200_000 {
			maxLen = 200_000
		}
		c.Pieces = gen.Pieces(t, maxLen, int(c.Sizes.Min), int(c.Sizes.Max))
	}
	c.Mod = rapid.SampledFrom([]string{"none", "flip", "flip", "flip", "trunc", "extend", "swap", "overwrite"}).Draw(t, "mod")
	c.A = rapid.IntRange(0, 1<<20).Draw(t, "a")
	c.B = rapid.IntRange(0, 1<<20).Draw(t, "b")
	c.Bit = rapid.IntRange(0, 7).Draw(t, "bit")
	c.SHA256 = rapid.IntRange(0, 3).Draw(t, "sha256") == 0
	c.FileKind = rapid.SampledFrom([]string{"", "", "", "", "sparse", "symlink", "sparse+symlink"}).Draw(t, "filekind")
	if rapid.IntRange(0, 9).Draw(t, "nullimage") == 0 {
		// a disk image: data, runs of null chunks several blocks long, data — stored sparsely
		c.Tiling = nil
		c.Sizes = gen.Sizes{Min: 4096, Avg: 8192, Max: 16384}
		c.Pieces = []gen.Piece{{Kind: "rand", Len: rapid.IntRange(1, 40000).Draw(t, "nipre"), Seed: rapid.Uint64().Draw(t, "nis1")},
			{Kind: "zero", Len: 16384*rapid.IntRange(2, 6).Draw(t, "nik") + rapid.IntRange(0, 5000).Draw(t, "nid")},
			{Kind: "rand", Len: rapid.IntRange(1, 40000).Draw(t, "nipost"), Seed: rapid.Uint64().Draw(t, "nis2")}}
		c.FileKind = rapid.SampledFrom([]string{"sparse", "sparse", "sparse+symlink", ""}).Draw(t, "nikind")
		c.Mod = rapid.SampledFrom([]string{"flipnull", "flipnull", "flipnull", "none", "extend", "trunc"}).Draw(t, "nimod")
	}
	if rapid.IntRange(0, 39).Draw(t, "bigchunks") == 0 {
		// chunk sizes above the defaults (make -m 256:1024:4096 and the like): a few chunks around and above 256 KiB and 1 MiB
		c.Tiling = nil
		for i, n := 0, rapid.IntRange(1, 4).Draw(t, "bign"); i < n; i++ {
			c.Tiling = append(c.Tiling, rapid.SampledFrom([]int{262143, 262144, 262145, 262145, 300000, 524288, 524289, 1048576, 1048577, 70000, 5}).Draw(t, "bigl"))
		}
		total := 0
		for _, l := range c.Tiling {
			total += l
		}
		c.Sizes = gen.Sizes{Min: 256 << 10, Avg: 1 << 20, Max: 4 << 20}
		c.Pieces = []gen.Piece{{Kind: rapid.SampledFrom([]string{"rand", "rand", "text", "zero"}).Draw(t, "bigkind"), Len: total, Seed: rapid.Uint64().Draw(t, "bigseed")}}
		if c.Mod == "flipnull" {
			c.Mod = "flip"
		}
	}
	if rapid.IntRange(0, 11).Draw(t, "emptyentries") == 0 {
		for i, k := 0, rapid.IntRange(1, 3).Draw(t, "nempty"); i < k; i++ {
			c.Empty = append(c.Empty, rapid.IntRange(0, 1<<16).Draw(t, "emptyat"))
		}
		if c.EmptyWrong = rapid.Bool().Draw(t, "emptywrong"); c.EmptyWrong {
			c.Mod = "none"
		}
	}
	if rapid.IntRange(0, 3).Draw(t, "cancel?") == 0 {
		c.Cancel = -1
		if rapid.Bool().Draw(t, "cancelmid") {
			c.Cancel = rapid.IntRange(1, 12).Draw(t, "cancelat")
		}
	}
	if os.Getenv("VERIF_DESYNC_BIN") != "" && rapid.IntRange(0, hx.Pick(60, 15)).Draw(t, "cli") == 0 {
		c.CLI = true
		if rapid.IntRange(0, 5).Draw(t, "cliempty") == 0 { // the empty blob and its index without chunks
			c.Pieces, c.Tiling, c.Mod = nil, nil, "none"
			c.Sizes = gen.Sizes{Min: 64, Avg: 256, Max: 1024}
		}
	}
	return c
}

// chunkPick maps the generated integer A to a chunk index, favouring first, last and
// batch-boundary chunks.
func chunkPick(a, chunks, n int) int {
	if chunks == 0 {
		return 0
	}
	step := batchOf(chunks, n) + 1
	switch a % 6 {
	case 0:
		return 0
	case 1:
		return chunks - 1
	case 2: // first chunk of a batch
		nb := (chunks + step - 1) / step
		return ((a / 6) % nb) * step
	case 3: // last chunk of a batch
		nb := (chunks + step - 1) / step
		i := ((a/6)%nb)*step + step - 1
		if i >= chunks {
			i = chunks - 1
		}
		return i
	default:
		return (a / 6) % chunks
	}
}

func run(c Case) (o hx.Outcome) {
	blob := gen.Expand(c.Pieces)
	var spans []ref.Span
	if c.Tiling != nil {
		spans = dx.SpansFromTiling(c.Tiling)
		total := 0
		for _, l := range c.Tiling {
			total += l
		}
		if total != len(blob) { // shrunk case may be inconsistent: make it consistent
			if total < len(blob) {
				blob = blob[:total]
			} else {
				blob = append(blob, make([]byte, total-len(blob))...)
			}
		}
	} else {
		spans = ref.Chunk(blob, c.Sizes.Min, c.Sizes.Avg, c.Sizes.Max, false)
	}
	idx := dx.BuildIndex(blob, spans, c.Sizes, c.SHA256)
	oldDigest := desync.Digest
	if c.SHA256 {
		desync.Digest = desync.SHA256{}
	} else {
		desync.Digest = desync.SHA512256{}
	}
	defer func() { desync.Digest = oldDigest }()
	n := c.N
	if n < 1 {
		n = 1
	}
	file := append([]byte(nil), blob...)
	nch := len(spans)
	ci := chunkPick(c.A, nch, n)
	mod := c.Mod
	pos := -1
	switch mod {
	case "flip":
		if len(file) == 0 {
			mod = "none"
			break
		}
		s := spans[ci]
		switch c.B % 3 {
		case 0:
			pos = int(s.Start)
		case 1:
			pos = int(s.Start + s.Len - 1)
		default:
			pos = int(s.Start) + (c.B/3)%int(s.Len)
		}
		file[pos] ^= 1 << uint(c.Bit)
	case "flipnull":
		// one bit inside a null chunk (all zeros, max size), anywhere in it, mostly beyond its first block
		var nulls []int
		for i, sp := range spans {
			if sp.Len == c.Sizes.Max && allZero(blob[sp.Start:sp.Start+sp.Len]) {
				nulls = append(nulls, i)
			}
		}
		if len(nulls) == 0 {
			mod = "none"
			break
		}
		ci = nulls[c.A%len(nulls)]
		sp := spans[ci]
		off := c.B % int(sp.Len)
		if sp.Len > 4096 && c.B%4 != 0 {
			off = 4096 + (c.B/4)%int(sp.Len-4096)
		}
		pos = int(sp.Start) + off
		file[pos] ^= 1 << uint(c.Bit)
		o.Class("damage-in-null-chunk")
		if off >= 4096 {
			o.Class("damage-in-null-chunk:beyond-first-block")
		}
	case "trunc":
		d := 1 + c.B%16
		if c.B%5 == 0 && nch > 0 {
			d = int(spans[nch-1].Len)
		}
		if d > len(file) {
			d = len(file)
		}
		if d == 0 {
			mod = "none"
			break
		}
		file = file[:len(file)-d]
	case "extend":
		d := 1 + c.B%16
		ext := make([]byte, d)
		if c.B%2 == 0 {
			gen.Fill(ext, uint64(c.B))
		}
		file = append(file, ext...)
	case "swap":
		if nch < 2 {
			mod = "none"
			break
		}
		cj := chunkPick(c.B, nch, n)
		// find a partner of equal size
		found := -1
		for d := 0; d < nch; d++ {
			j := (cj + d) % nch
			if j != ci && spans[j].Len == spans[ci].Len {
				found = j
				break
			}
		}
		if found < 0 {
			mod = "none"
			break
		}
		a, b := spans[ci], spans[found]
		tmp := append([]byte(nil), file[a.Start:a.Start+a.Len]...)
		copy(file[a.Start:a.Start+a.Len], file[b.Start:b.Start+b.Len])
		copy(file[b.Start:b.Start+b.Len], tmp)
	case "overwrite":
		if nch < 2 {
			mod = "none"
			break
		}
		cj := chunkPick(c.B, nch, n)
		a, b := spans[ci], spans[cj]
		l := a.Len
		if b.Len < l {
			l = b.Len
		}
		copy(file[a.Start:a.Start+l], blob[b.Start:b.Start+l])
	}
	same := bytes.Equal(file, blob)
	if len(c.Empty) > 0 && len(idx.Chunks) > 0 {
		emptyID := desync.ChunkID(ref.ID(nil, c.SHA256))
		for k, p := range c.Empty {
			if p < 0 {
				p = -p
			}
			at := 1 + p%len(idx.Chunks)
			start := uint64(len(blob))
			if at < len(idx.Chunks) {
				start = idx.Chunks[at].Start
			}
			e := desync.IndexChunk{ID: emptyID, Start: start, Size: 0}
			if c.EmptyWrong && k == 0 {
				e.ID[c.B%32] ^= 1 << uint(c.Bit)
			}
			idx.Chunks = append(idx.Chunks[:at], append([]desync.IndexChunk{e}, idx.Chunks[at:]...)...)
		}
		o.Class("index:zero-size-entry")
		if c.EmptyWrong {
			o.Class("index:zero-size-entry:wrong-id")
			if same {
				mod = "empty-entry-wrong-id"
			}
			same = false
		} else if same {
			o.Class("index:zero-size-entry:right-id:file-matches")
		}
	}

	dir := hx.Scratch("c17")
	defer os.RemoveAll(dir)
	path := writeKind(dir, file, c.FileKind, &o)
	ctx, cancelCtx := context.WithCancel(context.Background())
	if c.Cancel < 0 {
		cancelCtx()
	} else if c.Cancel > 0 {
		var hits atomic.Int64
		desync.VerifHook = func(site string) {
			if strings.HasPrefix(site, "verifyindex.") && hits.Add(1) == int64(c.Cancel) {
				cancelCtx()
			}
		}
	}
	err := desync.VerifyIndex(ctx, path, idx, n, desync.NullProgressBar{})
	desync.VerifHook = nil
	cancelCtx()
	if c.Cancel > 0 {
		// the hook may never have been hit that often
		o.Class("cancel:mid-run")
	}
	if c.Cancel < 0 {
		o.Class("cancel:before-call")
	}

	if c.CLI && os.Getenv("VERIF_DESYNC_BIN") != "" {
		ipath := filepath.Join(dir, "blob.caibx")
		if f, ferr := os.Create(ipath); ferr == nil {
			idx.WriteTo(f)
			f.Close()
			ctx, cancel := context.WithTimeout(context.Background(), 120*time.Second)
			args := []string{"verify-index", "-n", fmt.Sprint(n), ipath, path}
			if c.SHA256 {
				args = append([]string{"--digest", "sha256"}, args...)
				o.Class("cli-verify-index:sha256")
			}
			cmd := exec.CommandContext(ctx, os.Getenv("VERIF_DESYNC_BIN"), args...)
			cmd.Env = []string{"HOME=" + dir, "TMPDIR=" + dir, "PATH=/usr/bin:/bin"}
			out, cerr := cmd.CombinedOutput()
			timedOut := ctx.Err() != nil
			cancel()
			if !timedOut {
				o.Class("cli-verify-index")
				if nch == 0 {
					o.Class("cli-empty-index")
				}
				msg := string(out)
				if len(msg) > 300 {
					msg = msg[len(msg)-300:]
				}
				if same && cerr != nil {
					o.Fail("C17:cli:reject-matching", "desync verify-index -n %d rejected a file that equals the indexed blob (%d bytes, %d chunks): %v: %s", n, len(blob), nch, cerr, msg)
				}
				if !same && cerr == nil {
					o.Fail("C17:cli:accept-mismatch:"+mod, "desync verify-index -n %d accepted a file that differs from the indexed blob (mod=%s)", n, mod)
				}
			}
		}
	}
	batch := 0
	if nch > 0 {
		batch = batchOf(nch, n)
	}
	step := batch + 1
	boundary := nch > 0 && (ci%step == 0 || ci%step == step-1 || ci == nch-1)
	o.Desc = map[string]any{"blob": len(blob), "chunks": nch, "n": n, "batch": batch, "mod": mod, "chunk": ci, "pos": pos,
		"tiled": c.Tiling != nil, "same": same}
	o.Key = fmt.Sprintf("%d/%d/%d/%s/%d/%d/%v", len(blob), nch, n, mod, ci, pos, same)
	o.Class("mod:" + mod)
	if same {
		o.Class("file==blob")
	} else {
		o.Class("file!=blob")
	}
	if batch >= 1 {
		o.Class("batch>=1")
	}
	if nch == 0 {
		o.Class("empty-index")
	}
	for _, sp := range spans {
		if sp.Len > 256<<10 {
			o.Class("chunk>256KiB")
			break
		}
	}
	if mod != "none" && mod != "trunc" && mod != "extend" && boundary {
		o.Class("damage-at-batch-boundary")
	}
	o.Nontrivial = batch >= 1 && (same || boundary)
	if c.SHA256 {
		o.Class("digest:sha256")
	}
	var intr desync.Interrupted
	if c.Cancel != 0 && errors.As(err, &intr) {
		// a cancelled verification may stop with "interrupted" whatever the file holds; it must
		// never report success for a file that differs (checked below)
		o.Class("cancel:interrupted")
		if !same {
			o.Class("cancel:mismatch-not-accepted")
		}
		return o
	}
	if c.Cancel != 0 && !same && err != nil {
		o.Class("cancel:mismatch-not-accepted")
	}
	if same && err != nil {
		o.Fail("C17:reject-matching", "file equals the indexed blob (%d bytes, %d chunks, n=%d) but VerifyIndex failed: %v", len(blob), nch, n, err)
	}
	if !same && err == nil {
		o.Fail("C17:accept-mismatch:"+mod, "file differs from the indexed blob (mod=%s chunk=%d/%d pos=%d len %d vs %d, n=%d batch=%d) but VerifyIndex returned nil",
			mod, ci, nch, pos, len(file), len(blob), n, batch)
	}
	return o
}

var spec = &hx.Spec[Case]{
	ID:    "C17",
	Level: "exploration",
	Rule: "cases = (blob, index by reference chunker or arbitrary 1..8-byte tiling, n in 1..64, one modification: none/flip one bit/flip a bit inside a null chunk/truncate/extend/swap equal-size chunks/overwrite chunk, or (1 case in 12) 1..3 zero-size entries in the index table carrying the digest of the empty string or, for the first of them, another ID; file stored plain or sparse (holes) and given by its path or through a symlink; digest SHA512-256 or SHA256; context never cancelled, cancelled before the call or at the k-th feed/batch hook hit); " +
		"non-trivial = modified file whose damaged chunk is first/last of a verification batch (or last chunk), or an unmodified file with chunks/(10n) >= 1; distinct by (length, chunks, n, mod, chunk, position)",
	Assumptions: []string{"oracle: VerifyIndex==nil iff file bytes equal the blob (direct comparison)", "chunk IDs computed with crypto/sha512 directly", "files are regular files on the scratch filesystem"},
	Required:    []string{"index:zero-size-entry:wrong-id", "index:zero-size-entry:right-id:file-matches", "chunk>256KiB", "mod:none", "mod:flip", "mod:trunc", "mod:extend", "mod:swap", "mod:overwrite", "batch>=1", "damage-at-batch-boundary", "file==blob", "file!=blob", "digest:sha256", "file:sparse:has-holes", "file:via-symlink", "damage-in-null-chunk:beyond-first-block", "cancel:before-call", "cancel:mid-run", "cancel:interrupted", "cancel:mismatch-not-accepted"},
	Gen:         genCase,
	Run:         run,
	Watchdog:    hx.Pick(30*time.Second, 120*time.Second), // "accepts iff" includes returning at all
	Journal:     true,                                     // ... and a panic in one of VerifyIndex's workers ends the process: the driver recovers the case
}

func allZero(b []byte) bool {
	for _, x := range b {
		if x != 0 {
			return false
		}
	}
	return true
}

// writeKind stores the file content as a plain file, as a sparse file (blocks of zeros are left
// as holes) and/or hands out a symbolic link to it instead of its path.
func writeKind(dir string, content []byte, kind string, o *hx.Outcome) string {
	path := filepath.Join(dir, "blob")
	if strings.HasPrefix(kind, "sparse") {
		f, err := os.Create(path)
		if err != nil {
			panic(err)
		}
		f.Truncate(int64(len(content)))
		holes := 0
		for off := 0; off < len(content); off += 4096 {
			end := off + 4096
			if end > len(content) {
				end = len(content)
			}
			if allZero(content[off:end]) {
				holes++
				continue
			}
			if _, err := f.WriteAt(content[off:end], int64(off)); err != nil {
				panic(err)
			}
		}
		f.Close()
		o.Class("file:sparse")
		if holes > 0 {
			o.Class("file:sparse:has-holes")
		}
	} else {
		dx.WriteFile(dir, "blob", content)
	}
	if strings.HasSuffix(kind, "symlink") {
		link := filepath.Join(dir, "blob.link")
		if err := os.Symlink("blob", link); err != nil {
			panic(err)
		}
		o.Class("file:via-symlink")
		return link
	}
	return path
}

func TestMain(m *testing.M) { hx.Main(m) }

func TestRegress(t *testing.T) { hx.Regress(t, spec) }
func TestKnown(t *testing.T)   { hx.Known(t, spec) }
func TestReplay(t *testing.T)  { hx.Replay(t, spec) }

// TestEnum: for small tilings, every single-byte flip position for several worker counts.
func TestEnum(t *testing.T) {
	if hx.Shard() != 0 {
		t.Skip()
	}
	for _, nch := range hx.Pick([]int{1, 2, 9, 10, 11, 21, 40}, []int{1, 2, 3, 9, 10, 11, 19, 20, 21, 39, 40, 41, 100, 161}) {
		for _, n := range hx.Pick([]int{1, 2, 4}, []int{1, 2, 3, 4, 8, 64}) {
			tiling := make([]int, nch)
			total := 0
			for i := range tiling {
				tiling[i] = 1 + i%3
				total += tiling[i]
			}
			for ci := 0; ci < nch; ci++ {
				c := Case{Pieces: []gen.Piece{{Kind: "rand", Len: total, Seed: uint64(nch*131 + n)}}, Sizes: gen.Sizes{Min: 1, Avg: 2, Max: 3},
					Tiling: tiling, N: n, Mod: "flip", A: 4 + 6*ci, B: ci % 3, Bit: ci % 8}
				if !hx.Case(t, spec, c) {
					return
				}
			}
		}
	}
	hx.Exhaustive("single-bit flip in every chunk for the listed (chunks, n) grid")
}

func TestProp(t *testing.T) { hx.Prop(t, spec) }
