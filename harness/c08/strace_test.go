package c08

// Running a child under strace, with or without a SIGKILL injected at the entry of the
// c-th call of one system call, and reading the strace log.

import (
	"bytes"
	"context"
	"encoding/json"
	"errors"
	"fmt"
	"os"
	"os/exec"
	"path/filepath"
	"regexp"
	"runtime"
	"strconv"
	"strings"
	"sync"
	"syscall"
	"time"
)

// Every call that can change what is visible in a directory tree. '?' = tolerated when the
// architecture does not have the call. The ones the child really makes are learnt from the dry run.
const traceSet = "?open,openat,?openat2,?creat,?mkdir,mkdirat,write,pwrite64,writev,?pwritev,?pwritev2,fchmod,?chmod,fchmodat," +
	"close,?rename,renameat,renameat2,?unlink,unlinkat,?link,linkat,?symlink,symlinkat,ftruncate,truncate,?rmdir,fsync,fdatasync,?sendfile,copy_file_range,fallocate"

const childTimeout = 60 * time.Second

// infra reports a failure of the harness machinery (not of the property): exit-2 style.
func infra(format string, a ...any) {
	msg := fmt.Sprintf(format, a...)
	fmt.Printf("SELFTEST-FAILURE: %s\nSELFTEST-FAILURE (see above): %s\n", msg, strings.SplitN(msg, "\n", 2)[0])
	os.Exit(3)
}

var (
	straceOnce sync.Once
	stracePath string
	straceErr  error
)

// straceCheck finds strace and makes sure ptrace injection really works here.
func straceCheck() error {
	straceOnce.Do(func() {
		p, err := exec.LookPath("strace")
		if err != nil {
			straceErr = err
			return
		}
		stracePath = p
		dir, err := os.MkdirTemp(os.TempDir(), "c08-strace-check")
		if err != nil {
			straceErr = err
			return
		}
		defer os.RemoveAll(dir)
		log := filepath.Join(dir, "log")
		cmd := exec.Command(p, "-f", "-o", log, "-e", "trace=write", "-e", "inject=write:signal=KILL:when=1", "--", "/bin/echo", "x")
		out, _ := cmd.CombinedOutput()
		b, _ := os.ReadFile(log)
		if _, killed := parseLog(b); !killed {
			straceErr = fmt.Errorf("injection probe did not kill its target (output %q, log %q)", out, b)
		}
	})
	return straceErr
}

type sysLine struct {
	tid     int
	name    string
	args    string
	ret     string // "" while unfinished, "?" when killed inside
	resumed bool
}

var (
	reEntry   = regexp.MustCompile(`^(\d+) +(\w+)\((.*)$`)
	reResumed = regexp.MustCompile(`^(\d+) +<\.\.\. (\w+) resumed>(.*)$`)
	reShort   = regexp.MustCompile(`, (\d+)\) += (\d+)$`)
	reRet     = regexp.MustCompile(` = (-?\d+|\?|0x[0-9a-f]+)( .*)?$`)
)

func parseLog(b []byte) (lines []sysLine, killed bool) {
	for _, l := range strings.Split(string(b), "\n") {
		if strings.Contains(l, "+++ killed by SIGKILL") {
			killed = true
			continue
		}
		if m := reResumed.FindStringSubmatch(l); m != nil {
			tid, _ := strconv.Atoi(m[1])
			sl := sysLine{tid: tid, name: m[2], args: m[3], resumed: true}
			if r := reRet.FindStringSubmatch(m[3]); r != nil {
				sl.ret = r[1] + r[2]
			}
			if sl.ret == "?" {
				killed = true
			}
			lines = append(lines, sl)
			continue
		}
		if m := reEntry.FindStringSubmatch(l); m != nil {
			tid, _ := strconv.Atoi(m[1])
			sl := sysLine{tid: tid, name: m[2], args: m[3]}
			if !strings.HasSuffix(l, "<unfinished ...>") {
				if r := reRet.FindStringSubmatch(m[3]); r != nil {
					sl.ret = r[1] + r[2]
				}
			}
			if sl.ret == "?" {
				killed = true
			}
			lines = append(lines, sl)
		}
	}
	return lines, killed
}

// threadTrace is what one writer thread did between its two markers.
type threadTrace struct {
	Tid   int
	Pre   map[string]int // calls per syscall before the begin marker (marker included)
	Post  map[string]int // calls per syscall after it, up to the end marker (excluded)
	Calls []string       // sequence of names in the window
	Ended bool           // end marker seen
	// state at the end of the log
	TmpOpen  bool   // a file was created in the store and no rename/unlink followed yet
	Last     string // last call entered in the window
	LastRet  string
	LastOrd  int  // absolute per-thread ordinal of that call among calls of the same name
	EFBIGOrd int  // absolute ordinal of the first write that failed with EFBIG (0 = none)
	Short    bool // a write stored some but not all of its bytes
}

type traceInfo struct {
	Threads  []*threadTrace         // writer threads in order of their begin marker
	Other    map[int]map[string]int // per tid totals of threads that never issued a marker
	Killed   bool
	KilledIn *threadTrace // writer thread whose pending call had no result when the process died
}

// analyse reads a log. killed = strace itself ended by SIGKILL (it passes the fate of its tracee
// on); a "= ?" line alone is not enough, a thread caught inside a call by a normal exit shows the same.
func analyse(b []byte, storeDir string, killed bool) traceInfo {
	lines, sawPending := parseLog(b)
	if killed && !sawPending {
		infra("strace was killed but its log shows no call that never returned\n%s", logTail(b, 20))
	}
	ti := traceInfo{Killed: killed, Other: map[int]map[string]int{}}
	byTid := map[int]*threadTrace{}
	counts := map[int]map[string]int{}
	pending := map[int]*sysLine{}
	for i := range lines {
		l := &lines[i]
		if l.resumed {
			if p := pending[l.tid]; p != nil && p.name == l.name {
				p.ret = l.ret
				if tt := byTid[l.tid]; tt != nil && tt.Last == l.name {
					tt.LastRet = l.ret
					tt.apply(p, storeDir)
				}
				delete(pending, l.tid)
			}
			continue
		}
		if counts[l.tid] == nil {
			counts[l.tid] = map[string]int{}
		}
		counts[l.tid][l.name]++
		tt := byTid[l.tid]
		if tt == nil {
			if strings.Contains(l.args, markBegin) {
				tt = &threadTrace{Tid: l.tid, Pre: map[string]int{}, Post: map[string]int{}}
				for k, v := range counts[l.tid] {
					tt.Pre[k] = v
				}
				byTid[l.tid] = tt
				ti.Threads = append(ti.Threads, tt)
			}
			continue
		}
		if tt.Ended {
			continue
		}
		if strings.Contains(l.args, markEnd) {
			tt.Ended = true
			continue
		}
		tt.Post[l.name]++
		tt.Calls = append(tt.Calls, l.name)
		tt.Last, tt.LastRet, tt.LastOrd = l.name, l.ret, counts[l.tid][l.name]
		if l.ret == "" {
			pending[l.tid] = l
		} else {
			tt.apply(l, storeDir)
		}
	}
	for tid, c := range counts {
		if byTid[tid] == nil {
			ti.Other[tid] = c
		}
	}
	if killed {
		for _, tt := range ti.Threads {
			if !tt.Ended && tt.Last != "" && (tt.LastRet == "" || tt.LastRet == "?") {
				ti.KilledIn = tt
			}
		}
	}
	return ti
}

// apply updates the thread's view of "a temporary exists" with one finished call.
func (tt *threadTrace) apply(l *sysLine, storeDir string) {
	ok := !strings.HasPrefix(l.ret, "-1") && l.ret != "?" && l.ret != ""
	switch l.name {
	case "openat", "open", "creat", "openat2":
		if ok && strings.Contains(l.args, "O_CREAT") && strings.Contains(l.args, storeDir) {
			tt.TmpOpen = true
		}
	case "rename", "renameat", "renameat2", "unlink", "unlinkat":
		if ok && strings.Contains(l.args, storeDir) {
			tt.TmpOpen = false
		}
	case "write":
		if m := reShort.FindStringSubmatch(l.args); m != nil {
			want, _ := strconv.Atoi(m[1])
			got, _ := strconv.Atoi(m[2])
			if got > 0 && got < want {
				tt.Short = true
			}
		}
		if strings.Contains(l.ret, "EFBIG") && tt.EFBIGOrd == 0 {
			tt.EFBIGOrd = tt.LastOrd
		}
	}
}

type childResult struct {
	Report   *childReport
	Log      []byte
	Trace    traceInfo
	ExitCode int
	Signaled bool
	Stdout   string
	Stderr   string
}

// runChild runs the store child under strace. injSys == "" means no injection.
func runChild(job childJob, work string, injSys string, injWhen int) childResult {
	return runChildInj(job, work, injSys, injWhen)
}

// runChildInj is runChild with further strace inject expressions (e.g. "renameat:error=ENOENT:when=3").
func runChildInj(job childJob, work string, injSys string, injWhen int, more ...string) childResult {
	if err := straceCheck(); err != nil {
		infra("strace unavailable: %v", err)
	}
	// the calling goroutine must stay on its thread while the child lives (Pdeathsig is per thread)
	runtime.LockOSThread()
	defer runtime.UnlockOSThread()
	logPath := filepath.Join(work, "strace.log")
	os.Remove(logPath)
	args := []string{"-f", "-o", logPath, "-e", "signal=none", "-e", "trace=" + traceSet}
	if injSys != "" {
		args = append(args, "-e", fmt.Sprintf("inject=%s:signal=KILL:when=%d", injSys, injWhen))
	}
	for _, m := range more {
		args = append(args, "-e", "inject="+m)
	}
	args = append(args, "--", os.Args[0])
	jb, _ := json.Marshal(job)
	ctx, cancel := context.WithTimeout(context.Background(), childTimeout)
	defer cancel()
	cmd := exec.Command(stracePath, args...)
	tmp := filepath.Join(work, "tmp")
	cwd := filepath.Join(work, "cwd")
	os.MkdirAll(tmp, 0o755)
	os.MkdirAll(cwd, 0o755)
	cmd.Dir = cwd
	cmd.Env = []string{"VERIF_CHILD=store", "VERIF_JOB=" + string(jb), "TMPDIR=" + tmp, "HOME=" + cwd, "PATH=/usr/bin:/bin", "GOMAXPROCS=4"}
	cmd.SysProcAttr = &syscall.SysProcAttr{Setpgid: true, Pdeathsig: syscall.SIGKILL}
	var so, se bytes.Buffer
	cmd.Stdout, cmd.Stderr = &so, &se
	if err := cmd.Start(); err != nil {
		infra("cannot start strace: %v", err)
	}
	pgid := cmd.Process.Pid
	done := make(chan error, 1)
	go func() { done <- cmd.Wait() }()
	var werr error
	select {
	case werr = <-done:
	case <-ctx.Done():
		syscall.Kill(-pgid, syscall.SIGKILL)
		<-done
		infra("traced child did not finish within %s (inject %s:%d)\nstderr: %s", childTimeout, injSys, injWhen, se.String())
	}
	syscall.Kill(-pgid, syscall.SIGKILL) // nothing of the group may survive
	res := childResult{Stdout: so.String(), Stderr: se.String()}
	var ee *exec.ExitError
	if errors.As(werr, &ee) {
		if ws, ok := ee.Sys().(syscall.WaitStatus); ok && ws.Signaled() {
			if ws.Signal() != syscall.SIGKILL {
				infra("traced child died of %v (inject %s:%d)\nstderr: %s", ws.Signal(), injSys, injWhen, se.String())
			}
			res.Signaled = true
		}
		res.ExitCode = ee.ExitCode()
	} else if werr != nil {
		infra("wait for strace: %v", werr)
	}
	res.Log, _ = os.ReadFile(logPath)
	res.Trace = analyse(res.Log, job.Dir, res.Signaled)
	if i := strings.Index(res.Stdout, "{"); i >= 0 {
		var rep childReport
		if json.Unmarshal([]byte(strings.TrimSpace(res.Stdout[i:])), &rep) == nil {
			res.Report = &rep
		}
	}
	return res
}

func logTail(b []byte, n int) string {
	lines := strings.Split(strings.TrimRight(string(b), "\n"), "\n")
	if len(lines) > n {
		lines = lines[len(lines)-n:]
	}
	return strings.Join(lines, "\n")
}
