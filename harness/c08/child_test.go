package c08

// Child mode of the test binary: VERIF_CHILD=store. The child opens a LocalStore and stores the
// chunks of a JSON job (env VERIF_JOB), framed by two marker system calls so that the parent can
// tell the store work apart from runtime start-up in an strace log.

import (
	"encoding/json"
	"fmt"
	"os"
	"runtime"
	"sync"
	"syscall"

	"github.com/folbricht/desync"
	"golang.org/x/sys/unix"

	"verifharness/internal/gen"
)

const (
	markBegin = "/verif-c08-marker-begin"
	markEnd   = "/verif-c08-marker-end"
)

// ChunkSpec describes the plain content of one chunk.
type ChunkSpec struct {
	Kind string `json:"kind"` // rand | text | zero
	Len  int    `json:"len"`
	Seed uint64 `json:"seed,omitempty"`
}

func (c ChunkSpec) bytes() []byte {
	return gen.Expand([]gen.Piece{{Kind: c.Kind, Len: c.Len, Seed: c.Seed}})
}

type childJob struct {
	Dir        string      `json:"dir"`
	Compressed bool        `json:"compressed"`
	Chunks     []ChunkSpec `json:"chunks"`
	// Workers[j] = sequence of chunk indices stored by writer j. One writer: it runs on the
	// main thread. Several: each on its own locked thread, the main thread only waits.
	Workers [][]int `json:"workers"`
	Fsize   int64   `json:"fsize"`         // RLIMIT_FSIZE, <0 = unlimited
	Warm    int     `json:"warm"`          // multi-writer: openat+close pairs every writer thread does before the start marker
	Bad     string  `json:"bad,omitempty"` // self-test of the oracle: ref = the harness' own atomic routine; direct = write the final name in two steps; stray = leave a file Prune does not know
}

type childOp struct {
	Worker int    `json:"w"`
	Chunk  int    `json:"c"`
	Err    string `json:"err,omitempty"`
}

type childReport struct {
	Pid int       `json:"pid"`
	Ops []childOp `json:"ops"`
	Err string    `json:"err,omitempty"`
}

func init() {
	// keeps the main goroutine on the main thread for the whole life of the child
	if os.Getenv("VERIF_CHILD") != "" {
		runtime.LockOSThread()
	}
}

func marker(path string) {
	fd, err := syscall.Open(path, syscall.O_RDONLY, 0)
	if err == nil {
		syscall.Close(fd)
	}
}

func childMain() {
	unix.Prctl(unix.PR_SET_PDEATHSIG, uintptr(syscall.SIGKILL), 0, 0, 0)
	rep := childReport{Pid: os.Getpid()}
	fail := func(format string, a ...any) {
		rep.Err = fmt.Sprintf(format, a...)
		b, _ := json.Marshal(rep)
		os.Stdout.Write(append(b, '\n'))
		os.Exit(3)
	}
	var job childJob
	if err := json.Unmarshal([]byte(os.Getenv("VERIF_JOB")), &job); err != nil {
		fail("job: %v", err)
	}
	chunks := make([]*desync.Chunk, len(job.Chunks))
	for i, cs := range job.Chunks {
		chunks[i] = desync.NewChunk(cs.bytes())
		chunks[i].ID()
	}
	s, err := desync.NewLocalStore(job.Dir, desync.StoreOptions{Uncompressed: !job.Compressed})
	if err != nil {
		fail("NewLocalStore: %v", err)
	}
	if job.Fsize >= 0 {
		lim := syscall.Rlimit{Cur: uint64(job.Fsize), Max: uint64(job.Fsize)}
		if err := syscall.Setrlimit(unix.RLIMIT_FSIZE, &lim); err != nil {
			fail("setrlimit: %v", err)
		}
	}
	storeChunk := s.StoreChunk
	if job.Bad != "" {
		storeChunk = func(c *desync.Chunk) error { return badStore(job, c) }
	}
	if len(job.Workers) == 1 {
		marker(markBegin)
		for _, ci := range job.Workers[0] {
			op := childOp{Chunk: ci}
			if err := storeChunk(chunks[ci]); err != nil {
				op.Err = err.Error()
			}
			rep.Ops = append(rep.Ops, op)
		}
		marker(markEnd)
	} else {
		var ready, done sync.WaitGroup
		var mu sync.Mutex
		start := make(chan struct{})
		for w := range job.Workers {
			ready.Add(1)
			done.Add(1)
			go func(w int) {
				runtime.LockOSThread() // never unlocked: the thread ends with the goroutine
				defer done.Done()
				for i := 0; i < job.Warm; i++ {
					if fd, err := syscall.Open("/dev/null", syscall.O_RDONLY, 0); err == nil {
						syscall.Close(fd)
					}
				}
				marker(markBegin)
				ready.Done()
				<-start
				for _, ci := range job.Workers[w] {
					op := childOp{Worker: w, Chunk: ci}
					if err := storeChunk(chunks[ci]); err != nil {
						op.Err = err.Error()
					}
					mu.Lock()
					rep.Ops = append(rep.Ops, op)
					mu.Unlock()
				}
				marker(markEnd)
			}(w)
		}
		ready.Wait()
		close(start)
		done.Wait()
	}
	b, _ := json.Marshal(rep)
	os.Stdout.Write(append(b, '\n'))
	os.Exit(0)
}

// badStore is a deliberately non-atomic store routine, used only by TestSelf to show that the
// oracle notices what it is there to notice.
func badStore(job childJob, c *desync.Chunk) error {
	b, _ := c.Data()
	cid := c.ID()
	id := cid.String()
	if job.Compressed {
		b = storedForm(b, true)
	}
	dir := job.Dir + "/" + id[:4]
	os.MkdirAll(dir, 0o755)
	if job.Bad == "stray" {
		os.WriteFile(dir+"/stray-"+id[:8], []byte("x"), 0o644)
		return nil
	}
	final := job.Dir + "/" + chunkRel(id, job.Compressed)
	if job.Bad == "ref" { // the harness' own atomic routine: lets TestSelf check the machinery without relying on desync
		tmp := dir + "/.tmp-cacnk.ref" + id[:8]
		f, err := os.OpenFile(tmp, os.O_WRONLY|os.O_CREATE|os.O_EXCL, 0o644)
		if err != nil {
			return err
		}
		if _, err := f.Write(b); err != nil {
			f.Close()
			os.Remove(tmp)
			return err
		}
		f.Close()
		return os.Rename(tmp, final)
	}
	f, err := os.OpenFile(final, os.O_WRONLY|os.O_CREATE|os.O_TRUNC, 0o644)
	if err != nil {
		return err
	}
	defer f.Close()
	if _, err := f.Write(b[:len(b)/2]); err != nil {
		return err
	}
	_, err = f.Write(b[len(b)/2:])
	return err
}
