package c08

// Independent inspection of a store directory: which files sit under chunk names, whether they
// are complete valid chunks (klauspost zstd + crypto/sha512 directly, no desync code), and what
// else is lying around.

import (
	"crypto/sha512"
	"encoding/hex"
	"fmt"
	"io/fs"
	"os"
	"path/filepath"
	"sort"
	"strings"

	"github.com/klauspost/compress/zstd"
)

var zdec, _ = zstd.NewReader(nil, zstd.WithDecoderConcurrency(1))
var zenc, _ = zstd.NewWriter(nil, zstd.WithEncoderConcurrency(1))

func plainID(b []byte) string {
	s := sha512.Sum512_256(b)
	return hex.EncodeToString(s[:])
}

// chunkName parses a file name as a casync chunk name of either format.
func chunkName(base string) (id string, compressed bool, ok bool) {
	id = base
	if strings.HasSuffix(base, ".cacnk") {
		id = strings.TrimSuffix(base, ".cacnk")
		compressed = true
	}
	if len(id) != 64 {
		return "", false, false
	}
	for _, c := range id {
		if !(c >= '0' && c <= '9' || c >= 'a' && c <= 'f') {
			return "", false, false
		}
	}
	return id, compressed, true
}

type chunkFile struct {
	Rel   string
	ID    string
	Valid bool
	Why   string
	Size  int64
}

type storeScan struct {
	Chunks    []chunkFile // files under a chunk name
	Leftovers []string    // every other non-directory, relative path
	Dirs      int
}

// scanTree walks root. Files under a chunk name are validated; everything else is a leftover.
func scanTree(root string) (s storeScan, err error) {
	err = filepath.WalkDir(root, func(p string, d fs.DirEntry, err error) error {
		if err != nil {
			return err
		}
		if p == root {
			return nil
		}
		rel, _ := filepath.Rel(root, p)
		if d.IsDir() {
			s.Dirs++
			return nil
		}
		id, comp, ok := chunkName(d.Name())
		if !ok || !d.Type().IsRegular() {
			s.Leftovers = append(s.Leftovers, rel)
			return nil
		}
		cf := chunkFile{Rel: rel, ID: id}
		b, err := os.ReadFile(p)
		if err != nil {
			return err
		}
		cf.Size = int64(len(b))
		switch {
		case filepath.Dir(rel) != id[:4]:
			cf.Why = "chunk-named file outside its <first 4 hex> directory"
		case comp:
			plain, derr := zdec.DecodeAll(b, nil)
			if derr != nil {
				cf.Why = fmt.Sprintf("%d stored bytes do not decompress: %v", len(b), derr)
			} else if got := plainID(plain); got != id {
				cf.Why = fmt.Sprintf("%d stored bytes decompress to %d bytes hashing to %s", len(b), len(plain), got)
			} else {
				cf.Valid = true
			}
		default:
			if got := plainID(b); got != id {
				cf.Why = fmt.Sprintf("%d stored bytes hash to %s", len(b), got)
			} else {
				cf.Valid = true
			}
		}
		s.Chunks = append(s.Chunks, cf)
		return nil
	})
	sort.Strings(s.Leftovers)
	return s, err
}

func (s storeScan) has(id string) *chunkFile {
	for i := range s.Chunks {
		if s.Chunks[i].ID == id {
			return &s.Chunks[i]
		}
	}
	return nil
}

// listFiles returns every non-directory below root (relative), sorted.
func listFiles(root string) []string {
	var out []string
	filepath.WalkDir(root, func(p string, d fs.DirEntry, err error) error {
		if err == nil && !d.IsDir() {
			rel, _ := filepath.Rel(root, p)
			out = append(out, rel)
		}
		return nil
	})
	sort.Strings(out)
	return out
}

// storedForm gives the bytes a valid chunk file of the given format may hold for plain data
// (used only to pre-populate stores and to serve chunks; validation never compares against it).
func storedForm(plain []byte, compressed bool) []byte {
	if !compressed {
		return plain
	}
	return zenc.EncodeAll(plain, nil)
}

func chunkRel(id string, compressed bool) string {
	name := id
	if compressed {
		name += ".cacnk"
	}
	return filepath.Join(id[:4], name)
}
