package c08

import (
	"fmt"
	"os"
	"path/filepath"
	"reflect"
	"testing"

	"verifharness/internal/hx"
)

func selfFail(t *testing.T, format string, a ...any) {
	fmt.Printf("SELFTEST-FAILURE: "+format+"\n", a...)
	t.Fatalf(format, a...)
}

func sigs(o hx.Outcome) map[string]bool {
	m := map[string]bool{}
	for _, v := range o.Violations {
		m[v.Sig] = true
	}
	return m
}

// TestSelf checks the machinery: strace injection, determinism of the dry run, where a kill
// lands, the store scanner, and that planted defects are reported under the right signature.
func TestSelf(t *testing.T) {
	if hx.Shard() != 0 {
		t.Skip("shard != 0")
	}
	if err := straceCheck(); err != nil {
		selfFail(t, "strace unavailable: %v", err)
	}
	if os.Getenv("VERIF_DESYNC_BIN") == "" {
		selfFail(t, "VERIF_DESYNC_BIN not set (C08 needs the freshly built CLI)")
	}
	// ---- chunk names
	good := "ab2aaa81fecc0bcd0c30b19bf93a155e5ea372857cbcd3e2ef3def21fa5ff7d4"
	for name, want := range map[string]bool{good: true, good + ".cacnk": true, good[:63]: false, good + "0": false, ".tmp-cacnk.123": false,
		"AB" + good[2:]: false, good + ".tmp": false, "." + good: false} {
		if _, _, ok := chunkName(name); ok != want {
			selfFail(t, "chunkName(%q) = %v", name, ok)
		}
	}
	// ---- scanner on a hand-made tree
	dir := hx.Scratch("c08self")
	defer os.RemoveAll(dir)
	a, b := []byte("hello chunk a"), make([]byte, 5000)
	ida, idb := plainID(a), plainID(b)
	put := func(rel string, data []byte) {
		p := filepath.Join(dir, rel)
		os.MkdirAll(filepath.Dir(p), 0o755)
		os.WriteFile(p, data, 0o644)
	}
	zb := storedForm(b, true)
	put(chunkRel(ida, false), a)
	put(chunkRel(idb, true), zb)
	scan, err := scanTree(dir)
	if err != nil || len(scan.Chunks) != 2 || !scan.Chunks[0].Valid || !scan.Chunks[1].Valid || len(scan.Leftovers) != 0 {
		selfFail(t, "scanner rejects valid chunks: %+v %v", scan, err)
	}
	put(chunkRel(ida, false), a[:len(a)-1])
	put(chunkRel(idb, true), zb[:len(zb)-1])
	put(chunkRel(ida, true), storedForm(b, true)) // decodes, wrong ID
	put(filepath.Join(ida[:4], ".tmp-cacnk.1"), a)
	scan, _ = scanTree(dir)
	if len(scan.Chunks) != 3 || scan.Chunks[0].Valid || scan.Chunks[1].Valid || scan.Chunks[2].Valid || len(scan.Leftovers) != 1 {
		selfFail(t, "scanner accepts damaged chunks: %+v", scan)
	}
	// ---- strace: the dry run is reproducible
	sc := StoreCase{Compressed: true, Chunks: []ChunkSpec{{Kind: "text", Len: 2500, Seed: 5}, {Kind: "rand", Len: 30, Seed: 6}}, Writers: [][]int{{0, 1, 0}}, Keep: "all", Bad: "ref"}.normalise()
	plain := [][]byte{sc.Chunks[0].bytes(), sc.Chunks[1].bytes()}
	ids := []string{plainID(plain[0]), plainID(plain[1])}
	d1 := sc.dry(plain, ids, true)
	d2 := sc.dry(plain, ids, true)
	if !reflect.DeepEqual(d1.Threads[0].Pre, d2.Threads[0].Pre) || !reflect.DeepEqual(d1.Threads[0].Calls, d2.Threads[0].Calls) {
		selfFail(t, "two dry runs of the same store work differ:\n%v %v\n%v %v", d1.Threads[0].Pre, d1.Threads[0].Calls, d2.Threads[0].Pre, d2.Threads[0].Calls)
	}
	want := []string{"mkdirat", "openat", "write", "close", "renameat", "mkdirat", "openat", "write", "close", "renameat", "openat", "write", "close", "renameat"}
	if !reflect.DeepEqual(d1.Threads[0].Calls, want) {
		selfFail(t, "the reference store routine is seen making %v, want %v", d1.Threads[0].Calls, want)
	}
	// ---- a kill lands at the entry of the chosen call
	one := StoreCase{Compressed: false, Chunks: []ChunkSpec{{Kind: "rand", Len: 700, Seed: 9}}, Writers: [][]int{{0}}, Keep: "all", Bad: "ref"}
	for _, tc := range []struct {
		sys        string
		leftSize   int64 // -1: no leftover expected
		chunkThere bool
	}{{"openat", -1, false}, {"write", 0, false}, {"close", 700, false}, {"renameat", 700, false}} {
		c := one
		c.Mode, c.Sys, c.Count = "kill", tc.sys, 1
		got := landing(c)
		if got.leftSize != tc.leftSize || got.chunk != tc.chunkThere || !got.killed {
			selfFail(t, "kill at %s#1: killed=%v leftover size %d (want %d), chunk visible %v (want %v)", tc.sys, got.killed, got.leftSize, tc.leftSize, got.chunk, tc.chunkThere)
		}
	}
	c := one
	c.Mode, c.Fsize = "fsize-kill", 5
	if got := landing(c); !got.killed || got.leftSize != 5 || got.chunk {
		selfFail(t, "RLIMIT_FSIZE=5 + kill at the following write: killed=%v leftover size %d (want 5), chunk visible %v", got.killed, got.leftSize, got.chunk)
	}
	// ---- planted defects are reported under the right signature
	for _, m := range []struct {
		c    StoreCase
		want string
	}{
		{StoreCase{Chunks: one.Chunks, Writers: one.Writers, Mode: "kill", Sys: "write", Count: 2, Bad: "direct"}, "C08:store:partial-visible"},
		{StoreCase{Compressed: true, Chunks: one.Chunks, Writers: one.Writers, Mode: "kill", Sys: "close", Count: 1, Bad: "direct"}, ""},
		{StoreCase{Compressed: true, Chunks: one.Chunks, Writers: one.Writers, Mode: "kill", Sys: "write", Count: 2, Bad: "direct"}, "C08:store:partial-visible"},
		{StoreCase{Chunks: one.Chunks, Writers: one.Writers, Mode: "fsize", Fsize: 100, Bad: "direct"}, "C08:store:error-path-left-chunkname"},
		{StoreCase{Chunks: one.Chunks, Writers: one.Writers, Mode: "none", Bad: "stray", Keep: "all"}, "C08:store:leftover-not-pruned"},
	} {
		o := runStore(m.c)
		got := sigs(o)
		if m.want == "" && len(got) > 0 || m.want != "" && !got[m.want] {
			selfFail(t, "planted case %+v: want signature %q, got %v", m.c, m.want, o.Violations)
		}
	}
	// ---- extract: file comparison and an undisturbed run
	f := filepath.Join(dir, "f")
	os.WriteFile(f, []byte("abc"), 0o644)
	s1 := statFile(f)
	os.WriteFile(f+".n", []byte("abc"), 0o644)
	os.Rename(f+".n", f)
	if s1.diff(statFile(f)) == "" {
		selfFail(t, "fileState.diff does not notice a replaced inode")
	}
	ec := ExtractCase{Chunks: []ChunkSpec{{Kind: "rand", Len: 100, Seed: 1}, {Kind: "rand", Len: 200, Seed: 2}}, Layout: []int{0, 1, 0}, N: 2, K: 0, Prior: "absent"}
	o := runExtract(ec)
	if len(o.Violations) > 0 || o.Desc.(map[string]any)["died"] != false || o.Desc.(map[string]any)["requests"].(int) < 2 {
		selfFail(t, "undisturbed extract through the harness server: %+v %v", o.Desc, o.Violations)
	}
	ec.K, ec.Inplace = 2, true
	o = runExtract(ec)
	if len(o.Violations) > 0 || o.Desc.(map[string]any)["died"] != true || !o.Nontrivial {
		selfFail(t, "killed in-place extract: %+v %v", o.Desc, o.Violations)
	}
}

type landed struct {
	killed   bool
	leftSize int64
	chunk    bool
}

// landing runs one crash point and reports what is in the store afterwards (before any Prune).
func landing(c StoreCase) landed {
	c = c.normalise()
	plain := [][]byte{c.Chunks[0].bytes()}
	ids := []string{plainID(plain[0])}
	d := c.dry(plain, ids, false)
	work := hx.Scratch("c08land")
	defer os.RemoveAll(work)
	store := c.prepare(work, plain, ids)
	var r childResult
	if c.Mode == "fsize-kill" {
		pr := runChild(c.job(store, c.Fsize), work, "", 0)
		os.RemoveAll(store)
		store = c.prepare(work, plain, ids)
		r = runChild(c.job(store, c.Fsize), work, "write", pr.Trace.Threads[0].EFBIGOrd)
	} else {
		r = runChild(c.job(store, -1), work, c.Sys, d.Threads[0].Pre[c.Sys]+c.Count)
	}
	scan, _ := scanTree(store)
	l := landed{killed: r.Trace.Killed, leftSize: -1, chunk: len(scan.Chunks) > 0}
	if len(scan.Leftovers) == 1 {
		if fi, err := os.Stat(filepath.Join(store, scan.Leftovers[0])); err == nil {
			l.leftSize = fi.Size()
		}
	}
	return l
}
