package c08

import (
	"fmt"
	"os"
	"path/filepath"
	"reflect"
	"strings"
	"testing"

	"verifharness/internal/hx"
)

func selfFail(t *testing.T, format string, a ...any) {
	fmt.Printf("SELFTEST-FAILURE: "+format+"\n", a...)
	t.Fatalf(format, a...)
}

func sigs(o hx.Outcome) map[string]bool {
	m := map[string]bool{}
	for _, v := range o.Violations {
		m[v.Sig] = true
	}
	return m
}

// TestSelf checks the machinery: strace injection, determinism of the dry run, where a kill
// lands, the store scanner, and that planted defects are reported under the right signature.
func TestSelf(t *testing.T) {
	if hx.Shard() != 0 {
		t.Skip("shard != 0")
	}
	if err := straceCheck(); err != nil {
		selfFail(t, "strace unavailable: %v", err)
	}
	if os.Getenv("VERIF_DESYNC_BIN") == "" {
		selfFail(t, "VERIF_DESYNC_BIN not set (C08 needs the freshly built CLI)")
	}
	// ---- chunk names
	good := "ab2aaa81fecc0bcd0c30b19bf93a155e5ea372857cbcd3e2ef3def21fa5ff7d4"
	for name, want := range map[string]bool{good: true, good + ".cacnk": true, good[:63]: false, good + "0": false, ".tmp-cacnk.123": false,
		"AB" + good[2:]: false, good + ".tmp": false, "." + good: false} {
		if _, _, ok := chunkName(name); ok != want {
			selfFail(t, "chunkName(%q) = %v", name, ok)
		}
	}
	// ---- scanner on a hand-made tree
	dir := hx.Scratch("c08self")
	defer os.RemoveAll(dir)
	a, b := []byte("hello chunk a"), make([]byte, 5000)
	ida, idb := plainID(a), plainID(b)
	put := func(rel string, data []byte) {
		p := filepath.Join(dir, rel)
		os.MkdirAll(filepath.Dir(p), 0o755)
		os.WriteFile(p, data, 0o644)
	}
	zb := storedForm(b, true)
	put(chunkRel(ida, false), a)
	put(chunkRel(idb, true), zb)
	scan, err := scanTree(dir)
	if err != nil || len(scan.Chunks) != 2 || !scan.Chunks[0].Valid || !scan.Chunks[1].Valid || len(scan.Leftovers) != 0 {
		selfFail(t, "scanner rejects valid chunks: %+v %v", scan, err)
	}
	put(chunkRel(ida, false), a[:len(a)-1])
	put(chunkRel(idb, true), zb[:len(zb)-1])
	put(chunkRel(ida, true), storedForm(b, true)) // decodes, wrong ID
	put(filepath.Join(ida[:4], ".tmp-cacnk.1"), a)
	scan, _ = scanTree(dir)
	if len(scan.Chunks) != 3 || scan.Chunks[0].Valid || scan.Chunks[1].Valid || scan.Chunks[2].Valid || len(scan.Leftovers) != 1 {
		selfFail(t, "scanner accepts damaged chunks: %+v", scan)
	}
	// ---- strace: the dry run is reproducible
	sc := StoreCase{Compressed: true, Chunks: []ChunkSpec{{Kind: "text", Len: 2500, Seed: 5}, {Kind: "rand", Len: 30, Seed: 6}}, Writers: [][]int{{0, 1, 0}}, Keep: "all", Bad: "ref"}.normalise()
	plain := [][]byte{sc.Chunks[0].bytes(), sc.Chunks[1].bytes()}
	ids := []string{plainID(plain[0]), plainID(plain[1])}
	d1 := sc.dry(plain, ids, true)
	d2 := sc.dry(plain, ids, true)
	if !reflect.DeepEqual(d1.Threads[0].Pre, d2.Threads[0].Pre) || !reflect.DeepEqual(d1.Threads[0].Calls, d2.Threads[0].Calls) {
		selfFail(t, "two dry runs of the same store work differ:\n%v %v\n%v %v", d1.Threads[0].Pre, d1.Threads[0].Calls, d2.Threads[0].Pre, d2.Threads[0].Calls)
	}
	want := []string{"mkdirat", "openat", "write", "close", "renameat", "mkdirat", "openat", "write", "close", "renameat", "openat", "write", "close", "renameat"}
	if !reflect.DeepEqual(d1.Threads[0].Calls, want) {
		selfFail(t, "the reference store routine is seen making %v, want %v", d1.Threads[0].Calls, want)
	}
	// ---- a kill lands at the entry of the chosen call
	one := StoreCase{Compressed: false, Chunks: []ChunkSpec{{Kind: "rand", Len: 700, Seed: 9}}, Writers: [][]int{{0}}, Keep: "all", Bad: "ref"}
	for _, tc := range []struct {
		sys        string
		leftSize   int64 // -1: no leftover expected
		chunkThere bool
	}{{"openat", -1, false}, {"write", 0, false}, {"close", 700, false}, {"renameat", 700, false}} {
		c := one
		c.Mode, c.Sys, c.Count = "kill", tc.sys, 1
		got := landing(c)
		if got.leftSize != tc.leftSize || got.chunk != tc.chunkThere || !got.killed {
			selfFail(t, "kill at %s#1: killed=%v leftover size %d (want %d), chunk visible %v (want %v)", tc.sys, got.killed, got.leftSize, tc.leftSize, got.chunk, tc.chunkThere)
		}
	}
	c := one
	c.Mode, c.Fsize = "fsize-kill", 5
	if got := landing(c); !got.killed || got.leftSize != 5 || got.chunk {
		selfFail(t, "RLIMIT_FSIZE=5 + kill at the following write: killed=%v leftover size %d (want 5), chunk visible %v", got.killed, got.leftSize, got.chunk)
	}
	// ---- planted defects are reported under the right signature
	for _, m := range []struct {
		c    StoreCase
		want string
	}{
		{StoreCase{Chunks: one.Chunks, Writers: one.Writers, Mode: "kill", Sys: "write", Count: 2, Bad: "direct"}, "C08:store:partial-visible"},
		{StoreCase{Compressed: true, Chunks: one.Chunks, Writers: one.Writers, Mode: "kill", Sys: "close", Count: 1, Bad: "direct"}, ""},
		{StoreCase{Compressed: true, Chunks: one.Chunks, Writers: one.Writers, Mode: "kill", Sys: "write", Count: 2, Bad: "direct"}, "C08:store:partial-visible"},
		{StoreCase{Chunks: one.Chunks, Writers: one.Writers, Mode: "fsize", Fsize: 100, Bad: "direct"}, "C08:store:error-path-left-chunkname"},
		{StoreCase{Chunks: one.Chunks, Writers: one.Writers, Mode: "none", Bad: "stray", Keep: "all"}, "C08:store:leftover-not-pruned"},
	} {
		o := runStore(m.c)
		got := sigs(o)
		if m.want == "" && len(got) > 0 || m.want != "" && !got[m.want] {
			selfFail(t, "planted case %+v: want signature %q, got %v", m.c, m.want, o.Violations)
		}
	}
	// ---- extract: file comparison and an undisturbed run
	f := filepath.Join(dir, "f")
	os.WriteFile(f, []byte("abc"), 0o644)
	s1 := statFile(f)
	os.WriteFile(f+".n", []byte("abc"), 0o644)
	os.Rename(f+".n", f)
	if s1.diff(statFile(f)) == "" {
		selfFail(t, "fileState.diff does not notice a replaced inode")
	}
	ec := ExtractCase{Chunks: []ChunkSpec{{Kind: "rand", Len: 100, Seed: 1}, {Kind: "rand", Len: 200, Seed: 2}}, Layout: []int{0, 1, 0}, N: 2, K: 0, Prior: "absent"}
	o := runExtract(ec)
	if len(o.Violations) > 0 || o.Desc.(map[string]any)["died"] != false || o.Desc.(map[string]any)["requests"].(int) < 2 {
		selfFail(t, "undisturbed extract through the harness server: %+v %v", o.Desc, o.Violations)
	}
	ec.K, ec.Inplace = 2, true
	o = runExtract(ec)
	if len(o.Violations) > 0 || o.Desc.(map[string]any)["died"] != true || !o.Nontrivial {
		selfFail(t, "killed in-place extract: %+v %v", o.Desc, o.Violations)
	}
	// ---- extract with the other digest: the world the harness builds is accepted by `desync --digest sha256`
	sc2 := ExtractCase{Chunks: ec.Chunks, Layout: ec.Layout, N: 2, K: 0, Prior: "absent", Digest: "sha256"}
	o = runExtract(sc2)
	if len(o.Violations) > 0 || o.Desc.(map[string]any)["died"] != false || o.Desc.(map[string]any)["requests"].(int) < 2 {
		selfFail(t, "undisturbed sha256 extract through the harness server: %+v %v %v", o.Desc, o.Violations, o.Observed)
	}
	// ---- long destination names: the harness can make and compare them (an in-place extract never needed a temporary)
	if got := squeeze("a/blob" + strings.Repeat("x", 20) + ".N"); got != "a/blobx{20}.N" {
		selfFail(t, "squeeze: %q", got)
	}
	ln := ExtractCase{Chunks: ec.Chunks, Layout: ec.Layout, N: 1, K: 0, Inplace: true, Prior: "garbage", PriorSeed: 4, PriorLen: 300, NameLen: 255, DirDepth: 20}
	o = runExtract(ln)
	if len(o.Violations) == 0 && (o.Desc.(map[string]any)["died"] != false || o.Desc.(map[string]any)["name_len"] != 255) {
		selfFail(t, "undisturbed in-place extract to a 255-byte name, 20 directories deep: %+v %v", o.Desc, o.Observed)
	}
	ln.Inplace, ln.K, ln.Bad = false, 1, "unlink-dest"
	if o = runExtract(ln); !sigs(o)["C08:extract:dest-touched"] {
		selfFail(t, "planted loss of a long-named destination is not reported: %+v %v", o.Desc, o.Violations)
	}
	// ---- extract under strace: reading of a log with interleaved threads
	dest := "/w/out/blob"
	lg := "7 openat(AT_FDCWD, \"/w/out/.blob.123\", O_RDWR|O_CREAT|O_EXCL|O_CLOEXEC, 0644) = 6\n" +
		"8 unlinkat(AT_FDCWD, \"/w/out/.tmp55\", 0 <unfinished ...>\n" +
		"7 renameat(AT_FDCWD, \"/w/out/.blob.123\", AT_FDCWD, \"/w/out/blob\" <unfinished ...>\n" +
		"8 <... unlinkat resumed>)               = 0\n" +
		"7 <... renameat resumed>)               = 0\n" +
		"8 unlinkat(AT_FDCWD, \"/w/out/.blob.123\", 0) = ?\n" +
		"8 +++ killed by SIGKILL +++\n"
	xt := analyseExtract([]byte(lg), dest, true, map[string]bool{"unlinkat": true}, 2)
	if !xt.Renamed || xt.Hit == nil || xt.Hit.Name != "unlinkat" || xt.Hit.Ord != 2 || xt.Totals["unlinkat"] != 2 || xt.Hit.short("/w/out") != "unlinkat(<out>/.blob.N)" {
		selfFail(t, "analyseExtract misreads a log: renamed=%v hit=%+v totals=%v", xt.Renamed, xt.Hit, xt.Totals)
	}
	xt = analyseExtract([]byte(strings.Replace(lg, "\"/w/out/blob\" <unfinished", "\"/w/out/blob2\" <unfinished", 1)), dest, false, nil, 0)
	if xt.Renamed || xt.Hit != nil {
		selfFail(t, "analyseExtract sees a rename onto the destination where there is none")
	}
	// ---- extract under strace: where the kill lands, an injected failure, the planted defect.
	// What desync does is not the self-test's business: these only run when the undisturbed traced
	// extract is clean and replaces its destination with one rename, and only judge clean outcomes.
	fc := ExtractCase{Chunks: ec.Chunks, Layout: ec.Layout, N: 2, Prior: "garbage", PriorSeed: 3, PriorLen: 500, Death: "strace-kill", Syscall: xFamilies["rename"], When: 1}
	has := func(o hx.Outcome, cl string) bool {
		for _, c := range o.Classes {
			if c == cl {
				return true
			}
		}
		return false
	}
	_, totals := finalPhasePoints(fc)
	if totals["rename"]+totals["renameat"]+totals["renameat2"] != 1 {
		fmt.Printf("note: traced extract makes %v; landing self-tests skipped\n", totals)
		return
	}
	o = runExtract(fc)
	if len(o.Violations) == 0 && (!has(o, "extract:killed-at-rename") || !has(o, "extract:final-phase-kill") || !o.Nontrivial || o.Observed.(map[string]any)["renamed_onto_dest"] != false) {
		selfFail(t, "kill at the entry of the final rename: %+v classes %v", o.Desc, o.Classes)
	}
	fc.Death = "strace-err"
	o = runExtract(fc)
	if len(o.Violations) == 0 && (!has(o, "extract:rename-failed") || o.Desc.(map[string]any)["died"] != true) {
		selfFail(t, "injected failure of the final rename: %+v classes %v", o.Desc, o.Classes)
	}
	fc.Death, fc.Syscall, fc.When = "strace-kill", xFamilies["unlink"], 500 // beyond what any thread does: runs to its end
	o = runExtract(fc)
	if len(o.Violations) == 0 && (!has(o, "extract:completed") || o.Observed.(map[string]any)["renamed_onto_dest"] != true) {
		selfFail(t, "traced extract with an unreachable crash point: %+v classes %v", o.Desc, o.Classes)
	}
	for _, m := range []struct {
		death, prior, want string
	}{{"strace-kill", "garbage", "C08:extract:dest-touched:final-phase"}, {"strace-err", "partial", "C08:extract:dest-touched:final-phase"}, {"strace-kill", "absent", ""}} {
		pc := fc
		pc.Death, pc.Prior, pc.Syscall, pc.When, pc.Bad = m.death, m.prior, xFamilies["rename"], 1, "unlink-dest"
		o = runExtract(pc)
		if got := sigs(o); m.want != "" && !got[m.want] && !got["C08:extract:dest-touched"] {
			selfFail(t, "planted loss of the destination (%s, prior %s): want signature %q, got %v", m.death, m.prior, m.want, o.Violations)
		}
	}
}

type landed struct {
	killed   bool
	leftSize int64
	chunk    bool
}

// landing runs one crash point and reports what is in the store afterwards (before any Prune).
func landing(c StoreCase) landed {
	c = c.normalise()
	plain := [][]byte{c.Chunks[0].bytes()}
	ids := []string{plainID(plain[0])}
	d := c.dry(plain, ids, false)
	work := hx.Scratch("c08land")
	defer os.RemoveAll(work)
	store := c.prepare(work, plain, ids)
	var r childResult
	if c.Mode == "fsize-kill" {
		pr := runChild(c.job(store, c.Fsize), work, "", 0)
		os.RemoveAll(store)
		store = c.prepare(work, plain, ids)
		r = runChild(c.job(store, c.Fsize), work, "write", pr.Trace.Threads[0].EFBIGOrd)
	} else {
		r = runChild(c.job(store, -1), work, c.Sys, d.Threads[0].Pre[c.Sys]+c.Count)
	}
	scan, _ := scanTree(store)
	l := landed{killed: r.Trace.Killed, leftSize: -1, chunk: len(scan.Chunks) > 0}
	if len(scan.Leftovers) == 1 {
		if fi, err := os.Stat(filepath.Join(store, scan.Leftovers[0])); err == nil {
			l.leftSize = fi.Size()
		}
	}
	return l
}
