package c08

// Store half, the rename that fails: StoreChunk's final rename of its temporary returns ENOENT
// because something else (a Prune of the same store cleans up .tmp-cacnk* files) took the
// temporary away between create and rename.
//
//   inject: deterministic. strace fails the f-th rename* of the pinned writer with ENOENT
//           (the call is not executed), then the writer is killed at the entry of every later
//           call, exactly as the plain crash-point enumeration does.
//   prune:  the real thing. The parent runs Prune of the store in a loop (and a reader that keeps
//           validating every chunk-named file) while the traced child stores many chunks; whether
//           a temporary was taken is read from the strace log.
//
// Oracle (unchanged): a file under a chunk name is only ever a complete valid chunk. It has to
// appear by rename/link of a complete temporary: an open(O_CREAT) of a chunk name seen in the
// writer's log makes an empty file visible under that name, whatever follows. StoreChunk
// returning an error after the failed rename is fine.

import (
	"context"
	"fmt"
	"os"
	"path/filepath"
	"regexp"
	"strings"
	"sync"
	"testing"

	"github.com/folbricht/desync"

	"verifharness/internal/hx"
)

type RenameCase struct {
	Compressed bool        `json:"compressed"`
	Chunks     []ChunkSpec `json:"chunks"`
	Order      []int       `json:"order"`             // chunk indices the single pinned writer stores
	Variant    string      `json:"variant"`           // inject | prune
	FailAt     int         `json:"fail_at,omitempty"` // inject: which rename* of the writer's window fails (1-based)
	Sys        string      `json:"sys,omitempty"`     // inject: then kill at the entry of this call ...
	Count      int         `json:"count,omitempty"`   // ... its per-thread ordinal from the start marker, in the run with the failed rename; 0 = no kill
	Pruners    int         `json:"pruners,omitempty"` // prune: concurrent Prune loops in the parent
}

var (
	reQuoted  = regexp.MustCompile(`"((?:[^"\\]|\\.)*)"`)
	renameSet = map[string]bool{"rename": true, "renameat": true, "renameat2": true}
)

// inPlaceCreations lists chunk names under dir that the log shows being created by open(O_CREAT).
func inPlaceCreations(log []byte, dir string) (names []string) {
	lines, _ := parseLog(log)
	for _, l := range lines {
		if l.resumed || !strings.Contains(l.args, "O_CREAT") {
			continue
		}
		switch l.name {
		case "open", "openat", "openat2", "creat":
		default:
			continue
		}
		m := reQuoted.FindStringSubmatch(l.args)
		if m == nil || !strings.HasPrefix(m[1], dir+"/") {
			continue
		}
		if _, _, ok := chunkName(filepath.Base(m[1])); ok {
			names = append(names, strings.TrimPrefix(m[1], dir+"/"))
		}
	}
	return names
}

// renameENOENT counts rename* calls of the log that returned ENOENT (injected or real).
func renameENOENT(log []byte) (n int) {
	lines, _ := parseLog(log)
	for _, l := range lines {
		if renameSet[l.name] && strings.Contains(l.ret, "ENOENT") {
			n++
		}
	}
	return n
}

type renameRef struct {
	Name  string // the rename call the writer uses
	When  int    // absolute ordinal of the failing one
	Pre   map[string]int
	Post  map[string]int
	Calls []string
	After int // index in Calls of the failing rename
	Log   string
}

var (
	rrMu    sync.Mutex
	rrCache = map[string]*renameRef{}
)

func (c RenameCase) normalise() RenameCase {
	if len(c.Chunks) == 0 {
		c.Chunks = []ChunkSpec{{Kind: "rand", Len: 100, Seed: 1}}
	}
	for i := range c.Chunks {
		if c.Chunks[i].Len < 1 {
			c.Chunks[i].Len = 1
		}
	}
	if len(c.Order) == 0 {
		c.Order = []int{0}
	}
	ord := make([]int, len(c.Order))
	for i, v := range c.Order {
		if v < 0 {
			v = -v
		}
		ord[i] = v % len(c.Chunks)
	}
	c.Order = ord
	if c.Variant != "prune" {
		c.Variant = "inject"
	}
	if c.FailAt < 1 {
		c.FailAt = 1
	}
	if c.Count < 0 {
		c.Count = 0
	}
	if c.Pruners < 1 {
		c.Pruners = 2
	}
	if c.Pruners > 4 {
		c.Pruners = 4
	}
	return c
}

func (c RenameCase) store() StoreCase {
	return StoreCase{Compressed: c.Compressed, Chunks: c.Chunks, Writers: [][]int{c.Order}, Mode: "none"}.normalise()
}

// ref runs the child with only the rename failure injected and remembers what it does then.
func (c RenameCase) ref(plain [][]byte, ids []string, fresh bool) *renameRef {
	sc := c.store()
	key := sc.contentKey() + fmt.Sprint("/", c.FailAt)
	rrMu.Lock()
	r := rrCache[key]
	rrMu.Unlock()
	if r != nil && !fresh {
		return r
	}
	d := sc.dry(plain, ids, fresh)
	t0 := d.Threads[0]
	r = &renameRef{}
	for _, s := range t0.Calls {
		if renameSet[s] {
			r.Name = s
			break
		}
	}
	if r.Name == "" {
		return r // the writer never renames: nothing to fail
	}
	f := 1 + (c.FailAt-1)%t0.Post[r.Name]
	r.When = t0.Pre[r.Name] + f
	work := hx.Scratch("c08rr")
	defer os.RemoveAll(work)
	store := sc.prepare(work, plain, ids)
	res := runChildInj(sc.job(store, -1), work, "", 0, fmt.Sprintf("%s:error=ENOENT:when=%d", r.Name, r.When))
	if res.Report == nil || len(res.Trace.Threads) != 1 || !res.Trace.Threads[0].Ended || renameENOENT(res.Log) != 1 {
		infra("reference run with %s #%d failing with ENOENT went wrong (exit %d)\nstdout: %s\n%s", r.Name, r.When, res.ExitCode, res.Stdout, logTail(res.Log, 30))
	}
	tt := res.Trace.Threads[0]
	r.Pre, r.Post, r.Calls, r.Log = tt.Pre, tt.Post, tt.Calls, logTail(res.Log, 40)
	n := 0
	for i, s := range tt.Calls {
		if s == r.Name {
			if n++; n == f {
				r.After = i
			}
		}
	}
	rrMu.Lock()
	if len(rrCache) > 2000 {
		rrCache = map[string]*renameRef{}
	}
	rrCache[key] = r
	rrMu.Unlock()
	return r
}

func runRename(c RenameCase) (o hx.Outcome) {
	c = c.normalise()
	sc := c.store()
	plain := make([][]byte, len(c.Chunks))
	ids := make([]string, len(c.Chunks))
	for i, cs := range c.Chunks {
		plain[i] = cs.bytes()
		ids[i] = plainID(plain[i])
	}
	work := hx.Scratch("c08rf")
	defer os.RemoveAll(work)
	var res childResult
	var store, how string
	var seenBad []string // prune: what the concurrent reader saw
	killSys, killWhen := "", 0
	switch c.Variant {
	case "inject":
		for attempt := 0; ; attempt++ {
			r := c.ref(plain, ids, attempt > 0)
			os.RemoveAll(work)
			os.MkdirAll(work, 0o755)
			store = sc.prepare(work, plain, ids)
			if r.Name == "" {
				res = runChild(sc.job(store, -1), work, "", 0)
				how = "no rename to fail"
				break
			}
			killSys, killWhen = "", 0
			// strace takes one inject rule per call: the rename that fails cannot also be the call killed
			if c.Count > 0 && c.Sys != r.Name && c.Count <= r.Post[c.Sys] {
				killSys, killWhen = c.Sys, r.Pre[c.Sys]+c.Count
			}
			res = runChildInj(sc.job(store, -1), work, killSys, killWhen, fmt.Sprintf("%s:error=ENOENT:when=%d", r.Name, r.When))
			off := len(res.Trace.Threads) != 1 || (killSys != "") != res.Trace.Killed
			if !off {
				got := res.Trace.Threads[0].Calls
				for i := range got {
					if i >= len(r.Calls) || got[i] != r.Calls[i] {
						off = true
					}
				}
			}
			if off {
				if attempt == 0 {
					continue
				}
				infra("run with %s #%d failing and kill at (%s, %d) left the reference sequence\n--- reference:\n%s\n--- this run:\n%s", r.Name, r.When, killSys, killWhen, r.Log, logTail(res.Log, 30))
			}
			how = fmt.Sprintf("%s #%d of the writer failed with ENOENT (injected)", r.Name, r.When)
			if killSys != "" {
				how += fmt.Sprintf(", then the process was killed at the entry of %s #%d", killSys, killWhen)
			}
			break
		}
	case "prune":
		store = sc.prepare(work, plain, ids)
		keep := map[desync.ChunkID]struct{}{}
		for _, id := range ids {
			cid, _ := desync.ChunkIDFromString(id)
			keep[cid] = struct{}{}
		}
		ls, err := desync.NewLocalStore(store, desync.StoreOptions{Uncompressed: !c.Compressed})
		if err != nil {
			infra("NewLocalStore for the concurrent prune: %v", err)
		}
		ctx, cancel := context.WithCancel(context.Background())
		var wg sync.WaitGroup
		for i := 0; i < c.Pruners; i++ {
			wg.Add(1)
			go func() {
				defer wg.Done()
				for ctx.Err() == nil {
					ls.Prune(ctx, keep) // errors (entries vanishing under the walk) are its own business
				}
			}()
		}
		wg.Add(1)
		go func() { // a reader: every chunk-named file it finds must be a complete valid chunk
			defer wg.Done()
			for ctx.Err() == nil {
				if scan, err := scanTree(store); err == nil {
					for _, cf := range scan.Chunks {
						if !cf.Valid && len(seenBad) < 5 {
							seenBad = append(seenBad, cf.Rel+": "+cf.Why)
						}
					}
				}
			}
		}()
		res = runChild(sc.job(store, -1), work, "", 0)
		cancel()
		wg.Wait()
		how = fmt.Sprintf("%d Prune loops ran on the store while the writer stored %d chunks", c.Pruners, len(c.Order))
	}
	killed := res.Trace.Killed
	if !killed && (res.Report == nil || res.Report.Err != "") {
		infra("store child ended without a report and without being killed (exit %d)\nstdout: %s\nstderr: %s\n%s", res.ExitCode, res.Stdout, res.Stderr, logTail(res.Log, 30))
	}
	failed := renameENOENT(res.Log)

	o.Desc = map[string]any{"part": "renamefail", "variant": c.Variant, "compressed": c.Compressed, "chunks": len(c.Chunks), "ops": len(c.Order),
		"fail_at": c.FailAt, "kill": fmt.Sprintf("%s:%d", killSys, killWhen), "killed": killed, "renames_enoent": failed}
	o.Key = fmt.Sprintf("r/%s/%s/%d/%s/%d/%v", hx.Hash8([]byte(sc.contentKey())), c.Variant, c.FailAt, killSys, killWhen, failed > 0)
	o.Class("store", "store:single-writer", "store:renamefail:"+c.Variant)
	if c.Compressed {
		o.Class("store:compressed")
	} else {
		o.Class("store:uncompressed")
	}
	if c.Variant == "prune" {
		o.Class("store:concurrent-prune")
		if failed > 0 {
			o.Class("store:concurrent-prune-took-temp")
		}
	}
	if failed > 0 {
		o.Class("store:rename-fails-enoent")
		if killed {
			o.Class("store:rename-fails-enoent+killed-later", "store:rename-fails-enoent+killed-at="+killSys)
		} else {
			o.Class("store:rename-fails-enoent+not-killed")
		}
	}
	o.Nontrivial = failed > 0
	obs := map[string]any{"strace_tail": logTail(res.Log, 30)}
	o.Observed = obs

	// ---- oracle
	scan, err := scanTree(store)
	if err != nil {
		infra("scan of the store failed: %v", err)
	}
	for _, cf := range scan.Chunks {
		if !cf.Valid {
			o.Fail("C08:store:partial-visible", "%s; file %s is visible under a chunk name but is not a complete valid chunk: %s", how, cf.Rel, cf.Why)
		}
	}
	for _, s := range seenBad {
		o.Fail("C08:store:partial-visible", "%s; a reader found an incomplete file under a chunk name meanwhile: %s", how, s)
	}
	if names := inPlaceCreations(res.Log, store); len(names) > 0 {
		o.Fail("C08:store:partial-visible", "%s; the writer then created a chunk name in place (open with O_CREAT, seen in its strace log) instead of renaming a complete temporary onto it: "+
			"from that call on an empty file is visible under %s", how, names[0])
	}
	if !killed && res.Report != nil {
		for _, op := range res.Report.Ops {
			cf := scan.has(ids[op.Chunk])
			if op.Err == "" && (cf == nil || !cf.Valid) {
				o.Fail("C08:store:success-without-chunk", "%s; StoreChunk(chunk %d) returned nil but the store holds no valid chunk %s", how, op.Chunk, ids[op.Chunk][:12])
			}
			if op.Err != "" && failed == 0 {
				o.Fail("C08:store:unexpected-error", "StoreChunk(chunk %d) failed without any fault: %s", op.Chunk, op.Err)
			}
		}
	}
	// the temporaries the failed renames and the kill left behind go away with a Prune
	if len(scan.Leftovers) > 0 {
		o.Class("store:leftover-present")
		ls, err := desync.NewLocalStore(store, desync.StoreOptions{Uncompressed: !c.Compressed})
		if err != nil {
			infra("NewLocalStore for prune: %v", err)
		}
		if perr := ls.Prune(context.Background(), map[desync.ChunkID]struct{}{}); perr != nil {
			o.Fail("C08:store:prune-failed", "%s; Prune of the store afterwards failed: %v", how, perr)
		} else {
			for _, rel := range scan.Leftovers {
				if _, err := os.Lstat(filepath.Join(store, rel)); err == nil {
					o.Fail("C08:store:leftover-not-pruned", "%s; it left %s behind and a successful Prune did not remove it", how, rel)
				}
			}
			o.Class("store:leftover-pruned")
		}
	}
	return o
}

// enumRename: for two small contents, every rename of the writer fails in turn; for each, the
// run without kill and a kill at every call the writer makes after the failed rename. Plus a few
// runs against real concurrent Prune loops.
func enumRename() (cases []Case, points int) {
	contents := []RenameCase{
		{Compressed: false, Chunks: []ChunkSpec{{Kind: "rand", Len: 900, Seed: 41}, {Kind: "text", Len: 5000, Seed: 42}}, Order: []int{0, 1}},
		{Compressed: true, Chunks: []ChunkSpec{{Kind: "text", Len: 7000, Seed: 43}, {Kind: "rand", Len: 300, Seed: 44}}, Order: []int{0, 1, 0}},
	}
	if hx.Thorough() {
		contents = append(contents, RenameCase{Compressed: false, Chunks: []ChunkSpec{{Kind: "rand", Len: 1, Seed: 45}, {Kind: "rand", Len: 262144, Seed: 46}, {Kind: "zero", Len: 4096}}, Order: []int{1, 0, 2, 1}})
	}
	for _, base := range contents {
		base = base.normalise()
		plain := make([][]byte, len(base.Chunks))
		ids := make([]string, len(base.Chunks))
		for i, cs := range base.Chunks {
			plain[i] = cs.bytes()
			ids[i] = plainID(plain[i])
		}
		for f := 1; f <= len(base.Order); f++ {
			c := base
			c.FailAt = f
			r := c.ref(plain, ids, false)
			if r.Name == "" {
				continue
			}
			cases = append(cases, Case{Part: "renamefail", Rename: &c})
			points++
			seen := map[string]int{}
			for i, s := range r.Calls {
				seen[s]++
				if i <= r.After || s == r.Name {
					continue
				}
				k := c
				k.Sys, k.Count = s, seen[s]
				cases = append(cases, Case{Part: "renamefail", Rename: &k})
				points++
			}
		}
	}
	big := []ChunkSpec{{Kind: "rand", Len: 400000, Seed: 51}, {Kind: "rand", Len: 1000, Seed: 52}, {Kind: "text", Len: 90000, Seed: 53}, {Kind: "rand", Len: 200000, Seed: 54}}
	var order []int
	for i := 0; i < hx.Pick(40, 120); i++ {
		order = append(order, i%len(big))
	}
	for i := 0; i < hx.Pick(4, 16); i++ {
		cases = append(cases, Case{Part: "renamefail", Rename: &RenameCase{Compressed: i%2 == 1, Chunks: big, Order: order, Variant: "prune", Pruners: 2 + i%2}})
	}
	return cases, points
}

// TestEnumRenameFail is part of the enumeration (own function to keep TestEnum as it is); its
// units are spread over the shards like those of TestEnum.
func TestEnumRenameFail(t *testing.T) {
	needInfra(t)
	cases, points := enumRename()
	var my []Case
	for i, c := range cases {
		if i%hx.Shards() == hx.Shard() {
			my = append(my, c)
		}
	}
	pool(t, my)
	if t.Failed() {
		return
	}
	if hx.Shard() == 0 {
		hx.AddNote("enumerated_rename_enoent_points", points)
	}
	hx.Exhaustive("store, final rename fails with ENOENT (strace error injection): every rename of the writer for the fixed contents x {no kill, SIGKILL at every later call of the writer except rename itself}")
}
