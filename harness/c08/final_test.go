package c08

// Extract part, third family of death modes: the whole `desync extract` runs under strace -f (every
// chunk request is answered normally) and the c-th call of one directory-visible system call is
// either answered with SIGKILL at its entry ("strace-kill") or made to fail ("strace-err"). This
// reaches the crash points the request-held kills cannot: everything between the end of the
// assembly and the replacement of the destination, and a replacement that fails.
//
// strace counts when= per thread; the Go runtime moves the work between threads, so (syscall, c)
// means "the first thread that reaches its c-th call of syscall". Every such run is a valid crash
// point; which call was really hit is read from the log.

import (
	"bytes"
	"context"
	"errors"
	"fmt"
	"os"
	"os/exec"
	"path/filepath"
	"regexp"
	"runtime"
	"sort"
	"strings"
	"syscall"
)

// Calls that can change what a directory shows (names, sizes through truncation, modes, times,
// owners). Data writes are not in it: the request-held kills cover the assembly itself.
const xTraceSet = "?open,openat,?openat2,?creat,?mkdir,mkdirat,?mknod,mknodat,fchmod,?chmod,fchmodat,?fchmodat2," +
	"?rename,renameat,renameat2,?unlink,unlinkat,?rmdir,?link,linkat,?symlink,symlinkat,ftruncate,truncate,fallocate," +
	"utimensat,?utimes,?utime,?futimesat,fchown,?chown,?lchown,fchownat"

// families used by the generated cases (the enumeration takes the exact names from its dry run)
var xFamilies = map[string]string{
	"rename":   "?rename,renameat,renameat2",
	"unlink":   "?unlink,unlinkat,?rmdir",
	"truncate": "truncate,ftruncate,fallocate",
	"open":     "?open,openat,?openat2,?creat",
	"link":     "?link,linkat,?symlink,symlinkat",
	"chmod":    "?chmod,fchmod,fchmodat,?fchmodat2",
}

var (
	reSysSet  = regexp.MustCompile(`^[a-z0-9_?,]+$`)
	reErrno   = regexp.MustCompile(`^E[A-Z0-9]+$`)
	reDigits  = regexp.MustCompile(`[0-9]{3,}`)
	rePathArg = regexp.MustCompile(`"((?:[^"\\]|\\.)*)"`)
)

var renameLike = map[string]bool{"rename": true, "renameat": true, "renameat2": true, "link": true, "linkat": true}

type xCall struct {
	Tid      int
	Name     string
	Args     string
	Ret      string
	Ord      int // per-thread ordinal among calls of the same name
	Injected bool
}

// onto reports whether the call is a rename/link whose new name is dest.
func (c *xCall) onto(dest string) bool {
	if !renameLike[c.Name] {
		return false
	}
	m := rePathArg.FindAllStringSubmatch(c.Args, -1)
	return len(m) >= 2 && m[len(m)-1][1] == dest
}

// touched returns the first call that changed the destination path itself (created it where there was
// none, truncated or removed or renamed away an existing one) before a rename/link onto it succeeded.
func (xt *xTrace) touched(dest string, existed bool) *xCall {
	for i := range xt.Calls {
		c := &xt.Calls[i]
		if c.ok() && c.onto(dest) {
			return nil
		}
		m := rePathArg.FindAllStringSubmatch(c.Args, -1)
		if len(m) == 0 || m[0][1] != dest || strings.HasPrefix(c.Ret, "-1") || c.Ret == "" || c.Ret == "?" {
			continue
		}
		switch c.Name {
		case "open", "openat", "openat2", "creat":
			if !existed && (strings.Contains(c.Args, "O_CREAT") || c.Name == "creat") || existed && (strings.Contains(c.Args, "O_TRUNC") || c.Name == "creat") {
				return c
			}
		case "truncate", "unlink", "unlinkat", "rename", "renameat", "renameat2":
			if existed {
				return c
			}
		}
	}
	return nil
}

func (c *xCall) ok() bool { return c.Ret == "0" || strings.HasPrefix(c.Ret, "0 ") }

// short is a stable rendering of a call for descriptions: name + base names with run-specific digits masked.
func (c *xCall) short(dir string) string {
	var ps []string
	for _, m := range rePathArg.FindAllStringSubmatch(c.Args, -1) {
		p := m[1]
		if strings.HasPrefix(p, dir+"/") {
			p = "<out>/" + strings.TrimPrefix(p, dir+"/")
		}
		ps = append(ps, squeeze(reDigits.ReplaceAllString(p, "N")))
	}
	return c.Name + "(" + strings.Join(ps, " -> ") + ")"
}

type xTrace struct {
	Calls   []xCall
	Totals  map[string]int // calls per system call name, all threads together
	PerThr  map[string]int // largest per-thread count per name
	Killed  bool           // strace ended by SIGKILL (it passes the fate of its tracee on)
	Hit     *xCall         // kill: the call that never returned; err: the first call that got the injected error
	NHit    int            // err: calls that got the injected error (one per thread that reached its c-th call)
	Renamed bool           // a rename/link onto the destination returned 0
	Log     []byte
}

func analyseExtract(b []byte, dest string, killed bool, injSet map[string]bool, when int) *xTrace {
	lines, _ := parseLog(b)
	xt := &xTrace{Totals: map[string]int{}, PerThr: map[string]int{}, Killed: killed, Log: b}
	counts := map[int]map[string]int{}
	pending := map[int]int{} // tid -> index into xt.Calls
	for i := range lines {
		l := &lines[i]
		if l.resumed {
			if pi, ok := pending[l.tid]; ok && xt.Calls[pi].Name == l.name {
				xt.Calls[pi].Ret = l.ret
				xt.Calls[pi].Args += l.args
				delete(pending, l.tid)
			}
			continue
		}
		if counts[l.tid] == nil {
			counts[l.tid] = map[string]int{}
		}
		counts[l.tid][l.name]++
		xt.Totals[l.name]++
		xt.PerThr[l.name] = max(xt.PerThr[l.name], counts[l.tid][l.name])
		xt.Calls = append(xt.Calls, xCall{Tid: l.tid, Name: l.name, Args: l.args, Ret: l.ret, Ord: counts[l.tid][l.name]})
		if l.ret == "" {
			pending[l.tid] = len(xt.Calls) - 1
		}
	}
	for i := range xt.Calls {
		c := &xt.Calls[i]
		c.Injected = strings.Contains(c.Ret, "(INJECTED)")
		if c.ok() && c.onto(dest) {
			xt.Renamed = true
		}
		if c.Injected {
			xt.NHit++
			if xt.Hit == nil {
				xt.Hit = c
			}
		}
		if killed && injSet[c.Name] && c.Ord == when && (c.Ret == "" || c.Ret == "?") {
			xt.Hit = c
		}
	}
	return xt
}

// runDesyncStrace runs the CLI under strace -f in its own process group. sysSet == "" = no injection.
func runDesyncStrace(dir string, cliArgs []string, dest, death, sysSet string, when int, errno string) (res procResult, xt *xTrace) {
	if err := straceCheck(); err != nil {
		infra("strace unavailable: %v", err)
	}
	bin := os.Getenv("VERIF_DESYNC_BIN")
	runtime.LockOSThread()
	defer runtime.UnlockOSThread()
	logPath := filepath.Join(dir, "strace-extract.log")
	os.Remove(logPath)
	args := []string{"-f", "-o", logPath, "-e", "signal=none", "-e", "trace=" + xTraceSet}
	injSet := map[string]bool{}
	if sysSet != "" && when > 0 {
		if !reSysSet.MatchString(sysSet) || !reErrno.MatchString(errno) {
			infra("bad injection spec %q / %q", sysSet, errno)
		}
		for _, s := range strings.Split(sysSet, ",") {
			injSet[strings.TrimPrefix(s, "?")] = true
		}
		if death == "strace-err" {
			args = append(args, "-e", fmt.Sprintf("inject=%s:error=%s:when=%d", sysSet, errno, when))
		} else {
			args = append(args, "-e", fmt.Sprintf("inject=%s:signal=KILL:when=%d", sysSet, when))
		}
	}
	args = append(args, "--", bin)
	args = append(args, cliArgs...)
	cmd := exec.Command(stracePath, args...)
	cmd.Dir = dir
	cmd.Env = []string{"HOME=" + dir, "TMPDIR=" + dir, "PATH=/usr/bin:/bin", "NO_PROXY=*", "no_proxy=*"}
	cmd.SysProcAttr = &syscall.SysProcAttr{Setpgid: true, Pdeathsig: syscall.SIGKILL}
	var se bytes.Buffer
	cmd.Stderr = &se
	cmd.Stdout = &se
	if err := cmd.Start(); err != nil {
		infra("cannot start strace: %v", err)
	}
	pgid := cmd.Process.Pid
	done := make(chan error, 1)
	go func() { done <- cmd.Wait() }()
	ctx, cancel := context.WithTimeout(context.Background(), childTimeout)
	defer cancel()
	var werr error
	select {
	case werr = <-done:
	case <-ctx.Done():
		syscall.Kill(-pgid, syscall.SIGKILL)
		<-done
		infra("traced desync %v did not finish within %s (inject %s:%d)\n%s", cliArgs, childTimeout, sysSet, when, se.String())
	}
	syscall.Kill(-pgid, syscall.SIGKILL) // nothing of the group may survive
	killed := false
	var ee *exec.ExitError
	if errors.As(werr, &ee) {
		res.Exit = ee.ExitCode()
		if ws, ok := ee.Sys().(syscall.WaitStatus); ok && ws.Signaled() {
			if ws.Signal() != syscall.SIGKILL {
				infra("traced desync died of %v (inject %s:%d)\n%s", ws.Signal(), sysSet, when, se.String())
			}
			res.Signaled, killed = true, true
		}
	} else if werr != nil {
		infra("wait for strace: %v", werr)
	}
	res.Stderr = se.String()
	for _, m := range []string{"cannot assign requested address", "address already in use", "too many open files"} {
		if strings.Contains(res.Stderr, m) {
			infra("desync could not reach the harness server (machine out of sockets?): %s", tail(res.Stderr, 400))
		}
	}
	b, _ := os.ReadFile(logPath)
	os.Remove(logPath)
	xt = analyseExtract(b, dest, killed, injSet, when)
	if killed && (death != "strace-kill" || xt.Hit == nil) {
		infra("traced desync was killed but the log does not show the injected kill (inject %s %s:%d)\n%s", death, sysSet, when, logTail(b, 30))
	}
	if !killed && len(xt.Calls) == 0 {
		infra("strace log of the extract is empty (exit %d): %s", res.Exit, tail(res.Stderr, 400))
	}
	return res, xt
}

// finalPhasePoints runs the case undisturbed under strace and lists, per system call seen, how many
// calls the whole process makes: c = 1..total covers every per-thread ordinal any placement can produce.
func finalPhasePoints(c ExtractCase) (names []string, totals map[string]int) {
	c.Death, c.Syscall, c.When, c.K = "strace-kill", "", 0, 0
	o := runExtract(c)
	if len(o.Violations) > 0 {
		return nil, nil // the undisturbed run itself is part of the enumeration and will report it
	}
	totals, _ = o.Observed.(map[string]any)["syscall_totals"].(map[string]int)
	for s := range totals {
		names = append(names, s)
	}
	sort.Strings(names)
	if len(names) == 0 {
		infra("dry run of the traced extract shows no directory-visible system call")
	}
	return names, totals
}
