package c08

// Extract part: the freshly built CLI extracts from an HTTP chunk server owned by the harness.
// The server holds the k-th chunk request; meanwhile the process is SIGKILLed (mode "kill"), or
// the k-th request is answered 404 so that the process dies of its own error (mode "err").

import (
	"bytes"
	"context"
	"encoding/hex"
	"errors"
	"fmt"
	"net"
	"net/http"
	"os"
	"os/exec"
	"path/filepath"
	"runtime"
	"strconv"
	"strings"
	"sync"
	"syscall"
	"time"

	"verifharness/internal/gen"
	"verifharness/internal/hx"
	"verifharness/internal/ref"
)

type ExtractCase struct {
	Chunks    []ChunkSpec `json:"chunks"` // distinct chunk contents
	Layout    []int       `json:"layout"` // the blob = concatenation of Chunks[Layout[i]]
	N         int         `json:"n"`      // -n
	K         int         `json:"k"`      // the k-th chunk request (1-based, arrival order) is the death point; 0 = none
	Inplace   bool        `json:"inplace"`
	Death     string      `json:"death"` // kill | err | sigint | sigterm (graceful stop while the k-th request is held) | strace-kill | strace-err (final_test.go)
	Prior     string      `json:"prior"` // absent | empty | garbage | partial | complete
	PriorSeed uint64      `json:"prior_seed,omitempty"`
	PriorLen  int         `json:"prior_len,omitempty"`
	// strace-kill / strace-err: all chunk requests are answered; the When-th call (per thread) of the
	// system call set Syscall gets SIGKILL at its entry / fails with Errno. When = 0: undisturbed.
	Syscall string `json:"syscall,omitempty"`
	When    int    `json:"when,omitempty"`
	Errno   string `json:"errno,omitempty"`
	// destination name: NameLen = 0 is "blob", otherwise a name of that many bytes (1..255; from 244 on
	// "."+name+".<10 digits>" no longer fits NAME_MAX); DirDepth nests the output directory that many
	// 100-byte directories deep (the path stays far below PATH_MAX: the name limit is the one met)
	NameLen  int        `json:"name_len,omitempty"`
	DirDepth int        `json:"dir_depth,omitempty"`
	Seeds    []SeedSpec `json:"seeds,omitempty"`
	Digest   string     `json:"digest,omitempty"` // "" = sha512-256 | sha256: index, store objects and `desync --digest sha256`
	// SeedAction: "" | skip | regenerate: --skip-invalid-seeds / --regenerate-invalid-seeds on both runs (the seeds of
	// these cases are consistent, so the option changes nothing the statement talks about)
	SeedAction string `json:"seed_action,omitempty"`
	Bad        string `json:"bad,omitempty"` // self-test only: "unlink-dest" = the harness removes the destination after the death
}

// SeedSpec is one seed handed to the extract: a blob with its index, made of chunks of the case
// (Layout[i] >= 0: Chunks[Layout[i]]) and of chunks only the seed has (Layout[i] < 0).
type SeedSpec struct {
	Layout []int `json:"layout"`
	Dir    bool  `json:"dir,omitempty"` // given with --seed-dir <directory> instead of --seed <index>:<blob>
}

func (c ExtractCase) straced() bool { return c.Death == "strace-kill" || c.Death == "strace-err" }

// ---------------------------------------------------------------- chunk server

type srvState struct {
	mu        sync.Mutex
	cond      *sync.Cond
	objs      map[string][]byte // "<4hex>/<id>.cacnk" -> stored bytes
	holdAt    int
	mode      string
	reqs      []string // ids in order of arrival
	served    int      // responses written completely
	servedIDs map[string]bool
	inflight  int
	reached   chan struct{}
	release   chan struct{}
	once      sync.Once
	relOnce   sync.Once
}

var (
	srvOnce   sync.Once
	srvAddr   string
	srvMu     sync.Mutex
	srvStates = map[string]*srvState{}
	srvSeq    int
)

func serverStart() {
	srvOnce.Do(func() {
		// A fixed port below the ephemeral range: when many tests on the machine leave the ephemeral
		// range full of TIME_WAIT sockets, bind(0) fails while connects to a fresh 4-tuple still work.
		var ln net.Listener
		var err error
		for i := 0; i < 200 && ln == nil; i++ {
			port := 10000 + (os.Getpid()*7+i*131)%20000
			ln, err = net.Listen("tcp", "127.0.0.1:"+strconv.Itoa(port))
		}
		if ln == nil {
			ln, err = net.Listen("tcp", "127.0.0.1:0")
		}
		if ln == nil {
			infra("cannot listen on loopback: %v", err)
		}
		srvAddr = ln.Addr().String()
		go http.Serve(ln, http.HandlerFunc(serve))
	})
}

func newState(objs map[string][]byte, holdAt int, mode string) (prefix string, st *srvState) {
	serverStart()
	st = &srvState{objs: objs, holdAt: holdAt, mode: mode, reached: make(chan struct{}), release: make(chan struct{}), servedIDs: map[string]bool{}}
	st.cond = sync.NewCond(&st.mu)
	srvMu.Lock()
	srvSeq++
	prefix = "p" + strconv.Itoa(srvSeq)
	srvStates[prefix] = st
	srvMu.Unlock()
	return prefix, st
}

// releaseAll lets every held request go on (once).
func (st *srvState) releaseAll() { st.relOnce.Do(func() { close(st.release) }) }

func dropState(prefix string) {
	srvMu.Lock()
	delete(srvStates, prefix)
	srvMu.Unlock()
}

func serve(w http.ResponseWriter, r *http.Request) {
	parts := strings.SplitN(strings.TrimPrefix(r.URL.Path, "/"), "/", 2)
	if len(parts) != 2 {
		http.NotFound(w, r)
		return
	}
	srvMu.Lock()
	st := srvStates[parts[0]]
	srvMu.Unlock()
	if st == nil || r.Method != "GET" {
		http.NotFound(w, r)
		return
	}
	body, ok := st.objs[parts[1]]
	id := strings.TrimSuffix(filepath.Base(parts[1]), ".cacnk")
	st.mu.Lock()
	st.reqs = append(st.reqs, id)
	ord := len(st.reqs)
	held := st.holdAt > 0 && ord >= st.holdAt
	if !held {
		st.inflight++
	}
	st.mu.Unlock()
	if held {
		if ord == st.holdAt && st.mode == "err" {
			st.once.Do(func() { close(st.reached) })
			http.NotFound(w, r)
			return
		}
		if st.mode == "kill" || st.mode == "sig" {
			if ord == st.holdAt {
				st.once.Do(func() { close(st.reached) })
			}
			<-st.release
			if st.mode == "kill" {
				panic(http.ErrAbortHandler)
			}
		}
		// mode err, requests behind the failed one, and mode sig after the signal went out: served normally
		st.mu.Lock()
		st.inflight++
		st.mu.Unlock()
	}
	if !ok {
		http.NotFound(w, r)
	} else {
		w.Header().Set("Content-Length", strconv.Itoa(len(body)))
		w.Write(body)
		if f, ok := w.(http.Flusher); ok {
			f.Flush()
		}
	}
	st.mu.Lock()
	st.inflight--
	if ok {
		st.served++
		st.servedIDs[id] = true
	}
	st.cond.Broadcast()
	st.mu.Unlock()
}

// ---------------------------------------------------------------- one extract case

type fileState struct {
	Exists bool
	Ino    uint64
	Size   int64
	Mode   os.FileMode
	Mtime  time.Time
	Data   []byte
}

func statFile(p string) fileState {
	fi, err := os.Lstat(p)
	if err != nil {
		return fileState{}
	}
	fs := fileState{Exists: true, Size: fi.Size(), Mode: fi.Mode(), Mtime: fi.ModTime()}
	if st, ok := fi.Sys().(*syscall.Stat_t); ok {
		fs.Ino = st.Ino
	}
	fs.Data, _ = os.ReadFile(p)
	return fs
}

func (a fileState) diff(b fileState) string {
	switch {
	case a.Exists != b.Exists:
		return fmt.Sprintf("exists %v -> %v (size now %d)", a.Exists, b.Exists, b.Size)
	case !a.Exists:
		return ""
	case a.Ino != b.Ino:
		return fmt.Sprintf("inode %d -> %d (size %d -> %d)", a.Ino, b.Ino, a.Size, b.Size)
	case a.Size != b.Size:
		return fmt.Sprintf("size %d -> %d", a.Size, b.Size)
	case !bytes.Equal(a.Data, b.Data):
		return "content changed"
	case a.Mode != b.Mode:
		return fmt.Sprintf("mode %v -> %v", a.Mode, b.Mode)
	case !a.Mtime.Equal(b.Mtime):
		return "mtime changed"
	}
	return ""
}

type procResult struct {
	Exit     int
	Signaled bool
	Stderr   string
}

// runDesync starts the CLI in its own process group. kill, when non-nil, is waited for together
// with the exit of the process; if it fires first the whole group gets SIGKILL.
// With sig != 0 the process gets that signal instead once the request is held; as soon as the signal
// has been taken the held requests are answered and the process is left to stop by itself.
func runDesync(dir string, args []string, st *srvState, wantKill bool, sig syscall.Signal) (res procResult, killed bool) {
	bin := os.Getenv("VERIF_DESYNC_BIN")
	runtime.LockOSThread()
	defer runtime.UnlockOSThread()
	cmd := exec.Command(bin, args...)
	cmd.Dir = dir
	cmd.Env = []string{"HOME=" + dir, "TMPDIR=" + dir, "PATH=/usr/bin:/bin", "NO_PROXY=*", "no_proxy=*"}
	cmd.SysProcAttr = &syscall.SysProcAttr{Setpgid: true, Pdeathsig: syscall.SIGKILL}
	var se bytes.Buffer
	cmd.Stderr = &se
	cmd.Stdout = &se
	if err := cmd.Start(); err != nil {
		infra("cannot start %s: %v", bin, err)
	}
	pgid := cmd.Process.Pid
	done := make(chan error, 1)
	go func() { done <- cmd.Wait() }()
	ctx, cancel := context.WithTimeout(context.Background(), childTimeout)
	defer cancel()
	var werr error
	var reached <-chan struct{}
	if wantKill {
		reached = st.reached
	}
	select {
	case werr = <-done:
	case <-reached:
		// let the responses that are already on their way out finish (steering only)
		st.mu.Lock()
		for i := 0; st.inflight > 0 && i < 50; i++ {
			t := time.AfterFunc(20*time.Millisecond, st.cond.Broadcast)
			st.cond.Wait()
			t.Stop()
		}
		st.mu.Unlock()
		if sig != 0 {
			syscall.Kill(pgid, sig)
			for i := 0; i < 100 && sigPending(pgid, sig); i++ { // steering only: let the handler take it first
				time.Sleep(5 * time.Millisecond)
			}
			time.Sleep(20 * time.Millisecond)
			st.releaseAll()
			select {
			case werr = <-done:
			case <-ctx.Done():
				syscall.Kill(-pgid, syscall.SIGKILL)
				<-done
				infra("desync %v did not stop within %s after signal %d\n%s", args, childTimeout, sig, se.String())
			}
			break
		}
		syscall.Kill(-pgid, syscall.SIGKILL)
		werr = <-done
		killed = true
	case <-ctx.Done():
		syscall.Kill(-pgid, syscall.SIGKILL)
		<-done
		infra("desync %v did not finish within %s\n%s", args, childTimeout, se.String())
	}
	syscall.Kill(-pgid, syscall.SIGKILL)
	var ee *exec.ExitError
	if errors.As(werr, &ee) {
		res.Exit = ee.ExitCode()
		if ws, ok := ee.Sys().(syscall.WaitStatus); ok && ws.Signaled() {
			res.Signaled = true
		}
	} else if werr != nil {
		infra("wait for desync: %v", werr)
	}
	res.Stderr = se.String()
	for _, m := range []string{"cannot assign requested address", "address already in use", "too many open files"} {
		if strings.Contains(res.Stderr, m) {
			infra("desync could not reach the harness server (machine out of sockets?): %s", tail(res.Stderr, 400))
		}
	}
	return res, killed
}

// sigPending reports whether sig is still pending (not yet taken by a handler) for pid.
func sigPending(pid int, sig syscall.Signal) bool {
	b, err := os.ReadFile("/proc/" + strconv.Itoa(pid) + "/status")
	if err != nil {
		return false
	}
	for _, line := range strings.Split(string(b), "\n") {
		if strings.HasPrefix(line, "SigPnd:") || strings.HasPrefix(line, "ShdPnd:") {
			v, err := strconv.ParseUint(strings.TrimSpace(line[7:]), 16, 64)
			if err == nil && v&(1<<(uint(sig)-1)) != 0 {
				return true
			}
		}
	}
	return false
}

func (c ExtractCase) signal() syscall.Signal {
	switch c.Death {
	case "sigint":
		return syscall.SIGINT
	case "sigterm":
		return syscall.SIGTERM
	}
	return 0
}

func (c ExtractCase) normalise() ExtractCase {
	if len(c.Chunks) == 0 {
		c.Chunks = []ChunkSpec{{Kind: "rand", Len: 10, Seed: 1}}
	}
	for i := range c.Chunks {
		if c.Chunks[i].Len < 1 {
			c.Chunks[i].Len = 1
		}
	}
	if len(c.Layout) == 0 {
		c.Layout = []int{0}
	}
	lay := make([]int, len(c.Layout))
	for i, l := range c.Layout {
		if l < 0 {
			l = -l
		}
		lay[i] = l % len(c.Chunks)
	}
	c.Layout = lay
	if c.N < 1 {
		c.N = 1
	}
	if c.K < 0 {
		c.K = 0
	}
	if c.Digest != "sha256" {
		c.Digest = ""
	}
	if len(c.Seeds) > 3 {
		c.Seeds = c.Seeds[:3]
	}
	c.NameLen = max(0, min(c.NameLen, 255))
	c.DirDepth = max(0, min(c.DirDepth, 25))
	switch c.Death {
	case "err", "sigint", "sigterm":
	case "strace-kill", "strace-err":
		c.K = 0
		if c.When < 0 || c.Syscall == "" {
			c.When = 0
		}
		if c.Errno == "" {
			c.Errno = "EIO"
		}
	default:
		c.Death = "kill"
	}
	return c
}

func runExtract(c ExtractCase) (o hx.Outcome) {
	c = c.normalise()
	if os.Getenv("VERIF_DESYNC_BIN") == "" {
		infra("VERIF_DESYNC_BIN is not set (the extract part needs the freshly built CLI)")
	}
	// ---- world
	sha := c.Digest == "sha256"
	xid := func(b []byte) string { s := ref.ID(b, sha); return hex.EncodeToString(s[:]) }
	var global []string // flags of the root command, in front of the subcommand
	if sha {
		global = []string{"--digest", "sha256"}
	}
	plain := make([][]byte, len(c.Chunks))
	ids := make([]string, len(c.Chunks))
	objs := map[string][]byte{}
	var minL, maxL uint64 = 1 << 62, 0
	for i, cs := range c.Chunks {
		plain[i] = cs.bytes()
		ids[i] = xid(plain[i])
		objs[chunkRel(ids[i], true)] = storedForm(plain[i], true)
		if l := uint64(len(plain[i])); l < minL {
			minL = l
		}
		if l := uint64(len(plain[i])); l > maxL {
			maxL = l
		}
	}
	var blob []byte
	idxf := ref.IndexFile{Flags: ref.FlagSHA512256 | ref.FlagExcludeNoDump, Min: minL, Avg: (minL + maxL + 1) / 2, Max: maxL}
	type pos struct{ start, end int }
	positions := map[string][]pos{}
	distinct := map[string]bool{}
	if sha { // desync reads "flag absent" as SHA256 and refuses an index whose flag contradicts --digest
		idxf.Flags &^= ref.FlagSHA512256
	}
	nullID := xid(make([]byte, maxL))
	for _, l := range c.Layout {
		start := len(blob)
		blob = append(blob, plain[l]...)
		idxf.Items = append(idxf.Items, ref.IndexItem{End: uint64(len(blob)), ID: ref.ID(plain[l], sha)})
		positions[ids[l]] = append(positions[ids[l]], pos{start, len(blob)})
		if ids[l] != nullID {
			distinct[ids[l]] = true
		}
	}
	work := hx.Scratch("c08x")
	defer os.RemoveAll(work)
	index := filepath.Join(work, "index.caibx")
	os.WriteFile(index, ref.EncodeIndex(idxf), 0o644)
	// seeds: older versions of the blob / unrelated files, each with a valid index of its own
	var seedArgs []string
	seedIDs := map[string]bool{}
	nSeedDirs := 0
	for si, sp := range c.Seeds {
		sf := ref.IndexFile{Flags: idxf.Flags, Min: 1 << 62}
		var sblob []byte
		for _, l := range sp.Layout {
			var b []byte
			if l >= 0 {
				b = plain[l%len(plain)]
			} else {
				b = gen.RandBytes(1+int(uint64(-l)*7919%maxL), uint64(-l)+0x5eed)
			}
			sblob = append(sblob, b...)
			sf.Items = append(sf.Items, ref.IndexItem{End: uint64(len(sblob)), ID: ref.ID(b, sha)})
			sf.Min, sf.Max = min(sf.Min, uint64(len(b))), max(sf.Max, uint64(len(b)))
			seedIDs[xid(b)] = true
		}
		if len(sf.Items) == 0 {
			continue
		}
		sf.Avg = (sf.Min + sf.Max + 1) / 2
		sd := filepath.Join(work, "seeds", strconv.Itoa(si))
		os.MkdirAll(sd, 0o755)
		os.WriteFile(filepath.Join(sd, "v.caibx"), ref.EncodeIndex(sf), 0o644)
		os.WriteFile(filepath.Join(sd, "v"), sblob, 0o644)
		if sp.Dir {
			seedArgs = append(seedArgs, "--seed-dir", sd)
			nSeedDirs++
		} else {
			seedArgs = append(seedArgs, "--seed", filepath.Join(sd, "v.caibx")+":"+filepath.Join(sd, "v"))
		}
	}
	needed := 0 // distinct chunks no seed can supply: those the store is certainly asked for
	for id := range distinct {
		if !seedIDs[id] {
			needed++
		}
	}
	outDir := filepath.Join(work, "out") // the directory of the destination
	for i := 0; i < c.DirDepth; i++ {
		outDir = filepath.Join(outDir, strings.Repeat(string(rune('a'+i%26)), 100))
	}
	os.MkdirAll(outDir, 0o755)
	name := "blob"
	if c.NameLen > 0 {
		name = ("blob" + strings.Repeat("x", 255))[:c.NameLen]
	}
	out := filepath.Join(outDir, name)
	if len(out)+16 >= 4096 {
		infra("scratch directory too deep for dir_depth %d: destination path has %d bytes", c.DirDepth, len(out))
	}
	var prior []byte
	switch c.Prior {
	case "empty":
		prior = []byte{}
	case "garbage":
		prior = gen.RandBytes(c.PriorLen, c.PriorSeed)
	case "partial": // the blob with every chunk position damaged or not, by PriorSeed
		prior = append([]byte(nil), blob...)
		bits := c.PriorSeed
		p := 0
		for _, l := range c.Layout {
			if bits&1 == 1 && len(plain[l]) > 0 {
				prior[p] ^= 0x55
			}
			bits = bits>>1 | bits<<63
			p += len(plain[l])
		}
	case "complete":
		prior = append([]byte(nil), blob...)
	default:
		c.Prior = "absent"
	}
	if c.Prior != "absent" {
		os.WriteFile(out, prior, 0o600)
	}
	before := statFile(out)

	// ---- the run that dies
	srvMode := c.Death
	if c.straced() {
		srvMode = "kill" // K = 0: nothing is held
	}
	if c.signal() != 0 {
		srvMode = "sig"
	}
	prefix, st := newState(objs, c.K, srvMode)
	defer dropState(prefix)
	args := append(append([]string(nil), global...), "extract")
	if c.Inplace {
		args = append(args, "-k")
	}
	switch c.SeedAction {
	case "skip":
		seedArgs = append([]string{"--skip-invalid-seeds"}, seedArgs...)
	case "regenerate":
		seedArgs = append([]string{"--regenerate-invalid-seeds"}, seedArgs...)
	}
	nSeedArgs := len(seedArgs) - len(seedArgs)%2 // (the action flag is not a seed)
	args = append(args, seedArgs...)
	args = append(args, "-n", strconv.Itoa(c.N), "-s", "http://"+srvAddr+"/"+prefix+"/", index, out)
	var res procResult
	var killed bool
	var xt *xTrace
	if c.straced() {
		res, xt = runDesyncStrace(work, args, out, c.Death, c.Syscall, c.When, c.Errno)
		killed = xt.Killed
	} else {
		res, killed = runDesync(work, args, st, c.K > 0 && (c.Death == "kill" || c.signal() != 0), c.signal())
	}
	st.releaseAll()
	st.mu.Lock()
	for i := 0; xt != nil && st.inflight > 0 && i < 50; i++ { // handlers about to book their response (classification only)
		t := time.AfterFunc(20*time.Millisecond, st.cond.Broadcast)
		st.cond.Wait()
		t.Stop()
	}
	served, nreq := st.served, len(st.reqs)
	firstReqs := append([]string(nil), st.reqs...)
	allServed := len(st.servedIDs) >= len(distinct) // every chunk the assembly has to fetch went out completely
	if nSeedArgs > 0 {                              // what a seed holds may or may not be fetched: the ones no seed has must all be out
		allServed = true
		for id := range distinct {
			if !seedIDs[id] && !st.servedIDs[id] {
				allServed = false
			}
		}
	}
	st.mu.Unlock()
	died := killed || res.Exit != 0
	if c.Bad == "unlink-dest" && died {
		os.Remove(out)
	}
	after := statFile(out)

	o.Desc = map[string]any{"part": "extract", "chunks": len(c.Layout), "distinct": len(distinct), "blob": len(blob), "n": c.N, "k": c.K,
		"inplace": c.Inplace, "death": c.Death, "prior": c.Prior, "served_before_death": served, "requests": nreq, "died": died}
	o.Key = fmt.Sprintf("x/%d/%d/%d/%d/%d/%v/%s/%s/%d", len(c.Layout), len(distinct), len(blob), c.N, c.K, c.Inplace, c.Death, c.Prior, served)
	if xt != nil {
		o.Key += fmt.Sprintf("/%s/%d/%s", c.Syscall, c.When, c.Errno)
	}
	o.Class("extract", "extract:death="+c.Death, "extract:prior="+c.Prior)
	if c.NameLen > 0 || c.DirDepth > 0 {
		desc := o.Desc.(map[string]any)
		desc["name_len"], desc["dir_depth"] = len(name), c.DirDepth
		o.Key += fmt.Sprintf("/name%d/%d", len(name), c.DirDepth)
		o.Class("extract:dest-name=" + strconv.Itoa(len(name)))
		if c.DirDepth > 0 {
			o.Class("extract:deep-dir")
		}
		if len(name) >= 244 { // no room for a temporary called .<name>.<random> next to it
			o.Class("extract:dest-name>=244")
			switch {
			case c.Inplace:
				o.Class("extract:dest-name>=244:inplace")
			case c.Prior != "absent":
				o.Class("extract:dest-name>=244:prior-exists")
			}
			if !killed && res.Exit != 0 && strings.Contains(res.Stderr, "name too long") {
				// refusing is fine: an error, and the destination as it was (checked below like any other death)
				o.Class("extract:dest-name>=244:refused")
			}
		}
	}
	if c.SeedAction == "skip" || c.SeedAction == "regenerate" {
		o.Class("extract:invalid-seed-action=" + c.SeedAction)
		if c.Inplace {
			o.Class("extract:invalid-seed-action=" + c.SeedAction + ":inplace")
		}
	}
	if nSeedArgs > 0 {
		desc := o.Desc.(map[string]any)
		desc["seeds"], desc["seed_dirs"], desc["distinct_not_in_seeds"] = nSeedArgs/2, nSeedDirs, needed
		o.Key += fmt.Sprintf("/seeds%d/%d/%d", nSeedArgs/2, nSeedDirs, needed)
		o.Class("extract:seed")
		if nSeedDirs > 0 {
			o.Class("extract:seed-dir")
		}
		if needed == len(distinct) {
			o.Class("extract:seed:unrelated-only")
		}
		if !died && nreq < len(distinct) {
			o.Class("extract:seed:used") // the run completed with fewer requests than distinct chunks: a seed supplied some
		}
		if died {
			switch {
			case c.Inplace:
				o.Class("extract:seed:inplace-rerun")
			case c.Prior == "absent":
				o.Class("extract:seed:dest-absent:no-k")
			default:
				o.Class("extract:seed:dest-exists:no-k")
			}
		}
	}
	if sha {
		o.Class("extract:digest=sha256")
		o.Desc.(map[string]any)["digest"] = "sha256"
		o.Key += "/sha256"
	}
	if c.Inplace {
		o.Class("extract:inplace")
	} else {
		o.Class("extract:tmpfile")
	}
	if c.N > 1 {
		o.Class("extract:n>1")
	}
	if c.signal() != 0 && died && !res.Signaled { // the handler took the signal and the run stopped by itself with an error
		o.Class("extract:stopped-by-signal")
		if len(after.Data) > 0 && !bytes.Equal(after.Data, blob) {
			o.Class("extract:stopped-by-signal:partial-file-kept")
		}
	}
	midway := died && served >= 1 && !allServed
	if midway {
		o.Class("extract:died-midway")
		if c.Inplace {
			o.Class("extract:inplace-died-midway")
		} else {
			o.Class("extract:tmpfile-died-midway")
		}
	}
	o.Nontrivial = midway
	obs := map[string]any{"stderr": tail(res.Stderr, 1500), "exit": res.Exit, "killed": killed, "requests": nreq, "served": served}
	o.Observed = obs
	finalPhase := false
	if xt != nil {
		desc := o.Desc.(map[string]any)
		desc["syscall"], desc["when"] = c.Syscall, c.When
		obs["syscall_totals"], obs["syscall_max_per_thread"] = xt.Totals, xt.PerThr
		obs["strace_tail"] = logTail(xt.Log, 25)
		obs["renamed_onto_dest"] = xt.Renamed
		// the crash point belongs to the extract's own file work when the call names something in the output directory
		inOut := xt.Hit != nil && strings.Contains(xt.Hit.Args, outDir+"/")
		finalPhase = died && inOut && allServed
		if xt.Hit != nil {
			desc["hit"] = xt.Hit.short(outDir)
			obs["hit_ordinal"], obs["hit_tid"], obs["injected_calls"] = xt.Hit.Ord, xt.Hit.Tid, xt.NHit
			if c.Death == "strace-err" {
				desc["errno"] = c.Errno
			}
		}
		if c.When == 0 {
			o.Class("extract:traced-undisturbed")
		}
		if died && inOut {
			o.Class("extract:" + c.Death + "-at=" + xt.Hit.Name)
		}
		switch {
		case c.Inplace:
			if died && inOut {
				o.Class("extract:inplace-syscall-death")
			}
		case killed:
			if finalPhase {
				o.Class("extract:final-phase-kill")
			}
			if xt.Hit.onto(out) {
				o.Class("extract:killed-at-rename")
			}
			if xt.Renamed {
				o.Class("extract:killed-after-rename")
			}
		case c.Death == "strace-err" && xt.Hit != nil:
			if xt.Hit.onto(out) {
				o.Class("extract:rename-failed")
			}
			if died && finalPhase {
				o.Class("extract:final-phase-error")
			}
			if !died {
				o.Class("extract:injected-error-survived")
			}
		}
		o.Nontrivial = died && inOut
	}

	if xt != nil && !c.Inplace {
		// whatever happened to this run: a call that made the destination itself appear, shrink or vanish
		// before the replacement is a crash point after which the path is not in its previous state
		if t := xt.touched(out, before.Exists); t != nil {
			o.Fail("C08:extract:dest-touched", "extract without -k (%s %s #%d, prior %s): the log shows %s returning %s on the destination itself before any rename onto it; a death right behind that call leaves the path changed",
				c.Death, c.Syscall, c.When, c.Prior, t.short(outDir), strings.Fields(t.Ret + " ?")[0])
		}
	}
	if !died {
		o.Class("extract:completed")
		if !bytes.Equal(after.Data, blob) || !after.Exists {
			o.Fail("C08:extract:complete-run-wrong-output", "extract was not disturbed and exited 0 but the output differs from the blob (%d vs %d bytes)", after.Size, len(blob))
		}
		return o
	}
	if !c.Inplace && xt != nil {
		// previous state, or - only once the replacement itself was seen to succeed - the complete blob
		d := before.diff(after)
		replaced := xt.Renamed && after.Exists && bytes.Equal(after.Data, blob)
		if d != "" && !replaced {
			sig, how := "C08:extract:dest-touched", ""
			if finalPhase {
				sig += ":final-phase"
			}
			if killed {
				how = "was killed at the entry of " + xt.Hit.short(outDir)
			} else {
				how = "exited with " + strconv.Itoa(res.Exit)
				if xt.Hit != nil {
					how += fmt.Sprintf(" after %s failed with the injected %s", xt.Hit.short(outDir), c.Errno)
				}
			}
			o.Fail(sig, "extract without -k %s (%s %s #%d, %d responses served for %d distinct chunks, n=%d, rename onto the destination seen: %v) and the destination is neither in its previous state nor the complete blob: %s; directory now holds %v",
				how, c.Death, c.Syscall, c.When, served, len(distinct), c.N, xt.Renamed, d, maskNames(listFiles(outDir)))
		}
		return o
	}
	if !c.Inplace {
		if d := before.diff(after); d != "" {
			o.Fail("C08:extract:dest-touched", "extract without -k died (%s at request %d, %d chunks served, n=%d) and the destination changed: %s; directory now holds %v",
				c.Death, c.K, served, c.N, d, maskNames(listFiles(outDir)))
		}
		return o
	}
	// ---- in place: which IDs does the file left behind already hold at all their positions?
	present := map[string]bool{}
	for id, ps := range positions {
		all := true
		for _, p := range ps {
			if p.end > len(after.Data) || !bytes.Equal(after.Data[p.start:p.end], blob[p.start:p.end]) {
				all = false
			}
		}
		present[id] = all && after.Exists
	}
	np := 0
	for _, v := range present {
		if v {
			np++
		}
	}
	obs["ids_present_after_death"] = np
	if np > 0 && np < len(positions) {
		o.Class("extract:rerun-with-some-present")
	}
	if sha && np > 0 { // the re-run has something it must not fetch again
		o.Class("extract:digest=sha256:inplace-rerun")
	}
	// ... and which IDs had the run certainly written before it was stopped, whatever became of the
	// file? A single worker goes through the index in order and asks for a chunk only after
	// everything in front of it is in the file (pwrite returned: it survives the process), so when
	// the k-th request arrived every ID all of whose positions lie in front of that chunk's first
	// position was complete. (More workers: the order is not known, the file left behind is all there is.)
	written := map[string]bool{}
	if c.N == 1 && !c.straced() && c.K >= 2 && len(firstReqs) >= c.K && len(positions[firstReqs[c.K-1]]) > 0 {
		front := positions[firstReqs[c.K-1]][0].start
		for id, ps := range positions {
			all := id != nullID
			for _, p := range ps {
				if p.end > front {
					all = false
				}
			}
			if all {
				written[id] = true
			}
		}
	}
	obs["ids_written_before_stop"] = len(written)
	if len(written) > 0 {
		o.Class("extract:rerun-after-known-writes")
		if (c.Prior == "absent" || c.Prior == "empty") && c.Death != "kill" {
			o.Class("extract:inplace:new-path:err-midway:rerun")
		}
	}
	prefix2, st2 := newState(objs, 0, "kill")
	defer dropState(prefix2)
	args2 := append(append([]string(nil), global...), "extract", "-k")
	args2 = append(append(args2, seedArgs...), "-n", strconv.Itoa(c.N), "-s", "http://"+srvAddr+"/"+prefix2+"/", index, out)
	res2, _ := runDesync(work, args2, st2, false, 0)
	st2.releaseAll()
	final := statFile(out)
	obs["rerun_stderr"] = tail(res2.Stderr, 1500)
	if res2.Exit != 0 || res2.Signaled {
		o.Fail("C08:extract:rerun-wrong-output", "re-run of the in-place extract after the death exited with %d: %s", res2.Exit, tail(res2.Stderr, 400))
	} else if !bytes.Equal(final.Data, blob) {
		o.Fail("C08:extract:rerun-wrong-output", "re-run of the in-place extract exited 0 but the output differs from the blob (%d vs %d bytes, first difference at %d)",
			len(final.Data), len(blob), firstDiff(final.Data, blob))
	}
	st2.mu.Lock()
	re := append([]string(nil), st2.reqs...)
	st2.mu.Unlock()
	obs["rerun_requests"] = len(re)
	seen := map[string]bool{}
	for _, id := range re {
		if written[id] && !present[id] && !seen[id] {
			seen[id] = true
			o.Fail("C08:extract:refetched-written-chunk", "re-run requested chunk %s although the stopped run (death=%s at request %d, n=1, prior %s) had written all %d position(s) of it before it asked for its %d-th chunk; after the stop the destination %s",
				id[:12], c.Death, c.K, c.Prior, len(positions[id]), c.K, map[bool]string{true: fmt.Sprintf("held %d bytes", after.Size), false: "did not exist"}[after.Exists])
		}
		if present[id] && !seen[id] {
			seen[id] = true
			o.Fail("C08:extract:refetched-present-chunk", "re-run requested chunk %s although all %d position(s) of it already held the right bytes in the file left behind (death=%s k=%d n=%d)",
				id[:12], len(positions[id]), c.Death, c.K, c.N)
		}
	}
	return o
}

func maskNames(l []string) []string {
	out := make([]string, len(l))
	for i, s := range l {
		out[i] = squeeze(reDigits.ReplaceAllString(s, "N"))
	}
	return out
}

// squeeze renders runs of 16 or more equal bytes as c{n} (long generated names in messages).
func squeeze(s string) string {
	var b strings.Builder
	for i := 0; i < len(s); {
		j := i
		for j < len(s) && s[j] == s[i] {
			j++
		}
		if j-i >= 16 {
			fmt.Fprintf(&b, "%c{%d}", s[i], j-i)
		} else {
			b.WriteString(s[i:j])
		}
		i = j
	}
	return b.String()
}

func firstDiff(a, b []byte) int {
	n := min(len(a), len(b))
	for i := 0; i < n; i++ {
		if a[i] != b[i] {
			return i
		}
	}
	return n
}

func tail(s string, n int) string {
	if len(s) > n {
		return "…" + s[len(s)-n:]
	}
	return s
}
