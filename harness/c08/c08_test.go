// C08 — Process death never exposes a partial chunk or a partial extract target.
//
// Store part: a child of this test binary stores chunks into a LocalStore under strace; the parent
// kills it at the entry of the c-th call of one system call (every (syscall, c) pair of the
// thread-pinned single writer is enumerated) or cuts its writes short with RLIMIT_FSIZE, then
// inspects the store directory with its own decoder. Extract part: see extract_test.go.
package c08

import (
	"context"
	"encoding/json"
	"fmt"
	"os"
	"path/filepath"
	"sort"
	"strings"
	"sync"
	"testing"
	"time"

	"github.com/folbricht/desync"
	"pgregory.net/rapid"

	"verifharness/internal/hx"
)

type StoreCase struct {
	Compressed bool        `json:"compressed"`
	Chunks     []ChunkSpec `json:"chunks"`
	Writers    [][]int     `json:"writers"`             // Writers[j] = chunk indices writer j stores, in order; 1 writer = pinned to the main thread
	Pre        []int       `json:"pre,omitempty"`       // chunks already in the store (valid) before the child starts
	PreDir     []int       `json:"predir,omitempty"`    // chunks whose <4 hex> directory exists beforehand
	Mode       string      `json:"mode"`                // none | kill | fsize | fsize-kill
	Sys        string      `json:"sys,omitempty"`       // kill: system call ...
	Count      int         `json:"count,omitempty"`     // ... and its per-thread ordinal counted from the start marker (1-based)
	Fsize      int64       `json:"fsize,omitempty"`     // RLIMIT_FSIZE b
	FsizeRel   bool        `json:"fsize_rel,omitempty"` // b is taken modulo the stored length of the first chunk written (generated cases)
	Keep       string      `json:"keep,omitempty"`      // keep-set of the Prune that follows: all | none | alt
	Bad        string      `json:"bad,omitempty"`       // self-test only: the child uses a deliberately broken store routine (direct | stray)
}

type Case struct {
	Part    string       `json:"part"` // store | extract
	Store   *StoreCase   `json:"store,omitempty"`
	Extract *ExtractCase `json:"extract,omitempty"`
	Rename  *RenameCase  `json:"rename,omitempty"` // part "renamefail" (renamefail_test.go)
}

// ---------------------------------------------------------------- dry runs

type dryInfo struct {
	Threads   []*threadTrace
	MainOther map[string]int // multi-writer: totals of the main thread
	StoredLen []int64        // per chunk index: size of its file after the undisturbed run (-1 = not written)
	Log       string
}

var (
	dryMu    sync.Mutex
	dryCache = map[string]*dryInfo{}
)

const warmCalls = 24

func (c StoreCase) normalise() StoreCase {
	if len(c.Chunks) == 0 {
		c.Chunks = []ChunkSpec{{Kind: "rand", Len: 16, Seed: 1}}
	}
	for i := range c.Chunks {
		if c.Chunks[i].Len < 1 { // desync refuses to store an empty chunk ("no data in chunk"): not a crash matter
			c.Chunks[i].Len = 1
		}
	}
	fix := func(l []int) []int {
		out := make([]int, 0, len(l))
		for _, v := range l {
			if v < 0 {
				v = -v
			}
			out = append(out, v%len(c.Chunks))
		}
		return out
	}
	if len(c.Writers) == 0 {
		c.Writers = [][]int{{0}}
	}
	if len(c.Writers) > 4 {
		c.Writers = c.Writers[:4]
	}
	w := make([][]int, len(c.Writers))
	for j := range c.Writers {
		w[j] = fix(c.Writers[j])
	}
	c.Writers = w
	c.Pre, c.PreDir = fix(c.Pre), fix(c.PreDir)
	switch c.Mode {
	case "kill", "fsize", "fsize-kill":
	default:
		c.Mode = "none"
	}
	if c.Count < 1 {
		c.Count = 1
	}
	if c.Fsize < 0 {
		c.Fsize = 0
	}
	return c
}

func (c StoreCase) contentKey() string {
	b, _ := json.Marshal([]any{c.Compressed, c.Chunks, c.Writers, c.Pre, c.PreDir, c.Bad})
	return string(b)
}

// prepare makes the work directory with the store in its initial state.
func (c StoreCase) prepare(work string, plain [][]byte, ids []string) (store string) {
	store = filepath.Join(work, "store")
	os.MkdirAll(store, 0o755)
	for _, i := range c.PreDir {
		os.MkdirAll(filepath.Join(store, ids[i][:4]), 0o755)
	}
	for _, i := range c.Pre {
		p := filepath.Join(store, chunkRel(ids[i], c.Compressed))
		os.MkdirAll(filepath.Dir(p), 0o755)
		os.WriteFile(p, storedForm(plain[i], c.Compressed), 0o644)
	}
	return store
}

func (c StoreCase) job(store string, fsize int64) childJob {
	return childJob{Dir: store, Compressed: c.Compressed, Chunks: c.Chunks, Workers: c.Writers, Fsize: fsize, Warm: warmCalls, Bad: c.Bad}
}

func (c StoreCase) dry(plain [][]byte, ids []string, fresh bool) *dryInfo {
	key := c.contentKey()
	dryMu.Lock()
	d := dryCache[key]
	dryMu.Unlock()
	if d != nil && !fresh {
		return d
	}
	// The undisturbed traced run is infrastructure: strace occasionally ends with a non-zero
	// status of its own under load although the child did all its work. Try a few times
	// before giving up (giving up is "inconclusive", never a verdict).
	var r childResult
	var work, store string
	for attempt := 0; attempt < 4; attempt++ {
		if work != "" {
			os.RemoveAll(work)
		}
		work = hx.Scratch("c08dry")
		store = c.prepare(work, plain, ids)
		r = runChild(c.job(store, -1), work, "", 0)
		if r.Report != nil && r.Report.Err == "" && r.ExitCode == 0 && len(r.Trace.Threads) == len(c.Writers) {
			break
		}
	}
	defer os.RemoveAll(work)
	if r.Report == nil || r.Report.Err != "" || r.ExitCode != 0 || len(r.Trace.Threads) != len(c.Writers) {
		infra("dry run of the store child failed (exit %d, %d writer threads seen, want %d)\nstdout: %s\nstderr: %s\nlog:\n%s",
			r.ExitCode, len(r.Trace.Threads), len(c.Writers), r.Stdout, r.Stderr, logTail(r.Log, 40))
	}
	d = &dryInfo{Threads: r.Trace.Threads, MainOther: r.Trace.Other[r.Report.Pid], Log: logTail(r.Log, 60)}
	for _, tt := range d.Threads {
		if !tt.Ended {
			infra("dry run: writer thread %d never reached its end marker\n%s", tt.Tid, d.Log)
		}
	}
	if len(c.Writers) > 1 {
		for s, n := range d.MainOther {
			for _, tt := range d.Threads {
				if s != "write" && tt.Pre[s] < n {
					infra("multi-writer warm-up too small: main thread made %d %s calls, writer thread only %d before its marker", n, s, tt.Pre[s])
				}
			}
		}
	}
	scan, err := scanTree(store)
	if err != nil {
		infra("scan after dry run: %v", err)
	}
	d.StoredLen = make([]int64, len(c.Chunks))
	for i := range c.Chunks {
		d.StoredLen[i] = -1
		if cf := scan.has(ids[i]); cf != nil {
			d.StoredLen[i] = cf.Size
		}
	}
	dryMu.Lock()
	if len(dryCache) > 4000 {
		dryCache = map[string]*dryInfo{}
	}
	dryCache[key] = d
	dryMu.Unlock()
	return d
}

// ---------------------------------------------------------------- store case

func runStore(c StoreCase) (o hx.Outcome) {
	c = c.normalise()
	plain := make([][]byte, len(c.Chunks))
	ids := make([]string, len(c.Chunks))
	for i, cs := range c.Chunks {
		plain[i] = cs.bytes()
		ids[i] = plainID(plain[i])
	}
	multi := len(c.Writers) > 1
	written := map[int]int{}
	first := -1
	for _, w := range c.Writers {
		for _, ci := range w {
			if first < 0 {
				first = ci
			}
			written[ci]++
		}
	}
	d := c.dry(plain, ids, false)

	fsize := int64(-1)
	if c.Mode == "fsize" || c.Mode == "fsize-kill" {
		fsize = c.Fsize
		if c.FsizeRel && first >= 0 && d.StoredLen[first] > 0 {
			fsize = c.Fsize % d.StoredLen[first]
		}
	}

	var res childResult
	var injSys string
	var injWhen int
	expectKill := false
	work := hx.Scratch("c08s")
	defer os.RemoveAll(work)
	var store string
	infraRetries := 0
	for attempt := 0; ; attempt++ {
		os.RemoveAll(work)
		os.MkdirAll(work, 0o755)
		store = c.prepare(work, plain, ids)
		injSys, injWhen, expectKill = "", 0, false
		var prRef []string // call sequence of the undisturbed run under the limit
		switch c.Mode {
		case "kill":
			if len(d.Threads) > 0 {
				// a count beyond what the writers do in their window is not a crash point of the
				// store work (it would hit the end marker or the report): run undisturbed
				t0 := d.Threads[0]
				most := 0
				for _, tt := range d.Threads {
					most = max(most, tt.Post[c.Sys])
				}
				if c.Count <= most {
					injSys, injWhen = c.Sys, t0.Pre[c.Sys]+c.Count
					expectKill = c.Count <= t0.Post[c.Sys]
				}
			}
		case "fsize-kill":
			// an undisturbed run under the limit tells which write fails with EFBIG (and what follows)
			pr := runChild(c.job(store, fsize), work, "", 0)
			if len(pr.Trace.Threads) > 0 {
				t0 := pr.Trace.Threads[0]
				prRef = t0.Calls
				if c.Sys == "" && t0.EFBIGOrd > 0 {
					injSys, injWhen = "write", t0.EFBIGOrd
					expectKill = true
				} else if c.Sys != "" && c.Count <= t0.Post[c.Sys] {
					injSys, injWhen = c.Sys, t0.Pre[c.Sys]+c.Count
					expectKill = true
				}
			}
			os.RemoveAll(work)
			os.MkdirAll(work, 0o755)
			store = c.prepare(work, plain, ids)
		}
		res = runChild(c.job(store, fsize), work, injSys, injWhen)
		if !res.Trace.Killed && (res.Report == nil || res.Report.Err != "") && infraRetries < 3 {
			// the tracer (not the child's work) failed, e.g. strace ended with its own error
			// under load: run the same point again
			infraRetries++
			attempt--
			continue
		}
		// single writer: the run must have followed the reference sequence of calls up to the kill,
		// otherwise "the c-th call of s" is not the step the enumeration thinks it is
		off := false
		if multi || (c.Mode != "kill" && c.Mode != "none" && prRef == nil) {
			// nothing to compare with
		} else if len(res.Trace.Threads) == 1 {
			refCalls := d.Threads[0].Calls
			if prRef != nil {
				refCalls = prRef
			}
			got := res.Trace.Threads[0].Calls
			for i := range got {
				if i >= len(refCalls) || got[i] != refCalls[i] {
					off = true
				}
			}
		} else {
			off = true
		}
		if !multi && (off || expectKill != res.Trace.Killed || (expectKill && (res.Trace.KilledIn == nil || res.Trace.KilledIn.Last != injSys || res.Trace.KilledIn.LastOrd != injWhen))) {
			if attempt == 0 { // counts moved? learn them again, once
				d = c.dry(plain, ids, true)
				continue
			}
			infra("crash point (%s, %d) did not land where the dry run says (expected kill %v, killed %v)\n--- dry run:\n%s\n--- this run:\n%s",
				injSys, injWhen, expectKill, res.Trace.Killed, d.Log, logTail(res.Log, 30))
		}
		break
	}
	killed := res.Trace.Killed
	if !killed && (res.Report == nil || res.Report.Err != "") {
		infra("store child ended without a report and without being killed (exit %d)\nstdout: %s\nstderr: %s\n%s", res.ExitCode, res.Stdout, res.Stderr, logTail(res.Log, 30))
	}

	// ---- description
	inWindow := false // a temporary made by a writer existed and was not yet renamed or removed when the process died
	for _, tt := range res.Trace.Threads {
		if killed && !tt.Ended && tt.TmpOpen {
			inWindow = true
		}
	}
	cut := false // a write was really cut at 0 < b < len in this run (seen in the log)
	for _, tt := range res.Trace.Threads {
		if fsize > 0 && tt.Short {
			cut = true
		}
	}
	totalPoints := 0
	for _, tt := range d.Threads {
		totalPoints += len(tt.Calls)
	}
	desc := map[string]any{"part": "store", "compressed": c.Compressed, "chunks": len(c.Chunks), "writers": len(c.Writers), "mode": c.Mode,
		"pre": len(c.Pre), "predir": len(c.PreDir), "killed": killed, "window_calls": totalPoints}
	var lens []int
	for _, cs := range c.Chunks {
		lens = append(lens, cs.Len)
	}
	desc["lens"] = lens
	if c.Mode == "kill" {
		desc["sys"], desc["count"] = c.Sys, c.Count
	}
	if fsize >= 0 {
		desc["fsize"] = fsize
	}
	if killed {
		desc["killed_at"] = injSys
		desc["temp_exists"] = inWindow
	}
	o.Desc = desc
	o.Key = fmt.Sprintf("s/%s/%s/%s/%d/%d", hx.Hash8([]byte(c.contentKey())), c.Mode, c.Sys, c.Count, fsize)
	o.Class("store", "store:mode="+c.Mode)
	if multi {
		o.Class("store:multi-writer")
	} else {
		o.Class("store:single-writer")
	}
	if c.Compressed {
		o.Class("store:compressed")
	} else {
		o.Class("store:uncompressed")
	}
	for _, n := range written {
		if n > 1 {
			o.Class("store:same-chunk-twice")
			break
		}
	}
	for _, i := range c.Pre {
		if written[i] > 0 {
			o.Class("store:overwrites-existing-chunk")
			break
		}
	}
	if killed {
		o.Class("store:killed")
		o.Class("store:killed-at=" + injSys)
		if inWindow {
			o.Class("store:killed-with-temp-present")
			if multi {
				o.Class("store:multi-killed-with-temp-present")
			}
		}
	} else {
		o.Class("store:not-killed")
	}
	if cut {
		o.Class("store:write-cut-short")
		if killed {
			o.Class("store:write-cut-short+killed")
		}
	}
	if fsize == 0 {
		o.Class("store:fsize=0")
	}
	o.Nontrivial = inWindow || cut

	// ---- oracle
	obs := map[string]any{"strace_tail": logTail(res.Log, 25), "inject": fmt.Sprintf("%s:%d", injSys, injWhen)}
	o.Observed = obs
	scan, err := scanTree(store)
	if err != nil {
		infra("scan of the store failed: %v", err)
	}
	badSig := "C08:store:partial-visible"
	how := fmt.Sprintf("process killed at the entry of %s #%d", injSys, injWhen)
	if !killed {
		how = "process ran to its end"
		if fsize >= 0 {
			badSig = "C08:store:error-path-left-chunkname"
			how = fmt.Sprintf("StoreChunk ran under RLIMIT_FSIZE=%d and was not killed", fsize)
		}
	} else if fsize >= 0 {
		how += fmt.Sprintf(" under RLIMIT_FSIZE=%d", fsize)
	}
	for _, cf := range scan.Chunks {
		if !cf.Valid {
			o.Fail(badSig, "%s; file %s is visible under a chunk name but is not a complete valid chunk: %s", how, cf.Rel, cf.Why)
		}
	}
	if !killed && res.Report != nil {
		for _, op := range res.Report.Ops {
			cf := scan.has(ids[op.Chunk])
			if op.Err == "" && (cf == nil || !cf.Valid) {
				o.Fail("C08:store:success-without-chunk", "%s; StoreChunk(chunk %d, %d bytes) returned nil but the store holds no valid chunk %s", how, op.Chunk, len(plain[op.Chunk]), ids[op.Chunk][:12])
			}
			if op.Err != "" && fsize < 0 {
				o.Fail("C08:store:unexpected-error", "StoreChunk(chunk %d) failed without any fault: %s", op.Chunk, op.Err)
			}
		}
	}
	// what else was left behind: in the store, in the child's TMPDIR, in its working directory
	type left struct{ root, rel string }
	var leftovers []left
	for _, rel := range scan.Leftovers {
		leftovers = append(leftovers, left{store, rel})
	}
	for _, sub := range []string{"tmp", "cwd"} {
		for _, rel := range listFiles(filepath.Join(work, sub)) {
			leftovers = append(leftovers, left{filepath.Join(work, sub), rel})
		}
	}
	if len(leftovers) > 0 {
		o.Class("store:leftover-present")
		var names []string
		for _, l := range leftovers {
			names = append(names, l.rel)
		}
		obs["leftovers"] = names
	}
	// a successful Prune removes them
	keep := map[desync.ChunkID]struct{}{}
	for i, id := range ids {
		if c.Keep == "all" || (c.Keep == "alt" && i%2 == 0) {
			cid, _ := desync.ChunkIDFromString(id)
			keep[cid] = struct{}{}
		}
	}
	ls, err := desync.NewLocalStore(store, desync.StoreOptions{Uncompressed: !c.Compressed})
	if err != nil {
		infra("NewLocalStore for prune: %v", err)
	}
	if perr := ls.Prune(context.Background(), keep); perr != nil {
		o.Fail("C08:store:prune-failed", "%s; Prune of the store afterwards failed: %v", how, perr)
	} else {
		for _, l := range leftovers {
			if _, err := os.Lstat(filepath.Join(l.root, l.rel)); err == nil {
				where := "in the store"
				if l.root != store {
					where = "outside the store (" + filepath.Base(l.root) + " of the process)"
				}
				o.Fail("C08:store:leftover-not-pruned", "%s; it left %s behind %s and a successful Prune (keep=%s) did not remove it", how, l.rel, where, c.Keep)
			}
		}
		if len(leftovers) > 0 {
			o.Class("store:leftover-pruned")
		}
	}
	return o
}

// ---------------------------------------------------------------- spec

func run(c Case) hx.Outcome {
	if c.Part == "extract" && c.Extract != nil {
		return runExtract(*c.Extract)
	}
	if c.Part == "renamefail" && c.Rename != nil {
		return runRename(*c.Rename)
	}
	if c.Store == nil {
		c.Store = &StoreCase{}
	}
	return runStore(*c.Store)
}

var killSyscalls = []string{"mkdirat", "openat", "write", "close", "renameat"}

func genChunk(t *rapid.T, label string) ChunkSpec {
	cs := ChunkSpec{Kind: rapid.SampledFrom([]string{"rand", "rand", "text", "zero"}).Draw(t, label+"kind"), Seed: rapid.Uint64().Draw(t, label+"seed")}
	switch rapid.IntRange(0, 9).Draw(t, label+"lenclass") {
	case 0:
		cs.Len = rapid.IntRange(1, 3).Draw(t, label+"len")
	case 1:
		cs.Len = rapid.IntRange(60000, 300000).Draw(t, label+"len")
	default:
		cs.Len = rapid.IntRange(1, 9000).Draw(t, label+"len")
	}
	return cs
}

func genStore(t *rapid.T) *StoreCase {
	c := &StoreCase{Compressed: rapid.Bool().Draw(t, "compressed")}
	n := rapid.IntRange(1, 4).Draw(t, "nchunks")
	for i := 0; i < n; i++ {
		c.Chunks = append(c.Chunks, genChunk(t, "c"))
	}
	w := 1
	if rapid.IntRange(0, 2).Draw(t, "multi") == 0 {
		w = rapid.IntRange(2, 4).Draw(t, "w")
	}
	for j := 0; j < w; j++ {
		m := rapid.IntRange(1, 3).Draw(t, "ops")
		var seq []int
		for k := 0; k < m; k++ {
			seq = append(seq, rapid.IntRange(0, n-1).Draw(t, "ci"))
		}
		c.Writers = append(c.Writers, seq)
	}
	if w > 1 && rapid.Bool().Draw(t, "same") { // the same chunk from every writer
		ci := rapid.IntRange(0, n-1).Draw(t, "shared")
		for j := range c.Writers {
			c.Writers[j][0] = ci
		}
	}
	if rapid.IntRange(0, 3).Draw(t, "pre?") == 0 {
		c.Pre = []int{rapid.IntRange(0, n-1).Draw(t, "pre")}
	}
	if rapid.IntRange(0, 3).Draw(t, "predir?") == 0 {
		c.PreDir = []int{rapid.IntRange(0, n-1).Draw(t, "predir")}
	}
	c.Keep = rapid.SampledFrom([]string{"all", "none", "alt"}).Draw(t, "keep")
	c.Mode = rapid.SampledFrom([]string{"kill", "kill", "kill", "kill", "fsize", "fsize-kill", "fsize-kill", "none"}).Draw(t, "mode")
	switch c.Mode {
	case "kill":
		c.Sys = rapid.SampledFrom(killSyscalls).Draw(t, "sys")
		c.Count = rapid.IntRange(1, 3).Draw(t, "count")
	case "fsize", "fsize-kill":
		c.FsizeRel = true
		c.Fsize = int64(rapid.IntRange(0, 1<<20).Draw(t, "b"))
		if rapid.IntRange(0, 4).Draw(t, "bsmall") == 0 {
			c.Fsize = int64(rapid.IntRange(0, 2).Draw(t, "b0"))
		}
	}
	return c
}

func genExtract(t *rapid.T) *ExtractCase {
	c := &ExtractCase{}
	nd := rapid.IntRange(1, 6).Draw(t, "distinct")
	maxLen := rapid.SampledFrom([]int{64, 1000, 5000, 70000}).Draw(t, "maxlen")
	for i := 0; i < nd; i++ {
		cs := ChunkSpec{Kind: rapid.SampledFrom([]string{"rand", "rand", "text"}).Draw(t, "kind"), Seed: rapid.Uint64().Draw(t, "seed"),
			Len: rapid.IntRange(1, maxLen).Draw(t, "len")}
		c.Chunks = append(c.Chunks, cs)
	}
	if rapid.IntRange(0, 3).Draw(t, "null?") == 0 { // a run of zeros of the maximum length = the null chunk
		mx := 0
		for _, cs := range c.Chunks {
			mx = max(mx, cs.Len)
		}
		c.Chunks = append(c.Chunks, ChunkSpec{Kind: "zero", Len: mx})
	}
	np := rapid.IntRange(1, 10).Draw(t, "positions")
	for i := 0; i < np; i++ {
		c.Layout = append(c.Layout, rapid.IntRange(0, len(c.Chunks)-1).Draw(t, "l"))
	}
	c.N = rapid.IntRange(1, 4).Draw(t, "n")
	c.K = rapid.IntRange(1, np+1).Draw(t, "k")
	c.Inplace = rapid.Bool().Draw(t, "inplace")
	c.Digest = rapid.SampledFrom([]string{"", "", "sha256"}).Draw(t, "digest")
	c.SeedAction = rapid.SampledFrom([]string{"", "", "", "skip", "regenerate", "regenerate"}).Draw(t, "seedaction")
	for i, ns := 0, rapid.SampledFrom([]int{0, 0, 0, 1, 1, 2}).Draw(t, "nseeds"); i < ns; i++ {
		sp := SeedSpec{Dir: rapid.IntRange(0, 2).Draw(t, "seeddir?") == 0}
		unrelated := rapid.IntRange(0, 3).Draw(t, "unrelated?") == 0
		bits := rapid.Uint64().Draw(t, "seedbits")
		for j, l := range c.Layout { // an older version: some positions as in the blob, some different, one inserted
			if unrelated || bits>>(uint(j)%60)&1 == 1 {
				sp.Layout = append(sp.Layout, -(1 + j + 16*i))
			} else {
				sp.Layout = append(sp.Layout, l)
			}
			if bits>>61&1 == 1 && j == len(c.Layout)/2 {
				sp.Layout = append(sp.Layout, -(100 + i))
			}
		}
		c.Seeds = append(c.Seeds, sp)
	}
	c.NameLen = rapid.SampledFrom([]int{0, 0, 0, 0, 0, 0, 200, 243, 244, 250, 255}).Draw(t, "namelen")
	if rapid.IntRange(0, 5).Draw(t, "deep?") == 0 {
		c.DirDepth = rapid.SampledFrom([]int{1, 12, 20}).Draw(t, "depth")
	}
	c.Death = rapid.SampledFrom([]string{"kill", "kill", "kill", "err", "err", "sigint", "sigterm", "strace-kill", "strace-kill", "strace-kill", "strace-err"}).Draw(t, "death")
	if c.signal() != 0 { // graceful stops: only the re-run demand of -k is C08's (exit codes and clean-up are C07's)
		c.Inplace = true
	}
	if c.straced() { // final_test.go: the whole run under strace, one call killed or failed
		fams := []string{"rename", "rename", "unlink", "unlink", "truncate", "open", "open", "link", "chmod"}
		if c.Death == "strace-err" {
			fams = []string{"rename", "rename", "unlink", "truncate"}
			c.Errno = rapid.SampledFrom([]string{"EIO", "EXDEV", "ENOSPC", "EACCES"}).Draw(t, "errno")
		}
		fam := rapid.SampledFrom(fams).Draw(t, "family")
		c.Syscall = xFamilies[fam]
		c.When = rapid.IntRange(1, map[string]int{"rename": 2, "unlink": 8, "truncate": 2, "open": 24, "link": 1, "chmod": 1}[fam]).Draw(t, "when")
		c.K = 0
	}
	c.Prior = rapid.SampledFrom([]string{"absent", "absent", "empty", "garbage", "partial", "partial", "complete"}).Draw(t, "prior")
	c.PriorSeed = rapid.Uint64().Draw(t, "pseed")
	c.PriorLen = rapid.IntRange(1, 20000).Draw(t, "plen")
	return c
}

func genCase(t *rapid.T) Case {
	if rapid.IntRange(0, 3).Draw(t, "part") == 0 {
		return Case{Part: "extract", Extract: genExtract(t)}
	}
	return Case{Part: "store", Store: genStore(t)}
}

var spec = &hx.Spec[Case]{
	ID:    "C08",
	Level: "fault_enumeration",
	Rule: "store cases = (1..4 chunks, compressed or not, 1 pinned writer or 2..4 concurrent writers incl. the same chunk from several, optional pre-existing chunk/prefix directory, " +
		"crash point = SIGKILL at the entry of the c-th mkdirat/openat/write/close/renameat/unlinkat of the writer thread (strace inject), or RLIMIT_FSIZE=b with and without a kill at the write that follows the cut one); " +
		"extract cases = (1..10 chunk positions over 1..7 distinct chunks, -n 1..4, with/without -k, digest sha512-256 or sha256 (index, store objects and --digest), destination name blob or 200/243/244/250/255 bytes long (from 244 on a temporary .<name>.<random> has no room) optionally 1..20 directories of 100 bytes deep, --skip-invalid-seeds / --regenerate-invalid-seeds in half of the cases, 0..2 seeds (older version sharing some chunks, or unrelated; --seed idx:blob or --seed-dir), prior destination absent/empty/garbage/partly right/complete, SIGKILL while the k-th chunk request is held, or a 404 on it, or (-k) SIGINT/SIGTERM while it is held and the request answered afterwards, " +
		"or the whole extract under strace -f with all requests answered and the c-th (per thread) open*/truncate/unlink*/rename*/link*/chmod* call killed at its entry or failed with EIO/EXDEV/ENOSPC/EACCES: " +
		"oracle for non -k = destination byte- and inode-identical to before, or the complete blob once a rename/link onto it was seen to return 0; for -k the re-run oracle: completes with the right bytes and requests no chunk that the file left behind holds at all its positions, nor - one worker - any chunk that lies entirely in front of the k-th requested one). " +
		"non-trivial = the store child died while a temporary created by StoreChunk existed and was not yet renamed (seen in the strace log) or a write was cut at 0 < b < stored length; " +
		"extract died after >=1 and before the last distinct chunk was served, or (strace modes) died at/after a call that names a path in the output directory. distinct by (content hash, mode, syscall, count, b) / (shape, n, k, mode, prior, chunks served, syscall set, c, errno)",
	Assumptions: []string{
		"process death = SIGKILL (no power loss, no page-cache loss); crash points are system-call entries, the observable state only changes there",
		"strace keeps inject when= counters per thread and per system call; a writer locked to its OS thread makes the enumeration deterministic (checked against the log of every run)",
		"chunk files are validated with klauspost zstd and crypto/sha512 directly; a name is a chunk name if it is <64 hex>[.cacnk]",
		"leftovers are looked for in the store, in the child's TMPDIR and in its working directory",
		"extract: death is SIGKILL while the harness' HTTP server holds a chunk request, plus self-inflicted death on a 404; SIGINT/SIGTERM belong to C07",
		"-n 1: the single worker takes the index in order and requests a chunk only after everything in front of it was written (pwrite returned), so the chunks in front of the k-th requested one count as written by the stopped run whatever is found afterwards",
		"under strace a successful open(O_CREAT) of an absent destination, or open(O_TRUNC)/truncate/unlink/rename-away of an existing one, before any rename onto it counts as a violation of the non -k clause even when this run was not killed there: a SIGKILL right behind that call leaves exactly that state",
		"long destination names: a run that refuses the name (non-zero exit, 'file name too long') counts as a death like any other - the destination must be as before; success is not demanded",
		"extract under strace: when= counts per thread and the Go runtime places the work freely, so (syscall, c) = the first thread reaching its c-th call; c runs to the process-wide total of the dry run; the call really hit is read from the log. Only directory-visible calls are crash points there (data writes are covered by the request-held kills)",
	},
	Required: []string{"store:single-writer", "store:multi-writer", "store:compressed", "store:uncompressed", "store:killed-with-temp-present", "store:multi-killed-with-temp-present",
		"store:write-cut-short", "store:write-cut-short+killed", "store:fsize=0", "store:leftover-pruned", "store:same-chunk-twice", "store:overwrites-existing-chunk", "store:not-killed",
		"store:rename-fails-enoent", "store:rename-fails-enoent+killed-later", "store:rename-fails-enoent+not-killed", "store:concurrent-prune",
		"store:killed-at=mkdirat", "store:killed-at=openat", "store:killed-at=write", "store:killed-at=close", "store:killed-at=renameat", "store:killed-at=unlinkat",
		"extract:inplace-died-midway", "extract:tmpfile-died-midway", "extract:prior=absent", "extract:prior=partial", "extract:prior=garbage", "extract:n>1", "extract:death=kill", "extract:death=err",
		"extract:rerun-with-some-present", "extract:digest=sha256", "extract:digest=sha256:inplace-rerun",
		"extract:inplace:new-path:err-midway:rerun", "extract:death=sigint", "extract:death=sigterm", "extract:stopped-by-signal", "extract:rerun-after-known-writes",
		"extract:invalid-seed-action=regenerate:inplace", "extract:invalid-seed-action=skip", "extract:seed", "extract:seed-dir", "extract:seed:used", "extract:seed:dest-absent:no-k", "extract:seed:inplace-rerun",
		"extract:dest-name>=244", "extract:dest-name>=244:prior-exists", "extract:dest-name=243", "extract:deep-dir",
		"extract:death=strace-kill", "extract:death=strace-err", "extract:final-phase-kill", "extract:killed-at-rename", "extract:rename-failed", "extract:inplace-syscall-death"},
	Gen: genCase,
	Run: run,
	// a case that never returns is a verdict (confirmed by a replay in a fresh process), not a timeout of the run
	Watchdog: hx.Pick(300*time.Second, 600*time.Second),
}

func TestMain(m *testing.M) {
	if os.Getenv("VERIF_CHILD") == "store" {
		childMain()
		return
	}
	hx.Main(m)
}

func TestRegress(t *testing.T) { hx.Regress(t, spec) }
func TestKnown(t *testing.T)   { hx.Known(t, spec) }
func TestReplay(t *testing.T)  { hx.Replay(t, spec) }

func needInfra(t *testing.T) {
	if err := straceCheck(); err != nil {
		fmt.Printf("SELFTEST-FAILURE: strace unavailable: %v\n", err)
		t.Fatalf("strace unavailable: %v", err)
	}
	if os.Getenv("VERIF_DESYNC_BIN") == "" {
		fmt.Println("SELFTEST-FAILURE: VERIF_DESYNC_BIN not set (C08 needs the freshly built CLI)")
		t.Fatal("VERIF_DESYNC_BIN not set")
	}
}

func TestProp(t *testing.T) {
	needInfra(t)
	hx.Prop(t, spec)
}

// ---------------------------------------------------------------- exhaustive part

// pool runs the cases on at most 4 workers (every case is one or two child processes).
func pool(t *testing.T, cases []Case) {
	var wg sync.WaitGroup
	ch := make(chan Case)
	var mu sync.Mutex
	failed := 0
	for w := 0; w < 4; w++ {
		wg.Add(1)
		go func() {
			defer wg.Done()
			for c := range ch {
				if !hx.Case(t, spec, c) {
					mu.Lock()
					failed++
					mu.Unlock()
				}
			}
		}()
	}
	for _, c := range cases {
		mu.Lock()
		f := failed
		mu.Unlock()
		if f > 0 {
			break
		}
		ch <- c
	}
	close(ch)
	wg.Wait()
}

func enumContents() []StoreCase {
	q := []StoreCase{
		{Compressed: false, Chunks: []ChunkSpec{{Kind: "rand", Len: 700, Seed: 11}}, Writers: [][]int{{0}}, Keep: "all"},
		{Compressed: true, Chunks: []ChunkSpec{{Kind: "text", Len: 3000, Seed: 12}}, Writers: [][]int{{0}}, Keep: "none"},
		{Compressed: false, Chunks: []ChunkSpec{{Kind: "rand", Len: 9, Seed: 16}}, Writers: [][]int{{0}}, Keep: "alt"}, // short: every b in 0..len
		{Compressed: false, Chunks: []ChunkSpec{{Kind: "rand", Len: 100, Seed: 13}, {Kind: "text", Len: 4097, Seed: 14}}, Writers: [][]int{{0, 1, 0}}, Keep: "alt"},
		{Compressed: true, Chunks: []ChunkSpec{{Kind: "rand", Len: 2000, Seed: 15}, {Kind: "zero", Len: 65536}}, Writers: [][]int{{0, 1}}, Pre: []int{0}, PreDir: []int{1}, Keep: "all"},
	}
	th := []StoreCase{
		{Compressed: true, Chunks: []ChunkSpec{{Kind: "text", Len: 150, Seed: 17}}, Writers: [][]int{{0}}, Keep: "all"}, // stored length <= 128: every b
		{Compressed: false, Chunks: []ChunkSpec{{Kind: "rand", Len: 100, Seed: 18}}, Writers: [][]int{{0}}, Keep: "none"},
		{Compressed: false, Chunks: []ChunkSpec{{Kind: "rand", Len: 1, Seed: 1}}, Writers: [][]int{{0}}, Keep: "all"},
		{Compressed: true, Chunks: []ChunkSpec{{Kind: "rand", Len: 1, Seed: 2}}, Writers: [][]int{{0}}, Keep: "all"},
		{Compressed: false, Chunks: []ChunkSpec{{Kind: "rand", Len: 1, Seed: 3}, {Kind: "rand", Len: 262144, Seed: 4}, {Kind: "text", Len: 17, Seed: 5}}, Writers: [][]int{{0, 1, 2, 1}}, Pre: []int{2}, Keep: "none"},
		{Compressed: true, Chunks: []ChunkSpec{{Kind: "text", Len: 1, Seed: 6}, {Kind: "rand", Len: 300000, Seed: 7}, {Kind: "zero", Len: 1000}}, Writers: [][]int{{2, 1, 0, 0}}, PreDir: []int{0, 1, 2}, Keep: "alt"},
	}
	if hx.Thorough() {
		return append(q, th...)
	}
	return q
}

// enumStore lists every crash point of one store content (single writer): the undisturbed run,
// every (syscall, count) the writer thread makes between its markers, and the write cuts.
func enumStore(sc StoreCase) (cases []Case, points int) {
	sc = sc.normalise()
	plain := make([][]byte, len(sc.Chunks))
	ids := make([]string, len(sc.Chunks))
	for i, cs := range sc.Chunks {
		plain[i] = cs.bytes()
		ids[i] = plainID(plain[i])
	}
	d := sc.dry(plain, ids, false)
	add := func(f func(c *StoreCase)) {
		c := sc
		f(&c)
		cases = append(cases, Case{Part: "store", Store: &c})
	}
	add(func(c *StoreCase) { c.Mode = "none" })
	t0 := d.Threads[0]
	var names []string
	for s := range t0.Post {
		names = append(names, s)
	}
	sort.Strings(names)
	for _, s := range names {
		for k := 1; k <= t0.Post[s]; k++ {
			add(func(c *StoreCase) { c.Mode, c.Sys, c.Count = "kill", s, k })
			points++
		}
	}
	// write cuts: boundary values for every distinct stored length, all b for a short chunk
	seen := map[int64]bool{}
	for _, w := range sc.Writers {
		for _, ci := range w {
			l := d.StoredLen[ci]
			if l < 0 {
				continue
			}
			bs := []int64{0, 1, 2, l / 2, l - 2, l - 1, l}
			if l <= 16 || (hx.Thorough() && l <= 128) {
				bs = nil
				for b := int64(0); b <= l; b++ {
					bs = append(bs, b)
				}
			}
			for _, b := range bs {
				if b < 0 || seen[b] {
					continue
				}
				seen[b] = true
				add(func(c *StoreCase) { c.Mode, c.Fsize = "fsize", b })
				add(func(c *StoreCase) { c.Mode, c.Fsize = "fsize-kill", b })
				points += 2
			}
		}
	}
	// every step of the error path under one cut in the middle of the first chunk written
	if first := sc.Writers[0][0]; d.StoredLen[first] >= 2 {
		b := d.StoredLen[first] / 2
		work := hx.Scratch("c08lim")
		store := sc.prepare(work, plain, ids)
		pr := runChild(sc.job(store, b), work, "", 0)
		os.RemoveAll(work)
		if len(pr.Trace.Threads) != 1 || !pr.Trace.Threads[0].Ended {
			infra("dry run under RLIMIT_FSIZE=%d failed\n%s", b, logTail(pr.Log, 30))
		}
		post := pr.Trace.Threads[0].Post
		names = names[:0]
		for s := range post {
			names = append(names, s)
		}
		sort.Strings(names)
		for _, s := range names {
			for k := 1; k <= post[s]; k++ {
				add(func(c *StoreCase) { c.Mode, c.Fsize, c.Sys, c.Count = "fsize-kill", b, s, k })
				points++
			}
		}
	}
	return cases, points
}

// multiSamples: fixed concurrent-writer cases (sampled, not exhaustive: placement depends on the scheduler).
func multiSamples() (cases []Case) {
	chunks := []ChunkSpec{{Kind: "rand", Len: 5000, Seed: 31}, {Kind: "text", Len: 9000, Seed: 32}, {Kind: "rand", Len: 200000, Seed: 33}}
	for _, comp := range []bool{false, true} {
		for _, writers := range [][][]int{{{0}, {0}}, {{0, 1}, {1, 0}, {0}}, {{2}, {2}, {2}, {2}}} {
			for _, s := range killSyscalls {
				for _, k := range hx.Pick([]int{1}, []int{1, 2}) {
					cases = append(cases, Case{Part: "store", Store: &StoreCase{Compressed: comp, Chunks: chunks, Writers: writers, Mode: "kill", Sys: s, Count: k, Keep: "alt"}})
				}
			}
		}
	}
	return cases
}

type xLayout struct {
	chunks []ChunkSpec
	layout []int
}

func enumLayouts() []xLayout {
	return []xLayout{
		{[]ChunkSpec{{Kind: "rand", Len: 300, Seed: 21}, {Kind: "text", Len: 500, Seed: 22}, {Kind: "rand", Len: 40, Seed: 23}, {Kind: "rand", Len: 500, Seed: 24}}, []int{0, 1, 2, 3}},
		{[]ChunkSpec{{Kind: "rand", Len: 5000, Seed: 25}, {Kind: "rand", Len: 70000, Seed: 26}, {Kind: "zero", Len: 70000}, {Kind: "text", Len: 4096, Seed: 27}, {Kind: "rand", Len: 1, Seed: 28}},
			[]int{0, 1, 2, 0, 3, 4, 1}},
	}
}

// enumFinalConfigs: the contents whose every (syscall, c) is tried under strace (final_test.go).
func enumFinalConfigs() (bases []ExtractCase) {
	ls := enumLayouts()
	add := func(li, n int, inplace bool, prior string) {
		bases = append(bases, ExtractCase{Chunks: ls[li].chunks, Layout: ls[li].layout, N: n, Inplace: inplace, Prior: prior,
			PriorSeed: uint64(0x5a5a5a5a5a5a5a5a) >> uint(li), PriorLen: 1234})
	}
	for li := range ls {
		for _, n := range hx.Pick([][]int{{1}, {3}}[li], []int{1, 3}) {
			for _, prior := range hx.Pick([]string{"absent", "garbage", "partial"}, []string{"absent", "empty", "garbage", "partial", "complete"}) {
				add(li, n, false, prior)
			}
		}
	}
	add(0, 1, true, "partial")
	add(1, 3, true, "absent")
	// long destination names (see enumNames)
	for _, v := range [][3]int{{250, 0, 1}, {244, 15, 2}, {255, 0, 0}, {243, 0, 1}} {
		add(0, 1, false, []string{"absent", "garbage", "partial"}[v[2]])
		bases[len(bases)-1].NameLen, bases[len(bases)-1].DirDepth = v[0], v[1]
	}
	// with seeds (see enumSeeds)
	add(0, 1, false, "absent")
	bases[len(bases)-1].Seeds = enumSeedSets(0)[0]
	add(1, 3, false, "absent")
	bases[len(bases)-1].Seeds = enumSeedSets(1)[1]
	if hx.Thorough() {
		add(0, 1, true, "absent")
		bases[len(bases)-1].Seeds = enumSeedSets(0)[1]
		add(0, 3, true, "absent")
		add(1, 1, true, "partial")
		add(1, 2, true, "garbage")
	}
	return bases
}

// enumFinal lists the undisturbed traced run, a kill at every (syscall, c) of one content, and an
// injected error at every rename*/link*/unlink*/truncate call.
func enumFinal(base ExtractCase) (cases []Case, points int) {
	names, totals := finalPhasePoints(base)
	add := func(death, sys string, when int, errno string) {
		c := base
		c.Death, c.Syscall, c.When, c.Errno = death, sys, when, errno
		cases = append(cases, Case{Part: "extract", Extract: &c})
	}
	add("strace-kill", "", 0, "")
	for _, s := range names {
		for k := 1; k <= totals[s]; k++ {
			add("strace-kill", s, k, "")
			points++
			var errnos []string
			switch {
			case strings.HasPrefix(s, "rename") || strings.HasPrefix(s, "link"):
				errnos = []string{"EIO", "EXDEV"}
			case strings.HasPrefix(s, "unlink") || s == "rmdir":
				errnos = []string{"EIO"}
			case strings.Contains(s, "truncate") || s == "fallocate":
				errnos = []string{"ENOSPC"}
			}
			for _, e := range errnos {
				add("strace-err", s, k, e)
				points++
			}
		}
	}
	return cases, points
}

// enumNames: destination names around the length from which a temporary next to it has no room,
// for every request index of the first layout (without -k: the name must not cost the protection).
func enumNames() (cases []Case) {
	l := enumLayouts()[0]
	type nd struct{ name, depth int }
	for _, v := range []nd{{200, 0}, {243, 0}, {244, 0}, {250, 0}, {255, 0}, {250, 15}, {255, 20}} {
		for _, prior := range []string{"absent", "garbage", "partial"} {
			for _, death := range []string{"kill", "err"} {
				if death == "err" && (prior == "partial" || v.name == 200) {
					continue
				}
				for k := 1; k <= len(l.layout)+1; k++ {
					if k > 3 && !hx.Thorough() && prior == "partial" {
						continue
					}
					cases = append(cases, Case{Part: "extract", Extract: &ExtractCase{Chunks: l.chunks, Layout: l.layout, N: 1, K: k, Death: death, Prior: prior,
						PriorSeed: 0x5a5a5a5a5a5a5a5a, PriorLen: 1234, NameLen: v.name, DirDepth: v.depth}})
				}
			}
		}
	}
	for _, v := range []nd{{255, 0}, {244, 20}} { // -k never needed a temporary: must simply work
		for k := 1; k <= len(l.layout)+1; k++ {
			cases = append(cases, Case{Part: "extract", Extract: &ExtractCase{Chunks: l.chunks, Layout: l.layout, N: 1, K: k, Inplace: true, Death: "kill", Prior: "partial",
				PriorSeed: 0x5a5a5a5a5a5a5a5a, PriorLen: 1234, NameLen: v.name, DirDepth: v.depth}})
		}
	}
	return cases
}

// enumStops: an in-place extract to a new path stopped without SIGKILL (404 on the k-th request,
// SIGINT/SIGTERM while it is held), one worker, every k: what was written must survive for the re-run.
func enumStops() (cases []Case) {
	for li, l := range enumLayouts() {
		for _, prior := range []string{"absent", "empty"} {
			for _, death := range []string{"err", "sigint", "sigterm"} {
				for _, dg := range []string{"", "sha256"} {
					if dg != "" && (li != 0 || death == "sigterm" || prior == "empty") {
						continue
					}
					for k := 1; k <= len(l.layout)+1; k++ {
						cases = append(cases, Case{Part: "extract", Extract: &ExtractCase{Chunks: l.chunks, Layout: l.layout, N: 1, K: k, Inplace: true, Death: death, Prior: prior, Digest: dg}})
					}
				}
			}
		}
	}
	return cases
}

// enumSeedSets: seeds for layout li: an older version through --seed; an unrelated file through --seed-dir plus an older version.
func enumSeedSets(li int) [][]SeedSpec {
	if li == 0 {
		return [][]SeedSpec{{{Layout: []int{0, -1, 2, -2}}}, {{Layout: []int{-3, -4}, Dir: true}, {Layout: []int{-5, 1, 2, 3}}}}
	}
	return [][]SeedSpec{{{Layout: []int{0, -1, 2, 0, -2, 4, 1}}}, {{Layout: []int{-3, -4, -5}, Dir: true}, {Layout: []int{-6, 1, 2, 0, 3}, Dir: true}}}
}

// enumSeeds: every request index with seeds, with and without -k.
func enumSeeds() (cases []Case) {
	for li, l := range enumLayouts() {
		for si, seeds := range enumSeedSets(li) {
			for _, v := range []struct {
				inplace bool
				prior   string
				death   string
				n       int
			}{{false, "absent", "kill", 1}, {false, "absent", "err", 1}, {false, "absent", "kill", 3}, {false, "garbage", "kill", 1},
				{true, "absent", "kill", 1}, {true, "absent", "err", 1}, {true, "partial", "kill", 3}, {true, "absent", "sigint", 1}} {
				if !hx.Thorough() && (si == 1 && (v.n == 3 || v.death != "kill" || v.prior == "garbage") || li == 1 && si == 0 && v.n == 3) {
					continue
				}
				for k := 1; k <= len(l.layout)+1; k++ {
					cases = append(cases, Case{Part: "extract", Extract: &ExtractCase{Chunks: l.chunks, Layout: l.layout, N: v.n, K: k, Inplace: v.inplace, Death: v.death, Prior: v.prior,
						PriorSeed: uint64(0x5a5a5a5a5a5a5a5a) >> uint(li), PriorLen: 1234, Seeds: seeds}})
				}
			}
		}
	}
	return cases
}

func enumExtract() (cases []Case) {
	layouts := enumLayouts()
	ns := hx.Pick([]int{1, 3}, []int{1, 2, 3, 4})
	priors := hx.Pick([]string{"absent", "partial"}, []string{"absent", "empty", "garbage", "partial", "complete"})
	for li, l := range layouts {
		for _, n := range ns {
			for _, inplace := range []bool{false, true} {
				for _, prior := range priors {
					for _, death := range []string{"kill", "err"} {
						if death == "err" && (n != 1 || !hx.Thorough() && prior != "absent") {
							continue
						}
						for k := 1; k <= len(l.layout)+1; k++ {
							cases = append(cases, Case{Part: "extract", Extract: &ExtractCase{Chunks: l.chunks, Layout: l.layout, N: n, K: k, Inplace: inplace,
								Death: death, Prior: prior, PriorSeed: uint64(0x5a5a5a5a5a5a5a5a) >> uint(li), PriorLen: 1234}})
							// the other digest: every k, in place (the re-run oracle hashes what is already there), one layout in quick
							if inplace && death == "kill" && (li == 0 || hx.Thorough()) {
								cases = append(cases, Case{Part: "extract", Extract: &ExtractCase{Chunks: l.chunks, Layout: l.layout, N: n, K: k, Inplace: true, Digest: "sha256",
									Death: death, Prior: prior, PriorSeed: uint64(0x5a5a5a5a5a5a5a5a) >> uint(li), PriorLen: 1234}})
							}
						}
					}
				}
			}
		}
	}
	return cases
}

// TestEnum is spread over the shards: unit i of the enumeration is done by shard i mod shards.
func TestEnum(t *testing.T) {
	needInfra(t)
	unit := 0
	mine := func() bool { unit++; return (unit-1)%hx.Shards() == hx.Shard() }
	for i, sc := range enumContents() {
		if !mine() {
			continue
		}
		cases, points := enumStore(sc)
		pool(t, cases)
		if t.Failed() {
			return
		}
		hx.AddNote("enumerated_store_crash_points", points)
		d := sc.normalise().dry(nil, nil, false)
		hx.Exhaustive(fmt.Sprintf("store content %d (%d StoreChunk calls, single writer): every (syscall,count) of the writer thread [%s] + write cuts at boundary b (every b for short chunks), each with and without kill, + every step of the error path under one cut",
			i, len(sc.Writers[0]), strings.Join(d.Threads[0].Calls, " ")))
	}
	var mm []Case
	for _, c := range multiSamples() {
		if mine() {
			mm = append(mm, c)
		}
	}
	pool(t, mm)
	if t.Failed() {
		return
	}
	ex := append(append(append(enumExtract(), enumNames()...), enumStops()...), enumSeeds()...)
	var my []Case
	for _, c := range ex {
		if mine() {
			my = append(my, c)
		}
	}
	pool(t, my)
	if t.Failed() {
		return
	}
	hx.AddNote("enumerated_extract_kill_points", len(my))
	hx.Exhaustive("extract: every request index k for two fixed layouts x listed (n, -k, prior, death) grid, + digest sha256 for the -k kills; + destination names of 200/243/244/250/255 bytes (also 15..20 directories deep) x every k for the first layout; + -k to a new path (absent/empty), n=1, 404 or SIGINT or SIGTERM at every k; + two seed sets per layout (older version via --seed; unrelated + older via --seed-dir/--seed) x every k, with and without -k")
	for i, base := range enumFinalConfigs() {
		if !mine() {
			continue
		}
		cases, points := enumFinal(base)
		pool(t, cases)
		if t.Failed() {
			return
		}
		hx.AddNote("enumerated_extract_syscall_points", points)
		hx.Exhaustive(fmt.Sprintf("extract under strace, content %d (%d positions, n=%d, -k=%v, prior %s, name_len %d, dir_depth %d, %d seeds): SIGKILL at every (directory-visible syscall, c<=process total of the dry run) + injected error at every rename*/link*/unlink*/truncate call",
			i, len(base.Layout), base.N, base.Inplace, base.Prior, base.NameLen, base.DirDepth, len(base.Seeds)))
	}
}
