// C05 — tar then untar reproduces the directory tree.
//
// Every case builds a generated tree on disk (internal/fstree), takes a plain-syscall snapshot
// of it, and sends it through the reference pipeline
//
//	disk --desync.Tar(LocalFS)--> catar bytes --desync.UnTar--> output writer
//
// and, if the case says so, through one variant of it (tar-stream input through
// desync.NewTarReader with or without AddRoot, the catar chunked by desync.ChunkStream into a
// MemStore/LocalStore and unpacked by desync.UnTarIndex, or the desync binary), under one of
// the two digest algorithms. The output writer is LocalFS (snapshot compared with the
// source's), desync.NewTarWriter (re-read with archive/tar) or desync.NewMtreeFS (parsed line by
// line); for the latter two only the fields the format carries are compared.
//
// Every mismatch is reported under a signature C05:<pipeline>:<output>:<node type>:<field>.
// A mismatch of a variant at a (path, field) where the reference pipeline of the same case
// fails too is attributed to the reference pipeline only, so that one root cause is not listed
// once per pipeline.
package c05

import (
	"bytes"
	"context"
	"fmt"
	"os"
	"os/exec"
	"path/filepath"
	"runtime/debug"
	"sort"
	"strings"
	"testing"
	"time"

	"github.com/folbricht/desync"
	"pgregory.net/rapid"

	"verifharness/internal/dx"
	"verifharness/internal/fstree"
	"verifharness/internal/gen"
	"verifharness/internal/hx"
	"verifharness/internal/ref"
)

type Case struct {
	Root      fstree.Spec `json:"root"`
	Digest    string      `json:"digest"`               // sha512-256 | sha256
	Input     string      `json:"input"`                // disk | tar
	TarFormat string      `json:"tar_format,omitempty"` // tar input: pax | gnu
	AddRoot   bool        `json:"add_root,omitempty"`   // tar input: stream without root entry + TarReaderOptions.AddRoot
	DotPrefix bool        `json:"dot_prefix,omitempty"` // tar input: member names start with "./"
	Via       string      `json:"via"`                  // catar | index
	Sizes     gen.Sizes   `json:"sizes"`                // index: chunk sizes in bytes (CLI: rounded up to KiB)
	Store     string      `json:"store,omitempty"`      // index: mem | local
	N         int         `json:"n,omitempty"`          // index: workers
	Output    string      `json:"output"`               // localfs | gnutar | mtree
	CLI       bool        `json:"cli,omitempty"`        // variant runs the desync binary ($VERIF_DESYNC_BIN)
	DestFresh bool        `json:"dest_fresh,omitempty"` // localfs: the destination directory does not exist yet
	NoOwner   bool        `json:"no_owner,omitempty"`   // localfs: LocalFSOptions.NoSameOwner / --no-same-owner (owner and xattrs are then not compared)
	NoPerm    bool        `json:"no_perm,omitempty"`    // localfs: LocalFSOptions.NoSamePermissions / --no-same-permissions (mode bits are then not compared)
}

// ------------------------------------------------------------------ generator

func genCase(t *rapid.T) Case {
	var c Case
	c.Digest = rapid.SampledFrom([]string{"sha512-256", "sha256"}).Draw(t, "digest")
	c.Output = rapid.SampledFrom([]string{"localfs", "localfs", "localfs", "localfs", "gnutar", "gnutar", "mtree"}).Draw(t, "output")
	switch rapid.IntRange(0, 9).Draw(t, "variant") {
	case 0, 1, 2:
		c.Input, c.Via = "disk", "catar"
	case 3, 4, 5, 6:
		c.Input, c.Via = "disk", "index"
	default:
		c.Input = "tar"
		c.Via = rapid.SampledFrom([]string{"catar", "catar", "catar", "index"}).Draw(t, "via")
	}
	if c.Input == "tar" {
		// the output writers see nothing but the archive: they are exercised on the archives made
		// from disk; a tar-stream input is followed to the unpacked tree
		c.Output = "localfs"
		c.TarFormat = rapid.SampledFrom([]string{"pax", "pax", "gnu"}).Draw(t, "tarformat")
		c.AddRoot = rapid.Bool().Draw(t, "addroot")
		c.DotPrefix = rapid.Bool().Draw(t, "dotprefix")
	}
	// the binary has its own option and flag handling (digest, index header): both tiers drive it, with the
	// same digest on the two commands of a round trip
	cli := os.Getenv("VERIF_DESYNC_BIN") != ""
	if cli && rapid.IntRange(0, hx.Pick(7, 5)).Draw(t, "cli") == 0 {
		c.CLI = true
	}
	c.Sizes = gen.Sizes{Min: 48, Avg: 64, Max: 256}
	if c.Via == "index" {
		if c.CLI {
			kb := rapid.SampledFrom([][3]uint64{{1, 2, 4}, {1, 4, 16}, {4, 16, 64}, {16, 64, 256}}).Draw(t, "kb")
			c.Sizes = gen.Sizes{Min: kb[0] << 10, Avg: kb[1] << 10, Max: kb[2] << 10}
		} else if hx.Thorough() && rapid.IntRange(0, 7).Draw(t, "defaultsizes") == 0 {
			c.Sizes = gen.Sizes{Min: 16 << 10, Avg: 64 << 10, Max: 256 << 10}
		} else {
			c.Sizes = gen.ChunkSizes(t, false)
		}
		c.Store = rapid.SampledFrom([]string{"mem", "mem", "local"}).Draw(t, "store")
		c.N = rapid.SampledFrom([]int{1, 1, 2, 4, 8}).Draw(t, "n")
	}
	c.DestFresh = c.Output == "localfs" && rapid.IntRange(0, 3).Draw(t, "destfresh") == 0
	// the two unpack options only say what is NOT restored (owner + xattrs, permission bits): everything
	// else the statement lists still has to come back
	if c.Output == "localfs" {
		c.NoOwner = rapid.IntRange(0, 3).Draw(t, "noowner") == 0
		c.NoPerm = rapid.IntRange(0, 3).Draw(t, "noperm") == 0
	}

	o := fstree.GenOptions{
		MaxDepth:  4,
		MaxKids:   12,
		MaxNodes:  hx.Pick(40, 120),
		MaxFile:   hx.Pick(70_000, 300_000),
		MaxTarget: hx.Pick(300, 4000),
		FileSizes: []int{int(c.Sizes.Min), int(c.Sizes.Max), int(c.Sizes.Max) + 1, 2*int(c.Sizes.Max) + 3, 10 * int(c.Sizes.Max)},
		// the exact epoch is desync's "no time": such a node's own mtime is not compared, but it must
		// not disturb the restoration of any other node's (its ancestors' in particular)
		EpochTimes: true,
	}
	if hx.Thorough() {
		o.BulkMax = 3000
		o.MaxXattrVal = 1500
	}
	// desync's gnu-tar writer refuses any entry with an xattr: keep a share of gnutar cases that
	// can get past that (the refusal itself is reported when it happens)
	if c.Output == "gnutar" && rapid.IntRange(0, 3).Draw(t, "noxattrs") > 0 {
		o.NoXattrs = true
	}
	// names with a space split an mtree line: keep a share of mtree cases without them
	if c.Output == "mtree" && rapid.Bool().Draw(t, "nospace") {
		o.NoSpaceNames = true
	}
	c.Root = fstree.Gen(t, o)
	// the shape around which deferred directory times go wrong: a non-empty directory with an epoch
	// mtime, in a directory with a real mtime that gets further entries after it
	if rapid.IntRange(0, 7).Draw(t, "epochshape") == 0 {
		at := &c.Root
		for d := rapid.IntRange(0, 2).Draw(t, "epochdepth"); d > 0; d-- { // descend into generated directories
			var dirs []int
			for i := range at.Kids {
				if at.Kids[i].Kind == fstree.Dir && !at.Kids[i].Epoch {
					dirs = append(dirs, i)
				}
			}
			if len(dirs) == 0 {
				break
			}
			at = &at.Kids[rapid.SampledFrom(dirs).Draw(t, "epochat")]
		}
		at.Epoch = false
		inner := rapid.SampledFrom([]string{fstree.File, fstree.File, fstree.Dir, fstree.Symlink, fstree.Blk}).Draw(t, "epochinner")
		after := rapid.SampledFrom([]string{fstree.File, fstree.File, fstree.Dir, fstree.Symlink, fstree.Chr}).Draw(t, "epochafter")
		mk := func(name, kind string, sec int64) fstree.Spec {
			return fstree.Spec{Name: []byte(name), Kind: kind, Perm: 0o755, Sec: sec, Nsec: 123_456_789, Size: 3, Target: []byte("t"), Major: 1, Minor: 3}
		}
		d := mk("\x01epoch-dir", fstree.Dir, 0) // sorts before almost every generated name
		d.Epoch = true
		d.Kids = []fstree.Spec{mk("inner", inner, 1_000_000_000)}
		if rapid.Bool().Draw(t, "epochdeeper") {
			d.Kids = []fstree.Spec{{Name: []byte("sub"), Kind: fstree.Dir, Perm: 0o700, Sec: 1_200_000_000, Kids: d.Kids}}
		}
		at.Kids = append(at.Kids, d, mk("\xffsibling-after", after, 1_100_000_000))
	}
	return c
}

// ------------------------------------------------------------------ pipelines

type pipeErr struct {
	stage string // pack chunk index unpack read-output
	class string // "" or a machine-derived refinement
	err   error
}

func (e *pipeErr) key() string {
	if e.class != "" {
		return "error\x00" + e.stage + "-" + e.class
	}
	return "error\x00" + e.stage
}

// writer bundles one output writer and the way its result is read back.
type writer struct {
	kind string
	fs   desync.FilesystemWriter
	buf  *bytes.Buffer
	dest string
	tw   *desync.TarWriter
}

func newWriter(kind, dest string, fresh bool, opts desync.LocalFSOptions) (*writer, error) {
	w := &writer{kind: kind, dest: dest, buf: &bytes.Buffer{}}
	switch kind {
	case "gnutar":
		tw := desync.NewTarWriter(w.buf)
		w.tw, w.fs = &tw, tw
	case "mtree":
		m, err := desync.NewMtreeFS(w.buf)
		if err != nil {
			return nil, err
		}
		w.fs = m
	default:
		if !fresh {
			if err := os.Mkdir(dest, 0o755); err != nil {
				return nil, err
			}
		}
		// zero options: owner, permissions and xattrs of the archive are applied (NoSameOwner
		// keeps the caller's uid/gid and drops the xattrs, NoSamePermissions keeps the umask default)
		w.fs = desync.NewLocalFS(dest, opts)
	}
	return w, nil
}

// result is what a pipeline produced, in comparable form.
type result struct {
	tree *fstree.Node // localfs
	recs []rec        // gnutar, mtree
	raw  []byte       // gnutar, mtree: the bytes the writer produced
}

func (w *writer) finish() (*result, *pipeErr) {
	switch w.kind {
	case "gnutar":
		if err := w.tw.Close(); err != nil {
			return nil, &pipeErr{"unpack", "close", err}
		}
		return parseOutput("gnutar", w.buf.Bytes())
	case "mtree":
		return parseOutput("mtree", w.buf.Bytes())
	}
	t, err := fstree.Snapshot(w.dest)
	if err != nil {
		return nil, &pipeErr{"read-output", "", err}
	}
	return &result{tree: t}, nil
}

func parseOutput(kind string, b []byte) (*result, *pipeErr) {
	var recs []rec
	var err error
	if kind == "gnutar" {
		recs, err = readGnuTar(b)
	} else {
		recs, err = parseMtree(b)
	}
	if err != nil {
		return nil, &pipeErr{"read-output", "", err}
	}
	return &result{recs: recs, raw: b}, nil
}

func hasXattrs(n *fstree.Node) bool {
	if len(n.Xattrs) > 0 {
		return true
	}
	for _, k := range n.Kids {
		if hasXattrs(k) {
			return true
		}
	}
	return false
}

// classifyUnpackErr refines an unpack error by machine-checkable properties of the input.
func classifyUnpackErr(err error, kind string, src *fstree.Node) string {
	if kind == "gnutar" && hasXattrs(src) && strings.Contains(err.Error(), "Xattrs") {
		return "xattrs"
	}
	return ""
}

// unpackCatar: catar bytes -> desync.UnTar -> writer.
func unpackCatar(catar []byte, w *writer, src *fstree.Node) (*result, *pipeErr) {
	if err := desync.UnTar(context.Background(), bytes.NewReader(catar), w.fs); err != nil {
		return nil, &pipeErr{"unpack", classifyUnpackErr(err, w.kind, src), err}
	}
	return w.finish()
}

type indexNotes struct {
	chunks  int
	flagBad bool
	ran     []string // commands of the binary that were executed: tar tar-i untar untar-i mtree mtree-i
	msgs    []string // index-level violations: "sig-suffix\x00message"
}

// unpackIndex: catar bytes -> NewChunker -> ChunkStream(store) -> Index -> WriteTo/IndexFromReader -> UnTarIndex -> writer.
func unpackIndex(c Case, catar []byte, w *writer, src *fstree.Node, dir string, notes *indexNotes) (*result, *pipeErr) {
	var store desync.WriteStore
	if c.Store == "local" {
		sd := filepath.Join(dir, "store")
		if err := os.MkdirAll(sd, 0o755); err != nil {
			panic(err)
		}
		ls, err := desync.NewLocalStore(sd, desync.StoreOptions{})
		if err != nil {
			return nil, &pipeErr{"chunk", "store", err}
		}
		store = ls
	} else {
		store = dx.NewMemStore("c05")
	}
	defer store.Close()
	ch, err := desync.NewChunker(bytes.NewReader(catar), c.Sizes.Min, c.Sizes.Avg, c.Sizes.Max)
	if err != nil {
		return nil, &pipeErr{"chunk", "newchunker", err}
	}
	idx, err := desync.ChunkStream(context.Background(), ch, store, c.N)
	if err != nil {
		return nil, &pipeErr{"chunk", "", err}
	}
	notes.chunks = len(idx.Chunks)
	sha256d := c.Digest == "sha256"
	// the index tiles the archive, and its IDs are the digest d of the chunk bytes
	var pos uint64
	for i, k := range idx.Chunks {
		if k.Start != pos || k.Start+k.Size > uint64(len(catar)) || k.Size == 0 {
			notes.msgs = append(notes.msgs, fmt.Sprintf("tiling\x00chunk %d of %d: start %d size %d, expected start %d (archive of %d bytes)", i, len(idx.Chunks), k.Start, k.Size, pos, len(catar)))
			break
		}
		if id := ref.ID(catar[k.Start:k.Start+k.Size], sha256d); id != [32]byte(k.ID) {
			notes.msgs = append(notes.msgs, fmt.Sprintf("chunk-id\x00chunk %d: ID %x is not the %s digest of its bytes (%x)", i, k.ID[:6], c.Digest, id[:6]))
			break
		}
		pos += k.Size
	}
	if pos != uint64(len(catar)) && len(notes.msgs) == 0 {
		notes.msgs = append(notes.msgs, fmt.Sprintf("tiling\x00chunks cover %d of %d archive bytes", pos, len(catar)))
	}
	// produced under digest d: carries d's flag, and is readable under d
	flagSet := idx.Index.FeatureFlags&desync.CaFormatSHA512256 != 0
	var ser bytes.Buffer
	_, werr := idx.WriteTo(&ser)
	use := idx
	var rerr error
	if werr == nil {
		var back desync.Index
		if back, rerr = desync.IndexFromReader(bytes.NewReader(ser.Bytes())); rerr == nil {
			use = back
		}
	}
	switch {
	case flagSet == sha256d:
		notes.flagBad = true
		notes.msgs = append(notes.msgs, fmt.Sprintf("flag\x00index made by ChunkStream under %s has feature flags %#x (SHA512-256 flag set: %v); reading its serialisation back with IndexFromReader under the same digest: %v",
			c.Digest, idx.Index.FeatureFlags, flagSet, rerr))
	case werr != nil:
		notes.msgs = append(notes.msgs, fmt.Sprintf("unreadable\x00Index.WriteTo failed: %v", werr))
	case rerr != nil:
		notes.msgs = append(notes.msgs, fmt.Sprintf("unreadable\x00IndexFromReader refuses the serialisation of the index ChunkStream returned under %s: %v", c.Digest, rerr))
	}
	if err := desync.UnTarIndex(context.Background(), w.fs, use, store, c.N, desync.NullProgressBar{}); err != nil {
		return nil, &pipeErr{"unpack", classifyUnpackErr(err, w.kind, src), err}
	}
	return w.finish()
}

func packFrom(fs func() desync.FilesystemReader) ([]byte, []byte, error) {
	var a, b bytes.Buffer
	if err := desync.Tar(context.Background(), &a, fs()); err != nil {
		return nil, nil, err
	}
	if err := desync.Tar(context.Background(), &b, fs()); err != nil {
		return a.Bytes(), nil, err
	}
	return a.Bytes(), b.Bytes(), nil
}

// ------------------------------------------------------------------ CLI

func runBin(dir string, stdout *bytes.Buffer, args ...string) error {
	cmd := exec.Command(os.Getenv("VERIF_DESYNC_BIN"), args...)
	var stderr bytes.Buffer
	cmd.Stderr = &stderr
	if stdout != nil {
		cmd.Stdout = stdout
	}
	cmd.Env = append(os.Environ(), "HOME="+dir)
	cmd.Dir = dir
	err := cmd.Run()
	if _, exited := err.(*exec.ExitError); err != nil && !exited {
		// the binary could not be started (fork failure on a busy machine): not desync's doing
		panic(fmt.Sprintf("harness: cannot run %s: %v", os.Getenv("VERIF_DESYNC_BIN"), err))
	}
	if err != nil {
		msg := strings.TrimSpace(stderr.String())
		if len(msg) > 300 {
			msg = msg[len(msg)-300:]
		}
		return fmt.Errorf("desync %s: %v: %s", strings.Join(args, " "), err, msg)
	}
	return nil
}

// variantCLI runs the whole variant through the binary:
//
//	desync [--digest d] tar [--input-format tar [--tar-add-root]] [-i -s store -m a:b:c] <out> <src|file.tar>
//	desync [--digest d] untar [-i -s store] [--output-format gnu-tar] <out> <dest>      (or: mtree [-i -s store] <out>)
func variantCLI(c Case, dir, src string, tarStream []byte, refCatar []byte, srcTree *fstree.Node, notes *indexNotes) (*result, *pipeErr) {
	global := []string{}
	if c.Digest == "sha256" {
		global = []string{"--digest", "sha256"}
	}
	store := filepath.Join(dir, "clistore")
	arch := filepath.Join(dir, "out.catar")
	targs := append(append([]string{}, global...), "tar")
	from := src
	if c.Input == "tar" {
		from = filepath.Join(dir, "in.tar")
		if err := os.WriteFile(from, tarStream, 0o600); err != nil {
			panic(err)
		}
		targs = append(targs, "--input-format", "tar")
		if c.AddRoot {
			targs = append(targs, "--tar-add-root")
		}
	}
	kb := func(v uint64) uint64 { return (v + 1023) >> 10 }
	if c.Via == "index" {
		if err := os.MkdirAll(store, 0o755); err != nil {
			panic(err)
		}
		arch = filepath.Join(dir, "out.caidx")
		targs = append(targs, "-i", "-s", store, "-m", fmt.Sprintf("%d:%d:%d", kb(c.Sizes.Min), kb(c.Sizes.Avg), kb(c.Sizes.Max)))
	}
	targs = append(targs, arch, from)
	suffix := map[bool]string{false: "", true: "-i"}[c.Via == "index"]
	notes.ran = append(notes.ran, "tar"+suffix)
	if err := runBin(dir, nil, targs...); err != nil {
		return nil, &pipeErr{"pack", "", err}
	}
	if c.Via == "catar" {
		got, err := os.ReadFile(arch)
		if err != nil {
			return nil, &pipeErr{"pack", "no-archive", err}
		}
		if !bytes.Equal(got, refCatar) {
			notes.msgs = append(notes.msgs, fmt.Sprintf("bytes-differ\x00archive written by the binary (%d bytes) differs from the archive desync.Tar made of the same input (%d bytes)", len(got), len(refCatar)))
		}
	} else {
		raw, err := os.ReadFile(arch)
		if err != nil {
			return nil, &pipeErr{"pack", "no-index", err}
		}
		f, perr := ref.ParseIndex(raw)
		if perr != nil {
			notes.msgs = append(notes.msgs, fmt.Sprintf("unreadable\x00index file written by the binary is not a well-formed caidx: %v", perr))
		} else {
			notes.chunks = len(f.Items)
			// the header says which digest the table holds: SHA512-256 flag iff that is the digest in use
			if flagSet := f.Flags&ref.FlagSHA512256 != 0; flagSet == (c.Digest == "sha256") {
				notes.flagBad = true
				notes.msgs = append(notes.msgs, fmt.Sprintf("flag\x00index file written by `desync --digest %s tar -i` has feature flags %#x (SHA512-256 flag set: %v)", c.Digest, f.Flags, flagSet))
			}
			// the table tiles the archive of this input, and every ID is the configured digest of its range
			var pos uint64
			for i, it := range f.Items {
				if it.End <= pos || it.End > uint64(len(refCatar)) {
					notes.msgs = append(notes.msgs, fmt.Sprintf("tiling\x00index file written by the binary: chunk %d of %d ends at %d after %d (archive of %d bytes)", i, len(f.Items), it.End, pos, len(refCatar)))
					pos = uint64(len(refCatar))
					break
				}
				if id := ref.ID(refCatar[pos:it.End], c.Digest == "sha256"); id != it.ID {
					notes.msgs = append(notes.msgs, fmt.Sprintf("chunk-id\x00index file written by `desync --digest %s tar -i`: ID %x of chunk %d [%d,%d) is not the %s digest of that archive range (%x)", c.Digest, it.ID[:6], i, pos, it.End, c.Digest, id[:6]))
					pos = uint64(len(refCatar))
					break
				}
				pos = it.End
			}
			if pos != uint64(len(refCatar)) {
				notes.msgs = append(notes.msgs, fmt.Sprintf("tiling\x00index file written by the binary covers %d of %d archive bytes", pos, len(refCatar)))
			}
		}
	}
	uargs := append([]string{}, global...)
	dest := filepath.Join(dir, "dest-cli")
	var stdout *bytes.Buffer
	switch c.Output {
	case "mtree":
		uargs = append(uargs, "mtree")
		stdout = &bytes.Buffer{}
	default:
		uargs = append(uargs, "untar")
	}
	if c.Via == "index" {
		uargs = append(uargs, "-i", "-s", store)
	}
	switch c.Output {
	case "gnutar":
		dest = filepath.Join(dir, "out.tar")
		uargs = append(uargs, "--output-format", "gnu-tar", arch, dest)
	case "mtree":
		uargs = append(uargs, arch)
	default:
		if !c.DestFresh {
			if err := os.Mkdir(dest, 0o755); err != nil {
				panic(err)
			}
		}
		if c.NoOwner {
			uargs = append(uargs, "--no-same-owner")
		}
		if c.NoPerm {
			uargs = append(uargs, "--no-same-permissions")
		}
		uargs = append(uargs, arch, dest)
	}
	notes.ran = append(notes.ran, map[bool]string{false: "untar", true: "mtree"}[c.Output == "mtree"]+suffix)
	if err := runBin(dir, stdout, uargs...); err != nil {
		class := classifyUnpackErr(err, c.Output, srcTree)
		if notes.flagBad && strings.Contains(err.Error(), "index file uses") {
			class = "flag"
		}
		return nil, &pipeErr{"unpack", class, err}
	}
	switch c.Output {
	case "gnutar":
		b, err := os.ReadFile(dest)
		if err != nil {
			return nil, &pipeErr{"read-output", "", err}
		}
		return parseOutput("gnutar", b)
	case "mtree":
		return parseOutput("mtree", stdout.Bytes())
	}
	t, err := fstree.Snapshot(dest)
	if err != nil {
		return nil, &pipeErr{"read-output", "", err}
	}
	return &result{tree: t}, nil
}

// ------------------------------------------------------------------ one case

func normalise(c Case) Case {
	if c.Digest != "sha256" {
		c.Digest = "sha512-256"
	}
	if c.Input != "tar" {
		c.Input = "disk"
	}
	if c.TarFormat != "gnu" {
		c.TarFormat = "pax"
	}
	if c.Via != "index" {
		c.Via = "catar"
	}
	if c.Output != "gnutar" && c.Output != "mtree" {
		c.Output = "localfs"
	}
	if c.Input == "tar" {
		c.Output = "localfs"
	}
	if c.Output != "localfs" {
		c.NoOwner, c.NoPerm = false, false
	}
	if c.N < 1 {
		c.N = 1
	}
	if c.N > 16 {
		c.N = 16
	}
	if c.Sizes.Min < 48 {
		c.Sizes.Min = 48
	}
	if c.Sizes.Avg < c.Sizes.Min {
		c.Sizes.Avg = c.Sizes.Min
	}
	if c.Sizes.Max < c.Sizes.Avg {
		c.Sizes.Max = c.Sizes.Avg
	}
	if c.Sizes.Max == c.Sizes.Min {
		c.Sizes.Max++
	}
	if c.Sizes.Max > 1<<20 {
		c.Sizes = gen.Sizes{Min: 16 << 10, Avg: 64 << 10, Max: 256 << 10}
	}
	if c.CLI && os.Getenv("VERIF_DESYNC_BIN") == "" {
		c.CLI = false
	}
	return c
}

func label(c Case) string {
	l := c.Via
	if c.Input == "tar" {
		if c.AddRoot {
			l = "tarin-addroot-" + l
		} else {
			l = "tarin-" + l
		}
	}
	if c.CLI {
		l = "cli-" + l
	}
	return l
}

// compare lists the differences between what a pipeline produced and the tree it had to reproduce.
func compare(want *fstree.Node, r *result, output string, skipRootMeta, sha256d bool, skip map[string]bool) []fstree.Difference {
	if output == "localfs" {
		return fstree.Diff(want, r.tree, fstree.DiffOptions{SkipRootMeta: skipRootMeta, SkipEpochMtime: true, Max: 1 << 20, Skip: skip})
	}
	return compareFlat(want, r.recs, output, skipRootMeta, sha256d)
}

type reporter struct {
	o     *hx.Outcome
	count map[string]int
	first map[string]string
	order []string
}

func (rp *reporter) add(sig, msg string) {
	if rp.count[sig] == 0 {
		rp.order = append(rp.order, sig)
		rp.first[sig] = msg
	}
	rp.count[sig]++
}

func (rp *reporter) flush() {
	for _, sig := range rp.order {
		m := rp.first[sig]
		if n := rp.count[sig]; n > 1 {
			m += fmt.Sprintf(" (and %d more of this class in the case)", n-1)
		}
		rp.o.Fail(sig, "%s", m)
	}
}

func run(c Case) (o hx.Outcome) {
	c = normalise(c)
	oldDigest := desync.Digest
	defer func() { desync.Digest = oldDigest }()
	sha256d := c.Digest == "sha256"
	if sha256d {
		desync.Digest = desync.SHA256{}
	} else {
		desync.Digest = desync.SHA512256{}
	}

	dir := hx.Scratch("c05")
	defer os.RemoveAll(dir)
	src := filepath.Join(dir, "src")
	if err := fstree.Materialise(src, fstree.Expand(c.Root)); err != nil {
		panic(fmt.Sprintf("harness: cannot build the tree on disk: %v", err))
	}
	S, err := fstree.Snapshot(src)
	if err != nil {
		panic(fmt.Sprintf("harness: cannot list the tree on disk: %v", err))
	}

	// evidence
	sh := fstree.ShapeOf(S)
	pipe := label(c)
	variant := pipe != "catar"
	o.Desc = map[string]any{"pipeline": pipe, "output": c.Output, "digest": c.Digest, "nodes": sh.Nodes, "dirs": sh.Dirs, "max_fanout": sh.MaxFan,
		"depth": sh.Depth, "max_name": sh.MaxName, "kinds": sh.Kinds, "xattrs": sh.Xattrs, "max_file": sh.MaxFile, "bytes": sh.Bytes,
		"setid": sh.SetID, "non_root_owner": sh.NonRootOwner}
	if c.Via == "index" {
		o.Desc.(map[string]any)["sizes"] = fmt.Sprintf("%d:%d:%d", c.Sizes.Min, c.Sizes.Avg, c.Sizes.Max)
		o.Desc.(map[string]any)["store"] = c.Store
	}
	o.Key = fmt.Sprintf("%s|%s%v%v|%s|%d|%d|%d|%d|%v|%d|%d", pipe, c.Output, c.NoOwner, c.NoPerm, c.Digest, sh.Nodes, sh.Dirs, sh.MaxFan, sh.Depth, sh.Kinds, sh.Xattrs, sh.Bytes)
	o.Nontrivial = sh.DirsWith2 >= 1 && (sh.Kinds[fstree.Symlink] > 0 || sh.Kinds[fstree.Chr]+sh.Kinds[fstree.Blk] > 0 || sh.Xattrs > 0 || sh.SetID > 0 || sh.NonRootOwner > 0)
	o.Class("pipeline:"+pipe, "output:"+c.Output, "digest:"+c.Digest)
	if sha256d {
		o.Class("sha256")
	}
	if sh.EmptyDirs > 0 {
		o.Class("empty-directory")
	}
	if sh.EmptyFiles > 0 {
		o.Class("empty-file")
	}
	if c.Via == "index" {
		o.Class("index", "store:"+c.Store)
		if uint64(sh.MaxFile) > c.Sizes.Max {
			o.Class("file>max-chunk")
		}
	}
	if sh.HighByteNames > 0 {
		o.Class("name:byte>=0x80")
	}
	if sh.MaxName == 255 {
		o.Class("name:255-bytes")
	}
	if sh.SpaceNames > 0 {
		o.Class("name:space")
	}
	for _, k := range []string{fstree.Symlink, fstree.Chr, fstree.Blk} {
		if sh.Kinds[k] > 0 {
			o.Class("kind:" + k)
		}
	}
	if sh.Xattrs > 0 {
		o.Class("xattrs")
	}
	if sh.SetID > 0 {
		o.Class("setid-or-sticky")
	}
	if sh.NonRootOwner > 0 {
		o.Class("non-root-owner")
	}
	if sh.Pre1970 > 0 {
		o.Class("mtime:pre-1970")
	}
	if sh.Post2262 > 0 {
		o.Class("mtime:post-2262")
	}
	if sh.EpochNodes > 0 {
		o.Class("mtime:epoch-node-skipped")
		for k := range sh.EpochKinds {
			o.Class("mtime:epoch:" + k)
		}
	}
	if sh.EpochDirThenSibling > 0 {
		o.Class("shape:epoch-dir-then-sibling")
	}
	if sh.Depth >= 3 {
		o.Class("depth>=3")
	}
	if sh.MaxFan >= 1000 {
		o.Class("fanout>=1000")
	}
	if c.Input == "tar" {
		o.Class("tarin:" + c.TarFormat)
	}
	if c.CLI {
		o.Class("cli")
	}
	if c.DestFresh {
		o.Class("dest:created-by-untar")
	}
	optSkip := map[string]bool{}
	if c.NoOwner {
		o.Class("untar:no-same-owner")
		if sh.Kinds[fstree.Symlink] > 0 {
			o.Class("untar:no-same-owner:symlink")
		}
		optSkip["uid"], optSkip["gid"], optSkip["xattrs"] = true, true, true
	}
	if c.NoPerm {
		o.Class("untar:no-same-permissions")
		optSkip["mode-perm"], optSkip["mode-setid"] = true, true
	}

	rp := &reporter{o: &o, count: map[string]int{}, first: map[string]string{}}
	defer rp.flush()
	sig := func(pipe, out, typ, field string) string { return "C05:" + pipe + ":" + out + ":" + typ + ":" + field }
	report := func(pipe string, ds []fstree.Difference, skip map[string]bool) {
		for _, d := range ds {
			if skip[diffKey(d)] {
				continue
			}
			typ := d.Type
			if d.Field == "mtime-post2262" || d.Field == "path-space" { // classes of the input value, whatever the node type
				typ = "any"
			}
			rp.add(sig(pipe, c.Output, typ, d.Field), fmt.Sprintf("%s -> %s (%s): %v", pipe, c.Output, c.Digest, d))
		}
	}
	reportErr := func(pipe string, e *pipeErr, refErr *pipeErr) {
		if refErr != nil && refErr.key() == e.key() {
			return // same failure as the reference pipeline of this case: reported there
		}
		f := e.stage
		if e.class != "" {
			f += "-" + e.class
		}
		rp.add(sig(pipe, c.Output, "error", f), fmt.Sprintf("%s -> %s (%s): %s failed on a valid tree of %d nodes: %v", pipe, c.Output, c.Digest, e.stage, sh.Nodes, e.err))
	}

	// ---- reference pipeline: disk -> Tar -> catar -> UnTar -> output
	catar, again, err := packFrom(func() desync.FilesystemReader { return desync.NewLocalFS(src, desync.LocalFSOptions{}) })
	if err != nil {
		rp.add(sig("catar", "archive", "error", "pack"), fmt.Sprintf("desync.Tar(LocalFS) failed on a valid tree of %d nodes: %v", sh.Nodes, err))
		return o
	}
	if !bytes.Equal(catar, again) {
		rp.add("C05:catar:archive:any:not-deterministic", fmt.Sprintf("desync.Tar run twice over the same tree on disk gave different bytes (%d vs %d bytes, first difference at %d)", len(catar), len(again), firstDiff(catar, again)))
	}
	o.Desc.(map[string]any)["archive_bytes"] = len(catar)
	refKeys := map[string]bool{}
	var refErr *pipeErr
	var refRaw []byte
	{
		w, werr := newWriter(c.Output, filepath.Join(dir, "dest-ref"), c.DestFresh, desync.LocalFSOptions{NoSameOwner: c.NoOwner, NoSamePermissions: c.NoPerm})
		if werr != nil {
			panic(fmt.Sprintf("harness: %v", werr))
		}
		r, perr := unpackCatar(catar, w, S)
		if perr != nil {
			refErr = perr
			reportErr("catar", perr, nil)
		} else {
			refRaw = r.raw
			ds := compare(S, r, c.Output, false, sha256d, optSkip)
			for _, d := range ds {
				refKeys[diffKey(d)] = true
			}
			report("catar", ds, nil)
		}
	}
	if !variant {
		return o
	}

	// ---- the variant
	want := S
	skipRoot := false
	vcatar := catar
	var stream []byte
	if c.Input == "tar" {
		var terr error
		stream, want, terr = buildTar(S, c.TarFormat, c.AddRoot, c.DotPrefix)
		if terr != nil {
			panic(fmt.Sprintf("harness: archive/tar refused the generated tree: %v", terr))
		}
		skipRoot = c.AddRoot
		if !c.CLI {
			a, b, err := packFrom(func() desync.FilesystemReader {
				return desync.NewTarReader(bytes.NewReader(stream), desync.TarReaderOptions{AddRoot: c.AddRoot})
			})
			if err != nil {
				reportErr(pipe, &pipeErr{"pack", "", err}, nil)
				return o
			}
			if !bytes.Equal(a, b) {
				rp.add("C05:"+pipe+":archive:any:not-deterministic", fmt.Sprintf("desync.Tar run twice over the same tar stream gave different bytes (%d vs %d)", len(a), len(b)))
			}
			vcatar = a
		}
	}
	var notes indexNotes
	var r *result
	var perr *pipeErr
	if c.CLI {
		if c.Input == "tar" { // what the library makes of the same stream, for the byte comparison
			var buf bytes.Buffer
			if err := desync.Tar(context.Background(), &buf, desync.NewTarReader(bytes.NewReader(stream), desync.TarReaderOptions{AddRoot: c.AddRoot})); err == nil {
				vcatar = buf.Bytes()
			}
		}
		r, perr = variantCLI(c, dir, src, stream, vcatar, S, &notes)
	} else {
		w, werr := newWriter(c.Output, filepath.Join(dir, "dest-var"), c.DestFresh, desync.LocalFSOptions{NoSameOwner: c.NoOwner, NoSamePermissions: c.NoPerm})
		if werr != nil {
			panic(fmt.Sprintf("harness: %v", werr))
		}
		if c.Via == "index" {
			r, perr = unpackIndex(c, vcatar, w, S, dir, &notes)
		} else {
			r, perr = unpackCatar(vcatar, w, S)
		}
	}
	if c.Via == "index" {
		o.Desc.(map[string]any)["chunks"] = notes.chunks
		if notes.chunks >= 2 {
			o.Class("index:chunks>=2")
		}
	}
	for _, cmd := range notes.ran {
		o.Class("cli:digest:" + c.Digest + ":" + cmd)
	}
	for _, m := range notes.msgs {
		i := strings.IndexByte(m, 0)
		ipipe := "index"
		if c.CLI {
			ipipe = "cli-" + c.Via
		}
		rp.add("C05:"+ipipe+":"+c.Digest+":"+m[:i], m[i+1:])
	}
	if perr != nil {
		if !(perr.class == "flag" && notes.flagBad) { // consequence of the flag violation already reported
			reportErr(pipe, perr, refErr)
		}
		return o
	}
	if c.Output != "localfs" {
		// gnu-tar and mtree writers are functions of the archive alone, and this variant unpacks the very
		// archive the reference pipeline unpacked (and compared with the source): same bytes expected
		if refErr == nil && !bytes.Equal(r.raw, refRaw) {
			rp.add(sig(pipe, c.Output, "any", "differs-from-direct"), fmt.Sprintf("%s -> %s (%s): output (%d bytes) differs from what UnTar of the same archive wrote (%d bytes), first difference at %d",
				pipe, c.Output, c.Digest, len(r.raw), len(refRaw), firstDiff(r.raw, refRaw)))
		}
		return o
	}
	report(pipe, compare(want, r, c.Output, skipRoot, sha256d, optSkip), refKeys)
	return o
}

// diffKey is the (path, field) identity used to attribute a variant's mismatch to the reference
// pipeline; the sub-classes of mtime count as one field (a tar input rounds the wanted value).
func diffKey(d fstree.Difference) string {
	f := d.Field
	if strings.HasPrefix(f, "mtime") {
		f = "mtime"
	}
	return d.Path + "\x00" + f
}

func firstDiff(a, b []byte) int {
	i := 0
	for i < len(a) && i < len(b) && a[i] == b[i] {
		i++
	}
	return i
}

var spec = &hx.Spec[Case]{
	ID:    "C05",
	Level: "exploration",
	Rule: "cases = (generated tree on disk: depth <= 4, 0..12 entries per directory (thorough: seeded fan-out to 3000), names of 1..255 arbitrary bytes, files 0..70000 bytes (thorough 300000) incl. sizes around the chunk sizes, " +
		"symlinks to arbitrary targets, char/block devices, uid/gid in [0,2^32-2], mode in [0,07777], mtime anywhere in the ext4 range (the exact epoch on about 1 node in 25, and as a non-empty epoch directory followed by a sibling in 1 tree in 8), user.* xattrs on files and directories, trusted.* on symlinks and devices) " +
		"x input {disk, tar stream pax/gnu with root entry or AddRoot} x {catar, ChunkStream+store+UnTarIndex with generated chunk sizes} x output {LocalFS, gnu-tar, mtree} x digest {sha512-256, sha256}; one case in 8 (thorough: 6) runs the variant through the desync binary; " +
		"non-trivial = tree has a directory with >= 2 children and at least one symlink, device, xattr, set-id/sticky bit or non-root owner; distinct by (pipeline, output, digest, tree shape)",
	Assumptions: []string{
		"oracle: plain-syscall snapshot (lstat, readlink, llistxattr/lgetxattr, rdev, content) of the destination equals the snapshot of the source on path set, type, mode & 07777, uid, gid, symlink target, xattrs, device numbers, content, mtime (ns); atime/ctime are not compared",
		"the source snapshot, not the generated description, is the reference (the kernel clamps time stamps to the ext4 range)",
		"the desync binary ($VERIF_DESYNC_BIN, one case in 8 quick / 6 thorough plus a grid in TestEnum): `[--digest sha256] tar [--input-format tar [--tar-add-root]] [-i -s store -m k:k:k]` then `untar [-i -s store] [--output-format gnu-tar]` or `mtree [-i -s store]` with the same digest; a catar written by the binary must equal desync.Tar's, a caidx is parsed with the independent parser (internal/ref): SHA512-256 flag iff default digest, table tiles the archive, every ID is the configured digest (crypto/sha256, crypto/sha512 directly) of its range",
		"LocalFS is used with zero LocalFSOptions (owner, xattrs and permissions of the archive are applied) in 9 of 16 localfs cases; NoSameOwner and NoSamePermissions (--no-same-owner, --no-same-permissions) are drawn at 1/4 each: under the first uid, gid and xattrs are not compared, under the second the mode bits are not compared, every other field is; the harness runs as root",
		"about one node in 25 has an mtime of exactly the epoch (desync documents 0 as 'no time'): the mtime of such a node itself is not compared (class mtime:epoch-node-skipped), every other field of it and the mtime of every other node, its ancestors included, is; a gnu tar input whose floor(mtime) is the epoch although the source's is not is written with mtime 1 s",
		"gnu-tar output: compared on path, type, mode & 07777, uid, gid, size and content, floor(mtime) in seconds, link target, device numbers (xattrs are not carried by the format)",
		"mtree output: compared on path (after \\ooo decoding), type, mode & 07777, uid, gid, size, content digest under the active algorithm, mtime as <seconds>.<9 digits>, link target (link= or target=); device numbers and xattrs are not printed and not compared",
		"tar input: the stream is written with archive/tar in tar(1) order; the expectation is what that stream carries (gnu: whole seconds, no xattrs; pax: no empty xattr values); with AddRoot the made-up root's own metadata is not compared",
		"a variant's mismatch at a (path, field) where the reference pipeline (Tar -> catar -> UnTar) of the same case fails too is reported for the reference pipeline only",
		"fifos and sockets are not generated (desync documents skipping them; C13 covers that)",
	},
	Required: []string{"empty-directory", "empty-file", "file>max-chunk", "name:byte>=0x80", "sha256", "pipeline:catar", "pipeline:index", "pipeline:tarin-catar", "pipeline:tarin-addroot-catar",
		"output:localfs", "output:gnutar", "output:mtree", "untar:no-same-owner", "untar:no-same-owner:symlink", "untar:no-same-permissions", "kind:symlink", "kind:chr", "kind:blk", "xattrs", "setid-or-sticky", "non-root-owner", "index:chunks>=2", "store:local", "store:mem",
		"mtime:epoch-node-skipped", "mtime:epoch:dir", "mtime:epoch:file", "mtime:epoch:symlink", "mtime:epoch:chr", "mtime:epoch:blk", "shape:epoch-dir-then-sibling",
		// the binary, both digests on both commands of the round trip (the driver builds it: need_bin)
		"cli:digest:sha256:tar", "cli:digest:sha256:tar-i", "cli:digest:sha256:untar", "cli:digest:sha256:untar-i",
		"cli:digest:sha512-256:tar", "cli:digest:sha512-256:tar-i", "cli:digest:sha512-256:untar", "cli:digest:sha512-256:untar-i"},
	Gen: genCase,
	Run: run,
	// a case that never returns is a verdict (confirmed by a replay in a fresh process), not a timeout of the run
	Watchdog: hx.Pick(300*time.Second, 600*time.Second),
	Journal:  true,
}

func TestMain(m *testing.M) {
	debug.SetGCPercent(400)
	hx.Main(m)
}

func TestRegress(t *testing.T) { hx.Regress(t, spec) }
func TestKnown(t *testing.T)   { hx.Known(t, spec) }
func TestReplay(t *testing.T)  { hx.Replay(t, spec) }

// TestSelf: the oracle must be right where desync is not involved.
func TestSelf(t *testing.T) {
	fail := func(format string, a ...any) {
		fmt.Printf("SELFTEST-FAILURE: "+format+"\n", a...)
		t.Fatalf(format, a...)
	}
	dir := hx.Scratch("c05self")
	defer os.RemoveAll(dir)
	if err := fstree.SelfTest(dir); err != nil {
		fail("fstree: %v", err)
	}
	// flat comparison: a hand-written correct gnu-tar stream and mtree listing of a tree are accepted,
	// single-field corruptions are named
	tree := fstree.Expand(fstree.Spec{Perm: 0o1755, UID: 1, GID: 2, Sec: 10, Nsec: 5, Kids: []fstree.Spec{
		{Name: []byte("a b"), Kind: fstree.File, Perm: 0o4755, UID: 1 << 31, GID: 7, Sec: 1000, Nsec: 999_999_999, Size: 10, Seed: 1},
		{Name: []byte("c"), Kind: fstree.Chr, Perm: 0o620, Major: 1, Minor: 3, Sec: -5, Nsec: 1},
		{Name: []byte("l#\xff"), Kind: fstree.Symlink, Target: []byte("x y"), Sec: 7, Nsec: 0},
	}})
	stream, want, err := buildTar(tree, "gnu", false, false)
	if err != nil {
		fail("buildTar: %v", err)
	}
	recs, err := readGnuTar(stream)
	if err != nil {
		fail("readGnuTar: %v", err)
	}
	if d := compareFlat(want, recs, "gnutar", false, false); len(d) != 0 {
		fail("gnu-tar stream written by archive/tar for a tree does not compare equal to it: %v", d[0])
	}
	if d := compareFlat(tree, recs, "gnutar", false, false); len(d) != 0 { // ns are not carried: floor
		fail("gnu-tar comparison is not at one-second granularity: %v", d[0])
	}
	recs[1].mode = 0o755
	recs[2].typ = fstree.Blk
	if d := compareFlat(tree, recs, "gnutar", false, false); len(d) != 2 || d[0].Field != "mode-setid" || d[0].Type != "file" || d[1].Field != "type" || d[1].Type != "chr" {
		fail("gnu-tar comparison misses or misnames corruptions: %v", d)
	}
	f := tree.Kids[0]
	good := "#mtree v1.0\n" +
		". type=dir mode=1755 uid=1 gid=2 time=10.000000005\n" +
		"a\\040b type=file mode=4755 uid=2147483648 gid=7 size=10 time=1000.999999999 sha512256digest=" + digestHex(f.Data, false) + "\n" +
		"c type=char mode=0620 uid=0 gid=0 time=-5.000000001\n" +
		"l\\043\\377 type=link mode=0777 link=x\\040y uid=0 gid=0 time=7.000000000\n"
	mrecs, err := parseMtree([]byte(good))
	if err != nil {
		fail("parseMtree: %v", err)
	}
	if d := compareFlat(tree, mrecs, "mtree", false, false); len(d) != 0 {
		fail("a correct mtree listing does not compare equal to its tree: %v", d[0])
	}
	bad := strings.NewReplacer("a\\040b", "a b", "mode=1755", "mode=0755", "time=10.000000005", "time=10.        5", "type=char", "type=block", "x\\040y", "x y").Replace(good)
	mrecs, _ = parseMtree([]byte(bad))
	var got []string
	for _, d := range compareFlat(tree, mrecs, "mtree", false, false) {
		got = append(got, d.Type+":"+d.Field)
	}
	sort.Strings(got)
	if strings.Join(got, " ") != "chr:type file:path-space root:mode-setid root:mtime-format symlink:target-space" {
		fail("mtree comparison misses or misnames corruptions: %v", got)
	}
}

// TestEnum: every set-id/sticky combination on every kind of node that has a mode, through
// every output writer, under both digests.
func TestEnum(t *testing.T) {
	n := 0
	for _, out := range []string{"localfs", "gnutar", "mtree"} {
		if hx.Shard() != 0 {
			break
		}
		for _, dg := range []string{"sha512-256", "sha256"} {
			for bits := uint32(0); bits < 8; bits++ {
				perm := bits<<9 | 0o750
				c := Case{Digest: dg, Input: "disk", Via: "catar", Output: out, Root: fstree.Spec{Perm: perm, Sec: 1_600_000_000, Nsec: 1, Kids: []fstree.Spec{
					{Name: []byte("d"), Kind: fstree.Dir, Perm: perm, Sec: 1_600_000_001, UID: 1000, GID: 1000},
					{Name: []byte("f"), Kind: fstree.File, Perm: perm, Sec: 1_600_000_002, Size: 3, UID: 1000, GID: 1000},
					{Name: []byte("c"), Kind: fstree.Chr, Perm: perm, Sec: 1_600_000_003, Major: 1, Minor: 3},
					{Name: []byte("b"), Kind: fstree.Blk, Perm: perm, Sec: 1_600_000_004, Major: 8, Minor: 1},
				}}}
				if !hx.Case(t, spec, c) {
					return
				}
				n++
			}
		}
	}
	// a non-empty directory with an epoch mtime followed by a sibling, at the root and one and two levels
	// down, with every kind of node inside it and after it, through every pipeline that unpacks to disk
	m, idx := 0, 0
	node := func(name, kind string, sec int64, kids ...fstree.Spec) fstree.Spec {
		return fstree.Spec{Name: []byte(name), Kind: kind, Perm: 0o755, Sec: sec, Nsec: 5, Size: 2, Target: []byte("t"), Major: 1, Minor: 3, Kids: kids}
	}
	kinds := []string{fstree.File, fstree.Dir, fstree.Symlink, fstree.Chr, fstree.Blk}
	type pl struct {
		input, via  string
		addRoot, nw bool
	}
	for _, p := range []pl{{"disk", "catar", false, false}, {"disk", "catar", false, true}, {"disk", "index", false, false}, {"tar", "catar", false, false}, {"tar", "catar", true, false}, {"tar", "index", true, true}} {
		for depth := 0; depth <= 2; depth++ {
			for _, inner := range kinds {
				for _, after := range kinds {
					for _, deeper := range []bool{false, true} {
						in := []fstree.Spec{node("i", inner, 1_000_000_000)}
						if deeper {
							in = []fstree.Spec{node("s", fstree.Dir, 1_000_000_001, in...)}
						}
						d := node("D", fstree.Dir, 0, in...)
						d.Epoch = true
						grp := []fstree.Spec{node("A", fstree.File, 1_000_000_002), d, node("z", after, 1_000_000_003)}
						for l := depth; l > 0; l-- {
							grp = []fstree.Spec{node("P", fstree.Dir, 1_000_000_010+int64(l), grp...), node("y", fstree.File, 1_000_000_020+int64(l))}
						}
						c := Case{Digest: "sha512-256", Input: p.input, TarFormat: "pax", AddRoot: p.addRoot, Via: p.via, Output: "localfs", DestFresh: p.nw,
							Sizes: gen.Sizes{Min: 48, Avg: 64, Max: 256}, Store: "mem", N: 2,
							Root: fstree.Spec{Perm: 0o755, Sec: 1_100_000_000, Kids: grp}}
						if idx++; idx%hx.Shards() != hx.Shard() { // the enumeration is split over the shards
							continue
						}
						if !hx.Case(t, spec, c) {
							return
						}
						m++
					}
				}
			}
		}
	}
	// the binary: both digests x {tar, tar -i} x every input x every output, on one small tree with two chunks
	if os.Getenv("VERIF_DESYNC_BIN") != "" {
		k := 0
		small := fstree.Spec{Perm: 0o755, Sec: 1_300_000_000, Kids: []fstree.Spec{
			node("d", fstree.Dir, 1_300_000_001, node("f", fstree.File, 1_300_000_002)),
			{Name: []byte("big"), Kind: fstree.File, Perm: 0o4750, UID: 1000, GID: 100, Sec: 1_300_000_003, Size: 3000, Seed: 7},
			node("l", fstree.Symlink, 1_300_000_004), node("c", fstree.Chr, 1_300_000_005)}}
		for _, dg := range []string{"sha512-256", "sha256"} {
			for _, via := range []string{"catar", "index"} {
				for _, in := range []pl{{"disk", "", false, false}, {"tar", "", false, false}, {"tar", "", true, true}} {
					for _, out := range []string{"localfs", "gnutar", "mtree"} {
						if in.input == "tar" && out != "localfs" {
							continue // a tar input is followed to the unpacked tree only
						}
						if idx++; idx%hx.Shards() != hx.Shard() {
							continue
						}
						c := Case{Digest: dg, Input: in.input, TarFormat: "pax", AddRoot: in.addRoot, Via: via, Output: out, CLI: true, DestFresh: in.nw,
							Sizes: gen.Sizes{Min: 1 << 10, Avg: 2 << 10, Max: 4 << 10}, Store: "local", N: 2, Root: small}
						if !hx.Case(t, spec, c) {
							return
						}
						k++
					}
				}
			}
		}
		hx.AddNote("enumerated_cli_cases", k)
		hx.Exhaustive("desync binary: {sha512-256, sha256} x {tar, tar -i} x {disk->localfs/gnu-tar/mtree, tar stream->localfs, tar stream with --tar-add-root->localfs} (split over the shards)")
	}
	hx.AddNote("enumerated_epoch_shape_cases", m)
	hx.Exhaustive("non-empty epoch-mtime directory followed by a sibling: depth 0..2 x 5 kinds inside x 5 kinds after x {direct, nested} x 6 disk-output pipelines (split over the shards)")
	if hx.Shard() != 0 {
		return
	}
	hx.AddNote("enumerated_setid_cases", n)
	hx.Exhaustive("all 8 setuid/setgid/sticky combinations on root, directory, file, char and block device x {localfs, gnutar, mtree} x {sha512-256, sha256}")
}

func TestProp(t *testing.T) { hx.Prop(t, spec) }
