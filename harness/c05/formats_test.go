package c05

import (
	"archive/tar"
	"bytes"
	"crypto/sha256"
	"crypto/sha512"
	"encoding/hex"
	"fmt"
	"io"
	"regexp"
	"strconv"
	"strings"
	"time"

	"verifharness/internal/fstree"
)

// ------------------------------------------------------------------ tar stream written by the harness

// buildTar serialises the snapshot of the source tree with archive/tar in the order tar(1)
// uses (parents first, depth first, names sorted) and returns the stream together with the
// tree that stream describes: what a faithful consumer of the stream must reproduce.
//
//	pax: nanosecond mtimes, xattrs as SCHILY.xattr.* records (an empty value cannot be stored:
//	     in PAX it means "delete the record")
//	gnu: whole seconds (floor), no xattrs
//
// With addRoot the stream has no entry for the root directory (desync is then told to make one
// up); the root's own metadata is not part of the expectation in that case.
func buildTar(src *fstree.Node, format string, addRoot, dotPrefix bool) ([]byte, *fstree.Node, error) {
	var buf bytes.Buffer
	tw := tar.NewWriter(&buf)
	f := tar.FormatPAX
	if format == "gnu" {
		f = tar.FormatGNU
	}
	want := src.Clone()
	for _, e := range fstree.Flatten(want) {
		n := e.Node
		if format == "gnu" {
			if n.Sec == 0 && n.Nsec != 0 { // floor would turn a real time into the exact epoch, desync's "no time"
				n.Sec = 1
			}
			n.Nsec = 0
			n.Xattrs = nil
		} else {
			var xs []fstree.Xattr
			for _, x := range n.Xattrs {
				if len(x.Val) > 0 {
					xs = append(xs, x)
				}
			}
			n.Xattrs = xs
		}
		name := e.Path
		if dotPrefix && !e.Root {
			name = "./" + e.Path
		}
		h := &tar.Header{Name: name, Mode: int64(n.Perm), Uid: int(n.UID), Gid: int(n.GID), ModTime: time.Unix(n.Sec, n.Nsec), Format: f}
		switch n.Kind {
		case fstree.Dir:
			h.Typeflag = tar.TypeDir
			h.Name += "/"
			if e.Root {
				h.Name = "./"
			}
		case fstree.File:
			h.Typeflag = tar.TypeReg
			h.Size = int64(len(n.Data))
		case fstree.Symlink:
			h.Typeflag = tar.TypeSymlink
			h.Linkname = n.Target
		case fstree.Chr:
			h.Typeflag = tar.TypeChar
			h.Devmajor, h.Devminor = int64(n.Major), int64(n.Minor)
		case fstree.Blk:
			h.Typeflag = tar.TypeBlock
			h.Devmajor, h.Devminor = int64(n.Major), int64(n.Minor)
		default:
			return nil, nil, fmt.Errorf("kind %s is not generated for tar streams", n.Kind)
		}
		for _, x := range n.Xattrs {
			if h.PAXRecords == nil {
				h.PAXRecords = map[string]string{}
			}
			h.PAXRecords["SCHILY.xattr."+x.Key] = string(x.Val)
		}
		if e.Root && addRoot {
			continue
		}
		if err := tw.WriteHeader(h); err != nil {
			return nil, nil, fmt.Errorf("%q: %w", e.Path, err)
		}
		if n.Kind == fstree.File {
			if _, err := tw.Write(n.Data); err != nil {
				return nil, nil, err
			}
		}
	}
	if err := tw.Close(); err != nil {
		return nil, nil, err
	}
	return buf.Bytes(), want, nil
}

// ------------------------------------------------------------------ records of the flat output formats

// rec is one entry of a gnu-tar or mtree output, reduced to the fields that format carries.
type rec struct {
	path     string
	typ      string // fstree kind, or "?<raw>"
	mode     int64  // as written (mode & 07777 is what any consumer interprets)
	hasMode  bool
	uid, gid int64
	hasIDs   bool
	size     int64
	hasSize  bool
	data     []byte // gnutar: file body
	digest   string // mtree: hex digest of the body
	digestKW string
	sec      int64
	nsec     int64
	timeRaw  string // mtree: the text after time=
	timeOK   bool   // mtree: text is <int>.<9 digits>
	hasTime  bool
	target   string
	hasTgt   bool
	major    int64
	minor    int64
	hasDev   bool
	junk     []string // mtree: words that are not keyword=value
}

// readGnuTar re-reads the stream desync's TarWriter produced with archive/tar.
func readGnuTar(b []byte) ([]rec, error) {
	tr := tar.NewReader(bytes.NewReader(b))
	var out []rec
	for {
		h, err := tr.Next()
		if err == io.EOF {
			return out, nil
		}
		if err != nil {
			return out, err
		}
		name := h.Name // "d/" and "./d" name the same member as "d"
		for strings.HasSuffix(name, "/") && len(name) > 1 {
			name = name[:len(name)-1]
		}
		for strings.HasPrefix(name, "./") && len(name) > 2 {
			name = name[2:]
		}
		if name == "./" {
			name = "."
		}
		r := rec{path: name, mode: h.Mode, hasMode: true, uid: int64(h.Uid), gid: int64(h.Gid), hasIDs: true,
			sec: h.ModTime.Unix(), nsec: int64(h.ModTime.Nanosecond()), hasTime: true, timeOK: true}
		switch h.Typeflag {
		case tar.TypeDir:
			r.typ = fstree.Dir
		case tar.TypeReg:
			r.typ = fstree.File
			r.size, r.hasSize = h.Size, true
			if r.data, err = io.ReadAll(tr); err != nil {
				return out, err
			}
		case tar.TypeSymlink:
			r.typ = fstree.Symlink
			r.target, r.hasTgt = h.Linkname, true
		case tar.TypeChar:
			r.typ = fstree.Chr
			r.major, r.minor, r.hasDev = h.Devmajor, h.Devminor, true
		case tar.TypeBlock:
			r.typ = fstree.Blk
			r.major, r.minor, r.hasDev = h.Devmajor, h.Devminor, true
		default:
			r.typ = fmt.Sprintf("?typeflag-%q", h.Typeflag)
		}
		out = append(out, r)
	}
}

var mtreeTimeRE = regexp.MustCompile(`^-?[0-9]+\.[0-9]{9}$`)

// unescapeMtree undoes the \ooo encoding of mtree(5).
func unescapeMtree(s string) string {
	if !strings.Contains(s, `\`) {
		return s
	}
	var b []byte
	for i := 0; i < len(s); i++ {
		if s[i] == '\\' && i+3 <= len(s)-1 && isOct(s[i+1]) && isOct(s[i+2]) && isOct(s[i+3]) {
			b = append(b, (s[i+1]-'0')<<6|(s[i+2]-'0')<<3|(s[i+3]-'0'))
			i += 3
			continue
		}
		b = append(b, s[i])
	}
	return string(b)
}

func isOct(c byte) bool { return c >= '0' && c <= '7' }

// parseMtree reads the output of desync's MtreeFS line by line the way mtree(5) defines a
// line: blank-separated words, the first is the (encoded) path, the others keyword=value.
func parseMtree(b []byte) ([]rec, error) {
	lines := strings.Split(string(b), "\n")
	if len(lines) == 0 || !strings.HasPrefix(lines[0], "#mtree") {
		return nil, fmt.Errorf("no #mtree signature line")
	}
	var out []rec
	for _, ln := range lines[1:] {
		if ln == "" || strings.HasPrefix(ln, "#") {
			continue
		}
		words := strings.FieldsFunc(ln, func(r rune) bool { return r == ' ' || r == '\t' })
		if len(words) == 0 {
			continue
		}
		r := rec{path: unescapeMtree(words[0])}
		if r.path != "." {
			r.path = strings.TrimPrefix(r.path, "./")
		}
		for _, w := range words[1:] {
			i := strings.IndexByte(w, '=')
			if i <= 0 {
				r.junk = append(r.junk, w)
				continue
			}
			k, v := w[:i], w[i+1:]
			switch k {
			case "type":
				switch v {
				case "dir":
					r.typ = fstree.Dir
				case "file":
					r.typ = fstree.File
				case "link":
					r.typ = fstree.Symlink
				case "char":
					r.typ = fstree.Chr
				case "block":
					r.typ = fstree.Blk
				default:
					r.typ = "?" + v
				}
			case "mode":
				m, err := strconv.ParseInt(v, 8, 64)
				if err != nil {
					r.junk = append(r.junk, w)
					break
				}
				r.mode, r.hasMode = m, true
			case "uid":
				r.uid, _ = strconv.ParseInt(v, 10, 64)
				r.hasIDs = true
			case "gid":
				r.gid, _ = strconv.ParseInt(v, 10, 64)
			case "size":
				r.size, _ = strconv.ParseInt(v, 10, 64)
				r.hasSize = true
			case "time":
				r.hasTime, r.timeRaw = true, v
				if mtreeTimeRE.MatchString(v) {
					dot := strings.IndexByte(v, '.')
					r.sec, _ = strconv.ParseInt(v[:dot], 10, 64)
					r.nsec, _ = strconv.ParseInt(v[dot+1:], 10, 64)
					r.timeOK = true
				}
			case "link", "target": // mtree(5) calls it link=, desync writes target=
				r.target, r.hasTgt = unescapeMtree(v), true
			case "sha512256digest", "sha256digest", "sha256", "sha512256":
				r.digest, r.digestKW = v, k
			default:
				// unknown keywords are legal in mtree
			}
		}
		out = append(out, r)
	}
	return out, nil
}

func digestHex(b []byte, sha256d bool) string {
	if sha256d {
		s := sha256.Sum256(b)
		return hex.EncodeToString(s[:])
	}
	s := sha512.Sum512_256(b)
	return hex.EncodeToString(s[:])
}

// compareFlat compares the records of a flat output (one per archive node, in archive order)
// with the tree they must describe, field by field, restricted to what the format carries:
//
//	gnutar: path, type, mode (07777), uid, gid, size+content, mtime in whole seconds, link target, device numbers
//	mtree : path, type, mode (07777), uid, gid, size, content digest, mtime in ns, link target
func compareFlat(want *fstree.Node, recs []rec, format string, skipRootMeta, sha256d bool) []fstree.Difference {
	var out []fstree.Difference
	entries := fstree.Flatten(want)
	if len(entries) != len(recs) {
		out = append(out, fstree.Difference{Path: ".", Type: "any", Field: "entry-count",
			Msg: fmt.Sprintf("tree has %d nodes, output has %d records", len(entries), len(recs))})
	}
	for i := 0; i < len(entries) && i < len(recs); i++ {
		e, r := entries[i], recs[i]
		n := e.Node
		typ := fstree.TypeLabel(n, e.Root)
		explained := false // words that are not keyword=value are the consequence of a reported field
		add := func(field, format string, a ...any) {
			out = append(out, fstree.Difference{Path: e.Path, Type: typ, Field: field, Msg: fmt.Sprintf(format, a...)})
			if field == "path-space" || field == "target-space" || field == "mtime-format" {
				explained = true
			}
		}
		if r.path != e.Path {
			if format == "mtree" && strings.IndexByte(e.Path, ' ') >= 0 {
				// an unescaped blank splits the line: the words that follow cannot be trusted either
				add("path-space", "record %d: want %q got %q", i, e.Path, r.path)
				continue
			}
			add("path", "record %d: want %q got %q", i, e.Path, r.path)
		}
		if r.typ != n.Kind {
			add("type", "want %s got %s", n.Kind, r.typ)
			dev := func(k string) bool { return k == fstree.Chr || k == fstree.Blk }
			if !(dev(r.typ) && dev(n.Kind)) {
				continue
			}
		}
		meta := !(e.Root && skipRootMeta)
		if meta {
			switch {
			case !r.hasMode:
				add("mode-perm", "no mode")
			default:
				if uint32(r.mode)&0o777 != n.Perm&0o777 {
					add("mode-perm", "want %04o got %#o", n.Perm, r.mode)
				}
				if uint32(r.mode)&0o7000 != n.Perm&0o7000 {
					add("mode-setid", "want %04o got %#o (& 07777 = %04o)", n.Perm, r.mode, r.mode&0o7777)
				}
			}
			if !r.hasIDs {
				add("uid", "no uid")
			} else {
				if r.uid != int64(n.UID) {
					add("uid", "want %d got %d", n.UID, r.uid)
				}
				if r.gid != int64(n.GID) {
					add("gid", "want %d got %d", n.GID, r.gid)
				}
			}
			mf := fstree.MtimeField(n.Sec, n.Nsec)
			switch {
			case n.IsEpoch():
				// "no time": the node's own mtime is not compared
			case !r.hasTime:
				add(mf, "no time")
			case format == "mtree" && !r.timeOK:
				add("mtime-format", "time=%q (followed by %q) is not <seconds>.<9 digits>; want %d.%09d", r.timeRaw, r.junk, n.Sec, n.Nsec)
			case format == "mtree":
				if r.sec != n.Sec || r.nsec != n.Nsec {
					add(mf, "want %d.%09d got %s", n.Sec, n.Nsec, r.timeRaw)
				}
			default: // gnutar: whole seconds
				if r.sec == n.Sec+1 && n.Nsec >= 500_000_000 {
					add("mtime-rounded-up", "want %d (floor of %d.%09d) got %d", n.Sec, n.Sec, n.Nsec, r.sec)
				} else if r.sec != n.Sec {
					add(mf, "want %d (floor of %d.%09d) got %d", n.Sec, n.Sec, n.Nsec, r.sec)
				}
			}
		}
		switch n.Kind {
		case fstree.File:
			if !r.hasSize || r.size != int64(len(n.Data)) {
				add("content", "size: want %d got %d", len(n.Data), r.size)
			} else if format == "gnutar" {
				if !bytes.Equal(r.data, n.Data) {
					add("content", "%d bytes, body differs", len(n.Data))
				}
			} else {
				wantKW := map[bool]string{false: "sha512256digest", true: "sha256digest"}[sha256d]
				switch {
				case r.digest == "":
					add("content-digest", "no digest keyword")
				case r.digestKW != wantKW:
					add("content-digest", "digest keyword %s under the other algorithm", r.digestKW)
				case r.digest != digestHex(n.Data, sha256d):
					add("content", "%s=%s, the source file hashes to %s", r.digestKW, r.digest, digestHex(n.Data, sha256d))
				}
			}
		case fstree.Symlink:
			if !r.hasTgt {
				add("target", "no link target")
			} else if r.target != n.Target {
				f := "target"
				if format == "mtree" && strings.IndexByte(n.Target, ' ') >= 0 && strings.HasPrefix(n.Target, r.target) {
					f = "target-space"
				}
				add(f, "want %q got %q", n.Target, r.target)
			}
		case fstree.Chr, fstree.Blk:
			if format == "gnutar" {
				if !r.hasDev || r.major != int64(n.Major) || r.minor != int64(n.Minor) {
					add("device", "want %d:%d got %d:%d", n.Major, n.Minor, r.major, r.minor)
				}
			}
		}
		if len(r.junk) > 0 && !explained {
			add("syntax", "words that are not keyword=value: %q", r.junk)
		}
	}
	return out
}
