// C02 — chunking is deterministic: parallel = sequential = the rolling-hash rule.
package c02

import (
	"bytes"
	"context"
	"encoding/binary"
	"fmt"
	"io"
	"os"
	"os/exec"
	"path/filepath"
	"runtime"
	"sync"
	"testing"
	"time"

	"github.com/folbricht/desync"
	"pgregory.net/rapid"

	"verifharness/internal/dx"
	"verifharness/internal/gen"
	"verifharness/internal/hx"
	"verifharness/internal/ref"
	"verifharness/internal/sched"
)

type Case struct {
	Pieces    []gen.Piece `json:"pieces"`
	Sizes     gen.Sizes   `json:"sizes"`
	Ns        []int       `json:"ns"`                   // worker counts for IndexFromFile
	Frag      []int       `json:"frag"`                 // read fragment lengths, consumed round-robin (>=1 each)
	EOFWith   bool        `json:"eofwith"`              // final fragment is returned together with io.EOF
	Perturb   [][]int     `json:"perturb"`              // one perturbation vector per repetition
	Sched     []SchedSpec `json:"sched"`                // harness-owned schedules of the chunk workers
	CatarHead int         `json:"catar_head,omitempty"` // >0: the input starts with a catar ENTRY header (1: flags incl. SHA512-256, 2: flags without it, 3: all flag bits set)
	SHA256    bool        `json:"sha256"`
	StreamN   int         `json:"stream_n"` // ChunkStream workers
	CLI       bool        `json:"cli"`      // thorough: also run `desync make`
}

// SchedSpec is one controlled schedule: which parked worker advances at each step.
type SchedSpec struct {
	Choices []int  `json:"choices"`
	Tail    string `json:"tail"`
	Prio    []int  `json:"prio,omitempty"`
	Changes []int  `json:"changes,omitempty"`
}

// fragReader returns data in the generated fragment lengths.
type fragReader struct {
	data    []byte
	frag    []int
	i       int
	eofWith bool
}

func (r *fragReader) Read(p []byte) (int, error) {
	if len(r.data) == 0 {
		return 0, io.EOF
	}
	n := len(p)
	if len(r.frag) > 0 {
		f := r.frag[r.i%len(r.frag)]
		r.i++
		if f < 1 {
			f = 1
		}
		if f < n {
			n = f
		}
	}
	if n > len(r.data) {
		n = len(r.data)
	}
	if n == 0 {
		return 0, nil // len(p)==0
	}
	copy(p, r.data[:n])
	r.data = r.data[n:]
	if len(r.data) == 0 && r.eofWith {
		return n, io.EOF
	}
	return n, nil
}

func genCase(t *rapid.T) Case {
	var c Case
	wide := false
	nullAvg := false
	c.Sizes = gen.ChunkSizes(t, true)
	if !hx.Thorough() && c.Sizes.Max > 16384 {
		c.Sizes = gen.Sizes{Min: 64, Avg: 256, Max: 1024}
	}
	if rapid.IntRange(0, 7).Draw(t, "wideavg") == 0 {
		// averages far from the usual small ones, half of them values at which the discriminator
		// formula is sensitive to floating point precision; min stays small so that a few
		// hundred KB of data hold several hash-determined cuts
		lim := uint64(hx.Pick(60_000, 1<<20))
		avg := 48 + rapid.Uint64().Draw(t, "avgbits")%(lim-48)
		if rapid.Bool().Draw(t, "sensitive") {
			sens := sensitiveAvgs()
			avg = sens[rapid.Uint64().Draw(t, "sensidx")%uint64(len(sens))]
		}
		if nb := nullBoundaryAvgs(); len(nb) > 0 && rapid.IntRange(0, 3).Draw(t, "nullboundary") == 0 {
			// averages at which a window of 48 null bytes IS a boundary: runs of zeros are cut
			// right after min instead of running to max
			avg = nb[rapid.Uint64().Draw(t, "nbidx")%uint64(len(nb))]
			nullAvg = true
		}
		c.Sizes = gen.Sizes{Min: 48 + rapid.Uint64().Draw(t, "minbits")%16, Avg: avg, Max: avg*4 + uint64(rapid.IntRange(0, 100).Draw(t, "dmaxw"))}
		if c.Sizes.Min > avg {
			c.Sizes.Min = avg
		}
		wide = true
	}
	if hx.Thorough() && rapid.IntRange(0, 24).Draw(t, "defaultsizes") == 0 {
		c.Sizes = gen.Sizes{Min: 16 << 10, Avg: 64 << 10, Max: 256 << 10} // the CLI's default 16:64:256
	}
	mx := int(c.Sizes.Max)
	mn := int(c.Sizes.Min)
	nmax := rapid.SampledFrom([]int{1, 2, 3, 4, 5, 8, 16}).Draw(t, "nmax")
	// total length: around multiples of max, of span boundaries, and (k+1/2)*max*n
	mult := rapid.IntRange(1, hx.Pick(40, 120)).Draw(t, "mult")
	maxLen := mx * mult
	if lim := hx.Pick(300_000, 4_000_000); maxLen > lim && c.Sizes.Max < 256<<10 {
		maxLen = lim
	} else if maxLen > 12<<20 {
		maxLen = 12 << 20
	}
	shape := rapid.IntRange(0, 9).Draw(t, "shape")
	if wide {
		shape = 100
	}
	switch {
	case shape == 100:
		n := int(c.Sizes.Avg) * rapid.IntRange(3, 8).Draw(t, "wmult")
		if lim := hx.Pick(400_000, 6_000_000); n > lim {
			n = lim
		}
		c.Pieces = []gen.Piece{{Kind: "rand", Len: n, Seed: rapid.Uint64().Draw(t, "ws")}}
		if nullAvg { // zero runs between data: every zero run is cut into chunks of min+1 bytes
			z := int(c.Sizes.Max)*rapid.IntRange(1, 3).Draw(t, "nzk") + rapid.IntRange(0, 100).Draw(t, "nzd")
			if lim := 3000 * (int(c.Sizes.Min) + 1); z > lim {
				z = lim // every min+1 bytes of the run become a chunk: keep the chunk count in the thousands
			}
			c.Pieces = []gen.Piece{{Kind: "rand", Len: n / 4, Seed: rapid.Uint64().Draw(t, "ws1")}, {Kind: "zero", Len: z},
				{Kind: "rand", Len: n / 4, Seed: rapid.Uint64().Draw(t, "ws2")}, {Kind: "zero", Len: z / 2}}
		}
	case shape <= 3:
		c.Pieces = gen.Pieces(t, maxLen, mn, mn+1, mx, mx/2, 48)
	case shape == 5: // zero run crossing worker starts: prefix, k*max(+-1) zeros, suffix
		k := rapid.IntRange(1, 12).Draw(t, "zk")
		pre := gen.Around(t, "pre", mx*4, mx, mn, mx/2)
		zl := k*mx + rapid.IntRange(-2, 2).Draw(t, "zd")
		post := gen.Around(t, "post", mx*4, mx, mn, mx/2)
		c.Pieces = []gen.Piece{{Kind: "rand", Len: pre, Seed: rapid.Uint64().Draw(t, "s1")}, {Kind: "zero", Len: zl},
			{Kind: "rand", Len: post, Seed: rapid.Uint64().Draw(t, "s2")}}
	case shape == 6: // periodic data then constant tail: persistent misalignment of neighbours
		per := rapid.SampledFrom([]int{1, 7, 40, 48, 49, mn/2 + 1, mn + 3, mx/2 + 1}).Draw(t, "per")
		l1 := gen.Around(t, "l1", maxLen, mx, nmax*mx)
		l2 := gen.Around(t, "l2", maxLen/2+1, mx, mx/2)
		c.Pieces = []gen.Piece{{Kind: "period", Len: l1, Period: per, Seed: rapid.Uint64().Draw(t, "s1")},
			{Kind: "const", Len: l2, B: byte(rapid.IntRange(0, 255).Draw(t, "b"))}}
	case shape == 7 || shape == 4: // spans that align worker i with worker i+2 or i+3 but not with i+1
		q := rapid.IntRange(10, 170).Draw(t, "q")
		c.Sizes.Max = uint64(6 * q)
		c.Sizes.Min = uint64(rapid.IntRange(48, 6*q).Draw(t, "min7"))
		c.Sizes.Avg = c.Sizes.Min + uint64(rapid.IntRange(0, 6*q-int(c.Sizes.Min)).Draw(t, "avg7"))
		mx = 6 * q
		if nmax < 3 {
			nmax = rapid.IntRange(3, 9).Draw(t, "nmax7")
		}
		k := rapid.IntRange(0, 3).Draw(t, "k")
		span := k*mx + rapid.SampledFrom([]int{mx / 2, mx / 3, 2 * mx / 3}).Draw(t, "frac")
		kind := rapid.SampledFrom([]string{"zero", "const", "zero", "period", "rand"}).Draw(t, "kind")
		total := nmax*span + rapid.IntRange(0, nmax-1).Draw(t, "d")
		tail := rapid.IntRange(0, 2).Draw(t, "tailkind")
		c.Pieces = []gen.Piece{{Kind: kind, Len: total, Seed: rapid.Uint64().Draw(t, "s"), B: byte(rapid.IntRange(1, 255).Draw(t, "b7")), Period: rapid.SampledFrom([]int{1, 2, 3, 6}).Draw(t, "per7")}}
		if tail == 1 && total > 10 { // same length, but the last bytes differ (non-constant tail)
			c.Pieces[0].Len = total - 5
			c.Pieces = append(c.Pieces, gen.Piece{Kind: "rand", Len: 5, Seed: 99})
		}
	case shape == 8: // all zero / all const, lengths around k*max
		k := rapid.IntRange(0, 20).Draw(t, "k")
		kind := rapid.SampledFrom([]string{"zero", "const"}).Draw(t, "kind")
		c.Pieces = []gen.Piece{{Kind: kind, Len: max0(k*mx + rapid.IntRange(-2, 2).Draw(t, "d")), B: 0x55}}
	default: // small: < max, around min
		c.Pieces = []gen.Piece{{Kind: "rand", Len: gen.Around(t, "len", mx, mn, mn+1, 48, mx), Seed: rapid.Uint64().Draw(t, "s")}}
	}
	if mx > 100 && rapid.IntRange(0, 5).Draw(t, "hashwin") == 0 {
		// a window whose hash is one of the values no random input ever holds (all ones, zero, the sign bit ...),
		// placed where the chunker evaluates it: more than min and less than max bytes into the input
		h := rapid.SampledFrom([]uint32{0xFFFFFFFF, 0xFFFFFFFF, 0xFFFFFFFF, 0, 0, 1, 0x80000000, 0x7FFFFFFF, 0xFFFFFFFE}).Draw(t, "hwval")
		lo, hi := max0(mn+1-48), max0(mx-50)
		if hi < lo {
			hi = lo
		}
		pre := rapid.IntRange(lo, hi).Draw(t, "hwpre")
		c.Pieces = append([]gen.Piece{{Kind: "rand", Len: pre, Seed: rapid.Uint64().Draw(t, "hws1")},
			{Kind: "hashwin", Len: 48, H: h, Seed: rapid.Uint64().Draw(t, "hws2")}}, c.Pieces...)
	}
	c.Ns = []int{1, nmax}
	if rapid.Bool().Draw(t, "moreN") {
		c.Ns = append(c.Ns, rapid.IntRange(2, 16).Draw(t, "n2"))
	}
	nf := rapid.IntRange(0, 5).Draw(t, "nfrag")
	for i := 0; i < nf; i++ {
		c.Frag = append(c.Frag, rapid.SampledFrom([]int{1, 2, 3, 47, 48, 49, mn, mx - 1, mx, mx + 1, 10*mx - 1, 10 * mx, 10*mx + 1, 11 * mx, 1 << 20}).Draw(t, "frag"))
	}
	c.EOFWith = rapid.Bool().Draw(t, "eofwith")
	reps := hx.Pick(2, 4)
	for i := 0; i < reps; i++ {
		c.Perturb = append(c.Perturb, sched.Vector(t, fmt.Sprintf("pv%d", i)))
	}
	nsched := hx.Pick(2, 4)
	for i := 0; i < nsched; i++ {
		sp := SchedSpec{Tail: rapid.SampledFrom([]string{"prio", "prio", "prio", "high", "low", "rr"}).Draw(t, "tail")}
		nc := rapid.IntRange(0, 12).Draw(t, "nchoices")
		for j := 0; j < nc; j++ {
			sp.Choices = append(sp.Choices, rapid.IntRange(0, 15).Draw(t, "choice"))
		}
		if sp.Tail == "prio" {
			sp.Prio = rapid.Permutation([]int{0, 1, 2, 3, 4, 5, 6, 7, 8, 9, 10, 11, 12, 13, 14, 15}).Draw(t, "prio")
			nch := rapid.IntRange(0, 3).Draw(t, "nchanges")
			for j := 0; j < nch; j++ {
				sp.Changes = append(sp.Changes, rapid.IntRange(0, 200).Draw(t, "change"))
			}
		}
		c.Sched = append(c.Sched, sp)
	}
	c.SHA256 = rapid.IntRange(0, 4).Draw(t, "sha256") == 0
	if rapid.IntRange(0, 9).Draw(t, "catarhead?") == 0 {
		c.CatarHead = rapid.IntRange(1, 3).Draw(t, "catarhead")
	}
	c.StreamN = rapid.IntRange(1, 8).Draw(t, "streamn")
	c.CLI = hx.Thorough() && os.Getenv("VERIF_DESYNC_BIN") != "" && rapid.IntRange(0, 30).Draw(t, "cli") == 0
	return c
}

var sensOnce sync.Once
var sensList []uint64

func sensitiveAvgs() []uint64 {
	sensOnce.Do(func() { sensList = ref.SensitiveAvgs(48, uint64(hx.Pick(60_000, 1<<20))) })
	return sensList
}

var nbOnce sync.Once
var nbList []uint64

func nullBoundaryAvgs() []uint64 {
	nbOnce.Do(func() { nbList = ref.NullBoundaryAvgs(48, uint64(hx.Pick(60_000, 1<<20))) })
	return nbList
}

func max0(n int) int {
	if n < 0 {
		return 0
	}
	return n
}

func spansEqual(a, b []ref.Span) (int, bool) {
	for i := 0; i < len(a) && i < len(b); i++ {
		if a[i] != b[i] {
			return i, false
		}
	}
	if len(a) != len(b) {
		if len(a) < len(b) {
			return len(a), false
		}
		return len(b), false
	}
	return -1, true
}

func fmtSpans(s []ref.Span, at int) string {
	lo := at - 2
	if lo < 0 {
		lo = 0
	}
	hi := at + 3
	if hi > len(s) {
		hi = len(s)
	}
	return fmt.Sprintf("#%d..%d of %d: %v", lo, hi, len(s), s[lo:hi])
}

// catarHead is the 64-byte ENTRY element a catar archive starts with (a directory, mode 0755).
func catarHead(kind int) []byte {
	flags := uint64(desync.TarFeatureFlags)
	switch kind {
	case 2:
		flags &^= desync.CaFormatSHA512256
	case 3:
		flags = ^uint64(0)
	}
	b := make([]byte, 64)
	binary.LittleEndian.PutUint64(b[0:], 64)
	binary.LittleEndian.PutUint64(b[8:], desync.CaFormatEntry)
	binary.LittleEndian.PutUint64(b[16:], flags)
	binary.LittleEndian.PutUint64(b[24:], 0o40755)
	binary.LittleEndian.PutUint64(b[56:], 1_500_000_000_000_000_000)
	return b
}

func run(c Case) (o hx.Outcome) {
	blob := gen.Expand(c.Pieces)
	if c.CatarHead > 0 {
		blob = append(catarHead(c.CatarHead), blob...)
		o.Class("input-starts-with-catar-entry")
	}
	sz := c.Sizes
	want := ref.Chunk(blob, sz.Min, sz.Avg, sz.Max, false)
	degenerate := sz.Min == sz.Max

	oldDigest := desync.Digest
	if c.SHA256 {
		desync.Digest = desync.SHA256{}
	} else {
		desync.Digest = desync.SHA512256{}
	}
	defer func() { desync.Digest = oldDigest }()

	sigSfx := ""
	if degenerate {
		sigSfx = ":min=max"
	}

	// (a)+(b) single-stream chunker over a fragmenting reader
	ck, err := desync.NewChunker(&fragReader{data: blob, frag: c.Frag, eofWith: c.EOFWith}, sz.Min, sz.Avg, sz.Max)
	if err != nil {
		o.Fail("C02:chunker:rejects-valid-sizes", "NewChunker(%v): %v", sz, err)
		return o
	}
	var got []ref.Span
	var pos uint64
	for steps := 0; ; steps++ {
		start, b, err := ck.Next()
		if err != nil {
			o.Fail("C02:chunker:error", "Chunker.Next: %v", err)
			break
		}
		if len(b) == 0 {
			break
		}
		if start != pos {
			o.Fail("C02:chunker:gap-or-overlap"+sigSfx, "chunk %d starts at %d, previous ended at %d", len(got), start, pos)
		}
		if int(start)+len(b) > len(blob) || !bytes.Equal(b, blob[start:int(start)+len(b)]) {
			o.Fail("C02:chunker:bytes-differ"+sigSfx, "chunk %d [%d,+%d) does not carry the input's bytes", len(got), start, len(b))
			break
		}
		if uint64(len(b)) > sz.Max {
			o.Fail("C02:chunker:chunk-exceeds-max"+sigSfx, "chunk %d has %d bytes, max is %d", len(got), len(b), sz.Max)
		}
		got = append(got, ref.Span{Start: start, Len: uint64(len(b))})
		pos = start + uint64(len(b))
		if steps > len(blob)+10 {
			o.Fail("C02:chunker:no-progress", "chunker does not terminate")
			break
		}
	}
	if pos != uint64(len(blob)) && len(o.Violations) == 0 {
		o.Fail("C02:chunker:incomplete-tiling"+sigSfx, "chunks cover %d of %d bytes", pos, len(blob))
	}
	for i, s := range got {
		if i < len(got)-1 && s.Len < sz.Min {
			o.Fail("C02:chunker:chunk-below-min"+sigSfx, "chunk %d has %d bytes, min is %d", i, s.Len, sz.Min)
		}
	}
	if at, ok := spansEqual(got, want); !ok {
		o.Fail("C02:chunker:differs-from-rule"+sigSfx, "single-stream chunker differs from the reference rule at chunk %d: got %s want %s (sizes %v, frag %v)",
			at, fmtSpans(got, at), fmtSpans(want, at), sz, c.Frag)
	}

	// (c) parallel chunking of the file, every n, under several perturbation vectors
	dir := hx.Scratch("c02")
	defer os.RemoveAll(dir)
	path := dx.WriteFile(dir, "blob", blob)
	overlapped := false
	effN := 1
	checkParallel := func(n int, how string, idx desync.Index, stats desync.ChunkingStats, err error) {
		if err != nil {
			o.Fail("C02:parallel:error", "IndexFromFile(n=%d, %s): %v", n, how, err)
			return
		}
		if stats.ChunksProduced > stats.ChunksAccepted+1 {
			overlapped = true
		}
		var pg []ref.Span
		for _, ch := range idx.Chunks {
			pg = append(pg, ref.Span{Start: ch.Start, Len: ch.Size})
		}
		if at, ok := spansEqual(pg, want); !ok {
			o.Fail("C02:parallel:differs-from-rule"+sigSfx, "IndexFromFile(n=%d, %s) differs from the reference rule at chunk %d: got %s want %s (len %d sizes %v)",
				n, how, at, fmtSpans(pg, at), fmtSpans(want, at), len(blob), sz)
			return
		}
		for i, ch := range idx.Chunks {
			if [32]byte(ch.ID) != ref.ID(blob[ch.Start:ch.Start+ch.Size], c.SHA256) {
				o.Fail("C02:parallel:wrong-id", "IndexFromFile(n=%d) chunk %d has a wrong ID", n, i)
				break
			}
		}
		fi := idx.Index
		if fi.ChunkSizeMin != sz.Min || fi.ChunkSizeAvg != sz.Avg || fi.ChunkSizeMax != sz.Max {
			o.Fail("C02:parallel:wrong-params", "index records sizes %d/%d/%d, want %v", fi.ChunkSizeMin, fi.ChunkSizeAvg, fi.ChunkSizeMax, sz)
		}
		if (fi.FeatureFlags&desync.CaFormatSHA512256 != 0) == c.SHA256 {
			o.Fail("C02:parallel:wrong-digest-flag", "index feature flags %x do not match the configured digest (sha256=%v)", fi.FeatureFlags, c.SHA256)
		}
	}
	controlled, degraded := 0, 0
	for _, n := range c.Ns {
		if n < 1 {
			n = 1
		}
		nn := len(blob)/int(sz.Max) + 1
		if nn > n {
			nn = n
		}
		if nn > effN {
			effN = nn
		}
		for rep, pv := range c.Perturb {
			if n == 1 && rep > 0 {
				break
			}
			base := runtime.NumGoroutine()
			un := sched.Perturb(pv)
			idx, stats, err := desync.IndexFromFile(context.Background(), path, n, sz.Min, sz.Avg, sz.Max, desync.NullProgressBar{})
			sched.Quiesce(base)
			un()
			checkParallel(n, fmt.Sprintf("perturb=%v", pv), idx, stats, err)
		}
		if nn < 2 {
			continue
		}
		if len(want) > 4000 {
			// a harness-owned schedule costs one goroutine hand-over per hook hit (4 per chunk):
			// keep it to inputs where that stays within seconds, perturbation covers the rest
			o.Class("controlled-schedule-skipped:many-chunks")
			continue
		}
		for _, sp := range c.Sched {
			ctl := &sched.Controlled{N: nn, Prefix: "pchunk.", ExitSite: "pchunk.exit", Ignore: []string{"pchunk.collect"}, Choices: sp.Choices, Tail: sp.Tail, Prio: sp.Prio, Changes: sp.Changes}
			var idx desync.Index
			var stats desync.ChunkingStats
			var err error
			base := runtime.NumGoroutine()
			ctl.Run(func() {
				idx, stats, err = desync.IndexFromFile(context.Background(), path, n, sz.Min, sz.Avg, sz.Max, desync.NullProgressBar{})
			})
			controlled++
			if !sched.Quiesce(base) {
				ctl.Degraded = true
			}
			if ctl.Degraded {
				degraded++
			}
			checkParallel(n, fmt.Sprintf("schedule=%+v", sp), idx, stats, err)
		}
	}
	if controlled > 0 {
		o.Class("controlled-schedule")
	}
	if degraded > 0 {
		o.Class("controlled-schedule-degraded")
	}

	// (d) ChunkStream over the fragmenting reader
	{
		ck, _ := desync.NewChunker(&fragReader{data: blob, frag: c.Frag, eofWith: c.EOFWith}, sz.Min, sz.Avg, sz.Max)
		ms := dx.NewMemStore("target")
		sn := c.StreamN
		if sn < 1 {
			sn = 1
		}
		un := sched.Perturb(firstVec(c.Perturb))
		idx, err := desync.ChunkStream(context.Background(), ck, ms, sn)
		un()
		if err != nil {
			o.Fail("C02:chunkstream:error", "ChunkStream(n=%d): %v", sn, err)
		} else {
			var sg []ref.Span
			for _, ch := range idx.Chunks {
				sg = append(sg, ref.Span{Start: ch.Start, Len: ch.Size})
			}
			if at, ok := spansEqual(sg, want); !ok {
				o.Fail("C02:chunkstream:differs-from-rule"+sigSfx, "ChunkStream(n=%d) differs from the reference rule at chunk %d: got %s want %s", sn, at, fmtSpans(sg, at), fmtSpans(want, at))
			} else {
				for i, ch := range idx.Chunks {
					id := ref.ID(blob[ch.Start:ch.Start+ch.Size], c.SHA256)
					if [32]byte(ch.ID) != id {
						o.Fail("C02:chunkstream:wrong-id", "ChunkStream chunk %d has a wrong ID", i)
						break
					}
					if raw, ok := ms.Raw(ch.ID); !ok || !bytes.Equal(raw, blob[ch.Start:ch.Start+ch.Size]) {
						o.Fail("C02:chunkstream:chunk-not-stored", "ChunkStream chunk %d is not in the store with the right bytes", i)
						break
					}
				}
			}
		}
	}

	// (e) CLI: desync make (sizes in KiB only)
	if c.CLI && !c.SHA256 {
		cliMake(&o, blob, dir)
	}

	// classification
	zeroRun := 0
	for _, p := range c.Pieces {
		if p.Kind == "zero" && p.Len > zeroRun {
			zeroRun = p.Len
		}
	}
	kinds := map[string]bool{}
	for _, p := range c.Pieces {
		kinds[p.Kind] = true
	}
	if zeroRun >= 3*int(sz.Max) {
		o.Class("zero-run>=3max")
	}
	{ // windows with a prescribed hash: did the rule evaluate them (their end lies in the cut region of the chunk they are in)?
		pos := uint64(0)
		if c.CatarHead > 0 {
			pos = 64
		}
		for _, p := range c.Pieces {
			if p.Kind == "hashwin" {
				end := pos + 48
				for _, sp := range want {
					if end > sp.Start && end <= sp.Start+sp.Len {
						m := min(sz.Max, uint64(len(blob))-sp.Start)
						if l := end - sp.Start; l >= sz.Min+1 && l < m {
							o.Class("hashwin:evaluated", fmt.Sprintf("hashwin:evaluated:%#x", p.H))
							if l == sp.Len {
								o.Class("hashwin:is-a-cut")
							}
						}
						break
					}
				}
				pos += 48
				continue
			}
			if p.Len > 0 {
				pos += uint64(p.Len)
			}
		}
	}
	if kinds["const"] {
		o.Class("constant-data")
	}
	if kinds["period"] {
		o.Class("periodic-data")
	}
	if len(blob) == 0 {
		o.Class("size-0")
	} else if len(blob) < int(sz.Max) {
		o.Class("size<max")
	}
	if degenerate {
		o.Class("min=max")
	}
	if sz.Max > 8<<20 {
		o.Class("max>8MiB")
	}
	for _, a := range nullBoundaryAvgs() {
		if a == sz.Avg {
			o.Class("avg:null-window-is-boundary")
		}
	}
	if sz.Avg >= 11000 {
		o.Class("avg>=11000")
		if ref.Discriminator(sz.Avg) != uint32(float32(sz.Avg)/(float32(-1.42888852e-7)*float32(sz.Avg)+float32(1.33237515))) {
			o.Class("avg:precision-sensitive")
		}
	}
	if sz.Max == 256<<10 {
		o.Class("default-sizes-16:64:256")
	}
	if effN >= 2 {
		o.Class("effective-n>=2")
		span := len(blob) / effN
		if m := span % int(sz.Max); m == 0 {
			o.Class("span%max==0")
		} else if m == int(sz.Max)/2 {
			o.Class("span%max==max/2")
		}
	}
	if overlapped {
		o.Class("workers-overlapped")
	}
	if c.SHA256 {
		o.Class("sha256")
	}
	if len(c.Frag) > 0 {
		o.Class("fragmented-reads")
	}
	o.Nontrivial = effN >= 2 && overlapped
	o.Desc = map[string]any{"len": len(blob), "shape": gen.Shape(c.Pieces), "sizes": sz, "ns": c.Ns, "frag": c.Frag, "chunks": len(want), "effN": effN, "overlapped": overlapped}
	o.Key = fmt.Sprintf("%d/%v/%v/%v/%s", len(blob), sz, c.Ns, c.Frag, hx.Hash8(blob))
	return o
}

func firstVec(p [][]int) []int {
	if len(p) == 0 {
		return nil
	}
	return p[0]
}

func cliMake(o *hx.Outcome, blob []byte, dir string) {
	bin := os.Getenv("VERIF_DESYNC_BIN")
	sz := gen.Sizes{Min: 1024, Avg: 2048, Max: 4096}
	want := ref.Chunk(blob, sz.Min, sz.Avg, sz.Max, false)
	ipath := filepath.Join(dir, "out.caibx")
	ctx, cancel := context.WithTimeout(context.Background(), 120*time.Second)
	defer cancel()
	cmd := exec.CommandContext(ctx, bin, "make", "-n", "4", "-m", "1:2:4", ipath, filepath.Join(dir, "blob"))
	out, err := cmd.CombinedOutput()
	if ctx.Err() != nil {
		return // inconclusive, not a verdict
	}
	if err != nil {
		o.Fail("C02:cli:make-failed", "desync make failed: %v: %s", err, out)
		return
	}
	b, _ := os.ReadFile(ipath)
	f, err := ref.ParseIndex(b)
	if err != nil {
		o.Fail("C02:cli:index-unparsable", "index written by desync make does not parse: %v", err)
		return
	}
	var sg []ref.Span
	var last uint64
	for _, it := range f.Items {
		sg = append(sg, ref.Span{Start: last, Len: it.End - last})
		last = it.End
	}
	if at, ok := spansEqual(sg, want); !ok {
		o.Fail("C02:cli:differs-from-rule", "desync make differs from the reference rule at chunk %d: got %s want %s", at, fmtSpans(sg, at), fmtSpans(want, at))
	}
	o.Class("cli-make")
}

var spec = &hx.Spec[Case]{
	ID:    "C02",
	Level: "exploration",
	Rule: "cases = (blob from pieces: random/zero runs/constant/periodic/repeats at lengths around multiples of min, max and of size/n; (min,avg,max) incl. min=max; worker counts; read fragmentation vector; perturbation vectors for the pchunk.* hook sites); " +
		"oracle = independent reference chunker (direct 48-byte window buzhash); non-trivial = effective worker count >= 2 and ChunksProduced > ChunksAccepted+1 (workers really overlapped); distinct by (length, sizes, ns, fragmentation, content hash)",
	Assumptions: []string{"reference chunker reproduces casync's chunker.index (self test)", "schedules are sampled via hook-site perturbation, not enumerated", "buzhash table copied from casync at authoring time"},
	Required:    []string{"avg>=11000", "avg:precision-sensitive", "controlled-schedule", "zero-run>=3max", "constant-data", "periodic-data", "size<max", "size-0", "effective-n>=2", "workers-overlapped", "fragmented-reads", "span%max==0", "span%max==max/2", "max>8MiB", "input-starts-with-catar-entry", "avg:null-window-is-boundary", "hashwin:evaluated", "hashwin:evaluated:0xffffffff", "hashwin:evaluated:0x0"},
	Gen:         genCase,
	Run:         run,
	Journal:     true,
	Watchdog:    hx.Pick(120*time.Second, 1800*time.Second),
}

func TestMain(m *testing.M) { hx.Main(m) }

// TestSelf: the reference chunker must reproduce the casync-made index of testdata/chunker.input,
// and its slow and incremental forms must agree.
func TestSelf(t *testing.T) {
	in, err := os.ReadFile(filepath.Join(hx.Repo(), "testdata", "chunker.input"))
	if err != nil {
		fmt.Println("SELFTEST-FAILURE: cannot read chunker.input")
		t.Fatal(err)
	}
	ib, err := os.ReadFile(filepath.Join(hx.Repo(), "testdata", "chunker.index"))
	if err != nil {
		fmt.Println("SELFTEST-FAILURE: cannot read chunker.index")
		t.Fatal(err)
	}
	f, err := ref.ParseIndex(ib)
	if err != nil {
		fmt.Println("SELFTEST-FAILURE: reference parser rejects chunker.index")
		t.Fatal(err)
	}
	spans := ref.Chunk(in, f.Min, f.Avg, f.Max, false)
	if len(spans) != len(f.Items) {
		fmt.Println("SELFTEST-FAILURE: reference chunker disagrees with casync's chunker.index")
		t.Fatalf("chunk count %d vs %d", len(spans), len(f.Items))
	}
	for i, s := range spans {
		if s.Start+s.Len != f.Items[i].End || ref.ID(in[s.Start:s.Start+s.Len], false) != f.Items[i].ID {
			fmt.Println("SELFTEST-FAILURE: reference chunker disagrees with casync's chunker.index")
			t.Fatalf("chunk %d differs", i)
		}
	}
	small := in
	if len(small) > 300_000 {
		small = small[:300_000]
	}
	for _, sz := range []gen.Sizes{{Min: 48, Avg: 64, Max: 256}, {Min: 64, Avg: 64, Max: 64}, {Min: 100, Avg: 300, Max: 301}} {
		a := ref.Chunk(small, sz.Min, sz.Avg, sz.Max, true)
		b := ref.Chunk(small, sz.Min, sz.Avg, sz.Max, false)
		if _, ok := spansEqual(a, b); !ok {
			fmt.Println("SELFTEST-FAILURE: slow and incremental reference chunkers disagree")
			t.Fatal("disagree", sz)
		}
	}
}

func TestRegress(t *testing.T) { hx.Regress(t, spec) }
func TestKnown(t *testing.T)   { hx.Known(t, spec) }
func TestReplay(t *testing.T)  { hx.Replay(t, spec) }
func TestProp(t *testing.T)    { hx.Prop(t, spec) }

// TestBig runs a few fixed cases with chunk sizes far above the CLI's defaults (max 16 and 32 MiB,
// like `-m 1024:4096:16384`): inputs with stretches of many MiB without a hash boundary, where
// read-buffer and worker-span arithmetic differ from the small sizes the generated search uses.
func TestBig(t *testing.T) {
	if hx.Shard() != hx.Shards()-1 {
		t.Skip()
	}
	mib := 1 << 20
	cases := []Case{
		{Pieces: []gen.Piece{{Kind: "zero", Len: 20 * mib}, {Kind: "rand", Len: 3 * mib, Seed: 7}, {Kind: "zero", Len: 9*mib + 5}},
			Sizes: gen.Sizes{Min: 1 << 20, Avg: 4 << 20, Max: 16 << 20}, Ns: []int{1, 2}, Perturb: [][]int{{0}}, StreamN: 2},
	}
	if hx.Thorough() {
		cases = append(cases,
			Case{Pieces: []gen.Piece{{Kind: "const", Len: 34 * mib, B: 0x5a}, {Kind: "rand", Len: mib, Seed: 9}},
				Sizes: gen.Sizes{Min: 2 << 20, Avg: 8 << 20, Max: 32 << 20}, Ns: []int{1, 3}, Perturb: [][]int{{0}}, StreamN: 1, SHA256: true},
			Case{Pieces: []gen.Piece{{Kind: "rand", Len: 24 * mib, Seed: 11}},
				Sizes: gen.Sizes{Min: 9 << 20, Avg: 9 << 20, Max: 9<<20 + 1}, Ns: []int{1, 4}, Perturb: [][]int{{0}}, StreamN: 3})
	}
	for _, c := range cases {
		if !hx.Case(t, spec, c) {
			return
		}
	}
	hx.Note("big_size_cases", len(cases))
}
