// C01 — extract reproduces the indexed blob byte-for-byte.
package c01

import (
	"bytes"
	"context"
	"fmt"
	"os"
	"os/exec"
	"path/filepath"
	"runtime"
	"strings"
	"sync"
	"syscall"
	"testing"
	"time"

	"github.com/folbricht/desync"
	"pgregory.net/rapid"

	"verifharness/internal/cloneemu"
	"verifharness/internal/dx"
	"verifharness/internal/gen"
	"verifharness/internal/hx"
	"verifharness/internal/ref"
	"verifharness/internal/sched"
)

// Edit replaces [At, At+Del) by Ins pseudo-random bytes.
type Edit struct {
	At   int    `json:"at"`
	Del  int    `json:"del"`
	Ins  int    `json:"ins"`
	Seed uint64 `json:"seed"`
}

// MidRun overwrites one chunk of a seed's file when the feeder hands out its first job, i.e.
// after the plan was validated ("the seed may have changed during processing").
type MidRun struct {
	Seed  int  `json:"seed"`  // which seed (index into the seeds that have a file of their own)
	Chunk int  `json:"chunk"` // which chunk of that seed's index (modulo), zero chunks preferred when Zero
	Zero  bool `json:"zero"`
	Fill  byte `json:"fill"`
	Trunc int  `json:"trunc,omitempty"` // 0: overwrite the chunk; 1: cut the file at that chunk's start; 2: empty the file
}

type SeedSpec struct {
	Kind     string `json:"kind"` // identical edit inplace shuffle unrelated empty alias dup missingfile
	Edits    []Edit `json:"edits,omitempty"`
	Seed     uint64 `json:"seed,omitempty"`
	Len      int    `json:"len,omitempty"`
	Stale    string `json:"stale,omitempty"` // "" flip trunc extend replace  (data changed after indexing)
	StaleArg int    `json:"stale_arg,omitempty"`
	DupOf    int    `json:"dup_of,omitempty"`
}

type Case struct {
	Pieces      []gen.Piece `json:"pieces"`
	Sizes       gen.Sizes   `json:"sizes"`
	Tiling      []int       `json:"tiling,omitempty"`
	Seeds       []SeedSpec  `json:"seeds,omitempty"`
	Prior       string      `json:"prior"` // absent empty garbage longer shorter older exact
	PriorA      int         `json:"prior_a"`
	PriorEd     []Edit      `json:"prior_edits,omitempty"`
	Action      int         `json:"action"` // 0 bail-out 1 skip 2 regenerate
	N           int         `json:"n"`
	Clone       bool        `json:"clone"`
	Missing     []int       `json:"missing,omitempty"`  // chunk numbers removed from the store
	FailGet     []int       `json:"fail_get,omitempty"` // GetChunk call numbers that fail
	Incons      string      `json:"incons,omitempty"`   // "" size-shift id-other
	InconsA     int         `json:"incons_a,omitempty"`
	InconsD     int         `json:"incons_d,omitempty"`
	Perturb     []int       `json:"perturb,omitempty"`
	CloneRefuse []int       `json:"clone_refuse,omitempty"` // block cloning on: the n-th clone calls whose source is a seed file (or the target) are refused (EXDEV/EPERM/ETXTBSY by n); clones from the null-chunk block file are never refused (desync has no fallback there and the statement promises none)
	AliasLonger bool        `json:"alias_longer,omitempty"` // directed: the only seed is the target itself, whose old content is the blob behind an inserted prefix
	ZeroTail    bool        `json:"zero_tail,omitempty"`    // directed: identical seed truncated inside the blob's zero tail
	SeedDir     int         `json:"seed_dir,omitempty"`     // CLI: >0 = index, previous blob and seeds live in one directory given as --seed-dir, index and directory spelled differently (1 rel dir/abs index, 2 abs dir/rel index, 3 dotted, 4 same)
	MidRun      *MidRun     `json:"midrun,omitempty"`       // a seed file is modified after validation, while assembling
	CLI         bool        `json:"cli,omitempty"`          // also drive `desync extract` (needs $VERIF_DESYNC_BIN)
	Inplace     bool        `json:"inplace,omitempty"`      // CLI: -k
}

func applyEdits(b []byte, eds []Edit) []byte {
	out := append([]byte(nil), b...)
	for _, e := range eds {
		at := 0
		if len(out) > 0 {
			at = e.At % (len(out) + 1)
		}
		del := e.Del
		if at+del > len(out) {
			del = len(out) - at
		}
		ins := gen.RandBytes(e.Ins, e.Seed)
		n := append([]byte(nil), out[:at]...)
		n = append(n, ins...)
		n = append(n, out[at+del:]...)
		out = n
	}
	return out
}

func genEdits(t *rapid.T, label string, blobLen int, inplace bool, sz gen.Sizes) []Edit {
	n := rapid.IntRange(1, 4).Draw(t, label+"n")
	var eds []Edit
	for i := 0; i < n; i++ {
		e := Edit{At: rapid.IntRange(0, blobLen).Draw(t, label+"at"), Seed: rapid.Uint64().Draw(t, label+"seed")}
		l := gen.Around(t, label+"len", int(sz.Max)*3, 1, int(sz.Min), int(sz.Max), 4096)
		if inplace {
			e.Del, e.Ins = l, l
			if e.At+l > blobLen { // keep the length unchanged
				e.Del = max0(blobLen - e.At)
				e.Ins = e.Del
			}
		} else {
			e.Del = l
			e.Ins = gen.Around(t, label+"ins", int(sz.Max)*3, 0, 1, int(sz.Min), int(sz.Max))
		}
		eds = append(eds, e)
	}
	return eds
}

func allZero(b []byte) bool {
	for _, x := range b {
		if x != 0 {
			return false
		}
	}
	return len(b) > 0
}

func max0(n int) int {
	if n < 0 {
		return 0
	}
	return n
}

func genCase(t *rapid.T) Case {
	var c Case
	// chunk sizes on both sides of the 4096-byte block size
	switch rapid.IntRange(0, 5).Draw(t, "szclass") {
	case 0, 1:
		mn := uint64(rapid.IntRange(48, 300).Draw(t, "min"))
		avg := mn + uint64(rapid.IntRange(0, 300).Draw(t, "davg"))
		c.Sizes = gen.Sizes{Min: mn, Avg: avg, Max: avg + uint64(rapid.IntRange(1, 424).Draw(t, "dmax"))}
	case 2:
		c.Sizes = gen.Sizes{Min: 64, Avg: 256, Max: 1024}
	case 3:
		c.Sizes = gen.Sizes{Min: 2048, Avg: 4096, Max: 8192}
	case 4:
		c.Sizes = gen.Sizes{Min: 4100, Avg: 8192, Max: 16384}
	default:
		c.Sizes = gen.ChunkSizes(t, false)
		if c.Sizes.Max > 16384 && !hx.Thorough() {
			c.Sizes = gen.Sizes{Min: 4097, Avg: 5000, Max: 9000}
		}
	}
	mx := int(c.Sizes.Max)
	mult := rapid.IntRange(1, hx.Pick(24, 64)).Draw(t, "mult")
	maxLen := mx * mult
	if lim := hx.Pick(256<<10, 4<<20); maxLen > lim {
		maxLen = lim
	}
	switch rapid.IntRange(0, 9).Draw(t, "blobclass") {
	case 0: // empty or shorter than a chunk
		if rapid.Bool().Draw(t, "empty") {
			c.Pieces = nil
		} else {
			c.Pieces = []gen.Piece{{Kind: "rand", Len: gen.Around(t, "len", int(c.Sizes.Min), 1, 47, 48), Seed: rapid.Uint64().Draw(t, "s")}}
		}
	case 1: // isolated null chunks: data, exactly k*max zeros, data ... at aligned and unaligned offsets
		np := rapid.IntRange(1, 4).Draw(t, "nz")
		for i := 0; i < np; i++ {
			c.Pieces = append(c.Pieces, gen.Piece{Kind: "rand", Len: gen.Around(t, "pre", 3*mx, mx, 4096, int(c.Sizes.Min)), Seed: rapid.Uint64().Draw(t, "s")})
			c.Pieces = append(c.Pieces, gen.Piece{Kind: "zero", Len: mx*rapid.IntRange(1, 5).Draw(t, "zk") + rapid.IntRange(-1, 1).Draw(t, "zd")})
		}
		c.Pieces = append(c.Pieces, gen.Piece{Kind: "rand", Len: gen.Around(t, "post", 2*mx, mx, 100), Seed: rapid.Uint64().Draw(t, "s")})
	case 2: // all zero
		c.Pieces = []gen.Piece{{Kind: "zero", Len: gen.Around(t, "len", maxLen, mx, 4096)}}
	case 3: // a run of null chunks around and above the number of chunks one job takes (100 without cloning), with small chunks
		c.Sizes = rapid.SampledFrom([]gen.Sizes{{Min: 48, Avg: 64, Max: 96}, {Min: 64, Avg: 128, Max: 256}, {Min: 300, Avg: 512, Max: 1024}, {Min: 1000, Avg: 2000, Max: 4096}}).Draw(t, "lnsizes")
		mx = int(c.Sizes.Max)
		k := rapid.SampledFrom([]int{99, 100, 101, 101, 150, 199, 200, 201, 250, 301}).Draw(t, "lnk")
		c.Pieces = []gen.Piece{{Kind: "rand", Len: gen.Around(t, "lnpre", 3*mx, 0, mx, int(c.Sizes.Min)), Seed: rapid.Uint64().Draw(t, "lns1")},
			{Kind: "zero", Len: k*mx + rapid.IntRange(-1, 1).Draw(t, "lnd")},
			{Kind: "rand", Len: gen.Around(t, "lnpost", 2*mx, 0, mx, 100), Seed: rapid.Uint64().Draw(t, "lns2")}}
	default:
		c.Pieces = gen.Pieces(t, maxLen, mx, int(c.Sizes.Min), 4096)
	}
	blobLen := 0
	for _, p := range c.Pieces {
		blobLen += p.Len
	}
	if rapid.IntRange(0, 9).Draw(t, "tiled") < 3 && blobLen > 0 {
		c.Tiling = gen.Tiling(t, blobLen, mx)
	}
	// seeds
	ns := rapid.SampledFrom([]int{0, 0, 1, 1, 1, 2, 2, 3}).Draw(t, "nseeds")
	alias := false
	for i := 0; i < ns; i++ {
		kinds := []string{"identical", "edit", "edit", "inplace", "inplace", "shuffle", "unrelated", "empty", "dup", "missingfile", "unopenable"}
		if !alias {
			kinds = append(kinds, "alias")
		}
		s := SeedSpec{Kind: rapid.SampledFrom(kinds).Draw(t, "seedkind"), Seed: rapid.Uint64().Draw(t, "sseed")}
		switch s.Kind {
		case "edit":
			s.Edits = genEdits(t, "ed", blobLen, false, c.Sizes)
		case "inplace", "alias":
			s.Edits = genEdits(t, "ed", blobLen, true, c.Sizes)
			if s.Kind == "alias" {
				alias = true
				if rapid.Bool().Draw(t, "aliaslen") { // the file being updated in place may be longer or shorter than its new version
					s.Edits = genEdits(t, "ed2", blobLen, false, c.Sizes)
				}
			}
		case "unrelated":
			s.Len = gen.Around(t, "ulen", maxLen, mx)
		case "dup":
			if i == 0 {
				s.Kind = "identical"
			} else {
				s.DupOf = rapid.IntRange(0, i-1).Draw(t, "dupof")
			}
		}
		if s.Kind == "unopenable" {
			s.Len = rapid.IntRange(0, 1).Draw(t, "how") // 0: symlink loop (ELOOP), 1: below a regular file (ENOTDIR)
		}
		if s.Kind != "empty" && s.Kind != "dup" && s.Kind != "missingfile" && s.Kind != "unopenable" && rapid.IntRange(0, 2).Draw(t, "stale?") == 0 {
			s.Stale = rapid.SampledFrom([]string{"flip", "flip", "trunc", "extend", "replace"}).Draw(t, "stale")
			s.StaleArg = rapid.IntRange(0, 1<<20).Draw(t, "stalearg")
		}
		c.Seeds = append(c.Seeds, s)
	}
	c.Prior = rapid.SampledFrom([]string{"absent", "absent", "empty", "garbage", "longer", "shorter", "older", "older", "exact"}).Draw(t, "prior")
	c.PriorA = rapid.IntRange(0, 1<<20).Draw(t, "priora")
	if c.Prior == "older" {
		c.PriorEd = genEdits(t, "ped", blobLen, true, c.Sizes)
	}
	c.Action = rapid.IntRange(0, 2).Draw(t, "action")
	c.N = rapid.SampledFrom([]int{1, 1, 2, 3, 4, 8}).Draw(t, "n")
	c.Clone = rapid.Bool().Draw(t, "clone")
	switch rapid.IntRange(0, 9).Draw(t, "storeclass") {
	case 0:
		for i, k := 0, rapid.IntRange(1, 3).Draw(t, "nmiss"); i < k; i++ {
			c.Missing = append(c.Missing, rapid.IntRange(0, 1<<16).Draw(t, "miss"))
		}
	case 1:
		c.FailGet = []int{rapid.IntRange(1, 20).Draw(t, "failget")}
	case 2:
		c.Incons = rapid.SampledFrom([]string{"size-shift", "size-shift", "id-other"}).Draw(t, "incons")
		c.InconsA = rapid.IntRange(0, 1<<16).Draw(t, "inconsa")
		c.InconsD = rapid.SampledFrom([]int{-3, -1, 1, 2, 7}).Draw(t, "inconsd")
	}
	if c.N > 1 {
		c.Perturb = sched.Vector(t, "pv")
	}
	if c.Tiling == nil && rapid.IntRange(0, 11).Draw(t, "zerotail") == 0 {
		// a seed that lost part of a zero tail: what is missing equals what a short read leaves in
		// a fresh buffer, so only a length-aware validation notices; the target holds other bytes there
		mx := int(c.Sizes.Max)
		l := rapid.IntRange(1, mx-1).Draw(t, "ztlen")
		c.Pieces = []gen.Piece{{Kind: "rand", Len: gen.Around(t, "ztpre", 3*mx, mx, int(c.Sizes.Min)), Seed: rapid.Uint64().Draw(t, "zts")}, {Kind: "zero", Len: l}}
		c.Seeds = []SeedSpec{{Kind: "identical", Stale: "trunc", StaleArg: rapid.IntRange(0, l-1).Draw(t, "ztcut")}}
		c.Prior = rapid.SampledFrom([]string{"garbage", "longer", "garbage"}).Draw(t, "ztprior")
		c.Action = rapid.SampledFrom([]int{1, 1, 2, 0}).Draw(t, "ztaction")
		c.Missing, c.FailGet, c.Incons = nil, nil, ""
		c.ZeroTail = true
	}
	if !c.ZeroTail && blobLen > 0 && rapid.IntRange(0, 15).Draw(t, "aliaslonger") == 0 {
		// in-place update of a file whose old version is LONGER than the new one and holds the new version's
		// chunks further back (data removed / moved to the front): the seed is the target itself, and what it
		// offers behind the new end is gone once the target has the indexed length
		k := gen.Around(t, "alk", 3*int(c.Sizes.Max), 1, int(c.Sizes.Min), int(c.Sizes.Max), 4096)
		// (random data, content-defined chunks: no chunk occurs twice, so the only place the seed offers a chunk at is
		// "k bytes further back" - with repetitive data it also offers it at places the assembly has already rewritten,
		// and an alias seed may then legitimately be found changed)
		c.Tiling = nil
		c.Pieces = []gen.Piece{{Kind: "rand", Len: max(blobLen, int(c.Sizes.Max)), Seed: rapid.Uint64().Draw(t, "aldata")}}
		c.Seeds = []SeedSpec{{Kind: "alias", Edits: []Edit{{At: 0, Del: 0, Ins: k, Seed: rapid.Uint64().Draw(t, "alseed")}}}}
		c.Action = rapid.SampledFrom([]int{1, 1, 1, 2, 0}).Draw(t, "alaction")
		c.N = rapid.SampledFrom([]int{1, 1, 1, 2, 4}).Draw(t, "aln")
		c.Missing, c.FailGet, c.Incons = nil, nil, ""
		c.AliasLonger = true
	}
	if c.Clone && len(c.Seeds) > 0 && rapid.IntRange(0, 3).Draw(t, "clonerefuse") == 0 {
		for i, k := 0, rapid.IntRange(1, 3).Draw(t, "nrefuse"); i < k; i++ {
			c.CloneRefuse = append(c.CloneRefuse, rapid.IntRange(1, 8).Draw(t, "refuseat"))
		}
	}
	if !c.ZeroTail && !c.AliasLonger && blobLen > 0 && rapid.IntRange(0, 15).Draw(t, "shiftedseed") == 0 {
		// an older version that holds the blob's data shifted by whole blocks (a header of k blocks removed/added), chunks
		// larger than a block, block cloning announced - and refused for some of the calls
		c.Sizes = rapid.SampledFrom([]gen.Sizes{{Min: 2048, Avg: 4096, Max: 8192}, {Min: 4100, Avg: 8192, Max: 16384}, {Min: 5000, Avg: 9000, Max: 20000}}).Draw(t, "shsizes")
		c.Tiling = nil
		c.Pieces = []gen.Piece{{Kind: "rand", Len: int(c.Sizes.Max) * rapid.IntRange(2, 8).Draw(t, "shmult"), Seed: rapid.Uint64().Draw(t, "shseed")}}
		c.Seeds = []SeedSpec{{Kind: "edit", Edits: []Edit{{At: 0, Del: 0, Ins: 4096 * rapid.IntRange(1, 3).Draw(t, "shblocks"), Seed: rapid.Uint64().Draw(t, "shins")}}}}
		c.Clone = true
		c.CloneRefuse = nil
		for i, k := 0, rapid.IntRange(0, 3).Draw(t, "shnrefuse"); i < k; i++ {
			c.CloneRefuse = append(c.CloneRefuse, rapid.IntRange(1, 4).Draw(t, "shrefuseat"))
		}
		c.Missing, c.FailGet, c.Incons = nil, nil, ""
	}
	if len(c.Seeds) > 0 && !c.AliasLonger && rapid.IntRange(0, 5).Draw(t, "midrun") == 0 {
		c.MidRun = &MidRun{Seed: rapid.IntRange(0, 3).Draw(t, "mrseed"), Chunk: rapid.IntRange(0, 1<<16).Draw(t, "mrchunk"),
			Zero: rapid.Bool().Draw(t, "mrzero"), Fill: byte(rapid.IntRange(1, 255).Draw(t, "mrfill")),
			Trunc: rapid.SampledFrom([]int{0, 0, 1, 2}).Draw(t, "mrtrunc")}
		if rapid.Bool().Draw(t, "mrblank") { // the regenerate repair path on a blank target
			c.Prior, c.Action = "absent", 2
		}
	}
	if os.Getenv("VERIF_DESYNC_BIN") != "" && c.MidRun == nil && rapid.IntRange(0, hx.Pick(40, 8)).Draw(t, "cli") == 0 {
		c.CLI = true
		c.Inplace = rapid.Bool().Draw(t, "inplace")
		if rapid.IntRange(0, 2).Draw(t, "seeddir?") == 0 {
			c.SeedDir = rapid.IntRange(1, 4).Draw(t, "seeddir")
		}
	}
	return c
}

type builtSeed struct {
	spec  SeedSpec
	path  string
	data  []byte // data the index was made for
	disk  []byte // data on disk (differs when stale)
	index desync.Index
}

func chunkFor(blob []byte, sz gen.Sizes) []ref.Span {
	return ref.Chunk(blob, sz.Min, sz.Avg, sz.Max, false)
}

func run(c Case) (o hx.Outcome) {
	sz := c.Sizes
	blob := gen.Expand(c.Pieces)
	var spans []ref.Span
	if c.Tiling != nil {
		total := 0
		for _, l := range c.Tiling {
			total += l
		}
		if total < len(blob) {
			blob = blob[:total]
		} else if total > len(blob) {
			blob = append(blob, make([]byte, total-len(blob))...)
		}
		spans = dx.SpansFromTiling(c.Tiling)
	} else {
		spans = chunkFor(blob, sz)
	}
	idx := dx.BuildIndex(blob, spans, sz, false)
	store := dx.NewMemStore("store")
	dx.FillStore(store, blob, idx)

	// inconsistent index variants (no file can satisfy them)
	incons := ""
	nullID := desync.ChunkID(ref.ID(make([]byte, sz.Max), false))
	if c.Incons != "" && len(idx.Chunks) >= 2 {
		i := c.InconsA % (len(idx.Chunks) - 1)
		switch c.Incons {
		case "size-shift":
			a, b := idx.Chunks[i], idx.Chunks[i+1]
			d := c.InconsD
			if a.ID != nullID && b.ID != nullID && int(a.Size)+d >= 1 && int(b.Size)-d >= 1 && d != 0 {
				idx.Chunks = append([]desync.IndexChunk(nil), idx.Chunks...)
				idx.Chunks[i].Size = uint64(int(a.Size) + d)
				idx.Chunks[i+1].Start = uint64(int(b.Start) + d)
				idx.Chunks[i+1].Size = uint64(int(b.Size) - d)
				incons = "size-shift"
			}
		case "id-other":
			j := (i + 1 + c.InconsD*c.InconsD) % len(idx.Chunks)
			if idx.Chunks[j].ID != idx.Chunks[i].ID && idx.Chunks[j].ID != nullID && idx.Chunks[i].ID != nullID {
				idx.Chunks = append([]desync.IndexChunk(nil), idx.Chunks...)
				idx.Chunks[i].ID = idx.Chunks[j].ID
				incons = "id-other"
			}
		}
	}
	for _, m := range c.Missing {
		if len(spans) > 0 {
			store.Delete(idx.Chunks[m%len(spans)].ID)
		}
	}
	for _, k := range c.FailGet {
		store.FailAt("get", k)
	}

	dir := hx.Scratch("c01")
	defer os.RemoveAll(dir)
	target := filepath.Join(dir, "target")

	// seeds
	var seeds []desync.Seed
	var built []builtSeed
	aliasSeed, missingSeed, emptySeed, staleSeed, inplaceSeed, unopenableSeed := false, false, false, false, false, false
	var aliasData []byte
	emu := cloneemu.New(c.Clone)
	if c.Clone && len(c.CloneRefuse) > 0 {
		var rmu sync.Mutex
		seedCalls := 0
		emu.Refuse = func(src string, _ int) error {
			b := filepath.Base(src)
			if !strings.HasPrefix(b, "seed") && b != "target" {
				return nil // the null-chunk block file
			}
			rmu.Lock()
			seedCalls++
			n := seedCalls
			rmu.Unlock()
			for _, k := range c.CloneRefuse {
				if k == n {
					return []error{syscall.EXDEV, syscall.EPERM, syscall.ETXTBSY}[n%3]
				}
			}
			return nil
		}
	}
	desync.VerifClone = emu
	defer func() { desync.VerifClone = nil }()
	for i, s := range c.Seeds {
		bs := builtSeed{spec: s, path: filepath.Join(dir, fmt.Sprintf("seed%d", i))}
		var sspans []ref.Span
		switch s.Kind {
		case "identical":
			bs.data = blob
		case "edit", "inplace", "alias":
			bs.data = applyEdits(blob, s.Edits)
		case "shuffle":
			// permute chunk ranges of the blob (keeps chunk boundaries of tiled blobs)
			order := make([]int, len(spans))
			for j := range order {
				order[j] = j
			}
			r := gen.RandBytes(len(spans)*2+2, s.Seed)
			for j := len(order) - 1; j > 0; j-- {
				k := (int(r[2*j])<<8 | int(r[2*j+1])) % (j + 1)
				order[j], order[k] = order[k], order[j]
			}
			var pos uint64
			for _, j := range order {
				sp := spans[j]
				bs.data = append(bs.data, blob[sp.Start:sp.Start+sp.Len]...)
				sspans = append(sspans, ref.Span{Start: pos, Len: sp.Len})
				pos += sp.Len
			}
		case "unrelated":
			bs.data = gen.RandBytes(s.Len, s.Seed)
		case "unopenable":
			bs.data = blob // the index matches the blob, so the seed gets planned
		case "empty", "missingfile":
			bs.data = nil
		case "dup":
			if s.DupOf < len(built) {
				d := built[s.DupOf]
				sd, err := desync.NewIndexSeed(target, d.path, d.index)
				if err == nil {
					seeds = append(seeds, sd)
					built = append(built, d)
				}
				continue
			}
			bs.data = blob
		}
		if sspans == nil || c.Tiling == nil {
			sspans = chunkFor(bs.data, sz)
		}
		bs.index = dx.BuildIndex(bs.data, sspans, sz, false)
		bs.disk = bs.data
		switch s.Stale {
		case "flip":
			if len(bs.data) > 0 {
				bs.disk = append([]byte(nil), bs.data...)
				bs.disk[s.StaleArg%len(bs.disk)] ^= 0x40
			}
		case "trunc":
			if len(bs.data) > 0 {
				bs.disk = bs.data[:len(bs.data)-1-(s.StaleArg%len(bs.data))]
			}
		case "extend":
			bs.disk = append(append([]byte(nil), bs.data...), gen.RandBytes(1+s.StaleArg%5000, s.Seed)...)
		case "replace":
			bs.disk = gen.RandBytes(len(bs.data), s.Seed^0x55)
		}
		if !bytes.Equal(bs.disk, bs.data) {
			staleSeed = true
		}
		switch s.Kind {
		case "alias":
			bs.path = target
			aliasSeed = true
			aliasData = bs.disk
		case "missingfile":
			missingSeed = true
		case "unopenable":
			// the seed's blob exists as a name but cannot be opened, and not with ENOENT
			unopenableSeed = true
			if s.Len%2 == 0 {
				os.Symlink(filepath.Base(bs.path), bs.path) // points at itself: ELOOP
			} else {
				os.WriteFile(bs.path+".file", []byte("x"), 0o644)
				bs.path = filepath.Join(bs.path+".file", "below") // ENOTDIR
			}
		case "empty":
			emptySeed = true
			os.WriteFile(bs.path, nil, 0o644)
		case "inplace":
			inplaceSeed = true
			os.WriteFile(bs.path, bs.disk, 0o644)
		default:
			os.WriteFile(bs.path, bs.disk, 0o644)
		}
		sd, err := desync.NewIndexSeed(target, bs.path, bs.index)
		if err != nil {
			o.Fail("C01:seed-constructor-error", "NewIndexSeed: %v", err)
			continue
		}
		seeds = append(seeds, sd)
		built = append(built, bs)
	}

	// prior content of the target
	var prior []byte
	priorKind := c.Prior
	switch c.Prior {
	case "absent":
	case "empty":
		prior = []byte{}
	case "garbage":
		prior = gen.RandBytes(c.PriorA%(2*len(blob)+100), uint64(c.PriorA))
	case "longer":
		prior = append(append([]byte(nil), blob...), gen.RandBytes(1+c.PriorA%9000, uint64(c.PriorA))...)
	case "shorter":
		if len(blob) > 0 {
			prior = blob[:c.PriorA%len(blob)]
		} else {
			prior = []byte{}
		}
	case "older":
		prior = applyEdits(blob, c.PriorEd)
	case "exact":
		prior = blob
	}
	if aliasSeed {
		prior = aliasData
		priorKind = "alias-seed-data"
	}
	if prior != nil {
		os.WriteFile(target, prior, 0o644)
	}

	n := c.N
	if n < 1 {
		n = 1
	}
	base := runtime.NumGoroutine()
	un := sched.Perturb(c.Perturb)
	midRunDone, midRunTrunc := false, false
	if c.MidRun != nil {
		var cands []builtSeed
		for _, b := range built {
			if b.spec.Kind != "alias" && b.spec.Kind != "missingfile" && b.spec.Kind != "unopenable" && b.spec.Kind != "empty" && len(b.index.Chunks) > 0 {
				cands = append(cands, b)
			}
		}
		if len(cands) > 0 {
			b := cands[c.MidRun.Seed%len(cands)]
			ci := c.MidRun.Chunk % len(b.index.Chunks)
			if c.MidRun.Zero { // prefer a chunk of the seed that is all zero (but not a null chunk)
				for d := 0; d < len(b.index.Chunks); d++ {
					j := (ci + d) % len(b.index.Chunks)
					ch := b.index.Chunks[j]
					if ch.ID != nullID && int(ch.Start+ch.Size) <= len(b.disk) && allZero(b.disk[ch.Start:ch.Start+ch.Size]) {
						ci = j
						break
					}
				}
			}
			ch := b.index.Chunks[ci]
			inner := desync.VerifHook
			var once sync.Once
			desync.VerifHook = func(site string) {
				if site == "assemble.feed" {
					once.Do(func() {
						if c.MidRun.Trunc > 0 {
							at := int64(ch.Start)
							if c.MidRun.Trunc == 2 {
								at = 0
							}
							if os.Truncate(b.path, at) == nil {
								midRunDone, midRunTrunc = true, true
							}
						} else if f, ferr := os.OpenFile(b.path, os.O_WRONLY, 0); ferr == nil {
							fill := bytes.Repeat([]byte{c.MidRun.Fill}, int(ch.Size))
							f.WriteAt(fill, int64(ch.Start))
							f.Close()
							midRunDone = true
						}
					})
				}
				if inner != nil {
					inner(site)
				}
			}
		}
	}
	stats, err := desync.AssembleFile(context.Background(), target, idx, store, seeds,
		desync.AssembleOptions{N: n, InvalidSeedAction: desync.InvalidSeedAction(c.Action % 3)})
	sched.QuiesceFor(base, 20*time.Millisecond) // workers abandoned on AssembleFile's error returns never finish
	hits := un()
	_ = hits

	cl := ""
	if c.Clone {
		cl = ":clone"
		if sz.Max < 4096 {
			cl = ":clone:max<block"
		}
	}
	if err == nil {
		out, rerr := os.ReadFile(target)
		if rerr != nil {
			o.Fail("C01:success-but-no-file", "AssembleFile returned nil but the target cannot be read: %v", rerr)
		} else {
			bad := ""
			if int64(len(out)) != idx.Length() {
				bad = fmt.Sprintf("output has %d bytes, index length is %d", len(out), idx.Length())
			} else {
				for i, ch := range idx.Chunks {
					if [32]byte(ch.ID) != ref.ID(out[ch.Start:ch.Start+ch.Size], false) {
						bad = fmt.Sprintf("range of chunk %d [%d,+%d) does not hash to its ID", i, ch.Start, ch.Size)
						break
					}
				}
			}
			if bad == "" && incons == "" && !bytes.Equal(out, blob) {
				bad = "output differs from the blob"
			}
			if bad != "" {
				sig := "C01:success-but-wrong-output" + cl
				if incons != "" {
					sig = "C01:inconsistent-index-accepted:" + incons
				}
				first := -1
				for i := 0; i < len(out) && i < len(blob); i++ {
					if out[i] != blob[i] {
						first = i
						break
					}
				}
				o.Fail(sig, "AssembleFile returned nil but %s (first differing byte %d; blob %d bytes, %d chunks, sizes %v, n=%d, clone=%v, prior=%s, action=%d, stats=%+v, clone log=%v)",
					bad, first, len(blob), len(spans), sz, n, c.Clone, priorKind, c.Action, *stats, emu.Log)
			}
		}
	}
	storeComplete := len(c.Missing) == 0 && len(c.FailGet) == 0
	seedsOK := !staleSeed && !missingSeed && !unopenableSeed
	if midRunDone {
		o.Class("seed-changed-mid-run")
		if midRunTrunc {
			o.Class("seed-truncated-mid-run")
		}
		// a seed that changes while it is being used is only promised to be survived under regenerate
		if c.Action%3 != 2 {
			seedsOK = false
			storeComplete = storeComplete && false
		}
	}
	live := storeComplete && incons == "" && !aliasSeed &&
		(seedsOK || c.Action%3 == 1 || (c.Action%3 == 2 && !missingSeed && !unopenableSeed))
	// the target itself as the only seed, its old content = inserted prefix + blob, one worker, skip or regenerate: what the
	// seed offers either lies behind the new end (invalid once the target has its length: skipped / regenerated) or is
	// copied front to back from further behind in the same file, which a single worker never overwrites before reading it
	aliasLive := c.AliasLonger && aliasSeed && len(c.Seeds) == 1 && n == 1 && storeComplete && incons == "" && !midRunDone && c.Action%3 != 0
	if aliasLive { // ... which holds only if every place at which the old version offers a chunk of the blob is exactly k bytes behind that chunk's place in the blob (no chunk twice, no match at another phase in self-similar data)
		k := uint64(0)
		if len(c.Seeds[0].Edits) == 1 {
			k = uint64(c.Seeds[0].Edits[0].Ins)
		}
		at := map[desync.ChunkID][]uint64{}
		for _, ch := range idx.Chunks {
			at[ch.ID] = append(at[ch.ID], ch.Start)
		}
		for id, starts := range at {
			if len(starts) != 1 {
				aliasLive = false
			}
			_ = id
		}
		for _, b := range built {
			for _, ch := range b.index.Chunks {
				if starts, ok := at[ch.ID]; ok && (len(starts) != 1 || ch.Start != starts[0]+k) {
					aliasLive = false
				}
			}
		}
		if k == 0 {
			aliasLive = false
		}
	}
	if aliasLive {
		o.Class("alias-seed:longer-old-version:liveness-demanded")
		live = true
	}
	if live && err != nil {
		o.Fail("C01:fails-with-complete-store"+cl, "store complete and seeds consistent (or skip/regenerate chosen) but AssembleFile failed: %v (blob %d bytes, %d chunks, sizes %v, n=%d, prior=%s, action=%d, seeds=%d stale=%v empty=%v, clone log=%v)",
			err, len(blob), len(spans), sz, n, priorKind, c.Action, len(seeds), staleSeed, emptySeed, emu.Log)
	}

	// classification
	o.Class("action:"+[]string{"bailout", "skip", "regenerate"}[c.Action%3], "prior:"+priorKind)
	if len(blob) == 0 {
		o.Class("empty-blob")
	}
	if emptySeed {
		o.Class("empty-seed")
	}
	{ // longest run of consecutive max-size null chunks in the index
		run, best := 0, 0
		for _, sp := range spans {
			if sp.Len == sz.Max && allZero(blob[sp.Start:sp.Start+sp.Len]) {
				run++
				if run > best {
					best = run
				}
			} else {
				run = 0
			}
		}
		if best > 100 {
			o.Class("null-run>100-chunks")
			if !c.Clone {
				o.Class("null-run>100-chunks:no-clone")
			}
		}
	}
	if emu.Refused > 0 {
		o.Class("clone-refused")
		if err == nil {
			o.Class("clone-refused:success")
		}
	}
	if aliasSeed {
		o.Class("alias-seed")
		if len(aliasData) > len(blob) {
			o.Class("alias-seed:old-version-longer")
		} else if len(aliasData) < len(blob) {
			o.Class("alias-seed:old-version-shorter")
		}
	}
	if staleSeed {
		o.Class("stale-seed")
		if c.ZeroTail {
			o.Class("stale-seed:truncated-inside-zero-tail")
		}
	}
	if unopenableSeed {
		o.Class("unopenable-seed")
	}
	if emptySeed && staleSeed && c.Action%3 == 2 {
		o.Class("regenerate+empty+stale")
	}
	if incons != "" {
		o.Class("inconsistent-index:" + incons)
	}
	if live {
		o.Class("liveness-demanded")
	}
	if err == nil {
		o.Class("success")
	} else {
		o.Class("failed")
	}
	isolatedNull := false
	for i, ch := range idx.Chunks {
		if ch.ID == nullID && ch.Size < 4096 &&
			(i == 0 || idx.Chunks[i-1].ID != nullID) && (i == len(idx.Chunks)-1 || idx.Chunks[i+1].ID != nullID) {
			isolatedNull = true
		}
	}
	if c.Clone {
		o.Class("clone-on")
		if sz.Max < 4096 {
			o.Class("clone-on:max<block")
		}
		if sz.Min > 4096 {
			o.Class("clone-on:min>block")
		}
		if inplaceSeed {
			o.Class("clone-on:inplace-seed")
		}
		if isolatedNull {
			o.Class("clone-on:isolated-small-null-chunk")
		}
		if emu.Cloned > 0 {
			o.Class("bytes-cloned")
		}
	}
	nt := false
	if stats != nil {
		if stats.ChunksFromSeeds > 0 {
			o.Class("chunks-from-seed")
			nt = true
		}
		if stats.ChunksInPlace > 0 {
			o.Class("chunks-in-place")
			nt = true
		}
		if stats.BytesCloned > 0 {
			nt = true
		}
	}
	o.Nontrivial = nt
	if c.CLI && !aliasSeed && len(c.FailGet) == 0 && os.Getenv("VERIF_DESYNC_BIN") != "" {
		cliExtract(&o, c, dir, blob, idx, built, prior, incons, live)
	}
	o.Desc = map[string]any{"blob": len(blob), "shape": gen.Shape(c.Pieces), "chunks": len(spans), "sizes": sz, "tiled": c.Tiling != nil,
		"seeds": seedKinds(c.Seeds), "prior": priorKind, "action": c.Action % 3, "n": n, "clone": c.Clone, "incons": incons,
		"missing": len(c.Missing), "err": err != nil}
	o.Key = fmt.Sprintf("%s/%v/%v/%s/%d/%d/%v/%s", hx.Hash8(blob), sz, seedKinds(c.Seeds), priorKind, c.Action%3, n, c.Clone, incons)
	return o
}

func seedKinds(ss []SeedSpec) []string {
	var out []string
	for _, s := range ss {
		k := s.Kind
		if s.Stale != "" {
			k += "+" + s.Stale
		}
		out = append(out, k)
	}
	return out
}

var spec = &hx.Spec[Case]{
	ID:    "C01",
	Level: "exploration",
	Rule: "cases = (blob from pieces incl. empty/all-zero/isolated null chunks/repeats; chunk sizes below and above the 4096-byte block; index by reference chunker or arbitrary tiling; 0..3 seeds: identical/edited/in-place edited/chunk-shuffled/unrelated/empty/alias of the target/duplicate/missing file, optionally stale; prior target content; invalid-seed action; workers 1..8 with hook perturbation; block cloning off or on via a strict FICLONERANGE emulation; store complete, incomplete, failing, or an inconsistent index); " +
		"oracle: nil error => file length == index length and every range hashes to its ID (== blob); complete store + consistent or skippable/regenerable seeds => nil error; never hang/panic. " +
		"non-trivial = at least one chunk came from a seed, was found in place, or bytes were cloned; distinct by (content hash, sizes, seed kinds, prior, action, n, clone, inconsistency)",
	Assumptions: []string{"block cloning is emulated in-process (rules of fs/remap_range.c), real reflink filesystems are not available", "worker interleavings perturbed at hook sites, not enumerated", "chunk IDs recomputed with crypto/sha512"},
	Required: []string{"clone-refused", "clone-refused:success", "null-run>100-chunks", "null-run>100-chunks:no-clone", "alias-seed:old-version-longer", "alias-seed:longer-old-version:liveness-demanded", "action:bailout", "action:skip", "action:regenerate", "prior:absent", "prior:empty", "prior:garbage", "prior:longer", "prior:shorter", "prior:older", "prior:exact",
		"empty-blob", "empty-seed", "alias-seed", "stale-seed", "unopenable-seed", "seed-changed-mid-run", "seed-truncated-mid-run", "stale-seed:truncated-inside-zero-tail", "clone-on:max<block", "clone-on:min>block", "clone-on:inplace-seed", "clone-on:isolated-small-null-chunk",
		"chunks-from-seed", "chunks-in-place", "bytes-cloned", "liveness-demanded", "inconsistent-index:size-shift"},
	// (with $VERIF_DESYNC_BIN: TestMain adds the CLI classes)
	Gen:      genCase,
	Run:      run,
	Journal:  true,
	Watchdog: 60 * time.Second,
}

func TestMain(m *testing.M) {
	if os.Getenv("VERIF_DESYNC_BIN") != "" {
		spec.Required = append(spec.Required, "cli-extract", "cli-extract:seed-dir", "cli-extract:seed-dir:index-inside:other-spelling:previous-blob-present")
	}
	hx.Main(m)
}
func TestRegress(t *testing.T) { hx.Regress(t, spec) }
func TestKnown(t *testing.T)   { hx.Known(t, spec) }
func TestReplay(t *testing.T)  { hx.Replay(t, spec) }
func TestProp(t *testing.T)    { hx.Prop(t, spec) }

// cliExtract drives the freshly built `desync extract` with the same index, seeds, prior
// content and store (as a local store directory).
func cliExtract(o *hx.Outcome, c Case, dir string, blob []byte, idx desync.Index, built []builtSeed, prior []byte, incons string, live bool) {
	bin := os.Getenv("VERIF_DESYNC_BIN")
	sdir := filepath.Join(dir, "clistore")
	os.Mkdir(sdir, 0o755)
	ls, err := desync.NewLocalStore(sdir, desync.StoreOptions{})
	if err != nil {
		return
	}
	missing := map[int]bool{}
	for _, m := range c.Missing {
		if len(idx.Chunks) > 0 {
			missing[m%len(idx.Chunks)] = true
		}
	}
	orig := dx.BuildIndex(blob, spansOf(c, blob), c.Sizes, false)
	for i, ch := range orig.Chunks {
		if missing[i] {
			continue
		}
		ls.StoreChunk(desync.NewChunk(append([]byte(nil), blob[ch.Start:ch.Start+ch.Size]...)))
	}
	for i, ch := range orig.Chunks { // a missing chunk must be missing even if an equal chunk was stored
		if missing[i] {
			ls.RemoveChunk(ch.ID)
		}
	}
	ipath := filepath.Join(dir, "target.caibx")
	out := filepath.Join(dir, "cli-out")
	sd := filepath.Join(dir, "sd")
	if c.SeedDir > 0 {
		// the layout of an in-place update: sd/img.caibx is the new index, sd/img the previous
		// version, further images and their indexes next to them
		os.Mkdir(sd, 0o755)
		ipath = filepath.Join(sd, "img.caibx")
		out = filepath.Join(sd, "img")
	}
	f, _ := os.Create(ipath)
	idx.WriteTo(f)
	f.Close()
	args := []string{"extract", "-s", sdir, "-n", fmt.Sprint(max1(c.N))}
	for i, b := range built {
		if b.spec.Kind == "alias" || b.spec.Kind == "dup" {
			continue
		}
		if c.SeedDir > 0 {
			data, rerr := os.ReadFile(b.path)
			if rerr != nil {
				continue // seed-dir skips indexes without a blob next to them
			}
			os.WriteFile(filepath.Join(sd, fmt.Sprintf("seed%d", i)), data, 0o644)
			sf, _ := os.Create(filepath.Join(sd, fmt.Sprintf("seed%d.caibx", i)))
			bi := b.index
			bi.WriteTo(sf)
			sf.Close()
			continue
		}
		sp := filepath.Join(dir, fmt.Sprintf("cliseed%d.caibx", i))
		sf, _ := os.Create(sp)
		bi := b.index
		bi.WriteTo(sf)
		sf.Close()
		args = append(args, "--seed", sp+":"+b.path)
	}
	iarg, oarg := ipath, out
	switch c.SeedDir {
	case 1:
		args = append(args, "--seed-dir", "sd")
	case 2:
		args = append(args, "--seed-dir", sd)
		iarg, oarg = "sd/img.caibx", "sd/img"
	case 3:
		args = append(args, "--seed-dir", "sd/../sd/")
		iarg = "./sd/img.caibx"
	case 4:
		args = append(args, "--seed-dir", sd)
	}
	switch c.Action % 3 {
	case 1:
		args = append(args, "--skip-invalid-seeds")
	case 2:
		args = append(args, "--regenerate-invalid-seeds")
	}
	if c.Inplace {
		args = append(args, "-k")
	}
	if prior != nil {
		os.WriteFile(out, prior, 0o644)
	}
	var before os.FileInfo
	before, _ = os.Lstat(out)
	args = append(args, iarg, oarg)
	ctx, cancel := context.WithTimeout(context.Background(), 120*time.Second)
	defer cancel()
	cmd := exec.CommandContext(ctx, bin, args...)
	cmd.Dir = dir
	cmd.Env = []string{"HOME=" + dir, "TMPDIR=" + dir, "PATH=/usr/bin:/bin"}
	cout, cerr := cmd.CombinedOutput()
	if ctx.Err() != nil {
		o.Class("cli-timeout")
		return
	}
	o.Class("cli-extract")
	if c.SeedDir > 0 {
		o.Class("cli-extract:seed-dir")
		if c.SeedDir < 4 && prior != nil {
			o.Class("cli-extract:seed-dir:index-inside:other-spelling:previous-blob-present")
		}
	}
	if cerr == nil {
		got, _ := os.ReadFile(out)
		bad := ""
		if int64(len(got)) != idx.Length() {
			bad = fmt.Sprintf("output has %d bytes, index length %d", len(got), idx.Length())
		} else {
			for i, ch := range idx.Chunks {
				if [32]byte(ch.ID) != ref.ID(got[ch.Start:ch.Start+ch.Size], false) {
					bad = fmt.Sprintf("range of chunk %d does not hash to its ID", i)
					break
				}
			}
		}
		if bad == "" && incons == "" && !bytes.Equal(got, blob) {
			bad = "output differs from the blob"
		}
		if bad != "" {
			o.Fail("C01:cli:exit0-but-wrong-output", "desync %v exited 0 but %s", args, bad)
		}
		o.Class("cli-exit-0")
		return
	}
	o.Class("cli-exit-nonzero")
	if live {
		o.Fail("C01:cli:fails-with-complete-store", "store complete and seeds consistent (or skip/regenerate) but desync %v failed: %s", args, tailStr(string(cout), 400))
	}
	if !c.Inplace {
		after, aerr := os.Lstat(out)
		switch {
		case before == nil && aerr == nil:
			o.Fail("C01:cli:failed-extract-created-dest", "extract without -k failed but created %s", out)
		case before != nil && aerr != nil:
			o.Fail("C01:cli:failed-extract-removed-dest", "extract without -k failed and removed the destination")
		case before != nil:
			now, _ := os.ReadFile(out)
			if !os.SameFile(before, after) || !bytes.Equal(now, prior) {
				o.Fail("C01:cli:failed-extract-touched-dest", "extract without -k failed but the destination changed")
			}
		}
		o.Class("cli-failed-without-k")
	}
}

func spansOf(c Case, blob []byte) []ref.Span {
	if c.Tiling != nil {
		return dx.SpansFromTiling(c.Tiling)
	}
	return chunkFor(blob, c.Sizes)
}

func max1(n int) int {
	if n < 1 {
		return 1
	}
	return n
}

func tailStr(s string, n int) string {
	if len(s) > n {
		return s[len(s)-n:]
	}
	return s
}
