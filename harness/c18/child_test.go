package c18

import (
	"bufio"
	"bytes"
	"context"
	"encoding/json"
	"errors"
	"fmt"
	"os"
	"os/exec"
	"path"
	"strings"
	"syscall"
	"time"

	"github.com/folbricht/desync"
	"golang.org/x/sys/unix"
)

// job is what the parent hands to a child (read before the chroot).
type job struct {
	Root        string `json:"root"`  // directory to chroot into
	Nonce       string `json:"nonce"` // content of /.c18-nonce inside the chroot (proof that the chroot took effect)
	Mode        string `json:"mode"`  // catar | index | tamper (oracle self-test)
	Workers     int    `json:"workers"`
	NoSameOwner bool   `json:"no_same_owner"`
	NoSamePerm  bool   `json:"no_same_perm"`
	Unpriv      bool   `json:"unpriv"` // after the chroot, drop to unprivUID:unprivGID (no supplementary groups) before unpacking
}

// The unprivileged identity of a child (owns the destination tree and the u* sentinels).
const (
	unprivUID = 4242
	unprivGID = 4242
)

// callRec is one FilesystemWriter call observed by the child.
type callRec struct {
	I       int      `json:"i"`
	Kind    string   `json:"kind"` // dir file sym dev
	Name    string   `json:"name"` // the path the archive decoder handed to the filesystem writer
	Err     string   `json:"err,omitempty"`
	Cross   string   `json:"cross,omitempty"` // first symlink on the way from dest to the entry ("." = dest itself), before the call
	Over    string   `json:"over,omitempty"`  // file/symlink/device entry: its own path was a symlink (to this target) before the call
	Changed []change `json:"changed,omitempty"`
}

type childResult struct {
	Ready    bool
	Done     bool
	Final    []change // changes after the last entry (work the unpacker defers to the end, e.g. directory mtimes)
	Calls    []callRec
	Err      string // error returned by UnTar / UnTarIndex ("" = nil)
	ExitCode int
	Stderr   string
}

// ---------------------------------------------------------------------------- child side

const (
	lineReady = "C18-READY"
	lineCall  = "C18-CALL "
	lineDone  = "C18-DONE "
)

// recFS passes every call through to the real LocalFS and records, per call, what changed
// outside the destination (so that the parent can attribute a difference to the entry that
// caused it). It changes nothing about what the unpacker does.
//
// *desync.LocalFS is embedded (not just held) so that methods UnTar looks for through
// unexported interfaces (finish: deferred directory mtimes) are promoted and still run.
type recFS struct {
	*desync.LocalFS
	prev snap
	n    int
}

func crossOf(kind, name string) string {
	if name == ".." || strings.HasPrefix(name, "../") || strings.HasPrefix(name, "/") {
		return ""
	}
	isLink := func(p string) bool {
		var st syscall.Stat_t
		return syscall.Lstat(p, &st) == nil && st.Mode&syscall.S_IFMT == syscall.S_IFLNK
	}
	if isLink(destAbs) {
		return "."
	}
	if name == "." || name == "" {
		return ""
	}
	comps := strings.Split(name, "/")
	last := len(comps) - 1
	if kind == "dir" {
		last = len(comps) // a directory entry applies chown/chmod/utimes to its own path: the final component counts
	}
	cur := destAbs
	for i := 0; i < last; i++ {
		cur += "/" + comps[i]
		if isLink(cur) {
			return strings.Join(comps[:i+1], "/")
		}
	}
	return ""
}

func (r *recFS) do(kind, name string, f func() error) error {
	rec := callRec{I: r.n, Kind: kind, Name: name, Cross: crossOf(kind, name)}
	if kind != "dir" && rec.Cross == "" && name != "." && name != ".." && !strings.HasPrefix(name, "../") {
		rec.Over, _ = os.Readlink(destAbs + "/" + name) // readlink never follows the final component
	}
	r.n++
	err := f()
	if err != nil {
		rec.Err = err.Error()
		if rec.Err == "" {
			rec.Err = "error"
		}
	}
	now := takeSnap("/")
	rec.Changed = diffSnaps(r.prev, now)
	r.prev = now
	emit(lineCall, rec)
	return err
}

func (r *recFS) CreateDir(n desync.NodeDirectory) error {
	return r.do("dir", n.Name, func() error { return r.LocalFS.CreateDir(n) })
}
func (r *recFS) CreateFile(n desync.NodeFile) error {
	return r.do("file", n.Name, func() error { return r.LocalFS.CreateFile(n) })
}
func (r *recFS) CreateSymlink(n desync.NodeSymlink) error {
	return r.do("sym", n.Name, func() error { return r.LocalFS.CreateSymlink(n) })
}
func (r *recFS) CreateDevice(n desync.NodeDevice) error {
	return r.do("dev", n.Name, func() error { return r.LocalFS.CreateDevice(n) })
}

func emit(prefix string, v any) {
	b, _ := json.Marshal(v)
	os.Stdout.Write(append(append([]byte(prefix), b...), '\n'))
}

func childFatal(code int, format string, a ...any) {
	fmt.Fprintf(os.Stderr, "c18 child: "+format+"\n", a...)
	os.Exit(code)
}

// childMain never returns. Nothing that interprets archive content runs before the chroot has
// been entered and verified.
func childMain() {
	b, err := os.ReadFile(os.Getenv("VERIF_JOB"))
	if err != nil {
		childFatal(3, "job file: %v", err)
	}
	var j job
	if err := json.Unmarshal(b, &j); err != nil {
		childFatal(3, "job file: %v", err)
	}
	if j.Root == "" || j.Root == "/" || !strings.Contains(j.Root, "/scratch/") {
		childFatal(3, "refusing chroot directory %q", j.Root)
	}
	if err := syscall.Chroot(j.Root); err != nil {
		childFatal(3, "chroot %s: %v", j.Root, err)
	}
	if err := os.Chdir("/"); err != nil {
		childFatal(3, "chdir /: %v", err)
	}
	nb, err := os.ReadFile("/.c18-nonce")
	if err != nil || string(nb) != j.Nonce || j.Nonce == "" {
		childFatal(3, "chroot not in effect (nonce %q, want %q, err %v)", nb, j.Nonce, err)
	}
	if fi, err := os.Lstat(path.Dir(destAbs)); err != nil || !fi.IsDir() {
		childFatal(3, "parent of the destination missing inside the chroot: %v", err)
	}
	if j.Unpriv {
		// irreversible for this process; applies to every thread
		if err := syscall.Setgroups([]int{}); err != nil {
			childFatal(3, "setgroups: %v", err)
		}
		if err := syscall.Setgid(unprivGID); err != nil {
			childFatal(3, "setgid: %v", err)
		}
		if err := syscall.Setuid(unprivUID); err != nil {
			childFatal(3, "setuid: %v", err)
		}
		if os.Geteuid() != unprivUID || os.Getuid() != unprivUID || syscall.Setuid(0) == nil {
			childFatal(3, "privileges were not dropped (uid %d euid %d)", os.Getuid(), os.Geteuid())
		}
	}
	lightSnap = true
	os.Stdout.WriteString(lineReady + "\n")

	var runErr error
	var fsrec *recFS
	switch j.Mode {
	case "tamper":
		runErr = tamper()
	case "catar", "index":
		fs := &recFS{
			LocalFS: desync.NewLocalFS(destAbs, desync.LocalFSOptions{NoSameOwner: j.NoSameOwner, NoSamePermissions: j.NoSamePerm}),
			prev:    takeSnap("/"),
		}
		fsrec = fs
		ctx := context.Background()
		if j.Mode == "catar" {
			f, err := os.Open("/job/a.catar")
			if err != nil {
				childFatal(3, "%v", err)
			}
			runErr = desync.UnTar(ctx, bufio.NewReader(f), fs)
			f.Close()
		} else {
			f, err := os.Open("/job/a.caidx")
			if err != nil {
				childFatal(3, "%v", err)
			}
			idx, err := desync.IndexFromReader(f)
			f.Close()
			if err != nil {
				childFatal(3, "index made by the parent is unreadable: %v", err)
			}
			st, err := desync.NewLocalStore("/store", desync.StoreOptions{Uncompressed: true})
			if err != nil {
				childFatal(3, "store: %v", err)
			}
			w := j.Workers
			if w < 1 {
				w = 1
			}
			runErr = desync.UnTarIndex(ctx, fs, idx, st, w, desync.NullProgressBar{})
		}
	default:
		childFatal(3, "unknown mode %q", j.Mode)
	}
	res := map[string]any{"ok": runErr == nil}
	if runErr != nil {
		res["err"] = runErr.Error()
	}
	if fsrec != nil {
		if final := diffSnaps(fsrec.prev, takeSnap("/")); len(final) > 0 {
			res["final"] = final
		}
	}
	emit(lineDone, res)
	os.Exit(0)
}

// tamper is the oracle self-test: known modifications outside the destination, made from
// inside the chroot, each of which the parent must report with the right effect.
func tamper() error {
	return errors.Join(
		os.WriteFile("/sb/l1/outside/planted", []byte("x"), 0o644),                                          // created
		os.Remove("/sb/l1/l2/victim"),                                                                       // deleted
		os.WriteFile("/sb/l1/l2/l3/victim", []byte("overwritten"), 0o644),                                   // content (in place)
		os.Chmod("/sb/l1/victim", 0o600),                                                                    // metadata: mode
		os.Chown("/sb/victim", 77, 78),                                                                      // metadata: owner
		os.Chtimes("/sb/l1/l2/outside", time.Unix(5, 0), time.Unix(5, 0)),                                   // metadata: directory mtime
		func() error { os.Remove("/sb/l1/l2/l3/vlink"); return os.Symlink("/abs", "/sb/l1/l2/l3/vlink") }(), // link target
		func() error { os.Remove("/sb/l1/vlink"); return os.Mkdir("/sb/l1/vlink", 0o755) }(),                // replaced
		unix.Lsetxattr("/sb/outside/f", "user.c18", []byte("v"), 0),                                         // xattr added (file)
		unix.Lsetxattr("/sb/l1/outside/sub", "trusted.c18", []byte("v"), 0),                                 // xattr added (directory)
		unix.Lsetxattr("/sb/l1/l2/xvictim", "user.sentinel", []byte("other"), 0),                            // xattr value changed
		unix.Lsetxattr("/sb/vlink", "trusted.c18", []byte("v"), 0),                                          // xattr on a symlink itself
		os.WriteFile(path.Join(destAbs, "inside"), []byte("fine"), 0o644),                                   // inside dest: not a difference
		func() error { _, err := os.ReadDir("/sb/l1/l2/l3/sib"); return err }(),                             // reading a directory: not a difference
		os.WriteFile("/../../../escape-attempt", []byte("x"), 0o644),                                        // stays inside the chroot: created at its root
	)
}

// ---------------------------------------------------------------------------- parent side

// runChild re-executes the test binary in child mode and parses its report. The child is
// always reaped. A child that did not get as far as entering the chroot is an infrastructure
// failure (panic), not an observation.
func runChild(jobPath string) childResult { return runChildUnder(nil, jobPath) }

// runChildUnder puts a tracer command line (strace ...) in front of the child.
func runChildUnder(tracer []string, jobPath string) childResult {
	exe, err := os.Executable()
	if err != nil {
		panic(err)
	}
	ctx, cancel := context.WithTimeout(context.Background(), 120*time.Second)
	defer cancel()
	argv := append(append([]string{}, tracer...), exe, "-test.run=^$")
	var cmd *exec.Cmd
	var stdout, stderr bytes.Buffer
	var runErr error
	// a child that cannot be STARTED (fork: EAGAIN/ENOMEM when the machine is out of processes or memory) says nothing
	// about desync: the start is retried for a while, then the run ends inconclusive (exit 2), never with a verdict
	for attempt := 0; ; attempt++ {
		stdout.Reset()
		stderr.Reset()
		cmd = exec.CommandContext(ctx, argv[0], argv[1:]...)
		cmd.Env = append(os.Environ(), "VERIF_CHILD=untar", "VERIF_JOB="+jobPath)
		cmd.Dir = "/"
		cmd.WaitDelay = 5 * time.Second
		cmd.Stdout, cmd.Stderr = &stdout, &stderr
		runErr = cmd.Run()
		if cmd.ProcessState != nil || ctx.Err() != nil {
			break
		}
		if attempt >= 40 {
			fmt.Printf("SELFTEST-FAILURE: C18 infrastructure: the unpack child could not be started in %d attempts: %v\n", attempt+1, runErr)
			os.Exit(2)
		}
		time.Sleep(500 * time.Millisecond)
	}
	var res childResult
	res.Stderr = stderr.String()
	if len(res.Stderr) > 4000 {
		res.Stderr = res.Stderr[:4000]
	}
	if cmd.ProcessState != nil {
		res.ExitCode = cmd.ProcessState.ExitCode()
	} else {
		res.ExitCode = -1
	}
	for _, line := range strings.Split(stdout.String(), "\n") {
		switch {
		case line == lineReady:
			res.Ready = true
		case strings.HasPrefix(line, lineCall):
			var c callRec
			if json.Unmarshal([]byte(line[len(lineCall):]), &c) == nil {
				res.Calls = append(res.Calls, c)
			}
		case strings.HasPrefix(line, lineDone):
			var d struct {
				OK    bool     `json:"ok"`
				Err   string   `json:"err"`
				Final []change `json:"final"`
			}
			if json.Unmarshal([]byte(line[len(lineDone):]), &d) == nil {
				res.Done = true
				res.Final = d.Final
				res.Err = d.Err
				if !d.OK && res.Err == "" {
					res.Err = "error"
				}
			}
		}
	}
	if ctx.Err() != nil {
		panic(fmt.Sprintf("c18: child did not finish within 120 s (killed and reaped): %v", runErr))
	}
	if !res.Ready {
		panic(fmt.Sprintf("c18: child did not enter the chroot: exit %d, run error %v, stderr: %s", res.ExitCode, runErr, res.Stderr))
	}
	return res
}
