package c18

import (
	"crypto/sha256"
	"encoding/hex"
	"fmt"
	"io"
	"os"
	"sort"
	"strings"
	"syscall"

	"golang.org/x/sys/unix"
)

// Layout of the chroot tree (paths relative to the chroot root).
const (
	destRel = "sb/l1/l2/l3/dest"
	destAbs = "/" + destRel
)

// obj is what the oracle records about one filesystem object. Nothing is ever followed or
// opened except regular files (O_NOFOLLOW|O_NONBLOCK), so archive-made symlinks, devices and
// FIFOs outside the destination cannot mislead or block the snapshot.
type obj struct {
	Mode   uint32 // st_mode (type and permission bits)
	UID    uint32
	GID    uint32
	Size   int64
	Mtime  int64 // ns
	Rdev   uint64
	Target string // symlinks
	Sum    string // regular files: sha256 of the first MiB
	Xattrs string // "key=hexvalue;" sorted by key, read with llistxattr/lgetxattr (never through a link)
}

// lxattrs lists the extended attributes of p itself (a symlink is not followed). As root
// this includes trusted.* and security.*.
func lxattrs(p string) string {
	buf := make([]byte, 2048)
	n, err := unix.Llistxattr(p, buf)
	if err == unix.ERANGE {
		buf = make([]byte, 1<<16)
		n, err = unix.Llistxattr(p, buf)
	}
	if err != nil || n <= 0 {
		return ""
	}
	keys := strings.Split(strings.TrimSuffix(string(buf[:n]), "\x00"), "\x00")
	sort.Strings(keys)
	var sb strings.Builder
	val := make([]byte, 4096)
	for _, k := range keys {
		m, err := unix.Lgetxattr(p, k, val)
		if err != nil {
			sb.WriteString(k + "=?" + err.Error() + ";")
			continue
		}
		sb.WriteString(k + "=" + hex.EncodeToString(val[:m]) + ";")
	}
	return sb.String()
}

type snap map[string]obj

// lightSnap is set in the child only: its snapshots serve attribution (which entry touched
// which path), so instead of reading contents and attributes of every object after every
// entry they record the inode change time, which any write, chmod, chown, utimes or setxattr
// bumps. The parent's snapshots, which decide, always read everything.
var lightSnap bool

func lstatObj(p string) (obj, error) {
	var st syscall.Stat_t
	if err := syscall.Lstat(p, &st); err != nil {
		return obj{}, err
	}
	o := obj{Mode: st.Mode, UID: st.Uid, GID: st.Gid, Size: st.Size, Mtime: st.Mtim.Sec*1e9 + st.Mtim.Nsec}
	if lightSnap {
		switch st.Mode & syscall.S_IFMT {
		case syscall.S_IFLNK:
			o.Target, _ = os.Readlink(p)
			o.Size = 0
		case syscall.S_IFCHR, syscall.S_IFBLK:
			o.Rdev = uint64(st.Rdev)
		case syscall.S_IFDIR:
			o.Size = 0
			o.Xattrs = lxattrs(p) // a directory's ctime moves with its entries (like its mtime), so no shortcut here
			return o, nil
		}
		o.Sum = fmt.Sprintf("ctime:%d.%d", st.Ctim.Sec, st.Ctim.Nsec)
		return o, nil
	}
	o.Xattrs = lxattrs(p)
	switch st.Mode & syscall.S_IFMT {
	case syscall.S_IFLNK:
		o.Target, _ = os.Readlink(p)
		o.Size = 0 // the target is compared itself
	case syscall.S_IFCHR, syscall.S_IFBLK:
		o.Rdev = uint64(st.Rdev)
	case syscall.S_IFDIR:
		o.Size = 0 // directory sizes are an implementation detail of the filesystem
	case syscall.S_IFREG:
		fd, err := syscall.Open(p, syscall.O_RDONLY|syscall.O_NOFOLLOW|syscall.O_NONBLOCK|syscall.O_CLOEXEC, 0)
		if err != nil {
			o.Sum = "unreadable:" + err.Error()
			break
		}
		f := os.NewFile(uintptr(fd), p)
		h := sha256.New()
		io.Copy(h, io.LimitReader(f, 1<<20))
		f.Close()
		o.Sum = hex.EncodeToString(h.Sum(nil)[:12])
	}
	return o, nil
}

// takeSnap records every object below root (root itself is "."), except that of the
// destination directory only the type and link target are kept and nothing below it is looked at.
func takeSnap(root string) snap {
	s := snap{}
	var walk func(rel string)
	walk = func(rel string) {
		p := root
		if rel != "." {
			p = strings.TrimSuffix(root, "/") + "/" + rel
		}
		o, err := lstatObj(p)
		if err != nil {
			return
		}
		if rel == destRel {
			s[rel] = obj{Mode: o.Mode & syscall.S_IFMT, Target: o.Target}
			return
		}
		s[rel] = o
		if o.Mode&syscall.S_IFMT != syscall.S_IFDIR {
			return
		}
		ents, err := os.ReadDir(p)
		if err != nil {
			return
		}
		for _, e := range ents {
			if rel == "." {
				walk(e.Name())
			} else {
				walk(rel + "/" + e.Name())
			}
		}
	}
	walk(".")
	return s
}

// Effects, in the order of precedence used when one object changed in several ways.
const (
	effCreated  = "created-outside"
	effDeleted  = "deleted-outside"
	effReplaced = "replaced-outside" // object of another type under the same name
	effContent  = "content-changed-outside"
	effTarget   = "link-target-changed-outside"
	effMeta     = "metadata-changed-outside" // mode, owner, mtime
	effXattr    = "xattr-changed-outside"    // only the extended attributes differ
	effDest     = "dest-replaced"            // the destination itself is no longer the directory it was
)

var allEffects = []string{effCreated, effDeleted, effReplaced, effContent, effTarget, effMeta, effXattr, effDest}

type change struct {
	Path   string `json:"path"`
	Effect string `json:"effect"`
	Detail string `json:"detail,omitempty"`
}

func parentOf(rel string) string {
	i := strings.LastIndexByte(rel, '/')
	if i < 0 {
		return "."
	}
	return rel[:i]
}

func typeName(m uint32) string {
	switch m & syscall.S_IFMT {
	case syscall.S_IFDIR:
		return "dir"
	case syscall.S_IFREG:
		return "file"
	case syscall.S_IFLNK:
		return "symlink"
	case syscall.S_IFCHR:
		return "chardev"
	case syscall.S_IFBLK:
		return "blockdev"
	case syscall.S_IFIFO:
		return "fifo"
	case syscall.S_IFSOCK:
		return "socket"
	}
	return fmt.Sprintf("type%o", m&syscall.S_IFMT)
}

// diffSnaps lists the objects that differ, one change per object (the most severe effect,
// all observed differences in Detail). A directory whose only difference is its mtime is not
// listed when its set of children changed (that difference is already reported on the child)
// and atime is never looked at.
func diffSnaps(a, b snap) []change {
	paths := map[string]bool{}
	for p := range a {
		paths[p] = true
	}
	for p := range b {
		paths[p] = true
	}
	childSetChanged := map[string]bool{}
	var out []change
	type pending struct {
		path   string
		detail string
	}
	var mtimeOnlyDirs []pending
	sorted := make([]string, 0, len(paths))
	for p := range paths {
		sorted = append(sorted, p)
	}
	sort.Strings(sorted)
	for _, p := range sorted {
		x, inA := a[p]
		y, inB := b[p]
		switch {
		case p == destRel && (!inA || !inB):
			childSetChanged[parentOf(p)] = true
			out = append(out, change{p, effDest, fmt.Sprintf("present %v -> present %v", inA, inB)})
			continue
		case !inA:
			childSetChanged[parentOf(p)] = true
			out = append(out, change{p, effCreated, typeName(y.Mode)})
			continue
		case !inB:
			childSetChanged[parentOf(p)] = true
			out = append(out, change{p, effDeleted, typeName(x.Mode)})
			continue
		}
		if x == y {
			continue
		}
		if p == destRel {
			childSetChanged[parentOf(p)] = true
			out = append(out, change{p, effDest, fmt.Sprintf("%s -> %s %q", typeName(x.Mode), typeName(y.Mode), y.Target)})
			continue
		}
		if x.Mode&syscall.S_IFMT != y.Mode&syscall.S_IFMT {
			childSetChanged[parentOf(p)] = true
			out = append(out, change{p, effReplaced, typeName(x.Mode) + " -> " + typeName(y.Mode)})
			continue
		}
		var det []string
		eff := ""
		set := func(e string) {
			if eff == "" {
				eff = e
			}
		}
		if x.Sum != y.Sum || x.Size != y.Size {
			set(effContent)
			det = append(det, fmt.Sprintf("content %d bytes %s -> %d bytes %s", x.Size, x.Sum, y.Size, y.Sum))
		}
		if x.Target != y.Target {
			set(effTarget)
			det = append(det, fmt.Sprintf("target %q -> %q", x.Target, y.Target))
		}
		if x.Rdev != y.Rdev {
			set(effContent)
			det = append(det, fmt.Sprintf("rdev %#x -> %#x", x.Rdev, y.Rdev))
		}
		if x.Mode != y.Mode {
			set(effMeta)
			det = append(det, fmt.Sprintf("mode %#o -> %#o", x.Mode&0o7777, y.Mode&0o7777))
		}
		if x.UID != y.UID || x.GID != y.GID {
			set(effMeta)
			det = append(det, fmt.Sprintf("owner %d:%d -> %d:%d", x.UID, x.GID, y.UID, y.GID))
		}
		if x.Xattrs != y.Xattrs {
			det = append(det, fmt.Sprintf("xattrs %q -> %q", x.Xattrs, y.Xattrs))
			set(effXattr)
		}
		if x.Mtime != y.Mtime {
			d := fmt.Sprintf("mtime %d -> %d", x.Mtime, y.Mtime)
			if eff == "" && x.Mode&syscall.S_IFMT == syscall.S_IFDIR {
				mtimeOnlyDirs = append(mtimeOnlyDirs, pending{p, d})
				continue
			}
			set(effMeta)
			det = append(det, d)
		}
		if eff != effMeta && eff != effXattr {
			// unlink + re-create under the same name also touches the parent's mtime
			childSetChanged[parentOf(p)] = true
		}
		out = append(out, change{p, eff, strings.Join(det, "; ")})
	}
	for _, m := range mtimeOnlyDirs {
		if !childSetChanged[m.path] {
			out = append(out, change{m.path, effMeta, m.detail})
		}
	}
	sort.Slice(out, func(i, j int) bool { return out[i].Path < out[j].Path })
	return out
}
