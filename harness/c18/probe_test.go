package c18

import (
	"encoding/json"
	"fmt"
	"os"
	"os/exec"
	"path/filepath"
	"regexp"
	"sort"
	"strconv"
	"strings"
	"sync"
)

// affix describes where a helper file of the unpacker sits relative to the entry it works
// on: name = Pre + entry name + Suf (or, for Lit != "", a fixed name in the same directory).
type affix struct {
	Pre, Suf, Lit string
}

func (a affix) apply(name string) string {
	if a.Lit != "" {
		return a.Lit
	}
	return a.Pre + name + a.Suf
}

func (a affix) String() string {
	if a.Lit != "" {
		return "fixed name " + strconv.Quote(a.Lit)
	}
	return strconv.Quote(a.Pre) + "+name+" + strconv.Quote(a.Suf)
}

// idiomAffixes: how programs usually name temporary, backup and lock files next to a file.
var idiomAffixes = func() []affix {
	var out []affix
	for _, s := range []string{".tmp", ".desync-tmp", ".part", ".partial", ".new", ".bak", "~", ".swp", ".lock", ".tmp-cacnk", ".", "..tmp",
		".temp", ".old", ".orig", ".0", "-tmp", "_tmp", ".desync", ".catar-tmp", ".download"} {
		out = append(out, affix{Suf: s})
	}
	for _, p := range []string{".", ".tmp-", ".#", "#", "tmp-", ".tmp.", "~", ".~", ".desync-", ".tmp", "tmp"} {
		out = append(out, affix{Pre: p})
	}
	for _, ps := range [][2]string{{".", ".tmp"}, {".", ".swp"}, {"#", "#"}, {".", ".part"}, {".", "~"}, {".~", "~"}} {
		out = append(out, affix{Pre: ps[0], Suf: ps[1]})
	}
	return out
}()

// affixKind tells whether helper is name with an observed or an idiom affix ("" = neither).
func affixKind(helper, name string) string {
	if helper == name || name == "" {
		return ""
	}
	for _, a := range helperProbe().helpers {
		if a.apply(name) == helper {
			return "observed"
		}
	}
	for _, a := range idiomAffixes {
		if a.apply(name) == helper {
			return "idiom"
		}
	}
	return ""
}

type probeResult struct {
	helpers []affix  // distinct patterns seen
	extra   []string // the paths below dest that were no entry's own path
	err     string   // the probe could not be run (after retries)
}

var (
	probeOnce sync.Once
	probeRes  probeResult
)

var straceString = regexp.MustCompile(`"((?:[^"\\]|\\.)*)"`)

// helperProbe unpacks, once per process, a plain archive (a directory holding a file, a
// symlink and a fifo, plus a file and an empty file at the top; catar and index path) in a
// chrooted child under strace and collects every path below the destination that a
// file-related system call named and that is not the path of an entry: names the unpacker
// makes up itself (temporary files, lock files, ...). A hostile archive can put a symlink
// there first.
func helperProbe() *probeResult {
	probeOnce.Do(func() {
		strace, err := exec.LookPath("strace")
		if err != nil {
			probeRes.err = err.Error()
			return
		}
		entries := map[string]bool{".": true, "pdir": true, "pdir/pfile": true, "pdir/plink": true, "pdir/pfifo": true, "pdir/psub": true, "ptop": true, "pempty": true, "pdev": true}
		c := normalize(Case{Workers: 1, Ops: []Op{
			{K: "dir", Name: "pdir", Perm: 0o755, Mtime: 1_400_000_000},
			{K: "file", Name: "pfile", Perm: 0o644, Size: 3000, Seed: 3, Mtime: 1_400_000_001, Xattrs: []XA{{Key: "user.c18probe", Val: "v"}}},
			{K: "sym", Name: "plink", Target: "pfile", Mtime: 1_400_000_002},
			{K: "dev", Name: "pfifo", DevType: "fifo", Perm: 0o600, Mtime: 1_400_000_003},
			{K: "dir", Name: "psub", Perm: 0o700, Mtime: 1_400_000_004}, {K: "bye"},
			{K: "bye"},
			{K: "file", Name: "ptop", Perm: 0o600, Size: 10, Seed: 4, Mtime: 1_400_000_005},
			{K: "file", Name: "pempty", Perm: 0o600, Size: 0, Mtime: 1_400_000_006},
			{K: "dev", Name: "pdev", DevType: "chr", Major: devMajor, Minor: 1, Perm: 0o600},
		}})
		seen := map[string]bool{}
		for _, path := range []string{"catar", "index"} {
			c.Path = path
			var lastErr string
			ok := false
			for attempt := 0; attempt < 3 && !ok; attempt++ { // strace now and then fails on its own under load
				paths, err := tracedPaths(strace, c)
				if err != nil {
					lastErr = err.Error()
					continue
				}
				ok = true
				for _, p := range paths {
					seen[p] = true
				}
			}
			if !ok {
				probeRes.err = "strace run failed three times: " + lastErr
				return
			}
		}
		pats := map[affix]bool{}
		for p := range seen {
			rel := strings.TrimPrefix(p, destAbs+"/")
			rel = filepath.Clean(rel)
			if entries[rel] {
				continue
			}
			probeRes.extra = append(probeRes.extra, rel)
			dir, base := filepath.Split(rel)
			dir = strings.TrimSuffix(dir, "/")
			found := false
			for e := range entries {
				ed, eb := filepath.Split(e)
				if e == "." || strings.TrimSuffix(ed, "/") != dir {
					continue
				}
				if i := strings.Index(base, eb); i >= 0 {
					pats[affix{Pre: base[:i], Suf: base[i+len(eb):]}] = true
					found = true
				}
			}
			if !found && !strings.Contains(base, "/") && base != "" && base != "." && base != ".." {
				pats[affix{Lit: base}] = true
			}
		}
		for a := range pats {
			if strings.ContainsAny(a.Pre+a.Suf+a.Lit, "/\x00") || len(a.Pre)+len(a.Suf)+len(a.Lit) > 100 {
				continue
			}
			probeRes.helpers = append(probeRes.helpers, a)
		}
		sort.Slice(probeRes.helpers, func(i, j int) bool { return probeRes.helpers[i].String() < probeRes.helpers[j].String() })
		sort.Strings(probeRes.extra)
		if len(probeRes.helpers) > 0 {
			fmt.Printf("NOTE: C18 helper-name probe: the unpacker touched %v below the destination; patterns %v\n", probeRes.extra, probeRes.helpers)
		}
	})
	return &probeRes
}

// tracedPaths runs one benign unpack under strace and returns the paths below dest that
// file-related system calls named.
func tracedPaths(strace string, c Case) ([]string, error) {
	tr := getTree()
	defer tr.release(false)
	archive := buildArchive(c)
	must(os.WriteFile(filepath.Join(tr.root, "job/a.catar"), archive, 0o644))
	if c.Path == "index" {
		chunkInto(tr.root, archive)
	}
	jb, _ := json.Marshal(job{Root: tr.root, Nonce: tr.nonce, Mode: c.Path, Workers: 1})
	jobPath := filepath.Join(tr.scratch, "job.json")
	must(os.WriteFile(jobPath, jb, 0o644))
	log := filepath.Join(tr.scratch, "strace.log")
	res := runChildUnder([]string{strace, "-f", "-qq", "-s", "8192", "-e", "trace=%file", "-o", log}, jobPath)
	if !res.Done || res.Err != "" || len(res.Calls) != 9 {
		return nil, fmt.Errorf("traced child: done=%v err=%q calls=%d exit=%d stderr=%s", res.Done, res.Err, len(res.Calls), res.ExitCode, res.Stderr)
	}
	b, err := os.ReadFile(log)
	if err != nil {
		return nil, err
	}
	var out []string
	for _, m := range straceString.FindAllStringSubmatch(string(b), -1) {
		s, err := strconv.Unquote(`"` + m[1] + `"`)
		if err != nil {
			s = m[1]
		}
		if strings.HasPrefix(s, destAbs+"/") {
			out = append(out, s)
		}
	}
	if len(out) == 0 {
		return nil, fmt.Errorf("the trace names no path below the destination (%d bytes of log)", len(b))
	}
	return out, nil
}
