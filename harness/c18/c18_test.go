// C18 — Unpacking an archive never writes outside the destination directory.
//
// Every hostile archive is unpacked by a child process (this test binary re-executed with
// VERIF_CHILD=untar) that chroots into a scratch tree before it looks at the archive. The
// parent snapshots the whole chroot tree except the destination before and after and reports
// every created, changed or deleted object, whatever the unpacker returned.
package c18

import (
	"bytes"
	"context"
	"encoding/json"
	"fmt"
	"os"
	"path/filepath"
	"sort"
	"strings"
	"sync"
	"syscall"
	"testing"
	"time"

	"github.com/folbricht/desync"
	"golang.org/x/sys/unix"
	"pgregory.net/rapid"

	"verifharness/internal/catar"
	"verifharness/internal/gen"
	"verifharness/internal/hx"
)

// ---------------------------------------------------------------------------- case

// Op is one step of the archive: an entry (FILENAME + ENTRY + payload element) or a GOODBYE.
// "dir" opens a directory (the following ops are its children until the matching "bye").
type Op struct {
	K       string `json:"k"`                // dir | file | sym | dev | bye
	Name    string `json:"name"`             // FILENAME content, written verbatim
	Rep     int    `json:"rep,omitempty"`    // >1: the name is Name repeated Rep times (very long names)
	NoName  bool   `json:"noname,omitempty"` // no FILENAME element in front of the ENTRY
	Target  string `json:"target,omitempty"` // sym
	Perm    uint32 `json:"perm"`             // permission bits incl. setuid/setgid/sticky
	UID     int    `json:"uid,omitempty"`
	GID     int    `json:"gid,omitempty"`
	Mtime   int64  `json:"mtime,omitempty"` // seconds; 0 = desync leaves the time alone
	Size    int    `json:"size,omitempty"`  // file: payload length
	Seed    uint64 `json:"seed,omitempty"`
	DevType string `json:"devtype,omitempty"` // dev: chr | blk | fifo | reg | dir (mode type next to a DEVICE element)
	Major   uint64 `json:"major,omitempty"`   // dev: numbers of the DEVICE element (0:0 is what stat reports for files and fifos)
	Minor   uint64 `json:"minor,omitempty"`
	Xattrs  []XA   `json:"xattrs,omitempty"` // XATTR elements behind the ENTRY (restored by LocalFS unless NoSameOwner)
	// ModeType, when set, replaces the file-type bits of the ENTRY's mode whatever elements follow it
	// (lnk reg dir chr blk fifo sock none): the decoder goes by the elements, the writer may go by the mode
	ModeType string `json:"modetype,omitempty"`
}

// XA is one extended attribute of an entry.
type XA struct {
	Key string `json:"key"`
	Val string `json:"val"`
}

type Case struct {
	Path        string `json:"path"`               // catar = UnTar(LocalFS) | index = UnTarIndex over a LocalStore
	Ops         []Op   `json:"ops"`                // after the implicit root directory entry
	Unclosed    int    `json:"unclosed,omitempty"` // that many innermost open directories get no GOODBYE at the end
	Workers     int    `json:"workers,omitempty"`
	NoSameOwner bool   `json:"no_same_owner,omitempty"`
	NoSamePerm  bool   `json:"no_same_perm,omitempty"`
	PreLink     string `json:"prelink,omitempty"` // dest/l exists before the run as a symlink to this target (left by an earlier unpack)
	PreName     string `json:"prename,omitempty"` // name of that link instead of "l" (one plain path component)
	// Root is the first, unnamed entry of the archive; nil = a directory (mode 0755). Any kind
	// is allowed (file, sym, dev); a non-empty Name puts a FILENAME element in front of it.
	Root *Op `json:"root,omitempty"`
	// Dest is the state of the destination path before the run: "" = empty directory,
	// nonempty (directory with content), absent, file, symlink (to DestLink, resolved from dest's parent).
	Dest     string `json:"dest,omitempty"`
	DestLink string `json:"destlink,omitempty"`
	// Unpriv: the child unpacks as an unprivileged user (uid/gid 4242) that owns the destination
	// tree and the u* sentinels outside; everything else outside belongs to root.
	Unpriv bool `json:"unpriv,omitempty"`
}

func (c Case) preName() string {
	n := c.PreName
	if n == "" || n == "." || n == ".." || strings.ContainsAny(n, "/\x00") || len(n) > 200 {
		return "l"
	}
	return n
}

func (c Case) rootOp() Op {
	if c.Root == nil {
		return Op{K: "dir", Perm: 0o755, Mtime: rootMtimeNs / 1_000_000_000}
	}
	return *c.Root
}

func (o Op) fullName() string {
	if o.Rep > 1 {
		return strings.Repeat(o.Name, o.Rep)
	}
	return o.Name
}

func (o Op) isEntry() bool { return o.K != "bye" }

func hasDotDot(n string) bool {
	for _, c := range strings.Split(n, "/") {
		if c == ".." {
			return true
		}
	}
	return false
}

// selfSlash: a name made only of slashes and "." components ("/", "//", "/.", "./", ".//"):
// joined to a directory it is that directory itself.
func selfSlash(n string) bool {
	if !strings.Contains(n, "/") {
		return false
	}
	for _, c := range strings.Split(n, "/") {
		if c != "" && c != "." {
			return false
		}
	}
	return true
}

// nameKind classifies the raw name of an entry op.
func nameKind(o Op) string {
	if o.NoName {
		return "nameless"
	}
	n := o.fullName()
	switch {
	case len(n) > 255:
		return "long"
	case strings.Contains(n, "\x00"):
		return "nul"
	case n == "":
		return "empty"
	case n == ".":
		return "dot"
	case n == "..":
		return "dotdot"
	case selfSlash(n):
		return "self-slash"
	case strings.HasPrefix(n, "/"):
		return "absolute"
	case strings.HasPrefix(n, "../"):
		return "dotdot-prefix"
	case hasDotDot(n):
		return "inner-dotdot"
	case strings.HasPrefix(n, "./"):
		return "dot-slash"
	case strings.Contains(n, "/"):
		return "slash"
	}
	return "plain"
}

func shortName(n string) string {
	if len(n) > 48 {
		return fmt.Sprintf("%s…(%d bytes)", n[:24], len(n))
	}
	return n
}

// ---------------------------------------------------------------------------- archive builder

const (
	rootMtimeNs = 1_500_000_000 * 1_000_000_000
	devMajor    = 241 // local/experimental range: no driver behind it
)

var modeTypes = map[string]uint32{"lnk": catar.S_IFLNK, "reg": catar.S_IFREG, "dir": catar.S_IFDIR, "chr": catar.S_IFCHR, "blk": catar.S_IFBLK,
	"fifo": catar.S_IFIFO, "sock": 0o140000, "none": 0}

func modeOf(o Op) uint32 {
	p := o.Perm & 0o7777
	if ty, ok := modeTypes[o.ModeType]; ok {
		return ty | p
	}
	switch o.K {
	case "dir":
		return catar.S_IFDIR | p
	case "file":
		return catar.S_IFREG | p
	case "sym":
		return catar.S_IFLNK | 0o777
	case "dev":
		switch o.DevType {
		case "blk":
			return catar.S_IFBLK | p
		case "fifo":
			return catar.S_IFIFO | p
		case "reg":
			return catar.S_IFREG | p
		case "dir":
			return catar.S_IFDIR | p
		}
		return catar.S_IFCHR | p
	}
	return p
}

// buildArchive serialises the case with the harness's own encoder. Goodbye tables are
// well-formed (sorted BST, offsets, name hashes, tail item) for every directory that is closed;
// a "bye" without an open directory writes a goodbye that holds only a tail item.
func buildArchive(c Case) []byte {
	type item struct {
		start, end int
		hash       uint64
	}
	type open struct {
		entryStart int // offset of the ENTRY element
		selfStart  int // offset of the FILENAME element (or ENTRY when nameless)
		name       string
		items      []item
	}
	var b []byte
	var stack []open
	{
		r := c.rootOp()
		if r.Name != "" {
			b = catar.AppendFilename(b, r.fullName())
		}
		es := len(b)
		b = catar.AppendEntry(b, catar.Entry{FeatureFlags: catar.DefaultFlags, Mode: uint64(modeOf(r)),
			UID: uint64(r.UID), GID: uint64(r.GID), MTimeNs: uint64(r.Mtime) * 1_000_000_000})
		for _, x := range r.Xattrs {
			b = catar.AppendXattr(b, x.Key, []byte(x.Val))
		}
		switch r.K {
		case "file":
			b = catar.AppendPayload(b, gen.RandBytes(r.Size, r.Seed))
		case "sym":
			b = catar.AppendSymlink(b, r.Target)
		case "dev":
			b = catar.AppendDevice(b, r.Major, r.Minor)
		default:
			stack = []open{{entryStart: es, selfStart: 0, name: r.fullName()}}
		}
	}
	closeTop := func() {
		top := stack[len(stack)-1]
		stack = stack[:len(stack)-1]
		g := len(b)
		items := make([]catar.GoodbyeItem, len(top.items))
		for i, it := range top.items {
			items[i] = catar.GoodbyeItem{Offset: uint64(g - it.start), Size: uint64(it.end - it.start), Hash: it.hash}
		}
		b = catar.AppendGoodbye(b, items, top.entryStart)
		if len(stack) > 0 {
			p := &stack[len(stack)-1]
			p.items = append(p.items, item{top.selfStart, len(b), catar.NameHash(top.name)})
		}
	}
	for _, o := range c.Ops {
		if o.K == "bye" {
			if len(stack) == 0 {
				b = catar.AppendGoodbyeRaw(b, []catar.GoodbyeItem{{Offset: uint64(len(b)), Size: 40, Hash: catar.GoodbyeTailMarker}})
				continue
			}
			closeTop()
			continue
		}
		start := len(b)
		name := o.fullName()
		if !o.NoName {
			b = catar.AppendFilename(b, name)
		}
		entryStart := len(b)
		b = catar.AppendEntry(b, catar.Entry{FeatureFlags: catar.DefaultFlags, Mode: uint64(modeOf(o)),
			UID: uint64(o.UID), GID: uint64(o.GID), MTimeNs: uint64(o.Mtime) * 1_000_000_000})
		for _, x := range o.Xattrs {
			b = catar.AppendXattr(b, x.Key, []byte(x.Val))
		}
		switch o.K {
		case "dir":
			stack = append(stack, open{entryStart: entryStart, selfStart: start, name: name})
			continue
		case "file":
			b = catar.AppendPayload(b, gen.RandBytes(o.Size, o.Seed))
		case "sym":
			b = catar.AppendSymlink(b, o.Target)
		case "dev":
			b = catar.AppendDevice(b, o.Major, o.Minor)
		}
		if len(stack) > 0 {
			p := &stack[len(stack)-1]
			p.items = append(p.items, item{start, len(b), catar.NameHash(name)})
		}
	}
	for len(stack) > c.Unclosed && len(stack) > 0 {
		closeTop()
	}
	return b
}

func normalize(c Case) Case {
	if c.Path != "index" {
		c.Path = "catar"
	}
	if len(c.Ops) > 48 {
		c.Ops = c.Ops[:48]
	}
	ops := make([]Op, len(c.Ops))
	copy(ops, c.Ops)
	if c.Root != nil {
		r := *c.Root
		r.NoName = false
		if r.K == "bye" {
			r.K = "dir"
		}
		ops = append(ops, r) // normalised with the others, taken off again below
	}
	for i := range ops {
		o := &ops[i]
		switch o.K {
		case "dir", "file", "sym", "dev", "bye":
		default:
			o.K = "file"
		}
		if o.Size < 0 {
			o.Size = 0
		}
		if o.Size > 8192 {
			o.Size = 8192
		}
		if o.Rep > 1 && len(o.Name)*o.Rep > 9000 {
			o.Rep = 9000 / len(o.Name)
		}
		if o.UID < 0 || o.UID > 60000 {
			o.UID = 0
		}
		if o.GID < 0 || o.GID > 60000 {
			o.GID = 0
		}
		if o.Mtime < 0 || o.Mtime > 4_000_000_000 {
			o.Mtime = 0
		}
		// device numbers: null (1:3, what the char sentinel is), 0:0, or the driverless range
		if !(o.Major == 0 && o.Minor == 0) && !(o.Major == 1 && o.Minor == 3) && !(o.Major == devMajor && o.Minor < 16) {
			o.Major, o.Minor = devMajor, o.Minor%16
		}
		// absolute symlink targets only ever name paths inside the chroot (everything is
		// inside once chrooted; a NUL would end the string for the kernel)
		o.Target = strings.ReplaceAll(o.Target, "\x00", "")
		if len(o.Xattrs) > 4 {
			o.Xattrs = o.Xattrs[:4]
		}
		xs := append([]XA(nil), o.Xattrs...)
		for i := range xs { // only namespaces that live on the scratch files and nowhere else
			if !strings.HasPrefix(xs[i].Key, "user.") && !strings.HasPrefix(xs[i].Key, "trusted.") || strings.Contains(xs[i].Key, "\x00") {
				xs[i].Key = "user.c18"
			}
			if len(xs[i].Val) > 64 {
				xs[i].Val = xs[i].Val[:64]
			}
		}
		sort.SliceStable(xs, func(i, j int) bool { return xs[i].Key < xs[j].Key })
		o.Xattrs = xs
	}
	if c.Root != nil {
		r := ops[len(ops)-1]
		c.Root, ops = &r, ops[:len(ops)-1]
	}
	c.Ops = ops
	switch c.Dest {
	case "", "nonempty", "absent", "file":
		c.DestLink = ""
	case "symlink":
		c.DestLink = strings.ReplaceAll(c.DestLink, "\x00", "")
		if c.DestLink == "" {
			c.DestLink = "outside"
		}
	default:
		c.Dest, c.DestLink = "", ""
	}
	if c.Dest != "" && c.Dest != "nonempty" {
		c.PreLink = "" // needs a real directory to sit in
	}
	if c.Workers < 1 {
		c.Workers = 1
	}
	if c.Workers > 8 {
		c.Workers = 8
	}
	if c.Unclosed < 0 {
		c.Unclosed = 0
	}
	return c
}

// ---------------------------------------------------------------------------- scratch tree

// devSentinels exist in every level directory. The char device is 1:3 (null), the block
// device sits in the driverless range.
var devSentinels = []struct {
	name         string
	mode         uint32
	major, minor uint64
	uid, gid     int
}{
	{"cdev", unix.S_IFCHR | 0o600, 1, 3, 11, 12},
	{"bdev", unix.S_IFBLK | 0o660, devMajor, 7, 13, 14},
	{"fifo", unix.S_IFIFO | 0o640, 0, 0, 15, 16},
}

// nodeOf tells what stat(2) reports for the object a symlink target names (absolute targets, and
// relative ones as seen from dest itself): the device type and numbers a DEVICE entry has to
// carry to "be the same node".
func nodeOf(target string) (devtype string, major, minor uint64, ok bool) {
	base := target[strings.LastIndexByte(target, '/')+1:]
	if !strings.HasPrefix(target, "/") && !strings.HasPrefix(target, "../") {
		return "", 0, 0, false
	}
	switch base {
	case "cdev":
		return "chr", 1, 3, true
	case "bdev":
		return "blk", devMajor, 7, true
	case "fifo":
		return "fifo", 0, 0, true
	case "victim", "xvictim", "f", "x", "g", "s":
		if target == "/abs/x" || base != "x" {
			return "reg", 0, 0, true
		}
	}
	return "", 0, 0, false
}

// targets naming outside device nodes, fifos and regular files
var nodeTargets = []string{"/sb/l1/cdev", "../../cdev", "/cdev", "../cdev", "/sb/bdev", "../bdev", "/sb/l1/l2/fifo", "../../fifo", "../fifo",
	"/sb/l1/xvictim", "../victim", "../../xvictim", "/abs/x", "../../outside/f", "/victim"}

var levelDirs = []string{".", "sb", "sb/l1", "sb/l1/l2", "sb/l1/l2/l3"}

func must(err error) {
	if err != nil {
		panic(err)
	}
}

// buildTree creates the chroot tree below root: the nested sandbox directories, at every level
// a sentinel file, a sentinel symlink and a sentinel directory with content, next to dest a
// sibling directory, and /abs.
func buildTree(root, nonce string) {
	mk := func(rel string) { must(os.MkdirAll(filepath.Join(root, rel), 0o755)) }
	wr := func(rel, content string) { must(os.WriteFile(filepath.Join(root, rel), []byte(content), 0o644)) }
	mk(destRel)
	for _, l := range levelDirs {
		wr(filepath.Join(l, "victim"), "sentinel "+l)
		must(os.Symlink("victim", filepath.Join(root, l, "vlink")))
		mk(filepath.Join(l, "outside/sub"))
		wr(filepath.Join(l, "outside/f"), "outside file "+l)
		wr(filepath.Join(l, "outside/sub/g"), "outside sub file "+l)
		// sentinels the unprivileged child may write to (an escape has to be observable for it too)
		wr(filepath.Join(l, "uvictim"), "sentinel of the unprivileged user "+l)
		mk(filepath.Join(l, "uoutside"))
		wr(filepath.Join(l, "uoutside/f"), "file in a directory of the unprivileged user "+l)
		for _, n := range []string{"uvictim", "uoutside", "uoutside/f"} {
			must(os.Lchown(filepath.Join(root, l, n), unprivUID, unprivGID))
		}
		// device and fifo sentinels with distinctive mode and owner (never opened by anything here)
		for _, d := range devSentinels {
			p := filepath.Join(root, l, d.name)
			must(unix.Mknod(p, d.mode, int(unix.Mkdev(uint32(d.major), uint32(d.minor)))))
			must(os.Lchown(p, d.uid, d.gid))
			must(unix.Fchmodat(unix.AT_FDCWD, p, d.mode&0o7777, 0))
		}
		// a sentinel that already carries attributes (an unpacker could change their values)
		wr(filepath.Join(l, "xvictim"), "sentinel with xattrs "+l)
		must(unix.Lsetxattr(filepath.Join(root, l, "xvictim"), "user.sentinel", []byte("orig"), 0))
		must(unix.Lsetxattr(filepath.Join(root, l, "xvictim"), "trusted.sentinel", []byte("orig"), 0))
	}
	mk("sb/l1/l2/l3/realdest") // a directory a destination symlink may point at
	mk("sb/l1/l2/l3/sib")
	wr("sb/l1/l2/l3/sib/s", "sibling")
	mk("abs")
	wr("abs/x", "abs x")
	mk("job")
	mk("store")
	wr(".c18-nonce", nonce)
}

// freezeTimes gives every object below root (dest included) a fixed old mtime, so that a
// later touch is visible without reading the clock.
func freezeTimes(root string) {
	var paths []string
	var walk func(p string)
	walk = func(p string) {
		paths = append(paths, p)
		var st syscall.Stat_t
		if syscall.Lstat(p, &st) != nil || st.Mode&syscall.S_IFMT != syscall.S_IFDIR {
			return
		}
		ents, _ := os.ReadDir(p)
		for _, e := range ents {
			walk(p + "/" + e.Name())
		}
	}
	walk(root)
	for i, p := range paths {
		ts := []unix.Timespec{{Sec: 1_000_000_000 + int64(i)}, {Sec: 1_000_000_000 + int64(i)}}
		must(unix.UtimesNanoAt(unix.AT_FDCWD, p, ts, unix.AT_SYMLINK_NOFOLLOW))
	}
}

// ---------------------------------------------------------------------------- sentinel trees

// A tree is one chroot directory with all its sentinels. Building and removing some 130
// objects per case is most of the parent's file-system work, so a tree that a case left
// untouched (empty snapshot difference) is reset and used again.
type tree struct{ scratch, root, nonce string }

var (
	treeMu    sync.Mutex
	freeTrees []*tree
)

func getTree() *tree {
	treeMu.Lock()
	if n := len(freeTrees); n > 0 {
		t := freeTrees[n-1]
		freeTrees = freeTrees[:n-1]
		treeMu.Unlock()
		return t
	}
	treeMu.Unlock()
	scratch := hx.Scratch("c18")
	t := &tree{scratch: scratch, root: filepath.Join(scratch, "root"), nonce: hx.Hash8([]byte(scratch))}
	buildTree(t.root, t.nonce)
	return t
}

// release resets the destination path, the job and the store of an untouched tree and keeps
// it; a touched tree is removed.
func (t *tree) release(untouched bool) {
	if untouched {
		ok := true
		for _, rel := range []string{destRel, "job", "store"} {
			p := filepath.Join(t.root, rel)
			if os.RemoveAll(p) != nil || os.Mkdir(p, 0o755) != nil {
				ok = false
			}
		}
		os.Remove(filepath.Join(t.scratch, "job.json"))
		if ok {
			treeMu.Lock()
			freeTrees = append(freeTrees, t)
			treeMu.Unlock()
			return
		}
	}
	os.RemoveAll(t.scratch)
}

func dropTrees() {
	treeMu.Lock()
	defer treeMu.Unlock()
	for _, t := range freeTrees {
		os.RemoveAll(t.scratch)
	}
	freeTrees = nil
}

// chunkInto cuts the archive into chunks (this does not interpret it: safe in the parent),
// stores them in root/store and writes the index to root/job/a.caidx.
func chunkInto(root string, archive []byte) int {
	st, err := desync.NewLocalStore(filepath.Join(root, "store"), desync.StoreOptions{Uncompressed: true})
	must(err)
	ch, err := desync.NewChunker(bytes.NewReader(archive), 64, 192, 768)
	must(err)
	idx, err := desync.ChunkStream(context.Background(), ch, st, 1)
	must(err)
	var buf bytes.Buffer
	_, err = idx.WriteTo(&buf)
	must(err)
	must(os.WriteFile(filepath.Join(root, "job/a.caidx"), buf.Bytes(), 0o644))
	return len(idx.Chunks)
}

// ---------------------------------------------------------------------------- run

var (
	cacheMu sync.Mutex
	cache   = map[string]hx.Outcome{} // outcomes precomputed by the TestEnum worker pool
)

func caseKey(c Case) string {
	b, _ := json.Marshal(c)
	return string(b)
}

func run(c Case) hx.Outcome {
	k := caseKey(c)
	cacheMu.Lock()
	o, ok := cache[k]
	delete(cache, k)
	cacheMu.Unlock()
	if ok {
		return o
	}
	return runReal(c)
}

type observed struct {
	Result  string    `json:"unpacker_result"`
	Calls   []callRec `json:"calls"`
	Changes []change  `json:"changes_outside_dest"`
	Final   []change  `json:"changed_after_last_entry,omitempty"`
	Stderr  string    `json:"child_stderr,omitempty"`
}

func runReal(c Case) (o hx.Outcome) {
	c = normalize(c)
	archive := buildArchive(c)

	tr := getTree()
	reusable := false
	defer func() { tr.release(reusable) }()
	scratch, root, nonce := tr.scratch, tr.root, tr.nonce
	// state of the destination path (nothing below resolves a path through dest once it may be a link)
	destPath := filepath.Join(root, destRel)
	switch c.Dest {
	case "nonempty":
		must(os.MkdirAll(filepath.Join(destPath, "kd"), 0o755))
		must(os.WriteFile(filepath.Join(destPath, "keep"), []byte("keep"), 0o644))
		must(os.WriteFile(filepath.Join(destPath, "kd/kf"), []byte("kf"), 0o644))
	case "absent":
		must(os.Remove(destPath))
	case "file":
		must(os.Remove(destPath))
		must(os.WriteFile(destPath, []byte("a file where the destination should be"), 0o644))
	case "symlink":
		must(os.Remove(destPath))
		must(os.Symlink(c.DestLink, destPath))
	}
	if c.PreLink != "" {
		must(os.Symlink(c.PreLink, filepath.Join(destPath, c.preName())))
	}
	if c.Unpriv {
		// the destination path and what is in it belong to the unpacking user (lchown: never through a link)
		var own func(p string)
		own = func(p string) {
			var st syscall.Stat_t
			if syscall.Lstat(p, &st) != nil {
				return
			}
			must(os.Lchown(p, unprivUID, unprivGID))
			if st.Mode&syscall.S_IFMT == syscall.S_IFDIR {
				ents, _ := os.ReadDir(p)
				for _, e := range ents {
					own(p + "/" + e.Name())
				}
			}
		}
		own(destPath)
	}
	must(os.WriteFile(filepath.Join(root, "job/a.catar"), archive, 0o644))
	chunks := 0
	if c.Path == "index" {
		chunks = chunkInto(root, archive)
	}
	jb, _ := json.Marshal(job{Root: root, Nonce: nonce, Mode: c.Path, Workers: c.Workers, NoSameOwner: c.NoSameOwner, NoSamePerm: c.NoSamePerm, Unpriv: c.Unpriv})
	jobPath := filepath.Join(scratch, "job.json")
	must(os.WriteFile(jobPath, jb, 0o644))
	freezeTimes(root)

	before := takeSnap(root)
	res := runChild(jobPath)
	after := takeSnap(root)
	changes := diffSnaps(before, after)
	// Nothing outside dest differs in any compared respect and the child ended normally: the
	// sentinel tree can serve the next case (dest, job and store are made anew, all times are
	// frozen again). Any difference at all, legitimate or not, and the tree is thrown away.
	reusable = len(changes) == 0 && res.Done

	// ---- which entries did the unpacker get to see
	var entries []Op // entries[0] is the implicit root
	rootOp := c.rootOp()
	rootOp.NoName = rootOp.Name == ""
	entries = append(entries, rootOp)
	for _, op := range c.Ops {
		if op.isEntry() {
			entries = append(entries, op)
		}
	}
	okCalls := 0
	for _, cl := range res.Calls {
		if cl.Err == "" {
			okCalls++
		}
	}
	allOK := okCalls == len(res.Calls)
	reached := func(i int) bool {
		return i < len(res.Calls) || (i == len(res.Calls) && allOK && res.Err != "")
	}
	nReached := 0
	for i := range entries {
		if reached(i) {
			nReached++
		}
	}

	// ---- classes and non-triviality
	nontrivial := false
	o.Class("path:" + c.Path)
	if res.Err == "" {
		o.Class("result:nil")
	} else {
		o.Class("result:error")
	}
	if !res.Done {
		o.Class("unpacker-crashed")
	}
	depth, maxDepth := 0, 0
	var symNames []string
	symThenEntry, absTarget, crossed := false, false, false
	if c.PreLink != "" {
		symNames = append(symNames, c.preName())
		o.Class("symlink-in-dest-before-the-run")
		absTarget = strings.HasPrefix(c.PreLink, "/")
	}
	if c.Unpriv {
		o.Class("unprivileged-unpack")
		if !c.NoSameOwner {
			o.Class("unprivileged-unpack:owner-restoration-on")
		}
	}
	for i, cl := range res.Calls {
		if cl.Kind == "file" && cl.Over != "" {
			o.Class("symlink-then-file")
			if strings.Contains(cl.Err, "permission denied") || strings.Contains(cl.Err, "not permitted") {
				o.Class("symlink-then-file:unlink-refused")
				if i < len(entries) && strings.HasPrefix(cl.Over, "/") {
					o.Class("symlink-then-file:unlink-refused:link-to-outside")
				}
				nontrivial = true
			}
		}
	}
	o.Class("root:" + rootOp.K)
	if rootOp.Name != "" {
		o.Class("root:named")
	}
	destClass := map[string]string{"": "empty-dir", "nonempty": "nonempty-dir", "absent": "absent", "file": "file"}[c.Dest]
	if c.Dest == "symlink" {
		destClass = "symlink-to-outside"
		if c.DestLink == "realdest" {
			destClass = "symlink-to-inside"
		}
	}
	o.Class("dest:" + destClass)
	rootAccepted := len(res.Calls) > 0 && res.Calls[0].Err == ""
	if rootAccepted {
		o.Class("root:" + rootOp.K + ":accepted:dest:" + destClass)
	}
	openDirs := 0 // directories the decoder has open (may go below zero with extra goodbyes)
	if rootOp.K == "dir" {
		openDirs = 1
	}
	kinds := map[string]bool{}
	type acc struct{ name, k, target string }
	hist := [][]acc{nil} // entries accepted so far, per open directory (innermost last)
	sameName := map[string]bool{}
	ei := 0
	for _, op := range c.Ops {
		if op.K == "bye" {
			if depth > 0 {
				depth--
			}
			if len(hist) > 1 {
				hist = hist[:len(hist)-1]
			}
			openDirs--
			continue
		}
		ei++
		if !reached(ei) {
			break
		}
		if depth > maxDepth {
			maxDepth = depth
		}
		nk := nameKind(op)
		kinds[nk] = true
		o.Class("entry:" + op.K)
		if _, ok := modeTypes[op.ModeType]; ok {
			o.Class("entry:mode-type-differs-from-elements", "entry:"+op.K+":mode-type:"+op.ModeType)
			if h := hist[len(hist)-1]; op.K == "dir" && op.ModeType == "lnk" && !op.NoName && len(h) > 0 && h[len(h)-1].k == "sym" && h[len(h)-1].name == op.fullName() {
				o.Class("same-name:symlink-then-dir-entry-with-symlink-mode")
			}
		}
		if openDirs <= 0 {
			what := "named-entry"
			if op.NoName {
				what = "nameless-entry"
			}
			if rootOp.K != "dir" {
				o.Class("root:non-dir:followed-by-" + what)
				if rootOp.K == "sym" && rootAccepted && !op.NoName {
					o.Class("root:sym:accepted:followed-by-named-entry")
					nontrivial = true
				}
			} else {
				o.Class("after-root-goodbye:" + what)
				if openDirs < 0 {
					o.Class("after-extra-goodbye:" + what)
				}
			}
		}
		raw := op.fullName()
		if !op.NoName && (hasDotDot(raw) || strings.Contains(raw, "/")) {
			nontrivial = true
		}
		for _, s := range symNames {
			if !op.NoName && (raw == s || strings.HasPrefix(raw, s+"/")) {
				symThenEntry = true
				kinds["symlink-name"] = true
			}
		}
		if len(op.Xattrs) > 0 {
			o.Class("xattrs:" + op.K)
			if !c.NoSameOwner && ei < len(res.Calls) && res.Calls[ei].Err == "" {
				o.Class("xattrs:" + op.K + ":restored")
				if op.K == "sym" && existingOutside[op.Target] {
					o.Class("xattrs:sym:restored:target-exists-outside")
				}
			}
		}
		if op.K == "sym" && ei < len(res.Calls) && res.Calls[ei].Err == "" {
			if nk == "plain" {
				symNames = append(symNames, raw)
			}
			if strings.HasPrefix(op.Target, "/") {
				absTarget = true
			}
		}
		if !op.NoName && op.K == "dir" && ei < len(res.Calls) && res.Calls[ei].Err == "" {
			for _, e := range hist[len(hist)-1] {
				if e.k == "dir" && e.name == raw {
					sameName["dir-entry-repeated"] = true
					if op.Perm&0o200 == 0 {
						sameName["dir-entry-repeated:mode-readonly"] = true
						if c.Unpriv {
							sameName["dir-entry-repeated:mode-readonly:unprivileged"] = true
						}
					}
					break
				}
			}
		}
		if !op.NoName && op.K == "dev" && ei < len(res.Calls) {
			// a device entry over a symlink of the same name (made by the archive in this directory, or left in dest before)
			linkTarget, viaPre := "", false
			if h := hist[len(hist)-1]; len(h) > 0 && h[len(h)-1].k == "sym" && h[len(h)-1].name == raw {
				linkTarget = h[len(h)-1].target
			} else if c.PreLink != "" && raw == c.preName() && len(hist) == 1 && rootOp.K == "dir" {
				linkTarget, viaPre = c.PreLink, true
				for _, e := range hist[0] {
					if e.name == c.preName() {
						linkTarget = ""
					}
				}
			}
			if linkTarget != "" {
				sameName["same-name:symlink-then-device"] = true
				relOK := strings.HasPrefix(linkTarget, "/") || (len(hist) == 1 && rootOp.K == "dir")
				if dt, ma, mi, ok := nodeOf(linkTarget); ok && relOK && dt == op.DevType && ma == op.Major && mi == op.Minor {
					sameName["same-name:symlink-then-device:numbers-match-target"] = true
					sameName["same-name:symlink-then-device:numbers-match-target:"+dt] = true
					if viaPre {
						sameName["same-name:prelink-then-device:numbers-match-target"] = true
					}
					nontrivial = true
				}
			}
		}
		if !op.NoName && ei < len(res.Calls) {
			// an earlier symlink in this directory (or one left in dest before) whose name is this
			// entry's name plus an affix: where a helper file of the unpacker would be
			sibs := hist[len(hist)-1]
			if c.PreLink != "" && len(hist) == 1 && rootOp.K == "dir" {
				sibs = append([]acc{{c.preName(), "sym", c.PreLink}}, sibs...)
			}
			for _, e := range sibs {
				if e.k != "sym" || e.name == raw {
					continue
				}
				switch affixKind(e.name, raw) {
				case "observed":
					sameName["sibling-name:observed-helper-name"] = true
					sameName["sibling-name:observed-helper-name:"+op.K] = true
					nontrivial = true
				case "idiom":
					sameName["sibling-name:tempfile-idiom"] = true
					sameName["sibling-name:tempfile-idiom:"+op.K] = true
				}
			}
		}
		if !op.NoName && ei < len(res.Calls) && res.Calls[ei].Err == "" {
			h := append(hist[len(hist)-1], acc{raw, op.K, op.Target})
			hist[len(hist)-1] = h
			seq := func(n int) (ks string, same, prefix bool) { // the last n accepted entries of this directory
				if len(h) < n {
					return "", false, false
				}
				t := h[len(h)-n:]
				same, prefix = true, true
				var parts []string
				for i, e := range t {
					parts = append(parts, e.k)
					if e.name != t[0].name {
						same = false
					}
					if i > 0 && !strings.HasPrefix(e.name, t[0].name) {
						prefix = false
					}
				}
				return strings.Join(parts, ">"), same, prefix
			}
			if ks, same, prefix := seq(3); ks != "" && (same || prefix) {
				label := map[string]string{"dir>file>sym": "dir-then-file-then-symlink", "file>sym>file": "file-then-symlink-then-file",
					"file>sym>dir": "file-then-symlink-then-dir", "dir>file>dir": "dir-then-file-then-dir", "sym>file>sym": "symlink-then-file-then-symlink"}[ks]
				if label == "" {
					label = "other-3"
				}
				if same {
					sameName["same-name:"+label] = true
					if ks == "dir>file>sym" {
						nontrivial = true
						if existingOutside[op.Target] {
							sameName["same-name:dir-then-file-then-symlink:target-exists-outside"] = true
						}
					}
				} else {
					sameName["same-name:prefix-names:"+label] = true
				}
			}
			if ks, same, _ := seq(4); ks != "" && same {
				sameName["same-name:length>=4"] = true
			}
		}
		if !op.NoName && op.K == "sym" && ei < len(res.Calls) && res.Calls[ei].Err != "" {
			if h := hist[len(hist)-1]; len(h) > 0 && h[len(h)-1].k == "dir" && h[len(h)-1].name == raw {
				sameName["same-name:dir-then-symlink(refused)"] = true
			}
		}
		if op.K == "dir" {
			depth++
			hist = append(hist, nil)
			if ei < len(res.Calls) && res.Calls[ei].Err == "" {
				openDirs++
			}
		}
	}
	for k := range sameName {
		o.Class(k)
	}
	if sameName["sibling-name:tempfile-idiom"] || sameName["sibling-name:observed-helper-name"] {
		switch hp := helperProbe(); {
		case hp.err != "":
			o.Class("helper-name-probe:failed")
		case len(hp.helpers) == 0:
			o.Class("helper-name-probe:ran", "helper-name-probe:none-observed")
		default:
			o.Class("helper-name-probe:ran", "helper-name-probe:observed")
		}
	}
	if len(before) >= 40 {
		// every object outside dest was recorded with mode, owner, ns mtime, xattrs, link target and
		// content before and after (sentinels carry distinct old mtimes)
		o.Class("outside:metadata-compared")
	}
	for _, cl := range res.Calls {
		if cl.Cross != "" {
			crossed = true
			nontrivial = true
		}
	}
	for k := range kinds {
		if k != "plain" {
			o.Class("name:" + k)
		}
	}
	if symThenEntry {
		o.Class("symlink-then-entry")
	}
	if crossed {
		o.Class("entry-path-crosses-archive-symlink")
	}
	if absTarget {
		o.Class("absolute-symlink-target")
	}
	if maxDepth >= 2 {
		o.Class("hostile-or-plain-entry-at-depth>=2")
	}
	if len(changes) > 0 {
		o.Class("escaped")
	}
	o.Nontrivial = nontrivial

	// ---- descriptor
	var shape []string
	for _, op := range c.Ops {
		switch {
		case op.K == "bye":
			shape = append(shape, "bye")
		case op.NoName:
			shape = append(shape, op.K+":<nameless>")
		case op.K == "sym":
			shape = append(shape, op.K+":"+shortName(op.fullName())+"->"+shortName(op.Target))
		default:
			shape = append(shape, op.K+":"+shortName(op.fullName()))
		}
		for _, x := range op.Xattrs {
			shape[len(shape)-1] += "+" + x.Key
		}
	}
	result := "nil"
	if res.Err != "" {
		result = "error"
	}
	o.Desc = map[string]any{"path": c.Path, "ops": shape, "archive_bytes": len(archive), "chunks": chunks,
		"prelink": c.PreLink, "entries_reached": nReached, "entries": len(entries), "result": result, "changes_outside": len(changes)}
	rootDesc := rootOp.K
	if rootOp.K == "sym" {
		rootDesc += "->" + shortName(rootOp.Target)
	}
	if rootOp.K == "dev" {
		rootDesc += ":" + rootOp.DevType
	}
	if rootOp.Name != "" {
		rootDesc += " named " + shortName(rootOp.fullName())
	}
	destDesc := destClass
	if c.Dest == "symlink" {
		destDesc = "symlink->" + shortName(c.DestLink)
	}
	o.Desc.(map[string]any)["root"] = rootDesc
	o.Desc.(map[string]any)["dest"] = destDesc
	shape = append([]string{"root=" + rootDesc, "dest=" + destDesc}, shape...)
	if c.Unpriv {
		shape = append([]string{"unprivileged"}, shape...)
		o.Desc.(map[string]any)["unprivileged"] = true
	}
	if c.PreLink != "" && c.preName() != "l" {
		shape = append([]string{"before: " + shortName(c.preName()) + "->" + shortName(c.PreLink)}, shape...)
	}
	o.Key = c.Path + "|" + c.PreLink + "|" + strings.Join(shape, "|")
	obs := observed{Result: res.Err, Changes: changes, Stderr: res.Stderr, Final: res.Final}
	if res.Err == "" {
		obs.Result = "nil"
	}
	for _, cl := range res.Calls {
		cl.Name = shortName(cl.Name)
		obs.Calls = append(obs.Calls, cl)
	}
	o.Observed = obs

	// ---- oracle: nothing outside dest may differ, whatever the unpacker returned
	type group struct {
		paths []string
	}
	groups := map[string]*group{}
	var order []string
	for _, ch := range changes {
		if ch.Effect == effDest {
			// The first entry of an archive describes the destination path itself: creating it,
			// or replacing it by the file/symlink/device the root entry is, is the unpacker's job.
			// Any later entry that changes the destination path itself is not.
			byRoot := false
			for i, cl := range res.Calls {
				for _, x := range cl.Changed {
					if x.Path == destRel {
						byRoot = i == 0
					}
				}
			}
			if byRoot {
				o.Class("dest-path-set-by-root-entry")
				continue
			}
		}
		if ch.Path == parentOf(destRel) && ch.Effect == effMeta && strings.HasPrefix(ch.Detail, "mtime ") && !strings.Contains(ch.Detail, ";") {
			// Only the mtime of dest's parent differs and nothing else in it: the destination path
			// was re-created under the same type (file over file, link over link). Fine when the
			// root entry did it, which is the only entry that may.
			last := -1
			for i, cl := range res.Calls {
				for _, x := range cl.Changed {
					if x.Path == ch.Path {
						last = i
					}
				}
			}
			deferredToo := false
			for _, x := range res.Final {
				deferredToo = deferredToo || x.Path == ch.Path
			}
			if last == 0 && !deferredToo {
				o.Class("dest-path-set-by-root-entry")
				continue
			}
		}
		// the entry that left the object in its final state: the last call that reported this
		// effect on the path, else the last call that touched the path at all
		call, anyCall := -1, -1
		for i, cl := range res.Calls {
			for _, x := range cl.Changed {
				if x.Path == ch.Path {
					anyCall = i
					if x.Effect == ch.Effect {
						call = i
					}
				}
			}
		}
		if call < 0 {
			call = anyCall
		}
		deferred := false
		for _, x := range res.Final { // done after the last entry (deferred directory mtimes)
			if x.Path == ch.Path && (x.Effect == ch.Effect || call < 0) {
				deferred = true
			}
		}
		pre := ""
		if c.PreLink != "" {
			pre = c.preName()
		}
		mech := mechanism(entries, res.Calls, call, c.Dest, pre)
		if deferred {
			call = len(res.Calls) - 1
			mech = mechanism(entries, res.Calls, call, c.Dest, pre)
			mech = mech[:strings.LastIndexByte(mech, ':')] + ":deferred"
		}
		sig := "C18:" + mech + ":" + ch.Effect
		g := groups[sig]
		if g == nil {
			g = &group{}
			groups[sig] = g
			order = append(order, sig)
		}
		by := "an entry the child could not attribute"
		if deferred {
			by = "work done after the last entry"
		} else if call >= 0 {
			by = fmt.Sprintf("entry #%d (%s %q)", call, res.Calls[call].Kind, shortName(res.Calls[call].Name))
		}
		g.paths = append(g.paths, fmt.Sprintf("/%s [%s] by %s", ch.Path, ch.Detail, by))
	}
	sort.Strings(order)
	for _, sig := range order {
		o.Fail(sig, "%s over %v returned %s but outside the destination /%s: %s", c.Path, shape, obs.Result, destRel, strings.Join(groups[sig].paths, "; "))
	}
	return o
}

// Name kinds and routes that make up a signature "C18:<name kind>:<route>:<effect>".
var (
	sigKinds  = []string{"dotdot-name", "slash-in-name", "absolute-name", "self-slash-name", "nameless-entry", "empty-name", "dot-name", "dir-over-symlink", "entry-behind-symlink-root", "dest-is-symlink", "dest-became-symlink", "entry-over-symlink", "symlink-at-helper-name", "plain-name", "unattributed"}
	sigRoutes = []string{"lexical", "via-symlink", "own-link-followed", "link-kept-and-followed", "helper-followed", "self", "deferred", "unknown"}
)

// mechanism names how entry #call got outside: the route (lexical = the joined path itself
// leaves dest; via-symlink = the path stays below dest lexically but crosses a symlink the
// archive made; own-link-followed = a symlink entry whose own, freshly made link was followed;
// self = the entry's own path is dest; deferred = work done after the last entry) and the kind
// of raw name that opened it
// (looked for in the entry itself, then in earlier entries from the latest backwards).
// helperLinkBefore: an earlier symlink entry in the same directory (or the link left in dest
// before) is named like this entry plus a temp-file affix.
func helperLinkBefore(calls []callRec, call int, preName string) bool {
	dir, base := filepath.Split(calls[call].Name)
	if preName != "" && dir == "" && affixKind(preName, base) != "" {
		return true
	}
	for i := 1; i < call; i++ {
		d, b := filepath.Split(calls[i].Name)
		if calls[i].Kind == "sym" && calls[i].Err == "" && d == dir && affixKind(b, base) != "" {
			return true
		}
	}
	return false
}

func mechanism(entries []Op, calls []callRec, call int, destState, preName string) string {
	if call < 0 || call >= len(calls) || call >= len(entries) {
		return "unattributed:unknown"
	}
	p := calls[call].Name
	lexical := p == ".." || strings.HasPrefix(p, "../")
	pick := func(match func(o Op) string) string {
		for i := call; i >= 1; i-- {
			if k := match(entries[i]); k != "" {
				return k
			}
		}
		return ""
	}
	if lexical {
		k := pick(func(o Op) string {
			n := o.fullName()
			switch {
			case o.NoName || !hasDotDot(n):
				return ""
			case n == "..":
				return "dotdot-name"
			case strings.HasPrefix(n, "/"):
				return "absolute-name"
			}
			return "slash-in-name"
		})
		if k == "" {
			k = "plain-name"
		}
		return k + ":lexical"
	}
	route := "self"
	if calls[call].Cross != "" {
		route = "via-symlink"
	}
	k := pick(func(o Op) string {
		n := o.fullName()
		switch {
		case o.NoName:
			return "nameless-entry"
		case n == "":
			return "empty-name"
		case n == ".":
			return "dot-name"
		case n == "..": // inside a directory: names the parent, possibly dest itself
			return "dotdot-name"
		case selfSlash(n):
			return "self-slash-name"
		case strings.HasPrefix(n, "/"):
			return "absolute-name"
		case strings.Contains(n, "/"):
			return "slash-in-name"
		}
		return ""
	})
	if k == "" {
		switch {
		case route == "via-symlink" && calls[call].Cross == "." && entries[0].K == "sym" && calls[0].Err == "":
			k = "entry-behind-symlink-root" // the archive's root is a symlink and a later entry was resolved through it
		case route == "via-symlink" && calls[call].Cross == "." && destState == "symlink":
			k = "dest-is-symlink" // the destination was a symlink before and an entry was resolved through it
		case route == "via-symlink" && calls[call].Cross == ".":
			k = "dest-became-symlink"
		case route == "via-symlink":
			k = "dir-over-symlink"
		case calls[call].Kind != "sym" && calls[call].Over != "":
			k, route = "entry-over-symlink", "link-kept-and-followed"
		case helperLinkBefore(calls, call, preName):
			k, route = "symlink-at-helper-name", "helper-followed"
		case calls[call].Kind == "sym":
			k, route = "plain-name", "own-link-followed"
		default:
			k = "plain-name"
		}
	}
	return k + ":" + route
}

// ---------------------------------------------------------------------------- generator

var (
	plainNames = []string{"a", "b", "d", "f", "l", "x", "victim", "outside", "sib", "abs", "sub"}
	tails      = []string{"victim", "new", "outside/f", "outside/new", "outside/sub", "outside", "vlink", "sib/new", "sib", "x"}
	symTargets = []string{"../../outside", "../outside", "../../../outside", "..", "../..", ".", "/sb/outside", "/outside",
		"/sb/l1/l2/outside", "/sb/l1/l2/l3/outside", "/", "/abs", "/sb/l1/l2/l3", "../sib", "../victim", "/victim", "a", "nonexistent",
		"/sb/l1/l2/l3/sib", "../../../../../outside", "../xvictim", "../../xvictim", "/sb/l1/xvictim", "/xvictim", "../../outside/f", "/abs/x", "/sb/victim"}
	// symlink targets that name an existing object outside dest from any nesting depth used here
	existingOutside = map[string]bool{"../../outside": true, "../../../outside": true, "../..": true, "/sb/outside": true,
		"/outside": true, "/sb/l1/l2/outside": true, "/sb/l1/l2/l3/outside": true, "/": true, "/abs": true, "/sb/l1/l2/l3": true, "/victim": true,
		"/sb/l1/l2/l3/sib": true, "../../../../../outside": true, "../../xvictim": true, "/sb/l1/xvictim": true, "/xvictim": true, "../../outside/f": true,
		"/abs/x": true, "/sb/victim": true}
	xattrKeys  = []string{"user.c18", "trusted.c18", "trusted.c18", "user.sentinel", "trusted.sentinel"}
	entryKinds = []string{"file", "file", "file", "dir", "dir", "sym", "dev"}
	// targets of a symlink that sits at the destination path (relative ones resolve from dest's parent)
	destLinkTargets = []string{"outside", "outside", "../outside", "../../outside", "/sb/outside", "/outside", "/abs", "sib", "realdest", "realdest",
		"victim", "xvictim", "/victim", "nonexistent", ".", "..", "/"}
	belowSym = []string{"x", "f", "sub", "sub/x", "sub/g", "new/y", ".", ""}
)

func genAttrs(t *rapid.T, o *Op) {
	o.Perm = rapid.SampledFrom([]uint32{0o644, 0o755, 0o700, 0o777, 0o4755, 0o1777, 0o600, 0}).Draw(t, "perm")
	o.UID = rapid.SampledFrom([]int{0, 1234, 1234, 65}).Draw(t, "uid")
	o.GID = rapid.SampledFrom([]int{0, 4321, 4321, 66}).Draw(t, "gid")
	o.Mtime = rapid.SampledFrom([]int64{0, 1_234_567_890, 1_234_567_890, 86400}).Draw(t, "mtime")
	xprob := 6
	if o.K == "sym" {
		xprob = 2
	}
	if rapid.IntRange(0, xprob).Draw(t, "xattr") == 0 {
		for i, n := 0, rapid.IntRange(1, 2).Draw(t, "nx"); i < n; i++ {
			o.Xattrs = append(o.Xattrs, XA{Key: rapid.SampledFrom(xattrKeys).Draw(t, "xkey"), Val: rapid.SampledFrom([]string{"pwned", "", "orig"}).Draw(t, "xval")})
		}
	}
	if rapid.IntRange(0, 7).Draw(t, "modetype") == 0 {
		o.ModeType = rapid.SampledFrom([]string{"lnk", "lnk", "lnk", "reg", "dir", "chr", "blk", "fifo", "sock", "none"}).Draw(t, "modetypev")
	}
	switch o.K {
	case "file":
		o.Size = rapid.SampledFrom([]int{0, 1, 5, 5, 100, 2000}).Draw(t, "size")
		o.Seed = uint64(rapid.IntRange(1, 9).Draw(t, "seed"))
	case "dev":
		o.DevType = rapid.SampledFrom([]string{"chr", "chr", "blk", "fifo", "reg", "dir"}).Draw(t, "devtype")
		nums := rapid.SampledFrom([][2]uint64{{0, 0}, {0, 0}, {1, 3}, {1, 3}, {devMajor, 7}, {devMajor, 5}, {devMajor, 0}}).Draw(t, "devnums")
		o.Major, o.Minor = nums[0], nums[1]
	}
}

// genName draws a raw name of the given kind into o.
func genName(t *rapid.T, kind string, syms []string, o *Op) {
	switch kind {
	case "plain":
		o.Name = rapid.SampledFrom(plainNames).Draw(t, "plain")
	case "dotdot":
		o.Name = ".."
	case "dotdot-prefix":
		o.Name = strings.Repeat("../", rapid.IntRange(1, 7).Draw(t, "up")) + rapid.SampledFrom(tails).Draw(t, "tail")
	case "inner-dotdot":
		base := rapid.SampledFrom([]string{"a", "a/b", "l", ".", "outside", "x/y/z"}).Draw(t, "base")
		o.Name = base + "/" + strings.Repeat("../", rapid.IntRange(1, 9).Draw(t, "up")) + rapid.SampledFrom(tails).Draw(t, "tail")
	case "absolute":
		o.Name = "/" + rapid.SampledFrom([]string{"abs/x", "abs/new", "victim", "sb/victim", "sb/outside/new", "outside/new",
			"sb/l1/l2/l3/victim", "x", "abs", "/x", "../victim", "../../../../../../victim", "a", "/a", "new", "./x"}).Draw(t, "abs")
	case "slash":
		if len(syms) > 0 && rapid.IntRange(0, 2).Draw(t, "usesym") > 0 {
			o.Name = rapid.SampledFrom(syms).Draw(t, "sym") + "/" + rapid.SampledFrom(belowSym).Draw(t, "below")
		} else {
			o.Name = rapid.SampledFrom([]string{"a/b", "a/b/c", "l/x", "l/sub", "l/sub/x", "l/f", "a//b", "a/", "l/", "a/./b", "d/x", "a//", "x/", "x/.", "new/"}).Draw(t, "slash")
		}
	case "empty":
		o.Name = ""
	case "dot":
		o.Name = "."
	case "dot-slash":
		o.Name = "./" + rapid.SampledFrom([]string{"x", "l/x", "../victim", "a", ".", "./x", "../../outside/new"}).Draw(t, "ds")
	case "long":
		o.Name = rapid.SampledFrom([]string{"n", "n", "a/", "../", "./"}).Draw(t, "unit")
		o.Rep = rapid.SampledFrom([]int{256, 257, 300, 1400, 2100, 4500}).Draw(t, "rep")
	case "symlink-name":
		if len(syms) > 0 {
			o.Name = rapid.SampledFrom(syms).Draw(t, "sym")
		} else {
			o.Name = "l"
		}
	case "nameless":
		o.NoName = true
	case "self-slash":
		o.Name = rapid.SampledFrom([]string{"/", "/", "/", "/", "//", "/.", "./", ".//", "/./", "///", "././", "//."}).Draw(t, "selfslash")
	case "nul":
		o.Name = rapid.SampledFrom([]string{"x\x00y", "\x00", "..\x00", "../victim\x00", "a\x00/../../victim", "\x00/../victim"}).Draw(t, "nul")
	}
}

var allNameKinds = []string{"plain", "plain", "plain", "plain", "dotdot", "dotdot-prefix", "dotdot-prefix", "inner-dotdot", "absolute",
	"slash", "slash", "empty", "dot", "dot-slash", "long", "symlink-name", "nameless", "nul", "self-slash"}

func genEntry(t *rapid.T, kinds []string, nameKinds []string, syms []string) Op {
	var o Op
	o.K = rapid.SampledFrom(kinds).Draw(t, "k")
	genName(t, rapid.SampledFrom(nameKinds).Draw(t, "namekind"), syms, &o)
	if o.K == "sym" {
		o.Target = rapid.SampledFrom(symTargets).Draw(t, "target")
	}
	genAttrs(t, &o)
	return o
}

func plainEntry(t *rapid.T, k, name string) Op {
	o := Op{K: k, Name: name}
	if k == "sym" {
		o.Target = rapid.SampledFrom(symTargets).Draw(t, "target")
	}
	genAttrs(t, &o)
	return o
}

var selfKinds = []string{"nameless", "empty", "dot", "self-slash", "self-slash", "self-slash"}

func genCase(t *rapid.T) Case {
	var c Case
	c.Path = rapid.SampledFrom([]string{"catar", "catar", "index"}).Draw(t, "path")
	c.Workers = rapid.SampledFrom([]int{1, 2, 4}).Draw(t, "workers")
	c.NoSameOwner = rapid.IntRange(0, 9).Draw(t, "nso") == 0
	c.NoSamePerm = rapid.IntRange(0, 9).Draw(t, "nsp") == 0
	c.Unclosed = rapid.SampledFrom([]int{0, 0, 0, 0, 1, 9}).Draw(t, "unclosed")
	if rapid.IntRange(0, 5).Draw(t, "prelink") == 0 {
		c.PreLink = rapid.SampledFrom(symTargets).Draw(t, "prelinktarget")
	}

	// who unpacks: mostly root, sometimes an unprivileged user (then mostly without owner restoration,
	// else every entry is given the user's own ids so that chown succeeds)
	if rapid.IntRange(0, 4).Draw(t, "unpriv") == 0 {
		c.Unpriv = true
		c.NoSameOwner = rapid.IntRange(0, 4).Draw(t, "unpriv-nso") > 0
	}
	// state of the destination path
	switch rapid.SampledFrom([]string{"", "", "", "", "", "", "nonempty", "absent", "absent", "file", "symlink", "symlink"}).Draw(t, "dest") {
	case "nonempty":
		c.Dest = "nonempty"
	case "absent":
		c.Dest, c.PreLink = "absent", ""
	case "file":
		c.Dest, c.PreLink = "file", ""
	case "symlink":
		c.Dest, c.PreLink = "symlink", ""
		c.DestLink = rapid.SampledFrom(destLinkTargets).Draw(t, "destlink")
	}
	// kind of the root entry: mostly a directory
	if rk := rapid.SampledFrom([]string{"dir", "dir", "dir", "dir", "dir", "dir", "dir", "dir", "sym", "sym", "sym", "file", "dev", "named-dir"}).Draw(t, "root"); rk != "dir" {
		r := Op{K: rk}
		if rk == "named-dir" {
			r.K, r.Name = "dir", rapid.SampledFrom([]string{"r", "outside", "..", "l"}).Draw(t, "rootname")
		}
		if r.K == "sym" {
			r.Target = rapid.SampledFrom(destLinkTargets).Draw(t, "roottarget")
		}
		genAttrs(t, &r)
		if r.K == "sym" && rapid.IntRange(0, 2).Draw(t, "rootxattr") > 0 {
			r.Xattrs = nil
		}
		c.Root = &r
		if r.K != "dir" && rapid.IntRange(0, 3).Draw(t, "behind-root") > 0 {
			// entries behind a root that is no directory: named, nameless, goodbyes, directories
			var ops []Op
			for i, n := 0, rapid.IntRange(1, 5).Draw(t, "n"); i < n; i++ {
				switch rapid.IntRange(0, 7).Draw(t, "what") {
				case 0:
					ops = append(ops, Op{K: "bye"})
				case 1:
					ops = append(ops, genEntry(t, entryKinds, []string{"nameless"}, nil))
				case 2:
					ops = append(ops, genEntry(t, entryKinds, allNameKinds, nil))
				default:
					ops = append(ops, plainEntry(t, rapid.SampledFrom(entryKinds).Draw(t, "bk"), rapid.SampledFrom([]string{"pwned", "f", "sub", "victim", "xvictim"}).Draw(t, "bn")))
				}
			}
			c.Ops = ops
			return ownIDs(c)
		}
	}

	// any nesting depth: the scenario sits inside 0..3 plain directories
	wrap := rapid.SampledFrom([]int{0, 0, 0, 1, 1, 2, 3}).Draw(t, "wrap")
	var ops []Op
	for i := 0; i < wrap; i++ {
		ops = append(ops, plainEntry(t, "dir", rapid.SampledFrom([]string{"w", "a", "l", "d"}).Draw(t, "wrapname")))
	}
	// optional plain noise in front (so that names like "a/b" find an "a")
	for i, n := 0, rapid.IntRange(0, 2).Draw(t, "pre"); i < n; i++ {
		k := rapid.SampledFrom([]string{"dir", "file", "sym"}).Draw(t, "prek")
		ops = append(ops, plainEntry(t, k, rapid.SampledFrom([]string{"a", "l", "d", "abs"}).Draw(t, "prename")))
		if k == "dir" && rapid.Bool().Draw(t, "preclose") {
			ops = append(ops, Op{K: "bye"})
		}
	}
	var syms []string
	if c.PreLink != "" {
		syms = append(syms, "l")
	}
	for _, o := range ops {
		if o.K == "sym" {
			syms = append(syms, o.Name)
		}
	}

	switch rapid.SampledFrom([]string{"random", "random", "sym-child", "sym-child", "sym-dir", "replace", "self", "self", "dotdot-dir", "dotdot-entry", "dotdot-entry", "absolute", "long", "same-name", "same-name", "same-name", "after-root-bye", "link-then-node", "link-then-node", "dir-again", "dir-again", "dir-again", "sibling", "sibling", "sibling", "type-by-mode", "type-by-mode"}).Draw(t, "scenario") {
	case "type-by-mode": // an object, then an entry of the same name whose ELEMENTS make it another kind but whose mode carries the type bits of the object in place
		name := "x"
		tg := rapid.SampledFrom([]string{"/sb/outside", "/sb/outside", "../outside", "/sb/l1/uoutside", "../uoutside", "/outside", "nonexistent", "/sb/l1/xvictim"}).Draw(t, "tbmtarget")
		want := "lnk"
		if len(ops) == 0 && wrap == 0 && rapid.IntRange(0, 3).Draw(t, "viaprelink") == 0 {
			name, c.PreLink, c.Dest, c.DestLink = "l", tg, "", "" // the link was left by an earlier unpack
		} else {
			f := plainEntry(t, rapid.SampledFrom([]string{"sym", "sym", "sym", "sym", "file", "dev"}).Draw(t, "tbmfirst"), name)
			f.Xattrs = nil
			switch f.K {
			case "sym":
				f.Target = tg
			case "file":
				want = "reg"
			case "dev":
				want = map[string]string{"chr": "chr", "blk": "blk", "fifo": "fifo", "reg": "reg", "dir": "dir"}[f.DevType]
			}
			ops = append(ops, f)
			if rapid.IntRange(0, 5).Draw(t, "between") == 0 {
				ops = append(ops, plainEntry(t, "file", "other"))
			}
		}
		m := plainEntry(t, rapid.SampledFrom([]string{"dir", "dir", "dir", "dir", "file", "dev"}).Draw(t, "tbmsecond"), name)
		m.ModeType = want
		if rapid.IntRange(0, 5).Draw(t, "tbmother") == 0 {
			m.ModeType = rapid.SampledFrom([]string{"lnk", "reg", "chr", "fifo", "sock", "none"}).Draw(t, "tbmtype")
		}
		ops = append(ops, m)
		if m.K == "dir" {
			for i, n := 0, rapid.IntRange(1, 2).Draw(t, "tbminner"); i < n; i++ {
				e := plainEntry(t, rapid.SampledFrom([]string{"file", "file", "dir", "sym"}).Draw(t, "tbmik"), []string{"pwned", "in"}[i])
				ops = append(ops, e)
				if e.K == "dir" {
					ops = append(ops, Op{K: "bye"})
				}
			}
			ops = append(ops, Op{K: "bye"})
		}
	case "sibling": // a symlink where a helper file of the unpacker for the next entry would be (name + affix)
		affs := append([]affix{}, idiomAffixes...)
		if obs := helperProbe().helpers; len(obs) > 0 && rapid.Bool().Draw(t, "use-observed") {
			affs = obs
		}
		for i, n := 0, rapid.IntRange(1, 2).Draw(t, "pairs"); i < n; i++ {
			base := rapid.SampledFrom([]string{"x", "f", "data", "d"}).Draw(t, "base")
			a := affs[rapid.IntRange(0, len(affs)-1).Draw(t, "affix")]
			tg := rapid.SampledFrom([]string{"/sb/l1/xvictim", "../victim", "/abs/x", "/sb/l1/uvictim", "../uvictim", "../xvictim", "/sb/outside", "../outside", "/sb/l1/uoutside", "nonexistent", "../newfile", "/sb/outside/new"}).Draw(t, "stargets")
			if i == 0 && len(ops) == 0 && wrap == 0 && rapid.IntRange(0, 3).Draw(t, "viaprelink") == 0 {
				c.PreLink, c.PreName, c.Dest, c.DestLink = tg, a.apply(base), "", "" // the link was left by an earlier unpack
			} else {
				l := plainEntry(t, rapid.SampledFrom([]string{"sym", "sym", "sym", "sym", "file", "dir"}).Draw(t, "helperkind"), a.apply(base))
				l.Target, l.Xattrs = tg, nil
				if l.K != "sym" {
					l.Target = ""
				}
				ops = append(ops, l)
				if l.K == "dir" {
					ops = append(ops, Op{K: "bye"})
				}
			}
			if rapid.IntRange(0, 5).Draw(t, "between") == 0 {
				ops = append(ops, plainEntry(t, "file", "other"))
			}
			m := plainEntry(t, rapid.SampledFrom([]string{"file", "file", "file", "file", "dir", "sym", "dev"}).Draw(t, "mainkind"), base)
			m.Xattrs = nil
			ops = append(ops, m)
			if m.K == "dir" {
				ops = append(ops, plainEntry(t, "file", "in"), Op{K: "bye"})
			}
		}
	case "dir-again": // a directory entry repeated under the same name with another mode, then entries inside it
		d := rapid.SampledFrom([]string{"d", "d", "a", "l"}).Draw(t, "dname")
		first := plainEntry(t, "dir", d)
		first.Perm, first.Xattrs = rapid.SampledFrom([]uint32{0o755, 0o755, 0o700, 0o777}).Draw(t, "firstmode"), nil
		ops = append(ops, first)
		for i, n := 0, rapid.IntRange(1, 2).Draw(t, "inner"); i < n; i++ {
			e := plainEntry(t, rapid.SampledFrom([]string{"sym", "sym", "sym", "file", "dir"}).Draw(t, "ik"), []string{"x", "y"}[i])
			e.Xattrs = nil
			if e.K == "sym" {
				e.Target = rapid.SampledFrom(append(append([]string{}, userTargets...), "/sb/l1/xvictim", "../../victim", "/sb/outside", "../../outside/f")).Draw(t, "itarget")
			}
			ops = append(ops, e)
			if e.K == "dir" {
				ops = append(ops, Op{K: "bye"})
			}
		}
		ops = append(ops, Op{K: "bye"})
		if rapid.IntRange(0, 4).Draw(t, "between") == 0 {
			ops = append(ops, plainEntry(t, "file", "other"))
		}
		for r, nr := 0, rapid.IntRange(1, 2).Draw(t, "repeats"); r < nr; r++ {
			again := plainEntry(t, "dir", d)
			again.Perm, again.Xattrs = rapid.SampledFrom([]uint32{0o555, 0o555, 0o555, 0o500, 0, 0o755, 0o1555}).Draw(t, "againmode"), nil
			ops = append(ops, again)
			for i, n := 0, rapid.IntRange(1, 2).Draw(t, "inner2"); i < n; i++ {
				e := plainEntry(t, rapid.SampledFrom([]string{"file", "file", "file", "sym", "dev", "dir"}).Draw(t, "ik2"), rapid.SampledFrom([]string{"x", "x", "x", "y", "z"}).Draw(t, "in2"))
				e.Xattrs = nil
				if e.K == "sym" {
					e.Target = rapid.SampledFrom(userTargets).Draw(t, "itarget2")
				}
				ops = append(ops, e)
				if e.K == "dir" {
					ops = append(ops, Op{K: "bye"})
				}
			}
			ops = append(ops, Op{K: "bye"})
		}
	case "link-then-node": // a symlink to an outside node or file, then a DEVICE entry of the same name that "is" that node
		name := "x"
		tg := rapid.SampledFrom(nodeTargets).Draw(t, "nodetarget")
		if len(ops) == 0 && wrap == 0 && rapid.IntRange(0, 2).Draw(t, "viaprelink") == 0 {
			name, c.PreLink, c.Dest, c.DestLink = "l", tg, "", "" // the link was left by an earlier unpack
		} else {
			o := plainEntry(t, "sym", name)
			o.Target, o.Xattrs = tg, nil
			ops = append(ops, o)
			if rapid.IntRange(0, 5).Draw(t, "between") == 0 {
				ops = append(ops, plainEntry(t, "file", "other"))
			}
		}
		d := plainEntry(t, "dev", name)
		if dt, ma, mi, ok := nodeOf(tg); ok && rapid.IntRange(0, 4).Draw(t, "match") > 0 {
			d.DevType, d.Major, d.Minor = dt, ma, mi
		}
		d.Xattrs = nil
		ops = append(ops, d)
		if rapid.Bool().Draw(t, "again") {
			ops = append(ops, plainEntry(t, rapid.SampledFrom([]string{"dev", "file", "sym"}).Draw(t, "againk"), name))
		}
	case "after-root-bye": // entries behind the goodbye of the root directory (and behind extra goodbyes)
		open := 1
		for _, o := range ops {
			if o.K == "dir" {
				open++
			} else if o.K == "bye" {
				open--
			}
		}
		for i, n := 0, open+rapid.IntRange(0, 2).Draw(t, "extra"); i < n; i++ {
			ops = append(ops, Op{K: "bye"})
		}
		for i, n := 0, rapid.IntRange(1, 4).Draw(t, "n"); i < n; i++ {
			if rapid.IntRange(0, 5).Draw(t, "morebye") == 0 {
				ops = append(ops, Op{K: "bye"})
				continue
			}
			ops = append(ops, genEntry(t, entryKinds, []string{"plain", "plain", "plain", "nameless", "dotdot-prefix", "slash"}, syms))
		}
	case "random":
		for i, n := 0, rapid.IntRange(1, 8).Draw(t, "n"); i < n; i++ {
			if rapid.IntRange(0, 7).Draw(t, "bye") == 0 {
				ops = append(ops, Op{K: "bye"})
				continue
			}
			o := genEntry(t, entryKinds, allNameKinds, syms)
			if o.K == "sym" && nameKind(o) == "plain" {
				syms = append(syms, o.Name)
			}
			ops = append(ops, o)
		}
	case "sym-child": // l -> target, then an entry named l/<something>
		l := rapid.SampledFrom([]string{"l", "a", "d"}).Draw(t, "l")
		ops = append(ops, plainEntry(t, "sym", l))
		for i, n := 0, rapid.IntRange(1, 3).Draw(t, "n"); i < n; i++ {
			o := genEntry(t, entryKinds, []string{"slash"}, []string{l})
			ops = append(ops, o)
		}
	case "sym-dir": // l -> target, then a directory entry l with children
		l := rapid.SampledFrom([]string{"l", "a", "d"}).Draw(t, "l")
		ops = append(ops, plainEntry(t, "sym", l), plainEntry(t, "dir", l))
		ops = append(ops, genEntry(t, entryKinds, []string{"plain"}, nil), Op{K: "bye"})
	case "replace": // the same name as directory, file, symlink, device in some order, then children
		d := rapid.SampledFrom([]string{"d", "a", "l"}).Draw(t, "d")
		for i, n := 0, rapid.IntRange(2, 5).Draw(t, "n"); i < n; i++ {
			k := rapid.SampledFrom([]string{"dir", "file", "sym", "dev", "dir"}).Draw(t, "rk")
			ops = append(ops, plainEntry(t, k, d))
			if k == "dir" {
				if rapid.Bool().Draw(t, "child") {
					ops = append(ops, genEntry(t, entryKinds, []string{"plain"}, nil))
				}
				if i < n-1 || rapid.Bool().Draw(t, "close") {
					ops = append(ops, Op{K: "bye"})
				}
			}
		}
	case "same-name": // 3+ entries of one directory under the same name (or names that are prefixes of each other)
		names := rapid.SampledFrom([][]string{{"d"}, {"d"}, {"d"}, {"d", "d2", "d.x"}, {"d", "d2"}, {"a", "ab"}, {"l"}}).Draw(t, "names")
		pattern := rapid.SampledFrom([][]string{{"dir", "file", "sym"}, {"dir", "file", "sym"}, {"dir", "file", "sym"}, {"dir", "sym"}, {"file", "sym", "file"},
			{"dir", "file", "sym", "dir"}, {"file", "sym", "dir"}, {"dir", "dir", "file", "sym"}, {"sym", "file", "sym"}, nil}).Draw(t, "pattern")
		if pattern == nil {
			for i, n := 0, rapid.IntRange(3, 6).Draw(t, "n"); i < n; i++ {
				pattern = append(pattern, rapid.SampledFrom([]string{"dir", "file", "sym", "sym", "dev"}).Draw(t, "pk"))
			}
		}
		outsideTargets := []string{"../../outside", "/sb/outside", "/sb/l1/l2/outside", "/outside", "/abs", "../..", "/sb/l1/l2/l3/sib",
			"../../xvictim", "/sb/l1/xvictim", "/xvictim", "/victim", "/abs/x", "../../outside/f", "/sb/victim", "../victim", "../outside"}
		for i, k := range pattern {
			o := plainEntry(t, k, names[rapid.IntRange(0, len(names)-1).Draw(t, "ni")])
			if k == "sym" {
				o.Target = rapid.SampledFrom(outsideTargets).Draw(t, "outside-target")
				o.Xattrs = nil
			}
			if k == "dir" {
				o.Mtime = 1_300_000_000 + int64(i)*86_400 + int64(rapid.IntRange(1, 999).Draw(t, "dm")) // non-epoch, distinct
				ops = append(ops, o)
				if rapid.IntRange(0, 3).Draw(t, "child") == 0 {
					ops = append(ops, genEntry(t, []string{"file", "sym", "dir"}, []string{"plain"}, nil))
					if ops[len(ops)-1].K == "dir" {
						ops = append(ops, Op{K: "bye"})
					}
				}
				ops = append(ops, Op{K: "bye"})
				continue
			}
			ops = append(ops, o)
		}
	case "self": // entries that name the current directory itself: replace it by a file, then by a symlink, then add children
		if rapid.Bool().Draw(t, "indir") {
			ops = append(ops, plainEntry(t, "dir", "d"))
		}
		if rapid.IntRange(0, 3).Draw(t, "leadfile") > 0 { // a nameless entry is only decodable behind a file or a goodbye
			ops = append(ops, plainEntry(t, "file", "f"))
		}
		for i, n := 0, rapid.IntRange(1, 3).Draw(t, "n"); i < n; i++ {
			k := []string{"file", "sym", "dev", "dir"}[rapid.SampledFrom([]int{0, 1, 1, 2, 3}).Draw(t, "sk")]
			if i == 0 && rapid.IntRange(0, 3).Draw(t, "first-file") > 0 {
				k = "file"
			}
			if i == 1 && rapid.IntRange(0, 3).Draw(t, "second-sym") > 0 {
				k = "sym"
			}
			ops = append(ops, genEntry(t, []string{k}, selfKinds, nil))
		}
		for i, n := 0, rapid.IntRange(1, 2).Draw(t, "kids"); i < n; i++ {
			ops = append(ops, genEntry(t, entryKinds, []string{"plain"}, nil))
		}
	case "dotdot-dir": // directories named "..", then an entry with a sentinel's name
		for i, n := 0, rapid.IntRange(1, 6).Draw(t, "up"); i < n; i++ {
			o := Op{K: "dir", Name: ".."}
			genAttrs(t, &o)
			ops = append(ops, o)
		}
		o := genEntry(t, entryKinds, []string{"plain"}, nil)
		o.Name = rapid.SampledFrom([]string{"victim", "outside", "vlink", "new", "sib", "sub"}).Draw(t, "sentinel")
		ops = append(ops, o)
		if o.K == "dir" {
			ops = append(ops, genEntry(t, entryKinds, []string{"plain"}, nil))
		}
	case "dotdot-entry":
		ops = append(ops, genEntry(t, entryKinds, []string{"dotdot-prefix", "inner-dotdot", "dot-slash", "dotdot"}, syms))
		if rapid.Bool().Draw(t, "more") {
			ops = append(ops, genEntry(t, entryKinds, []string{"plain", "dotdot-prefix"}, syms))
		}
	case "absolute":
		switch rapid.IntRange(0, 2).Draw(t, "absvariant") {
		case 1:
			ops = append(ops, plainEntry(t, "dir", "abs"), Op{K: "bye"})
		case 2:
			o := plainEntry(t, "sym", "abs")
			o.Target = rapid.SampledFrom([]string{"/abs", "/", "/sb", "../../../../../abs"}).Draw(t, "abstarget")
			ops = append(ops, o)
		}
		ops = append(ops, genEntry(t, entryKinds, []string{"absolute"}, nil))
	case "long":
		ops = append(ops, genEntry(t, entryKinds, []string{"long"}, nil))
	}
	// trailing noise
	for i, n := 0, rapid.IntRange(0, 2).Draw(t, "post"); i < n; i++ {
		if rapid.IntRange(0, 3).Draw(t, "postbye") == 0 {
			ops = append(ops, Op{K: "bye"})
		} else {
			ops = append(ops, genEntry(t, entryKinds, allNameKinds, syms))
		}
	}
	c.Ops = ops
	return ownIDs(c)
}

// ownIDs gives every entry the unprivileged user's ids when that user unpacks with owner
// restoration on (chown to anything else would just fail with EPERM at the first entry).
func ownIDs(c Case) Case {
	if !c.Unpriv || c.NoSameOwner {
		return c
	}
	for i := range c.Ops {
		c.Ops[i].UID, c.Ops[i].GID = unprivUID, unprivGID
	}
	if c.Root == nil {
		c.Root = &Op{K: "dir", Perm: 0o755, Mtime: rootMtimeNs / 1_000_000_000}
	}
	c.Root.UID, c.Root.GID = unprivUID, unprivGID
	return c
}

// outside objects that belong to the unprivileged user (as seen from dest/d/<entry> for the relative ones)
var userTargets = []string{"/sb/l1/uvictim", "../../uvictim", "../../../uvictim", "/uvictim", "/sb/uoutside/f", "../../uoutside/f", "/sb/l1/uoutside", "../../uoutside"}

// ---------------------------------------------------------------------------- spec and tests

var spec = &hx.Spec[Case]{
	ID:    "C18",
	Level: "exploration",
	Rule: "cases = hostile catar element sequences (own encoder, names verbatim, well-formed goodbye tables) unpacked by UnTar(LocalFS) or UnTarIndex(LocalStore) " +
		"in a chrooted child, the root entry being a directory, file, symlink or device and the destination path being a directory, absent, a file or a symlink; non-trivial = the unpacker was handed (all earlier entries accepted) at least one entry whose name has a '..' component or a '/', " +
		"or an entry whose path crosses a symlink made earlier by the same archive (or left in dest by an earlier unpack), or a directory, a file and a symlink accepted under one name in one directory (work deferred for the directory then meets the link), or a named entry behind an accepted root symlink, or a DEVICE entry over a same-name symlink whose target has the entry's type and device numbers; distinct by (path, sequence of entry kinds, names, symlink targets)",
	Assumptions: []string{
		"oracle: lstat fields (type, mode, owner, mtime), link targets, device numbers and file contents of every object in the chroot tree outside dest are equal before and after; directory mtime differences explained by a reported child are folded into that child; atime and ctime are not compared; extended attributes are compared (llistxattr/lgetxattr on the object itself, as root: user.*, trusted.*, security.*)",
		"the destination path is an empty directory (optionally holding one symlink 'l', as an earlier unpack could leave it), a directory with content, absent, a file, or a symlink; nothing but the unpacker touches the tree",
		"'outside' is everything but the destination path: when the destination is or becomes a symlink, objects reached through it are outside; the first entry of the archive may create or replace the destination path itself (a root symlink alone is no violation), later entries may not",
		"the child records FilesystemWriter calls through a pass-through wrapper around desync.LocalFS (used for attribution and class counting only, the verdict is the parent's snapshot difference)",
		"helper names: once per process a plain archive is unpacked by a child under strace (-e trace=%file); every path below dest that is not an entry's own path is turned into a prefix/suffix pattern and planted as a symlink next to later entries, together with a dictionary of temp-file idioms; a probe that cannot run leaves the class helper-name-probe:ran empty (inconclusive)",
		"archives are chunked in the parent with desync.ChunkStream (min 64, avg 192, max 768) into an uncompressed LocalStore inside the chroot tree",
		"the parent and most children run as root (chown, mknod succeed); 'unprivileged' children drop to uid/gid 4242 after the chroot, own the destination tree and the u* sentinels outside it, and get EPERM/EACCES like any user",
	},
	Required: []string{"path:catar", "path:index", "entry:mode-type-differs-from-elements", "same-name:symlink-then-dir-entry-with-symlink-mode",
		"name:dotdot", "name:dotdot-prefix", "name:inner-dotdot", "name:absolute", "name:slash", "name:empty", "name:dot", "name:dot-slash", "name:long",
		"name:symlink-name", "name:nameless", "name:self-slash", "symlink-then-entry", "absolute-symlink-target",
		"xattrs:sym", "xattrs:file", "xattrs:dir", "xattrs:sym:restored:target-exists-outside",
		"same-name:dir-then-file-then-symlink", "same-name:dir-then-file-then-symlink:target-exists-outside", "same-name:file-then-symlink-then-file",
		"same-name:symlink-then-device:numbers-match-target", "same-name:symlink-then-device:numbers-match-target:chr", "same-name:symlink-then-device:numbers-match-target:reg",
		"same-name:symlink-then-device:numbers-match-target:fifo", "same-name:symlink-then-device:numbers-match-target:blk", "same-name:prelink-then-device:numbers-match-target",
		"unprivileged-unpack", "unprivileged-unpack:owner-restoration-on", "dir-entry-repeated:mode-readonly", "dir-entry-repeated:mode-readonly:unprivileged",
		"symlink-then-file", "symlink-then-file:unlink-refused", "symlink-then-file:unlink-refused:link-to-outside",
		"sibling-name:tempfile-idiom", "sibling-name:tempfile-idiom:file", "helper-name-probe:ran",
		"same-name:dir-then-symlink(refused)", "same-name:prefix-names:dir-then-file-then-symlink", "same-name:length>=4", "outside:metadata-compared",
		"root:dir", "root:sym", "root:file", "root:dev", "root:non-dir:followed-by-named-entry", "root:non-dir:followed-by-nameless-entry", "root:sym:accepted:followed-by-named-entry",
		"after-root-goodbye:named-entry", "after-extra-goodbye:named-entry",
		"dest:empty-dir", "dest:nonempty-dir", "dest:absent", "dest:file", "dest:symlink-to-outside", "dest:symlink-to-inside",
		"entry:dir", "entry:file", "entry:sym", "entry:dev", "result:error", "result:nil", "entry-path-crosses-archive-symlink", "symlink-in-dest-before-the-run"},
	Gen: genCase,
	Run: run,
	// a case that never returns is a verdict (confirmed by a replay in a fresh process), not a timeout of the run
	Watchdog: hx.Pick(300*time.Second, 600*time.Second),
}

func TestMain(m *testing.M) {
	if os.Getenv("VERIF_CHILD") == "untar" {
		childMain() // never returns
		os.Exit(3)
	}
	hx.Main(m)
}

func TestRegress(t *testing.T) { t.Cleanup(dropTrees); hx.Regress(t, spec) }
func TestKnown(t *testing.T)   { t.Cleanup(dropTrees); hx.Known(t, spec) }
func TestReplay(t *testing.T)  { t.Cleanup(dropTrees); hx.Replay(t, spec) }

// runPool computes the outcomes with up to four children at a time, then feeds the cases to hx
// one after the other (hx sees a sequential run).
func runPool(t *testing.T, cases []Case) bool {
	outs := make([]hx.Outcome, len(cases))
	var wg sync.WaitGroup
	next := make(chan int)
	workers := 4
	if hx.Shards() > 1 { // the other shards run children at the same time
		workers = 2
	}
	for w := 0; w < workers; w++ {
		wg.Add(1)
		go func() {
			defer wg.Done()
			for i := range next {
				func() {
					defer func() {
						if r := recover(); r != nil {
							outs[i] = hx.Outcome{Violations: []hx.Violation{{Sig: "panic", Msg: fmt.Sprint(r)}}}
						}
					}()
					outs[i] = runReal(cases[i])
				}()
			}
		}()
	}
	for i := range cases {
		next <- i
	}
	close(next)
	wg.Wait()
	for i, c := range cases {
		cacheMu.Lock()
		cache[caseKey(c)] = outs[i]
		cacheMu.Unlock()
		if !hx.Case(t, spec, c) {
			return false
		}
	}
	return true
}

var enumNames = []Op{
	{Name: ".."}, {Name: "../victim"}, {Name: "../../victim"}, {Name: "../../../../../../victim"}, {Name: "../outside/new"}, {Name: "../outside/sub"},
	{Name: "../vlink"}, {Name: "../"}, {Name: "a/../../victim"}, {Name: "a/../../../outside/f"}, {Name: "./../victim"},
	{Name: "/abs/x"}, {Name: "/victim"}, {Name: "/../victim"}, {Name: "a/b"}, {Name: "a/"}, {Name: "a//b"},
	{Name: ""}, {Name: "."}, {Name: "./x"}, {Name: "./."}, {Name: "n", Rep: 256}, {Name: "a/", Rep: 2100}, {Name: "../", Rep: 1400}, {NoName: true}, {Name: "x"}, {Name: "x\x00y"}, {Name: "../victim\x00"}, {Name: "..\x00"},
	{Name: "/"}, {Name: "//"}, {Name: "/."}, {Name: "./"}, {Name: ".//"}, {Name: "/./"}, {Name: "/a"}, {Name: "//a"}, {Name: "a//"}, {Name: "x/"}, {Name: "x/."},
}

// names that stand for the directory being unpacked
var enumSelves = []Op{{NoName: true}, {Name: ""}, {Name: "."}, {Name: "/"}, {Name: "//"}, {Name: "/."}, {Name: "./"}, {Name: ".//"}}

// TestEnum: every listed name as every entry kind at several nesting depths; every listed
// symlink target followed by every kind of entry beneath/over the link; the
// replace-current-directory sequences.
func TestEnum(t *testing.T) {
	t.Cleanup(dropTrees)
	var cases []Case
	attr := func(o Op) Op {
		o.Perm, o.UID, o.GID, o.Mtime = 0o750, 1234, 4321, 1_234_567_890
		if o.K == "file" {
			o.Size, o.Seed = 5, 1
		}
		if o.K == "dev" && o.DevType == "" {
			o.DevType = "chr"
		}
		if o.K == "sym" && o.Target == "" {
			o.Target = "../../outside"
		}
		return o
	}
	wrapIn := func(depth int, ops ...Op) []Op {
		var out []Op
		for i := 0; i < depth; i++ {
			out = append(out, attr(Op{K: "dir", Name: "w"}))
		}
		return append(out, ops...)
	}
	paths := []string{"catar", "index"}
	n := 0
	pathFor := func() []string {
		n++
		if hx.Thorough() {
			return paths
		}
		return paths[n%2 : n%2+1]
	}
	for _, depth := range hx.Pick([]int{0, 2}, []int{0, 1, 2, 3}) {
		for _, nm := range enumNames {
			for _, k := range []string{"dir", "file", "sym", "dev"} {
				o := nm
				o.K = k
				ops := wrapIn(depth, attr(Op{K: "dir", Name: "a"}), Op{K: "bye"}, attr(o))
				if k == "dir" {
					ops = append(ops, attr(Op{K: "file", Name: "victim"}))
				}
				for _, p := range pathFor() {
					cases = append(cases, Case{Path: p, Ops: ops, Workers: 2})
				}
			}
		}
	}
	targets := hx.Pick([]string{"../../outside", "..", "/sb/outside", "/", "/abs", "../sib", "."}, symTargets)
	for _, tg := range targets {
		follow := [][]Op{
			{{K: "file", Name: "l/x"}}, {{K: "file", Name: "l/f"}}, {{K: "dir", Name: "l/sub"}, {K: "file", Name: "x"}}, {{K: "dev", Name: "l/x"}},
			{{K: "sym", Name: "l/f", Target: "/abs"}}, {{K: "dir", Name: "l"}, {K: "file", Name: "x"}}, {{K: "file", Name: "./l/x"}}, {{K: "dir", Name: "l/."}},
			{{K: "file", Name: "l"}, {K: "sym", Name: "l", Target: tg}, {K: "dir", Name: "l"}, {K: "file", Name: "x"}},
		}
		for _, f := range follow {
			ops := []Op{attr(Op{K: "sym", Name: "l", Target: tg})}
			for _, o := range f {
				ops = append(ops, attr(o))
			}
			for _, p := range pathFor() {
				cases = append(cases, Case{Path: p, Ops: ops, Workers: 1})
			}
		}
	}
	for _, self := range enumSelves {
		for _, inDir := range []bool{false, true} {
			for _, tg := range []string{"../outside", "/outside", "../../../../.."} {
				f, s := self, self
				f.K, s.K, s.Target = "file", "sym", tg
				var ops []Op
				if inDir {
					ops = append(ops, attr(Op{K: "dir", Name: "d"}))
				}
				// a nameless entry is only decodable behind a file or a goodbye: lead with a plain file
				ops = append(ops, attr(Op{K: "file", Name: "f"}), attr(f), attr(s), attr(Op{K: "file", Name: "x"}), attr(Op{K: "dir", Name: "sub"}))
				for _, p := range pathFor() {
					cases = append(cases, Case{Path: p, Ops: ops, Workers: 1})
				}
				// the same steps two directories further down, and symlink first / device in between
				if tg == "/outside" {
					d, v := self, self
					d.K, v.K = "dir", "dev"
					deep := wrapIn(2, attr(Op{K: "file", Name: "f"}), attr(f), attr(s), attr(Op{K: "file", Name: "x"}))
					other := []Op{attr(Op{K: "file", Name: "f"}), attr(v), attr(f), attr(s), attr(d), attr(Op{K: "dev", Name: "x"})}
					for _, p := range pathFor() {
						cases = append(cases, Case{Path: p, Ops: deep, Workers: 1}, Case{Path: p, Ops: other, Workers: 1})
					}
				}
			}
		}
	}
	// a symlink left in dest by an earlier unpack, then entries over/beneath it
	for _, tg := range targets {
		for _, f := range [][]Op{{{K: "dir", Name: "l"}, {K: "file", Name: "x"}}, {{K: "file", Name: "l/x"}}, {{K: "dir", Name: "l/sub"}},
			{{K: "file", Name: "l"}}, {{K: "dev", Name: "l"}}, {{K: "sym", Name: "l", Target: ".."}, {K: "dir", Name: "l"}, {K: "file", Name: "victim"}}} {
			var ops []Op
			for _, o := range f {
				ops = append(ops, attr(o))
			}
			for _, p := range pathFor() {
				cases = append(cases, Case{Path: p, Ops: ops, Workers: 1, PreLink: tg})
			}
		}
	}
	// entries carrying extended attributes; symlinks to existing objects outside dest (relative
	// and absolute-inside-chroot targets), owner/xattr restoration on (the library default)
	xtargets := hx.Pick([]string{"../xvictim", "../../outside", "/sb/l1/xvictim", "/sb/outside", "/victim", "/abs/x"},
		[]string{"../xvictim", "../victim", "../outside", "../../outside", "../../xvictim", "..", "/sb/l1/xvictim", "/sb/outside", "/victim", "/abs/x", "/abs", "/", "nonexistent"})
	for _, tg := range xtargets {
		for _, key := range []string{"user.c18", "trusted.c18", "user.sentinel", "trusted.sentinel"} {
			o := attr(Op{K: "sym", Name: "lx", Target: tg})
			o.Xattrs = []XA{{Key: key, Val: "pwned"}}
			for _, p := range pathFor() {
				cases = append(cases, Case{Path: p, Ops: []Op{o}, Workers: 1})
			}
		}
		o := attr(Op{K: "sym", Name: "lx", Target: tg})
		o.Xattrs = []XA{{Key: "trusted.c18", Val: "pwned"}, {Key: "trusted.sentinel", Val: "pwned"}}
		for _, p := range pathFor() {
			cases = append(cases, Case{Path: p, Ops: wrapIn(1, o), Workers: 1}, Case{Path: p, Ops: []Op{attr(Op{K: "file", Name: "lx"}), o, o}, Workers: 1})
		}
	}
	for _, k := range []string{"dir", "file", "dev"} {
		for _, key := range []string{"user.c18", "trusted.c18"} {
			o := attr(Op{K: k, Name: "xo"})
			o.Xattrs = []XA{{Key: key, Val: "v"}}
			for _, p := range pathFor() {
				cases = append(cases, Case{Path: p, Ops: []Op{attr(Op{K: "sym", Name: "xo", Target: "/sb/l1/xvictim"}), o}, Workers: 1})
			}
		}
	}
	// one name used by a directory, a file and a symlink in turn (and names that are prefixes of
	// each other), links to outside files and directories, directory mtimes non-epoch and distinct
	stargets := hx.Pick([]string{"/sb/l1/xvictim", "../../outside", "/sb/outside", "../victim", "/abs/x"},
		[]string{"/sb/l1/xvictim", "../../xvictim", "../victim", "/victim", "/abs/x", "../../outside/f", "../../outside", "../outside", "/sb/outside", "/outside", "/abs", "../..", "/", "nonexistent"})
	dirAt := func(name string, mtime int64) Op {
		o := attr(Op{K: "dir", Name: name})
		o.Mtime = mtime
		return o
	}
	for _, tg := range stargets {
		sym := func(name string) Op { return attr(Op{K: "sym", Name: name, Target: tg}) }
		file := func(name string) Op { return attr(Op{K: "file", Name: name}) }
		bye := Op{K: "bye"}
		seqs := [][]Op{
			{dirAt("d", 1_300_000_001), bye, file("d"), sym("d")},
			{dirAt("d", 1_300_000_002), file("in"), bye, file("d"), sym("d"), file("z")},
			{dirAt("d", 1_300_000_003), bye, sym("d")},
			{file("d"), sym("d"), file("d")},
			{file("d"), sym("d"), dirAt("d", 1_300_000_004), file("x")},
			{dirAt("d", 1_300_000_005), bye, file("d"), sym("d"), dirAt("d", 1_300_000_006), bye},
			{dirAt("d", 1_300_000_007), bye, file("d2"), sym("d2")},
			{dirAt("d", 1_300_000_008), bye, file("d2"), file("d"), sym("d")},
			{dirAt("d", 1_300_000_009), bye, file("d.x"), sym("d.x"), file("d"), sym("d")},
			{dirAt("d", 1_300_000_010), dirAt("d", 1_300_000_011), bye, file("d"), sym("d"), bye, file("d"), sym("d")},
			{dirAt("e", 1_300_000_012), bye, dirAt("d", 1_300_000_013), bye, file("e"), sym("e"), file("d"), sym("d")},
		}
		for i, sq := range seqs {
			for _, p := range pathFor() {
				cases = append(cases, Case{Path: p, Ops: sq, Workers: 1})
			}
			if i < 2 {
				for _, p := range pathFor() {
					cases = append(cases, Case{Path: p, Ops: wrapIn(2, sq...), Workers: 1})
				}
			}
		}
	}
	// a symlink to an outside node or file, then a DEVICE entry of the same name carrying the
	// type and numbers stat reports for the link's target (and one that differs): the link must
	// be replaced, never kept and followed. Link made by the archive or left in dest before.
	for _, tg := range hx.Pick([]string{"/sb/l1/cdev", "../../cdev", "/sb/bdev", "../fifo", "/sb/l1/l2/fifo", "/sb/l1/xvictim", "../victim", "/abs/x"}, nodeTargets) {
		dt, ma, mi, _ := nodeOf(tg)
		match := attr(Op{K: "dev", Name: "node", DevType: dt, Major: ma, Minor: mi})
		differ := match
		differ.Major, differ.Minor = devMajor, 5
		matchL, differL := match, differ
		matchL.Name, differL.Name = "l", "l"
		link := attr(Op{K: "sym", Name: "node", Target: tg})
		for _, p := range pathFor() {
			cases = append(cases,
				Case{Path: p, Workers: 1, Ops: []Op{link, match}},
				Case{Path: p, Workers: 1, Ops: []Op{link, differ}},
				Case{Path: p, Workers: 1, Ops: []Op{link, match, match, attr(Op{K: "file", Name: "node"})}},
				Case{Path: p, Workers: 1, PreLink: tg, Ops: []Op{matchL}},
				Case{Path: p, Workers: 1, PreLink: tg, Ops: []Op{differL}},
				Case{Path: p, Workers: 1, NoSameOwner: true, Ops: []Op{link, match}},
			)
		}
	}
	for _, p := range pathFor() { // absolute target, two directories down
		cases = append(cases, Case{Path: p, Workers: 1, Ops: wrapIn(2, attr(Op{K: "sym", Name: "node", Target: "/sb/l1/cdev"}), attr(Op{K: "dev", Name: "node", DevType: "chr", Major: 1, Minor: 3}))})
	}
	// root entry kinds x destination states x what follows the root
	type destState struct{ state, link string }
	dests := []destState{{"", ""}, {"nonempty", ""}, {"absent", ""}, {"file", ""}, {"symlink", "outside"}, {"symlink", "/sb/outside"}, {"symlink", "realdest"}}
	roots := []*Op{nil, {K: "file"}, {K: "dev", DevType: "fifo"}, {K: "dev", DevType: "reg"}, {K: "dir", Name: "r"}}
	for _, tg := range hx.Pick([]string{"outside", "/sb/outside", "../../outside", "xvictim", "realdest", "nonexistent"}, destLinkTargets) {
		roots = append(roots, &Op{K: "sym", Target: tg})
	}
	follows := [][]Op{
		{{K: "file", Name: "pwned"}},
		{{K: "dir", Name: "sub"}, {K: "file", Name: "x"}, {K: "bye"}, {K: "sym", Name: "l2", Target: "/abs"}},
		{{K: "file", NoName: true}, {K: "file", Name: "pwned"}},
		{{K: "bye"}, {K: "file", Name: "pwned"}, {K: "dev", Name: "xvictim"}},
		{},
	}
	if !hx.Thorough() {
		follows = [][]Op{follows[0], follows[1], follows[3]}
	}
	for _, r := range roots {
		for _, d := range dests {
			for _, f := range follows {
				var ops []Op
				for _, o := range f {
					ops = append(ops, attr(o))
				}
				c := Case{Ops: ops, Workers: 1, Dest: d.state, DestLink: d.link}
				if r != nil {
					rr := attr(*r)
					c.Root = &rr
				}
				for _, p := range pathFor() {
					c.Path = p
					cases = append(cases, c)
				}
			}
		}
	}
	// entries behind the goodbye of the root directory, behind extra goodbyes
	for _, d := range []destState{{"", ""}, {"absent", ""}, {"symlink", "outside"}} {
		for _, f := range [][]Op{
			{{K: "file", Name: "a"}, {K: "bye"}, {K: "file", Name: "x"}},
			{{K: "bye"}, {K: "bye"}, {K: "file", Name: "x"}, {K: "sym", Name: "l", Target: "../outside"}, {K: "file", Name: "l/x"}},
			{{K: "bye"}, {K: "dir", Name: "d"}, {K: "file", Name: "x"}, {K: "bye"}},
			{{K: "dir", Name: "d"}, {K: "bye"}, {K: "bye"}, {K: "bye"}, {K: "sym", Name: "d", Target: "../outside"}, {K: "dir", Name: "d"}, {K: "file", Name: "x"}},
			{{K: "bye"}, {K: "file", NoName: true}, {K: "sym", NoName: true, Target: "../outside"}, {K: "file", Name: "x"}},
		} {
			var ops []Op
			for _, o := range f {
				ops = append(ops, attr(o))
			}
			for _, p := range pathFor() {
				cases = append(cases, Case{Path: p, Ops: ops, Workers: 1, Dest: d.state, DestLink: d.link})
			}
		}
	}
	// a directory entry repeated with a read-only mode, then a file over the symlink that sits in
	// it: unpacked by the unprivileged user the unlink is refused (the seed C18-10 scenario),
	// the file must not be written through the link
	for _, tg := range hx.Pick([]string{"/sb/l1/uvictim", "../../uvictim", "/sb/uoutside/f", "/sb/l1/xvictim", "../../uoutside"}, append(append([]string{}, userTargets...), "/sb/l1/xvictim", "../../victim")) {
		for _, mode := range []uint32{0o555, 0o500, 0, 0o755} {
			d1, d2 := attr(Op{K: "dir", Name: "d"}), attr(Op{K: "dir", Name: "d"})
			d1.Perm, d2.Perm = 0o755, mode
			link := attr(Op{K: "sym", Name: "x", Target: tg})
			file := attr(Op{K: "file", Name: "x"})
			bye := Op{K: "bye"}
			seqs := [][]Op{{d1, link, bye, d2, file, bye}}
			if mode == 0o555 {
				fifo := attr(Op{K: "dev", Name: "x", DevType: "fifo"})
				seqs = append(seqs,
					[]Op{d1, link, bye, d2, link, bye},
					[]Op{d1, link, bye, d2, fifo, bye},
					[]Op{d1, attr(Op{K: "file", Name: "x"}), link, bye, d2, file, file, bye},
					[]Op{d1, link, bye, attr(Op{K: "file", Name: "other"}), d2, attr(Op{K: "dir", Name: "x"}), bye, bye})
			}
			for _, sq := range seqs {
				for _, p := range pathFor() {
					cases = append(cases, Case{Path: p, Workers: 1, Ops: sq, Unpriv: true, NoSameOwner: true})
				}
			}
			for _, p := range pathFor() {
				cases = append(cases, ownIDs(Case{Path: p, Workers: 1, Ops: append([]Op(nil), seqs[0]...), Unpriv: true}), Case{Path: p, Workers: 1, Ops: seqs[0]})
			}
		}
	}
	// the unprivileged user and the classic orders
	for _, f := range [][]Op{
		{{K: "sym", Name: "l", Target: "../uoutside"}, {K: "dir", Name: "l"}, {K: "file", Name: "x"}},
		{{K: "sym", Name: "l", Target: "/sb/l1/uvictim"}, {K: "file", Name: "l"}},
		{{K: "dir", Name: "d"}, {K: "bye"}, {K: "file", Name: "d"}, {K: "sym", Name: "d", Target: "../uoutside"}},
		{{K: "sym", Name: "x", Target: "../fifo"}, {K: "dev", Name: "x", DevType: "fifo"}},
		{{K: "file", Name: "../uvictim"}},
	} {
		var ops []Op
		for _, o := range f {
			ops = append(ops, attr(o))
		}
		for _, p := range pathFor() {
			cases = append(cases, Case{Path: p, Workers: 1, Ops: ops, Unpriv: true, NoSameOwner: true}, Case{Path: p, Workers: 1, Ops: ops, Unpriv: true, NoSameOwner: true, Dest: "nonempty", PreLink: "../uoutside"})
		}
	}
	// a symlink where a helper file for the next entry would be: every idiom (and every pattern
	// the probe saw the unpacker use) next to a file; a sample next to the other kinds and as a
	// link left in dest before
	affs := append(append([]affix{}, helperProbe().helpers...), idiomAffixes...)
	for i, a := range affs {
		observed := i < len(helperProbe().helpers)
		for _, tg := range []string{"/sb/l1/xvictim", "../outside"} {
			link := attr(Op{K: "sym", Name: a.apply("x"), Target: tg})
			for _, p := range pathFor() {
				cases = append(cases, Case{Path: p, Workers: 1, Ops: []Op{link, attr(Op{K: "file", Name: "x"})}})
			}
		}
		if observed || i%6 == 0 || hx.Thorough() {
			link := attr(Op{K: "sym", Name: a.apply("x"), Target: "/sb/l1/uvictim"})
			for _, p := range pathFor() {
				cases = append(cases,
					Case{Path: p, Workers: 1, Ops: wrapIn(1, link, attr(Op{K: "dir", Name: "x"}), attr(Op{K: "file", Name: "in"}), Op{K: "bye"})},
					Case{Path: p, Workers: 1, Ops: []Op{link, attr(Op{K: "sym", Name: "x", Target: "nowhere"}), attr(Op{K: "dev", Name: "x", DevType: "fifo"})}},
					Case{Path: p, Workers: 1, PreLink: "/sb/l1/uvictim", PreName: a.apply("x"), Ops: []Op{attr(Op{K: "file", Name: "x"})}},
					Case{Path: p, Workers: 1, Unpriv: true, NoSameOwner: true, Ops: []Op{link, attr(Op{K: "file", Name: "x"})}},
					Case{Path: p, Workers: 1, Ops: []Op{attr(Op{K: "file", Name: a.apply("x")}), link, attr(Op{K: "file", Name: "x"}), attr(Op{K: "file", Name: "x"})}},
				)
			}
		}
	}
	// every shard builds the same list and runs its share
	all := len(cases)
	var mine []Case
	for i, c := range cases {
		if i%hx.Shards() == hx.Shard() {
			mine = append(mine, c)
		}
	}
	cases = mine
	hx.AddNote("enumerated_cases", len(cases))
	if hx.Shard() == 0 {
		hx.Note("enumeration_size", all)
	}
	if runPool(t, cases) {
		hx.Exhaustive("listed hostile names x {dir,file,symlink,device} x nesting depths; listed symlink targets (made by the archive or present before) x entries beneath/over the link; replace-current-directory sequences for every listed self name (nameless, empty, '.', '/', '//', '/.', './', './/'); entries with user.*/trusted.* xattrs incl. symlinks to existing outside objects; listed same-name and prefix-name sequences (dir, file, symlink in turn) x listed outside targets; root entry kinds (dir, named dir, file, fifo, device with file mode, symlink to listed targets) x destination states (empty, with content, absent, file, symlink outside/inside) x listed follow-ups; entries behind the root goodbye; a symlink at every listed temp-file idiom name (and every helper name the probe observed) next to a file entry; unprivileged unpack of directory-repeated-with-read-only-mode sequences; symlink (archive-made or pre-existing) to listed outside nodes/files then a DEVICE entry with matching and with differing type/numbers")
	}
}

// TestSelf checks the machinery: a benign archive is really unpacked by the child (so a silent
// child cannot make the check pass), the snapshot difference is empty for it, and known
// modifications made by a child from inside the chroot are all reported with the right effect.
func TestSelf(t *testing.T) {
	if hx.Shard() != 0 {
		t.Skip()
	}
	t.Cleanup(dropTrees)
	fail := func(format string, a ...any) {
		fmt.Println("SELFTEST-FAILURE: " + fmt.Sprintf(format, a...))
		t.Fatalf(format, a...)
	}
	for _, p := range []string{"catar", "index"} {
		scratch := hx.Scratch("c18self")
		root := filepath.Join(scratch, "root")
		buildTree(root, "n1")
		c := normalize(Case{Path: p, Workers: 2, Ops: []Op{
			{K: "dir", Name: "d", Perm: 0o750, UID: 12, GID: 13, Mtime: 1000}, {K: "file", Name: "f", Perm: 0o640, Size: 3000, Seed: 7, Mtime: 2000},
			{K: "sym", Name: "l", Target: "../../outside"}, {K: "bye"}, {K: "dev", Name: "dev", DevType: "chr", Perm: 0o600}}})
		o := runReal(c)
		if len(o.Violations) != 0 {
			fail("benign archive (%s) reported violations: %v", p, o.Violations)
		}
		obs := o.Observed.(observed)
		if obs.Result != "nil" || len(obs.Calls) != 5 {
			fail("benign archive (%s): unpacker result %q, %d calls (want nil, 5): %+v", p, obs.Result, len(obs.Calls), obs)
		}
		os.RemoveAll(scratch)
	}
	// the unpacked content really arrives in dest (run once more, keeping the tree)
	{
		scratch := hx.Scratch("c18self")
		root := filepath.Join(scratch, "root")
		buildTree(root, "n2")
		arch := buildArchive(Case{Ops: []Op{{K: "dir", Name: "d", Perm: 0o750}, {K: "file", Name: "f", Perm: 0o640, Size: 10, Seed: 7}}})
		must(os.WriteFile(filepath.Join(root, "job/a.catar"), arch, 0o644))
		jb, _ := json.Marshal(job{Root: root, Nonce: "n2", Mode: "catar"})
		must(os.WriteFile(filepath.Join(scratch, "job.json"), jb, 0o644))
		res := runChild(filepath.Join(scratch, "job.json"))
		got, err := os.ReadFile(filepath.Join(root, destRel, "d/f"))
		if err != nil || !bytes.Equal(got, gen.RandBytes(10, 7)) || res.Err != "" {
			fail("benign archive was not unpacked into dest: %v %q (unpacker: %q)", err, got, res.Err)
		}
		os.RemoveAll(scratch)
	}
	// tamper child: every planted modification is seen, nothing else
	{
		scratch := hx.Scratch("c18self")
		root := filepath.Join(scratch, "root")
		buildTree(root, "n3")
		jb, _ := json.Marshal(job{Root: root, Nonce: "n3", Mode: "tamper"})
		must(os.WriteFile(filepath.Join(scratch, "job.json"), jb, 0o644))
		freezeTimes(root)
		before := takeSnap(root)
		res := runChild(filepath.Join(scratch, "job.json"))
		if res.Err != "" || !res.Done {
			fail("tamper child failed: %q %s", res.Err, res.Stderr)
		}
		got := map[string]string{}
		for _, ch := range diffSnaps(before, takeSnap(root)) {
			got[ch.Path] = ch.Effect
		}
		want := map[string]string{
			"sb/l1/outside/planted": effCreated, "sb/l1/l2/victim": effDeleted, "sb/l1/l2/l3/victim": effContent, "sb/l1/victim": effMeta,
			"sb/victim": effMeta, "sb/l1/l2/outside": effMeta, "sb/l1/l2/l3/vlink": effTarget, "sb/l1/vlink": effReplaced, "escape-attempt": effCreated,
			"sb/outside/f": effXattr, "sb/l1/outside/sub": effXattr, "sb/l1/l2/xvictim": effXattr, "sb/vlink": effXattr,
		}
		if fmt.Sprint(got) != fmt.Sprint(want) {
			fail("snapshot difference after the tamper child:\n got  %v\n want %v", got, want)
		}
		if _, err := os.Lstat(filepath.Join(scratch, "escape-attempt")); err == nil {
			fail("the child wrote above its chroot root")
		}
		os.RemoveAll(scratch)
	}
	// a child that is not given a valid nonce refuses to run
	func() {
		scratch := hx.Scratch("c18self")
		defer os.RemoveAll(scratch)
		root := filepath.Join(scratch, "root")
		buildTree(root, "n4")
		jb, _ := json.Marshal(job{Root: root, Nonce: "other", Mode: "tamper"})
		must(os.WriteFile(filepath.Join(scratch, "job.json"), jb, 0o644))
		defer func() {
			if recover() == nil {
				fail("child ran although the chroot proof (nonce) was wrong")
			}
		}()
		runChild(filepath.Join(scratch, "job.json"))
	}()
	// signature vocabulary (for VERIF_DEV_IGNORE while analysing): C18:<kind>:<route>:<effect>
	if os.Getenv("C18_PRINT_SIGS") != "" {
		var all []string
		for _, k := range sigKinds {
			for _, r := range sigRoutes {
				for _, e := range allEffects {
					all = append(all, "C18:"+k+":"+r+":"+e)
				}
			}
		}
		fmt.Println("C18-SIGS " + strings.Join(all, ","))
	}
}

func TestProp(t *testing.T) { t.Cleanup(dropTrees); hx.Prop(t, spec) }
