// C14 — Remote transports preserve data and report missing vs. failed truthfully.
//
// Four sub-domains share one Case type (field Mode):
//
//	matrix  RemoteHTTP <-> httptest <-> NewHTTPHandler <-> LocalStore over the whole compression /
//	        skip-verify / writable matrix, a generated history of GET/HEAD/PUT             (matrix_test.go)
//	index   RemoteHTTPIndex <-> httptest <-> NewHTTPIndexHandler <-> LocalIndexStore, GET/HEAD/PUT (index_test.go)
//	script  RemoteHTTP / RemoteHTTPIndex against a scripted server that answers attempt k with the
//	        k-th generated response; judged by a reference model of the retry policy      (script_test.go)
//	sshpool one desync.RemoteSSH store with a pool of n in-process casync sessions: failing answers
//	        (missing, invalid, garbage, abort, dead peer) interleaved with successful ones, sequentially
//	        and from several goroutines, further requests, Close                            (pool_test.go)
//	pull    the child process `desync --config <cfg> pull - - - <store>` over pipes: store directory with
//	        chunks in the configured format, the other format, both, neither or corrupt x config variants (pull_test.go)
//	srvproc the commands `desync chunk-server` / `index-server` as child processes in front of a gated upstream:
//	        overlapping client requests, answers released in generated order, options --log/-u/verified reads (srvproc_test.go)
//	proto   desync.Protocol clients against desync.NewProtocolServer over io.Pipe pairs; returned
//	        chunks are held and consumed later through their storage form   (proto_test.go, held_test.go)
package c14

import (
	"fmt"
	"testing"
	"time"

	"pgregory.net/rapid"

	"verifharness/internal/fakessh"
	"verifharness/internal/hx"
)

// Case is the replay file. Exactly one of the four sub-cases is used, selected by Mode.
type Case struct {
	Mode   string      `json:"mode"` // matrix | index | script | proto | ssh | sshpool | pull
	Matrix *MatrixCase `json:"matrix,omitempty"`
	Index  *IndexCase  `json:"index,omitempty"`
	Script *ScriptCase `json:"script,omitempty"`
	Proto  *ProtoCase  `json:"proto,omitempty"`
	SSH    *SSHCase    `json:"ssh,omitempty"`
	Pool   *PoolCase   `json:"pool,omitempty"`
	Pull   *PullCase   `json:"pull,omitempty"`
	Srv    *SrvCase    `json:"srv,omitempty"` // mode srvproc (srvproc_test.go)
}

func genCase(t *rapid.T) Case {
	if hx.Thorough() && fakessh.HavePull() && rapid.IntRange(0, 99).Draw(t, "ssh") == 0 {
		sc := genSSH(t)
		return Case{Mode: "ssh", SSH: &sc}
	}
	if pullBin() != "" && rapid.IntRange(0, 29).Draw(t, "srvproc") == 0 {
		sc := genSrv(t)
		return Case{Mode: "srvproc", Srv: &sc}
	}
	switch m := rapid.IntRange(0, 19).Draw(t, "mode"); {
	case m < 7:
		mc := genMatrix(t)
		return Case{Mode: "matrix", Matrix: &mc}
	case m < 10:
		ic := genIndex(t)
		return Case{Mode: "index", Index: &ic}
	case m < 11:
		if pullBin() != "" && rapid.IntRange(0, 3).Draw(t, "pull") == 0 {
			pc := genPull(t)
			return Case{Mode: "pull", Pull: &pc}
		}
		pc := genPool(t)
		return Case{Mode: "sshpool", Pool: &pc}
	case m < 17:
		sc := genScript(t)
		return Case{Mode: "script", Script: &sc}
	default:
		pc := genProto(t)
		return Case{Mode: "proto", Proto: &pc}
	}
}

func run(c Case) (o hx.Outcome) {
	switch {
	case c.Mode == "matrix" && c.Matrix != nil:
		o = runMatrix(*c.Matrix)
	case c.Mode == "index" && c.Index != nil:
		o = runIndex(*c.Index)
	case c.Mode == "script" && c.Script != nil:
		o = runScript(*c.Script)
	case c.Mode == "proto" && c.Proto != nil:
		o = runProto(*c.Proto)
	case c.Mode == "ssh" && c.SSH != nil:
		o = runSSH(*c.SSH)
	case c.Mode == "sshpool" && c.Pool != nil:
		o = runPool(*c.Pool)
	case c.Mode == "pull" && c.Pull != nil:
		o = runPullCLI(*c.Pull)
	case c.Mode == "srvproc" && c.Srv != nil:
		o = runSrvProc(*c.Srv)
	default: // a hand-edited replay file without a sub-case: nothing to run
		o.Desc = map[string]any{"mode": c.Mode, "empty": true}
		return o
	}
	o.Class("mode:" + c.Mode)
	return o
}

var spec = &hx.Spec[Case]{
	ID:    "C14",
	Level: "fault_enumeration",
	Rule: "cases = (matrix) client/server/upstream compression x skip-verify per hop x writable x history of get/has/put/put-invalid over chunks planted as present/missing/other-format-only/corrupt (valid object of wrong content) or damaged (cut object, garbage, the other format's bytes in the slot, empty file: undecodable in a compressed upstream store, wrong content in an uncompressed one), " +
		"chunk lengths 1 B..100 kB (1 MB thorough) and, in about 1 matrix case of 40, chunks whose transfer form is around or above the default maximum chunk size (256 KiB-40..256 KiB+8, ..300 KiB, ..1 MiB; incompressible and compressible), " +
		"plus fixed cases with raw and compressed transfer lengths 256 KiB-1, 256 KiB, 256 KiB+1, 300 KiB, 1 MiB x write verification on/off x upstream format; " +
		"(index) history of get/reader/head/put over index names planted as present/missing/garbage, the index server serving the directory or (1 case in 3) another index server over it; " +
		"(script) method x ErrorRetry 0..4 x per-attempt server responses (200, 404, 400/401/403, 500/502/503, connection close/RST, truncated body) of length <= 6, all scripts of length <= 4 x retry 0..3 enumerated for GetChunk and HasChunk; " +
		"(proto) 1..3 casync protocol sessions over pipes on one store with present/missing/corrupt chunks, repeated IDs, large-then-smaller-or-equal reply orders and a closed or cut connection; " +
		"every chunk a session returned is held and consumed later (at generated points and after the history) through a compressed and an uncompressed HTTP chunk server, a cache writing to a compressed LocalStore and an uncompressed LocalStore. " +
		"(sshpool) one RemoteSSH store over a pool of n in 1..3 in-process casync sessions (stand-in peer that keeps the session open after MISSING): history of <= 12 GetChunk/HasChunk for chunks answered present/missing/invalid/garbage/abort/dead-peer, issued sequentially or by 2..4 goroutines, then 1..4 further sequential requests and Close; fixed cases n x failing answer x {sequential, 3 goroutines} with n+1 failures before a present chunk. " +
		"(pull) child process `desync --config <cfg> pull - - - <store>` over pipes, client side desync.Protocol: config in {no entry, uncompressed entry keyed by the served path, uncompressed entry keyed by another path, compressed entry} x 1..4 chunks held in the configured format / the other format / both / neither / corrupt x <= 5 requests (fresh child after every answer that is not a chunk); about 1 case in 80 plus 4 fixed cases. " +
		"(srvproc) child process `desync chunk-server|index-server -s <gated upstream HTTP store of the harness> -l <addr> -e 0 [--log <file>|-] [-u] [--skip-verify-read=false]`: 2..4 objects present/missing/failing upstream, 2..4 GET/HEAD client requests started so that all overlap inside the server (each after the previous one's upstream request has arrived), upstream answers released in a generated order; for a chunk server in 1 case of 3 preceded by an upload phase (-w): a chunk the upstream lacks is PUT (right content, or a well-formed transfer form of other data) and a GET of the same ID is made while the upload's upstream PUT is held; about 1 case in 30. " +
		"non-trivial = matrix case in which compression settings differ between at least two of the three hops, script with >= 1 transient failure followed by a terminal response within the attempts made, " +
		"index history touching a present and an absent name, protocol history with a present and a non-present request, a broken connection, or a held chunk followed on its session by a different reply that is not larger, ssh pool history with more failing answers than sessions, pull case whose config names an uncompressed store; distinct by configuration + history shape",
	Assumptions: []string{
		"plain HTTP/1.1 on loopback through net/http/httptest; TLS, HTTP/2, proxies and real ssh are not in the loop",
		"scripted server disables keep-alive so that every desync attempt is exactly one request on a fresh connection (net/http's own transparent retry of idempotent requests on reused connections is outside the policy under test)",
		"transient = transport error (connection closed/reset before or inside the response, body shorter than Content-Length) or status 5xx; 404 on GET/HEAD is the answer 'missing'; other 4xx are failures that are not retried",
		"retry budget: both readings of the option are accepted (at most ErrorRetry+1 requests; a caller may give up only after >= ErrorRetry transient failures)",
		"upstream back door reads/writes chunk files with klauspost zstd directly and chunk IDs with crypto/sha512 directly; index bytes by the independent caibx codec in internal/ref",
		"casync protocol: a server that ends the session after answering MISSING or after a store failure is accepted (DESIGN section 6, judged outside the statement); the harness then closes the server's pipe ends like a process exit would",
		"zero-length chunks are not generated (no chunker produces them)",
		"ssh pool mode: the RemoteSSH store is assembled in process (its pool channel filled with sessions over io.Pipe pairs to a hand-written casync stand-in; unexported fields set by reflection) instead of through ssh children; 'every request returns' is judged as blocked when the pool is empty while nothing is in flight (proven, confirmed for 0.2 s) or after 3 s worth of 2 ms polls without a returned request or a message at any peer; blocked callers are then released by feeding dead sessions into the pool",
		"an upstream object that cannot be decoded is a failure of the hop that has to decode it: a chunk server that converts between formats must answer with an error (never 200, never 404) and GetChunk must fail even for a non-verifying client; where the server passes the stored bytes through unexamined and every hop was told not to verify, nothing is demanded; with a verifying hop the outcome must be an error (not data, not missing)",
		"chunk size is not bounded by the statement ('all chunks'): chunks of up to 1 MiB (indexes made with a larger maximum than the default 256 KiB) and transfer forms larger than the chunk (zstd framing of incompressible data) are valid uploads and downloads",
		"a chunk handed out by a transport stays valid for its holder while the transport is used further (Store.GetChunk has no lifetime restriction: chunk servers, caches and the assembler all keep chunks while other requests run on the same store); held chunks are read, never modified, by the check",
	},
	Required: []string{
		"mode:matrix", "mode:index", "mode:script", "mode:proto",
		"matrix:agree", "matrix:disagree", "matrix:hops-differ", "matrix:client-unc", "matrix:server-unc", "matrix:upstream-unc",
		"matrix:writable", "matrix:readonly", "matrix:op:get", "matrix:op:has", "matrix:op:put", "matrix:op:putbad",
		"matrix:state:present", "matrix:state:missing", "matrix:state:other-format", "matrix:state:corrupt",
		"matrix:read-after-put", "matrix:recompress", "matrix:passthrough",
		"matrix:state:undecodable", "matrix:damage:trunc", "matrix:damage:garbage", "matrix:damage:raw", "matrix:damage:empty",
		"matrix:get:server-converts:upstream-undecodable:unverified-read", "matrix:get:server-converts:upstream-undecodable:verified-read",
		"matrix:get:pass-through:upstream-undecodable:unverified-read", "matrix:get:pass-through:upstream-undecodable:verified-read",
		"matrix:get:upstream-undecodable:client-verifies", "matrix:get:upstream-undecodable:client-skips", "matrix:undecodable-unverified",
		"matrix:put:body>256KiB:compressed", "matrix:put:body>256KiB:uncompressed", "matrix:put:body>256KiB:verify-write", "matrix:put:body>256KiB:skip-verify-write",
		"matrix:get:body>256KiB:compressed", "matrix:get:body>256KiB:uncompressed",
		"matrix:put:body=256KiB-1:compressed", "matrix:put:body=256KiB:compressed", "matrix:put:body=256KiB+1:compressed",
		"matrix:put:body=256KiB-1:uncompressed", "matrix:put:body=256KiB:uncompressed", "matrix:put:body=256KiB+1:uncompressed",
		"index:upstream-is-an-index-server", "index:get:present", "index:get:missing", "index:get:garbage", "index:head:present", "index:head:missing", "index:put:writable", "index:put:readonly", "index:read-after-put",
		"script:invisible-run", "script:exhausted", "script:f==retry", "script:terminal:200", "script:terminal:404", "script:terminal:4xx",
		"script:kind:reset", "script:kind:short", "script:kind:5xx",
		"script:m:getchunk", "script:m:haschunk", "script:m:storechunk", "script:m:getindex", "script:m:storeindex",
		"proto:present", "proto:missing", "proto:corrupt", "proto:break:close", "proto:break:cut", "proto:store:mem", "proto:store:local", "proto:store:local-unc",
		"mode:srvproc", "srvproc:chunk", "srvproc:index", "srvproc:all-requests-overlapped", "srvproc:overlapped:log-on", "srvproc:log=off", "srvproc:log=file", "srvproc:log=stdout", "srvproc:server-converts",
		"srvproc:state:present", "srvproc:state:missing", "srvproc:state:failing", "srvproc:upload:mislabelled", "srvproc:upload:valid", "srvproc:upload:read-went-upstream",
		"mode:pull", "pull:config-default", "pull:config-uncompressed", "pull:config-other-path", "pull:config-compressed-entry",
		"pull:present", "pull:missing", "pull:other-format-only", "pull:corrupt",
		"pull:have:both-formats", "pull:have:configured-format-only", "pull:have:other-format-only", "pull:have:none", "pull:have:corrupt",
		"mode:sshpool", "ssh-pool:stress:n>=2", "ssh-pool:n=1", "ssh-pool:n=2", "ssh-pool:n=3", "ssh-pool:failures>pool-size", "ssh-pool:ok-after-failures>pool-size", "ssh-pool:sequential", "ssh-pool:concurrent",
		"ssh-pool:further-request", "ssh-pool:close", "ssh-pool:request-on-dead-session",
		"ssh-pool:answer:present", "ssh-pool:answer:missing", "ssh-pool:answer:invalid", "ssh-pool:answer:garbage", "ssh-pool:answer:abort", "ssh-pool:answer:die",
		"proto:sessions:1", "proto:sessions:2+", "proto:held-consumed-later", "proto:large-then-small", "proto:held-repeat-id", "proto:held-on-several-sessions",
		"proto:held-then-session-end", "proto:check:intermediate",
	},
	Gen:      genCase,
	Run:      run,
	Watchdog: hx.Pick(60*time.Second, 180*time.Second),
}

func TestMain(m *testing.M) { hx.Main(m) }

func TestRegress(t *testing.T) { hx.Regress(t, spec) }
func TestKnown(t *testing.T)   { hx.Known(t, spec) }
func TestReplay(t *testing.T)  { hx.Replay(t, spec) }

// enumKinds are the six response kinds of the statement; 4xx and 5xx rotate through their
// three codes by script position so that every code is used.
var enumKinds = []string{"200", "404", "4xx", "5xx", "reset", "short"}

func concreteKind(k string, pos int) string {
	switch k {
	case "4xx":
		return []string{"400", "401", "403"}[pos%3]
	case "5xx":
		return []string{"500", "502", "503"}[pos%3]
	case "reset":
		return []string{"reset", "rst"}[pos%2]
	}
	return k
}

// TestEnum: every script of length 1..4 over the six response kinds x ErrorRetry 0..3, for
// GetChunk and HasChunk (2 x 4 x (6+36+216+1296) = 12 432 cases). Shard 0 only.
func TestEnum(t *testing.T) {
	if hx.Shard() != 0 {
		t.Skip()
	}
	count := 0
	for _, method := range []string{"getchunk", "haschunk"} {
		for retry := 0; retry <= 3; retry++ {
			for l := 1; l <= 4; l++ {
				total := 1
				for i := 0; i < l; i++ {
					total *= len(enumKinds)
				}
				for code := 0; code < total; code++ {
					script := make([]string, l)
					x := code
					for i := 0; i < l; i++ {
						script[i] = concreteKind(enumKinds[x%len(enumKinds)], i+code)
						x /= len(enumKinds)
					}
					sc := ScriptCase{Method: method, Retry: retry, Script: script, ClientUnc: code%2 == 1,
						Data: ChunkSpec{Kind: "text", Len: 40 + code%200, Seed: uint64(code)}}
					count++
					if !hx.Case(t, spec, Case{Mode: "script", Script: &sc}) {
						return
					}
				}
			}
		}
	}
	hx.Note("enumerated_scripts", count)
	hx.Exhaustive("all response scripts of length <= 4 over {200,404,4xx,5xx,reset,short} x ErrorRetry 0..3 for GetChunk and HasChunk")
}

// TestSSH is the place of the RemoteSSH end-to-end variant (fakessh -> `desync pull`).

func TestProp(t *testing.T) { hx.Prop(t, spec) }

// ---------------------------------------------------------------- small shared helpers

// result classes of one client call
const (
	resOK      = "ok"         // success and (where data is returned) the right data
	resWrong   = "wrong-data" // nil error but different data / ID
	resMissing = "missing"    // ChunkMissing, HasChunk false, NoSuchObject
	resError   = "error"      // any other error
)

func sig(fam, expected, got string) string { return fmt.Sprintf("C14:%s:%s-as-%s", fam, expected, got) }
