package c14

import (
	"bytes"
	"errors"
	"fmt"
	"net"
	"net/http"
	"net/http/httptest"
	"net/url"
	"os"
	"path/filepath"
	"sync/atomic"
	"time"

	"github.com/folbricht/desync"
	"github.com/klauspost/compress/zstd"
	"pgregory.net/rapid"

	"verifharness/internal/gen"
	"verifharness/internal/hx"
	"verifharness/internal/ref"
)

func hxPickMaxChunk() int { return hx.Pick(100_000, 1_000_000) }

// ChunkSpec describes chunk content (expanded deterministically, never empty).
type ChunkSpec struct {
	Kind string `json:"k"` // rand | zero | text | period | const
	Len  int    `json:"n"`
	Seed uint64 `json:"s"`
}

func (s ChunkSpec) bytes() []byte {
	n := s.Len
	if n < 1 {
		n = 1
	}
	return gen.Expand([]gen.Piece{{Kind: s.Kind, Len: n, Seed: s.Seed, Period: 7, B: byte(s.Seed) | 1}})
}

func genChunkSpec(t *rapid.T, label string) ChunkSpec {
	kind := rapid.SampledFrom([]string{"rand", "rand", "text", "zero", "period", "const"}).Draw(t, label+"kind")
	var n int
	switch rapid.IntRange(0, 9).Draw(t, label+"lenclass") {
	case 0:
		n = rapid.IntRange(1, 3).Draw(t, label+"len")
	case 1, 2, 3:
		n = rapid.IntRange(1, 300).Draw(t, label+"len")
	case 4, 5, 6:
		n = rapid.IntRange(300, 5000).Draw(t, label+"len")
	case 7, 8:
		n = rapid.IntRange(4000, 70000).Draw(t, label+"len")
	default:
		n = rapid.IntRange(1, hxPickMaxChunk()).Draw(t, label+"len")
	}
	return ChunkSpec{Kind: kind, Len: n, Seed: rapid.Uint64().Draw(t, label+"seed")}
}

func chunkID(b []byte) desync.ChunkID { return desync.ChunkID(ref.ID(b, false)) }

// independent zstd codec for the upstream back door and for scripted response bodies
var (
	zenc, _ = zstd.NewWriter(nil)
	zdec, _ = zstd.NewReader(nil)
)

func zCompress(b []byte) []byte { return zenc.EncodeAll(b, nil) }
func zDecompress(b []byte) ([]byte, error) {
	return zdec.DecodeAll(b, nil)
}

// wire returns b in the transfer/storage format selected by uncompressed.
func wire(b []byte, uncompressed bool) []byte {
	if uncompressed {
		return append([]byte(nil), b...)
	}
	return zCompress(b)
}

func unwire(b []byte, uncompressed bool) ([]byte, error) {
	if uncompressed {
		return b, nil
	}
	return zDecompress(b)
}

// chunkPath is casync's store layout: <base>/<first 4 hex>/<id>[.cacnk]
func chunkPath(base string, id desync.ChunkID, uncompressed bool) string {
	s := id.String()
	p := filepath.Join(base, s[:4], s)
	if !uncompressed {
		p += ".cacnk"
	}
	return p
}

func plantChunk(base string, id desync.ChunkID, content []byte, uncompressed bool) {
	p := chunkPath(base, id, uncompressed)
	if err := os.MkdirAll(filepath.Dir(p), 0o755); err != nil {
		panic(err)
	}
	if err := os.WriteFile(p, wire(content, uncompressed), 0o644); err != nil {
		panic(err)
	}
}

// plantRaw writes obj as it is into the slot of the given format.
func plantRaw(base string, id desync.ChunkID, obj []byte, uncompressed bool) {
	p := chunkPath(base, id, uncompressed)
	if err := os.MkdirAll(filepath.Dir(p), 0o755); err != nil {
		panic(err)
	}
	if err := os.WriteFile(p, obj, 0o644); err != nil {
		panic(err)
	}
}

// readPlanted returns the plain content of the chunk file in the given format, ok=false if absent.
func readPlanted(base string, id desync.ChunkID, uncompressed bool) (content []byte, ok bool, err error) {
	b, err := os.ReadFile(chunkPath(base, id, uncompressed))
	if os.IsNotExist(err) {
		return nil, false, nil
	}
	if err != nil {
		return nil, false, err
	}
	content, err = unwire(b, uncompressed)
	return content, true, err
}

func serverConverters(uncompressed bool) desync.Converters {
	if uncompressed {
		return nil
	}
	return desync.Converters{desync.Compressor{}}
}

func clientOptions(uncompressed, skipVerify bool, retry int) desync.StoreOptions {
	return desync.StoreOptions{N: 1, Uncompressed: uncompressed, SkipVerify: skipVerify, ErrorRetry: retry,
		ErrorRetryBaseInterval: time.Microsecond}
}

var serverCounter uint32

// startServer starts an HTTP server for one case. Every server listens on its own loopback
// address (127.<16+shard>.x.y): the closed connections of earlier cases sit in TIME_WAIT for a
// minute, and binding a fresh port on an address shared with tens of thousands of them costs
// milliseconds (measured), while a fresh address costs microseconds. The address has no
// influence on any verdict.
func startServer(h http.Handler, keepAlive bool) *httptest.Server {
	k := atomic.AddUint32(&serverCounter, 1)
	l, err := net.Listen("tcp", fmt.Sprintf("127.%d.%d.%d:0", 16+hx.Shard()%100, (k/250)%256, 1+k%250))
	if err != nil {
		if l, err = net.Listen("tcp", "127.0.0.1:0"); err != nil {
			panic(err)
		}
	}
	srv := &httptest.Server{Listener: l, Config: &http.Server{Handler: h}}
	if !keepAlive {
		// one request per connection: every attempt of the client is exactly one request seen by the handler
		srv.Config.SetKeepAlivesEnabled(false)
	}
	srv.Start()
	return srv
}

func mustURL(srv *httptest.Server) *url.URL {
	u, err := url.Parse(srv.URL + "/")
	if err != nil {
		panic(err)
	}
	return u
}

// classifyGet maps the result of a GetChunk-like call to a result class.
func classifyGet(ch *desync.Chunk, err error, id desync.ChunkID, want []byte) (res, detail string) {
	if err != nil {
		var cm desync.ChunkMissing
		if errors.As(err, &cm) {
			return resMissing, err.Error()
		}
		return resError, err.Error()
	}
	if ch == nil {
		return resWrong, "nil chunk with nil error"
	}
	b, derr := ch.Data()
	if derr != nil {
		return resWrong, "chunk returned without error but Data() fails: " + derr.Error()
	}
	if !bytes.Equal(b, want) {
		return resWrong, fmt.Sprintf("data differs: got %d bytes (%s), want %d bytes (%s)", len(b), hash8(b), len(want), hash8(want))
	}
	if got := ch.ID(); got != id {
		return resWrong, fmt.Sprintf("chunk ID %s, want %s", got, id)
	}
	return resOK, ""
}

func classifyHas(has bool, err error) (res, detail string) {
	if err != nil {
		var cm desync.ChunkMissing
		if errors.As(err, &cm) {
			return resMissing, err.Error()
		}
		return resError, err.Error()
	}
	if has {
		return resOK, ""
	}
	return resMissing, "false"
}

func classifyPut(err error) (res, detail string) {
	if err == nil {
		return resOK, ""
	}
	return resError, err.Error()
}

func isNoSuchObject(err error) bool {
	var nso desync.NoSuchObject
	return errors.As(err, &nso)
}

func hash8(b []byte) string {
	id := ref.ID(b, false)
	return fmt.Sprintf("%x", id[:4])
}

func clip(s string) string {
	if len(s) > 200 {
		return s[:200] + "…"
	}
	return s
}
