package c14

import (
	"bytes"
	"fmt"
	"io"
	"net/http"
	"os"
	"path/filepath"
	"strings"

	"github.com/folbricht/desync"
	"pgregory.net/rapid"

	"verifharness/internal/gen"
	"verifharness/internal/hx"
	"verifharness/internal/ref"
)

// IdxSpec describes an index: N chunks with pseudo-random IDs and sizes in 1..Max.
type IdxSpec struct {
	N    int    `json:"n"`
	Seed uint64 `json:"s"`
	Max  uint64 `json:"max"`
}

// build returns the desync value and the independently encoded file bytes.
func (s IdxSpec) build() (desync.Index, []byte) {
	mx := s.Max
	if mx < 1 {
		mx = 1
	}
	if mx > 1<<30 {
		mx = 1 << 30
	}
	n := s.N
	if n < 0 {
		n = 0
	}
	if n > 5000 {
		n = 5000
	}
	f := ref.IndexFile{Flags: ref.FlagSHA512256 | ref.FlagExcludeNoDump, Min: (mx + 3) / 4, Avg: (mx + 1) / 2, Max: mx}
	idx := desync.Index{Index: desync.FormatIndex{
		FormatHeader: desync.FormatHeader{Size: 48, Type: desync.CaFormatIndex},
		FeatureFlags: f.Flags, ChunkSizeMin: f.Min, ChunkSizeAvg: f.Avg, ChunkSizeMax: f.Max,
	}}
	raw := gen.RandBytes(40*n, s.Seed)
	var pos uint64
	for i := 0; i < n; i++ {
		r := raw[40*i : 40*i+40]
		size := 1 + (uint64(r[0])|uint64(r[1])<<8|uint64(r[2])<<16|uint64(r[3])<<24)%mx
		var id [32]byte
		copy(id[:], r[8:40])
		idx.Chunks = append(idx.Chunks, desync.IndexChunk{ID: id, Start: pos, Size: size})
		pos += size
		f.Items = append(f.Items, ref.IndexItem{End: pos, ID: id})
	}
	return idx, ref.EncodeIndex(f)
}

func equalIndex(a, b desync.Index) string {
	if a.Index.FeatureFlags != b.Index.FeatureFlags || a.Index.ChunkSizeMin != b.Index.ChunkSizeMin ||
		a.Index.ChunkSizeAvg != b.Index.ChunkSizeAvg || a.Index.ChunkSizeMax != b.Index.ChunkSizeMax {
		return fmt.Sprintf("header differs: got flags %x sizes %d/%d/%d, want flags %x sizes %d/%d/%d",
			a.Index.FeatureFlags, a.Index.ChunkSizeMin, a.Index.ChunkSizeAvg, a.Index.ChunkSizeMax,
			b.Index.FeatureFlags, b.Index.ChunkSizeMin, b.Index.ChunkSizeAvg, b.Index.ChunkSizeMax)
	}
	if len(a.Chunks) != len(b.Chunks) {
		return fmt.Sprintf("%d chunks, want %d", len(a.Chunks), len(b.Chunks))
	}
	for i := range a.Chunks {
		if a.Chunks[i] != b.Chunks[i] {
			return fmt.Sprintf("chunk %d differs: got %v, want %v", i, a.Chunks[i], b.Chunks[i])
		}
	}
	return ""
}

var indexNames = []string{"a.caibx", "b.caibx", "tree.caidx", "noext"}

// IPre is the planted state of one index name.
type IPre struct {
	State   string  `json:"state"` // present | missing | garbage
	Idx     IdxSpec `json:"idx"`
	Garbage string  `json:"garbage,omitempty"` // empty | trunc | badtype
	Cut     int     `json:"cut,omitempty"`
}

type IOp struct {
	Op   string  `json:"op"` // get | reader | head | put
	Name int     `json:"name"`
	Idx  IdxSpec `json:"idx"` // put only
}

type IndexCase struct {
	// Proxy: the index server under test does not serve a directory but another index server (RemoteHTTPIndex over a
	// second handler over the directory): `desync index-server -s http://...`
	Proxy    bool   `json:"proxy,omitempty"`
	Writable bool   `json:"writable"`
	Retry    int    `json:"retry"`
	Pre      []IPre `json:"pre"`
	Ops      []IOp  `json:"ops"`
}

func genIdxSpec(t *rapid.T) IdxSpec {
	n := rapid.IntRange(0, 40).Draw(t, "idx_n")
	if rapid.IntRange(0, 9).Draw(t, "idx_big") == 0 {
		n = rapid.IntRange(40, hx.Pick(600, 5000)).Draw(t, "idx_nbig")
	}
	return IdxSpec{N: n, Seed: rapid.Uint64().Draw(t, "idx_seed"),
		Max: rapid.SampledFrom([]uint64{1, 48, 4096, 65536, 1 << 20}).Draw(t, "idx_max")}
}

func genIndex(t *rapid.T) IndexCase {
	var c IndexCase
	c.Writable = rapid.IntRange(0, 3).Draw(t, "writable") > 0
	c.Proxy = rapid.IntRange(0, 2).Draw(t, "proxy") == 0
	c.Retry = rapid.IntRange(0, 2).Draw(t, "retry")
	n := rapid.IntRange(1, len(indexNames)).Draw(t, "nnames")
	for i := 0; i < n; i++ {
		p := IPre{State: rapid.SampledFrom([]string{"present", "present", "missing", "missing", "garbage"}).Draw(t, "pre")}
		if p.State != "missing" {
			p.Idx = genIdxSpec(t)
		}
		if p.State == "garbage" {
			p.Garbage = rapid.SampledFrom([]string{"empty", "trunc", "trunc", "badtype"}).Draw(t, "garbage")
			p.Cut = rapid.IntRange(0, 1<<16).Draw(t, "cut")
		}
		c.Pre = append(c.Pre, p)
	}
	nops := rapid.IntRange(1, 8).Draw(t, "nops")
	for i := 0; i < nops; i++ {
		op := IOp{Op: rapid.SampledFrom([]string{"get", "get", "get", "reader", "head", "head", "head", "put", "put"}).Draw(t, "op"),
			Name: rapid.IntRange(0, n-1).Draw(t, "name")}
		if op.Op == "put" {
			op.Idx = genIdxSpec(t)
		}
		c.Ops = append(c.Ops, op)
	}
	return c
}

func runIndex(c IndexCase) (o hx.Outcome) {
	dir := hx.Scratch("c14i")
	defer os.RemoveAll(dir)

	n := len(c.Pre)
	if n > len(indexNames) {
		n = len(indexNames)
	}
	state := make([]string, n)
	want := make([]desync.Index, n)
	wantBytes := make([][]byte, n)
	for i := 0; i < n; i++ {
		p := c.Pre[i]
		path := filepath.Join(dir, indexNames[i])
		switch p.State {
		case "present":
			want[i], wantBytes[i] = p.Idx.build()
			if err := os.WriteFile(path, wantBytes[i], 0o644); err != nil {
				panic(err)
			}
			state[i] = "present"
		case "garbage":
			_, b := p.Idx.build()
			switch p.Garbage {
			case "empty":
				b = nil
			case "badtype": // unknown element type in the first header
				b = append([]byte(nil), b...)
				b[8] ^= 0x5a
			default: // cut anywhere strictly inside the file
				b = b[:p.Cut%len(b)]
			}
			if err := os.WriteFile(path, b, 0o644); err != nil {
				panic(err)
			}
			state[i] = "garbage"
		default:
			state[i] = "missing"
		}
	}

	is, err := desync.NewLocalIndexStore(dir)
	if err != nil {
		panic(err)
	}
	var served desync.IndexStore = is
	if c.Proxy {
		inner := startServer(desync.NewHTTPIndexHandler(is, c.Writable, ""), true)
		defer inner.Close()
		up, err := desync.NewRemoteHTTPIndexStore(mustURL(inner), clientOptions(false, false, 0))
		if err != nil {
			panic(err)
		}
		defer up.Close()
		served = up
		o.Class("index:upstream-is-an-index-server")
	}
	srv := startServer(desync.NewHTTPIndexHandler(served, c.Writable, ""), true)
	defer srv.Close()
	retry := c.Retry
	if retry < 0 || retry > 4 {
		retry = 0
	}
	client, err := desync.NewRemoteHTTPIndexStore(mustURL(srv), clientOptions(false, false, retry))
	if err != nil {
		panic(err)
	}
	defer client.Close()

	fail := func(s string, opi int, op IOp, format string, a ...any) {
		o.Fail(s, "op %d %s(%s, state %s) [writable=%v]: %s", opi, op.Op, indexNames[op.Name], state[op.Name], c.Writable, fmt.Sprintf(format, a...))
	}
	var shape []string
	sawPresent, sawAbsent := false, false
	putOK := make([]bool, n)
	for opi, op := range c.Ops {
		if op.Name < 0 || op.Name >= n {
			continue
		}
		i := op.Name
		name := indexNames[i]
		st := state[i]
		shape = append(shape, op.Op[:1]+st[:1])
		if st == "present" {
			sawPresent = true
		} else if st == "missing" {
			sawAbsent = true
		}
		switch op.Op {
		case "get", "reader":
			o.Class("index:get:" + st)
			if putOK[i] {
				o.Class("index:read-after-put")
			}
			var res, detail string
			if op.Op == "get" {
				idx, err := client.GetIndex(name)
				switch {
				case err == nil && st == "present":
					if d := equalIndex(idx, want[i]); d != "" {
						res, detail = resWrong, d
					} else {
						res = resOK
					}
				case err == nil:
					res = resOK
				case isNoSuchObject(err):
					res, detail = resMissing, err.Error()
				default:
					res, detail = resError, err.Error()
				}
			} else {
				rc, err := client.GetIndexReader(name)
				switch {
				case err == nil:
					b, rerr := io.ReadAll(rc)
					rc.Close()
					switch {
					case rerr != nil:
						res, detail = resError, rerr.Error()
					case st == "present" && !bytes.Equal(b, wantBytes[i]):
						res, detail = resWrong, fmt.Sprintf("reader delivered %d bytes (%s), the stored index has %d bytes (%s)", len(b), hash8(b), len(wantBytes[i]), hash8(wantBytes[i]))
					default:
						res = resOK
					}
				case isNoSuchObject(err):
					res, detail = resMissing, err.Error()
				default:
					res, detail = resError, err.Error()
				}
			}
			switch st {
			case "present":
				if res != resOK {
					fail(sig("index-get", "ok", res), opi, op, "stored index not delivered unchanged: %s", clip(detail))
				}
			case "missing":
				if res != resMissing {
					fail(sig("index-get", "missing", res), opi, op, "index absent, want a NoSuchObject error, got %s %s", res, clip(detail))
				}
			case "garbage":
				if res == resOK || res == resWrong {
					fail(sig("index-get", "failure", resOK), opi, op, "upstream file is not a valid index but an index was delivered")
				} else if res == resMissing {
					fail(sig("index-get", "failure", resMissing), opi, op, "upstream file is not a valid index; reported as missing: %s", clip(detail))
				}
			}
		case "head":
			o.Class("index:head:" + st)
			req, err := http.NewRequest("HEAD", srv.URL+"/"+name, nil)
			if err != nil {
				panic(err)
			}
			resp, err := srv.Client().Do(req)
			if err != nil {
				fail("C14:index:head-status", opi, op, "HEAD request failed: %v", err)
				continue
			}
			io.Copy(io.Discard, resp.Body)
			resp.Body.Close()
			var wantCode, inverted int
			switch st {
			case "present":
				wantCode, inverted = 200, 404
			case "missing":
				wantCode, inverted = 404, 200
			default: // garbage: the file exists; whether HEAD should validate it is not specified
				continue
			}
			if resp.StatusCode == inverted {
				fail("C14:index:head-inverted", opi, op, "HEAD answered %d, want %d (existence reported the wrong way round)", resp.StatusCode, wantCode)
			} else if resp.StatusCode != wantCode {
				fail("C14:index:head-status", opi, op, "HEAD answered %d, want %d", resp.StatusCode, wantCode)
			}
		case "put":
			idx, b := op.Idx.build()
			err := client.StoreIndex(name, idx)
			res, detail := classifyPut(err)
			if res == resOK {
				got, rerr := os.ReadFile(filepath.Join(dir, name))
				if rerr != nil {
					fail("C14:index-put:success-not-stored", opi, op, "StoreIndex returned nil but the upstream file cannot be read: %v", rerr)
				} else if !bytes.Equal(got, b) {
					fail("C14:index-put:success-not-stored", opi, op, "StoreIndex returned nil but the upstream file has %d bytes (%s), the index encodes to %d bytes (%s)", len(got), hash8(got), len(b), hash8(b))
				}
			}
			if !c.Writable {
				o.Class("index:put:readonly")
				if res == resOK {
					fail(sig("index-put-readonly", "failure", resOK), opi, op, "server is not writable but StoreIndex returned nil")
					state[i] = "unknown"
				}
				continue
			}
			o.Class("index:put:writable")
			if res != resOK {
				fail(sig("index-put", "ok", res), opi, op, "writable server, valid index of %d chunks: StoreIndex failed: %s", len(idx.Chunks), clip(detail))
				state[i] = "unknown"
				continue
			}
			state[i], want[i], wantBytes[i] = "present", idx, b
			putOK[i] = true
			if len(idx.Chunks) == 0 {
				o.Class("index:empty")
			}
		}
	}
	var pre []string
	var sizes []int
	for i := 0; i < n; i++ {
		pre = append(pre, c.Pre[i].State)
		sizes = append(sizes, c.Pre[i].Idx.N)
	}
	o.Nontrivial = sawPresent && sawAbsent
	o.Desc = map[string]any{"mode": "index", "writable": c.Writable, "pre": pre, "chunks": sizes, "history": strings.Join(shape, " ")}
	o.Key = fmt.Sprintf("index/%v/%v/%v/%s", c.Writable, pre, sizes, strings.Join(shape, ""))
	return o
}
