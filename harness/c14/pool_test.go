package c14

import (
	"encoding/binary"
	"fmt"
	"io"
	"net/url"
	"reflect"
	"strings"
	"sync"
	"sync/atomic"
	"testing"
	"time"
	"unsafe"

	"github.com/folbricht/desync"
	"pgregory.net/rapid"

	"verifharness/internal/hx"
)

// ssh-pool mode: ONE desync.RemoteSSH store with a pool of n casync sessions, driven in process.
//
// RemoteSSH can only be constructed by starting `ssh` children; here the store is put together
// the way NewRemoteSSHStore does it (a buffered channel of n initialised *desync.Protocol
// sessions) with every session connected over an io.Pipe pair to a peer goroutine of this file:
// an independent, hand-written stand-in for `casync pull` that, like casync, keeps the session
// open after answering MISSING. The store's three unexported fields are set through reflection
// (newPoolStore); if their names or types ever change the mode reports itself unavailable and the
// Required classes make the run inconclusive instead of silently passing.
//
// History: requests (GetChunk / HasChunk) for chunks the peer answers with
//
//	present  CHUNK with the zstd frame of the chunk
//	missing  MISSING (session stays open)
//	invalid  CHUNK with a valid frame of other content        (client: ChunkInvalid; session usable)
//	garbage  CHUNK whose payload is not a zstd frame          (client: error; session usable)
//	abort    ABORT, then the peer closes the session          (client: error; session dead)
//	die      the peer closes the session without an answer    (client: error; session dead)
//
// run sequentially or from several goroutines, then further sequential requests, then Close().
// Oracle: every request returns, with its model result (data / ChunkMissing / error; a request
// that lands on a dead session is an error); Close returns. A request that does not return is the
// verdict "request-blocks": proven when the pool is empty while nothing is in flight (nobody can
// ever put a session back), otherwise after 3 s worth of polls without any progress anywhere.

type PoolOp struct {
	Op     string `json:"op"` // get | has
	Chunk  int    `json:"chunk"`
	Worker int    `json:"w,omitempty"` // which goroutine issues it (Workers > 1)
}

type PoolCase struct {
	N       int         `json:"n"` // sessions in the pool
	Chunks  []ChunkSpec `json:"chunks"`
	Kinds   []string    `json:"kinds"`   // per chunk: present | missing | invalid | garbage | abort | die
	Workers int         `json:"workers"` // 1 = sequential
	Ops     []PoolOp    `json:"ops"`
	Tail    []PoolOp    `json:"tail"` // further requests, sequential, after the workers have joined
	// Stress > 0 (needs two present chunks): before the history, while every session is alive, 2*N+2 goroutines make Stress
	// rounds each of HasChunk(one present chunk) + GetChunk(another): whatever the store keeps between calls, a read
	// must return the chunk that was asked for
	Stress int `json:"stress,omitempty"`
}

var poolKinds = []string{"present", "present", "present", "missing", "missing", "missing", "invalid", "garbage", "abort", "die"}

func genPool(t *rapid.T) PoolCase {
	var c PoolCase
	c.N = rapid.SampledFrom([]int{1, 1, 2, 2, 3}).Draw(t, "n")
	if rapid.IntRange(0, 3).Draw(t, "stress") == 0 {
		c.Stress = rapid.SampledFrom([]int{50, 200, 400}).Draw(t, "stressrounds")
	}
	k := rapid.IntRange(2, 5).Draw(t, "nchunks")
	for i := 0; i < k; i++ {
		n := rapid.IntRange(1, 3000).Draw(t, "len")
		if rapid.IntRange(0, 9).Draw(t, "large") == 0 {
			n = rapid.IntRange(3000, 70000).Draw(t, "len")
		}
		c.Chunks = append(c.Chunks, ChunkSpec{Kind: rapid.SampledFrom([]string{"rand", "text", "zero"}).Draw(t, "kind"), Len: n, Seed: rapid.Uint64().Draw(t, "seed")})
		c.Kinds = append(c.Kinds, rapid.SampledFrom(poolKinds).Draw(t, "behaviour"))
	}
	c.Workers = rapid.SampledFrom([]int{1, 1, 1, 2, 3, 4}).Draw(t, "workers")
	op := func() PoolOp {
		return PoolOp{Op: rapid.SampledFrom([]string{"get", "get", "get", "has"}).Draw(t, "op"), Chunk: rapid.IntRange(0, k-1).Draw(t, "chunk"),
			Worker: rapid.IntRange(0, c.Workers-1).Draw(t, "worker")}
	}
	for i, n := 0, rapid.IntRange(1, 12).Draw(t, "nops"); i < n; i++ {
		c.Ops = append(c.Ops, op())
	}
	for i, n := 0, rapid.IntRange(1, 4).Draw(t, "ntail"); i < n; i++ {
		o := op()
		o.Worker = 0
		c.Tail = append(c.Tail, o)
	}
	return c
}

// newPoolStore builds a RemoteSSH store around the given pool channel.
func newPoolStore(pool chan *desync.Protocol, n int) (rs *desync.RemoteSSH, err error) {
	defer func() {
		if r := recover(); r != nil {
			rs, err = nil, fmt.Errorf("desync.RemoteSSH cannot be assembled: %v", r)
		}
	}()
	rs = &desync.RemoteSSH{}
	v := reflect.ValueOf(rs).Elem()
	// Fields other than location, pool and n keep their zero value - which is what NewRemoteSSHStore's own struct
	// literal gives them. (Refusing a struct with further fields, as this harness did at first, made the whole mode
	// blind to exactly the changes that add state to the store.)
	if v.NumField() < 3 {
		return nil, fmt.Errorf("desync.RemoteSSH has %d fields, this harness needs location, pool, n", v.NumField())
	}
	set := func(name string, val any) error {
		f := v.FieldByName(name)
		if !f.IsValid() {
			return fmt.Errorf("desync.RemoteSSH has no field %q", name)
		}
		x := reflect.ValueOf(val)
		if !x.Type().AssignableTo(f.Type()) {
			return fmt.Errorf("desync.RemoteSSH.%s has type %s, not %s", name, f.Type(), x.Type())
		}
		reflect.NewAt(f.Type(), unsafe.Pointer(f.UnsafeAddr())).Elem().Set(x)
		return nil
	}
	if err := set("pool", pool); err != nil {
		return nil, err
	}
	if err := set("n", n); err != nil {
		return nil, err
	}
	if err := set("location", &url.URL{Scheme: "ssh", Host: "in-process", Path: "/store"}); err != nil {
		return nil, err
	}
	return rs, nil
}

// ---- the peer: a stand-in for `casync pull` on the far side of one session

type poolPeer struct {
	idx       int
	fromCli   *io.PipeReader // requests
	toCli     *io.PipeWriter // answers
	cliR      *io.PipeReader
	cliW      *io.PipeWriter
	requests  int64 // REQUEST messages received
	dead      int32 // the peer ended the session (abort / die)
	goodbye   int32
	done      chan struct{}
	behaviour map[desync.ChunkID]poolAnswer
}

type poolAnswer struct {
	kind    string
	payload []byte // CHUNK payload for present / invalid / garbage
}

func peerWrite(w io.Writer, typ uint64, body []byte) error {
	m := make([]byte, 16+len(body))
	binary.LittleEndian.PutUint64(m[0:8], uint64(len(m)))
	binary.LittleEndian.PutUint64(m[8:16], typ)
	copy(m[16:], body)
	_, err := w.Write(m)
	return err
}

func peerRead(r io.Reader) (typ uint64, body []byte, err error) {
	var hdr [16]byte
	if _, err = io.ReadFull(r, hdr[:]); err != nil {
		return 0, nil, err
	}
	l := binary.LittleEndian.Uint64(hdr[0:8])
	if l < 16 || l > 1<<24 {
		return 0, nil, fmt.Errorf("bad message length %d", l)
	}
	body = make([]byte, l-16)
	_, err = io.ReadFull(r, body)
	return binary.LittleEndian.Uint64(hdr[8:16]), body, err
}

func (p *poolPeer) hangUp() {
	p.fromCli.Close()
	p.toCli.Close()
}

func (p *poolPeer) serve() {
	defer close(p.done)
	defer p.hangUp()
	hello := make([]byte, 8)
	binary.LittleEndian.PutUint64(hello, desync.CaProtocolReadableStore)
	if peerWrite(p.toCli, desync.CaProtocolHello, hello) != nil {
		return
	}
	if typ, _, err := peerRead(p.fromCli); err != nil || typ != desync.CaProtocolHello {
		return
	}
	for {
		typ, body, err := peerRead(p.fromCli)
		if err != nil {
			return
		}
		switch typ {
		case desync.CaProtocolRequest:
			if len(body) < 40 {
				return
			}
			var id desync.ChunkID
			copy(id[:], body[8:40])
			atomic.AddInt64(&p.requests, 1)
			a, ok := p.behaviour[id]
			if !ok {
				a.kind = "missing"
			}
			switch a.kind {
			case "present", "invalid", "garbage":
				b := make([]byte, 40+len(a.payload))
				binary.LittleEndian.PutUint64(b[0:8], desync.CaProtocolChunkCompressed)
				copy(b[8:40], id[:])
				copy(b[40:], a.payload)
				if peerWrite(p.toCli, desync.CaProtocolChunk, b) != nil {
					return
				}
			case "abort":
				atomic.StoreInt32(&p.dead, 1)
				peerWrite(p.toCli, desync.CaProtocolAbort, make([]byte, 8))
				return
			case "die":
				atomic.StoreInt32(&p.dead, 1)
				return
			default: // missing: answer and stay
				if peerWrite(p.toCli, desync.CaProtocolMissing, id[:]) != nil {
					return
				}
			}
		case desync.CaProtocolGoodbye:
			atomic.StoreInt32(&p.goodbye, 1)
			return
		default:
			return
		}
	}
}

// awaitPolls waits for done for up to maxPolls waits of 2 ms each (it returns at once when done
// closes). Counting polls instead of reading a clock keeps a stalled process from producing a
// verdict: every poll is a separate wake-up of this goroutine.
func awaitPolls(done <-chan struct{}, maxPolls int) bool {
	t := time.NewTimer(2 * time.Millisecond)
	defer t.Stop()
	for i := 0; i < maxPolls; i++ {
		select {
		case <-done:
			return true
		case <-t.C:
			t.Reset(2 * time.Millisecond)
		}
	}
	select {
	case <-done:
		return true
	default:
		return false
	}
}

const (
	pollsProven   = 100  // the block is proven by the empty pool: 0.2 s of confirmation
	pollsLikely   = 250  // concurrent phase, pool empty and no progress anywhere
	pollsUnproven = 1500 // no progress anywhere for 3 s worth of polls
)

// deadSession is a session whose connection is gone; fed into the pool to release blocked callers.
func deadSession() *desync.Protocol {
	r, w := io.Pipe()
	r.Close()
	w.Close()
	return desync.NewProtocol(r, w)
}

func releaseBlocked(pool chan *desync.Protocol, done <-chan struct{}) bool {
	for i := 0; i < 2000; i++ {
		select {
		case <-done:
			return true
		case pool <- deadSession():
		default:
			time.Sleep(time.Millisecond)
		}
	}
	return false
}

type poolResult struct {
	res, detail string
	served      int // peer that received the request (-1: none; -2: not attributed)
	returned    bool
	ch          *desync.Chunk
}

func runPool(c PoolCase) (o hx.Outcome) {
	n := c.N
	if n < 1 {
		n = 1
	}
	if n > 8 {
		n = 8
	}
	k := len(c.Chunks)
	data := make([][]byte, k)
	ids := make([]desync.ChunkID, k)
	kinds := make([]string, k)
	behaviour := map[desync.ChunkID]poolAnswer{}
	for i, cs := range c.Chunks {
		data[i] = cs.bytes()
		ids[i] = chunkID(data[i])
		kinds[i] = "missing"
		if i < len(c.Kinds) {
			switch c.Kinds[i] {
			case "present", "invalid", "garbage", "abort", "die":
				kinds[i] = c.Kinds[i]
			}
		}
	}
	for i := range ids { // equal contents: the first chunk's behaviour wins
		for j := 0; j < i; j++ {
			if ids[j] == ids[i] {
				kinds[i] = kinds[j]
			}
		}
		a := poolAnswer{kind: kinds[i]}
		switch kinds[i] {
		case "present":
			a.payload = zCompress(data[i])
		case "invalid":
			other := append([]byte(nil), data[i]...)
			other[0] ^= 0xff
			a.payload = zCompress(other)
		case "garbage":
			a.payload = append([]byte("not a zstd frame "), data[i][:min(len(data[i]), 32)]...)
		}
		if _, dup := behaviour[ids[i]]; !dup {
			behaviour[ids[i]] = a
		}
	}

	// ---- sessions and the store
	pool := make(chan *desync.Protocol, n)
	rs, err := newPoolStore(pool, n)
	if err != nil {
		o.Class("ssh-pool:unavailable")
		o.Desc = map[string]any{"mode": "sshpool", "skipped": err.Error()}
		return o
	}
	peers := make([]*poolPeer, n)
	for i := range peers {
		p := &poolPeer{idx: i, done: make(chan struct{}), behaviour: behaviour}
		p.fromCli, p.cliW = io.Pipe()
		p.cliR, p.toCli = io.Pipe()
		peers[i] = p
		go p.serve()
	}
	defer func() {
		for _, p := range peers {
			p.cliR.Close()
			p.cliW.Close()
			p.hangUp()
			<-p.done
		}
	}()
	for i, p := range peers {
		s := desync.NewProtocol(p.cliR, p.cliW)
		flags, err := s.Initialize(desync.CaProtocolPullChunks)
		if err != nil || flags&desync.CaProtocolReadableStore == 0 {
			o.Fail("C14:ssh-pool:handshake", "session %d: Initialize against the stand-in peer failed: flags %x, %v", i, flags, err)
			return o
		}
		pool <- s
	}
	held := newHeldSet("ssh-pool")
	defer held.close()

	call := func(op PoolOp) (r poolResult) {
		i := op.Chunk
		if op.Op == "has" {
			has, err := rs.HasChunk(ids[i])
			r.res, r.detail = classifyHas(has, err)
		} else {
			ch, err := rs.GetChunk(ids[i])
			r.res, r.detail = classifyGet(ch, err, ids[i], data[i])
			if r.res == resOK {
				r.ch = ch
			}
		}
		r.returned = true
		return r
	}
	deadPossible := false // some session may have been ended by its peer
	judge := func(phase string, opi int, op PoolOp, r poolResult) {
		i := op.Chunk
		kind := kinds[i]
		what := fmt.Sprintf("%s op %d %s(chunk %d, %d bytes, peer answers %s; pool of %d): got %s %s", phase, opi, op.Op, i, len(data[i]), kind, n, r.res, clip(r.detail))
		want := map[string]string{"present": resOK, "missing": resMissing}[kind]
		if want == "" {
			want = resError
		}
		if r.served == -1 { // the request reached no peer: it went to a session whose peer had gone
			if r.res == resOK && kind == "present" {
				// the right bytes for the requested ID without a request to any peer: a store may remember what it pulled
				// (content-addressed data cannot go stale); nothing failed from the caller's point of view
				o.Class("ssh-pool:answered-without-peer")
				return
			}
			o.Class("ssh-pool:request-on-dead-session")
			if r.res != resError {
				o.Fail(sig("ssh-pool", "failure", map[string]string{resOK: resOK, resWrong: resOK, resMissing: resMissing}[r.res]), "session dead — %s", what)
			}
			return
		}
		if r.res == want {
			return
		}
		if r.served == -2 && deadPossible && r.res == resError {
			return // concurrent phase: the request may have landed on a dead session
		}
		exp := map[string]string{resOK: "ok", resMissing: "missing", resError: "failure"}[want]
		got := r.res
		if want == resError && got == resWrong {
			got = resOK
		}
		o.Fail(sig("ssh-pool", exp, got), "%s", what)
	}
	served := func(before []int64) int {
		s := -1
		for i, p := range peers {
			if atomic.LoadInt64(&p.requests) != before[i] {
				s = i
			}
		}
		return s
	}
	snapshot := func() []int64 {
		b := make([]int64, len(peers))
		for i, p := range peers {
			b[i] = atomic.LoadInt64(&p.requests)
		}
		return b
	}

	if c.Stress > 0 {
		var present []int
		for i, k := range kinds {
			if k == "present" {
				present = append(present, i)
			}
		}
		if len(present) >= 2 {
			rounds := min(c.Stress, 1000)
			type mixup struct {
				i      int
				res    string
				detail string
			}
			var smu sync.Mutex
			var bad []mixup
			var swg sync.WaitGroup
			for g := 0; g < 2*n+2; g++ {
				swg.Add(1)
				go func(g int) {
					defer swg.Done()
					for r := 0; r < rounds; r++ {
						a, b := present[(g+r)%len(present)], present[(g+r+1)%len(present)]
						rs.HasChunk(ids[a])
						ch, err := rs.GetChunk(ids[b])
						if res, det := classifyGet(ch, err, ids[b], data[b]); res != resOK {
							smu.Lock()
							bad = append(bad, mixup{b, res, det})
							smu.Unlock()
							return
						}
					}
				}(g)
			}
			swg.Wait()
			o.Class("ssh-pool:stress")
			if n >= 2 {
				o.Class("ssh-pool:stress:n>=2")
			}
			if len(bad) > 0 {
				o.Fail(sig("ssh-pool", "ok", bad[0].res)+":concurrent-mixed-ids", "%d goroutines probing one present chunk and reading another, %d rounds each, pool of %d live sessions: GetChunk(chunk %d): %s %s",
					2*n+2, rounds, n, bad[0].i, bad[0].res, clip(bad[0].detail))
			}
		}
	}

	failures, okAfter, blocked := 0, false, false
	var shape []string
	noteOp := func(op PoolOp) {
		kind := kinds[op.Chunk]
		o.Class("ssh-pool:answer:" + kind)
		if kind == "abort" || kind == "die" {
			deadPossible = true
		}
		if kind != "present" {
			failures++
		} else if failures > n {
			okAfter = true
		}
		shape = append(shape, op.Op[:1]+kind[:1])
	}
	// sequential: one request in its own goroutine, so that a block can be observed and released
	sequential := func(phase string, opi int, op PoolOp) bool {
		proven := len(pool) == 0 // nothing is in flight: nobody can ever put a session back
		before := snapshot()
		var r poolResult
		done := make(chan struct{})
		go func() { r = call(op); close(done) }()
		polls := pollsUnproven
		if proven {
			polls = pollsProven
		}
		if !awaitPolls(done, polls) {
			blocked = true
			o.Fail("C14:ssh-pool:request-blocks", "%s op %d %s(chunk %d, peer answers %s) does not return: %d request(s) with a failing answer came before it on a pool of %d sessions, %d session(s) left in the pool (pool empty and nothing in flight: %v)",
				phase, opi, op.Op, op.Chunk, kinds[op.Chunk], failures, n, len(pool), proven)
			if !releaseBlocked(pool, done) {
				o.Fail("C14:ssh-pool:stuck", "the blocked request could not be released")
			}
			return false
		}
		noteOp(op)
		r.served = served(before)
		judge(phase, opi, op, r)
		if r.ch != nil {
			held.hold(&heldChunk{ch: r.ch, id: ids[op.Chunk], want: data[op.Chunk], seq: opi, label: fmt.Sprintf("%s op %d (chunk %d, pool of %d)", phase, opi, op.Chunk, n)})
		}
		return true
	}

	workers := c.Workers
	if workers < 1 {
		workers = 1
	}
	if workers > 8 {
		workers = 8
	}
	valid := func(op PoolOp) bool { return op.Chunk >= 0 && op.Chunk < k }
	if workers == 1 {
		for opi, op := range c.Ops {
			if !valid(op) {
				continue
			}
			if !sequential("history", opi, op) {
				break
			}
		}
	} else {
		// concurrent: every worker issues its requests in order; results are judged after the join
		results := make([]poolResult, len(c.Ops))
		var completed int64
		var wg sync.WaitGroup
		for w := 0; w < workers; w++ {
			wg.Add(1)
			go func(w int) {
				defer wg.Done()
				for opi, op := range c.Ops {
					if !valid(op) || ((op.Worker%workers)+workers)%workers != w {
						continue
					}
					r := call(op)
					r.served = -2
					results[opi] = r
					atomic.AddInt64(&completed, 1)
				}
			}(w)
		}
		joined := make(chan struct{})
		go func() { wg.Wait(); close(joined) }()
		progress := func() int64 {
			p := atomic.LoadInt64(&completed)
			for _, peer := range peers {
				p += atomic.LoadInt64(&peer.requests)
			}
			return p
		}
		last, stale := progress(), 0
		for {
			if awaitPolls(joined, 1) {
				break
			}
			if p := progress(); p != last {
				last, stale = p, 0
				continue
			}
			stale++
			if stale >= pollsUnproven || (stale >= pollsLikely && len(pool) == 0) {
				blocked = true
				total := 0
				for _, op := range c.Ops {
					if valid(op) {
						total++
					}
				}
				o.Fail("C14:ssh-pool:request-blocks", "concurrent history (%d workers, pool of %d): %d of %d requests returned, then nothing moved any more (no request returned, no peer received anything over %d polls); %d session(s) left in the pool",
					workers, n, atomic.LoadInt64(&completed), total, stale, len(pool))
				if !releaseBlocked(pool, joined) {
					o.Fail("C14:ssh-pool:stuck", "the blocked requests could not be released")
				}
				break
			}
		}
		if !blocked {
			for _, op := range c.Ops {
				if valid(op) {
					noteOp(op)
				}
			}
			for opi, op := range c.Ops {
				if !valid(op) || !results[opi].returned {
					continue
				}
				judge("history", opi, op, results[opi])
				if r := results[opi]; r.ch != nil {
					held.hold(&heldChunk{ch: r.ch, id: ids[op.Chunk], want: data[op.Chunk], seq: opi, label: fmt.Sprintf("history op %d (chunk %d, pool of %d, %d workers)", opi, op.Chunk, n, workers)})
				}
			}
			o.Class("ssh-pool:concurrent")
		}
	}
	if !blocked {
		for opi, op := range c.Tail {
			if !valid(op) {
				continue
			}
			if !sequential("tail", opi, op) {
				break
			}
			o.Class("ssh-pool:further-request")
		}
	}
	if !blocked {
		held.consumeAll(&o, "after the history")
		// Close takes every session out of the pool: with nothing in flight it cannot return if one is gone
		left := len(pool)
		proven := left < n
		done := make(chan struct{})
		go func() { rs.Close(); close(done) }()
		polls := pollsUnproven
		if proven {
			polls = pollsProven
		}
		if !awaitPolls(done, polls) {
			blocked = true
			o.Fail("C14:ssh-pool:close-blocks", "Close() does not return after the history: %d of %d session(s) were left in the pool, %d request(s) with a failing answer in the history", left, n, failures)
			if !releaseBlocked(pool, done) {
				o.Fail("C14:ssh-pool:stuck", "the blocked Close could not be released")
			}
		} else {
			o.Class("ssh-pool:close")
		}
	}

	o.Class(fmt.Sprintf("ssh-pool:n=%d", n))
	if workers == 1 {
		o.Class("ssh-pool:sequential")
	}
	if failures > n {
		o.Class("ssh-pool:failures>pool-size")
	}
	if okAfter {
		o.Class("ssh-pool:ok-after-failures>pool-size")
	}
	o.Nontrivial = failures > n
	lens := make([]int, k)
	for i := range data {
		lens[i] = len(data[i])
	}
	o.Desc = map[string]any{"mode": "sshpool", "n": n, "workers": workers, "chunk_lens": lens, "answers": kinds, "history": strings.Join(shape, " "), "failures": failures, "tail": len(c.Tail)}
	o.Key = fmt.Sprintf("sshpool/%d/%d/%v/%v/%s/%d", n, workers, lens, kinds, strings.Join(shape, ""), len(c.Tail))
	return o
}

// TestFixedPool: pool sizes 1..3 x every failing answer: n+1 failing requests, a present chunk, a
// HasChunk, one more failure, Close — sequentially and from three goroutines. One shard only.
func TestFixedPool(t *testing.T) {
	if hx.Shard() != 3%hx.Shards() {
		t.Skip()
	}
	count := 0
	for n := 1; n <= 3; n++ {
		for _, kind := range []string{"missing", "invalid", "garbage", "abort", "die"} {
			for _, workers := range []int{1, 3} {
				pc := PoolCase{N: n, Workers: workers,
					Chunks: []ChunkSpec{{Kind: "text", Len: 2000, Seed: 1}, {Kind: "rand", Len: 700, Seed: 2}, {Kind: "rand", Len: 40, Seed: 3}},
					Kinds:  []string{"present", kind, "missing"}}
				pc.Ops = append(pc.Ops, PoolOp{Op: "get", Chunk: 0})
				for i := 0; i <= n; i++ {
					pc.Ops = append(pc.Ops, PoolOp{Op: []string{"get", "has"}[i%2], Chunk: 1, Worker: i})
				}
				pc.Ops = append(pc.Ops, PoolOp{Op: "get", Chunk: 0, Worker: 1}, PoolOp{Op: "get", Chunk: 2, Worker: 2})
				pc.Tail = []PoolOp{{Op: "get", Chunk: 0}, {Op: "has", Chunk: 0}, {Op: "get", Chunk: 1}, {Op: "has", Chunk: 2}}
				count++
				if !hx.Case(t, spec, Case{Mode: "sshpool", Pool: &pc}) {
					return
				}
			}
		}
	}
	hx.Note("fixed_pool_cases", count)
}
