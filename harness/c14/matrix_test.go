package c14

import (
	"bytes"
	"fmt"
	"net/http"
	"os"
	"strings"
	"sync"
	"testing"

	"github.com/folbricht/desync"
	"pgregory.net/rapid"

	"verifharness/internal/hx"
)

// MOp is one client operation of a matrix history.
type MOp struct {
	Op    string `json:"op"` // get | has | put | putbad
	Chunk int    `json:"chunk"`
}

// MatrixCase: one configuration of the three hops plus a history of operations.
type MatrixCase struct {
	ClientUnc       bool        `json:"client_unc"`
	ServerUnc       bool        `json:"server_unc"`
	UpstreamUnc     bool        `json:"upstream_unc"`
	ClientSkip      bool        `json:"client_skip"`
	ServerSkipWrite bool        `json:"server_skip_write"`
	UpstreamSkip    bool        `json:"upstream_skip"`
	Writable        bool        `json:"writable"`
	Retry           int         `json:"retry"`
	Chunks          []ChunkSpec `json:"chunks"`
	Pre             []string    `json:"pre"` // per chunk: present | missing | other | corrupt | trunc | garbage | raw | empty (damaged upstream object, see damagedObject)
	Ops             []MOp       `json:"ops"`
}

// transferLimit is the default maximum chunk size (256 KiB). Nothing in the statement bounds the
// size of a chunk or of its transfer form: indexes made with a larger maximum exist, and the
// compressed form of an incompressible chunk is larger than the chunk.
const transferLimit = 256 << 10

// genBigChunkSpec: a chunk whose transfer form is around or well above 256 KiB.
func genBigChunkSpec(t *rapid.T) ChunkSpec {
	kind := rapid.SampledFrom([]string{"rand", "rand", "rand", "rand", "text", "period"}).Draw(t, "bigkind")
	var n int
	switch rapid.IntRange(0, 7).Draw(t, "biglenclass") {
	case 0, 1, 4, 5:
		n = rapid.IntRange(transferLimit-40, transferLimit+8).Draw(t, "biglen") // zstd framing of incompressible data: +9..+20 bytes
	case 2:
		n = transferLimit + rapid.IntRange(-1, 1).Draw(t, "biglen")
	case 3, 6:
		n = rapid.IntRange(transferLimit+1, 300<<10).Draw(t, "biglen")
	default:
		n = rapid.IntRange(300<<10, 1<<20).Draw(t, "biglen")
	}
	return ChunkSpec{Kind: kind, Len: n, Seed: rapid.Uint64().Draw(t, "bigseed")}
}

// genMatrixBig: a short history of put/get/has on a chunk with a large transfer form (about one
// matrix case in 40), mostly on a writable server that agrees with the client.
func genMatrixBig(t *rapid.T) MatrixCase {
	var c MatrixCase
	c.ClientUnc = rapid.Bool().Draw(t, "client_unc")
	c.ServerUnc = c.ClientUnc
	if rapid.IntRange(0, 9).Draw(t, "disagree") == 0 {
		c.ServerUnc = !c.ClientUnc
	}
	c.UpstreamUnc = rapid.Bool().Draw(t, "upstream_unc")
	c.ClientSkip = rapid.Bool().Draw(t, "client_skip")
	c.ServerSkipWrite = rapid.Bool().Draw(t, "server_skip_write")
	c.UpstreamSkip = rapid.Bool().Draw(t, "upstream_skip")
	c.Writable = rapid.IntRange(0, 9).Draw(t, "writable") > 0
	c.Retry = rapid.IntRange(0, 2).Draw(t, "retry")
	c.Chunks = append(c.Chunks, genBigChunkSpec(t))
	c.Pre = append(c.Pre, rapid.SampledFrom([]string{"missing", "missing", "present", "other"}).Draw(t, "pre"))
	if rapid.IntRange(0, 2).Draw(t, "second") == 0 {
		c.Chunks = append(c.Chunks, genChunkSpec(t, "c"))
		c.Pre = append(c.Pre, rapid.SampledFrom([]string{"present", "missing"}).Draw(t, "pre"))
	}
	nops := rapid.IntRange(1, 3).Draw(t, "nops")
	for i := 0; i < nops; i++ {
		op := MOp{Op: rapid.SampledFrom([]string{"put", "put", "put", "get", "get", "has", "putbad"}).Draw(t, "op")}
		if len(c.Chunks) > 1 && rapid.IntRange(0, 3).Draw(t, "chunk") == 0 {
			op.Chunk = 1
		}
		c.Ops = append(c.Ops, op)
	}
	return c
}

// transferMeter sits in front of the chunk server and notes, independently of both sides, the
// size of the last PUT body (Content-Length) and of the last GET response.
type transferMeter struct {
	h       http.Handler
	mu      sync.Mutex
	putLen  int64
	getLen  int64
	getCode int
}

type countingResponse struct {
	http.ResponseWriter
	n    int64
	code int
}

func (c *countingResponse) WriteHeader(code int) {
	if c.code == 0 {
		c.code = code
	}
	c.ResponseWriter.WriteHeader(code)
}

func (c *countingResponse) Write(b []byte) (int, error) {
	if c.code == 0 {
		c.code = http.StatusOK
	}
	n, err := c.ResponseWriter.Write(b)
	c.n += int64(n)
	return n, err
}

func (m *transferMeter) ServeHTTP(w http.ResponseWriter, r *http.Request) {
	switch r.Method {
	case "PUT":
		m.mu.Lock()
		m.putLen = r.ContentLength
		m.mu.Unlock()
		m.h.ServeHTTP(w, r)
	case "GET":
		cw := &countingResponse{ResponseWriter: w}
		m.h.ServeHTTP(cw, r)
		m.mu.Lock()
		m.getLen, m.getCode = cw.n, cw.code
		m.mu.Unlock()
	default:
		m.h.ServeHTTP(w, r)
	}
}

func (m *transferMeter) lastPut() int64 {
	m.mu.Lock()
	defer m.mu.Unlock()
	n := m.putLen
	m.putLen = -1
	return n
}

func (m *transferMeter) lastGet() (int64, int) {
	m.mu.Lock()
	defer m.mu.Unlock()
	n, code := m.getLen, m.getCode
	m.getLen, m.getCode = -1, 0
	return n, code
}

// bodyClasses labels a transfer of n bytes relative to the 256 KiB mark.
func bodyClasses(o *hx.Outcome, op string, n int64, serverUnc bool, extra ...string) {
	form := "compressed"
	if serverUnc {
		form = "uncompressed"
	}
	switch n {
	case transferLimit - 1:
		o.Class("matrix:" + op + ":body=256KiB-1:" + form)
	case transferLimit:
		o.Class("matrix:" + op + ":body=256KiB:" + form)
	case transferLimit + 1:
		o.Class("matrix:" + op + ":body=256KiB+1:" + form)
	}
	if n > transferLimit {
		o.Class("matrix:" + op + ":body>256KiB:" + form)
		for _, e := range extra {
			o.Class("matrix:" + op + ":body>256KiB:" + e)
		}
	}
}

// damagedObject returns the bytes of a damaged upstream object of the given kind for a chunk with
// plain content data, and whether the object is UNDECODABLE in the upstream store's format (a hop
// that has to turn it into plain data cannot) as opposed to merely holding wrong content.
//
//	trunc    the first half of the object (a cut zstd frame / cut plain data)
//	garbage  bytes that are not a zstd frame
//	raw      the chunk in the other format: plain bytes in a compressed slot / a zstd frame in a plain slot
//	empty    an empty file
//
// An uncompressed store has nothing to decode: every damage there is wrong content. In a
// compressed store the object is undecodable unless the independent decoder accepts it (then it
// is wrong content); the empty file is not a frame.
func damagedObject(kind string, data []byte, upstreamUnc bool) (obj []byte, undecodable bool) {
	good := wire(data, upstreamUnc)
	switch kind {
	case "trunc":
		obj = good[:len(good)/2]
	case "garbage":
		obj = append([]byte("this is not a zstd frame: "), data[:min(len(data), 64)]...)
	case "raw":
		obj = wire(data, !upstreamUnc)
	default: // empty
		obj = []byte{}
	}
	if upstreamUnc {
		return obj, false
	}
	if len(obj) == 0 {
		return obj, true
	}
	_, err := zDecompress(obj)
	return obj, err != nil
}

func genMatrix(t *rapid.T) MatrixCase {
	if rapid.IntRange(0, 39).Draw(t, "big") == 0 {
		return genMatrixBig(t)
	}
	var c MatrixCase
	c.ClientUnc = rapid.Bool().Draw(t, "client_unc")
	c.ServerUnc = rapid.Bool().Draw(t, "server_unc")
	if rapid.IntRange(0, 3).Draw(t, "force_agree") > 0 { // 7/8 of the cases agree
		c.ServerUnc = c.ClientUnc
	}
	c.UpstreamUnc = rapid.Bool().Draw(t, "upstream_unc")
	c.ClientSkip = rapid.Bool().Draw(t, "client_skip")
	c.ServerSkipWrite = rapid.Bool().Draw(t, "server_skip_write")
	c.UpstreamSkip = rapid.Bool().Draw(t, "upstream_skip")
	c.Writable = rapid.IntRange(0, 3).Draw(t, "writable") > 0
	c.Retry = rapid.IntRange(0, 2).Draw(t, "retry")
	n := rapid.IntRange(1, 3).Draw(t, "nchunks")
	for i := 0; i < n; i++ {
		c.Chunks = append(c.Chunks, genChunkSpec(t, "c"))
		c.Pre = append(c.Pre, rapid.SampledFrom([]string{"present", "present", "present", "present", "missing", "missing", "other", "corrupt",
			"trunc", "garbage", "raw", "empty"}).Draw(t, "pre"))
	}
	nops := rapid.IntRange(1, 8).Draw(t, "nops")
	for i := 0; i < nops; i++ {
		c.Ops = append(c.Ops, MOp{
			Op:    rapid.SampledFrom([]string{"get", "get", "get", "get", "has", "has", "has", "put", "put", "putbad"}).Draw(t, "op"),
			Chunk: rapid.IntRange(0, n-1).Draw(t, "chunk"),
		})
	}
	return c
}

func runMatrix(c MatrixCase) (o hx.Outcome) {
	dir := hx.Scratch("c14m")
	defer os.RemoveAll(dir)

	// ---- content, IDs, planted upstream state (back door)
	n := len(c.Chunks)
	data := make([][]byte, n)
	bad := make([][]byte, n) // same length, different content: does not hash to ids[i]
	ids := make([]desync.ChunkID, n)
	state := make([]string, n) // present | missing | corrupt | unknown
	putOK := make([]bool, n)
	for i, cs := range c.Chunks {
		data[i] = cs.bytes()
		// two chunks with equal content share an ID and a file: make them distinct
		for j := 0; j < i; j++ {
			if bytes.Equal(data[j], data[i]) {
				data[i] = append(append([]byte(nil), data[i]...), byte(i+1))
			}
		}
		ids[i] = chunkID(data[i])
		bad[i] = append([]byte(nil), data[i]...)
		bad[i][0] ^= 0xff
		pre := "missing"
		if i < len(c.Pre) {
			pre = c.Pre[i]
		}
		switch pre {
		case "present":
			plantChunk(dir, ids[i], data[i], c.UpstreamUnc)
			state[i] = "present"
		case "other": // only in the format this upstream store is not configured for
			plantChunk(dir, ids[i], data[i], !c.UpstreamUnc)
			state[i] = "missing"
		case "corrupt":
			plantChunk(dir, ids[i], bad[i], c.UpstreamUnc)
			state[i] = "corrupt"
		case "trunc", "garbage", "raw", "empty":
			obj, undec := damagedObject(pre, data[i], c.UpstreamUnc)
			plantRaw(dir, ids[i], obj, c.UpstreamUnc)
			state[i] = "corrupt"
			if undec {
				state[i] = "undecodable"
			}
			o.Class("matrix:damage:" + pre)
			pre = state[i]
		default:
			pre = "missing"
			state[i] = "missing"
		}
		o.Class("matrix:state:" + map[string]string{"present": "present", "missing": "missing", "corrupt": "corrupt", "other": "other-format", "undecodable": "undecodable"}[pre])
	}

	// ---- the three hops
	up, err := desync.NewLocalStore(dir, desync.StoreOptions{Uncompressed: c.UpstreamUnc, SkipVerify: c.UpstreamSkip})
	if err != nil {
		panic(err)
	}
	meter := &transferMeter{h: desync.NewHTTPHandler(up, c.Writable, c.ServerSkipWrite, serverConverters(c.ServerUnc), ""), putLen: -1, getLen: -1}
	srv := startServer(meter, true)
	defer srv.Close()
	retry := c.Retry
	if retry < 0 || retry > 4 {
		retry = 0
	}
	client, err := desync.NewRemoteHTTPStore(mustURL(srv), clientOptions(c.ClientUnc, c.ClientSkip, retry))
	if err != nil {
		panic(err)
	}
	defer client.Close()

	agree := c.ClientUnc == c.ServerUnc
	cfg := fmt.Sprintf("client_unc=%v server_unc=%v upstream_unc=%v skip(client=%v serverwrite=%v upstream=%v) writable=%v",
		c.ClientUnc, c.ServerUnc, c.UpstreamUnc, c.ClientSkip, c.ServerSkipWrite, c.UpstreamSkip, c.Writable)
	fail := func(s string, opi int, op MOp, format string, a ...any) {
		o.Fail(s, "op %d %s(chunk %d, %d bytes, state %s) [%s]: %s", opi, op.Op, op.Chunk, len(data[op.Chunk]), state[op.Chunk], cfg, fmt.Sprintf(format, a...))
	}

	var shape []string
	for opi, op := range c.Ops {
		if op.Chunk < 0 || op.Chunk >= n {
			continue
		}
		i := op.Chunk
		st := state[i]
		shape = append(shape, op.Op[:1]+st[:1])
		switch op.Op {
		case "get":
			o.Class("matrix:op:get")
			ch, err := client.GetChunk(ids[i])
			res, detail := classifyGet(ch, err, ids[i], data[i])
			if putOK[i] {
				o.Class("matrix:read-after-put")
			}
			gl, code := meter.lastGet()
			if agree && st == "present" && code == http.StatusOK {
				bodyClasses(&o, "get", gl, c.ServerUnc)
			}
			serverDecodes := c.ServerUnc != c.UpstreamUnc // the server has to turn the upstream object into plain data
			if st == "undecodable" && serverDecodes && code == http.StatusOK {
				// the server could not have produced the chunk: its own failure is a server error, not a delivery
				fail("C14:get:server-failure-as-200", opi, op, "the upstream object cannot be decoded and the server has to convert it, but it answered 200 with a body of %d bytes", gl)
			}
			if !agree {
				// only an error or the correct data are acceptable
				switch {
				case res == resWrong:
					fail(sig("get", "disagree", resWrong), opi, op, "%s", detail)
				case res == resOK && st != "present" && st != "unknown":
					fail(sig("get", st, resOK), opi, op, "chunk delivered although the upstream store does not hold it")
				}
				continue
			}
			switch st {
			case "present":
				if c.ServerUnc == c.UpstreamUnc {
					o.Class("matrix:passthrough")
				} else {
					o.Class("matrix:recompress")
				}
				if res != resOK {
					fail(sig("get", "ok", res), opi, op, "stored chunk not delivered unchanged: %s", clip(detail))
				}
			case "missing":
				if res != resMissing {
					fail(sig("get", "missing", res), opi, op, "chunk absent upstream, want ChunkMissing, got %s %s", res, clip(detail))
				}
			case "undecodable":
				how := map[bool]string{true: "server-converts", false: "pass-through"}[serverDecodes]
				o.Class("matrix:get:" + how + ":upstream-undecodable:" + map[bool]string{true: "unverified-read", false: "verified-read"}[c.UpstreamSkip])
				o.Class("matrix:get:upstream-undecodable:" + map[bool]string{true: "client-skips", false: "client-verifies"}[c.ClientSkip])
				if !serverDecodes && c.UpstreamSkip && c.ClientSkip {
					// bytes passed through by hops that were all told not to look at them: nobody's to catch
					o.Class("matrix:undecodable-unverified")
					break
				}
				// the server had to decode (and could not), or a verifying hop exists: a failure
				switch res {
				case resMissing:
					fail(sig("get", "failure", resMissing), opi, op, "the upstream object cannot be decoded (server converts: %v); reported as missing: %s", serverDecodes, clip(detail))
				case resOK, resWrong:
					fail(sig("get", "failure", resOK), opi, op, "the upstream object cannot be decoded (server converts: %v); GetChunk returned without error (%s)", serverDecodes, clip(detail))
				}
			case "corrupt":
				if c.UpstreamSkip && c.ClientSkip {
					o.Class("matrix:corrupt-unverified")
					break
				}
				o.Class("matrix:corrupt-verified")
				switch res {
				case resMissing:
					fail(sig("get", "failure", resMissing), opi, op, "upstream file does not hash to its ID and a verifying hop exists; reported as missing: %s", clip(detail))
				case resOK, resWrong:
					fail(sig("get", "failure", resOK), opi, op, "upstream file does not hash to its ID and a verifying hop exists; chunk delivered without error (%s)", clip(detail))
				}
			}
		case "has":
			o.Class("matrix:op:has")
			has, err := client.HasChunk(ids[i])
			res, detail := classifyHas(has, err)
			if putOK[i] {
				o.Class("matrix:read-after-put")
			}
			if !agree {
				if res == resOK && st == "missing" {
					fail(sig("has", "missing", resOK), opi, op, "HasChunk true although the upstream store does not hold the chunk")
				}
				continue
			}
			switch st {
			case "present":
				if res != resOK {
					fail(sig("has", "ok", res), opi, op, "chunk present upstream, HasChunk gave %s %s", res, clip(detail))
				}
			case "missing":
				if res != resMissing || err != nil {
					r := res
					if err != nil {
						r = resError
					}
					fail(sig("has", "missing", r), opi, op, "chunk absent upstream, want (false, nil), got (%v, %v)", has, err)
				}
			}
		case "put", "putbad":
			o.Class("matrix:op:" + op.Op)
			content := data[i]
			if op.Op == "putbad" {
				content = bad[i]
			}
			// NewChunkWithID(skipVerify) is how a chunk with a given ID and unchecked data is built
			ch, err := desync.NewChunkWithID(ids[i], append([]byte(nil), content...), true)
			if err != nil {
				panic(err)
			}
			if op.Op == "put" && opi%2 == 0 {
				ch = desync.NewChunk(append([]byte(nil), content...))
			}
			err = client.StoreChunk(ch)
			res, detail := classifyPut(err)
			if pl := meter.lastPut(); op.Op == "put" && c.Writable && agree {
				// a valid chunk, a healthy writable server, agreeing formats: the put must succeed
				bodyClasses(&o, "put", pl, c.ServerUnc, map[bool]string{true: "skip-verify-write", false: "verify-write"}[c.ServerSkipWrite])
			}
			stored, exists, rerr := readPlanted(dir, ids[i], c.UpstreamUnc)
			if res == resOK {
				// success must mean: the upstream store now holds exactly what was sent, in its own format
				switch {
				case rerr != nil:
					fail("C14:put:success-not-stored", opi, op, "StoreChunk returned nil but the upstream file is unreadable: %v", rerr)
				case !exists:
					fail("C14:put:success-not-stored", opi, op, "StoreChunk returned nil but the upstream store has no file %s", chunkPath("", ids[i], c.UpstreamUnc))
				case !bytes.Equal(stored, content):
					fail("C14:put:success-not-stored", opi, op, "StoreChunk returned nil but the upstream file holds %d bytes (%s), sent %d bytes (%s)", len(stored), hash8(stored), len(content), hash8(content))
				}
			}
			switch {
			case !c.Writable:
				o.Class("matrix:put-readonly")
				if res == resOK {
					fail(sig("put-readonly", "failure", resOK), opi, op, "server is not writable but StoreChunk returned nil")
				}
			case !agree:
				if res == resOK {
					state[i] = "unknown"
				}
			case op.Op == "put":
				if res != resOK {
					fail(sig("put", "ok", res), opi, op, "writable server, agreeing formats, valid chunk: StoreChunk failed: %s", clip(detail))
					state[i] = "unknown"
				} else {
					state[i] = "present"
					putOK[i] = true
				}
			default: // putbad on a writable, agreeing server
				if !c.ServerSkipWrite {
					o.Class("matrix:putbad-verified")
					if res == resOK {
						fail(sig("put-invalid", "failure", resOK), opi, op, "server verifies writes, data does not hash to the ID, but StoreChunk returned nil")
						state[i] = "unknown"
					}
				} else if res == resOK {
					state[i] = "corrupt"
				} else {
					state[i] = "unknown"
				}
			}
		}
	}

	differ := !(c.ClientUnc == c.ServerUnc && c.ServerUnc == c.UpstreamUnc)
	o.Nontrivial = differ
	if agree {
		o.Class("matrix:agree")
	} else {
		o.Class("matrix:disagree")
	}
	if c.ServerUnc != c.UpstreamUnc {
		o.Class("matrix:hops-differ")
	}
	for _, f := range []struct {
		on bool
		l  string
	}{{c.ClientUnc, "client-unc"}, {c.ServerUnc, "server-unc"}, {c.UpstreamUnc, "upstream-unc"}, {c.Writable, "writable"}, {!c.Writable, "readonly"},
		{c.ClientSkip, "skip:client"}, {c.ServerSkipWrite, "skip:server-write"}, {c.UpstreamSkip, "skip:upstream"}} {
		if f.on {
			o.Class("matrix:" + f.l)
		}
	}
	lens := make([]int, n)
	for i := range data {
		lens[i] = len(data[i])
	}
	bits := func(bs ...bool) string {
		var sb strings.Builder
		for _, b := range bs {
			if b {
				sb.WriteByte('1')
			} else {
				sb.WriteByte('0')
			}
		}
		return sb.String()
	}
	cfgBits := bits(c.ClientUnc, c.ServerUnc, c.UpstreamUnc, c.ClientSkip, c.ServerSkipWrite, c.UpstreamSkip, c.Writable)
	o.Desc = map[string]any{"mode": "matrix", "client_unc": c.ClientUnc, "server_unc": c.ServerUnc, "upstream_unc": c.UpstreamUnc,
		"skip": bits(c.ClientSkip, c.ServerSkipWrite, c.UpstreamSkip), "writable": c.Writable, "chunk_lens": lens, "pre": c.Pre, "history": strings.Join(shape, " ")}
	o.Key = fmt.Sprintf("matrix/%s/%v/%s/%v", cfgBits, c.Pre, strings.Join(shape, ""), lens)
	return o
}

// TestFixedLarge: fixed cases around the 256 KiB mark. Uncompressed hops: raw chunk lengths
// 256 KiB-1, 256 KiB, 256 KiB+1 and 300 KiB / 1 MiB; compressed hops: incompressible chunks whose
// zstd transfer form sweeps through 256 KiB-1, 256 KiB, 256 KiB+1 (the framing overhead is taken
// from the independent encoder, +-6 bytes; the classes matrix:put:body=... show what was hit),
// plus 300 KiB and 1 MiB. Each with write verification on and off and both upstream formats:
// put, get, has on a missing chunk and get on a planted one. One shard only.
func TestFixedLarge(t *testing.T) {
	if hx.Shard() != 1%hx.Shards() {
		t.Skip()
	}
	overhead := len(zCompress(ChunkSpec{Kind: "rand", Len: transferLimit, Seed: 1}.bytes())) - transferLimit
	type lc struct {
		unc bool
		n   int
	}
	var lens []lc
	for _, n := range []int{transferLimit - 1, transferLimit, transferLimit + 1, 300 << 10, 1 << 20} {
		lens = append(lens, lc{true, n})
	}
	for d := -6; d <= 6; d++ {
		lens = append(lens, lc{false, transferLimit - overhead + d})
	}
	lens = append(lens, lc{false, transferLimit}, lc{false, 300 << 10}, lc{false, 1 << 20})
	count := 0
	for _, l := range lens {
		for _, skipWrite := range []bool{false, true} {
			for _, upUnc := range []bool{false, true} {
				for _, pre := range []string{"missing", "present"} {
					ops := []MOp{{Op: "put"}, {Op: "get"}, {Op: "has"}}
					if pre == "present" {
						if skipWrite { // the planted variant does not depend on the write option: once is enough
							continue
						}
						ops = []MOp{{Op: "get"}, {Op: "has"}}
					}
					mc := MatrixCase{ClientUnc: l.unc, ServerUnc: l.unc, UpstreamUnc: upUnc, ServerSkipWrite: skipWrite, Writable: true,
						Chunks: []ChunkSpec{{Kind: "rand", Len: l.n, Seed: uint64(l.n)}}, Pre: []string{pre}, Ops: ops}
					count++
					if !hx.Case(t, spec, Case{Mode: "matrix", Matrix: &mc}) {
						return
					}
				}
			}
		}
	}
	hx.Note("fixed_large_cases", count)
}

// TestFixedDamaged: every (upstream format, server format, damage kind) x upstream read verified
// or not x client verifying or not, client in the server's format: get, has, get on the damaged
// object, for a small and a mid-sized chunk. One shard only.
func TestFixedDamaged(t *testing.T) {
	if hx.Shard() != 2%hx.Shards() {
		t.Skip()
	}
	count := 0
	for _, upUnc := range []bool{false, true} {
		for _, srvUnc := range []bool{false, true} {
			for _, kind := range []string{"trunc", "garbage", "raw", "empty"} {
				for _, upSkip := range []bool{false, true} {
					for _, clSkip := range []bool{false, true} {
						for _, cs := range []ChunkSpec{{Kind: "text", Len: 9000, Seed: 3}, {Kind: "rand", Len: 1, Seed: 4}} {
							mc := MatrixCase{ClientUnc: srvUnc, ServerUnc: srvUnc, UpstreamUnc: upUnc, ClientSkip: clSkip, UpstreamSkip: upSkip,
								ServerSkipWrite: true, Retry: count % 3, Chunks: []ChunkSpec{cs}, Pre: []string{kind},
								Ops: []MOp{{Op: "get"}, {Op: "has"}, {Op: "get"}}}
							count++
							if !hx.Case(t, spec, Case{Mode: "matrix", Matrix: &mc}) {
								return
							}
						}
					}
				}
			}
		}
	}
	hx.Note("fixed_damaged_cases", count)
}
