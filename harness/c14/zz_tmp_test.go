package c14

import (
	"testing"
	"time"

	"pgregory.net/rapid"
)

func TestZZBigTiming(t *testing.T) {
	var total time.Duration
	n := 0
	rapid.Check(t, func(rt *rapid.T) {
		c := genMatrixBig(rt)
		t0 := time.Now()
		runMatrix(c)
		total += time.Since(t0)
		n++
	})
	t.Logf("big cases: %d, total %v, avg %v", n, total, total/time.Duration(n))
}
