package c14

import (
	"bytes"
	"fmt"
	"io"
	"net"
	"net/http"
	"strconv"
	"strings"
	"sync"

	"github.com/folbricht/desync"
	"pgregory.net/rapid"

	"verifharness/internal/hx"
)

// ScriptCase: one client call against a server that answers attempt k with Script[k]
// (the last entry repeats if the client asks more often than the script is long).
type ScriptCase struct {
	Method     string    `json:"method"` // getchunk | haschunk | storechunk | getindex | storeindex
	Retry      int       `json:"retry"`  // StoreOptions.ErrorRetry
	Script     []string  `json:"script"` // 200 | 404 | 400 | 401 | 403 | 500 | 502 | 503 | reset | rst | short
	ClientUnc  bool      `json:"client_unc"`
	ClientSkip bool      `json:"client_skip"`
	Data       ChunkSpec `json:"data"`
	Idx        IdxSpec   `json:"idx"`
}

var allKinds = []string{"200", "404", "400", "401", "403", "500", "502", "503", "reset", "rst", "short"}

func genScript(t *rapid.T) ScriptCase {
	var c ScriptCase
	c.Method = rapid.SampledFrom([]string{"getchunk", "getchunk", "haschunk", "haschunk", "storechunk", "storechunk", "getindex", "storeindex"}).Draw(t, "method")
	c.Retry = rapid.IntRange(0, 4).Draw(t, "retry")
	n := rapid.IntRange(1, 6).Draw(t, "len")
	// most scripts: a run of transient failures followed by something terminal; the rest uniform
	shaped := rapid.IntRange(0, 2).Draw(t, "shaped") > 0
	for i := 0; i < n; i++ {
		var k string
		if shaped && i < n-1 {
			k = rapid.SampledFrom([]string{"500", "502", "503", "reset", "rst", "short"}).Draw(t, "kind")
		} else {
			k = rapid.SampledFrom(allKinds).Draw(t, "kind")
		}
		c.Script = append(c.Script, k)
	}
	c.ClientUnc = rapid.Bool().Draw(t, "client_unc")
	c.ClientSkip = rapid.Bool().Draw(t, "client_skip")
	if strings.HasSuffix(c.Method, "chunk") {
		c.Data = genChunkSpec(t, "d")
		if c.Data.Len > 70000 {
			c.Data.Len = 70000
		}
	} else {
		c.Idx = genIdxSpec(t)
	}
	return c
}

// ---------------------------------------------------------------- reference model

func family(method string) string {
	switch method {
	case "getchunk":
		return "get"
	case "haschunk":
		return "has"
	case "storechunk":
		return "put"
	case "getindex":
		return "index-get"
	default:
		return "index-put"
	}
}

// responseClass says what one server response means for a method:
// "ok" | "missing" | "failure" (a definite answer that is an error) | "transient".
func responseClass(method, kind string) string {
	put := method == "storechunk" || method == "storeindex"
	switch kind {
	case "200":
		return "ok"
	case "404":
		if put {
			return "failure" // there is no "missing" answer to a write
		}
		return "missing"
	case "400", "401", "403":
		return "failure"
	case "short":
		if method == "haschunk" {
			// a HEAD response carries a Content-Length and no body by definition: a plain 200
			return "ok"
		}
		return "transient"
	default: // 500 502 503 reset rst
		return "transient"
	}
}

func extended(script []string, k int) string {
	if len(script) == 0 {
		return "500"
	}
	if k >= len(script) {
		k = len(script) - 1
	}
	return script[k]
}

// judgeScript is the reference model of the documented retry policy. n = requests that
// reached the server, res = what the caller saw. It returns the signatures violated.
//
//	(1) 1 <= n <= retry+1
//	(2) no request is made after a non-transient response
//	(3) the caller sees the meaning of the last response delivered; if that was transient
//	    (the client gave up) it must be an error, and giving up is allowed only after at
//	    least `retry` transient failures ("a run shorter than the budget is invisible")
func judgeScript(method string, retry int, script []string, n int, res string) (sigs []string, why []string) {
	add := func(s, w string) { sigs = append(sigs, s); why = append(why, w) }
	fam := family(method)
	if n < 1 {
		if res != resError {
			add(sig(fam, "failure", res), "no request reached the server but the call did not fail")
		}
		return
	}
	if n > retry+1 {
		add("C14:retry:attempts-exceed-budget", fmt.Sprintf("%d requests reached the server with ErrorRetry=%d", n, retry))
	}
	allTransientBefore := true
	for k := 0; k < n-1; k++ {
		if responseClass(method, extended(script, k)) != "transient" {
			allTransientBefore = false
			add("C14:retry:retried-nontransient", fmt.Sprintf("request %d was sent after the definite answer %s to request %d", k+2, extended(script, k), k+1))
			break
		}
	}
	last := responseClass(method, extended(script, n-1))
	if last == "transient" {
		// the client gave up after n failures
		switch {
		case res != resError:
			add(sig(fam, "failure", res), fmt.Sprintf("all %d attempts failed (last: %s) but the caller saw %q", n, extended(script, n-1), res))
		case allTransientBefore && n < retry:
			add("C14:retry:transient-visible", fmt.Sprintf("gave up after %d transient failure(s) with ErrorRetry=%d", n, retry))
		}
		return
	}
	want := map[string]string{"ok": resOK, "missing": resMissing, "failure": resError}[last]
	if res == want {
		return
	}
	if res == resError && allTransientBefore && n-1 > 0 {
		// the definite answer was reached after a run of transient failures but the caller still saw an error
		add("C14:retry:transient-visible", fmt.Sprintf("%d transient failure(s) then %s, ErrorRetry=%d, caller saw an error", n-1, extended(script, n-1), retry))
		return
	}
	add(sig(fam, last, res), fmt.Sprintf("last response delivered was %s (request %d), caller saw %q", extended(script, n-1), n, res))
	return
}

// simulate is a reference *implementation* of a policy, used only by TestSelf to check the model:
// attempts(retry) gives the maximum number of requests; classes as in responseClass.
func simulate(method string, retry int, script []string, maxAttempts func(retry int) int,
	cls func(method, kind string) string) (n int, res string) {
	for {
		n++
		switch cls(method, extended(script, n-1)) {
		case "ok":
			return n, resOK
		case "missing":
			return n, resMissing
		case "failure":
			return n, resError
		}
		if n >= maxAttempts(retry) {
			return n, resError
		}
	}
}

// ---------------------------------------------------------------- scripted server

type scriptedServer struct {
	mu      sync.Mutex
	script  []string
	okBody  []byte // body of a 200 answer to GET
	n       int
	methods []string
	bodies  [][]byte // request bodies read (nil for attempts answered before reading)
	readErr []error
}

func (s *scriptedServer) ServeHTTP(w http.ResponseWriter, r *http.Request) {
	s.mu.Lock()
	k := s.n
	s.n++
	kind := extended(s.script, k)
	s.methods = append(s.methods, r.Method)
	s.bodies = append(s.bodies, nil)
	s.readErr = append(s.readErr, nil)
	s.mu.Unlock()

	if kind != "reset" && kind != "rst" {
		b, err := io.ReadAll(r.Body)
		s.mu.Lock()
		s.bodies[k], s.readErr[k] = b, err
		if b == nil {
			s.bodies[k] = []byte{}
		}
		s.mu.Unlock()
	}
	switch kind {
	case "200":
		w.WriteHeader(200)
		if r.Method == "GET" {
			w.Write(s.okBody)
		}
	case "reset", "rst", "short":
		hj, ok := w.(http.Hijacker)
		if !ok {
			panic("response writer cannot be hijacked")
		}
		conn, buf, err := hj.Hijack()
		if err != nil {
			panic(err)
		}
		if kind == "short" {
			// announce more than is sent, then close
			sent := s.okBody
			if len(sent) > 1 {
				sent = sent[:len(sent)/2]
			}
			fmt.Fprintf(buf, "HTTP/1.1 200 OK\r\nContent-Type: application/octet-stream\r\nContent-Length: %d\r\nConnection: close\r\n\r\n", len(sent)+10)
			if r.Method != "HEAD" {
				buf.Write(sent)
			}
			buf.Flush()
		}
		if kind == "rst" {
			if tc, ok := conn.(*net.TCPConn); ok {
				tc.SetLinger(0)
			}
		}
		conn.Close()
	default:
		code, err := strconv.Atoi(kind)
		if err != nil || code < 100 || code > 599 {
			code = 500
		}
		w.Header().Set("Content-Type", "text/plain")
		w.WriteHeader(code)
		if r.Method != "HEAD" {
			fmt.Fprintf(w, "scripted answer %d\n", code)
		}
	}
}

func runScript(c ScriptCase) (o hx.Outcome) {
	retry := c.Retry
	if retry < 0 {
		retry = 0
	}
	if retry > 8 {
		retry = 8
	}
	script := c.Script
	if len(script) == 0 {
		script = []string{"200"}
	}
	if len(script) > 12 {
		script = script[:12]
	}
	method := c.Method
	switch method {
	case "getchunk", "haschunk", "storechunk", "getindex", "storeindex":
	default:
		method = "getchunk"
	}

	var (
		data      []byte
		id        desync.ChunkID
		idx       desync.Index
		idxBytes  []byte
		wantBody  []byte // what a PUT body must be
		okBody    []byte
		isChunkOp = strings.HasSuffix(method, "chunk")
	)
	if isChunkOp {
		data = c.Data.bytes()
		id = chunkID(data)
		okBody = wire(data, c.ClientUnc)
	} else {
		idx, idxBytes = c.Idx.build()
		okBody = idxBytes
		wantBody = idxBytes
	}

	ss := &scriptedServer{script: script, okBody: okBody}
	srv := startServer(ss, false)
	defer srv.Close()

	opt := clientOptions(c.ClientUnc, c.ClientSkip, retry)
	var res, detail string
	switch method {
	case "getchunk":
		client, err := desync.NewRemoteHTTPStore(mustURL(srv), opt)
		if err != nil {
			panic(err)
		}
		ch, err := client.GetChunk(id)
		res, detail = classifyGet(ch, err, id, data)
		client.Close()
	case "haschunk":
		client, err := desync.NewRemoteHTTPStore(mustURL(srv), opt)
		if err != nil {
			panic(err)
		}
		has, err := client.HasChunk(id)
		res, detail = classifyHas(has, err)
		client.Close()
	case "storechunk":
		client, err := desync.NewRemoteHTTPStore(mustURL(srv), opt)
		if err != nil {
			panic(err)
		}
		err = client.StoreChunk(desync.NewChunk(append([]byte(nil), data...)))
		res, detail = classifyPut(err)
		if _, ok := err.(desync.ChunkMissing); ok {
			res = resMissing
		}
		client.Close()
	case "getindex":
		client, err := desync.NewRemoteHTTPIndexStore(mustURL(srv), opt)
		if err != nil {
			panic(err)
		}
		got, err := client.GetIndex("x.caibx")
		switch {
		case err == nil:
			if d := equalIndex(got, idx); d != "" {
				res, detail = resWrong, d
			} else {
				res = resOK
			}
		case isNoSuchObject(err):
			res, detail = resMissing, err.Error()
		default:
			res, detail = resError, err.Error()
		}
		client.Close()
	case "storeindex":
		client, err := desync.NewRemoteHTTPIndexStore(mustURL(srv), opt)
		if err != nil {
			panic(err)
		}
		err = client.StoreIndex("x.caibx", idx)
		res, detail = classifyPut(err)
		if isNoSuchObject(err) {
			res = resMissing
		}
		client.Close()
	}
	srv.Close() // all handlers have returned after this

	ss.mu.Lock()
	n := ss.n
	methods := append([]string(nil), ss.methods...)
	bodies := ss.bodies
	ss.mu.Unlock()

	ctx := fmt.Sprintf("%s ErrorRetry=%d script=%v: %d request(s) reached the server, caller saw %q (%s)", method, retry, script, n, res, clip(detail))
	sigs, why := judgeScript(method, retry, script, n, res)
	for i := range sigs {
		o.Fail(sigs[i], "%s — %s", why[i], ctx)
	}
	// every request must use the method of the operation
	wantMethod := map[string]string{"getchunk": "GET", "haschunk": "HEAD", "storechunk": "PUT", "getindex": "GET", "storeindex": "PUT"}[method]
	for k, m := range methods {
		if m != wantMethod {
			o.Fail("C14:script:http-method", "request %d used %s, want %s — %s", k+1, m, wantMethod, ctx)
			break
		}
	}
	// every (re)sent write must carry the complete object
	if wantMethod == "PUT" {
		for k, b := range bodies {
			if b == nil || ss.readErr[k] != nil {
				continue // answered without reading the body
			}
			if isChunkOp {
				plain, err := unwire(b, c.ClientUnc)
				if err != nil || !bytes.Equal(plain, data) {
					o.Fail("C14:put:body-corrupt", "request %d carried %d bytes that do not decode to the chunk (%v) — %s", k+1, len(b), err, ctx)
					break
				}
			} else if !bytes.Equal(b, wantBody) {
				o.Fail("C14:index-put:body-corrupt", "request %d carried %d bytes (%s), the index encodes to %d bytes (%s) — %s", k+1, len(b), hash8(b), len(wantBody), hash8(wantBody), ctx)
				break
			}
		}
	}

	// ---- evidence
	f := 0 // leading transient responses
	for f < 16 && responseClass(method, extended(script, f)) == "transient" {
		f++
	}
	o.Class("script:m:"+method, "script:retry:"+strconv.Itoa(retry))
	seen := map[string]bool{}
	for k := 0; k < n && k < 16; k++ {
		kind := extended(script, k)
		g := kind
		switch kind {
		case "400", "401", "403":
			g = "4xx"
		case "500", "502", "503":
			g = "5xx"
		case "rst":
			g = "reset"
		}
		if !seen[g] {
			seen[g] = true
			o.Class("script:kind:" + g)
		}
	}
	invisible := false
	if n >= 1 {
		last := responseClass(method, extended(script, n-1))
		if last != "transient" {
			o.Class("script:terminal:" + map[string]string{"ok": "200", "missing": "404", "failure": "4xx"}[last])
			if n >= 2 {
				invisible = true
				o.Class("script:invisible-run")
			}
		} else {
			o.Class("script:exhausted")
		}
	}
	if f == retry {
		o.Class("script:f==retry")
	}
	o.Nontrivial = invisible
	size := len(data)
	if !isChunkOp {
		size = len(idx.Chunks)
	}
	o.Desc = map[string]any{"mode": "script", "method": method, "retry": retry, "script": strings.Join(script, ","), "requests": n, "saw": res, "size": size}
	o.Key = fmt.Sprintf("script/%s/%d/%s/%v", method, retry, strings.Join(script, ","), c.ClientUnc)
	o.Observed = map[string]any{"requests": n, "result": res, "detail": clip(detail)}
	return o
}
