package c14

import (
	"bytes"
	"context"
	"encoding/binary"
	"fmt"
	"io"
	"os"
	"sort"
	"strings"

	"github.com/folbricht/desync"
	"pgregory.net/rapid"

	"verifharness/internal/dx"
	"verifharness/internal/hx"
)

// ProtoCase: casync protocol sessions (desync.Protocol clients <-> desync.ProtocolServer over
// io.Pipe pairs, all servers on one store — what RemoteSSH keeps in its pool) requesting a
// sequence of chunks. Every chunk a session returns is held and consumed later through its
// storage form (held_test.go), after further requests re-used the session.
type ProtoCase struct {
	Store    string      `json:"store"` // mem | local | local-unc
	Chunks   []ChunkSpec `json:"chunks"`
	States   []string    `json:"states"`             // per chunk: present | missing | corrupt
	Requests []int       `json:"requests"`           // chunk numbers, in order
	Sessions int         `json:"sessions,omitempty"` // number of sessions (default 1)
	Sess     []int       `json:"sess,omitempty"`     // per request: the session it is sent on (default 0)
	Checks   []int       `json:"checks,omitempty"`   // request indexes after which all held chunks are consumed (always after the history)
	Break    string      `json:"break"`              // "" | close | cut; hits the session of request BreakAt
	BreakAt  int         `json:"break_at"`           // index of the request at which the connection breaks
	CutBytes int         `json:"cut_bytes"`
}

func genProto(t *rapid.T) ProtoCase {
	var c ProtoCase
	c.Store = rapid.SampledFrom([]string{"mem", "local", "local-unc"}).Draw(t, "store")
	// order "desc": per session the present chunks are requested from large to small (a reply
	// that fits into whatever the session kept from an earlier, larger reply), then the others
	order := rapid.SampledFrom([]string{"free", "free", "desc", "desc", "desc"}).Draw(t, "order")
	stateDist := []string{"present", "present", "present", "missing", "missing", "corrupt"}
	if order == "desc" {
		stateDist = []string{"present", "present", "present", "present", "present", "missing", "corrupt"}
	}
	n := rapid.IntRange(1, 4).Draw(t, "nchunks")
	for i := 0; i < n; i++ {
		cs := genChunkSpec(t, "c")
		if i > 0 && rapid.IntRange(0, 3).Draw(t, "samelen") == 0 {
			// different content of the same kind and length: a reply of (about) equal size
			cs.Kind, cs.Len = c.Chunks[i-1].Kind, c.Chunks[i-1].Len
		}
		c.Chunks = append(c.Chunks, cs)
		c.States = append(c.States, rapid.SampledFrom(stateDist).Draw(t, "state"))
	}
	nreq := rapid.IntRange(1, 8).Draw(t, "nreq")
	c.Sessions = rapid.SampledFrom([]int{1, 1, 2, 2, 3}).Draw(t, "sessions")
	for i := 0; i < nreq; i++ {
		c.Requests = append(c.Requests, rapid.IntRange(0, n-1).Draw(t, "req"))
		c.Sess = append(c.Sess, rapid.IntRange(0, c.Sessions-1).Draw(t, "sess"))
	}
	if order == "desc" {
		sort.SliceStable(c.Requests, func(a, b int) bool {
			ca, cb := c.Requests[a], c.Requests[b]
			pa, pb := c.States[ca] == "present", c.States[cb] == "present"
			if pa != pb {
				return pa
			}
			return pa && c.Chunks[ca].Len > c.Chunks[cb].Len
		})
	}
	for i, k := 0, rapid.IntRange(0, 2).Draw(t, "nchecks"); i < k; i++ {
		c.Checks = append(c.Checks, rapid.IntRange(0, nreq-1).Draw(t, "check"))
	}
	c.Break = rapid.SampledFrom([]string{"", "", "", "close", "cut"}).Draw(t, "break")
	if c.Break != "" {
		c.BreakAt = rapid.IntRange(0, nreq-1).Draw(t, "break_at")
		c.CutBytes = rapid.IntRange(0, 1<<17).Draw(t, "cut_bytes")
	}
	return c
}

// frameRelay copies casync protocol messages from src to dst whole, except message number
// cutMsg (0 = the HELLO), of which it forwards only cutBytes mod length bytes (strictly fewer
// than the message) before closing both sides. It parses nothing but the 8-byte length prefix.
func frameRelay(src *io.PipeReader, dst *io.PipeWriter, cutMsg, cutBytes int, done chan<- struct{}) {
	defer close(done)
	defer src.Close()
	defer dst.Close()
	for msg := 0; ; msg++ {
		var hdr [8]byte
		if _, err := io.ReadFull(src, hdr[:]); err != nil {
			return
		}
		l := binary.LittleEndian.Uint64(hdr[:])
		if l < 16 || l > 1<<28 {
			return
		}
		body := make([]byte, l-8)
		if _, err := io.ReadFull(src, body); err != nil {
			return
		}
		whole := append(hdr[:], body...)
		if msg == cutMsg {
			dst.Write(whole[:cutBytes%len(whole)])
			return
		}
		if _, err := dst.Write(whole); err != nil {
			return
		}
	}
}

// countingReader counts the bytes the client takes off its connection (the size of a reply).
type countingReader struct {
	r io.Reader
	n int
}

func (c *countingReader) Read(p []byte) (int, error) {
	n, err := c.r.Read(p)
	c.n += n
	return n, err
}

// protoSession is one client <-> server connection: client --c2s--> server,
// server --s2c--> [relay] --> client.
type protoSession struct {
	c2sR      *io.PipeReader
	c2sW      *io.PipeWriter
	s2cR      *io.PipeReader
	s2cW      *io.PipeWriter
	relayDone chan struct{}
	relayEnds []io.Closer
	serveDone chan error
	in        *countingReader
	client    *desync.Protocol
	usable    bool // the handshake worked
	alive     bool // the session is expected to answer the next request properly
	broken    bool // the connection has been broken by the case
	replies   int  // requests sent so far
}

// openSession wires a session; cutMsg > 0 puts a relay on the server->client direction that cuts
// message number cutMsg (0 = the HELLO) short.
func openSession(store desync.Store, cutMsg, cutBytes int) *protoSession {
	s := &protoSession{}
	s.c2sR, s.c2sW = io.Pipe()
	s.s2cR, s.s2cW = io.Pipe()
	clientR := s.s2cR
	if cutMsg > 0 {
		midR, midW := io.Pipe()
		s.relayDone = make(chan struct{})
		go frameRelay(s.s2cR, midW, cutMsg, cutBytes, s.relayDone)
		clientR = midR
		s.relayEnds = []io.Closer{midR, midW}
	}
	server := desync.NewProtocolServer(s.c2sR, s.s2cW, store)
	s.serveDone = make(chan error, 1)
	go func() {
		err := server.Serve(context.Background())
		// a server process that returns from Serve exits: its ends of the pipes close
		s.c2sR.Close()
		s.s2cW.Close()
		s.serveDone <- err
	}()
	s.in = &countingReader{r: clientR}
	s.client = desync.NewProtocol(s.in, s.c2sW)
	return s
}

func (s *protoSession) shutdown() {
	s.c2sW.Close()
	s.c2sR.Close()
	s.s2cW.Close()
	s.s2cR.Close()
	for _, e := range s.relayEnds {
		e.Close()
	}
	<-s.serveDone
	if s.relayDone != nil {
		<-s.relayDone
	}
}

func runProto(c ProtoCase) (o hx.Outcome) {
	n := len(c.Chunks)
	data := make([][]byte, n)
	ids := make([]desync.ChunkID, n)
	states := make([]string, n)
	for i, cs := range c.Chunks {
		data[i] = cs.bytes()
		for j := 0; j < i; j++ {
			if bytes.Equal(data[j], data[i]) {
				data[i] = append(append([]byte(nil), data[i]...), byte(i+1))
			}
		}
		ids[i] = chunkID(data[i])
		states[i] = "missing"
		if i < len(c.States) && (c.States[i] == "present" || c.States[i] == "corrupt") {
			states[i] = c.States[i]
		}
	}

	// ---- the store behind the servers
	var store desync.Store
	storeKind := c.Store
	switch storeKind {
	case "local", "local-unc":
		dir := hx.Scratch("c14p")
		defer os.RemoveAll(dir)
		unc := storeKind == "local-unc"
		for i := range data {
			switch states[i] {
			case "present":
				plantChunk(dir, ids[i], data[i], unc)
			case "corrupt":
				b := append([]byte(nil), data[i]...)
				b[0] ^= 0xff
				plantChunk(dir, ids[i], b, unc)
			}
		}
		ls, err := desync.NewLocalStore(dir, desync.StoreOptions{Uncompressed: unc})
		if err != nil {
			panic(err)
		}
		store = ls
	default:
		storeKind = "mem"
		ms := dx.NewMemStore("upstream")
		for i := range data {
			switch states[i] {
			case "present":
				ms.Put(ids[i], data[i])
			case "corrupt":
				b := append([]byte(nil), data[i]...)
				b[0] ^= 0xff
				ms.Put(ids[i], b)
			}
		}
		store = ms
	}

	// ---- the history: which request goes to which session
	nsess := c.Sessions
	if nsess < 1 {
		nsess = 1
	}
	if nsess > 8 {
		nsess = 8
	}
	sessOf := func(ri int) int {
		if ri < len(c.Sess) && c.Sess[ri] > 0 {
			return c.Sess[ri] % nsess
		}
		return 0
	}
	valid := func(ri int) bool { return c.Requests[ri] >= 0 && c.Requests[ri] < n }
	brk := c.Break
	breakAt := c.BreakAt
	if brk != "close" && brk != "cut" {
		brk = ""
	}
	if breakAt < 0 {
		breakAt = 0
	}
	brkSess, cutMsg := -1, 0
	if brk != "" && breakAt < len(c.Requests) {
		brkSess = sessOf(breakAt)
		if brk == "cut" {
			// the reply to request breakAt is message 1 + (earlier requests on that session)
			cutMsg = 1
			for ri := 0; ri < breakAt; ri++ {
				if valid(ri) && sessOf(ri) == brkSess {
					cutMsg++
				}
			}
		}
	}
	checkAfter := map[int]bool{}
	for _, k := range c.Checks {
		checkAfter[k] = true
	}

	// ---- wiring
	sessions := make([]*protoSession, nsess)
	for si := range sessions {
		if si == brkSess && cutMsg > 0 {
			sessions[si] = openSession(store, cutMsg, c.CutBytes&0x7fffffff)
		} else {
			sessions[si] = openSession(store, 0, 0)
		}
	}
	defer func() {
		for _, s := range sessions {
			s.shutdown()
		}
	}()
	held := newHeldSet("proto")
	defer held.close()

	for si, s := range sessions {
		flags, err := s.client.Initialize(desync.CaProtocolPullChunks)
		if err != nil {
			o.Fail("C14:proto:handshake", "Initialize over healthy pipes failed (session %d): %v", si, err)
		} else if flags&desync.CaProtocolReadableStore == 0 {
			o.Fail("C14:proto:handshake", "server HELLO flags %x do not offer a readable store (session %d)", flags, si)
		}
		s.usable = err == nil
		s.alive = err == nil
	}

	type okReply struct{ session, seq, ci, wire int }
	var okReplies []okReply
	var shape []string
	sawPresent, sawOther, anyBroken := false, false, false
	intermediate := false
	for ri, ci := range c.Requests {
		if !valid(ri) {
			continue
		}
		si := sessOf(ri)
		s := sessions[si]
		if !s.usable {
			continue
		}
		if brk == "close" && ri == breakAt && !s.broken {
			// the server side of the connection goes away before the request
			s.c2sR.Close()
			s.s2cW.Close()
			s.broken = true
		}
		if brk == "cut" && ri == breakAt {
			s.broken = true // the reply to this request is cut short by the relay
		}
		st := states[ci]
		before := s.in.n
		ch, rerr := s.client.RequestChunk(ids[ci])
		wireLen := s.in.n - before
		s.replies++
		for _, h := range held.chunks {
			if h.session == si {
				h.reused = true // the session has been used again since the chunk was handed out
			}
		}
		res, detail := classifyGet(ch, rerr, ids[ci], data[ci])
		tag := st[:1]
		if nsess > 1 {
			tag += fmt.Sprint(si)
		}
		if s.broken {
			tag += "!"
			anyBroken = true
		} else if !s.alive {
			tag += "~"
		}
		shape = append(shape, tag)
		what := fmt.Sprintf("request %d (chunk %d, %d bytes, %s; store %s; session %d of %d; broken=%v after-end-of-session=%v): got %s %s",
			ri, ci, len(data[ci]), st, storeKind, si, nsess, s.broken, !s.alive, res, clip(detail))
		if res == resOK && st == "present" {
			held.hold(&heldChunk{ch: ch, id: ids[ci], want: data[ci], session: si, seq: ri, wire: wireLen,
				label: fmt.Sprintf("request %d (chunk %d, session %d)", ri, ci, si)})
			okReplies = append(okReplies, okReply{si, ri, ci, wireLen})
		}
		switch {
		case s.broken:
			o.Class("proto:break:" + brk)
			// broken pipe => error; never data, never "missing"
			switch res {
			case resOK, resWrong:
				o.Fail(sig("proto", "failure", resOK), "connection broken but a chunk was returned — %s", what)
			case resMissing:
				o.Fail(sig("proto", "failure", resMissing), "connection broken but the chunk was reported missing — %s", what)
			}
		case !s.alive:
			// the server has (acceptably) ended the session after MISSING or a store failure:
			// an error is fine, a wrong answer is not
			o.Class("proto:after-session-end")
			switch {
			case res == resWrong:
				o.Fail(sig("proto", "ok", resWrong), "%s", what)
			case res == resOK && st != "present":
				o.Fail(sig("proto", st, resOK), "%s", what)
			case res == resMissing && st != "missing":
				o.Fail(sig("proto", map[string]string{"present": "ok", "corrupt": "failure"}[st], resMissing), "%s", what)
			}
		default:
			o.Class("proto:" + st)
			switch st {
			case "present":
				sawPresent = true
				if res != resOK {
					o.Fail(sig("proto", "ok", res), "%s", what)
				}
			case "missing":
				sawOther = true
				if res != resMissing {
					o.Fail(sig("proto", "missing", res), "%s", what)
				}
				s.alive = false
			case "corrupt":
				sawOther = true
				switch res {
				case resOK, resWrong:
					o.Fail(sig("proto", "failure", resOK), "%s", what)
				case resMissing:
					o.Fail(sig("proto", "failure", resMissing), "%s", what)
				}
				s.alive = false
			}
			if res != resOK {
				s.alive = false
			}
		}
		if checkAfter[ri] && len(held.chunks) > 0 {
			intermediate = true
			held.consumeAll(&o, fmt.Sprintf("after request %d", ri))
		}
	}
	for si, s := range sessions {
		if !s.usable || !s.alive || s.broken {
			continue
		}
		if gerr := s.client.SendGoodbye(); gerr != nil {
			o.Fail("C14:proto:goodbye", "SendGoodbye on a healthy session (%d) failed: %v", si, gerr)
		} else {
			serr := <-s.serveDone
			if serr != nil {
				o.Fail("C14:proto:goodbye", "server of session %d did not end cleanly after GOODBYE: %v", si, serr)
			}
			s.serveDone <- serr
		}
	}
	held.consumeAll(&o, "after the history")

	// ---- classes of the held-chunk part
	consumedLater, largeThenSmall, repeatID, thenMissing := false, false, false, false
	heldSessions := map[int]bool{}
	seenID := map[desync.ChunkID]bool{}
	for _, h := range held.chunks {
		heldSessions[h.session] = true
		if seenID[h.id] {
			repeatID = true
		}
		seenID[h.id] = true
		if h.reused {
			consumedLater = true
		}
		for _, r := range okReplies {
			// a later reply on the same session with different content that is not larger
			if r.session == h.session && r.seq > h.seq && ids[r.ci] != h.id && r.wire <= h.wire {
				largeThenSmall = true
			}
		}
		if h.reused && !sessions[h.session].alive && !sessions[h.session].broken {
			thenMissing = true
		}
	}
	if len(held.chunks) > 0 {
		o.Class("proto:held")
	}
	if consumedLater {
		o.Class("proto:held-consumed-later")
	}
	if largeThenSmall {
		o.Class("proto:large-then-small")
	}
	if repeatID {
		o.Class("proto:held-repeat-id")
	}
	if thenMissing {
		o.Class("proto:held-then-session-end")
	}
	if len(heldSessions) > 1 {
		o.Class("proto:held-on-several-sessions")
	}
	if intermediate {
		o.Class("proto:check:intermediate")
	}
	if nsess > 1 {
		o.Class("proto:sessions:2+")
	} else {
		o.Class("proto:sessions:1")
	}

	o.Class("proto:store:" + storeKind)
	lens := make([]int, n)
	for i := range data {
		lens[i] = len(data[i])
	}
	o.Nontrivial = (sawPresent && sawOther) || (anyBroken && len(shape) > 0) || largeThenSmall
	o.Desc = map[string]any{"mode": "proto", "store": storeKind, "chunk_lens": lens, "states": states, "requests": strings.Join(shape, " "), "break": brk,
		"sessions": nsess, "checks": c.Checks, "held": len(held.chunks), "held_consumptions": held.consumed}
	o.Key = fmt.Sprintf("proto/%s/%v/%v/%s/%s/%d/%d/%v", storeKind, lens, states, strings.Join(shape, ""), brk, breakAt, nsess, c.Checks)
	return o
}
