package c14

import (
	"bytes"
	"context"
	"encoding/binary"
	"fmt"
	"io"
	"os"
	"strings"

	"github.com/folbricht/desync"
	"pgregory.net/rapid"

	"verifharness/internal/dx"
	"verifharness/internal/hx"
)

// ProtoCase: a casync protocol session (desync.Protocol client <-> desync.ProtocolServer over
// two io.Pipes) requesting a sequence of chunks.
type ProtoCase struct {
	Store    string      `json:"store"` // mem | local | local-unc
	Chunks   []ChunkSpec `json:"chunks"`
	States   []string    `json:"states"`   // per chunk: present | missing | corrupt
	Requests []int       `json:"requests"` // chunk numbers, in order
	Break    string      `json:"break"`    // "" | close | cut
	BreakAt  int         `json:"break_at"` // index of the request at which the connection breaks
	CutBytes int         `json:"cut_bytes"`
}

func genProto(t *rapid.T) ProtoCase {
	var c ProtoCase
	c.Store = rapid.SampledFrom([]string{"mem", "local", "local-unc"}).Draw(t, "store")
	n := rapid.IntRange(1, 4).Draw(t, "nchunks")
	for i := 0; i < n; i++ {
		c.Chunks = append(c.Chunks, genChunkSpec(t, "c"))
		c.States = append(c.States, rapid.SampledFrom([]string{"present", "present", "present", "missing", "missing", "corrupt"}).Draw(t, "state"))
	}
	nreq := rapid.IntRange(1, 8).Draw(t, "nreq")
	for i := 0; i < nreq; i++ {
		c.Requests = append(c.Requests, rapid.IntRange(0, n-1).Draw(t, "req"))
	}
	c.Break = rapid.SampledFrom([]string{"", "", "", "close", "cut"}).Draw(t, "break")
	if c.Break != "" {
		c.BreakAt = rapid.IntRange(0, nreq-1).Draw(t, "break_at")
		c.CutBytes = rapid.IntRange(0, 1<<17).Draw(t, "cut_bytes")
	}
	return c
}

// frameRelay copies casync protocol messages from src to dst whole, except message number
// cutMsg (0 = the HELLO), of which it forwards only cutBytes mod length bytes (strictly fewer
// than the message) before closing both sides. It parses nothing but the 8-byte length prefix.
func frameRelay(src *io.PipeReader, dst *io.PipeWriter, cutMsg, cutBytes int, done chan<- struct{}) {
	defer close(done)
	defer src.Close()
	defer dst.Close()
	for msg := 0; ; msg++ {
		var hdr [8]byte
		if _, err := io.ReadFull(src, hdr[:]); err != nil {
			return
		}
		l := binary.LittleEndian.Uint64(hdr[:])
		if l < 16 || l > 1<<28 {
			return
		}
		body := make([]byte, l-8)
		if _, err := io.ReadFull(src, body); err != nil {
			return
		}
		whole := append(hdr[:], body...)
		if msg == cutMsg {
			dst.Write(whole[:cutBytes%len(whole)])
			return
		}
		if _, err := dst.Write(whole); err != nil {
			return
		}
	}
}

func runProto(c ProtoCase) (o hx.Outcome) {
	n := len(c.Chunks)
	data := make([][]byte, n)
	ids := make([]desync.ChunkID, n)
	states := make([]string, n)
	for i, cs := range c.Chunks {
		data[i] = cs.bytes()
		for j := 0; j < i; j++ {
			if bytes.Equal(data[j], data[i]) {
				data[i] = append(append([]byte(nil), data[i]...), byte(i+1))
			}
		}
		ids[i] = chunkID(data[i])
		states[i] = "missing"
		if i < len(c.States) && (c.States[i] == "present" || c.States[i] == "corrupt") {
			states[i] = c.States[i]
		}
	}

	// ---- the store behind the server
	var store desync.Store
	storeKind := c.Store
	switch storeKind {
	case "local", "local-unc":
		dir := hx.Scratch("c14p")
		defer os.RemoveAll(dir)
		unc := storeKind == "local-unc"
		for i := range data {
			switch states[i] {
			case "present":
				plantChunk(dir, ids[i], data[i], unc)
			case "corrupt":
				b := append([]byte(nil), data[i]...)
				b[0] ^= 0xff
				plantChunk(dir, ids[i], b, unc)
			}
		}
		ls, err := desync.NewLocalStore(dir, desync.StoreOptions{Uncompressed: unc})
		if err != nil {
			panic(err)
		}
		store = ls
	default:
		storeKind = "mem"
		ms := dx.NewMemStore("upstream")
		for i := range data {
			switch states[i] {
			case "present":
				ms.Put(ids[i], data[i])
			case "corrupt":
				b := append([]byte(nil), data[i]...)
				b[0] ^= 0xff
				ms.Put(ids[i], b)
			}
		}
		store = ms
	}

	// ---- wiring: client --c2s--> server, server --s2c--> [relay] --> client
	c2sR, c2sW := io.Pipe()
	s2cR, s2cW := io.Pipe()
	clientR := s2cR
	var relayDone chan struct{}
	var relayEnds []io.Closer
	brk := c.Break
	breakAt := c.BreakAt
	if brk != "close" && brk != "cut" {
		brk = ""
	}
	if breakAt < 0 {
		breakAt = 0
	}
	if brk == "cut" {
		midR, midW := io.Pipe()
		relayDone = make(chan struct{})
		go frameRelay(s2cR, midW, breakAt+1, c.CutBytes&0x7fffffff, relayDone)
		clientR = midR
		relayEnds = []io.Closer{midR, midW}
	}
	server := desync.NewProtocolServer(c2sR, s2cW, store)
	serveDone := make(chan error, 1)
	go func() {
		err := server.Serve(context.Background())
		// a server process that returns from Serve exits: its ends of the pipes close
		c2sR.Close()
		s2cW.Close()
		serveDone <- err
	}()
	closeAll := func() {
		c2sW.Close()
		c2sR.Close()
		s2cW.Close()
		s2cR.Close()
		for _, e := range relayEnds {
			e.Close()
		}
	}
	defer func() {
		closeAll()
		<-serveDone
		if relayDone != nil {
			<-relayDone
		}
	}()

	client := desync.NewProtocol(clientR, c2sW)
	flags, err := client.Initialize(desync.CaProtocolPullChunks)
	if err != nil {
		o.Fail("C14:proto:handshake", "Initialize over healthy pipes failed: %v", err)
	} else if flags&desync.CaProtocolReadableStore == 0 {
		o.Fail("C14:proto:handshake", "server HELLO flags %x do not offer a readable store", flags)
	}

	alive := err == nil // the session is expected to answer the next request properly
	broken := false     // the connection has been broken by the case
	var shape []string
	sawPresent, sawOther := false, false
	for ri, ci := range c.Requests {
		if err != nil {
			break
		}
		if ci < 0 || ci >= n {
			continue
		}
		if brk == "close" && ri == breakAt && !broken {
			// the server side of the connection goes away before the request
			c2sR.Close()
			s2cW.Close()
			broken = true
		}
		if brk == "cut" && ri == breakAt {
			broken = true // the reply to this request is cut short by the relay
		}
		st := states[ci]
		ch, rerr := client.RequestChunk(ids[ci])
		res, detail := classifyGet(ch, rerr, ids[ci], data[ci])
		tag := st[:1]
		if broken {
			tag += "!"
		} else if !alive {
			tag += "~"
		}
		shape = append(shape, tag)
		what := fmt.Sprintf("request %d (chunk %d, %d bytes, %s; store %s; broken=%v after-end-of-session=%v): got %s %s",
			ri, ci, len(data[ci]), st, storeKind, broken, !alive, res, clip(detail))
		switch {
		case broken:
			o.Class("proto:break:" + brk)
			// broken pipe => error; never data, never "missing"
			switch res {
			case resOK, resWrong:
				o.Fail(sig("proto", "failure", resOK), "connection broken but a chunk was returned — %s", what)
			case resMissing:
				o.Fail(sig("proto", "failure", resMissing), "connection broken but the chunk was reported missing — %s", what)
			}
		case !alive:
			// the server has (acceptably) ended the session after MISSING or a store failure:
			// an error is fine, a wrong answer is not
			o.Class("proto:after-session-end")
			switch {
			case res == resWrong:
				o.Fail(sig("proto", "ok", resWrong), "%s", what)
			case res == resOK && st != "present":
				o.Fail(sig("proto", st, resOK), "%s", what)
			case res == resMissing && st != "missing":
				o.Fail(sig("proto", map[string]string{"present": "ok", "corrupt": "failure"}[st], resMissing), "%s", what)
			}
		default:
			o.Class("proto:" + st)
			switch st {
			case "present":
				sawPresent = true
				if res != resOK {
					o.Fail(sig("proto", "ok", res), "%s", what)
				}
			case "missing":
				sawOther = true
				if res != resMissing {
					o.Fail(sig("proto", "missing", res), "%s", what)
				}
				alive = false
			case "corrupt":
				sawOther = true
				switch res {
				case resOK, resWrong:
					o.Fail(sig("proto", "failure", resOK), "%s", what)
				case resMissing:
					o.Fail(sig("proto", "failure", resMissing), "%s", what)
				}
				alive = false
			}
			if res != resOK {
				alive = false
			}
		}
	}
	if alive && !broken {
		if gerr := client.SendGoodbye(); gerr != nil {
			o.Fail("C14:proto:goodbye", "SendGoodbye on a healthy session failed: %v", gerr)
		} else if serr := <-serveDone; serr != nil {
			o.Fail("C14:proto:goodbye", "server did not end cleanly after GOODBYE: %v", serr)
			serveDone <- serr
		} else {
			serveDone <- nil
		}
	}

	o.Class("proto:store:" + storeKind)
	lens := make([]int, n)
	for i := range data {
		lens[i] = len(data[i])
	}
	o.Nontrivial = (sawPresent && sawOther) || (broken && len(shape) > 0)
	o.Desc = map[string]any{"mode": "proto", "store": storeKind, "chunk_lens": lens, "states": states, "requests": strings.Join(shape, " "), "break": brk}
	o.Key = fmt.Sprintf("proto/%s/%v/%v/%s/%s/%d", storeKind, lens, states, strings.Join(shape, ""), brk, breakAt)
	return o
}
