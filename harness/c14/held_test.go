package c14

import (
	"bytes"
	"fmt"
	"io"
	"net/http"
	"net/http/httptest"
	"os"
	"testing"

	"github.com/folbricht/desync"

	"verifharness/internal/hx"
)

// Held chunks. "Chunks arrive unchanged" does not end at the moment RequestChunk / GetChunk
// returns: the *desync.Chunk a transport hands out is kept by its user (a chunk server answers
// an HTTP request with it, a cache writes it to disk) while the transport session goes on to
// serve further requests. A chunk object carries the plain data and/or the storage (compressed)
// form it arrived in, and several consumers use the storage form as it is. So every chunk a
// session returned is HELD here and pushed through such consumers LATER, after further requests
// re-used the session:
//
//	http            desync.NewHTTPHandler(store of the held objects, compressed converters): GET sends
//	                the chunk's storage form as-is when the formats agree; the body is decoded with
//	                klauspost zstd and hashed with crypto/sha512 here
//	http-unc        the same handler without converters (body must be the plain bytes)
//	localstore      desync.Cache{held store -> compressed LocalStore}: GetChunk stores the held object
//	                with StoreChunk; the written FILE is read back and decoded independently
//	localstore-unc  StoreChunk into an uncompressed LocalStore; the file must hold the plain bytes
//	data            Data() / ID() of the held object once more

type heldChunk struct {
	ch      *desync.Chunk
	id      desync.ChunkID
	want    []byte
	label   string // "request 3 (chunk 1, session 0)"
	session int
	seq     int // position in the history
	wire    int // bytes of the reply that carried it (0 = not measured)
	reused  bool
}

// oneChunkStore is a desync.Store that hands out exactly the held chunk OBJECT.
type oneChunkStore struct{ cur *heldChunk }

func (s *oneChunkStore) GetChunk(id desync.ChunkID) (*desync.Chunk, error) {
	if s.cur == nil || s.cur.id != id {
		return nil, desync.ChunkMissing{ID: id}
	}
	return s.cur.ch, nil
}
func (s *oneChunkStore) HasChunk(id desync.ChunkID) (bool, error) {
	return s.cur != nil && s.cur.id == id, nil
}
func (s *oneChunkStore) Close() error   { return nil }
func (s *oneChunkStore) String() string { return "held-chunks" }

type heldSet struct {
	fam      string // signature family: proto | ssh
	chunks   []*heldChunk
	src      oneChunkStore
	hComp    http.Handler
	hUnc     http.Handler
	dirComp  string
	dirUnc   string
	lsComp   desync.LocalStore
	lsUnc    desync.LocalStore
	cache    desync.Cache
	consumed int
}

func newHeldSet(fam string) *heldSet {
	return &heldSet{fam: fam}
}

func (hs *heldSet) hold(h *heldChunk) { hs.chunks = append(hs.chunks, h) }

func (hs *heldSet) close() {
	if hs.dirComp != "" {
		os.RemoveAll(hs.dirComp)
	}
	if hs.dirUnc != "" {
		os.RemoveAll(hs.dirUnc)
	}
}

func (hs *heldSet) init() {
	if hs.hComp != nil {
		return
	}
	hs.hComp = desync.NewHTTPHandler(&hs.src, false, false, desync.Converters{desync.Compressor{}}, "")
	hs.hUnc = desync.NewHTTPHandler(&hs.src, false, false, nil, "")
	hs.dirComp = hx.Scratch("c14held")
	hs.dirUnc = hx.Scratch("c14heldu")
	var err error
	if hs.lsComp, err = desync.NewLocalStore(hs.dirComp, desync.StoreOptions{}); err != nil {
		panic(err)
	}
	if hs.lsUnc, err = desync.NewLocalStore(hs.dirUnc, desync.StoreOptions{Uncompressed: true}); err != nil {
		panic(err)
	}
	hs.cache = desync.NewCache(&hs.src, hs.lsComp)
}

func (hs *heldSet) sig(consumer string) string {
	return fmt.Sprintf("C14:%s:held-chunk-altered:%s", hs.fam, consumer)
}

func differs(got, want []byte) string {
	if bytes.Equal(got, want) {
		return ""
	}
	at := 0
	for at < len(got) && at < len(want) && got[at] == want[at] {
		at++
	}
	return fmt.Sprintf("%d bytes (%s) instead of %d bytes (%s), first difference at offset %d", len(got), hash8(got), len(want), hash8(want), at)
}

// consumeAll pushes every held chunk through all consumers. when describes the point in the
// history ("after request 4", "after the history").
func (hs *heldSet) consumeAll(o *hx.Outcome, when string) {
	for _, h := range hs.chunks {
		hs.consume(o, h, when)
	}
}

func (hs *heldSet) consume(o *hx.Outcome, h *heldChunk, when string) {
	hs.init()
	hs.consumed++
	hs.src.cur = h
	defer func() { hs.src.cur = nil }()
	ctx := fmt.Sprintf("chunk of %s (%d bytes), held and consumed %s", h.label, len(h.want), when)
	sid := h.id.String()

	// ---- (a) compressed HTTP chunk server in front of the held chunk
	{
		rec := httptest.NewRecorder()
		hs.hComp.ServeHTTP(rec, httptest.NewRequest("GET", "/"+sid[:4]+"/"+sid+".cacnk", nil))
		body, _ := io.ReadAll(rec.Result().Body)
		if rec.Code != http.StatusOK {
			o.Fail(hs.sig("http"), "compressed chunk server answers GET with status %d (%s) for the %s", rec.Code, clip(string(body)), ctx)
		} else if plain, err := zDecompress(body); err != nil {
			o.Fail(hs.sig("http"), "compressed chunk server sent a body of %d bytes that is not a zstd frame (%v) for the %s", len(body), err, ctx)
		} else if d := differs(plain, h.want); d != "" {
			o.Fail(hs.sig("http"), "compressed chunk server sent a body that decodes to %s for the %s", d, ctx)
		} else if got := chunkID(plain); got != h.id {
			o.Fail(hs.sig("http"), "compressed chunk server sent content with SHA512/256 %s, want %s, for the %s", got, h.id, ctx)
		}
	}
	// ---- (a') uncompressed HTTP chunk server
	{
		rec := httptest.NewRecorder()
		hs.hUnc.ServeHTTP(rec, httptest.NewRequest("GET", "/"+sid[:4]+"/"+sid, nil))
		body, _ := io.ReadAll(rec.Result().Body)
		if rec.Code != http.StatusOK {
			o.Fail(hs.sig("http-unc"), "uncompressed chunk server answers GET with status %d (%s) for the %s", rec.Code, clip(string(body)), ctx)
		} else if d := differs(body, h.want); d != "" {
			o.Fail(hs.sig("http-unc"), "uncompressed chunk server sent %s for the %s", d, ctx)
		}
	}
	// ---- (b) cache / compressed local store: the held object is written with StoreChunk
	{
		p := chunkPath(hs.dirComp, h.id, false)
		os.Remove(p)
		got, err := hs.cache.GetChunk(h.id)
		if err != nil {
			o.Fail(hs.sig("localstore"), "Cache{held -> compressed LocalStore}.GetChunk failed (%v) for the %s", err, ctx)
		} else if got != h.ch {
			// the cache was empty: the chunk comes from the held store
			o.Fail(hs.sig("localstore"), "Cache.GetChunk on an empty cache did not hand out the upstream chunk for the %s", ctx)
		}
		if err == nil {
			file, rerr := os.ReadFile(p)
			if rerr != nil {
				o.Fail(hs.sig("localstore"), "compressed LocalStore.StoreChunk left no readable chunk file (%v) for the %s", rerr, ctx)
			} else if plain, derr := zDecompress(file); derr != nil {
				o.Fail(hs.sig("localstore"), "compressed LocalStore.StoreChunk wrote %d bytes that are not a zstd frame (%v) for the %s", len(file), derr, ctx)
			} else if d := differs(plain, h.want); d != "" {
				o.Fail(hs.sig("localstore"), "compressed LocalStore.StoreChunk wrote a file that decodes to %s for the %s", d, ctx)
			}
		}
		os.Remove(p)
	}
	// ---- (c) uncompressed local store
	{
		p := chunkPath(hs.dirUnc, h.id, true)
		os.Remove(p)
		if err := hs.lsUnc.StoreChunk(h.ch); err != nil {
			o.Fail(hs.sig("localstore-unc"), "uncompressed LocalStore.StoreChunk failed (%v) for the %s", err, ctx)
		} else if file, rerr := os.ReadFile(p); rerr != nil {
			o.Fail(hs.sig("localstore-unc"), "uncompressed LocalStore.StoreChunk left no readable chunk file (%v) for the %s", rerr, ctx)
		} else if d := differs(file, h.want); d != "" {
			o.Fail(hs.sig("localstore-unc"), "uncompressed LocalStore.StoreChunk wrote %s for the %s", d, ctx)
		}
		os.Remove(p)
	}
	// ---- the object itself once more
	if b, err := h.ch.Data(); err != nil {
		o.Fail(hs.sig("data"), "Data() fails (%v) for the %s", err, ctx)
	} else if d := differs(b, h.want); d != "" {
		o.Fail(hs.sig("data"), "Data() returns %s for the %s", d, ctx)
	}
	if got := h.ch.ID(); got != h.id {
		o.Fail(hs.sig("data"), "ID() returns %s, want %s, for the %s", got, h.id, ctx)
	}
}

// TestSelfHeld: the held-chunk consumers must notice a chunk whose storage form was overwritten
// after it had been verified (plain data intact), and must be silent on an intact one.
func TestSelfHeld(t *testing.T) {
	want := ChunkSpec{Kind: "text", Len: 20000, Seed: 7}.bytes()
	other := ChunkSpec{Kind: "rand", Len: 300, Seed: 9}.bytes()
	id := chunkID(want)
	mk := func() (*desync.Chunk, []byte) {
		buf := zCompress(want)
		ch, err := desync.NewChunkFromStorage(id, buf, desync.Converters{desync.Compressor{}}, false)
		if err != nil {
			selfFail(t, "NewChunkFromStorage rejects a frame written by the independent encoder: %v", err)
		}
		return ch, buf
	}
	sigsOf := func(o hx.Outcome) map[string]bool {
		m := map[string]bool{}
		for _, v := range o.Violations {
			m[v.Sig] = true
		}
		return m
	}
	{ // intact
		ch, _ := mk()
		hs := newHeldSet("proto")
		hs.hold(&heldChunk{ch: ch, id: id, want: want, label: "selftest"})
		var o hx.Outcome
		hs.consumeAll(&o, "selftest")
		hs.consumeAll(&o, "selftest again")
		hs.close()
		if len(o.Violations) != 0 {
			selfFail(t, "held-chunk consumers flag an intact chunk: %v", o.Violations)
		}
	}
	{ // storage overwritten by a later, smaller message
		ch, buf := mk()
		copy(buf, zCompress(other))
		hs := newHeldSet("proto")
		hs.hold(&heldChunk{ch: ch, id: id, want: want, label: "selftest"})
		var o hx.Outcome
		hs.consumeAll(&o, "selftest")
		hs.close()
		if s := sigsOf(o); !s["C14:proto:held-chunk-altered:http"] {
			selfFail(t, "held-chunk consumers do not notice an overwritten storage form: %v", o.Violations)
		} else if s["C14:proto:held-chunk-altered:data"] {
			selfFail(t, "self-test premise broken: plain data of a verified chunk changed with its storage form")
		}
	}
	{ // plain chunk with altered data: every consumer must object
		b := append([]byte(nil), want...)
		ch := desync.NewChunk(b)
		_ = ch.ID()
		b[len(b)/2] ^= 1
		hs := newHeldSet("ssh")
		hs.hold(&heldChunk{ch: ch, id: id, want: want, label: "selftest"})
		var o hx.Outcome
		hs.consumeAll(&o, "selftest")
		hs.close()
		s := sigsOf(o)
		for _, c := range []string{"http", "http-unc", "localstore", "localstore-unc", "data"} {
			if !s["C14:ssh:held-chunk-altered:"+c] {
				selfFail(t, "consumer %s does not notice altered plain data: %v", c, o.Violations)
			}
		}
	}
}
