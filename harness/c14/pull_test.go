package c14

import (
	"bytes"
	"encoding/json"
	"fmt"
	"io"
	"os"
	"os/exec"
	"path/filepath"
	"strings"
	"syscall"
	"testing"
	"time"

	"github.com/folbricht/desync"
	"pgregory.net/rapid"

	"verifharness/internal/hx"
)

// pull mode: the server end of ssh:// stores as it is really started, a child process
//
//	$VERIF_DESYNC_BIN --config <cfg> pull - - - <store dir>
//
// with pipes as stdin/stdout, spoken to through desync's client side of the casync protocol
// (desync.NewProtocol on the pipe pair, Initialize, RequestChunk — what RemoteSSH does with its
// ssh children). The store directory holds, per chunk, files in the store's CONFIGURED format, in
// the OTHER format, in both, in neither, or a file of wrong content in the configured format.
// The configured format comes from the config file: compressed unless a store-options entry
// matching the served path says "uncompressed": true.
//
// Oracle: a chunk present in the configured format arrives with the right bytes; a chunk present
// only in the other format, or in neither, is reported missing (never served, never an error); a
// file of wrong content is an error at the (verifying) client, never data, never missing. The
// server may end the session after MISSING (accepted, DESIGN section 6): a fresh child is started
// for the rest of the history after every answer that is not a chunk.

type PullCase struct {
	Config   string      `json:"config"` // default | unc-match | unc-other | comp-match
	Chunks   []ChunkSpec `json:"chunks"`
	Have     []string    `json:"have"` // per chunk: both | conf | other | none | corrupt
	Requests []int       `json:"requests"`
}

func genPull(t *rapid.T) PullCase {
	var c PullCase
	c.Config = rapid.SampledFrom([]string{"default", "unc-match", "unc-match", "unc-other", "comp-match"}).Draw(t, "config")
	k := rapid.IntRange(1, 4).Draw(t, "nchunks")
	for i := 0; i < k; i++ {
		c.Chunks = append(c.Chunks, ChunkSpec{Kind: rapid.SampledFrom([]string{"rand", "text", "zero"}).Draw(t, "kind"),
			Len: rapid.IntRange(1, 20000).Draw(t, "len"), Seed: rapid.Uint64().Draw(t, "seed")})
		c.Have = append(c.Have, rapid.SampledFrom([]string{"both", "conf", "conf", "other", "other", "none", "corrupt"}).Draw(t, "have"))
	}
	for i, n := 0, rapid.IntRange(1, 5).Draw(t, "nreq"); i < n; i++ {
		c.Requests = append(c.Requests, rapid.IntRange(0, k-1).Draw(t, "req"))
	}
	return c
}

type pullChild struct {
	cmd    *exec.Cmd
	in     io.WriteCloser
	out    io.ReadCloser
	stderr bytes.Buffer
	client *desync.Protocol
}

func startPull(bin, cfg, dir string) (*pullChild, error) {
	p := &pullChild{}
	p.cmd = exec.Command(bin, "--config", cfg, "pull", "-", "-", "-", dir)
	p.cmd.Stderr = &p.stderr
	p.cmd.SysProcAttr = &syscall.SysProcAttr{Pdeathsig: syscall.SIGKILL}
	var err error
	if p.in, err = p.cmd.StdinPipe(); err != nil {
		return nil, err
	}
	if p.out, err = p.cmd.StdoutPipe(); err != nil {
		return nil, err
	}
	if err = p.cmd.Start(); err != nil {
		return nil, err
	}
	p.client = desync.NewProtocol(p.out, p.in)
	return p, nil
}

// stop ends the child: its stdin closes (a server whose client went away exits); a child that
// does not exit is killed after 10 s so that the case can end (not a verdict).
func (p *pullChild) stop() {
	p.in.Close()
	t := time.AfterFunc(10*time.Second, func() { p.cmd.Process.Kill() })
	io.Copy(io.Discard, p.out)
	p.cmd.Wait()
	t.Stop()
}

func pullBin() string {
	p := os.Getenv("VERIF_DESYNC_BIN")
	if st, err := os.Stat(p); p == "" || err != nil || !st.Mode().IsRegular() {
		return ""
	}
	return p
}

func runPullCLI(c PullCase) (o hx.Outcome) {
	bin := pullBin()
	if bin == "" {
		o.Class("pull:unavailable")
		o.Desc = map[string]any{"mode": "pull", "skipped": "no desync binary ($VERIF_DESYNC_BIN)"}
		return o
	}
	wd := hx.Scratch("c14pull")
	defer os.RemoveAll(wd)
	dir := filepath.Join(wd, "store")
	otherDir := filepath.Join(wd, "elsewhere")
	os.MkdirAll(dir, 0o755)
	os.MkdirAll(otherDir, 0o755)

	// ---- the config file and the format it makes the store have
	type storeOpt struct {
		Uncompressed bool `json:"uncompressed"`
	}
	entries := map[string]storeOpt{}
	confUnc := false
	config := c.Config
	switch config {
	case "unc-match":
		entries[dir] = storeOpt{true} // keyed by the path exactly as it is given to pull
		confUnc = true
	case "unc-other":
		entries[otherDir] = storeOpt{true} // another store's entry: must not apply
	case "comp-match":
		entries[dir] = storeOpt{false}
	default:
		config = "default"
	}
	cfgPath := filepath.Join(wd, "config.json")
	cfgBytes, _ := json.Marshal(map[string]any{"store-options": entries})
	if err := os.WriteFile(cfgPath, cfgBytes, 0o644); err != nil {
		panic(err)
	}

	// ---- the store directory
	k := len(c.Chunks)
	data := make([][]byte, k)
	ids := make([]desync.ChunkID, k)
	have := make([]string, k)
	for i, cs := range c.Chunks {
		data[i] = cs.bytes()
		for j := 0; j < i; j++ {
			if bytes.Equal(data[j], data[i]) {
				data[i] = append(append([]byte(nil), data[i]...), byte(i+1))
			}
		}
		ids[i] = chunkID(data[i])
		have[i] = "none"
		if i < len(c.Have) {
			switch c.Have[i] {
			case "both", "conf", "other", "corrupt":
				have[i] = c.Have[i]
			}
		}
		switch have[i] {
		case "both":
			plantChunk(dir, ids[i], data[i], confUnc)
			plantChunk(dir, ids[i], data[i], !confUnc)
		case "conf":
			plantChunk(dir, ids[i], data[i], confUnc)
		case "other":
			plantChunk(dir, ids[i], data[i], !confUnc)
		case "corrupt":
			b := append([]byte(nil), data[i]...)
			b[0] ^= 0xff
			plantChunk(dir, ids[i], b, confUnc)
		}
		o.Class("pull:have:" + map[string]string{"both": "both-formats", "conf": "configured-format-only", "other": "other-format-only", "none": "none", "corrupt": "corrupt"}[have[i]])
	}

	var child *pullChild
	defer func() {
		if child != nil {
			child.stop()
		}
	}()
	children := 0
	var shape []string
	for ri, ci := range c.Requests {
		if ci < 0 || ci >= k {
			continue
		}
		if child == nil {
			var err error
			if child, err = startPull(bin, cfgPath, dir); err != nil {
				o.Fail("C14:pull:start-failed", "cannot start %s pull: %v", bin, err)
				return o
			}
			children++
			flags, err := child.client.Initialize(desync.CaProtocolPullChunks)
			if err != nil || flags&desync.CaProtocolReadableStore == 0 {
				child.stop()
				o.Fail("C14:pull:handshake", "request %d: HELLO exchange with `desync --config %s pull - - - %s` failed: flags %x, %v; stderr: %s", ri, config, "<store>", flags, err, clip(child.stderr.String()))
				child = nil
				return o
			}
		}
		ch, err := child.client.RequestChunk(ids[ci])
		res, detail := classifyGet(ch, err, ids[ci], data[ci])
		h := have[ci]
		shape = append(shape, h[:2])
		what := fmt.Sprintf("request %d (chunk %d, %d bytes, in the store: %s; config %s => store format uncompressed=%v): got %s %s",
			ri, ci, len(data[ci]), h, config, confUnc, res, clip(detail))
		switch h {
		case "both", "conf":
			o.Class("pull:present")
			if res != resOK {
				o.Fail(sig("pull", "ok", res), "%s", what)
			}
		case "other", "none":
			o.Class("pull:missing")
			if h == "other" {
				o.Class("pull:other-format-only")
			}
			if res != resMissing {
				o.Fail(sig("pull", "missing", res), "%s", what)
			}
		case "corrupt":
			o.Class("pull:corrupt")
			switch res {
			case resOK, resWrong:
				o.Fail(sig("pull", "failure", resOK), "%s", what)
			case resMissing:
				o.Fail(sig("pull", "failure", resMissing), "%s", what)
			}
		}
		if res != resOK {
			// the server may have ended the session: the rest of the history gets a fresh one
			child.stop()
			child = nil
		}
	}

	o.Class("pull:config-" + map[string]string{"default": "default", "unc-match": "uncompressed", "unc-other": "other-path", "comp-match": "compressed-entry"}[config])
	lens := make([]int, k)
	for i := range data {
		lens[i] = len(data[i])
	}
	o.Nontrivial = confUnc || config == "unc-other"
	o.Desc = map[string]any{"mode": "pull", "config": config, "chunk_lens": lens, "have": have, "requests": strings.Join(shape, " "), "children": children}
	o.Key = fmt.Sprintf("pull/%s/%v/%v/%s", config, lens, have, strings.Join(shape, ""))
	return o
}

// TestFixedPull: every config variant x one request for each kind of store content. One shard only.
func TestFixedPull(t *testing.T) {
	if hx.Shard() != 3%hx.Shards() || pullBin() == "" {
		t.Skip()
	}
	count := 0
	for _, cfg := range []string{"default", "unc-match", "unc-other", "comp-match"} {
		pc := PullCase{Config: cfg,
			Chunks:   []ChunkSpec{{Kind: "text", Len: 5000, Seed: 1}, {Kind: "rand", Len: 900, Seed: 2}, {Kind: "text", Len: 300, Seed: 3}, {Kind: "rand", Len: 64, Seed: 4}, {Kind: "text", Len: 2000, Seed: 5}},
			Have:     []string{"both", "conf", "other", "none", "corrupt"},
			Requests: []int{0, 1, 0, 2, 1, 3, 4, 1}}
		count++
		if !hx.Case(t, spec, Case{Mode: "pull", Pull: &pc}) {
			return
		}
	}
	hx.Note("fixed_pull_cases", count)
}
