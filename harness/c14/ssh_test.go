package c14

import (
	"bytes"
	"crypto/sha512"
	"errors"
	"fmt"
	"os"
	"syscall"
	"time"

	"github.com/folbricht/desync"
	"pgregory.net/rapid"

	"verifharness/internal/fakessh"
	"verifharness/internal/hx"
)

// SSHCase: the casync protocol end to end through RemoteSSH -> (fake ssh) -> `desync pull`
// serving a local store directory. Needs $VERIF_DESYNC_BIN; thorough tier.
type SSHCase struct {
	Chunks   []ChunkSpec `json:"chunks"`
	Present  []bool      `json:"present"`  // which chunks are in the served store
	StoreUnc bool        `json:"storeunc"` // the served store directory holds uncompressed chunks
	N        int         `json:"n"`        // sessions
	Reqs     []int       `json:"reqs"`     // request order (indexes into Chunks); a missing chunk ends its session
}

func genSSH(t *rapid.T) SSHCase {
	var c SSHCase
	k := rapid.IntRange(1, 5).Draw(t, "k")
	for i := 0; i < k; i++ {
		c.Chunks = append(c.Chunks, ChunkSpec{Kind: rapid.SampledFrom([]string{"rand", "text", "zero"}).Draw(t, "kind"),
			Len: rapid.IntRange(1, 70000).Draw(t, "len"), Seed: rapid.Uint64().Draw(t, "seed")})
		c.Present = append(c.Present, rapid.IntRange(0, 3).Draw(t, "present") > 0)
	}
	c.N = rapid.IntRange(1, 2).Draw(t, "n")
	for i, n := 0, rapid.IntRange(1, 6).Draw(t, "nreq"); i < n; i++ {
		c.Reqs = append(c.Reqs, rapid.IntRange(0, k-1).Draw(t, "req"))
	}
	return c
}

func runSSH(c SSHCase) (o hx.Outcome) {
	if !fakessh.HavePull() {
		o.Desc = map[string]any{"mode": "ssh", "skipped": "no desync binary"}
		return o
	}
	wd := hx.Scratch("c14ssh")
	defer os.RemoveAll(wd)
	cleanup, err := fakessh.Setup(wd)
	if err != nil {
		o.Desc = map[string]any{"mode": "ssh", "skipped": err.Error()}
		return o
	}
	defer cleanup()
	sdir := hx.Scratch("c14sshstore")
	defer os.RemoveAll(sdir)
	ls, err := desync.NewLocalStore(sdir, desync.StoreOptions{Uncompressed: c.StoreUnc})
	if err != nil {
		return o
	}
	var ids []desync.ChunkID
	var datas [][]byte
	for i, cs := range c.Chunks {
		b := cs.bytes()
		id := desync.ChunkID(sha512.Sum512_256(b))
		ids = append(ids, id)
		datas = append(datas, b)
		if i < len(c.Present) && c.Present[i] {
			ls.StoreChunk(desync.NewChunk(append([]byte(nil), b...)))
		}
	}
	for i := range ids { // equal contents under different "present" flags: absent wins
		if !(i < len(c.Present) && c.Present[i]) {
			ls.RemoveChunk(ids[i])
		}
	}
	n := c.N
	if n < 1 {
		n = 1
	}
	rs, err := fakessh.RemoteSSHStore(sdir, desync.StoreOptions{N: n})
	if err != nil {
		o.Fail("C14:ssh:connect-failed", "RemoteSSH store could not be opened: %v", err)
		return o
	}
	defer func() { rs.Close(); reapChildren() }()
	// chunks handed out by the ssh store are held and consumed after the history, when the
	// sessions of the pool have served further requests (held_test.go)
	held := newHeldSet("ssh")
	defer held.close()
	sawPresent, sawMissing := false, false
	missingSeen := 0
	for ri, r := range c.Reqs {
		if r < 0 || r >= len(ids) {
			continue
		}
		present := true
		for i := range ids {
			if ids[i] == ids[r] && !(i < len(c.Present) && c.Present[i]) {
				present = false
			}
		}
		if missingSeen >= n {
			break // every session has ended after answering MISSING (accepted server behaviour)
		}
		ch, err := rs.GetChunk(ids[r])
		switch {
		case present:
			sawPresent = true
			if err != nil {
				if missingSeen > 0 {
					continue // the request may have landed on a session that already ended
				}
				o.Fail(sig("ssh", resOK, resError), "chunk %d is in the served store but GetChunk over ssh failed: %v", r, err)
				continue
			}
			b, derr := ch.Data()
			if derr != nil || !bytes.Equal(b, datas[r]) {
				o.Fail(sig("ssh", resOK, resWrong), "chunk %d arrived altered over ssh (%d vs %d bytes, err %v)", r, len(b), len(datas[r]), derr)
			} else {
				held.hold(&heldChunk{ch: ch, id: ids[r], want: datas[r], seq: ri, label: fmt.Sprintf("request %d (chunk %d, pool of %d)", ri, r, n)})
			}
		default:
			sawMissing = true
			var cm desync.ChunkMissing
			if err == nil {
				o.Fail(sig("ssh", resMissing, resOK), "chunk %d is not in the served store but GetChunk over ssh succeeded", r)
			} else if !errors.As(err, &cm) {
				if missingSeen > 0 {
					continue
				}
				o.Fail(sig("ssh", resMissing, resError), "chunk %d is not in the served store but GetChunk over ssh returned %v instead of ChunkMissing", r, err)
			}
			missingSeen++
		}
	}
	held.consumeAll(&o, "after the history")
	if len(held.chunks) > 1 {
		o.Class("ssh:held-consumed-later")
	}
	o.Class("ssh:e2e")
	if sawPresent {
		o.Class("ssh:present")
	}
	if sawMissing {
		o.Class("ssh:missing")
	}
	if c.StoreUnc {
		o.Class("ssh:store-unc")
	}
	o.Nontrivial = sawPresent && sawMissing
	o.Desc = map[string]any{"mode": "ssh", "chunks": len(ids), "n": n, "reqs": c.Reqs, "present": c.Present, "storeunc": c.StoreUnc}
	o.Key = fmt.Sprintf("ssh/%v/%v/%d/%v", c.Reqs, c.Present, n, c.StoreUnc)
	return o
}

// reapChildren collects the `desync pull` children RemoteSSH leaves behind (it never waits
// for its ssh processes), so that long runs do not fill the process table with zombies.
func reapChildren() {
	for i := 0; i < 200; i++ {
		var ws syscall.WaitStatus
		pid, err := syscall.Wait4(-1, &ws, syscall.WNOHANG, nil)
		if err != nil || pid <= 0 {
			if err == syscall.ECHILD {
				return
			}
			time.Sleep(2 * time.Millisecond) // children exit shortly after their stdin closes
			if i > 20 {
				return
			}
		}
	}
}
