package c14

import (
	"bytes"
	"fmt"
	"io"
	"testing"

	"github.com/folbricht/desync"

	"verifharness/internal/ref"
)

func selfFail(t *testing.T, format string, a ...any) {
	t.Helper()
	fmt.Println("SELFTEST-FAILURE: C14: " + fmt.Sprintf(format, a...))
	t.Fatalf(format, a...)
}

func allScripts(maxLen int, kinds []string, f func(script []string)) {
	for l := 1; l <= maxLen; l++ {
		total := 1
		for i := 0; i < l; i++ {
			total *= len(kinds)
		}
		for code := 0; code < total; code++ {
			s := make([]string, l)
			x := code
			for i := range s {
				s[i] = kinds[x%len(kinds)]
				x /= len(kinds)
			}
			f(s)
		}
	}
}

// TestSelf checks the oracles against reference implementations: both accepted readings of the
// retry option must pass the model on every script; each faulty policy must be flagged with the
// expected signature on at least one script; the codecs of the back door must round-trip.
func TestSelf(t *testing.T) {
	kinds := []string{"200", "404", "403", "502", "reset", "short"}
	methods := []string{"getchunk", "haschunk", "storechunk", "getindex", "storeindex"}
	readings := map[string]func(int) int{
		"max(1,retry) attempts": func(r int) int {
			if r < 1 {
				return 1
			}
			return r
		},
		"retry+1 attempts": func(r int) int { return r + 1 },
	}
	for name, attempts := range readings {
		for _, m := range methods {
			for retry := 0; retry <= 4; retry++ {
				allScripts(4, kinds, func(s []string) {
					n, res := simulate(m, retry, s, attempts, responseClass)
					if sigs, why := judgeScript(m, retry, s, n, res); len(sigs) > 0 {
						selfFail(t, "model rejects the reference policy %q: %s retry=%d script=%v n=%d res=%s: %v %v", name, m, retry, s, n, res, sigs, why)
					}
				})
			}
		}
	}
	type faulty struct {
		name     string
		attempts func(int) int
		cls      func(method, kind string) string
		want     string
	}
	code := func(r int) int {
		if r < 1 {
			return 1
		}
		return r
	}
	remap := func(from, to string) func(string, string) string {
		return func(m, k string) string {
			if k == from {
				return to
			}
			return responseClass(m, k)
		}
	}
	for _, f := range []faulty{
		{"5xx treated as missing", code, remap("502", "missing"), "C14:get:failure-as-missing"},
		{"5xx treated as success", code, remap("502", "ok"), "C14:get:failure-as-ok"},
		{"404 retried", code, remap("404", "transient"), "C14:retry:retried-nontransient"},
		{"403 treated as missing", code, remap("403", "missing"), "C14:get:failure-as-missing"},
		{"404 treated as failure", code, remap("404", "failure"), "C14:get:missing-as-error"},
		{"never retries", func(int) int { return 1 }, responseClass, "C14:retry:transient-visible"},
		{"one attempt fewer", func(r int) int {
			if r < 2 {
				return 1
			}
			return r - 1
		}, responseClass, "C14:retry:transient-visible"},
		{"two attempts more", func(r int) int { return r + 2 }, responseClass, "C14:retry:attempts-exceed-budget"},
		{"unbounded", func(r int) int { return 1000 }, responseClass, "C14:retry:attempts-exceed-budget"},
	} {
		hit := false
		for retry := 0; retry <= 4 && !hit; retry++ {
			allScripts(4, kinds, func(s []string) {
				if hit {
					return
				}
				n, res := simulate("getchunk", retry, s, f.attempts, f.cls)
				sigs, _ := judgeScript("getchunk", retry, s, n, res)
				for _, sg := range sigs {
					if sg == f.want {
						hit = true
					}
				}
			})
		}
		if !hit {
			selfFail(t, "model does not flag the faulty policy %q with %s", f.name, f.want)
		}
	}
	// a truncated success answer to HEAD is a plain 200
	if responseClass("haschunk", "short") != "ok" || responseClass("getchunk", "short") != "transient" || responseClass("storechunk", "404") != "failure" {
		selfFail(t, "responseClass table")
	}

	// back-door codec: my zstd frames are readable by desync and vice versa
	for _, n := range []int{1, 2, 100, 5000, 70000} {
		for _, kind := range []string{"rand", "zero", "text"} {
			b := ChunkSpec{Kind: kind, Len: n, Seed: uint64(n)}.bytes()
			if len(b) != n {
				selfFail(t, "ChunkSpec.bytes: %d bytes, want %d", len(b), n)
			}
			z := zCompress(b)
			back, err := zDecompress(z)
			if err != nil || !bytes.Equal(back, b) {
				selfFail(t, "zstd round trip (%s,%d): %v", kind, n, err)
			}
			d, err := desync.Decompress(nil, z)
			if err != nil || !bytes.Equal(d, b) {
				selfFail(t, "desync cannot read the back door's zstd frame (%s,%d): %v", kind, n, err)
			}
			dz, _ := desync.Compress(b)
			back, err = zDecompress(dz)
			if err != nil || !bytes.Equal(back, b) {
				selfFail(t, "back door cannot read desync's zstd frame (%s,%d): %v", kind, n, err)
			}
			if chunkID(b) != desync.NewChunk(b).ID() {
				selfFail(t, "reference chunk ID differs from desync's for (%s,%d)", kind, n)
			}
		}
	}
	// index builder: the desync value and the independently encoded bytes describe the same index
	for _, sp := range []IdxSpec{{N: 0, Seed: 1, Max: 48}, {N: 1, Seed: 2, Max: 1}, {N: 37, Seed: 3, Max: 65536}} {
		idx, b := sp.build()
		f, err := ref.ParseIndex(b)
		if err != nil || len(f.Items) != len(idx.Chunks) {
			selfFail(t, "IdxSpec.build %v: %v", sp, err)
		}
		for i, it := range f.Items {
			c := idx.Chunks[i]
			if it.End != c.Start+c.Size || it.ID != [32]byte(c.ID) {
				selfFail(t, "IdxSpec.build %v: item %d", sp, i)
			}
		}
	}
	// frame relay: forwards whole messages, cuts the chosen one strictly short
	{
		srcR, srcW := io.Pipe()
		dstR, dstW := io.Pipe()
		done := make(chan struct{})
		go frameRelay(srcR, dstW, 1, 1000, done)
		msg := func(n int) []byte {
			b := make([]byte, 16+n)
			b[0] = byte(16 + n)
			return b
		}
		go func() {
			srcW.Write(msg(4))
			srcW.Write(msg(7))
			srcW.Write(msg(1))
			srcW.Close()
		}()
		got, _ := io.ReadAll(dstR)
		<-done
		if want := 20 + 1000%23; len(got) != want {
			selfFail(t, "frameRelay delivered %d bytes, want %d", len(got), want)
		}
	}
}
