package c14

// Mode srvproc: the server COMMANDS (`desync chunk-server`, `desync index-server`) as child processes in
// front of an upstream HTTP store that the harness serves itself and GATES: every upstream request is
// held until the harness releases it. 2..4 client requests are started one after the other (each one
// only after the upstream request of the previous one has arrived, so that all of them overlap inside
// the server), the upstream answers are released in a generated order, and every client must get the
// answer that belongs to ITS request: the object unchanged, 404 for a missing one, an error status for
// a failing upstream. The commands' own options (--log to a file or to stdout, -u, verified reads) are
// dimensions: the request log wrapper, the converters and the store plumbing sit in cmd/desync and are
// not reached by any library-level case.

import (
	"bytes"
	"context"
	"fmt"
	"io"
	"net"
	"net/http"
	"os"
	"os/exec"
	"path/filepath"
	"strings"
	"sync"
	"sync/atomic"
	"syscall"
	"time"

	"github.com/folbricht/desync"
	"pgregory.net/rapid"

	"verifharness/internal/hx"
	"verifharness/internal/ref"
)

type SrvReq struct {
	Method string `json:"method"` // GET | HEAD
	Obj    int    `json:"obj"`    // object number
}

type SrvCase struct {
	Server  string      `json:"server"`            // chunk | index
	Log     string      `json:"log,omitempty"`     // "" | file | stdout   (--log <file> / --log -)
	Unc     bool        `json:"unc,omitempty"`     // chunk: -u (the server converts: upstream compressed, clients get plain chunks)
	Verify  bool        `json:"verify,omitempty"`  // chunk: --skip-verify-read=false
	Objects []string    `json:"objects"`           // state per object: present | missing | failing (upstream answers 500)
	Data    []ChunkSpec `json:"data"`              // content per object (chunk: the chunk; index: seed of a generated index)
	Reqs    []SrvReq    `json:"reqs"`              // started in this order, each after the previous one's upstream request arrived
	Release []int       `json:"release,omitempty"` // order in which the held upstream requests are answered (indexes into Reqs; rest in order)
	// Put (chunk server only): the server runs with -w and, before the overlapping reads, a chunk the upstream does not
	// have is uploaded; while the upload's upstream PUT is held a GET for the same ID is made
	Put *SrvPut `json:"put,omitempty"`
}

type SrvPut struct {
	Data     ChunkSpec `json:"data"`
	Bad      bool      `json:"bad,omitempty"`       // the body is a well-formed transfer form of OTHER data (accepted by default: uploads are not verified)
	GetFirst bool      `json:"get_first,omitempty"` // the GET's upstream request (if it makes one) is answered before the upload's
}

func genSrv(t *rapid.T) SrvCase {
	c := SrvCase{Server: rapid.SampledFrom([]string{"chunk", "chunk", "index"}).Draw(t, "srv")}
	c.Log = rapid.SampledFrom([]string{"", "file", "file", "stdout"}).Draw(t, "log")
	if c.Server == "chunk" {
		c.Unc = rapid.IntRange(0, 2).Draw(t, "unc") == 0
		c.Verify = rapid.Bool().Draw(t, "verify")
	}
	no := rapid.IntRange(2, 4).Draw(t, "nobj")
	for i := 0; i < no; i++ {
		st := rapid.SampledFrom([]string{"present", "present", "present", "missing", "failing"}).Draw(t, "state")
		if i == 0 {
			st = "present"
		}
		c.Objects = append(c.Objects, st)
		c.Data = append(c.Data, ChunkSpec{Kind: rapid.SampledFrom([]string{"rand", "text", "zero"}).Draw(t, "kind"), Len: rapid.IntRange(1, 3000).Draw(t, "len"), Seed: rapid.Uint64().Draw(t, "seed")})
	}
	// one request per object (the chunk server de-duplicates requests for one ID: a second one would not reach the upstream)
	order := rapid.Permutation([]int{0, 1, 2, 3}[:no]).Draw(t, "objorder")
	nr := rapid.IntRange(2, no).Draw(t, "nreq")
	for i := 0; i < nr; i++ {
		m := "GET"
		if rapid.IntRange(0, 3).Draw(t, "head") == 0 {
			m = "HEAD"
		}
		c.Reqs = append(c.Reqs, SrvReq{Method: m, Obj: order[i]})
	}
	c.Release = rapid.Permutation([]int{0, 1, 2, 3}).Draw(t, "release")
	if c.Server == "chunk" && rapid.IntRange(0, 2).Draw(t, "put") == 0 {
		c.Put = &SrvPut{Data: ChunkSpec{Kind: rapid.SampledFrom([]string{"rand", "text"}).Draw(t, "pkind"), Len: rapid.IntRange(1, 3000).Draw(t, "plen"), Seed: rapid.Uint64().Draw(t, "pseed")},
			Bad: rapid.Bool().Draw(t, "pbad"), GetFirst: rapid.Bool().Draw(t, "pgetfirst")}
	}
	return c
}

// gateUpstream is the upstream store: objects by URL path, every request held until released.
type gateUpstream struct {
	mu      sync.Mutex
	cond    *sync.Cond
	objs    map[string][]byte // path -> body
	failing map[string]bool
	arrived []*heldReq
}

type heldReq struct {
	method, path string
	release      chan struct{}
}

func (g *gateUpstream) ServeHTTP(w http.ResponseWriter, r *http.Request) {
	var put []byte
	if r.Method == "PUT" {
		put, _ = io.ReadAll(r.Body)
	}
	h := &heldReq{method: r.Method, path: r.URL.Path, release: make(chan struct{})}
	g.mu.Lock()
	g.arrived = append(g.arrived, h)
	g.cond.Broadcast()
	g.mu.Unlock()
	select {
	case <-h.release:
	case <-r.Context().Done():
		return
	}
	if r.Method == "PUT" {
		g.mu.Lock()
		g.objs[r.URL.Path] = put
		g.mu.Unlock()
		w.WriteHeader(http.StatusOK)
		return
	}
	g.mu.Lock()
	body, ok := g.objs[r.URL.Path]
	fail := g.failing[r.URL.Path]
	g.mu.Unlock()
	switch {
	case fail:
		http.Error(w, "upstream failure", http.StatusInternalServerError)
	case !ok:
		http.NotFound(w, r)
	default:
		w.Header().Set("Content-Length", fmt.Sprint(len(body)))
		w.WriteHeader(http.StatusOK)
		if r.Method != "HEAD" {
			w.Write(body)
		}
	}
}

// waitArrivals waits until n upstream requests have arrived; false after patience.
func (g *gateUpstream) waitArrivals(n int, patience time.Duration) bool {
	deadline := time.Now().Add(patience)
	stop := make(chan struct{})
	defer close(stop)
	go func() {
		tk := time.NewTicker(10 * time.Millisecond)
		defer tk.Stop()
		for {
			select {
			case <-stop:
				return
			case <-tk.C:
				g.cond.Broadcast()
			}
		}
	}()
	g.mu.Lock()
	defer g.mu.Unlock()
	for len(g.arrived) < n {
		if time.Now().After(deadline) {
			return false
		}
		g.cond.Wait()
	}
	return true
}

var srvCounter uint32

// srvListen listens on a loopback address of this process' own (127.116-127.x.y: other checks use 127.16-115 and
// 127.128-254), so that the address handed to the child cannot be taken by a server of another shard or run between
// closing the probe listener and the child's bind - a client would then talk to somebody else's server.
func srvListen() (net.Listener, error) {
	k := atomic.AddUint32(&srvCounter, 1)
	pid := uint32(os.Getpid())
	ip := fmt.Sprintf("127.%d.%d.%d", 116+pid%12, (pid/12+k/250)%256, 1+k%250)
	if l, err := net.Listen("tcp", ip+":0"); err == nil {
		return l, nil
	}
	return net.Listen("tcp", "127.0.0.1:0")
}

func srvIndexBytes(seed uint64) []byte {
	n := 1 + int(seed%5)
	// a small well-formed caibx made by the independent codec
	var items []ref.IndexItem
	end := uint64(0)
	for i := 0; i < n; i++ {
		end += 16 + (seed>>uint(i))%200
		var id [32]byte
		for j := range id {
			id[j] = byte(seed>>uint(j%8)) + byte(i*31+j)
		}
		items = append(items, ref.IndexItem{End: end, ID: id})
	}
	return ref.EncodeIndex(ref.IndexFile{Flags: desync.CaFormatSHA512256 | desync.CaFormatExcludeNoDump, Min: 16, Avg: 64, Max: 256, Items: items})
}

func runSrvProc(c SrvCase) (o hx.Outcome) {
	bin := pullBin()
	o.Desc = map[string]any{"mode": "srvproc", "server": c.Server, "log": c.Log, "unc": c.Unc, "verify": c.Verify, "objects": c.Objects, "reqs": len(c.Reqs)}
	if bin == "" {
		o.Desc.(map[string]any)["skipped"] = "no desync binary ($VERIF_DESYNC_BIN)"
		return o
	}
	if c.Server != "index" {
		c.Server = "chunk"
	}
	if len(c.Objects) == 0 || len(c.Reqs) == 0 {
		return o
	}
	{ // one request per object
		seen := map[int]bool{}
		var reqs []SrvReq
		for _, r := range c.Reqs {
			if r.Obj < 0 {
				r.Obj = -r.Obj
			}
			if k := r.Obj % len(c.Objects); !seen[k] {
				seen[k] = true
				reqs = append(reqs, r)
			}
		}
		c.Reqs = reqs
	}
	for len(c.Data) < len(c.Objects) {
		c.Data = append(c.Data, ChunkSpec{Kind: "rand", Len: 100, Seed: uint64(len(c.Data))})
	}
	inconclusive := func(what string) hx.Outcome {
		o.Class("srvproc:inconclusive:" + what)
		o.Desc.(map[string]any)["inconclusive"] = what
		return o
	}
	dir := hx.Scratch("c14srv")
	defer os.RemoveAll(dir)

	// ---- upstream
	g := &gateUpstream{objs: map[string][]byte{}, failing: map[string]bool{}}
	g.cond = sync.NewCond(&g.mu)
	type object struct {
		upPath, clPath string
		plain, clBody  []byte // what the client has to receive on GET
	}
	objs := make([]object, len(c.Objects))
	for i, st := range c.Objects {
		var ob object
		if c.Server == "chunk" {
			ob.plain = c.Data[i].bytes()
			ob.plain = append(ob.plain, byte(i)) // distinct objects
			cid := chunkID(ob.plain)
			id := cid.String()
			ob.upPath = "/up/" + id[:4] + "/" + id + ".cacnk"
			ob.clPath = "/" + id[:4] + "/" + id
			if !c.Unc {
				ob.clPath += ".cacnk"
			}
			if st == "present" {
				g.objs[ob.upPath] = zCompress(ob.plain)
			}
		} else {
			ob.plain = srvIndexBytes(c.Data[i].Seed ^ uint64(i+1)*0x9e3779b97f4a7c15)
			name := fmt.Sprintf("obj%d.caibx", i)
			ob.upPath, ob.clPath = "/up/"+name, "/"+name
			if st == "present" {
				g.objs[ob.upPath] = ob.plain
			}
		}
		if st == "failing" {
			g.failing[ob.upPath] = true
		}
		objs[i] = ob
	}
	ul, err := srvListen()
	if err != nil {
		return inconclusive("listen")
	}
	usrv := &http.Server{Handler: g}
	go usrv.Serve(ul)
	defer usrv.Close()

	// ---- the server process
	sl, err := srvListen()
	if err != nil {
		return inconclusive("listen")
	}
	addr := sl.Addr().String()
	sl.Close()
	args := []string{c.Server + "-server", "-s", "http://" + ul.Addr().String() + "/up/", "-l", addr, "-e", "0"}
	logPath := filepath.Join(dir, "requests.log")
	switch c.Log {
	case "file":
		args = append(args, "--log", logPath)
	case "stdout":
		args = append(args, "--log", "-")
	}
	if c.Server != "chunk" {
		c.Put = nil
	}
	if c.Server == "chunk" {
		if c.Put != nil {
			args = append(args, "-w")
		}
		if c.Unc {
			args = append(args, "-u")
		}
		if c.Verify {
			args = append(args, "--skip-verify-read=false")
		}
	}
	var out bytes.Buffer
	cmd := exec.Command(bin, args...)
	cmd.Dir = dir
	cmd.Env = []string{"HOME=" + dir, "TMPDIR=" + dir, "PATH=/usr/bin:/bin", "NO_PROXY=*", "no_proxy=*"}
	cmd.SysProcAttr = &syscall.SysProcAttr{Setpgid: true, Pdeathsig: syscall.SIGKILL}
	cmd.Stdout, cmd.Stderr = &out, &out
	if err := cmd.Start(); err != nil {
		return inconclusive("cannot-start")
	}
	exited := make(chan struct{})
	go func() { cmd.Wait(); close(exited) }()
	defer func() {
		cmd.Process.Signal(syscall.SIGTERM)
		select {
		case <-exited:
		case <-time.After(5 * time.Second):
			syscall.Kill(-cmd.Process.Pid, syscall.SIGKILL)
			<-exited
		}
	}()
	up := false
	for deadline := time.Now().Add(20 * time.Second); time.Now().Before(deadline); {
		if conn, err := net.DialTimeout("tcp", addr, time.Second); err == nil {
			conn.Close()
			up = true
			break
		}
		select {
		case <-exited:
			if strings.Contains(out.String(), "address already in use") {
				return inconclusive("listen-address-taken")
			}
			o.Fail("C14:srvproc:"+c.Server+":exited-at-start", "desync %s ended instead of serving: %q", strings.Join(args, " "), clipS(out.String()))
			return o
		case <-time.After(3 * time.Millisecond):
		}
	}
	if !up {
		return inconclusive("server-start-timeout")
	}
	select {
	case <-exited: // somebody answers at the address, but it is not our child
		return inconclusive("listen-address-taken")
	default:
	}

	// ---- overlapping client requests
	type answer struct {
		status int
		body   []byte
		err    error
	}
	answers := make([]answer, len(c.Reqs))
	started := 0
	var wg sync.WaitGroup
	ctx, cancel := context.WithTimeout(context.Background(), 40*time.Second)
	defer cancel()
	client := &http.Client{Transport: &http.Transport{DisableKeepAlives: true, Proxy: nil}}
	defer client.CloseIdleConnections()

	// ---- upload phase: a GET for an ID whose upload is in flight
	base := 0 // upstream requests seen before the overlapping reads start
	if c.Put != nil {
		plain := append(c.Put.Data.bytes(), 0xfe)
		pid := chunkID(plain)
		id := pid.String()
		upPath, clPath := "/up/"+id[:4]+"/"+id+".cacnk", "/"+id[:4]+"/"+id
		if !c.Unc {
			clPath += ".cacnk"
		}
		payload := plain
		if c.Put.Bad {
			payload = append(append([]byte(nil), plain...), 0x01) // other data under this ID
		}
		body := wire(payload, c.Unc)
		do := func(m string, b []byte) (a answer) {
			var rd io.Reader
			if b != nil {
				rd = bytes.NewReader(b)
			}
			req, _ := http.NewRequestWithContext(ctx, m, "http://"+addr+clPath, rd)
			resp, err := client.Do(req)
			if err != nil {
				a.err = err
				return a
			}
			defer resp.Body.Close()
			a.status = resp.StatusCode
			a.body, a.err = io.ReadAll(resp.Body)
			return a
		}
		var putA, getA answer
		var pw sync.WaitGroup
		pw.Add(1)
		go func() { defer pw.Done(); putA = do("PUT", body) }()
		if !g.waitArrivals(1, 10*time.Second) {
			cancel()
			pw.Wait()
			return inconclusive("upload-did-not-reach-upstream")
		}
		pw.Add(1)
		go func() { defer pw.Done(); getA = do("GET", nil) }()
		gotUp := g.waitArrivals(2, 1500*time.Millisecond) // a server that answers the read from the upload in flight asks nobody
		g.mu.Lock()
		held := append([]*heldReq(nil), g.arrived...)
		g.mu.Unlock()
		if gotUp && c.Put.GetFirst {
			close(held[1].release)
			time.Sleep(300 * time.Microsecond)
			close(held[0].release)
		} else {
			close(held[0].release)
			if gotUp {
				time.Sleep(300 * time.Microsecond)
				close(held[1].release)
			}
		}
		pw.Wait()
		g.mu.Lock()
		for _, h := range g.arrived[len(held):] { // retries / late requests of this phase
			close(h.release)
		}
		base = len(g.arrived)
		stored := g.objs[upPath]
		g.mu.Unlock()
		o.Class("srvproc:upload", map[bool]string{true: "srvproc:upload:mislabelled", false: "srvproc:upload:valid"}[c.Put.Bad])
		if gotUp {
			o.Class("srvproc:upload:read-went-upstream")
		}
		whereP := fmt.Sprintf("desync %s; PUT %s (%d bytes, mislabelled=%v) answered %d, GET of the same ID while the upload was held upstream answered %d with %d bytes (own upstream request: %v, answered first: %v); server output: %q",
			strings.Join(args, " "), clPath, len(body), c.Put.Bad, putA.status, getA.status, len(getA.body), gotUp, c.Put.GetFirst, clipS(out.String()))
		if getA.err == nil && getA.status == 200 && (c.Verify || !c.Put.Bad) {
			got, derr := unwire(getA.body, c.Unc)
			if derr != nil || !bytes.Equal(got, plain) {
				o.Fail("C14:srvproc:chunk:get:wrong-data-during-upload", "a server that verifies what it reads (or whose upload was right) delivered 200 with bytes that are not chunk %s — %s", id[:8], whereP)
			}
		}
		if putA.err == nil && putA.status == 200 && !c.Put.Bad {
			if sp, derr := zDecompress(stored); derr != nil || !bytes.Equal(sp, plain) {
				o.Fail(sig("srvproc:chunk:put", "stored", "not-stored"), "upload acknowledged but the upstream store does not hold the chunk — %s", whereP)
			}
		}
	}
	for i, rq := range c.Reqs {
		ob := objs[rq.Obj%len(objs)]
		m := "GET"
		if rq.Method == "HEAD" {
			m = "HEAD"
		}
		wg.Add(1)
		go func(i int, m, path string) {
			defer wg.Done()
			req, _ := http.NewRequestWithContext(ctx, m, "http://"+addr+path, nil)
			resp, err := client.Do(req)
			if err != nil {
				answers[i].err = err
				return
			}
			defer resp.Body.Close()
			answers[i].status = resp.StatusCode
			answers[i].body, answers[i].err = io.ReadAll(resp.Body)
		}(i, m, ob.clPath)
		started = i + 1
		if !g.waitArrivals(base+i+1, 20*time.Second) {
			// the server answered without asking upstream, or is stuck: let everything go and judge what came back
			break
		}
	}
	c.Reqs = c.Reqs[:started]
	g.mu.Lock()
	held := append([]*heldReq(nil), g.arrived[base:]...)
	g.mu.Unlock()
	overlapped := len(held) == len(c.Reqs)
	released := map[int]bool{}
	for _, k := range c.Release {
		if k >= 0 && k < len(held) && !released[k] {
			released[k] = true
			close(held[k].release)
			if overlapped {
				// one answer at a time: the client of this request gets its response while the others are still held
				time.Sleep(300 * time.Microsecond)
			}
		}
	}
	for k := range held {
		if !released[k] {
			close(held[k].release)
		}
	}
	// late upstream requests (none expected) are let through
	stopLate := make(chan struct{})
	go func() {
		for {
			select {
			case <-stopLate:
				return
			case <-time.After(2 * time.Millisecond):
				g.mu.Lock()
				for _, h := range g.arrived[base+len(held):] {
					select {
					case <-h.release:
					default:
						close(h.release)
					}
				}
				g.mu.Unlock()
			}
		}
	}()
	wg.Wait()
	close(stopLate)

	// ---- verdicts
	o.Class("srvproc", "srvproc:"+c.Server, "srvproc:log="+map[string]string{"": "off", "file": "file", "stdout": "stdout"}[c.Log])
	if overlapped {
		o.Class("srvproc:all-requests-overlapped")
		if c.Log != "" {
			o.Class("srvproc:overlapped:log-on")
		}
	}
	if c.Unc {
		o.Class("srvproc:server-converts")
	}
	o.Nontrivial = overlapped && len(c.Reqs) >= 2
	o.Key = fmt.Sprintf("srvproc/%s/%s/%v/%v/%v/%v/%v", c.Server, c.Log, c.Unc, c.Verify, c.Objects, c.Reqs, c.Release)
	where := func(i int) string {
		return fmt.Sprintf("desync %s; request #%d of %d overlapping ones: %s object %d (%s); log so far: %q", strings.Join(args, " "), i, len(c.Reqs), c.Reqs[i].Method, c.Reqs[i].Obj%len(objs), c.Objects[c.Reqs[i].Obj%len(objs)], clipS(out.String()))
	}
	for i, rq := range c.Reqs {
		a := answers[i]
		oi := rq.Obj % len(objs)
		st, ob := c.Objects[oi], objs[oi]
		fam := "srvproc:" + c.Server + ":" + strings.ToLower(rq.Method)
		if a.err != nil {
			select {
			case <-exited:
				o.Fail("C14:srvproc:"+c.Server+":died", "the server ended while serving: %s", where(i))
				return o
			default:
			}
			if ctx.Err() != nil {
				return inconclusive("client-timeout")
			}
			o.Fail(sig(fam, st, "transport-error"), "client error %v — %s", a.err, where(i))
			continue
		}
		o.Class("srvproc:state:" + st)
		switch st {
		case "present":
			good := a.status == 200
			if good && rq.Method != "HEAD" {
				got := a.body
				if c.Server == "chunk" && !c.Unc {
					var derr error
					if got, derr = zDecompress(a.body); derr != nil {
						good = false
					}
				}
				good = good && bytes.Equal(got, ob.plain)
			}
			if !good {
				got := resWrong
				if a.status == 404 {
					got = resMissing
				} else if a.status != 200 {
					got = resError
				}
				o.Fail(sig(fam, "present", got), "status %d with %d body bytes for an object the upstream holds (%d bytes) — %s", a.status, len(a.body), len(ob.plain), where(i))
			}
		case "missing":
			if a.status != 404 {
				got := resError
				if a.status == 200 {
					got = "present"
				}
				o.Fail(sig(fam, "missing", got), "status %d (%d body bytes) for an object the upstream answered 404 for — %s", a.status, len(a.body), where(i))
			}
		case "failing":
			if a.status == 200 || a.status == 404 {
				got := resMissing
				if a.status == 200 {
					got = "success"
				}
				o.Fail(sig(fam, "failure", got), "status %d (%d body bytes) although the upstream answered 500 — %s", a.status, len(a.body), where(i))
			}
		}
	}
	return o
}

func clipS(s string) string {
	if len(s) > 500 {
		return s[:500] + "…"
	}
	return s
}
