package c16

// The model of "what is what" in a chunk store and the verdict functions. Everything here works
// on path names and bytes only (regexp, crypto/sha512, a zstd decoder of its own); it never calls
// into desync.

import (
	"crypto/sha512"
	"encoding/hex"
	"fmt"
	"regexp"
	"sort"
	"strings"

	"github.com/klauspost/compress/zstd"

	"verifharness/internal/hx"
)

const (
	cExt = ".cacnk" // casync's extension of a compressed chunk; uncompressed chunks have none
)

// file kinds with respect to one (backend, mode)
const (
	kOwn      = "own"       // chunk file of the store's own format at its canonical path
	kOther    = "other"     // chunk file of the other compression format at its canonical path
	kTmp      = "tmp"       // abandoned temporary chunk file of this backend (must be gone after a successful prune)
	kOptional = "optional"  // temporary-file-like name the statement takes no position on (may stay or go)
	kNonChunk = "non-chunk" // everything else: must never be deleted
)

type fclass struct {
	Kind string
	ID   string // hex chunk ID for own/other
	Sub  string // non-chunk: junk | chunk-named | outside-prefix
}

var (
	reCanon     = regexp.MustCompile(`^([0-9a-f]{4})/([0-9a-f]{64})(\.cacnk)?$`)
	reLocalTmp  = regexp.MustCompile(`^[0-9a-f]{4}/\.tmp-cacnk\.[0-9]+$`)
	reSftpTmp   = regexp.MustCompile(`^([0-9a-f]{4})/([0-9a-f]{64})(\.cacnk)?[0-9]{1,19}$`)
	reChunkName = regexp.MustCompile(`^[0-9a-fA-F]{64}(\.cacnk)?$`)
)

func baseName(p string) string {
	if i := strings.LastIndexByte(p, '/'); i >= 0 {
		return p[i+1:]
	}
	return p
}

// classify says what the file at rel (path relative to the store root, '/' separated) is for a
// store of the given backend in the given mode.
//
//   - A chunk file is a file <4 hex>/<64 hex>[.cacnk] whose directory is the first four digits of
//     its name (lower case, as every desync store writes it). With ".cacnk" it belongs to the
//     compressed format, without to the uncompressed format.
//   - Temporary chunk files: LocalStore.StoreChunk writes <4 hex>/.tmp-cacnk.<decimal>;
//     SFTPStoreBase.StoreObject writes <chunk path><decimal>. S3Store writes none. A temporary
//     file of exactly the shape the backend itself produces (own format for SFTP) must be gone
//     after a successful prune. Other names that merely look temporary (".tmp-cacnk*" elsewhere,
//     the other local-directory backend's temp names) are "optional": the statement does not
//     say whether they are abandoned temporary chunk files or non-chunk files, so neither
//     outcome is flagged. In S3 nothing is temporary.
func classify(rel, backend string, unc bool) fclass {
	if m := reCanon.FindStringSubmatch(rel); m != nil && m[1] == m[2][:4] {
		fileUnc := m[3] == ""
		if fileUnc == unc {
			return fclass{Kind: kOwn, ID: m[2]}
		}
		return fclass{Kind: kOther, ID: m[2]}
	}
	base := baseName(rel)
	if backend != "s3" {
		sftpTmp, sftpTmpOwn := false, false
		if m := reSftpTmp.FindStringSubmatch(rel); m != nil && m[1] == m[2][:4] {
			sftpTmp = true
			sftpTmpOwn = (m[3] == "") == unc
		}
		localTmp := reLocalTmp.MatchString(rel)
		tmpLike := strings.HasPrefix(base, ".tmp-cacnk")
		switch backend {
		case "local":
			if localTmp {
				return fclass{Kind: kTmp}
			}
			if tmpLike || sftpTmp {
				return fclass{Kind: kOptional}
			}
		case "sftp":
			if sftpTmpOwn {
				return fclass{Kind: kTmp}
			}
			if sftpTmp || tmpLike {
				return fclass{Kind: kOptional}
			}
		}
	}
	if reChunkName.MatchString(base) {
		return fclass{Kind: kNonChunk, Sub: "chunk-named"}
	}
	return fclass{Kind: kNonChunk, Sub: "junk"}
}

var zdec, _ = zstd.NewReader(nil)

// contentMatches: do the stored bytes of a chunk file of the given format hash to hexid?
func contentMatches(hexid string, stored []byte, unc bool) bool {
	plain := stored
	if !unc {
		p, err := zdec.DecodeAll(stored, nil)
		if err != nil {
			return false
		}
		plain = p
	}
	if len(plain) == 0 {
		return false // no chunk is empty
	}
	sum := sha512.Sum512_256(plain)
	return hex.EncodeToString(sum[:]) == hexid
}

func hashID(plain []byte) string {
	sum := sha512.Sum512_256(plain)
	return hex.EncodeToString(sum[:])
}

// snapshot of a store: key -> content. For S3 the key is the full object key.
type snap map[string]string

// view translates snapshot keys into store-relative names.
type view struct {
	backend string
	unc     bool
	prefix  string // S3 key prefix including the trailing "/" ("" = bucket root)
	via     string // name used in signatures instead of backend ("cli": the operation ran through the desync command)
	// born: files that came into being during this case's own StoreChunk calls (through the
	// store under test) and are not chunk files: whatever their name looks like, they are
	// abandoned temporary chunk files by provenance.
	born map[string]bool
	// blocked: files the operation cannot unlink (their directory carries the immutable flag
	// while it runs). Verify with repair cannot remove them; what it must not do is say it did.
	blocked map[string]bool
	// claimed: chunk IDs for which Verify printed a "... : removed" line.
	claimed map[string]bool
}

func (v view) sigName() string {
	if v.via != "" {
		return v.via
	}
	return v.backend
}

func (v view) classOf(key string) fclass {
	if v.backend == "s3" && v.prefix != "" {
		if !strings.HasPrefix(key, v.prefix) {
			return fclass{Kind: kNonChunk, Sub: "outside-prefix"}
		}
		key = strings.TrimPrefix(key, v.prefix)
	}
	return classify(key, v.backend, v.unc)
}

func (v view) mode() string {
	if v.unc {
		return "uncompressed"
	}
	return "compressed"
}

type verdicts struct {
	m     map[string][]string
	order []string
}

func (v *verdicts) add(sig, what string) {
	if v.m == nil {
		v.m = map[string][]string{}
	}
	if _, ok := v.m[sig]; !ok {
		v.order = append(v.order, sig)
	}
	for _, w := range v.m[sig] {
		if w == what {
			return
		}
	}
	v.m[sig] = append(v.m[sig], what)
}

func (v *verdicts) emit(o *hx.Outcome, context string) {
	for _, sig := range v.order {
		items := v.m[sig]
		n := len(items)
		if n > 6 {
			items = append(items[:6:6], "...")
		}
		o.Fail(sig, "%s: %d file(s): %s", context, n, strings.Join(items, "; "))
	}
}

func (v *verdicts) sigs() []string { return append([]string(nil), v.order...) }

func sortedKeys(s snap) []string {
	ks := make([]string, 0, len(s))
	for k := range s {
		ks = append(ks, k)
	}
	sort.Strings(ks)
	return ks
}

// judgePrune compares the store before and after a Prune call that returned err.
//
// Always: no referenced own-format chunk, no other-format chunk and no non-chunk file may be
// gone (or altered). If err == nil: every unreferenced own-format chunk file and every abandoned
// temporary chunk file must be gone.
func judgePrune(v view, before, after snap, keep map[string]bool, pruneErr error) *verdicts {
	var out verdicts
	sig := func(s string) string { return "C16:" + v.sigName() + ":prune:" + s }
	for _, k := range sortedKeys(before) {
		cl := v.classOf(k)
		now, still := after[k]
		gone := !still
		altered := still && now != before[k]
		if v.born[k] && cl.Kind != kOwn && cl.Kind != kOther {
			if pruneErr == nil && !gone {
				out.add(sig("upload-temp-left"), k)
			}
			continue
		}
		switch cl.Kind {
		case kOwn:
			if keep[cl.ID] {
				if gone {
					out.add(sig("deleted-referenced"), k)
				}
				if altered {
					out.add(sig("modified"), k)
				}
			} else if pruneErr == nil && !gone {
				out.add(sig("unreferenced-left:"+v.mode()), k)
			}
		case kOther:
			if gone {
				out.add(sig("deleted-other-format"), k)
			}
			if altered {
				out.add(sig("modified"), k)
			}
		case kTmp:
			if pruneErr == nil && !gone {
				out.add(sig("temp-left"), k)
			}
		case kOptional:
		default:
			if gone {
				out.add(sig("deleted-non-chunk:"+cl.Sub), k)
			}
			if altered {
				out.add(sig("modified"), k)
			}
		}
	}
	return &out
}

var reVerifyRemoved = regexp.MustCompile(`^chunk id ([0-9a-f]{64}) does not match its hash [0-9a-f]{64}: removed$`)

// claimedRemoved extracts the chunk IDs Verify says it removed.
func claimedRemoved(output string) map[string]bool {
	ids := map[string]bool{}
	for _, line := range strings.Split(output, "\n") {
		if m := reVerifyRemoved.FindStringSubmatch(strings.TrimRight(line, "\r")); m != nil {
			ids[m[1]] = true
		}
	}
	return ids
}

var reVerifyMsg = regexp.MustCompile(`^chunk id ([0-9a-f]{64}) does not match its hash `)

// reportedInvalid extracts the chunk IDs named in "does not match" lines of Verify's output.
func reportedInvalid(output string) (ids map[string]bool, otherLines []string) {
	ids = map[string]bool{}
	for _, line := range strings.Split(output, "\n") {
		if line == "" {
			continue
		}
		if m := reVerifyMsg.FindStringSubmatch(line); m != nil {
			ids[m[1]] = true
		} else {
			otherLines = append(otherLines, line)
		}
	}
	return
}

// How a Verify call ended.
const (
	vComplete = "complete" // returned nil: everything must have been looked at
	vExcused  = "excused"  // the harness cancelled the context and Verify said so: may be incomplete
	vAborted  = "aborted"  // returned an error although nobody interrupted it
)

// judgeVerify: reported is the set of IDs Verify named as not matching. The statement makes
// Verify's promise unconditional, so a run that gives up with an error on a healthy directory
// and leaves invalid chunks unreported is flagged too, under one signature of its own
// ("aborted-incomplete").
func judgeVerify(v view, before, after snap, reported map[string]bool, repair bool, ended string) *verdicts {
	var out verdicts
	sig := func(s string) string { return "C16:" + v.sigName() + ":verify:" + s }
	complete := ended != vExcused
	incomplete := func(s string) string {
		if ended == vAborted {
			return sig("aborted-incomplete")
		}
		return sig(s)
	}
	ownInvalid := map[string]bool{}
	ownValid := map[string]bool{}
	for _, k := range sortedKeys(before) {
		cl := v.classOf(k)
		now, still := after[k]
		gone := !still
		altered := still && now != before[k]
		if altered {
			out.add(sig("modified"), k)
		}
		if cl.Kind == kOwn && !gone && v.claimed[cl.ID] {
			out.add(sig("claimed-removed-but-present"), k)
		}
		switch cl.Kind {
		case kOwn:
			bad := !contentMatches(cl.ID, []byte(before[k]), v.unc)
			if bad {
				ownInvalid[cl.ID] = true
				if complete && !reported[cl.ID] {
					out.add(incomplete("missed-invalid"), k)
				}
				if gone && !repair {
					out.add(sig("removed-without-repair"), k)
				}
				if !gone && repair && complete && !v.blocked[k] {
					out.add(incomplete("repair-left-invalid"), k)
				}
			} else {
				ownValid[cl.ID] = true
				if reported[cl.ID] {
					out.add(sig("reported-valid"), k)
				}
				if gone {
					out.add(sig("removed-valid"), k)
				}
			}
		case kOther:
			if gone {
				out.add(sig("removed-other-format"), k)
			}
		default: // temporary files are no business of verify either
			if gone {
				out.add(sig("removed-non-chunk"), k)
			}
		}
	}
	var rep []string
	for id := range reported {
		rep = append(rep, id)
	}
	sort.Strings(rep)
	for _, id := range rep {
		if !ownInvalid[id] && !ownValid[id] {
			out.add(sig("reported-not-in-store"), id)
		}
	}
	return &out
}

func describeErr(err error) string {
	if err == nil {
		return "nil"
	}
	s := fmt.Sprintf("%T: %v", err, err)
	if len(s) > 200 {
		s = s[:200] + "..."
	}
	return s
}
