package c16

// CLI tier of C16 (only with $VERIF_DESYNC_BIN): the same store contents and the same verdict
// functions, but the operation is `desync prune -y -s <store> <index>...` or
// `desync verify -s <store> [-n N] [-r]` run as a child process on a local store directory.
//
// For prune the keep-set is not handed over directly: it is what 1..4 index files (caibx and
// caidx, of different lengths, overlapping or disjoint, in a generated command-line order,
// optionally one of them on standard input) reference together. Afterwards the store must hold
// exactly the union of the referenced chunks it held before (plus everything prune has no
// business with), and the command must exit 0 on a store without chunk-like names in wrong
// places (those make LocalStore.Prune stop with an error, which the statement allows).

import (
	"bytes"
	"context"
	"encoding/hex"
	"encoding/json"
	"fmt"
	"os"
	"os/exec"
	"path/filepath"
	"time"

	"github.com/folbricht/desync"
	"pgregory.net/rapid"

	"verifharness/internal/hx"
)

// CLIIndex is one index file of a CLI prune case.
type CLIIndex struct {
	Chunks []int `json:"chunks"`          // universe chunks in index order (repeats allowed)
	Caidx  bool  `json:"caidx,omitempty"` // written as <name>.caidx with the feature flags of a tar index
}

type CLICase struct {
	Indexes []CLIIndex `json:"indexes,omitempty"` // prune: the index arguments in command-line order
	Stdin   int        `json:"stdin,omitempty"`   // 1-based position of the index given as "-" on standard input (0: none)
	Long    bool       `json:"long,omitempty"`    // --store/--yes/--concurrency/--repair instead of -s/-y/-n/-r
	Cfg     string     `json:"cfg,omitempty"`     // uncompressed mode reaches the command through: flag (--config) | home ($HOME/.config/desync/config.json)
}

func cliBin() string { return os.Getenv("VERIF_DESYNC_BIN") }

func init() {
	if cliBin() == "" {
		return
	}
	spec.Required = append(spec.Required,
		"via:cli", "cli:prune", "cli:verify", "cli:compressed", "cli:uncompressed",
		"cli:prune:single-index", "cli:prune:multi-index", "cli:prune:smaller-index-first", "cli:prune:larger-index-first",
		"cli:prune:overlapping-indexes", "cli:prune:disjoint-indexes", "cli:prune:caidx+caibx", "cli:prune:unreferenced-present",
		"cli:prune:referenced-absent", "cli:prune:exit0", "cli:prune:stdin-index", "cli:verify:repair", "cli:verify:no-repair", "cli:verify:reported>0",
		"nontrivial:cli:prune", "nontrivial:cli:verify",
		"cli:store-path:canonical", "cli:store-path:non-canonical", "cli:store-path:non-canonical:prune", "cli:store-path:non-canonical:verify",
		"cli:store-path:trailing-slash", "cli:store-path:double-slash", "cli:store-path:dot", "cli:store-path:dotdot",
		"cli:store-path:relative", "cli:store-path:relative-dot", "cli:store-path:relative-trailing-slash",
		"cli:store-path:symlink", "cli:store-path:symlink-trailing-slash", "cli:store-path:symlink-in-path", "cli:store-path:symlink-relative", "cli:store-path:symlink-chain", "cli:store-path:symlink-chain-relative", "cli:store-path:symlink-chain-3",
		"cli:prune:unlink-fails", "cli:prune:unlink-fails:delivered", "cli:verify-repair:unlink-fails", "cli:verify-repair:unlink-fails:delivered")
	spec.Rule += "; with $VERIF_DESYNC_BIN: additionally `desync prune -y -s <local store> <1..4 index files>` (caibx/caidx of different lengths in generated order, overlapping or disjoint, " +
		"optionally one on stdin) and `desync verify -s <store> -n N [-r]` as child processes, uncompressed mode via --config or $HOME config, same clauses plus exit status 0; " +
		"every order of every non-empty subset of four indexes of different lengths is enumerated"
	spec.Assumptions = append(spec.Assumptions,
		"CLI cases: index files are written with desync's Index.WriteTo from IDs computed here; a child that cannot be started or does not end within 120 s makes the run inconclusive, never a verdict")
}

// drawCLI: 1 in 64 cases in the quick tier, 1 in 16 in thorough (fair single-bit draws).
func drawCLI(t *rapid.T) bool {
	if cliBin() == "" {
		return false
	}
	all := true
	for i := 0; i < hx.Pick(6, 4); i++ {
		if !rapid.Bool().Draw(t, "cli") {
			all = false
		}
	}
	return all
}

// genCLI turns an already generated local case into a CLI case.
func genCLI(t *rapid.T, c *Case) {
	c.Backend, c.Prefix, c.Fault, c.PageSize, c.Cancel, c.Uploads = "local", "", nil, 0, false, nil
	cl := &CLICase{Long: rapid.Bool().Draw(t, "cli_long"), Cfg: rapid.SampledFrom([]string{"flag", "home"}).Draw(t, "cli_cfg")}
	c.CLI = cl
	if rapid.IntRange(0, 3).Draw(t, "cli_verify") == 0 {
		c.Op = "verify"
		c.N = rapid.IntRange(1, 16).Draw(t, "n")
		c.Repair = rapid.Bool().Draw(t, "repair")
		return
	}
	c.Op = "prune"
	// names in wrong places make LocalStore.Prune fail: keep most CLI stores free of them so that
	// exit status 0 can be demanded
	if rapid.IntRange(0, 3).Draw(t, "cli_allow_misplaced") != 0 {
		kept := c.Extras[:0]
		for _, e := range c.Extras {
			if e.Kind != "misplaced" {
				kept = append(kept, e)
			}
		}
		c.Extras = kept
	}
	for len(c.Chunks) < 2 {
		c.Chunks = append(c.Chunks, ChunkSpec{Seed: rapid.Uint64().Draw(t, "seed"), Len: rapid.IntRange(1, 300).Draw(t, "len"), C: 1, U: 1})
	}
	n := len(c.Chunks)
	k := rapid.SampledFrom([]int{1, 2, 2, 2, 3, 3, 4}).Draw(t, "cli_indexes")
	for i := 0; i < k; i++ {
		ix := CLIIndex{Caidx: rapid.IntRange(0, 2).Draw(t, "caidx") == 0}
		for j, m := 0, rapid.IntRange(0, 2*n).Draw(t, "ilen"); j < m; j++ {
			ix.Chunks = append(ix.Chunks, rapid.IntRange(0, n-1).Draw(t, "iref"))
		}
		cl.Indexes = append(cl.Indexes, ix)
	}
	if rapid.IntRange(0, 5).Draw(t, "cli_stdin") == 0 {
		cl.Stdin = rapid.IntRange(1, k).Draw(t, "cli_stdin_pos")
	}
}

func normCLI(c *Case) {
	cl := c.CLI
	c.Backend, c.Prefix, c.Fault, c.PageSize, c.Cancel, c.Uploads = "local", "", nil, 0, false, nil
	if c.Op != "verify" {
		c.Op = "prune"
	}
	if len(cl.Indexes) > 4 {
		cl.Indexes = cl.Indexes[:4]
	}
	if c.Op == "prune" && len(cl.Indexes) == 0 {
		cl.Indexes = []CLIIndex{{}}
	}
	if cl.Stdin < 0 || cl.Stdin > len(cl.Indexes) {
		cl.Stdin = 0
	}
	if cl.Cfg != "home" {
		cl.Cfg = "flag"
	}
}

// indexOf builds the index over the given universe chunks (IDs and sizes computed here).
func indexOf(ix CLIIndex, ids []string, datas [][]byte) desync.Index {
	flags := uint64(desync.CaFormatExcludeNoDump | desync.CaFormatSHA512256)
	if ix.Caidx {
		flags = desync.TarFeatureFlags
	}
	idx := desync.Index{Index: desync.FormatIndex{
		FormatHeader: desync.FormatHeader{Size: 48, Type: desync.CaFormatIndex},
		FeatureFlags: flags, ChunkSizeMin: 1, ChunkSizeAvg: 64, ChunkSizeMax: 4096,
	}}
	var pos uint64
	for _, r := range ix.Chunks {
		if len(ids) == 0 {
			break
		}
		r = ((r % len(ids)) + len(ids)) % len(ids)
		var id desync.ChunkID
		b, _ := hex.DecodeString(ids[r])
		copy(id[:], b)
		size := uint64(len(datas[r]))
		idx.Chunks = append(idx.Chunks, desync.IndexChunk{ID: id, Start: pos, Size: size})
		pos += size
	}
	return idx
}

type cliResult struct {
	exit   int
	stderr string
	stdout string
	args   []string
}

// runCLI writes the index/config files next to (not inside) the store and runs the command.
func runCLI(c Case, d *dirBackend, l *layout) cliResult {
	cl := c.CLI
	storeArg, cwd := d.spelled, d.cwd
	work := hx.Scratch("c16cli")
	defer os.RemoveAll(work)
	home := filepath.Join(work, "home")
	if err := os.MkdirAll(home, 0o755); err != nil {
		infra("mkdir %s: %v", home, err)
	}
	var args []string
	if c.Uncompressed {
		cfg := map[string]any{"store-options": map[string]any{storeArg: map[string]any{"uncompressed": true}}}
		b, _ := json.Marshal(cfg)
		p := filepath.Join(work, "desync-config.json")
		if cl.Cfg == "home" {
			p = filepath.Join(home, ".config", "desync", "config.json")
			os.MkdirAll(filepath.Dir(p), 0o755)
		} else {
			args = append(args, "--config", p)
		}
		if err := os.WriteFile(p, b, 0o644); err != nil {
			infra("write %s: %v", p, err)
		}
	}
	flag := func(short, long string) string {
		if cl.Long {
			return long
		}
		return short
	}
	var stdin []byte
	switch c.Op {
	case "prune":
		args = append(args, "prune", flag("-s", "--store"), storeArg, flag("-y", "--yes"))
		for i, ix := range cl.Indexes {
			idx := indexOf(ix, l.ids, l.datas)
			var buf bytes.Buffer
			if _, err := idx.WriteTo(&buf); err != nil {
				infra("encoding index: %v", err)
			}
			if cl.Stdin == i+1 {
				stdin = buf.Bytes()
				args = append(args, "-")
				continue
			}
			name := fmt.Sprintf("index%d.caibx", i)
			if ix.Caidx {
				name = fmt.Sprintf("index%d.caidx", i)
			}
			p := filepath.Join(work, name)
			if err := os.WriteFile(p, buf.Bytes(), 0o644); err != nil {
				infra("write %s: %v", p, err)
			}
			args = append(args, p)
		}
	case "verify":
		args = append(args, "verify", flag("-s", "--store"), storeArg, flag("-n", "--concurrency"), fmt.Sprint(c.N))
		if c.Repair {
			args = append(args, flag("-r", "--repair"))
		}
	}
	ctx, cancel := context.WithTimeout(context.Background(), 120*time.Second)
	defer cancel()
	cmd := exec.CommandContext(ctx, cliBin(), args...)
	cmd.Env = []string{"HOME=" + home, "TMPDIR=" + work, "PATH=/usr/bin:/bin"}
	cmd.Dir = work
	if cwd != "" {
		cmd.Dir = cwd
	}
	cmd.Stdin = bytes.NewReader(stdin)
	var so, se bytes.Buffer
	cmd.Stdout, cmd.Stderr = &so, &se
	err := cmd.Run()
	if ctx.Err() != nil {
		infra("desync %v did not end within 120 s", args)
	}
	res := cliResult{stderr: se.String(), stdout: so.String(), args: args}
	if err != nil {
		ee, ok := err.(*exec.ExitError)
		if !ok || ee.ExitCode() < 0 {
			infra("cannot run %s %v: %v", cliBin(), args, err)
		}
		res.exit = ee.ExitCode()
	}
	return res
}

// cliKeep: the IDs the index files reference together, plus the shape of the index list.
type cliShape struct {
	keep         map[string]bool
	multi        bool // two or more index files
	smallerFirst bool // some later index has more entries than there are distinct IDs before it
	largerFirst  bool // some later index has fewer entries than there are distinct IDs before it
	overlapping  bool // two index files share an ID
	disjoint     bool // two index files share no ID
	mixed        bool // caidx and caibx together
}

func shapeOf(cl *CLICase, ids []string) cliShape {
	sh := cliShape{keep: map[string]bool{}}
	if len(ids) == 0 {
		return sh
	}
	sh.multi = len(cl.Indexes) >= 2
	var sets []map[string]bool
	caidx, caibx := false, false
	for _, ix := range cl.Indexes {
		if ix.Caidx {
			caidx = true
		} else {
			caibx = true
		}
		if len(sets) > 0 && len(sh.keep) > 0 {
			if len(ix.Chunks) > len(sh.keep) {
				sh.smallerFirst = true
			}
			if len(ix.Chunks) < len(sh.keep) {
				sh.largerFirst = true
			}
		}
		set := map[string]bool{}
		for _, r := range ix.Chunks {
			r = ((r % len(ids)) + len(ids)) % len(ids)
			set[ids[r]] = true
			sh.keep[ids[r]] = true
		}
		for _, prev := range sets {
			shared := false
			for id := range set {
				shared = shared || prev[id]
			}
			if shared {
				sh.overlapping = true
			} else if len(set) > 0 && len(prev) > 0 {
				sh.disjoint = true
			}
		}
		sets = append(sets, set)
	}
	sh.mixed = caidx && caibx
	return sh
}
