package c16

// Faults on the local delete path: while the operation runs, the prefix directory of chosen
// chunks carries the immutable inode flag (what `chattr +i` sets). Even for root - the harness
// runs as root, so permission bits would not bite - unlink and create in such a directory fail
// with EPERM, while reading and walking work. The flag is cleared right after the operation.

import (
	"fmt"
	"os"
	"path/filepath"
	"sync"

	"golang.org/x/sys/unix"

	"verifharness/internal/hx"
)

const fsImmutableFl = 0x10 // FS_IMMUTABLE_FL

func setImmutable(dir string, on bool) error {
	d, err := os.Open(dir)
	if err != nil {
		return err
	}
	defer d.Close()
	flags, err := unix.IoctlGetInt(int(d.Fd()), unix.FS_IOC_GETFLAGS)
	if err != nil {
		return err
	}
	if on {
		flags |= fsImmutableFl
	} else {
		flags &^= fsImmutableFl
	}
	return unix.IoctlSetPointerInt(int(d.Fd()), unix.FS_IOC_SETFLAGS, flags)
}

var immutableProbe struct {
	once sync.Once
	ok   bool
	why  string
}

// canBlockUnlink probes once whether the scratch file system honours the immutable flag.
func canBlockUnlink() bool {
	p := &immutableProbe
	p.once.Do(func() {
		dir := hx.Scratch("c16immprobe")
		defer os.RemoveAll(dir)
		sub := filepath.Join(dir, "d")
		f := filepath.Join(sub, "f")
		if err := os.Mkdir(sub, 0o755); err != nil {
			p.why = err.Error()
			return
		}
		if err := os.WriteFile(f, []byte("x"), 0o644); err != nil {
			p.why = err.Error()
			return
		}
		if err := setImmutable(sub, true); err != nil {
			p.why = "setting the immutable flag: " + err.Error()
			return
		}
		rmErr := os.Remove(f)
		_, rdErr := os.ReadFile(f)
		if err := setImmutable(sub, false); err != nil {
			infra("cannot clear the immutable flag of %s again: %v", sub, err)
		}
		switch {
		case rmErr == nil:
			p.why = "unlink in an immutable directory succeeded"
		case rdErr != nil:
			p.why = "file in an immutable directory not readable: " + rdErr.Error()
		default:
			p.ok = true
		}
		if !p.ok {
			fmt.Printf("NOTE: C16: unlink faults cannot be injected on this scratch file system (%s); the unlink-fails classes will stay empty\n", p.why)
		}
	})
	return p.ok
}

// blockUnlink makes the given directories immutable and returns the function that undoes it.
func blockUnlink(dirs []string) (undo func()) {
	var done []string
	undo = func() {
		for _, d := range done {
			if err := setImmutable(d, false); err != nil {
				infra("cannot clear the immutable flag of %s: %v", d, err)
			}
		}
		done = nil
	}
	for _, d := range dirs {
		if err := setImmutable(d, true); err != nil {
			undo()
			infra("cannot set the immutable flag of %s: %v", d, err)
		}
		done = append(done, d)
	}
	return undo
}
