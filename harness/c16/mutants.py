#!/usr/bin/env python3
"""Mutation-sensitivity runs for C16 (development aid, not part of the check).

usage: python3 mutants.py [name ...]        (default: all)  -- runs /verif/tools/mutant C16 quick ...
The old text of every mutant is taken literally from /repo by line range and checked against an
expected fragment, so a drifted source makes the mutant fail to apply instead of mutating the
wrong place. The two SFTP findings of the unchanged tree are passed in VERIF_DEV_IGNORE.
"""
import os, subprocess, sys, concurrent.futures as cf

IGNORE = "C16:sftp:prune:temp-left,C16:sftp:prune:unreferenced-left:uncompressed,C16:local:verify:aborted-incomplete"

def lines(f, a, b):
    src = open("/repo/" + f).read().split("\n")
    return "\n".join(src[a - 1:b])

def M(name, *edits):
    """edit = (file, first line, last line, old fragment inside those lines, new fragment)"""
    triples = []
    for f, a, b, frag, new in edits:
        old = lines(f, a, b)
        assert frag in old, (name, f, a, b, frag, old)
        whole = open("/repo/" + f).read()
        while whole.count(old) != 1 and a > 1:  # widen the context until it is unique
            a, b = a - 1, b + 1
            old = lines(f, a, b)
        assert whole.count(old) == 1 and old.count(frag) >= 1, (name, "context not unique")
        assert old.index(frag) >= 0
        triples += [f, old, old.replace(frag, new, 1)]
    return name, triples

MUTANTS = [
    M("L1-local-prune-suffix-contains", ("local.go", 202, 206, "!strings.HasSuffix(path, CompressedChunkExt)", "!strings.Contains(path, CompressedChunkExt)")),
    M("L2-local-prune-delete-on-parse-failure", ("local.go", 210, 214, "return nil", "return os.Remove(path)")),
    M("L3-local-prune-by-basename-any-format",
      ("local.go", 200, 202, "sID = strings.TrimSuffix(filepath.Base(path), UncompressedChunkExt)", "sID = strings.TrimSuffix(filepath.Base(path), CompressedChunkExt)"),
      ("local.go", 216, 218, "s.RemoveChunk(id)", "os.Remove(path)")),
    M("L3a-local-prune-removes-walked-path", ("local.go", 216, 218, "s.RemoveChunk(id)", "os.Remove(path)")),
    M("L4-local-verify-remove-on-any-error", ("local.go", 119, 121, "fmt.Fprintln(w, err)", "fmt.Fprintln(w, err); if repair { s.RemoveChunk(id) }")),
    M("L5-local-verify-always-repairs", ("local.go", 109, 112, "if repair {", "if true {")),
    M("L6-local-verify-never-repairs", ("local.go", 109, 112, "if repair {", "if false {")),
    M("L7-local-verify-ignores-mode", ("local.go", 143, 146, "if s.Opt.Uncompressed {", "if false {")),
    M("L8-local-prune-keeps-temp-files", ("local.go", 189, 191, "if strings.HasPrefix(filepath.Base(path), tmpChunkPrefix) {", "if false {")),
    M("L9-local-prune-loose-temp-test", ("local.go", 189, 191, "strings.HasPrefix(filepath.Base(path), tmpChunkPrefix)", 'strings.Contains(path, "tmp")')),
    M("L10-local-verify-cancel-returns-nil", ("local.go", 130, 134, "return Interrupted{}", "return nil")),
    M("L11-local-prune-keep-test-inverted", ("local.go", 214, 217, "; !ok {", "; ok {")),
    M("L12-local-removechunk-noop", ("local.go", 60, 66, "return os.Remove(p)", "return nil")),
    M("L13-local-verify-reports-only-when-repairing", ("local.go", 116, 119, "fmt.Fprintln(w, msg)", "if repair { fmt.Fprintln(w, msg) }")),
    M("S1-s3-prune-list-error-swallowed", ("s3.go", 167, 170, "return object.Err", "return nil")),
    M("S2-s3-prune-delete-error-swallowed", ("s3.go", 184, 187, "return err", "continue")),
    M("S3-s3-prune-by-listed-key-any-format",
      ("s3.go", 184, 186, "s.RemoveChunk(id)", "s.client.RemoveObject(s.bucket, object.Key)"),
      ("s3.go", 211, 215, "if !strings.HasSuffix(name, CompressedChunkExt) {", "if false {")),
    M("S4-s3-idfromname-no-dir-check", ("s3.go", 221, 225, "if !strings.HasPrefix(sid, idx) {", "if false && !strings.HasPrefix(sid, idx) {")),
    M("S5-s3-prune-by-listed-key", ("s3.go", 184, 186, "s.RemoveChunk(id)", "s.client.RemoveObject(s.bucket, object.Key)")),
    M("S6-s3-prune-keep-test-inverted", ("s3.go", 183, 185, "; !ok {", "; ok {")),
    M("F1-sftp-prune-delete-on-parse-failure", ("sftp.go", 253, 258, "continue", "c.client.Remove(path); continue")),
    M("F2-sftp-prune-removes-walked-path", ("sftp.go", 259, 263, "s.RemoveChunk(id)", "c.client.Remove(path)")),
    M("F3-sftp-prune-keep-test-inverted", ("sftp.go", 259, 262, "; !ok {", "; ok {")),
]

# Not mutants but the suggested repairs: with them the check must pass WITHOUT any ignored signature.
REPAIR_TMP = """		if b := filepath.Base(path); len(b) > 64 {
			ext := CompressedChunkExt
			if c.opt.Uncompressed {
				ext = UncompressedChunkExt
			}
			if _, e := ChunkIDFromString(b[:64]); e == nil && strings.HasPrefix(b[64:], ext) && len(b) > 64+len(ext) && strings.Trim(b[64+len(ext):], "0123456789") == "" {
				_ = c.client.Remove(path) // abandoned temp file of StoreObject
				continue
			}
		}
"""
REPAIRS = [
    M("R-suggested-repairs",
      ("sftp.go", 237, 239, "		if !strings.HasSuffix(path, CompressedChunkExt) { // Skip files without chunk extension\n			continue\n		}", REPAIR_TMP.rstrip("\n")),
      ("sftp.go", 242, 245, "				return nil", "				continue"),
      ("sftp.go", 247, 250, "				return nil", "				continue"),
      ("local.go", 137, 139, "			return err", "			if os.IsNotExist(err) {\n				return nil\n			}\n			return err")),
]

def run(m):
    name, triples = m
    env = dict(os.environ, VERIF_DEV_IGNORE="" if name.startswith("R-") else IGNORE, MUT_TAIL="12")
    env.setdefault("VERIF_CHECKS", "500")
    r = subprocess.run(["/verif/tools/mutant", "C16", "quick"] + triples, env=env, capture_output=True, text=True)
    out = r.stdout + r.stderr
    sigs = sorted({w.strip("[]") for l in out.splitlines() for w in l.split() if w.startswith("[C16:")})
    verdict = {0: "NOT CAUGHT", 1: "caught", 2: "inconclusive", 3: "did not apply/build"}.get(r.returncode, "exit %d" % r.returncode)
    return name, verdict, sigs, out

if __name__ == "__main__":
    want = sys.argv[1:]
    todo = [m for m in MUTANTS + REPAIRS if (not want and m not in REPAIRS) or m[0] in want or m[0].split("-")[0] in want]
    jobs = int(os.environ.get("MUT_JOBS", "2"))
    with cf.ThreadPoolExecutor(jobs) as ex:
        for name, verdict, sigs, out in ex.map(run, todo):
            print("%-45s %-12s %s" % (name, verdict, " ".join(sigs)), flush=True)
            if verdict not in ("caught", "NOT CAUGHT") or os.environ.get("MUT_VERBOSE"):
                print(out[-3000:], flush=True)
