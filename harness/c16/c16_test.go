// C16 — Prune and verify remove exactly what they should.
//
// A case is a specification of a chunk store's content (chunk files of both formats with valid
// and invalid content, junk, temporary files, chunk-like names in wrong places), a keep-set, a
// backend (LocalStore, S3Store on the in-process fake, SFTPStore on the fake ssh) in one of the
// two store modes, and one operation (Prune, or LocalStore.Verify). The store is populated and
// inspected through the back door (file system / fake bucket); the verdict compares the set of
// files before and after with what the statement allows (oracle_test.go).
package c16

import (
	"bytes"
	"context"
	"encoding/hex"
	"fmt"
	"os"
	"path/filepath"
	"sort"
	"strings"
	"sync"
	"testing"
	"time"

	"github.com/folbricht/desync"
	"github.com/klauspost/compress/zstd"
	"pgregory.net/rapid"

	"verifharness/internal/fakessh"
	"verifharness/internal/gen"
	"verifharness/internal/hx"
)

// ChunkSpec is one member of the ID universe. C and U say what lies at the canonical path of the
// compressed / uncompressed format: 0 nothing, 1 the valid chunk, 2 one bit flipped, 3 the
// content of the next chunk, 4 truncated stored bytes, 5 an empty file, 6 the bytes of the
// other format.
type ChunkSpec struct {
	Seed uint64 `json:"seed"`
	Len  int    `json:"len"`
	C    int    `json:"c"`
	U    int    `json:"u"`
	Keep bool   `json:"keep"`
}

// Extra is a file that is not a universe chunk at its canonical path.
//
//	junk      arbitrary name            Where: 0 root, 1 prefix dir of chunk Ref, 2 "zzzz/", 3 <prefix>/sub/, 4 "ffff/"
//	tmp       ".tmp-cacnk*" (LocalStore temp files are <prefix>/.tmp-cacnk.<decimal>)   Where as junk
//	sftptmp   <chunk path><decimal> (SFTPStore temp name); Form&1: of the other format
//	misplaced chunk Ref's file name somewhere else: Where 0 root, 1 other prefix dir, 2 <prefix>/00/,
//	          3 <prefix>/<prefix>/, 4 <2 hex>/, 5 upper case at the canonical place, 6 <id>/;
//	          Form&1 other format's name, Form&2 upper case; Seed&1 valid content
//	ghost     canonical chunk file of an ID outside the universe (ghost number Ref%6); Form&1 other
//	          format; Where&1 valid content
//	outside   (S3 with key prefix only) object outside the store's prefix
type Extra struct {
	Kind  string `json:"kind"`
	Ref   int    `json:"ref"`
	Where int    `json:"where"`
	Form  int    `json:"form"`
	Seed  uint64 `json:"seed"`
}

// Fault is a scripted S3 failure during Prune.
type Fault struct {
	Kind string `json:"kind"` // DELETE | LIST
	At   int    `json:"at"`   // k-th request of that kind
	Mode string `json:"mode"` // 403 | truncate (LIST only)
}

// Upload is a StoreChunk call made through the store under test before the operation: the
// temporary files of C16 are then the ones the real upload path leaves behind.
type Upload struct {
	Ref   int  `json:"ref"`             // universe chunk
	Block bool `json:"block,omitempty"` // a non-empty directory sits at the chunk's name while it is stored: the final rename fails
}

type Case struct {
	Backend      string      `json:"backend"` // local | s3 | sftp
	Prefix       string      `json:"prefix,omitempty"`
	Uncompressed bool        `json:"uncompressed"`
	Op           string      `json:"op"` // prune | verify (local only)
	N            int         `json:"n,omitempty"`
	Repair       bool        `json:"repair,omitempty"`
	Cancel       bool        `json:"cancel,omitempty"` // context cancelled before the call
	PageSize     int         `json:"page_size,omitempty"`
	Fault        *Fault      `json:"fault,omitempty"`
	Chunks       []ChunkSpec `json:"chunks"`
	Extras       []Extra     `json:"extras,omitempty"`
	KeepGhost    []int       `json:"keep_ghost,omitempty"` // IDs outside the universe in the keep-set
	Uploads      []Upload    `json:"uploads,omitempty"`    // local/sftp prune cases: real StoreChunk calls before the prune
	CLI          *CLICase    `json:"cli,omitempty"`        // run the operation through $VERIF_DESYNC_BIN (cli_test.go)
	// local only (library and command): how the store directory is named, see storePathSpellings;
	// "" = canonical (clean absolute path)
	StorePath string `json:"store_path,omitempty"`
	// local only: while the operation runs nothing can be unlinked in the prefix directories of
	// these universe chunks (immutable flag, unlink_test.go)
	UnlinkFail []int `json:"unlink_fail,omitempty"`
	// obsolete (kept so that older replay files still load): such a directory may always hold temporary files
	UnlinkFailTmp bool `json:"unlink_fail_tmp,omitempty"`
}

// ------------------------------------------------------------------ generator

var cancelDist = func() []bool { // 1 in 25 (rapid favours small indices: the common value comes first)
	d := make([]bool, 25)
	d[24] = true
	return d
}()

func genCase(t *rapid.T) Case {
	var c Case
	// SFTP cases cost several times a local one: 1 in 10.
	c.Backend = rapid.SampledFrom([]string{"local", "local", "local", "local", "local", "local", "s3", "s3", "s3", "sftp"}).Draw(t, "backend")
	c.Uncompressed = rapid.Bool().Draw(t, "uncompressed")
	c.Op = "prune"
	switch c.Backend {
	case "local":
		if rapid.IntRange(0, 9).Draw(t, "verify") < 4 {
			c.Op = "verify"
			c.N = rapid.IntRange(1, 16).Draw(t, "n")
			c.Repair = rapid.Bool().Draw(t, "repair")
		}
	case "s3":
		c.Prefix = rapid.SampledFrom([]string{"", "", "pre", "stores/a"}).Draw(t, "prefix")
		c.PageSize = rapid.SampledFrom([]int{0, 0, 1, 2, 3, 5}).Draw(t, "page")
		if rapid.IntRange(0, 2).Draw(t, "faulty") == 0 {
			f := &Fault{Kind: "DELETE", At: rapid.IntRange(1, 5).Draw(t, "fault_at"), Mode: "403"}
			if rapid.IntRange(0, 2).Draw(t, "fault_list") == 0 {
				f.Kind = "LIST"
				f.Mode = rapid.SampledFrom([]string{"403", "truncate"}).Draw(t, "fault_mode")
			}
			c.Fault = f
		}
	}
	c.Cancel = rapid.SampledFrom(cancelDist).Draw(t, "cancel")

	n := rapid.IntRange(0, 12).Draw(t, "chunks")
	keepMode := rapid.SampledFrom([]string{"none", "all", "subset", "subset", "subset"}).Draw(t, "keep_mode")
	state := []int{0, 0, 0, 1, 1, 1, 1, 2, 3, 4, 5, 6}
	for i := 0; i < n; i++ {
		s := ChunkSpec{
			Seed: rapid.Uint64().Draw(t, "seed"),
			Len:  rapid.IntRange(1, hx.Pick(300, 3000)).Draw(t, "len"),
			C:    rapid.SampledFrom(state).Draw(t, "c"),
			U:    rapid.SampledFrom(state).Draw(t, "u"),
		}
		switch keepMode {
		case "all":
			s.Keep = true
		case "subset":
			s.Keep = rapid.Bool().Draw(t, "keep")
		}
		c.Chunks = append(c.Chunks, s)
	}
	if rapid.IntRange(0, 2).Draw(t, "absent_ids") == 0 {
		for i, k := 0, rapid.IntRange(1, 3).Draw(t, "nghost"); i < k; i++ {
			c.KeepGhost = append(c.KeepGhost, rapid.IntRange(0, 5).Draw(t, "ghost"))
		}
	}
	kinds := []string{"junk", "junk", "junk", "tmp", "tmp", "sftptmp", "misplaced", "misplaced", "ghost"}
	if c.Backend == "s3" && c.Prefix != "" {
		kinds = append(kinds, "outside", "outside")
	}
	for i, k := 0, rapid.IntRange(0, 8).Draw(t, "extras"); i < k; i++ {
		e := Extra{
			Kind: rapid.SampledFrom(kinds).Draw(t, "kind"),
			Ref:  rapid.IntRange(0, 11).Draw(t, "ref"),
			Form: rapid.IntRange(0, 15).Draw(t, "form"),
			Seed: rapid.Uint64().Draw(t, "eseed"),
		}
		switch e.Kind {
		case "junk":
			e.Where = rapid.SampledFrom([]int{0, 0, 1, 1, 1, 2, 3, 4}).Draw(t, "where")
		case "tmp":
			e.Where = rapid.SampledFrom([]int{1, 1, 1, 1, 0, 2, 3, 4}).Draw(t, "where")
		default:
			e.Where = rapid.IntRange(0, 6).Draw(t, "where")
		}
		c.Extras = append(c.Extras, e)
	}
	if c.Backend == "local" && rapid.Bool().Draw(t, "spelled") {
		c.StorePath = rapid.SampledFrom(storePathSpellings[1:]).Draw(t, "store_path")
	}
	if c.Backend == "local" && n > 0 && rapid.IntRange(0, 4).Draw(t, "unlink_fails") == 0 {
		for i, k := 0, rapid.IntRange(1, 2).Draw(t, "unlink_dirs"); i < k; i++ {
			r := rapid.IntRange(0, n-1).Draw(t, "unlink_ref")
			// prefer a chunk the operation will want to delete
			for d := 0; d < n; d++ {
				s := c.Chunks[(r+d)%n]
				st := s.C
				if c.Uncompressed {
					st = s.U
				}
				if (c.Op == "prune" && st > 0 && !s.Keep) || (c.Op == "verify" && st > 1) {
					r = (r + d) % n
					break
				}
			}
			c.UnlinkFail = append(c.UnlinkFail, r)
		}
	}
	if c.Op == "prune" && c.Backend != "s3" && n > 0 && rapid.IntRange(0, 2).Draw(t, "uploading") == 0 {
		for i, k := 0, rapid.IntRange(1, 3).Draw(t, "uploads"); i < k; i++ {
			u := Upload{Ref: rapid.IntRange(0, n-1).Draw(t, "uref"), Block: rapid.IntRange(0, 2).Draw(t, "ublock") > 0}
			if u.Block { // the rename can only be blocked where no own-format file lies yet: prefer such a chunk
				for d := 0; d < n; d++ {
					s := c.Chunks[(u.Ref+d)%n]
					if (c.Uncompressed && s.U == 0) || (!c.Uncompressed && s.C == 0) {
						u.Ref = (u.Ref + d) % n
						break
					}
				}
			}
			c.Uploads = append(c.Uploads, u)
		}
	}
	if drawCLI(t) {
		genCLI(t, &c)
	}
	return c
}

// ------------------------------------------------------------------ materialisation

var zenc, _ = zstd.NewWriter(nil)

func compress(b []byte) []byte { return zenc.EncodeAll(b, nil) }

func content(seed uint64, n int) []byte {
	if n < 1 {
		n = 1
	}
	if n > 4096 {
		n = 4096
	}
	b := gen.RandBytes(n, seed)
	if seed%3 == 0 { // compressible
		for i := range b {
			b[i] = b[i%5]
		}
	}
	return b
}

func ext(unc bool) string {
	if unc {
		return ""
	}
	return cExt
}

// stored returns the bytes for state st (1..6) of the file of format unc of a chunk with plain
// content data; next is the plain content of the neighbouring chunk.
func stored(st int, unc bool, data, next []byte, seed uint64) []byte {
	enc := func(b []byte) []byte {
		if unc {
			return append([]byte(nil), b...)
		}
		return compress(b)
	}
	switch st {
	case 1:
		return enc(data)
	case 3:
		if !bytes.Equal(next, data) {
			return enc(next)
		}
		fallthrough
	case 2:
		d := append([]byte(nil), data...)
		d[int(seed%uint64(len(d)))] ^= 1 << (seed >> 32 % 8)
		return enc(d)
	case 4:
		b := enc(data)
		return b[:len(b)/2]
	case 5:
		return []byte{}
	case 6:
		if unc {
			return compress(data)
		}
		return append([]byte(nil), data...)
	}
	return enc(data)
}

type layout struct {
	files   map[string][]byte // key relative to the store root
	order   []string
	outside map[string][]byte // S3 only: full object keys outside the store prefix
	ids     []string          // hex ID per universe chunk
	datas   [][]byte          // plain content per universe chunk
	keep    map[string]bool   // hex IDs
}

func ghostData(g int) []byte { return []byte(fmt.Sprintf("ghost chunk %d", g%6)) }

func (l *layout) add(key string, data []byte) bool {
	if key == "" || strings.HasPrefix(key, "/") || strings.HasSuffix(key, "/") || strings.Contains(key, "//") {
		return false
	}
	if _, dup := l.files[key]; dup {
		return false
	}
	for k := range l.files { // a path cannot be file and directory at once
		if strings.HasPrefix(k, key+"/") || strings.HasPrefix(key, k+"/") {
			return false
		}
	}
	l.files[key] = data
	l.order = append(l.order, key)
	return true
}

func materialize(c Case) *layout {
	l := &layout{files: map[string][]byte{}, outside: map[string][]byte{}, keep: map[string]bool{}}
	n := len(c.Chunks)
	datas := make([][]byte, n)
	for i, s := range c.Chunks {
		datas[i] = content(s.Seed, s.Len)
		l.ids = append(l.ids, hashID(datas[i]))
	}
	l.datas = datas
	for i, s := range c.Chunks {
		h := l.ids[i]
		next := datas[(i+1)%n]
		if s.Keep {
			l.keep[h] = true
		}
		if s.C > 0 {
			l.add(h[:4]+"/"+h+cExt, stored(s.C, false, datas[i], next, s.Seed))
		}
		if s.U > 0 {
			l.add(h[:4]+"/"+h, stored(s.U, true, datas[i], next, s.Seed))
		}
	}
	for _, g := range c.KeepGhost {
		l.keep[hashID(ghostData(g))] = true
	}
	unc := c.Uncompressed
	for _, e := range c.Extras {
		// reference chunk (or a ghost when the universe is empty)
		h, data := hashID(ghostData(e.Ref)), ghostData(e.Ref)
		hNext := hashID(ghostData(e.Ref + 1))
		if n > 0 {
			r := ((e.Ref % n) + n) % n
			h, data = l.ids[r], datas[r]
			hNext = l.ids[(r+1)%n]
		}
		garbage := gen.RandBytes(1+int(e.Seed>>8%40), e.Seed)
		dirFor := func(where int) string {
			switch ((where % 5) + 5) % 5 {
			case 1:
				return h[:4] + "/"
			case 2:
				return "zzzz/"
			case 3:
				return h[:4] + "/sub/"
			case 4:
				return "ffff/"
			}
			return ""
		}
		form := ((e.Form % 16) + 16) % 16
		switch e.Kind {
		case "junk":
			bases := []string{"README", fmt.Sprintf("junk-%d.txt", e.Seed%1000), "index.caibx", "x", h[:60], h + "ab",
				"zz" + h[2:], h + ".tmp", h + cExt + ".bak", "a b", "x+y", "p%41q", "ünï", "", h + ".uncompressed", strings.ToUpper(h[:8])}
			name := bases[form]
			if e.Seed&1 == 1 {
				name += cExt
			}
			if name == "" {
				name = "README"
			}
			l.add(dirFor(e.Where)+name, garbage)
		case "tmp":
			name := fmt.Sprintf(".tmp-cacnk.%d", e.Seed%4294967296)
			switch form % 8 {
			case 6:
				name = ".tmp-cacnk"
			case 7:
				name = ".tmp-cacnk-foo"
			}
			l.add(dirFor(e.Where)+name, garbage)
		case "sftptmp":
			x := ext(unc)
			if form&1 == 1 {
				x = ext(!unc)
			}
			l.add(fmt.Sprintf("%s/%s%s%d", h[:4], h, x, e.Seed>>1), stored(4, x == "", data, data, e.Seed))
		case "misplaced":
			fileUnc := unc
			if form&1 == 1 {
				fileUnc = !unc
			}
			where := ((e.Where % 7) + 7) % 7
			hn := h
			if form&2 == 2 || where == 5 {
				hn = strings.ToUpper(h)
			}
			var dir string
			switch where {
			case 0:
				dir = ""
			case 1:
				dir = hNext[:4] + "/"
				if hNext[:4] == h[:4] {
					dir = "ffff/"
				}
			case 2:
				dir = h[:4] + "/00/"
			case 3:
				dir = h[:4] + "/" + h[:4] + "/"
			case 4:
				dir = h[:2] + "/"
			case 5:
				dir = hn[:4] + "/"
			case 6:
				dir = h + "/"
			}
			body := garbage
			if e.Seed&1 == 1 {
				body = stored(1, fileUnc, data, data, e.Seed)
			}
			l.add(dir+hn+ext(fileUnc), body)
		case "ghost":
			gd := ghostData(e.Ref)
			gh := hashID(gd)
			fileUnc := unc
			if form&1 == 1 {
				fileUnc = !unc
			}
			body := garbage
			if e.Where&1 == 1 {
				body = stored(1, fileUnc, gd, gd, e.Seed)
			}
			l.add(gh[:4]+"/"+gh+ext(fileUnc), body)
		case "outside":
			if c.Backend != "s3" || s3KeyPrefix(c.Prefix) == "" {
				continue
			}
			p := strings.Trim(c.Prefix, "/")
			var key string
			switch form % 4 {
			case 0:
				key = "other.txt"
			case 1:
				key = h[:4] + "/" + h + ext(unc)
			case 2:
				key = p + "2/" + h[:4] + "/" + h + ext(unc)
			case 3:
				key = "x" + p + "/" + h[:4] + "/" + h + ext(unc)
			}
			if _, dup := l.outside[key]; !dup {
				l.outside[key] = stored(1, unc, data, data, e.Seed)
			}
		}
	}
	return l
}

// ------------------------------------------------------------------ running a case

type lockedBuf struct {
	mu sync.Mutex
	b  bytes.Buffer
}

func (w *lockedBuf) Write(p []byte) (int, error) {
	w.mu.Lock()
	defer w.mu.Unlock()
	return w.b.Write(p)
}

func (w *lockedBuf) String() string {
	w.mu.Lock()
	defer w.mu.Unlock()
	return w.b.String()
}

func norm(c *Case) {
	if c.CLI != nil && cliBin() != "" {
		normCLI(c)
	} else {
		c.CLI = nil
	}
	switch c.Backend {
	case "local", "s3", "sftp":
	default:
		c.Backend = "local"
	}
	if c.Op != "verify" || c.Backend != "local" {
		c.Op = "prune"
	}
	if c.N < 1 {
		c.N = 1
	}
	if c.N > 64 {
		c.N = 64
	}
	if len(c.Chunks) > 12 {
		c.Chunks = c.Chunks[:12]
	}
	if c.Backend != "s3" {
		c.Prefix, c.Fault, c.PageSize = "", nil, 0
	}
	if c.Fault != nil && c.Fault.At < 1 {
		c.Fault.At = 1
	}
	if c.Backend == "s3" || c.Op != "prune" || len(c.Chunks) == 0 {
		c.Uploads = nil
	}
	if len(c.Uploads) > 4 {
		c.Uploads = c.Uploads[:4]
	}
	if c.Backend != "local" || len(c.Chunks) == 0 || c.Cancel {
		c.UnlinkFail = nil
	}
	okSpelling := false
	for _, sp := range storePathSpellings[1:] {
		okSpelling = okSpelling || sp == c.StorePath
	}
	if c.Backend != "local" || !okSpelling {
		c.StorePath = ""
	}
	if len(c.UnlinkFail) > 3 {
		c.UnlinkFail = c.UnlinkFail[:3]
	}
}

func keepModeOf(c Case, l *layout) string {
	kept := 0
	for _, s := range c.Chunks {
		if s.Keep {
			kept++
		}
	}
	switch {
	case kept == 0:
		return "none"
	case kept == len(c.Chunks):
		return "all"
	}
	return "subset"
}

func run(c Case) (o hx.Outcome) {
	norm(&c)
	l := materialize(c)
	v := view{backend: c.Backend, unc: c.Uncompressed}
	beName := c.Backend

	var be backend
	var local desync.LocalStore
	switch c.Backend {
	case "local":
		var d *dirBackend
		d, local = openLocal(c.Uncompressed, c.StorePath)
		be = d
	case "sftp":
		be = openSFTP(c.Uncompressed)
	case "s3":
		v.prefix = s3KeyPrefix(c.Prefix)
		if v.prefix != "" {
			beName = "s3-prefix"
		}
		be = openS3(c.Prefix, c.Uncompressed, c.PageSize, c.Fault)
	}
	defer be.close()

	for _, k := range l.order {
		be.put(v.prefix+k, l.files[k])
	}
	if c.Backend == "s3" {
		var ks []string
		for k := range l.outside {
			ks = append(ks, k)
		}
		sort.Strings(ks)
		for _, k := range ks {
			be.put(k, l.outside[k])
		}
	}
	// real uploads through the store under test; what they leave behind besides chunk files is
	// an abandoned temporary chunk file by provenance
	uploadsOK, uploadsFailed := 0, 0
	var uploadViolations []string
	var before snap
	if len(c.Uploads) > 0 {
		d := be.(*dirBackend)
		pre := be.snapshot()
		for _, u := range c.Uploads {
			r := ((u.Ref % len(l.ids)) + len(l.ids)) % len(l.ids)
			rel := l.ids[r][:4] + "/" + l.ids[r] + ext(c.Uncompressed)
			p := filepath.Join(d.dir, filepath.FromSlash(rel))
			_, statErr := os.Lstat(p)
			existed := statErr == nil
			blocked := false
			if u.Block && !existed {
				if err := os.MkdirAll(filepath.Join(p, "x"), 0o755); err != nil {
					infra("mkdir %s: %v", p, err)
				}
				blocked = true
			}
			err := d.pruner.StoreChunk(desync.NewChunk(append([]byte(nil), l.datas[r]...)))
			if blocked {
				if rmErr := os.RemoveAll(p); rmErr != nil {
					infra("remove %s: %v", p, rmErr)
				}
			}
			if err == nil {
				uploadsOK++
			} else {
				uploadsFailed++
				if fi, e := os.Lstat(p); !existed && e == nil && fi.Mode().IsRegular() {
					uploadViolations = append(uploadViolations, rel)
				}
			}
		}
		before = be.snapshot()
		v.born = map[string]bool{}
		for k := range before {
			if _, was := pre[k]; !was {
				if cl := v.classOf(k); cl.Kind != kOwn && cl.Kind != kOther {
					v.born[k] = true
				}
			}
		}
	}
	if before == nil {
		before = be.snapshot()
	}

	// census of the populated store
	count := map[string]int{}
	ownInvalid, ownValid, ownUnref, ownRef := 0, 0, 0, 0
	for _, k := range sortedKeys(before) {
		cl := v.classOf(k)
		count[cl.Kind]++
		if cl.Kind == kNonChunk {
			count[cl.Sub]++
		}
		if cl.Kind == kOwn {
			if contentMatches(cl.ID, []byte(before[k]), c.Uncompressed) {
				ownValid++
			} else {
				ownInvalid++
			}
			if l.keep[cl.ID] {
				ownRef++
			} else {
				ownUnref++
			}
		}
	}
	keepMode := keepModeOf(c, l)

	ctx, cancel := context.WithCancel(context.Background())
	defer cancel()
	if c.Cancel {
		cancel()
	}

	// unlink faults: the directories are made immutable for the duration of the operation only
	// delivered: the operation had to unlink a file it could not unlink
	unlinkDelivered := func() bool {
		for k := range v.blocked {
			cl := v.classOf(k)
			// LocalStore.Prune tries to remove every file whose name starts with ".tmp-cacnk"
			if c.Op == "prune" && (cl.Kind == kTmp || strings.HasPrefix(baseName(k), ".tmp-cacnk")) {
				return true
			}
			if cl.Kind == kOwn {
				if c.Op == "prune" && !l.keep[cl.ID] {
					return true
				}
				if c.Op == "verify" && c.Repair && !contentMatches(cl.ID, []byte(before[k]), c.Uncompressed) {
					return true
				}
			}
		}
		return false
	}
	var unblock func()
	if len(c.UnlinkFail) > 0 && canBlockUnlink() {
		d := be.(*dirBackend)
		var dirs []string
		seen := map[string]bool{}
		for _, r := range c.UnlinkFail {
			r = ((r % len(l.ids)) + len(l.ids)) % len(l.ids)
			pd := l.ids[r][:4]
			if seen[pd] {
				continue
			}
			seen[pd] = true
			if fi, err := os.Stat(filepath.Join(d.dir, pd)); err != nil || !fi.IsDir() {
				continue
			}
			dirs = append(dirs, filepath.Join(d.dir, pd))
		}
		v.blocked = map[string]bool{}
		for _, k := range sortedKeys(before) {
			for _, dd := range dirs {
				// only the directory itself is immutable: entries of its subdirectories can be unlinked
				if filepath.Dir(filepath.Join(d.dir, filepath.FromSlash(k))) == dd {
					v.blocked[k] = true
				}
			}
		}
		unblock = blockUnlink(dirs)
		defer unblock()
	}

	var opErr error
	var vd *verdicts
	var after snap
	var output string
	nReported := 0
	var cli *cliResult
	var ishape cliShape
	if c.CLI != nil {
		v.via = "cli"
		ishape = shapeOf(c.CLI, l.ids)
		if c.Op == "prune" {
			l.keep = ishape.keep
			ownUnref, ownRef = 0, 0
			for _, k := range sortedKeys(before) {
				if cl := v.classOf(k); cl.Kind == kOwn {
					if l.keep[cl.ID] {
						ownRef++
					} else {
						ownUnref++
					}
				}
			}
			keepMode = "indexes"
		}
		res := runCLI(c, be.(*dirBackend), l)
		cli = &res
		if res.exit != 0 {
			msg := res.stderr
			if len(msg) > 300 {
				msg = msg[len(msg)-300:]
			}
			opErr = fmt.Errorf("exit status %d: %s", res.exit, strings.TrimSpace(msg))
		}
		after = be.snapshot()
	}
	switch {
	case cli != nil && c.Op == "prune":
		vd = judgePrune(v, before, after, l.keep, opErr)
		if opErr != nil && count["chunk-named"] == 0 && !unlinkDelivered() {
			vd.add("C16:cli:prune:error-exit", opErr.Error())
		}
	case cli != nil:
		output = cli.stderr
		v.claimed = claimedRemoved(output)
		reported, _ := reportedInvalid(output)
		nReported = len(reported)
		ended := vComplete
		if opErr != nil {
			o.Class("verify:error")
			ended = vAborted
		}
		vd = judgeVerify(v, before, after, reported, c.Repair, ended)
	case c.Op == "prune":
		keep := map[desync.ChunkID]struct{}{}
		for h := range l.keep {
			b, _ := hex.DecodeString(h)
			var id desync.ChunkID
			copy(id[:], b)
			keep[id] = struct{}{}
		}
		opErr = be.prune(ctx, keep)
		after = be.snapshot()
		vd = judgePrune(v, before, after, l.keep, opErr)
	case c.Op == "verify":
		w := &lockedBuf{}
		opErr = local.Verify(ctx, c.N, c.Repair, w)
		after = be.snapshot()
		output = w.String()
		v.claimed = claimedRemoved(output)
		reported, _ := reportedInvalid(output)
		nReported = len(reported)
		ended := vComplete
		if opErr != nil {
			o.Class("verify:error")
			ended = vAborted
			if c.Cancel { // only a run that was cancelled and says so is excused from being complete
				ended = vExcused
			}
		}
		vd = judgeVerify(v, before, after, reported, c.Repair, ended)
	}

	// ---- evidence
	mode := v.mode()
	shape := make([]string, 0, len(c.Chunks))
	for _, s := range c.Chunks {
		k := ""
		if s.Keep {
			k = "k"
		}
		shape = append(shape, fmt.Sprintf("c%du%d%s", s.C, s.U, k))
	}
	var ekinds []string
	for _, e := range c.Extras {
		ekinds = append(ekinds, fmt.Sprintf("%s/%d/%d", e.Kind, e.Where%7, e.Form%16))
	}
	desc := map[string]any{
		"backend": beName, "mode": mode, "op": c.Op, "chunks": strings.Join(shape, " "), "extras": strings.Join(ekinds, " "),
		"keep": keepMode, "keep_absent": len(c.KeepGhost), "files": len(before), "census": count, "error": opErr != nil,
	}
	if c.Op == "verify" {
		desc["n"], desc["repair"], desc["reported"] = c.N, c.Repair, nReported
	}
	if c.Fault != nil {
		desc["fault"] = fmt.Sprintf("%s@%d:%s", c.Fault.Kind, c.Fault.At, c.Fault.Mode)
	}
	if c.PageSize > 0 {
		desc["page"] = c.PageSize
	}
	if c.Cancel {
		desc["cancel"] = true
	}
	o.Desc = desc
	o.Observed = map[string]any{"error": describeErr(opErr), "before": sortedKeys(before), "after": sortedKeys(after), "verify_output": output}

	o.Class("backend:"+beName, "mode:"+mode, "op:"+c.Op, beName+":"+mode)
	both := count[kOwn] > 0 && count[kOther] > 0
	if both {
		o.Class("has:both-formats")
	}
	for _, k := range []string{kTmp, kOptional, "junk", "chunk-named", "outside-prefix"} {
		if count[k] > 0 {
			o.Class("has:" + k)
		}
	}
	if ownInvalid > 0 {
		o.Class("has:invalid-own")
	}
	if c.Cancel {
		o.Class("cancelled")
	}
	switch c.Op {
	case "prune":
		o.Class("keep:" + keepMode)
		if len(c.KeepGhost) > 0 {
			o.Class("keep:absent-ids")
		}
		if opErr == nil {
			o.Class("prune:ok", "prune:ok:"+c.Backend)
		} else {
			o.Class("prune:error", "prune:error:"+c.Backend)
		}
		if ownUnref > 0 && ownRef > 0 {
			o.Class("prune:some-kept-some-dropped")
		}
		if s3, ok := be.(*s3Backend); ok {
			if s3.delivered > 0 {
				o.Class("s3:fault-delivered")
			}
			if c.PageSize > 0 && c.PageSize < len(before) {
				o.Class("s3:paged-listing")
			}
		}
		o.Nontrivial = both && ownUnref > 0 && count[kTmp]+count[kOptional]+count["junk"]+count["chunk-named"] > 0
	case "verify":
		if c.Repair {
			o.Class("verify:repair")
		} else {
			o.Class("verify:no-repair")
		}
		if c.N > 1 {
			o.Class("verify:n>1")
		}
		if nReported > 0 {
			o.Class("verify:reported>0")
		}
		o.Nontrivial = both && ownInvalid > 0 && ownValid > 0
	}
	if o.Nontrivial && c.CLI == nil {
		o.Class("nontrivial:" + beName + ":" + c.Op)
	}

	if unblock != nil {
		unblock()
	}
	if c.Backend == "local" {
		via, sp := "local", c.StorePath
		if c.CLI != nil {
			via = "cli"
		}
		if sp == "" {
			sp = "canonical"
		} else {
			o.Class(via+":store-path:non-canonical", via+":store-path:non-canonical:"+c.Op)
			desc["store_path"] = sp
		}
		o.Class(via + ":store-path:" + sp)
	}
	if len(v.blocked) > 0 {
		via := "local"
		if c.CLI != nil {
			via = "cli"
		}
		name := via + ":prune:unlink-fails"
		if c.Op == "verify" {
			name = via + ":verify:unlink-fails"
			if c.Repair {
				name = via + ":verify-repair:unlink-fails"
			}
		}
		o.Class(name)
		if unlinkDelivered() {
			o.Class(name + ":delivered")
			if opErr != nil {
				o.Class(name + ":delivered:error-returned")
			}
		}
		desc["unlink_fails"] = len(v.blocked)
	}
	if len(c.Uploads) > 0 {
		o.Class(c.Backend + ":uploads")
		if uploadsOK > 0 {
			o.Class(c.Backend + ":upload:ok")
		}
		if uploadsFailed > 0 {
			o.Class(c.Backend + ":upload:failed")
		}
		if len(v.born) > 0 {
			o.Class(c.Backend + ":abandoned-tempfile:real-upload")
			if opErr == nil {
				o.Class(c.Backend + ":abandoned-tempfile:real-upload:prune-ok")
			}
		}
		for _, rel := range uploadViolations {
			vd.add("C16:"+c.Backend+":upload:failed-but-present", rel)
		}
	}
	if cli != nil {
		o.Class("via:cli", "cli:"+c.Op, "cli:"+mode)
		if c.Op == "prune" {
			switch {
			case ishape.multi:
				o.Class("cli:prune:multi-index")
			default:
				o.Class("cli:prune:single-index")
			}
			for name, on := range map[string]bool{"smaller-index-first": ishape.smallerFirst, "larger-index-first": ishape.largerFirst,
				"overlapping-indexes": ishape.overlapping, "disjoint-indexes": ishape.disjoint, "caidx+caibx": ishape.mixed,
				"unreferenced-present": ownUnref > 0, "referenced-present": ownRef > 0, "exit0": opErr == nil, "stdin-index": c.CLI.Stdin > 0} {
				if on {
					o.Class("cli:prune:" + name)
				}
			}
			absent := false
			for id := range ishape.keep {
				if _, ok := before[id[:4]+"/"+id+ext(c.Uncompressed)]; !ok {
					absent = true
				}
			}
			if absent {
				o.Class("cli:prune:referenced-absent")
			}
			// the seeded-change trigger needs chunks that only an earlier, smaller index references
			o.Nontrivial = ishape.multi && ownUnref > 0 && ownRef > 0
		} else {
			if c.Repair {
				o.Class("cli:verify:repair")
			} else {
				o.Class("cli:verify:no-repair")
			}
			if nReported > 0 {
				o.Class("cli:verify:reported>0")
			}
		}
		if o.Nontrivial {
			o.Class("nontrivial:cli:" + c.Op)
		}
		desc["cli"] = fmt.Sprintf("indexes=%d stdin=%d long=%v cfg=%s", len(c.CLI.Indexes), c.CLI.Stdin, c.CLI.Long, c.CLI.Cfg)
		if c.Op == "prune" {
			var lens []string
			for _, ix := range c.CLI.Indexes {
				kind := "x"
				if ix.Caidx {
					kind = "d"
				}
				lens = append(lens, fmt.Sprintf("%d%s", len(ix.Chunks), kind))
			}
			desc["cli_indexes"] = strings.Join(lens, ",")
		}
		if obs, ok := o.Observed.(map[string]any); ok {
			obs["cli_args"], obs["cli_stderr"], obs["cli_exit"] = cli.args, cli.stderr, cli.exit
		}
	}

	what := fmt.Sprintf("%s store (%s mode), %s", beName, mode, c.Op)
	if cli != nil {
		what = "desync " + c.Op + " (child process) on a " + what
	}
	if c.Op == "verify" {
		what += fmt.Sprintf(" n=%d repair=%v", c.N, c.Repair)
	} else {
		what += fmt.Sprintf(" keep=%d ids", len(l.keep))
	}
	what += " returned " + describeErr(opErr)
	vd.emit(&o, what)
	return o
}

var spec = &hx.Spec[Case]{
	ID:    "C16",
	Level: "exploration",
	Rule: "cases = store content over <=12 chunk IDs (per ID and format: absent/valid/5 kinds of invalid) + junk, temp-file names, chunk-like names in wrong places, IDs outside the universe, " +
		"keep-set none/all/subset/+absent IDs, backend local | s3 (fake, with/without key prefix, paged listing, scripted DELETE/LIST faults) | sftp (fake ssh, 2 sessions), compressed/uncompressed mode, " +
		"local (library and command): store path spelled canonical | trailing slash | // inside | /./ inside | dir/../dir | relative (plain, ./, trailing slash) with the parent as working directory | symbolic link to the store directory (with and without trailing slash) | symbolic link in the middle of the path; optionally unlink made to fail in the directories of chosen chunks; op = Prune (local/sftp: optionally after 1..3 real StoreChunk calls, some with a blocked final rename) or LocalStore.Verify(n in 1..16, repair on/off); non-trivial prune = both formats present and >=1 unreferenced own-format chunk and >=1 junk/temp/misplaced file; " +
		"non-trivial verify = both formats present and >=1 invalid and >=1 valid own-format chunk; distinct by (backend, mode, op, per-ID states, extras, keep, n, repair, fault)",
	Assumptions: []string{
		"a chunk file is <4 hex>/<64 hex>[.cacnk] (lower case) whose directory equals the first 4 digits; anything else is not a chunk file",
		"abandoned temporary chunk file = the name shape the backend itself writes: local <prefix>/.tmp-cacnk.<decimal>, sftp <chunk path><decimal> of the own format; S3 has none; other temp-looking names are not judged",
		"content validity judged with crypto/sha512 and an own zstd decoder instance (klauspost)",
		"S3 = in-process fake (internal/fakes3), SFTP = pkg/sftp server over stdio (internal/fakessh) on a scratch directory, N=2 sessions (N=1 deadlocks in Prune: outside the statement)",
		"Verify exists for LocalStore only; Verify's findings are read from the 'chunk id <id> does not match its hash' lines on its writer",
		"unlink faults (local): the prefix directory of chosen chunks carries the immutable inode flag while the operation runs (unlink fails with EPERM even for root, reads work); under such a fault Verify with repair may leave the invalid chunk but must not print ': removed' for it; a successful Prune must also have removed the temporary files of such a directory",
		"real uploads: StoreChunk through the store under test, the final rename made to fail by a non-empty directory at the chunk's name (removed again before the prune); every non-chunk file such a call leaves behind counts as an abandoned temporary chunk file whatever its name",
	},
	Required: []string{
		"backend:local", "backend:s3", "backend:s3-prefix", "backend:sftp",
		"local:compressed", "local:uncompressed", "s3:compressed", "s3:uncompressed", "s3-prefix:compressed", "s3-prefix:uncompressed", "sftp:compressed", "sftp:uncompressed",
		"op:prune", "op:verify", "keep:none", "keep:all", "keep:subset", "keep:absent-ids",
		"has:both-formats", "has:tmp", "has:optional", "has:junk", "has:chunk-named", "has:outside-prefix", "has:invalid-own",
		"prune:ok:local", "prune:ok:s3", "prune:ok:sftp", "prune:error:local", "prune:error:s3", "prune:error:sftp", "prune:some-kept-some-dropped",
		"s3:fault-delivered", "s3:paged-listing", "verify:repair", "verify:no-repair", "verify:n>1", "verify:reported>0",
		"nontrivial:local:prune", "nontrivial:local:verify", "nontrivial:s3:prune", "nontrivial:s3-prefix:prune", "nontrivial:sftp:prune",
		"local:upload:ok", "sftp:upload:ok", "local:abandoned-tempfile:real-upload", "sftp:abandoned-tempfile:real-upload",
		"local:abandoned-tempfile:real-upload:prune-ok", "sftp:abandoned-tempfile:real-upload:prune-ok",
		"local:prune:unlink-fails", "local:prune:unlink-fails:delivered", "local:prune:unlink-fails:delivered:error-returned",
		"local:verify-repair:unlink-fails", "local:verify-repair:unlink-fails:delivered", "local:verify:unlink-fails",
		"local:store-path:canonical", "local:store-path:non-canonical", "local:store-path:non-canonical:prune", "local:store-path:non-canonical:verify",
		"local:store-path:trailing-slash", "local:store-path:double-slash", "local:store-path:dot", "local:store-path:dotdot",
		"local:store-path:relative", "local:store-path:relative-dot", "local:store-path:relative-trailing-slash",
		"local:store-path:symlink", "local:store-path:symlink-trailing-slash", "local:store-path:symlink-in-path", "local:store-path:symlink-relative", "local:store-path:symlink-chain", "local:store-path:symlink-chain-relative", "local:store-path:symlink-chain-3",
	},
	Gen: genCase,
	Run: run,
	// a case that never returns is a verdict (confirmed by a replay in a fresh process), not a timeout of the run
	Watchdog: hx.Pick(180*time.Second, 300*time.Second),
	Journal:  true, // Verify's workers are goroutines: a panic there kills the process
}

func TestMain(m *testing.M) {
	fakessh.MaybeServe() // a child started through the fake-ssh wrapper serves sftp and exits here
	hx.Main(m)
}

func TestRegress(t *testing.T) { hx.Regress(t, spec) }
func TestKnown(t *testing.T)   { hx.Known(t, spec) }
func TestReplay(t *testing.T)  { hx.Replay(t, spec); closeSFTP() }

// TestSelf: the oracle must flag each clause on synthetic before/after pairs and stay silent on
// the expected outcome.
func TestSelf(t *testing.T) {
	fail := func(format string, a ...any) {
		fmt.Printf("SELFTEST-FAILURE: "+format+"\n", a...)
		t.Fatalf(format, a...)
	}
	data := []byte("some chunk")
	h := hashID(data)
	h2 := hashID([]byte("another chunk"))
	for _, tc := range []struct {
		rel, backend string
		unc          bool
		want         string
	}{
		{h[:4] + "/" + h + ".cacnk", "local", false, kOwn},
		{h[:4] + "/" + h + ".cacnk", "local", true, kOther},
		{h[:4] + "/" + h, "s3", true, kOwn},
		{h[:4] + "/" + h, "sftp", false, kOther},
		{h2[:4] + "/" + h + ".cacnk", "local", false, kNonChunk},
		{h + ".cacnk", "local", false, kNonChunk},
		{h[:4] + "/sub/" + h + ".cacnk", "s3", false, kNonChunk},
		{strings.ToUpper(h[:4] + "/" + h), "local", true, kNonChunk},
		{h[:4] + "/.tmp-cacnk.123", "local", false, kTmp},
		{h[:4] + "/.tmp-cacnk.123", "sftp", false, kOptional},
		{h[:4] + "/.tmp-cacnk.123", "s3", false, kNonChunk},
		{".tmp-cacnk.123", "local", true, kOptional},
		{h[:4] + "/.tmp-cacnk-foo", "local", true, kOptional},
		{h[:4] + "/" + h + ".cacnk4711", "sftp", false, kTmp},
		{h[:4] + "/" + h + ".cacnk4711", "sftp", true, kOptional},
		{h[:4] + "/" + h + "4711", "sftp", true, kTmp},
		{h[:4] + "/" + h + ".cacnk4711", "local", false, kOptional},
		{h[:4] + "/" + h + ".cacnk4711", "s3", false, kNonChunk},
		{"README", "local", false, kNonChunk},
		{".cacnk", "sftp", false, kNonChunk},
	} {
		if got := classify(tc.rel, tc.backend, tc.unc).Kind; got != tc.want {
			fail("classify(%q, %s, unc=%v) = %s, want %s", tc.rel, tc.backend, tc.unc, got, tc.want)
		}
	}
	if !contentMatches(h, compress(data), false) || !contentMatches(h, data, true) ||
		contentMatches(h, data, false) || contentMatches(h, compress(data), true) || contentMatches(h, nil, true) ||
		contentMatches(h2, compress(data), false) || contentMatches(h, compress(data)[:8], false) {
		fail("contentMatches is wrong")
	}

	for _, be := range []string{"local", "s3", "sftp"} {
		v := view{backend: be, unc: false}
		tmp := h[:4] + "/.tmp-cacnk.99"
		if be == "sftp" {
			tmp = h[:4] + "/" + h + ".cacnk99"
		}
		own, ownKept, other, junk := h[:4]+"/"+h+".cacnk", h2[:4]+"/"+h2+".cacnk", h[:4]+"/"+h, "README"
		before := snap{own: "a", ownKept: "b", other: "c", junk: "d", tmp: "e"}
		keep := map[string]bool{h2: true}
		expect := snap{ownKept: "b", other: "c", junk: "d"}
		if be == "s3" {
			expect[tmp] = "e" // nothing is temporary in S3
		}
		if s := judgePrune(v, before, expect, keep, nil).sigs(); len(s) != 0 {
			fail("%s: expected outcome flagged: %v", be, s)
		}
		if s := judgePrune(v, before, before, keep, fmt.Errorf("x")).sigs(); len(s) != 0 {
			fail("%s: untouched store after an error flagged: %v", be, s)
		}
		without := func(s snap, k string) snap {
			out := snap{}
			for a, b := range s {
				if a != k {
					out[a] = b
				}
			}
			return out
		}
		p := "C16:" + be + ":prune:"
		checks := []struct {
			after snap
			err   error
			want  string
		}{
			{without(expect, ownKept), nil, p + "deleted-referenced"},
			{without(before, ownKept), fmt.Errorf("x"), p + "deleted-referenced"},
			{without(expect, other), nil, p + "deleted-other-format"},
			{without(before, other), fmt.Errorf("x"), p + "deleted-other-format"},
			{without(expect, junk), nil, p + "deleted-non-chunk:junk"},
			{without(before, tmp), nil, p + "unreferenced-left:compressed"},
		}
		if be != "s3" {
			checks = append(checks, struct {
				after snap
				err   error
				want  string
			}{without(before, own), nil, p + "temp-left"})
		} else {
			checks = append(checks, struct {
				after snap
				err   error
				want  string
			}{without(expect, tmp), nil, p + "deleted-non-chunk:junk"})
		}
		for _, ck := range checks {
			s := judgePrune(v, before, ck.after, keep, ck.err).sigs()
			found := false
			for _, x := range s {
				found = found || x == ck.want
			}
			if !found {
				fail("%s: synthetic outcome for %s not flagged (got %v)", be, ck.want, s)
			}
		}
	}

	// verify verdicts
	v := view{backend: "local", unc: true}
	good, bad, other := h[:4]+"/"+h, h2[:4]+"/"+h2, h[:4]+"/"+h+".cacnk"
	before := snap{good: string(data), bad: "garbage", other: "zzz", "README": "r"}
	repaired := snap{good: string(data), other: "zzz", "README": "r"}
	rep := func(ids ...string) map[string]bool {
		m := map[string]bool{}
		for _, i := range ids {
			m[i] = true
		}
		return m
	}
	if s := judgeVerify(v, before, before, rep(h2), false, vComplete).sigs(); len(s) != 0 {
		fail("verify: expected outcome flagged: %v", s)
	}
	if s := judgeVerify(v, before, repaired, rep(h2), true, vComplete).sigs(); len(s) != 0 {
		fail("verify: expected repair outcome flagged: %v", s)
	}
	for _, ck := range []struct {
		after    snap
		reported map[string]bool
		repair   bool
		want     string
	}{
		{before, rep(), false, "missed-invalid"},
		{before, rep(h, h2), false, "reported-valid"},
		{before, rep(h2), true, "repair-left-invalid"},
		{repaired, rep(h2), false, "removed-without-repair"},
		{snap{other: "zzz", "README": "r"}, rep(h2), true, "removed-valid"},
		{snap{good: string(data), "README": "r"}, rep(h2), true, "removed-other-format"},
		{snap{good: string(data), other: "zzz"}, rep(h2), true, "removed-non-chunk"},
		{before, rep(h2, hashID([]byte("nowhere"))), false, "reported-not-in-store"},
	} {
		s := judgeVerify(v, before, ck.after, ck.reported, ck.repair, vComplete).sigs()
		found := false
		for _, x := range s {
			found = found || x == "C16:local:verify:"+ck.want
		}
		if !found {
			fail("verify: synthetic outcome for %s not flagged (got %v)", ck.want, s)
		}
	}
	if s := judgeVerify(v, before, before, rep(), true, vExcused).sigs(); len(s) != 0 {
		fail("verify: interrupted run flagged: %v", s)
	}
	if s := judgeVerify(v, before, before, rep(), true, vAborted).sigs(); len(s) != 1 || s[0] != "C16:local:verify:aborted-incomplete" {
		fail("verify: aborted incomplete run: got %v", s)
	}
	ids, others := reportedInvalid("chunk id " + h + " does not match its hash " + h2 + ": removed\nsomething else\nchunk id " + h2 + " does not match its hash " + h + "\n")
	if len(ids) != 2 || !ids[h] || !ids[h2] || len(others) != 1 {
		fail("reportedInvalid parses wrongly: %v %v", ids, others)
	}
}

// TestEnum: a one-chunk universe, completely: backend x mode x what lies at the two canonical
// paths x referenced or not, each with one junk file, one temp file of each kind and one
// misplaced chunk name; and every Verify configuration on the same stores.
func TestEnum(t *testing.T) {
	// the grid is spread over the shards (every shard runs its residue class)
	turn := 0
	mine := func() bool {
		turn++
		return turn%hx.Shards() == hx.Shard()
	}
	defer closeSFTP()
	extras := []Extra{
		{Kind: "junk", Where: 0, Form: 0, Seed: 2},
		{Kind: "junk", Where: 1, Form: 6, Seed: 3},
		{Kind: "tmp", Where: 1, Form: 0, Seed: 77},
		{Kind: "sftptmp", Form: 0, Seed: 88},
		{Kind: "misplaced", Where: 0, Form: 0, Seed: 5},
		{Kind: "ghost", Ref: 1, Where: 1, Form: 0, Seed: 9},
		{Kind: "ghost", Ref: 2, Where: 1, Form: 1, Seed: 9},
	}
	type be struct{ name, prefix string }
	for _, b := range []be{{"local", ""}, {"s3", ""}, {"s3", "stores/a"}, {"sftp", ""}} {
		for _, unc := range []bool{false, true} {
			for cs := 0; cs <= 6; cs++ {
				for us := 0; us <= 6; us++ {
					if b.name == "sftp" && !hx.Thorough() && (cs > 2 || us > 2) {
						continue
					}
					for _, keep := range []bool{false, true} {
						for _, withMisplaced := range []bool{false, true} {
							ex := extras
							if !withMisplaced {
								ex = append(append([]Extra(nil), extras[:4]...), extras[5:]...)
							}
							c := Case{Backend: b.name, Prefix: b.prefix, Uncompressed: unc, Op: "prune",
								Chunks: []ChunkSpec{{Seed: 12, Len: 40, C: cs, U: us, Keep: keep}}, Extras: ex, KeepGhost: []int{2, 3}}
							if !mine() {
								continue
							}
							if !hx.Case(t, spec, c) {
								return
							}
						}
					}
					if b.name != "local" || (cs == 0 && us == 0) {
						continue
					}
					for _, n := range []int{1, 3} {
						for _, repair := range []bool{false, true} {
							c := Case{Backend: "local", Uncompressed: unc, Op: "verify", N: n, Repair: repair,
								Chunks: []ChunkSpec{{Seed: 12, Len: 40, C: cs, U: us}, {Seed: 13, Len: 9, C: 1, U: 1}}, Extras: extras}
							if !mine() {
								continue
							}
							if !hx.Case(t, spec, c) {
								return
							}
						}
					}
				}
			}
		}
	}
	what := "one-chunk store: backend(local,s3,s3+prefix) x mode x 7x7 states of the two canonical files x referenced/not x with/without a misplaced chunk name (prune); x n in {1,3} x repair (local verify)"
	if hx.Thorough() {
		what += "; sftp likewise"
	} else {
		what += "; sftp with states 0..2 only"
	}
	hx.Exhaustive(what)
}

// TestEnumUploads: a failed and a successful real upload followed by Prune, on both directory
// backends in both modes, with the failed chunk referenced or not.
func TestEnumUploads(t *testing.T) {
	if hx.Shard() != 0 {
		t.Skip()
	}
	defer closeSFTP()
	for _, be := range []string{"local", "sftp"} {
		for _, unc := range []bool{false, true} {
			for _, keep := range []bool{false, true} {
				for _, ups := range [][]Upload{{{Ref: 0, Block: true}}, {{Ref: 0}}, {{Ref: 1, Block: true}, {Ref: 0, Block: true}, {Ref: 2}}} {
					c := Case{Backend: be, Uncompressed: unc, Op: "prune", Uploads: ups,
						Chunks: []ChunkSpec{{Seed: 21, Len: 30, Keep: keep}, {Seed: 22, Len: 31, Keep: !keep}, {Seed: 23, Len: 200, C: 1, U: 1, Keep: keep}},
						Extras: []Extra{{Kind: "junk", Where: 0, Form: 0, Seed: 2}, {Kind: "tmp", Where: 1, Form: 0, Seed: 77}, {Kind: "sftptmp", Form: 0, Seed: 88}}}
					if !hx.Case(t, spec, c) {
						return
					}
				}
			}
		}
	}
	hx.Exhaustive("real uploads (rename blocked / successful) followed by prune: backend(local,sftp) x mode x referenced/not")
}

// TestEnumCLI: four index files of 1, 3, 5 and 2 entries (overlapping and disjoint, caibx and
// caidx) over ten stored chunks; `desync prune` with every order of every non-empty subset, in
// both store modes. The work is spread over the shards.
func TestEnumCLI(t *testing.T) {
	if cliBin() == "" {
		t.Skip("VERIF_DESYNC_BIN not set")
	}
	pool := []CLIIndex{{Chunks: []int{0}}, {Chunks: []int{1, 2, 3}, Caidx: true}, {Chunks: []int{3, 4, 5, 6, 0}}, {Chunks: []int{7, 7}, Caidx: true}}
	var orders [][]int
	var permute func(cur []int, used int)
	permute = func(cur []int, used int) {
		if len(cur) > 0 {
			orders = append(orders, append([]int(nil), cur...))
		}
		for i := range pool {
			if used&(1<<i) == 0 {
				permute(append(cur, i), used|1<<i)
			}
		}
	}
	permute(nil, 0)
	var chunks []ChunkSpec
	for i := 0; i < 10; i++ {
		chunks = append(chunks, ChunkSpec{Seed: uint64(100 + i), Len: 20 + 7*i, C: 1, U: 1})
	}
	extras := []Extra{{Kind: "junk", Where: 0, Form: 0, Seed: 2}, {Kind: "junk", Where: 1, Form: 6, Seed: 3}, {Kind: "tmp", Where: 1, Form: 0, Seed: 77}}
	i := 0
	for _, unc := range []bool{false, true} {
		for _, ord := range orders {
			i++
			if i%hx.Shards() != hx.Shard() {
				continue
			}
			cl := &CLICase{Long: i%2 == 0, Cfg: []string{"flag", "home"}[i/2%2]}
			for _, k := range ord {
				cl.Indexes = append(cl.Indexes, pool[k])
			}
			c := Case{Backend: "local", Uncompressed: unc, Op: "prune", Chunks: chunks, Extras: extras, CLI: cl}
			if !hx.Case(t, spec, c) {
				return
			}
		}
	}
	hx.Exhaustive("desync prune (child process): every order of every non-empty subset of four index files of 1/3/5/2 entries x store mode")
}

// TestEnumUnlink: unlink made to fail in the directory of one chunk, for Prune (chunk referenced
// or not) and Verify (chunk invalid or valid, repair on/off, n in {1,3}) in both store modes, as
// library calls and, with $VERIF_DESYNC_BIN, through the command.
func TestEnumUnlink(t *testing.T) {
	if hx.Shard() != 0 {
		t.Skip()
	}
	if !canBlockUnlink() {
		t.Skip("immutable flag not available")
	}
	extras := []Extra{{Kind: "junk", Where: 0, Form: 0, Seed: 2}, {Kind: "tmp", Where: 1, Ref: 2, Form: 0, Seed: 77}}
	vias := []bool{false}
	if cliBin() != "" {
		vias = append(vias, true)
	}
	for _, viaCLI := range vias {
		for _, unc := range []bool{false, true} {
			for _, keep := range []bool{false, true} {
				c := Case{Backend: "local", Uncompressed: unc, Op: "prune", UnlinkFail: []int{0}, Extras: extras,
					Chunks: []ChunkSpec{{Seed: 31, Len: 40, C: 1, U: 1, Keep: keep}, {Seed: 32, Len: 50, C: 1, U: 1, Keep: true}, {Seed: 33, Len: 60, C: 1, U: 1}}}
				if viaCLI {
					ix := CLIIndex{Chunks: []int{1}}
					if keep {
						ix.Chunks = []int{1, 0}
					}
					c.CLI = &CLICase{Indexes: []CLIIndex{ix}}
				}
				if !hx.Case(t, spec, c) {
					return
				}
			}
			for _, st := range []int{1, 2, 4} {
				for _, repair := range []bool{false, true} {
					for _, n := range []int{1, 3} {
						c := Case{Backend: "local", Uncompressed: unc, Op: "verify", N: n, Repair: repair, UnlinkFail: []int{0}, Extras: extras,
							Chunks: []ChunkSpec{{Seed: 31, Len: 40, C: st, U: st}, {Seed: 32, Len: 50, C: 1, U: 1}, {Seed: 33, Len: 60, C: 2, U: 2}}}
						if viaCLI {
							c.CLI = &CLICase{Long: n == 3}
						}
						if !hx.Case(t, spec, c) {
							return
						}
					}
				}
			}
		}
	}
	hx.Exhaustive("unlink failing in one chunk's directory: prune (referenced/not) and verify (valid/invalid x repair x n in {1,3}) x mode, library and command")
}

// TestEnumStorePath: every spelling of the store path x store mode x prune / verify with repair,
// as library calls and, with $VERIF_DESYNC_BIN, through the command (spread over the shards).
func TestEnumStorePath(t *testing.T) {
	extras := []Extra{{Kind: "junk", Where: 0, Form: 0, Seed: 2}, {Kind: "tmp", Where: 1, Ref: 2, Form: 0, Seed: 77}}
	vias := []bool{false}
	if cliBin() != "" {
		vias = append(vias, true)
	}
	i := 0
	for _, viaCLI := range vias {
		for _, sp := range storePathSpellings {
			for _, unc := range []bool{false, true} {
				for _, op := range []string{"prune", "verify"} {
					i++
					if i%hx.Shards() != hx.Shard() {
						continue
					}
					c := Case{Backend: "local", Uncompressed: unc, Op: op, N: 2, Repair: true, StorePath: sp, Extras: extras,
						Chunks: []ChunkSpec{{Seed: 41, Len: 40, C: 2, U: 2}, {Seed: 42, Len: 50, C: 1, U: 1, Keep: true}, {Seed: 43, Len: 60, C: 1, U: 1}}}
					if op == "prune" {
						c.Uploads = []Upload{{Ref: 0, Block: false}}
					}
					if viaCLI {
						c.Uploads = nil
						c.CLI = &CLICase{Indexes: []CLIIndex{{Chunks: []int{1}}}, Long: i%2 == 0}
					}
					if !hx.Case(t, spec, c) {
						return
					}
				}
			}
		}
	}
	hx.Exhaustive("store path spellings (canonical, trailing slash, //, /./, dir/../dir, relative plain/./trailing slash, symlink, symlink/, symlink in the path, relative symlink, chains of 2 and 3 symlinks with absolute and relative targets) x mode x prune/verify-repair, library and command")
}

func TestProp(t *testing.T) { hx.Prop(t, spec) }

// TestZZCleanup ends the shared fake-ssh sessions (they would also end with the process).
func TestZZCleanup(t *testing.T) { closeSFTP() }
