package c16

// The three store backends behind one small interface: populate through the back door
// (file system / fake bucket), snapshot through the back door, prune through desync.

import (
	"context"
	"fmt"
	"os"
	"path/filepath"
	"strings"
	"sync"

	"github.com/folbricht/desync"

	"verifharness/internal/fakes3"
	"verifharness/internal/fakessh"
	"verifharness/internal/hx"
)

// infra aborts the process as "inconclusive" (driver exit 2): the machinery, not desync, failed.
func infra(format string, a ...any) {
	fmt.Printf("SELFTEST-FAILURE: C16 infrastructure: "+format+"\n", a...)
	os.Exit(2)
}

type backend interface {
	put(key string, data []byte)
	snapshot() snap
	prune(ctx context.Context, keep map[desync.ChunkID]struct{}) error
	close()
}

// ------------------------------------------------------------------ directory based (local, sftp)

type dirBackend struct {
	spelled string // local: the store path as handed to desync
	cwd     string // local: working directory the spelling needs ("" = any)
	dir     string
	pruner  desync.PruneStore
	cleanup func()
}

func (b *dirBackend) put(key string, data []byte) {
	p := filepath.Join(b.dir, filepath.FromSlash(key))
	if err := os.MkdirAll(filepath.Dir(p), 0o755); err != nil {
		infra("mkdir for %s: %v", key, err)
	}
	if err := os.WriteFile(p, data, 0o644); err != nil {
		infra("write %s: %v", key, err)
	}
}

func (b *dirBackend) snapshot() snap {
	s := snap{}
	err := filepath.Walk(b.dir, func(p string, info os.FileInfo, err error) error {
		if err != nil {
			return err
		}
		if info.IsDir() {
			return nil
		}
		rel, err := filepath.Rel(b.dir, p)
		if err != nil {
			return err
		}
		data, err := os.ReadFile(p)
		if err != nil {
			return err
		}
		s[filepath.ToSlash(rel)] = string(data)
		return nil
	})
	if err != nil {
		infra("snapshot of %s: %v", b.dir, err)
	}
	return s
}

func (b *dirBackend) prune(ctx context.Context, keep map[desync.ChunkID]struct{}) error {
	return b.pruner.Prune(ctx, keep)
}

func (b *dirBackend) close() {
	if b.cleanup != nil {
		b.cleanup()
	}
}

// Spellings of a local store path (Case.StorePath). The relative ones need the parent of the
// store directory as working directory.
var storePathSpellings = []string{"canonical", "trailing-slash", "double-slash", "dot", "dotdot", "relative", "relative-dot", "relative-trailing-slash",
	"symlink", "symlink-trailing-slash", "symlink-in-path", "symlink-relative", "symlink-chain", "symlink-chain-relative", "symlink-chain-3"}

// spellStorePath returns how the clean absolute directory dir is written, the working
// directory that spelling needs ("" = any) and a function removing what it created (the
// symlink spellings put a link next to the store directory).
func spellStorePath(dir, spelling string) (spelled, cwd string, cleanup func()) {
	parent, base := filepath.Dir(dir), filepath.Base(dir)
	cleanup = func() {}
	link := func(name, target string) string {
		p := filepath.Join(parent, name)
		if err := os.Symlink(target, p); err != nil {
			infra("symlink %s: %v", p, err)
		}
		prev := cleanup
		cleanup = func() { os.Remove(p); prev() }
		return p
	}
	switch spelling {
	case "symlink": // the store path is a symbolic link to the store directory
		return link(base+".lnk", dir), "", cleanup
	case "symlink-trailing-slash":
		return link(base+".lnk", dir) + "/", "", cleanup
	case "symlink-relative": // a link whose target is relative to the link's own directory
		return link(base+".lnk", base), "", cleanup
	case "symlink-chain": // link -> link -> store directory (a "current" link behind a stable name)
		return link(base+".lnk", link(base+".cur", dir)), "", cleanup
	case "symlink-chain-relative": // the same with relative targets
		link(base+".cur", base)
		return link(base+".lnk", base+".cur"), "", cleanup
	case "symlink-chain-3": // three links, absolute and relative mixed
		link(base+".a", base)
		b := link(base+".b", filepath.Join(parent, base+".a"))
		return link(base+".lnk", filepath.Base(b)) + "/", "", cleanup
	case "symlink-in-path": // a symbolic link to the parent directory in the middle of the path
		return link(base+".mid", parent) + "/" + base, "", cleanup
	}
	spelled, cwd = spellPlain(dir, spelling)
	return spelled, cwd, cleanup
}

func spellPlain(dir, spelling string) (spelled, cwd string) {
	parent, base := filepath.Dir(dir), filepath.Base(dir)
	switch spelling {
	case "trailing-slash":
		return dir + "/", ""
	case "double-slash":
		return parent + "//" + base, ""
	case "dot":
		return parent + "/./" + base, ""
	case "dotdot":
		return dir + "/../" + base, ""
	case "relative":
		return base, parent
	case "relative-dot":
		return "./" + base, parent
	case "relative-trailing-slash":
		return base + "/", parent
	}
	return dir, ""
}

// openLocal opens a LocalStore on a fresh scratch directory, naming it in the given spelling.
// For a relative spelling the process changes its working directory until cleanup.
func openLocal(unc bool, spelling string) (*dirBackend, desync.LocalStore) {
	dir := hx.Scratch("c16local")
	spelled, cwd, unspell := spellStorePath(dir, spelling)
	restore := func() {}
	if cwd != "" {
		old, err := os.Getwd()
		if err != nil {
			infra("getwd: %v", err)
		}
		if err := os.Chdir(cwd); err != nil {
			infra("chdir %s: %v", cwd, err)
		}
		restore = func() {
			if err := os.Chdir(old); err != nil {
				infra("chdir back to %s: %v", old, err)
			}
		}
	}
	s, err := desync.NewLocalStore(spelled, desync.StoreOptions{Uncompressed: unc})
	if err != nil {
		infra("NewLocalStore(%q): %v", spelled, err)
	}
	return &dirBackend{dir: dir, spelled: spelled, cwd: cwd, pruner: s, cleanup: func() { restore(); unspell(); os.RemoveAll(dir) }}, s
}

// One SFTP store (two sessions = two child processes) per store mode and test process: a session
// costs 20-40 ms to start and desync never reaps its ssh children. The store object is bound to
// its directory, so the directory is kept and emptied between cases.
var sftpShared struct {
	mu     sync.Mutex
	stores [2]*desync.SFTPStore
	dirs   [2]string
}

func emptyDir(dir string) {
	ents, err := os.ReadDir(dir)
	if err != nil {
		infra("readdir %s: %v", dir, err)
	}
	for _, e := range ents {
		if err := os.RemoveAll(filepath.Join(dir, e.Name())); err != nil {
			infra("cleaning %s: %v", dir, err)
		}
	}
}

func openSFTP(unc bool) *dirBackend {
	sh := &sftpShared
	sh.mu.Lock()
	defer sh.mu.Unlock()
	i := 0
	if unc {
		i = 1
	}
	if sh.stores[i] == nil {
		wrap := hx.Scratch("c16ssh")
		dir := hx.Scratch("c16sftp")
		cleanup, err := fakessh.Setup(wrap)
		if err != nil {
			infra("fakessh.Setup: %v", err)
		}
		// N = 2: with a single session SFTPStore.Prune blocks forever as soon as it has something
		// to delete (it holds its session while RemoveChunk waits for one) - outside the statement.
		s, err := fakessh.SFTPStore(dir, desync.StoreOptions{N: 2, Uncompressed: unc})
		cleanup() // sessions are running: restore $CASYNC_SSH_PATH, drop the wrapper
		os.RemoveAll(wrap)
		if err != nil {
			infra("cannot open SFTPStore through fakessh: %v", err)
		}
		sh.stores[i], sh.dirs[i] = s, dir
	}
	emptyDir(sh.dirs[i])
	dir := sh.dirs[i]
	return &dirBackend{dir: dir, pruner: sh.stores[i], cleanup: func() { emptyDir(dir) }}
}

func closeSFTP() {
	sh := &sftpShared
	sh.mu.Lock()
	defer sh.mu.Unlock()
	for i, s := range sh.stores {
		if s != nil {
			s.Close()
			sh.stores[i] = nil
		}
	}
}

// ------------------------------------------------------------------ S3

const s3Bucket = "c16store"

type s3Backend struct {
	srv       *fakes3.Server
	store     desync.S3Store
	restore   func()
	pageSize  int
	fault     *Fault
	delivered int
}

func openS3(prefix string, unc bool, pageSize int, fault *Fault) *s3Backend {
	srv := fakes3.New()
	// Connection re-use is safe here: the scripted faults used (403, truncated LIST body) are
	// real HTTP answers, which Go's transport never replays; one connection per request would
	// leave ~10 sockets in TIME_WAIT per case.
	srv.KeepAlive(true)
	restore := fakes3.NoRetry()
	s, err := fakes3.ChunkStore(srv, s3Bucket, prefix, desync.StoreOptions{Uncompressed: unc})
	if err != nil {
		infra("fakes3.ChunkStore: %v", err)
	}
	return &s3Backend{srv: srv, store: s, restore: restore, pageSize: pageSize, fault: fault}
}

func (b *s3Backend) put(key string, data []byte) { b.srv.Put(s3Bucket, key, data) }

func (b *s3Backend) snapshot() snap {
	s := snap{}
	for _, k := range b.srv.Keys(s3Bucket) {
		d, _ := b.srv.Get(s3Bucket, k)
		s[k] = string(d)
	}
	return s
}

func (b *s3Backend) prune(ctx context.Context, keep map[desync.ChunkID]struct{}) error {
	b.srv.ResetLog()
	b.srv.SetPageSize(b.pageSize)
	if f := b.fault; f != nil {
		mode := fakes3.M403
		kind := fakes3.KDelete
		if f.Kind == "LIST" {
			kind = fakes3.KList
			if f.Mode == "truncate" {
				mode = fakes3.MTruncate
			}
		}
		b.srv.FailAt(kind, f.At, mode)
	}
	before := b.srv.Delivered()
	err := b.store.Prune(ctx, keep)
	b.delivered = b.srv.Delivered() - before
	b.srv.ClearFaults()
	return err
}

func (b *s3Backend) close() {
	b.srv.Close()
	b.restore()
}

func s3KeyPrefix(prefix string) string {
	if p := strings.Trim(prefix, "/"); p != "" {
		return p + "/"
	}
	return ""
}
