package c15

// CLI part, machinery: start the freshly built desync CLI ($VERIF_DESYNC_BIN) as
// `chunk-server` / `index-server` in its own process group on a loopback port, wait until the
// child itself owns the listening socket, and terminate + reap it. Everything that goes wrong
// here (child does not start, does not stop, a request times out) is an infrastructure problem
// and ends the shard as inconclusive; none of it is ever a verdict.

import (
	"fmt"
	"net"
	"os"
	"os/exec"
	"path/filepath"
	"strconv"
	"strings"
	"sync"
	"syscall"
	"time"

	"golang.org/x/sys/unix"

	"verifharness/internal/hx"
)

const (
	cliStartTimeout = 30 * time.Second // child must own its listening socket by then
	cliStopTimeout  = 20 * time.Second // child must have exited by then after SIGTERM
	cliPortLo       = 30000            // below Linux' ephemeral range (32768..), above what sibling checks use
	cliPortHi       = 32760
)

var (
	cliBinOverride string               // self-test: a stand-in for the CLI
	cliSabotage    func(*cliLaunch)     // self-test: start the server differently from what the case says
	cliLive        = map[int]*cliProc{} // children that have not been reaped yet
	cliLiveMu      sync.Mutex
	cliStarted     []int // pids of every child ever started by this process (hygiene self-test)
	cliPortSeq     int
)

func cliBin() string {
	if cliBinOverride != "" {
		return cliBinOverride
	}
	return os.Getenv("VERIF_DESYNC_BIN")
}

func cliEnabled() bool { return cliBin() != "" }

// cliInfra reports a problem of the harness or the machine: the driver maps it to "inconclusive".
// Every child still alive is killed and reaped first.
func cliInfra(format string, a ...any) {
	cliKillAll()
	msg := fmt.Sprintf(format, a...)
	msg = strings.ReplaceAll(msg, "\n", "\n | ") // child output must not look like a crash of the test process
	fmt.Printf("SELFTEST-FAILURE: C15 CLI part: %s\nSELFTEST-FAILURE (see above): %s\n", msg, strings.SplitN(msg, "\n", 2)[0])
	os.Exit(3)
}

func cliKillAll() {
	cliLiveMu.Lock()
	ps := make([]*cliProc, 0, len(cliLive))
	for _, p := range cliLive {
		ps = append(ps, p)
	}
	cliLiveMu.Unlock()
	for _, p := range ps {
		p.kill()
	}
}

// cliLaunch is how one server process is started.
type cliLaunch struct {
	Args []string // without the listen address
	Env  []string
	Dir  string
	Long bool   // --listen instead of -l
	Err  string // file receiving stdout+stderr of the child
}

type cliProc struct {
	cmd     *exec.Cmd
	pid     int
	addr    string
	errPath string
	done    chan struct{} // closed when the child has been reaped
	mu      sync.Mutex
	exited  bool
	werr    error
}

// nextPort walks through this shard's band of the port range.
func nextPort() int {
	shards := hx.Shards()
	band := (cliPortHi - cliPortLo) / shards
	if band < 8 {
		band, shards = cliPortHi-cliPortLo, 1
	}
	base := cliPortLo + (hx.Shard()%shards)*band
	cliPortSeq++
	return base + (os.Getpid()*13+cliPortSeq)%band
}

// listenInode finds the inode of the socket listening on 127.0.0.1:port.
func listenInode(port int) (string, bool) {
	b, err := os.ReadFile("/proc/net/tcp")
	if err != nil {
		return "", false
	}
	want := fmt.Sprintf("0100007F:%04X", port)
	for _, line := range strings.Split(string(b), "\n") {
		f := strings.Fields(line)
		if len(f) >= 10 && f[1] == want && f[3] == "0A" {
			return f[9], true
		}
	}
	return "", false
}

// socketInodes lists the inodes of the sockets pid holds descriptors of.
func socketInodes(pid int) map[string]bool {
	dir := "/proc/" + strconv.Itoa(pid) + "/fd"
	ents, err := os.ReadDir(dir)
	if err != nil {
		return nil
	}
	out := map[string]bool{}
	for _, e := range ents {
		if l, err := os.Readlink(filepath.Join(dir, e.Name())); err == nil && strings.HasPrefix(l, "socket:[") {
			out[strings.TrimSuffix(strings.TrimPrefix(l, "socket:["), "]")] = true
		}
	}
	return out
}

// startCLI starts the server and returns once the child itself listens on the chosen port.
// The calling goroutine must be locked to its OS thread until the child is reaped (Pdeathsig).
func startCLI(l cliLaunch) *cliProc {
	var lastErr string
	for attempt := 0; attempt < 25; attempt++ {
		port := nextPort()
		addr := "127.0.0.1:" + strconv.Itoa(port)
		// a port somebody listens on already is skipped without starting a process
		ln, err := net.Listen("tcp", addr)
		if err != nil {
			lastErr = err.Error()
			continue
		}
		ln.Close()
		p, msg := startCLIOn(l, addr, port)
		if p != nil {
			return p
		}
		lastErr = msg
	}
	cliInfra("no server could be started in 25 attempts; last problem: %s", lastErr)
	return nil
}

func startCLIOn(l cliLaunch, addr string, port int) (*cliProc, string) {
	ef, err := os.OpenFile(l.Err, os.O_CREATE|os.O_WRONLY|os.O_TRUNC, 0o644)
	if err != nil {
		cliInfra("cannot create %s: %v", l.Err, err)
	}
	lf := "-l"
	if l.Long {
		lf = "--listen"
	}
	cmd := exec.Command(cliBin(), append(append([]string{}, l.Args...), lf, addr)...)
	cmd.Dir = l.Dir
	cmd.Env = l.Env
	cmd.Stdout, cmd.Stderr = ef, ef
	cmd.SysProcAttr = &syscall.SysProcAttr{Setpgid: true, Pdeathsig: syscall.SIGKILL}
	err = cmd.Start()
	ef.Close()
	if err != nil {
		cliInfra("cannot start %s: %v", cliBin(), err)
	}
	p := &cliProc{cmd: cmd, pid: cmd.Process.Pid, addr: addr, errPath: l.Err, done: make(chan struct{})}
	cliLiveMu.Lock()
	cliLive[p.pid] = p
	cliStarted = append(cliStarted, p.pid)
	cliLiveMu.Unlock()
	go func() {
		// learn of the exit without reaping, so that pid and group id cannot be reused while the
		// rest of the group is killed; only then reap
		for {
			var info unix.Siginfo
			if err := unix.Waitid(unix.P_PID, p.pid, &info, unix.WEXITED|unix.WNOWAIT, nil); err != syscall.EINTR {
				break
			}
		}
		p.mu.Lock()
		p.exited = true
		syscall.Kill(-p.pid, syscall.SIGKILL)
		p.werr = cmd.Wait()
		p.mu.Unlock()
		cliLiveMu.Lock()
		delete(cliLive, p.pid)
		cliLiveMu.Unlock()
		close(p.done)
	}()

	deadline := time.Now().Add(cliStartTimeout)
	sleep := 500 * time.Microsecond
	for {
		select {
		case <-p.done:
			out := p.output()
			if strings.Contains(out, "address already in use") {
				return nil, "port " + addr + " taken: " + cliTail(out, 300)
			}
			cliInfra("desync %v exited during start-up (%v):\n%s", cmd.Args[1:], p.werr, cliTail(out, 1500))
		default:
		}
		// ready = the child itself holds the socket that listens on the port (a successful connect
		// alone would not tell whose listener answered). The table of all TCP sockets is only read
		// once the child has a socket at all.
		if socks := socketInodes(p.pid); len(socks) > 0 {
			if ino, ok := listenInode(port); ok {
				if socks[ino] {
					return p, ""
				}
				// somebody else got the port between our test and the child's bind
				p.kill()
				return nil, "port " + addr + " is held by another process"
			}
		}
		if time.Now().After(deadline) {
			p.kill()
			cliInfra("desync %v did not listen on %s within %s:\n%s", cmd.Args[1:], addr, cliStartTimeout, cliTail(p.output(), 1500))
		}
		time.Sleep(sleep)
		if sleep < 8*time.Millisecond {
			sleep *= 2
		}
	}
}

func (p *cliProc) hasExited() bool {
	select {
	case <-p.done:
		return true
	default:
		return false
	}
}

// signal delivers sig unless the child has been (or is being) reaped.
func (p *cliProc) signal(sig syscall.Signal, group bool) bool {
	p.mu.Lock()
	defer p.mu.Unlock()
	if p.exited {
		return false
	}
	target := p.pid
	if group {
		target = -p.pid
	}
	return syscall.Kill(target, sig) == nil
}

// kill removes the child and its group unconditionally and waits until it is reaped.
func (p *cliProc) kill() {
	p.signal(syscall.SIGKILL, true)
	<-p.done
}

// stop is the regular end: SIGTERM, wait for the exit, reap. ok=false: the child had to be killed.
func (p *cliProc) stop() (exit int, signaled bool, ok bool) {
	p.signal(syscall.SIGTERM, false)
	t := time.NewTimer(cliStopTimeout)
	defer t.Stop()
	select {
	case <-p.done:
	case <-t.C:
		p.kill()
		return -1, true, false
	}
	if ee, isExit := p.werr.(*exec.ExitError); isExit {
		exit = ee.ExitCode()
		if ws, isWS := ee.Sys().(syscall.WaitStatus); isWS && ws.Signaled() {
			signaled = true
		}
	}
	return exit, signaled, true
}

func (p *cliProc) output() string {
	b, _ := os.ReadFile(p.errPath)
	return string(b)
}

func cliTail(s string, n int) string {
	if len(s) > n {
		return "…" + s[len(s)-n:]
	}
	return s
}

// portListening reports whether anybody listens on the loopback address (hygiene self-test).
func portListening(addr string) bool {
	_, ps, _ := net.SplitHostPort(addr)
	port, _ := strconv.Atoi(ps)
	_, ok := listenInode(port)
	return ok
}
