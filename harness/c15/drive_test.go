package c15

// How a request reaches the handler: directly (ServeHTTP with the literal URL.Path) or as
// raw bytes over TCP to an http.Server with ServeMux("/") as cmd/desync wires it.
// Plus the recording wrappers around the store and around the handler.

import (
	"bufio"
	"bytes"
	"context"
	"errors"
	"fmt"
	"io"
	"log"
	"net"
	"net/http"
	"net/url"
	"os"
	"strings"
	"sync"
	"time"

	"github.com/folbricht/desync"
)

// ---------------------------------------------------------------- store call recorders

type callLog struct {
	mu    sync.Mutex
	calls []string
	open  []io.Closer
}

func (l *callLog) add(format string, a ...any) {
	l.mu.Lock()
	l.calls = append(l.calls, fmt.Sprintf(format, a...))
	l.mu.Unlock()
}

func (l *callLog) take() []string {
	l.mu.Lock()
	defer l.mu.Unlock()
	c := l.calls
	l.calls = nil
	return c
}

func (l *callLog) closeAll() {
	l.mu.Lock()
	defer l.mu.Unlock()
	for _, c := range l.open {
		c.Close()
	}
	l.open = nil
}

// recStore records every call that reaches the chunk store.
type recStore struct {
	inner desync.WriteStore
	log   *callLog
}

func (r recStore) GetChunk(id desync.ChunkID) (*desync.Chunk, error) {
	r.log.add("GetChunk %s", id.String())
	return r.inner.GetChunk(id)
}
func (r recStore) HasChunk(id desync.ChunkID) (bool, error) {
	r.log.add("HasChunk %s", id.String())
	return r.inner.HasChunk(id)
}
func (r recStore) StoreChunk(c *desync.Chunk) error {
	id := c.ID()
	r.log.add("StoreChunk %s", id.String())
	return r.inner.StoreChunk(c)
}
func (r recStore) Close() error   { return nil }
func (r recStore) String() string { return r.inner.String() }

// recIndexStore records every call that reaches the index store. Readers handed out are
// remembered and closed at the end of the case (the HEAD handler never closes them).
type recIndexStore struct {
	inner desync.IndexWriteStore
	log   *callLog
}

func (r recIndexStore) GetIndexReader(name string) (io.ReadCloser, error) {
	r.log.add("GetIndexReader %q", name)
	rc, err := r.inner.GetIndexReader(name)
	if err == nil && rc != nil {
		r.log.mu.Lock()
		r.log.open = append(r.log.open, rc)
		r.log.mu.Unlock()
	}
	return rc, err
}
func (r recIndexStore) GetIndex(name string) (desync.Index, error) {
	r.log.add("GetIndex %q", name)
	return r.inner.GetIndex(name)
}
func (r recIndexStore) StoreIndex(name string, idx desync.Index) error {
	r.log.add("StoreIndex %q", name)
	return r.inner.StoreIndex(name, idx)
}
func (r recIndexStore) Close() error   { return nil }
func (r recIndexStore) String() string { return r.inner.String() }

// ---------------------------------------------------------------- handler tap

// seen is what the handler under test was given and what it answered.
type seen struct {
	Reached bool
	Path    string
	Auth    []string
	Status  int
	Body    []byte
	Panic   string
}

type tapWriter struct {
	http.ResponseWriter
	status int
	body   bytes.Buffer
}

func (w *tapWriter) WriteHeader(code int) {
	if w.status == 0 {
		w.status = code
	}
	w.ResponseWriter.WriteHeader(code)
}

func (w *tapWriter) Write(b []byte) (int, error) {
	if w.status == 0 {
		w.status = 200
	}
	if w.body.Len() < 1<<20 {
		w.body.Write(b)
	}
	return w.ResponseWriter.Write(b)
}

// tap sits where cmd/desync's optional request logger sits: between mux and handler.
type tap struct {
	h  http.Handler
	mu sync.Mutex
	s  seen
}

func (t *tap) ServeHTTP(w http.ResponseWriter, r *http.Request) {
	t.mu.Lock()
	t.s.Reached = true
	t.s.Path = r.URL.Path
	t.s.Auth = append([]string(nil), r.Header.Values("Authorization")...)
	t.mu.Unlock()
	tw := &tapWriter{ResponseWriter: w}
	defer func() {
		p := recover()
		t.mu.Lock()
		t.s.Status = tw.status
		if tw.status == 0 {
			t.s.Status = 200 // a handler that writes nothing answers 200
		}
		t.s.Body = append([]byte(nil), tw.body.Bytes()...)
		if p != nil {
			t.s.Panic = fmt.Sprint(p)
		}
		t.mu.Unlock()
		if p != nil {
			tw.ResponseWriter.WriteHeader(http.StatusInternalServerError)
		}
	}()
	t.h.ServeHTTP(tw, r)
}

func (t *tap) take() seen {
	t.mu.Lock()
	defer t.mu.Unlock()
	s := t.s
	t.s = seen{}
	return s
}

// ---------------------------------------------------------------- drivers

type response struct {
	Status int // 0 = no parsable response arrived
	Body   []byte
	Err    string
}

type driver interface {
	do(r Req, body []byte, hasBody bool) response
	stop()
}

// directDriver calls ServeHTTP with the path exactly as given.
type directDriver struct{ h http.Handler }

func (d directDriver) stop() {}

func (d directDriver) do(r Req, body []byte, hasBody bool) response {
	req := &http.Request{
		Method: r.Method, URL: &url.URL{Path: r.Path}, Proto: "HTTP/1.1", ProtoMajor: 1, ProtoMinor: 1,
		Header: http.Header{}, Host: "c15.test", RequestURI: r.Path, RemoteAddr: "192.0.2.1:1234", Body: http.NoBody,
	}
	if hasBody {
		req.Body = io.NopCloser(bytes.NewReader(body))
		req.ContentLength = int64(len(body))
	}
	name := r.HName
	if name == "" {
		name = "Authorization"
	}
	if len(r.Auth) > 0 {
		req.Header[http.CanonicalHeaderKey(name)] = append([]string(nil), r.Auth...)
	}
	req = req.WithContext(context.Background())
	w := &memWriter{h: http.Header{}}
	d.h.ServeHTTP(w, req)
	if w.status == 0 {
		w.status = 200
	}
	return response{Status: w.status, Body: w.body.Bytes()}
}

type memWriter struct {
	h      http.Header
	status int
	body   bytes.Buffer
}

func (w *memWriter) Header() http.Header { return w.h }
func (w *memWriter) WriteHeader(c int) {
	if w.status == 0 {
		w.status = c
	}
}
func (w *memWriter) Write(b []byte) (int, error) {
	if w.status == 0 {
		w.status = 200
	}
	return w.body.Write(b)
}

// serverDriver runs a real http.Server for the duration of one case.
type serverDriver struct {
	srv     *http.Server
	network string
	addr    string
	done    chan struct{}
	conns   sync.WaitGroup
}

var sockSeq int

// listen opens the listener of one case. A TCP listener per case plus one connection per
// request leaves tens of thousands of loopback ports in TIME_WAIT when 16 shards run (bind
// then fails with EADDRINUSE, also for every other check on the machine), so the server
// listens on a socket in Linux' abstract unix namespace: same http.Server, same bytes, no
// ports. Loopback TCP is the fallback where that is not available.
func listen() (net.Listener, string) {
	for try := 0; try < 3; try++ {
		sockSeq++
		ln, err := net.Listen("unix", fmt.Sprintf("@verif-c15-%d-%d", os.Getpid(), sockSeq))
		if err == nil {
			return ln, "unix"
		}
	}
	var err error
	for try := 0; try < 5; try++ {
		var ln net.Listener
		if ln, err = net.Listen("tcp", "127.0.0.1:0"); err == nil {
			return ln, "tcp"
		}
		time.Sleep(200 * time.Millisecond)
	}
	panic("c15: cannot open a listener: " + err.Error())
}

func newServerDriver(h http.Handler) *serverDriver {
	mux := http.NewServeMux()
	mux.Handle("/", h) // cmd/desync: http.Handle("/", handler)
	ln, network := listen()
	d := &serverDriver{network: network, addr: ln.Addr().String(), done: make(chan struct{})}
	d.srv = &http.Server{
		Handler:  mux,
		ErrorLog: log.New(io.Discard, "", 0),
		ConnState: func(c net.Conn, st http.ConnState) {
			switch st {
			case http.StateNew:
				d.conns.Add(1)
			case http.StateClosed, http.StateHijacked:
				d.conns.Done()
			}
		},
	}
	go func() {
		d.srv.Serve(ln)
		close(d.done)
	}()
	return d
}

// stop closes listener and connections and waits until every server goroutine is gone.
func (d *serverDriver) stop() {
	d.srv.Close()
	<-d.done
	d.conns.Wait()
}

// do writes the request as raw bytes (so that the request target arrives unchanged) and reads
// until the server closes the connection, which it does only after the handler has returned.
func (d *serverDriver) do(r Req, body []byte, hasBody bool) response {
	resp, _ := wireDo(d.network, d.addr, r, body, hasBody)
	return resp
}

// wireDo sends one request over a fresh connection. timedOut reports that the 60 s safety net
// (dial, write or read) was hit; no verdict may be based on such a response.
func wireDo(network, addr string, r Req, body []byte, hasBody bool) (resp response, timedOut bool) {
	conn, err := net.DialTimeout(network, addr, 20*time.Second)
	if err != nil {
		return response{Err: "dial: " + err.Error()}, errors.Is(err, os.ErrDeadlineExceeded)
	}
	defer conn.Close()
	conn.SetDeadline(time.Now().Add(60 * time.Second)) // safety net only; no verdict depends on it
	var b bytes.Buffer
	b.WriteString(r.Method + " " + r.Path + " HTTP/1.1\r\nHost: c15.test\r\n")
	name := r.HName
	if name == "" {
		name = "Authorization"
	}
	for _, v := range r.Auth {
		b.WriteString(name + ": " + v + "\r\n")
	}
	if hasBody {
		fmt.Fprintf(&b, "Content-Length: %d\r\n", len(body))
	}
	b.WriteString("Connection: close\r\n\r\n")
	b.Write(body)
	_, werr := conn.Write(b.Bytes())
	raw, rerr := io.ReadAll(conn)
	timedOut = errors.Is(werr, os.ErrDeadlineExceeded) || errors.Is(rerr, os.ErrDeadlineExceeded)
	hr, err := http.ReadResponse(bufio.NewReader(bytes.NewReader(raw)), &http.Request{Method: strings.ToUpper(r.Method)})
	if err != nil {
		return response{Err: fmt.Sprintf("no response (write: %v, read: %v, parse: %v, %d bytes)", werr, rerr, err, len(raw))}, timedOut
	}
	rb, _ := io.ReadAll(hr.Body)
	hr.Body.Close()
	return response{Status: hr.StatusCode, Body: rb}, timedOut
}
